"""Free-text parts of MANIFEST.json (level text, trusted base, technique) per property."""

BASELINE_CMD = "cd /repo && go test -json -vet=off -count=1 -timeout 25m ./..."

ENGINES = [
    {"name": "rapid-pbt", "path": "/verif/harness", "serves_properties": ["C01", "C02", "C03", "C04", "C05", "C06", "C07", "C08", "C09", "C10", "C11", "C12", "C13", "C14", "C15", "C16", "C17", "C18", "C19", "C20"],
     "kind_free_text": "pgregory.net/rapid v1.3.0 properties and state machines (plus deterministic enumerations of finite sub-domains) injected into circl by go -overlay/-modfile; driver /verif/check.py; shared library harness/zz_verif/vlib; independent reference implementations harness/zz_verif/ref/*"},
    {"name": "go-native-fuzz", "path": "/verif/harness/zz_verif/c10core", "serves_properties": ["C10"],
     "kind_free_text": "coverage-guided go test -fuzz targets over the decoder registry (thorough tier), corpus seeded with valid encodings and hostile constants, known findings excluded inside the target"},
    {"name": "race-stress", "path": "/verif/harness/zz_verif/c11", "serves_properties": ["C11"],
     "kind_free_text": "generated concurrency plans and cold-start scenarios under the Go race detector, results compared with sequential execution; race reports parsed into finding keys by the driver"},
    {"name": "config-diff", "path": "/verif/harness/zz_verif/c14", "serves_properties": ["C14", "C06", "C12", "C13", "C15", "C03", "C04"],
     "kind_free_text": "the same generated transcript / checks executed under build and CPU configurations (purego tag, GODEBUG=cpu.avx2/bmi2/adx=off) and compared"},
]

NOTES = ("All checks are generated-input searches (property-based testing, enumeration of finite sub-domains, bounded native fuzzing) against explicit oracles; "
         "exit 0 = held on everything explored, 1 = VIOLATION line(s), 2 = inconclusive (harness build failure, self-test failure, budget). "
         "Known findings live in /verif/KNOWN_FINDINGS.txt.")

NA = {}

from props import MANIFEST_TEXT as CHECKS
