"""Free-text parts of MANIFEST.json (level text, trusted base, technique) per property."""

BASELINE_CMD = "cd /repo && go test -json -vet=off -count=1 -timeout 25m ./..."

ENGINES = [
    {"name": "rapid-pbt", "path": "/verif/harness", "serves_properties": [], "kind_free_text": "pgregory.net/rapid v1.3.0 properties and state machines injected into circl by go -overlay/-modfile; driver /verif/check.py"},
]

NOTES = ("All checks are generated-input searches (property-based testing, enumeration of finite sub-domains, bounded native fuzzing) against explicit oracles; "
         "exit 0 = held on everything explored, 1 = VIOLATION line(s), 2 = inconclusive (harness build failure, self-test failure, budget). "
         "Known findings live in /verif/KNOWN_FINDINGS.txt.")

NA = {}

from props import MANIFEST_TEXT as CHECKS
