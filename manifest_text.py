"""Free-text parts of MANIFEST.json (level text, trusted base, technique) per property."""

BASELINE_CMD = "cd /repo && go test -json -vet=off -count=1 -timeout 25m ./..."

ENGINES = [
    {"name": "rapid-pbt", "path": "/verif/harness", "serves_properties": [], "kind_free_text": "pgregory.net/rapid v1.3.0 properties and state machines injected into circl by go -overlay/-modfile; driver /verif/check.py"},
]

NOTES = ("All checks are generated-input searches (property-based testing, enumeration of finite sub-domains, bounded native fuzzing) against explicit oracles; "
         "exit 0 = held on everything explored, 1 = VIOLATION line(s), 2 = inconclusive (harness build failure, self-test failure, budget). "
         "Known findings live in /verif/KNOWN_FINDINGS.txt.")

NA = {}

CHECKS = {
    "C01": {
        "technique": "property-based testing (rapid): round-trip, determinism and tamper metamorphic relations over all 21 KEM schemes; exhaustive single-bit-flip enumeration in the thorough tier; implicit-rejection secret recomputed with x/crypto SHAKE256",
        "text": "Generated-input search over (scheme, key seed, encapsulation seed, alteration) with edge-biased seeds: decapsulation inverts encapsulation, derivation/encapsulation/decapsulation are pure functions, sizes match, marshal round trips behave identically, and no altered ciphertext decapsulates to the honest secret unless only non-canonical bits of a raw X25519/X448 share changed; implicit-rejection secrets of ML-KEM/Kyber are compared with J(z||c) computed independently. Exploration is the right level: the domain (all seeds x all alterations) is astronomically large and the oracle is exact per case.",
        "note": "trusts x/crypto/sha3 and math/big for the reference values; 'bound' classification of raw X-share bytes follows RFC 7748 canonicalisation computed with math/big; never establishes absence",
    },
}
