#!/usr/bin/env python3
"""Regenerates MANIFEST.json from props.py (run after editing props.py)."""
import json, os, sys
sys.path.insert(0, os.path.dirname(os.path.abspath(__file__)))
from props import PROPS
import manifest_text as MT

ids = [json.loads(l)["id"] for l in open(os.path.join(os.path.dirname(os.path.abspath(__file__)), "properties.jsonl"))]
baseline = json.load(open("/root/.vp/BASELINE.json"))["cmd"] if os.path.exists("/root/.vp/BASELINE.json") else MT.BASELINE_CMD
checks, na = [], []
for pid in ids:
    if pid in PROPS and pid in MT.CHECKS:
        c = MT.CHECKS[pid]
        checks.append({
            "property_id": pid,
            "quick_cmd": "python3 check.py %s quick" % pid,
            "thorough_cmd": "python3 check.py %s thorough" % pid,
            "evidence_file": "/verif/evidence/%s.json" % pid,
            "replay_cmd_template": "python3 check.py %s --replay {path}" % pid,
            "engine": c.get("engine", "rapid-pbt"),
            "level_claimed": {"category": "exploration", "text": c["text"], "design_ref": "DESIGN.md §3 " + pid},
            "level_note": c["note"],
            "technique": c["technique"],
        })
    else:
        na.append({"property_id": pid, "reason": MT.NA.get(pid, "check not built yet in this session; property-based testing applies and the check is planned (DESIGN.md §3 %s)" % pid)})
m = {
    "version": 1,
    "setup_cmd": "python3 check.py --setup",
    "hooks": {
        "guard": "verif",
        "enable": "cd /repo && go test -c -vet=off -tags verif -modfile=/verif/build/go.mod -overlay=/verif/build/overlay.json (harness files are injected by overlay; no source change in /repo is needed)",
        "baseline_off_cmd": baseline,
        "source_commits": [],
        "add_only": True,
    },
    "engines": MT.ENGINES,
    "checks": checks,
    "not_applicable": na,
    "notes": MT.NOTES,
}
json.dump(m, open(os.path.join(os.path.dirname(os.path.abspath(__file__)), "MANIFEST.json"), "w"), indent=1)
print("MANIFEST.json: %d checks, %d not_applicable" % (len(checks), len(na)))
