//go:build verif

package sumvec

import (
	"fmt"
	"testing"

	"github.com/cloudflare/circl/zz_verif/c19wb"
	"github.com/cloudflare/circl/zz_verif/vlib"
	"pgregory.net/rapid"
)

// C19 white box: the SumVec validity circuit (chunked range check) decides
// with a consistent proof; the altered element is drawn with extra weight on
// the last chunk.
func TestVerifC19FLP(t *testing.T) {
	defer vlib.Done()
	sub := "flp/sumvec"
	vlib.Check(t, vlib.N(600, 2500), func(t *rapid.T) {
		nbits := uint(rapid.SampledFrom([]int{1, 2, 3, 8, 16, 64, 0}).Draw(t, "bits"))
		if nbits == 0 {
			nbits = uint(rapid.IntRange(1, 64).Draw(t, "bits.v"))
		}
		ml := 320 / int(nbits)
		if ml > 40 {
			ml = 40
		}
		length := uint(rapid.IntRange(1, ml).Draw(t, "length"))
		total := int(length * nbits)
		chunk := c19wb.Chunk(t, total)
		f, err := newFlpSumVec(length, nbits, chunk)
		if err != nil {
			t.Fatalf("newFlpSumVec: %v", err)
		}
		m := make([]uint64, length)
		for i := range m {
			m[i] = rapid.Uint64().Draw(t, "m")
			if nbits < 64 {
				m[i] &= uint64(1)<<nbits - 1
			}
		}
		shares := uint8(rapid.SampledFrom([]int{1, 2, 3, 16}).Draw(t, "shares"))
		meas, err := f.Encode(m)
		if err != nil {
			t.Fatalf("Encode: %v", err)
		}
		vlib.Eval(sub)
		vlib.Class(sub, c19wb.ChunkClass(total, chunk))
		var edits []c19wb.Edit
		label := "valid"
		if rapid.IntRange(0, 4).Draw(t, "invalid") > 0 {
			i := c19wb.IdxBiased(t, total, int(chunk), "nb")
			edits = []c19wb.Edit{{Idx: i, Kind: rapid.SampledFrom(c19wb.NonBitKinds).Draw(t, "kind")}}
			label = "non-bit"
			if i >= ((total-1)/int(chunk))*int(chunk) {
				label = "non-bit(last-chunk)"
			}
		}
		ok, err := c19wb.Run[Vec, Fp, *Fp](t, f, meas, edits, shares)
		if err != nil {
			t.Fatalf("flp: %v", err)
		}
		desc := fmt.Sprintf("sumvec len=%d bits=%d chunk=%d shares=%d m=%v %s edits=%v", length, nbits, chunk, shares, m, label, edits)
		if label == "valid" && !ok {
			vlib.Report(t, "C19/flp/sumvec/valid-rejected", desc)
			return
		}
		if label != "valid" && ok {
			vlib.Report(t, "C19/flp/sumvec/invalid-accepted/non-bit", desc)
			return
		}
		vlib.NonTrivial(sub, label, []byte(desc))
	})
}
