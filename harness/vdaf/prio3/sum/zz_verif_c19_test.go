//go:build verif

package sum

import (
	"fmt"
	"testing"

	"github.com/cloudflare/circl/zz_verif/c19wb"
	"github.com/cloudflare/circl/zz_verif/vlib"
	"pgregory.net/rapid"
)

func verifBits(off int, v uint64, n uint) []c19wb.Edit {
	var e []c19wb.Edit
	for i := uint(0); i < n; i++ {
		k := "0"
		if (v>>i)&1 == 1 {
			k = "1"
		}
		e = append(e, c19wb.Edit{Idx: off + int(i), Kind: k})
	}
	return e
}

// C19 white box: the Sum validity circuit (bit checks and the offset range
// check) decides with a consistent proof.
func TestVerifC19FLP(t *testing.T) {
	defer vlib.Done()
	sub := "flp/sum"
	vlib.Check(t, vlib.N(600, 2500), func(t *rapid.T) {
		var max uint64
		switch rapid.IntRange(0, 3).Draw(t, "max.k") {
		case 0:
			max = rapid.SampledFrom([]uint64{1, 2, 255, 1 << 32, 1 << 62, 1<<63 - 1}).Draw(t, "max")
		case 1:
			max = uint64(1)<<uint(rapid.IntRange(1, 62).Draw(t, "pow")) + uint64(rapid.IntRange(0, 1).Draw(t, "d"))
		default:
			k := rapid.IntRange(1, 63).Draw(t, "bits")
			max = rapid.Uint64Range(uint64(1)<<uint(k-1), uint64(1)<<uint(k)-1).Draw(t, "max.v")
		}
		f, err := newFlpSum(max)
		if err != nil {
			t.Fatalf("newFlpSum(%d): %v", max, err)
		}
		nb := f.bits
		offset, _ := f.offset.GetUint64()
		top := uint64(1)<<nb - 1
		m := rapid.Uint64Range(0, max).Draw(t, "m")
		if rapid.IntRange(0, 3).Draw(t, "edge") == 0 {
			m = rapid.SampledFrom([]uint64{0, max}).Draw(t, "m.edge")
		}
		shares := uint8(rapid.SampledFrom([]int{1, 2, 3, 16}).Draw(t, "shares"))
		meas, err := f.Encode(m)
		if err != nil {
			t.Fatalf("Encode: %v", err)
		}
		vlib.Eval(sub)
		var edits []c19wb.Edit
		label := "valid"
		switch rapid.IntRange(0, 4).Draw(t, "invalid") {
		case 0:
		case 1:
			if max != top {
				a := rapid.Uint64Range(max+1, top).Draw(t, "a")
				edits = append(verifBits(0, a, nb), verifBits(int(nb), (a+offset)&top, nb)...)
				label = "out-of-range(all-bits,b=a+offset mod 2^bits)"
				break
			}
			fallthrough
		case 2:
			i := c19wb.IdxBiased(t, int(2*nb), int(nb), "flip")
			cur := (m >> uint(i)) & 1
			if i >= int(nb) {
				cur = ((m + offset) >> uint(i-int(nb))) & 1
			}
			edits = []c19wb.Edit{{Idx: i, Kind: fmt.Sprint(1 - cur)}}
			label = "range-check-mismatch(all-bits)"
		default:
			edits = []c19wb.Edit{{Idx: c19wb.IdxBiased(t, int(2*nb), int(nb), "nb"), Kind: rapid.SampledFrom(c19wb.NonBitKinds).Draw(t, "kind")}}
			label = "non-bit"
		}
		ok, err := c19wb.Run[Vec, Fp, *Fp](t, f, meas, edits, shares)
		if err != nil {
			t.Fatalf("flp: %v", err)
		}
		desc := fmt.Sprintf("sum max=%d m=%d shares=%d %s edits=%v", max, m, shares, label, edits)
		if label == "valid" && !ok {
			vlib.Report(t, "C19/flp/sum/valid-rejected", desc)
			return
		}
		if label != "valid" && ok {
			vlib.Report(t, "C19/flp/sum/invalid-accepted/"+label, desc)
			return
		}
		vlib.NonTrivial(sub, label, []byte(desc))
	})
}
