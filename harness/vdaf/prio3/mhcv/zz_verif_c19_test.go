//go:build verif

package mhcv

import (
	"fmt"
	"strings"
	"testing"

	"github.com/cloudflare/circl/zz_verif/c19wb"
	"github.com/cloudflare/circl/zz_verif/vlib"
	"pgregory.net/rapid"
)

// C19 white box: the MultihotCountVec validity circuit (chunked range check
// over entries and claimed weight, weight check) decides with a consistent
// proof.
func TestVerifC19FLP(t *testing.T) {
	defer vlib.Done()
	sub := "flp/mhcv"
	vlib.Check(t, vlib.N(600, 2500), func(t *rapid.T) {
		length := uint(rapid.IntRange(1, 200).Draw(t, "length"))
		maxW := uint(rapid.IntRange(1, int(length)).Draw(t, "maxw"))
		if rapid.IntRange(0, 3).Draw(t, "maxw.k") == 0 {
			maxW = rapid.SampledFrom([]uint{1, length}).Draw(t, "maxw.edge")
		}
		f0, err := newFlpMultiCountHotVec(length, maxW, 1)
		if err != nil {
			t.Fatalf("newFlpMultiCountHotVec: %v", err)
		}
		nb := int(f0.bits)
		n := int(length)
		chunk := c19wb.Chunk(t, n+nb)
		f, err := newFlpMultiCountHotVec(length, maxW, chunk)
		if err != nil {
			t.Fatalf("newFlpMultiCountHotVec: %v", err)
		}
		offset, _ := f.offset.GetUint64()
		w := rapid.IntRange(0, int(maxW)).Draw(t, "w")
		if rapid.IntRange(0, 2).Draw(t, "w.k") == 0 {
			w = rapid.SampledFrom([]int{0, int(maxW)}).Draw(t, "w.edge")
		}
		m := make([]bool, n)
		perm := rapid.Permutation(verifSeq(n)).Draw(t, "perm")
		for _, i := range perm[:w] {
			m[i] = true
		}
		shares := uint8(rapid.SampledFrom([]int{1, 2, 3, 16}).Draw(t, "shares"))
		meas, err := f.Encode(m)
		if err != nil {
			t.Fatalf("Encode: %v", err)
		}
		vlib.Eval(sub)
		var edits []c19wb.Edit
		label := "valid"
		vlib.Class(sub, c19wb.ChunkClass(n+nb, chunk))
		k := rapid.IntRange(0, 6).Draw(t, "invalid")
		if (k == 1 || k == 2) && maxW == length {
			k = 3
		}
		if k >= 5 && n+nb < 2 {
			k = 4
		}
		switch k {
		case 0:
		case 5, 6:
			// two elements of the last chunk (where there are two) changed so
			// that the weight check still balances: an entry counts +1, bit k of
			// the claimed weight -2^k; both become non-bits
			total := n + nb
			start := ((total - 1) / int(chunk)) * int(chunk)
			if total-start < 2 || k == 6 {
				start = rapid.IntRange(0, total-2).Draw(t, "cstart")
			}
			i := rapid.IntRange(start, total-2).Draw(t, "ci")
			j := rapid.IntRange(i+1, total-1).Draw(t, "cj")
			coef := func(pos int) int64 {
				if pos < n {
					return 1
				}
				return -(int64(1) << uint(pos-n))
			}
			edits = []c19wb.Edit{{Idx: i, Kind: "add", Delta: 2 * coef(j)}, {Idx: j, Kind: "add", Delta: -2 * coef(i)}}
			label = "weight-balanced-non-bits"
			if i >= ((total-1)/int(chunk))*int(chunk) {
				label = "weight-balanced-non-bits(last-chunk)"
			}
		case 1, 2:
			tgt := rapid.IntRange(int(maxW)+1, n).Draw(t, "tw")
			for _, i := range perm[w:tgt] {
				edits = append(edits, c19wb.Edit{Idx: i, Kind: "1"})
			}
			label = "weight>max(claimed-weight-unchanged)"
			if k == 2 {
				rep := (offset + uint64(tgt)) & (uint64(1)<<uint(nb) - 1)
				for i := 0; i < nb; i++ {
					edits = append(edits, c19wb.Edit{Idx: n + i, Kind: fmt.Sprint((rep >> uint(i)) & 1)})
				}
				label = "weight>max(claimed-weight-wrapped,all-bits)"
			}
		case 3:
			i := rapid.IntRange(0, nb-1).Draw(t, "wb")
			cur := ((offset + uint64(w)) >> uint(i)) & 1
			edits = []c19wb.Edit{{Idx: n + i, Kind: fmt.Sprint(1 - cur)}}
			label = "claimed-weight-mismatch(all-bits)"
		default:
			edits = []c19wb.Edit{{Idx: c19wb.IdxBiased(t, n+nb, int(chunk), "nb"), Kind: rapid.SampledFrom(c19wb.NonBitKinds).Draw(t, "kind")}}
			label = "non-bit"
		}
		ok, err := c19wb.Run[Vec, Fp, *Fp](t, f, meas, edits, shares)
		if err != nil {
			t.Fatalf("flp: %v", err)
		}
		desc := fmt.Sprintf("mhcv len=%d maxw=%d chunk=%d shares=%d w=%d m=%v %s edits=%v", length, maxW, chunk, shares, w, m, label, edits)
		if label == "valid" && !ok {
			vlib.Report(t, "C19/flp/mhcv/valid-rejected", desc)
			return
		}
		if label != "valid" && ok {
			vlib.Report(t, "C19/flp/mhcv/invalid-accepted/"+strings.TrimSuffix(label, "(last-chunk)"), desc)
			return
		}
		vlib.NonTrivial(sub, label, []byte(desc))
	})
}

func verifSeq(n int) []int {
	o := make([]int, n)
	for i := range o {
		o[i] = i
	}
	return o
}
