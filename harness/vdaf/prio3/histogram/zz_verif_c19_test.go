//go:build verif

package histogram

import (
	"fmt"
	"testing"

	"github.com/cloudflare/circl/zz_verif/c19wb"
	"github.com/cloudflare/circl/zz_verif/vlib"
	"pgregory.net/rapid"
)

// C19 white box: the Histogram validity circuit (chunked range check and the
// sum check) decides with a consistent proof.
func TestVerifC19FLP(t *testing.T) {
	defer vlib.Done()
	sub := "flp/histogram"
	vlib.Check(t, vlib.N(600, 2500), func(t *rapid.T) {
		length := uint(rapid.IntRange(1, 300).Draw(t, "length"))
		chunk := c19wb.Chunk(t, int(length))
		f := newFlpHistogram(length, chunk)
		hot := c19wb.IdxBiased(t, int(length), int(chunk), "m")
		shares := uint8(rapid.SampledFrom([]int{1, 2, 3, 16}).Draw(t, "shares"))
		meas, err := f.Encode(uint64(hot))
		if err != nil {
			t.Fatalf("Encode: %v", err)
		}
		vlib.Eval(sub)
		vlib.Class(sub, c19wb.ChunkClass(int(length), chunk))
		n := int(length)
		other := func(label string) int {
			j := c19wb.IdxBiased(t, n-1, int(chunk), label)
			if j >= hot {
				j++
			}
			return j
		}
		var edits []c19wb.Edit
		label := "valid"
		k := rapid.IntRange(0, 4).Draw(t, "invalid")
		if n == 1 && (k == 1 || k == 3) {
			k = 2
		}
		switch k {
		case 0:
		case 1:
			edits = []c19wb.Edit{{Idx: other("two"), Kind: "1"}}
			label = "two-hot"
		case 2:
			edits = []c19wb.Edit{{Idx: hot, Kind: "0"}}
			label = "zero-hot"
		case 3:
			// 2 and -1: the entries still add up to one
			edits = []c19wb.Edit{{Idx: hot, Kind: "2"}, {Idx: other("mv"), Kind: "-1"}}
			label = "sum-preserving-non-bits"
		default:
			edits = []c19wb.Edit{{Idx: c19wb.IdxBiased(t, n, int(chunk), "nb"), Kind: rapid.SampledFrom(c19wb.NonBitKinds).Draw(t, "kind")}}
			label = "non-bit"
		}
		ok, err := c19wb.Run[Vec, Fp, *Fp](t, f, meas, edits, shares)
		if err != nil {
			t.Fatalf("flp: %v", err)
		}
		desc := fmt.Sprintf("histogram len=%d chunk=%d shares=%d m=%d %s edits=%v", length, chunk, shares, hot, label, edits)
		if label == "valid" && !ok {
			vlib.Report(t, "C19/flp/histogram/valid-rejected", desc)
			return
		}
		if label != "valid" && ok {
			vlib.Report(t, "C19/flp/histogram/invalid-accepted/"+label, desc)
			return
		}
		vlib.NonTrivial(sub, label, []byte(desc))
	})
}
