//go:build verif

package count

import (
	"fmt"
	"testing"

	"github.com/cloudflare/circl/zz_verif/c19wb"
	"github.com/cloudflare/circl/zz_verif/vlib"
	"pgregory.net/rapid"
)

// C19 white box: the Count validity circuit decides with a consistent proof.
func TestVerifC19FLP(t *testing.T) {
	defer vlib.Done()
	sub := "flp/count"
	vlib.Check(t, vlib.N(600, 2500), func(t *rapid.T) {
		f := newFlpCount()
		m := rapid.Bool().Draw(t, "m")
		shares := uint8(rapid.SampledFrom([]int{1, 2, 3, 16}).Draw(t, "shares"))
		meas, err := f.Encode(m)
		if err != nil {
			t.Fatalf("Encode: %v", err)
		}
		vlib.Eval(sub)
		var edits []c19wb.Edit
		label := "valid"
		if rapid.IntRange(0, 3).Draw(t, "invalid") > 0 {
			edits = []c19wb.Edit{{Idx: 0, Kind: rapid.SampledFrom(c19wb.NonBitKinds).Draw(t, "kind")}}
			label = "non-bit"
		}
		ok, err := c19wb.Run[Vec, Fp, *Fp](t, f, meas, edits, shares)
		if err != nil {
			t.Fatalf("flp: %v", err)
		}
		desc := fmt.Sprintf("count m=%v shares=%d edits=%v", m, shares, edits)
		if label == "valid" && !ok {
			vlib.Report(t, "C19/flp/count/valid-rejected", desc)
			return
		}
		if label != "valid" && ok {
			vlib.Report(t, "C19/flp/count/invalid-accepted/"+label, desc)
			return
		}
		vlib.NonTrivial(sub, label, []byte(desc))
	})
}
