//go:build verif

package kit

import (
	"fmt"
	"math/big"
	"testing"

	"github.com/cloudflare/circl/zz_verif/vlib"
)

// Preds is the predicate surface of one type for the deterministic sweep.
// From builds an element from a value of the operand domain. Nil entries are
// skipped.
type Preds[E any] struct {
	F       *F
	Type    string
	Backend string
	From    func(v *big.Int) E
	IsZero  func(x *E) bool
	IsOne   func(x *E) bool
	IsEqual func(x, y *E) bool
}

// SweepPredicates enumerates, for every internal-representation pattern d of
// F.InternalPatterns() (each single bit 2^k and the one-limb masks), the
// pairs (d, 0), (1+d, 1) and (x, x⊕d) for three fixed x, and compares
// IsZero / IsOne / IsEqual with math/big. A zero or equality test that looks
// at only part of the representation fails here for some k.
func SweepPredicates[E any](t *testing.T, ps *Preds[E]) {
	f := ps.F
	p := f.P
	lim := Pow2(f.Bits)
	if f.Reduced {
		lim = p
	}
	pats := f.InternalPatterns()
	bases := []*big.Int{new(big.Int), f.ToInternal(big.NewInt(1)), new(big.Int).Rsh(Hex("5a5a5a5a5a5a5a5a3c3c3c3c3c3c3c3c0f0f0f0f0f0f0f0f9696969696969696a5a5a5a5a5a5a5a5c3c3c3c3c3c3c3c3f0f0f0f0f0f0f0f06969696969696969"), uint(512-lim.BitLen()+2))}
	var n int64
	bad := func(pred string, detail string) bool {
		return vlib.ReportDirect(t, "C12/"+ps.Type+"/"+pred+"/"+ps.Backend+"/wrong-predicate-sweep", detail, map[string]interface{}{"type": ps.Type, "pred": pred, "detail": detail})
	}
	for _, d := range pats {
		for bi, base := range bases {
			a := new(big.Int).Set(base)
			b := new(big.Int).Xor(a, d)
			if b.Cmp(lim) >= 0 {
				b.Add(a, d)
				if b.Cmp(lim) >= 0 {
					continue
				}
			}
			av, bv := f.FromInternal(a), f.FromInternal(b)
			x, y := ps.From(av), ps.From(bv)
			am, bm := Mod(av, p), Mod(bv, p)
			if ps.IsEqual != nil {
				n += 3
				x2 := ps.From(av)
				if got, want := ps.IsEqual(&x, &y), am.Cmp(bm) == 0; got != want {
					if !bad("IsEqual", fmt.Sprintf("internal a=0x%x b=0x%x (pattern 0x%x): IsEqual=%v want %v", a, b, d, got, want)) {
						return
					}
				}
				if got, want := ps.IsEqual(&y, &x), am.Cmp(bm) == 0; got != want {
					if !bad("IsEqual", fmt.Sprintf("internal a=0x%x b=0x%x (pattern 0x%x), swapped: IsEqual=%v want %v", b, a, d, got, want)) {
						return
					}
				}
				if !ps.IsEqual(&x, &x2) {
					if !bad("IsEqual", fmt.Sprintf("internal a=0x%x is not equal to a second copy of itself", a)) {
						return
					}
				}
			}
			if ps.IsZero != nil && bi == 0 {
				n += 2
				y1, x1 := ps.From(bv), ps.From(av)
				if got, want := ps.IsZero(&y1), bm.Sign() == 0; got != want {
					if !bad("IsZero", fmt.Sprintf("internal 0x%x: IsZero=%v want %v", b, got, want)) {
						return
					}
				}
				if !ps.IsZero(&x1) {
					if !bad("IsZero", "IsZero(0) is false") {
						return
					}
				}
			}
			if ps.IsOne != nil && bi == 1 {
				n += 2
				y1, x1 := ps.From(bv), ps.From(av)
				if got, want := ps.IsOne(&y1), bm.Cmp(one) == 0; got != want {
					if !bad("IsOne", fmt.Sprintf("internal 0x%x: IsOne=%v want %v", b, got, want)) {
						return
					}
				}
				if !ps.IsOne(&x1) {
					if !bad("IsOne", "IsOne(1) is false") {
						return
					}
				}
			}
		}
	}
	vlib.EvalN(ps.Type, n)
	vlib.ClassN(ps.Type, "op=predicate-sweep", n)
	vlib.NonTrivialH(ps.Type, "", vlib.Hash64([]byte("sweep"), []byte(ps.Backend)))
	vlib.Exhaustive("C12 predicate sweep "+ps.Type+"/"+ps.Backend+": every single-bit and one-limb-mask difference of the internal representation", int64(len(pats)), "pairs (d,0), (1⊕d,1), (x,x⊕d) for 3 fixed x")
}
