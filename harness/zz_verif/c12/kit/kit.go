//go:build verif

// Package kit holds the plumbing shared by the C12 black-box packages and the
// C12 white-box overlays: operand generation for a prime field (limb-edge,
// value-edge, multiples of the modulus, uniform), aliasing patterns for
// in-place operations, and evidence/reporting helpers. It imports only vlib
// and rapid (never circl), so overlays inside circl packages may import it.
package kit

import (
	"fmt"
	"math/big"
	"strings"

	"github.com/cloudflare/circl/zz_verif/vlib"
	"pgregory.net/rapid"
)

// F describes the operand domain of one field type.
type F struct {
	Name string
	P    *big.Int
	// Bits is the width of the storage: operands are < 2^Bits.
	Bits int
	// C is the reduction constant used for the limb edges (19, 38, 2^32-1, 1 …).
	C uint64
	// Reduced restricts operands to [0,P).
	Reduced bool
	// R is the Montgomery radix (nil when the representation is plain).
	R *big.Int
}

var (
	one = big.NewInt(1)
)

// Hex parses a hexadecimal constant.
func Hex(s string) *big.Int {
	v, ok := new(big.Int).SetString(strings.ReplaceAll(s, "_", ""), 16)
	if !ok {
		panic("kit.Hex: " + s)
	}
	return v
}

// Pow2 returns 2^k.
func Pow2(k int) *big.Int { return new(big.Int).Lsh(one, uint(k)) }

// Mod returns v mod p in [0,p).
func Mod(v, p *big.Int) *big.Int { return new(big.Int).Mod(v, p) }

// fit brings v into the operand domain of f while keeping as much of the limb
// structure as possible.
func (f *F) fit(v *big.Int) *big.Int {
	max := Pow2(f.Bits)
	if v.Cmp(max) >= 0 {
		v = new(big.Int).Mod(v, max)
	}
	if f.Reduced && v.Cmp(f.P) >= 0 {
		// clear the top bits instead of reducing: the low limbs keep their edge values
		w := new(big.Int).Mod(v, Pow2(f.P.BitLen()-1))
		return w
	}
	return v
}

// Operand draws one operand and its class label. Classes:
//
//	multiple  k·P+d for small |d| (d=0 is frequent): exercises the zero/equality tests and final subtractions
//	limb-edge every 64-bit limb from the edge set or uniform (vlib.Limbs)
//	near      value-level edges relative to P and to 2^Bits (vlib.NearModulus)
//	uniform
//
// plus "+unreduced" when the operand is ≥ P.
func (f *F) Operand(t *rapid.T, label string) (*big.Int, string) {
	var v *big.Int
	var class string
	switch rapid.IntRange(0, 10).Draw(t, label+".k") {
	case 10:
		// a single set bit or a one-limb mask in the INTERNAL representation (a·R for Montgomery types):
		// what an equality / zero test that looks at only part of the limbs would miss
		if f.Reduced && rapid.Bool().Draw(t, label+".iedge") {
			a, c := f.InternalEdge(t, label)
			v, class = f.FromInternal(a), c
			break
		}
		pats := f.InternalPatterns()
		v = f.FromInternal(pats[rapid.IntRange(0, len(pats)-1).Draw(t, label+".pat")])
		class = "internal-bit"
	case 0, 1:
		// multiples of P and their neighbours
		quo := new(big.Int).Div(new(big.Int).Sub(Pow2(f.Bits), one), f.P)
		kmax := int64(8)
		if quo.IsInt64() && quo.Int64() < kmax {
			kmax = quo.Int64()
		}
		if f.Reduced {
			kmax = 1
		}
		kb := big.NewInt(int64(rapid.IntRange(0, int(kmax)).Draw(t, label+".mult")))
		if !f.Reduced && quo.BitLen() > 8 && rapid.Bool().Draw(t, label+".bigmult") {
			// wide domains (e.g. 512-bit inputs of a 253-bit modulus): large multipliers too
			kb = vlib.Limbs(t, (quo.BitLen()+63)/64, f.C, label+".km")
			kb.Mod(kb, new(big.Int).Add(quo, one))
		}
		d := int64(rapid.SampledFrom([]int{0, 0, 0, 1, -1, 2, -2, 18, 19, 20, -19, 37, 38, 39, -38}).Draw(t, label+".delta"))
		v = new(big.Int).Mul(f.P, kb)
		v.Add(v, big.NewInt(d))
		if v.Sign() < 0 {
			v.Neg(v)
		}
		if f.Reduced && v.Cmp(f.P) >= 0 {
			v.Sub(v, f.P)
			if v.Cmp(f.P) >= 0 { // k=1,d>0 → d ; fine
				v.Mod(v, f.P)
			}
		}
		if v.Cmp(Pow2(f.Bits)) >= 0 {
			v.Sub(Pow2(f.Bits), one)
		}
		class = "multiple"
	case 2, 3, 4, 5:
		v = vlib.Limbs(t, (f.Bits+63)/64, f.C, label)
		v = f.fit(v)
		class = "limb-edge"
	case 6, 7:
		v = vlib.NearModulus(t, f.P, f.Bits, label)
		v = f.fit(v)
		class = "near"
	default:
		b := make([]byte, (f.Bits+7)/8)
		vlib.FillRandom(t, b, label)
		v = new(big.Int).SetBytes(b)
		v = f.fit(v)
		if f.Reduced && v.Cmp(f.P) >= 0 {
			v.Mod(v, f.P)
		}
		class = "uniform"
	}
	if v.Cmp(f.P) >= 0 {
		if f.Reduced {
			v.Mod(v, f.P)
		} else {
			class += "+unreduced"
		}
	}
	return v, class
}

// InternalPatterns lists the internal-representation patterns used by the
// predicate sweeps: every single bit 2^k and, per 64-bit limb, the masks
// 0xffffffff00000000, 0x00000000ffffffff, 0xffffffffffffffff, 0x8000000000000000
// — restricted to patterns inside the operand domain.
func (f *F) InternalPatterns() []*big.Int {
	var out []*big.Int
	lim := Pow2(f.Bits)
	if f.Reduced {
		lim = f.P
	}
	for k := 0; k < f.Bits; k++ {
		if v := Pow2(k); v.Cmp(lim) < 0 {
			out = append(out, v)
		}
	}
	for l := 0; 64*l < f.Bits; l++ {
		for _, m := range []uint64{0xffffffff00000000, 0x00000000ffffffff, 0xffffffffffffffff, 0x8000000000000000, 0x0000000100000000} {
			v := new(big.Int).Lsh(new(big.Int).SetUint64(m), uint(64*l))
			if v.Cmp(lim) < 0 {
				out = append(out, v)
			}
		}
	}
	return out
}

// FromInternal maps an internal representation a to the value it stands for
// (a·R⁻¹ mod P for Montgomery types, a itself otherwise).
func (f *F) FromInternal(a *big.Int) *big.Int {
	if f.R == nil {
		return new(big.Int).Set(a)
	}
	v := new(big.Int).Mul(a, new(big.Int).ModInverse(f.R, f.P))
	return v.Mod(v, f.P)
}

// ToInternal is the inverse of FromInternal.
func (f *F) ToInternal(v *big.Int) *big.Int {
	if f.R == nil {
		return new(big.Int).Set(v)
	}
	a := new(big.Int).Mul(v, f.R)
	return a.Mod(a, f.P)
}

// DrawSecond draws the second operand of an equality test: the same value, a
// neighbour whose internal representation differs from x's by one pattern
// (single bit / one-limb mask), or an independent operand.
func (f *F) DrawSecond(t *rapid.T, xv *big.Int, xc string, label string) (*big.Int, string) {
	switch rapid.IntRange(0, 3).Draw(t, label+".rel") {
	case 0:
		return xv, xc
	case 1, 2:
		pats := f.InternalPatterns()
		d := pats[rapid.IntRange(0, len(pats)-1).Draw(t, label+".pat")]
		a := f.ToInternal(xv)
		// flip the pattern's bits where that stays inside the domain, otherwise add it
		b := new(big.Int).Xor(a, d)
		lim := Pow2(f.Bits)
		if f.Reduced {
			lim = f.P
		}
		if b.Cmp(lim) >= 0 {
			b.Add(a, d).Mod(b, lim)
		}
		return f.FromInternal(b), "internal-neighbour"
	}
	return f.Operand(t, label)
}

// wordBits is the width of the limb array holding one element.
func (f *F) wordBits() int { return (f.Bits + 63) / 64 * 64 }

// Gap returns 2^w − P: internal words below it are the ones whose unreduced
// alias r+P still fits the limb array (a skipped or mis-decided final
// subtraction is visible only there).
func (f *F) Gap() *big.Int { return new(big.Int).Sub(Pow2(f.wordBits()), f.P) }

// InternalEdge draws an internal word (reduced) from the structured set
// {2^k, 2^k−1, P−2^k, P−1−2^k, gap±d, gap−2^k, d < gap, uniform below gap}.
func (f *F) InternalEdge(t *rapid.T, label string) (*big.Int, string) {
	w := f.wordBits()
	gap := f.Gap()
	k := rapid.IntRange(0, w-1).Draw(t, label+".ik")
	d := big.NewInt(int64(rapid.IntRange(0, 3).Draw(t, label+".id")))
	var v *big.Int
	cls := "internal-edge"
	switch rapid.IntRange(0, 7).Draw(t, label+".ikind") {
	case 0:
		v = Pow2(k)
	case 1:
		v = new(big.Int).Sub(Pow2(k), one)
	case 2:
		v = new(big.Int).Sub(f.P, Pow2(k))
	case 3:
		v = new(big.Int).Sub(f.P, Pow2(k))
		v.Sub(v, one)
	case 4:
		v = new(big.Int).Add(gap, d)
	case 5:
		v = new(big.Int).Sub(gap, new(big.Int).Add(d, one))
		cls = "internal-gap"
	case 6:
		v = new(big.Int).Sub(gap, Pow2(k))
		cls = "internal-gap"
	default:
		b := make([]byte, w/8)
		vlib.FillRandom(t, b, label+".ig")
		v = new(big.Int).SetBytes(b)
		v.Mod(v, gap)
		cls = "internal-gap"
	}
	if v.Sign() < 0 {
		v.Neg(v)
	}
	v.Mod(v, f.P)
	if cls == "internal-gap" && v.Cmp(gap) >= 0 {
		cls = "internal-edge"
	}
	return v, cls
}

// Targeted draws operands (x, y) of op ∈ {Add, Sub, Mul, Sqr, Neg, Inv} such
// that the INTERNAL representation of the RESULT is a drawn word — mostly one
// in the gap [0, 2^w−P). The operands live in the domain of the test: values
// when f.R is set (internal = value·R), raw Montgomery limbs otherwise.
// mulScale is the s with Mul(x,y) = x·y/s and Inv(x) = s²/x in that domain
// (nil or 1 for a value-level API, R for raw limbs).
func (f *F) Targeted(t *rapid.T, op string, mulScale *big.Int, label string) (x, y *big.Int, class string, ok bool) {
	p := f.P
	s := big.NewInt(1)
	if mulScale != nil {
		s = Mod(mulScale, p)
	}
	ti, cls := f.InternalEdge(t, label+".target")
	g := *f
	g.Reduced = true
	y, _ = g.ValueOrMont(t, label+".ty")
	inv := func(v *big.Int) *big.Int { return new(big.Int).ModInverse(v, p) }
	for try := 0; try < 16; try++ {
		v := f.FromInternal(ti) // target in the operand domain
		switch op {
		case "Add":
			x = Mod(new(big.Int).Sub(v, y), p)
		case "Sub":
			x = Mod(new(big.Int).Add(v, y), p)
		case "Neg":
			x = Mod(new(big.Int).Neg(v), p)
		case "Mul":
			if y.Sign() == 0 {
				y = big.NewInt(3)
			}
			x = new(big.Int).Mul(v, s)
			x.Mul(x, inv(y)).Mod(x, p)
		case "Inv":
			if v.Sign() == 0 {
				ti = new(big.Int).Add(ti, one)
				continue
			}
			x = new(big.Int).Mul(s, s)
			x.Mul(x, inv(v)).Mod(x, p)
		case "Sqr":
			r := new(big.Int).ModSqrt(Mod(new(big.Int).Mul(v, s), p), p)
			if r == nil {
				ti = Mod(new(big.Int).Add(ti, one), p)
				continue
			}
			x = r
			if rapid.Bool().Draw(t, label+".otherroot") {
				x = Mod(new(big.Int).Neg(r), p)
			}
			y = x
		default:
			return nil, nil, "", false
		}
		return x, y, "target-" + cls, true
	}
	return nil, nil, "", false
}

// MontOperand draws a value whose Montgomery representation a = v·R mod P is
// an edge operand: it draws a (reduced) with Operand and returns v = a·R⁻¹.
// Used for types whose API only takes values but which compute on a·R.
func (f *F) MontOperand(t *rapid.T, label string) (*big.Int, string) {
	g := *f
	g.Reduced = true
	var a *big.Int
	var cls string
	if rapid.IntRange(0, 2).Draw(t, label+".iedge") == 0 {
		a, cls = f.InternalEdge(t, label)
	} else {
		a, cls = g.Operand(t, label)
	}
	rinv := new(big.Int).ModInverse(f.R, f.P)
	v := new(big.Int).Mul(a, rinv)
	v.Mod(v, f.P)
	return v, "mont-" + cls
}

// ValueOrMont draws either a value-level or a Montgomery-level edge operand.
func (f *F) ValueOrMont(t *rapid.T, label string) (*big.Int, string) {
	if f.R != nil && rapid.Bool().Draw(t, label+".mont") {
		return f.MontOperand(t, label)
	}
	return f.Operand(t, label)
}

// ---------------------------------------------------------------------------
// aliasing

// Alias patterns of a three-address operation f(z, x, y).
const (
	AliasNone = iota // z, x, y distinct objects (z pre-filled with junk)
	AliasZX          // z is x
	AliasZY          // z is y
	AliasXY          // x is y (same object), z distinct
	AliasAll         // z, x, y the same object
)

// AliasNames for labels.
var AliasNames = []string{"none", "z=x", "z=y", "x=y", "z=x=y"}

// DrawAlias3 draws an alias pattern for a binary operation (half of the cases alias).
func DrawAlias3(t *rapid.T) int {
	return rapid.SampledFrom([]int{AliasNone, AliasNone, AliasNone, AliasNone, AliasZX, AliasZY, AliasXY, AliasAll}).Draw(t, "alias")
}

// DrawAlias2 draws an alias pattern for a unary operation f(z, x): none or z=x.
func DrawAlias2(t *rapid.T) int {
	return rapid.SampledFrom([]int{AliasNone, AliasNone, AliasZX}).Draw(t, "alias")
}

// Patterns returns the alias patterns to evaluate for a drawn pattern: the
// un-aliased call first, then the aliased one. A failure that shows only in
// the aliased call is therefore known to be caused by the aliasing (Case.Fail
// gives it a key of its own).
func Patterns(alias int) []int {
	if alias == AliasNone {
		return []int{AliasNone}
	}
	return []int{AliasNone, alias}
}

// Bin runs f(z,x,y) under the alias pattern. For AliasXY/AliasAll the caller
// must pass y == x. It returns the result and the final contents of the x and
// y objects (equal to the result where aliased).
func Bin[E any](pat int, f func(z, x, y *E), x, y, junk E) (z, xo, yo E) {
	a, b, c := x, y, junk
	switch pat {
	case AliasZX:
		f(&a, &a, &b)
		return a, a, b
	case AliasZY:
		f(&b, &a, &b)
		return b, a, b
	case AliasXY:
		f(&c, &a, &a)
		return c, a, a
	case AliasAll:
		f(&a, &a, &a)
		return a, a, a
	}
	f(&c, &a, &b)
	return c, a, b
}

// Un runs f(z,x) with z distinct (junk-filled) or z = x.
func Un[E any](pat int, f func(z, x *E), x, junk E) (z, xo E) {
	a, c := x, junk
	if pat == AliasZX {
		f(&a, &a)
		return a, a
	}
	f(&c, &a)
	return c, a
}

// ---------------------------------------------------------------------------
// evidence and reporting

// Case collects the identity of one evaluated case.
type Case struct {
	T       vlib.TB
	Type    string // field type, e.g. "fp25519"
	Op      string
	Backend string
	Alias   int
	Vals    []*big.Int
	Classes []string
}

func (c *Case) describe() string {
	var sb strings.Builder
	fmt.Fprintf(&sb, "type=%s op=%s backend=%s alias=%s", c.Type, c.Op, c.Backend, AliasNames[c.Alias])
	for i, v := range c.Vals {
		cl := ""
		if i < len(c.Classes) {
			cl = c.Classes[i]
		}
		fmt.Fprintf(&sb, " arg%d=0x%x(%s)", i, v, cl)
	}
	return sb.String()
}

// Fail reports an oracle mismatch; it returns true when the key is a known
// finding (the caller abandons the case).
func (c *Case) Fail(class, detail string) bool {
	key := "C12/" + c.Type + "/" + c.Op + "/" + c.Backend + "/" + class
	if c.Alias != AliasNone {
		// failures that need an aliased call get one key per (type, operation): the same
		// operands pass on distinct objects, so the defect is the aliasing itself
		key = "C12/" + c.Type + "/" + c.Op + "/aliased"
		detail = class + ": " + detail
	}
	return vlib.Report(c.T, key, c.describe()+" :: "+detail)
}

// Done records the executed case in the evidence.
func (c *Case) Done() {
	sub := c.Type
	vlib.Eval(sub)
	vlib.Class(sub, "op="+c.Op)
	vlib.Class(sub, "backend="+c.Backend)
	nt := c.Alias != AliasNone
	if c.Alias != AliasNone {
		vlib.Class(sub, "alias="+AliasNames[c.Alias])
	}
	for _, cl := range c.Classes {
		vlib.Class(sub, "operand="+cl)
		if cl == "sel" || cl == "junk" || cl == "n" || cl == "exponent" || cl == "line" {
			continue
		}
		if !(strings.HasPrefix(cl, "uniform") || strings.HasSuffix(cl, "/uniform")) || strings.Contains(cl, "unreduced") {
			nt = true
		}
	}
	if nt {
		parts := [][]byte{[]byte(c.Op), []byte(c.Backend), {byte(c.Alias)}}
		for _, v := range c.Vals {
			parts = append(parts, v.Bytes())
		}
		vlib.NonTrivial(sub, "", parts...)
		vlib.Sample(sub, c.Op+"/"+c.Backend, c.describe())
	}
}

// Expect compares a residue with the expected one.
func (c *Case) Expect(what string, got, want *big.Int) bool {
	if got.Cmp(want) != 0 {
		c.Fail("wrong-"+what, fmt.Sprintf("%s: got 0x%x want 0x%x", what, got, want))
		return false
	}
	return true
}
