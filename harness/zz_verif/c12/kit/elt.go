//go:build verif

package kit

import (
	"bytes"
	"fmt"
	"math/big"

	"github.com/cloudflare/circl/zz_verif/vlib"
	"pgregory.net/rapid"
)

// EltOps is one back-end of a byte-array prime-field element type in the
// style of math/fp25519 and math/fp448 (every byte string is an operand).
// Nil entries are skipped.
type EltOps[E comparable] struct {
	Backend string
	// Select is called before every evaluation on this back-end (flips the
	// CPU-feature variable the assembly consults); may be nil.
	Select func()

	Add, Sub, Mul func(z, x, y *E)
	Sqr, Neg, Inv func(z, x *E)
	Modp          func(z *E)
	AddSub        func(x, y *E)
	Cmov, Cswap   func(x, y *E, n uint)
	InvSqrt       func(z, x, y *E) bool
	IsZero, IsOne func(x *E) bool
	ToBytes       func(b []byte, x *E) error
	SetOne        func(x *E)
}

// EltType describes the element type.
type EltType[E comparable] struct {
	F    *F
	Size int
	From func(v *big.Int) E  // little-endian, v < 2^(8·Size)
	To   func(e *E) *big.Int // integer value of the byte string (not reduced)
	// InvSqrtNonQR: what z is when x/y is a non-residue: "undetermined" (fp25519) or "sqrt(-x/y)" (fp448)
	InvSqrtNonQR string
}

var eltOpNames = []string{"Add", "Sub", "Mul", "Mul", "Sqr", "Neg", "Inv", "Modp", "AddSub", "Cmov", "Cswap", "InvSqrt", "IsZero", "IsOne", "ToBytes", "SetOne"}

// CheckElt draws one case (operation, operands, alias pattern) and evaluates it
// on every back-end, comparing with math/big.
func CheckElt[E comparable](t *rapid.T, ty *EltType[E], backends []EltOps[E]) {
	f := ty.F
	p := f.P
	op := rapid.SampledFrom(eltOpNames).Draw(t, "op")
	xv, xc := f.Operand(t, "x")
	yv, yc := f.Operand(t, "y")
	jv, _ := f.Operand(t, "junk")
	alias := AliasNone
	switch op {
	case "Add", "Sub", "Mul":
		alias = DrawAlias3(t)
	case "Sqr", "Neg", "Inv":
		alias = DrawAlias2(t)
	case "InvSqrt":
		alias = rapid.SampledFrom([]int{AliasNone, AliasNone, AliasZX, AliasZY}).Draw(t, "alias")
		if rapid.Bool().Draw(t, "forceQR") {
			// x := w²·y so that x/y is a square (otherwise only half of the cases are)
			w := new(big.Int).Mul(xv, xv)
			w.Mul(w, yv)
			xv = w.Mod(w, p)
			xc = "w2y"
		}
	}
	if alias == AliasXY || alias == AliasAll {
		yv, yc = xv, xc
	}
	sel := uint(rapid.IntRange(0, 1).Draw(t, "sel"))
	x0, y0, junk := ty.From(xv), ty.From(yv), ty.From(jv)
	xm, ym := Mod(xv, p), Mod(yv, p)

	drawn := alias
	for i := range backends {
		for _, alias := range Patterns(drawn) {
			be := &backends[i]
			c := &Case{T: t, Type: f.Name, Op: op, Backend: be.Backend, Alias: alias}
			res := func(e *E) *big.Int { return Mod(ty.To(e), p) }
			same := func(what string, e *E, want *big.Int) bool {
				// operands that are not the destination must keep their residue
				if res(e).Cmp(want) != 0 {
					c.Fail("operand-clobbered", fmt.Sprintf("%s changed to 0x%x", what, ty.To(e)))
					return false
				}
				return true
			}
			if be.Select != nil {
				be.Select()
			}
			ran := true
			switch op {
			case "Add", "Sub", "Mul":
				fn := map[string]func(z, x, y *E){"Add": be.Add, "Sub": be.Sub, "Mul": be.Mul}[op]
				if fn == nil {
					ran = false
					break
				}
				c.Vals, c.Classes = []*big.Int{xv, yv}, []string{xc, yc}
				z, xo, yo := Bin(alias, fn, x0, y0, junk)
				want := new(big.Int)
				switch op {
				case "Add":
					want.Add(xm, ym)
				case "Sub":
					want.Sub(xm, ym)
				case "Mul":
					want.Mul(xm, ym)
				}
				want.Mod(want, p)
				if !c.Expect("residue", res(&z), want) {
					return
				}
				if alias == AliasNone || alias == AliasZY || alias == AliasXY {
					if !same("x", &xo, xm) {
						return
					}
				}
				if alias == AliasNone || alias == AliasZX {
					if !same("y", &yo, ym) {
						return
					}
				}
			case "Sqr", "Neg", "Inv":
				fn := map[string]func(z, x *E){"Sqr": be.Sqr, "Neg": be.Neg, "Inv": be.Inv}[op]
				if fn == nil {
					ran = false
					break
				}
				c.Vals, c.Classes = []*big.Int{xv}, []string{xc}
				z, xo := Un(alias, fn, x0, junk)
				want := new(big.Int)
				switch op {
				case "Sqr":
					want.Mul(xm, xm)
				case "Neg":
					want.Neg(xm)
				case "Inv":
					if xm.Sign() == 0 {
						// 1/0 is not defined by the documentation: only counted
						vlib.Class(f.Name, "inv-of-zero(not asserted)")
						want = nil
					} else {
						want.ModInverse(xm, p)
					}
				}
				if want != nil {
					want.Mod(want, p)
					if !c.Expect("residue", res(&z), want) {
						return
					}
				}
				if alias == AliasNone && !same("x", &xo, xm) {
					return
				}
			case "Modp":
				if be.Modp == nil {
					ran = false
					break
				}
				c.Vals, c.Classes = []*big.Int{xv}, []string{xc}
				z := x0
				be.Modp(&z)
				// canonical: the integer value itself must be the residue
				if !c.Expect("canonical", ty.To(&z), xm) {
					return
				}
			case "AddSub":
				if be.AddSub == nil {
					ran = false
					break
				}
				c.Vals, c.Classes = []*big.Int{xv, yv}, []string{xc, yc}
				a, b := x0, y0
				be.AddSub(&a, &b)
				s := new(big.Int).Add(xm, ym)
				d := new(big.Int).Sub(xm, ym)
				if !c.Expect("sum", res(&a), s.Mod(s, p)) || !c.Expect("difference", res(&b), d.Mod(d, p)) {
					return
				}
			case "Cmov", "Cswap":
				fn := be.Cmov
				if op == "Cswap" {
					fn = be.Cswap
				}
				if fn == nil {
					ran = false
					break
				}
				c.Vals, c.Classes = []*big.Int{xv, yv, big.NewInt(int64(sel))}, []string{xc, yc, "sel"}
				a, b := x0, y0
				fn(&a, &b, sel)
				wa, wb := x0, y0
				if sel == 1 {
					wa = y0
					if op == "Cswap" {
						wb = x0
					}
				}
				// selection is exact (byte for byte), not only modulo p
				if a != wa || b != wb {
					c.Fail("wrong-selection", fmt.Sprintf("after: x=0x%x y=0x%x", ty.To(&a), ty.To(&b)))
					return
				}
			case "InvSqrt":
				if be.InvSqrt == nil {
					ran = false
					break
				}
				c.Vals, c.Classes = []*big.Int{xv, yv}, []string{xc, yc}
				var z E
				var isQR bool
				a, b, cc := x0, y0, junk
				switch alias {
				case AliasZX:
					isQR = be.InvSqrt(&a, &a, &b)
					z = a
				case AliasZY:
					isQR = be.InvSqrt(&b, &a, &b)
					z = b
				default:
					isQR = be.InvSqrt(&cc, &a, &b)
					z = cc
				}
				if ym.Sign() == 0 {
					vlib.Class(f.Name, "invsqrt-y=0(not asserted)")
					break
				}
				// q = x/y ; z²·y must equal x (QR) — for fp448 −x when non-residue
				q := new(big.Int).ModInverse(ym, p)
				q.Mul(q, xm).Mod(q, p)
				wantQR := q.Sign() == 0 || big.Jacobi(q, p) == 1
				if isQR != wantQR {
					c.Fail("wrong-isQR", fmt.Sprintf("isQR=%v, x/y=0x%x Legendre=%d", isQR, q, big.Jacobi(q, p)))
					return
				}
				zv := res(&z)
				lhs := new(big.Int).Mul(zv, zv)
				lhs.Mul(lhs, ym).Mod(lhs, p)
				if wantQR {
					vlib.Class(f.Name, "invsqrt-QR")
					if !c.Expect("sqrt", lhs, xm) {
						return
					}
				} else {
					vlib.Class(f.Name, "invsqrt-nonQR")
					if ty.InvSqrtNonQR == "sqrt(-x/y)" {
						nx := new(big.Int).Neg(xm)
						if !c.Expect("sqrt-of-minus", lhs, nx.Mod(nx, p)) {
							return
						}
					}
				}
			case "IsZero", "IsOne":
				fn := be.IsZero
				target := int64(0)
				if op == "IsOne" {
					fn, target = be.IsOne, 1
				}
				if fn == nil {
					ran = false
					break
				}
				c.Vals, c.Classes = []*big.Int{xv}, []string{xc}
				a := x0
				got := fn(&a)
				want := xm.Cmp(big.NewInt(target)) == 0
				vlib.Class(f.Name, fmt.Sprintf("%s=%v", op, want))
				if got != want {
					c.Fail("wrong-predicate", fmt.Sprintf("got %v want %v", got, want))
					return
				}
				if !same("x", &a, xm) {
					return
				}
			case "ToBytes":
				if be.ToBytes == nil {
					ran = false
					break
				}
				c.Vals, c.Classes = []*big.Int{xv}, []string{xc}
				a := x0
				buf := make([]byte, ty.Size)
				if err := be.ToBytes(buf, &a); err != nil {
					c.Fail("unexpected-error", err.Error())
					return
				}
				if !bytes.Equal(buf, vlib.LE(xm, ty.Size)) {
					c.Fail("wrong-canonical", fmt.Sprintf("ToBytes gave %x", buf))
					return
				}
				if !same("x", &a, xm) {
					return
				}
			case "SetOne":
				if be.SetOne == nil {
					ran = false
					break
				}
				c.Vals, c.Classes = []*big.Int{jv}, []string{"junk"}
				a := junk
				be.SetOne(&a)
				if !c.Expect("one", ty.To(&a), big.NewInt(1)) {
					return
				}
			}
			if ran {
				c.Done()
			}
		}
	}
}
