//go:build verif

// C12 black-box: scalar fields — ecc/goldilocks.Scalar and group.Scalar of
// P-256, P-384, P-521 and ristretto255 — against math/big.
package scalar

import (
	"bytes"
	"crypto/elliptic"
	"fmt"
	"math/big"
	"testing"

	"github.com/cloudflare/circl/ecc/goldilocks"
	"github.com/cloudflare/circl/group"
	"github.com/cloudflare/circl/zz_verif/c12/kit"
	"github.com/cloudflare/circl/zz_verif/vlib"
	"pgregory.net/rapid"
)

var ed448Order = new(big.Int).Sub(kit.Pow2(446), kit.Hex("8335dc163bb124b65129c96fde933d8d723a70aadc873d6d54a7bb0d"))

func gFrom(v *big.Int) (s goldilocks.Scalar) { copy(s[:], vlib.LE(v, goldilocks.ScalarSize)); return }
func gTo(s *goldilocks.Scalar) *big.Int      { return vlib.FromLE(s[:]) }

func TestC12GoldilocksScalar(t *testing.T) {
	defer vlib.Done()
	n := ed448Order
	ord := goldilocks.Curve{}.Order()
	if !n.ProbablyPrime(20) || !bytes.Equal(ord[:], vlib.LE(n, 56)) {
		vlib.ReportDirect(t, "C12/goldilocks.Scalar/Order/go/wrong-constant", "Curve.Order() is not the Ed448 group order", nil)
		return
	}
	// every 56-byte string is a Scalar value (the type is a public byte array and Red() exists for that reason)
	f := &kit.F{Name: "goldilocks.Scalar", P: n, Bits: 448, C: 1}
	vlib.Check(t, vlib.N(20000, 150000), func(t *rapid.T) {
		op := rapid.SampledFrom([]string{"Add", "Sub", "Mul", "Mul", "Neg", "Red", "IsZero", "FromBytes", "FromBytes"}).Draw(t, "op")
		xv, xc := f.Operand(t, "x")
		yv, yc := f.Operand(t, "y")
		jv, _ := f.Operand(t, "junk")
		alias := kit.AliasNone
		if op == "Add" || op == "Sub" || op == "Mul" {
			alias = kit.DrawAlias3(t)
		}
		if alias == kit.AliasXY || alias == kit.AliasAll {
			yv, yc = xv, xc
		}
		x0, y0, junk := gFrom(xv), gFrom(yv), gFrom(jv)
		for _, alias := range kit.Patterns(alias) {
			c := &kit.Case{T: t, Type: "goldilocks.Scalar", Op: op, Backend: "go", Alias: alias, Vals: []*big.Int{xv, yv}, Classes: []string{xc, yc}}
			// results of the arithmetic are fully reduced (the callers encode them directly)
			switch op {
			case "Add", "Sub", "Mul":
				fn := map[string]func(z, x, y *goldilocks.Scalar){
					"Add": func(z, x, y *goldilocks.Scalar) { z.Add(x, y) }, "Sub": func(z, x, y *goldilocks.Scalar) { z.Sub(x, y) }, "Mul": func(z, x, y *goldilocks.Scalar) { z.Mul(x, y) }}[op]
				z, xo, yo := kit.Bin(alias, fn, x0, y0, junk)
				w := new(big.Int)
				switch op {
				case "Add":
					w.Add(xv, yv)
				case "Sub":
					w.Sub(xv, yv)
				case "Mul":
					w.Mul(xv, yv)
				}
				if got := gTo(&z); got.Cmp(w.Mod(w, n)) != 0 {
					// operands in the top sliver [2^448−2^230, 2^448) (more than 4·order−2^230) get a key of their own
					sliver := new(big.Int).Sub(kit.Pow2(448), kit.Pow2(230))
					class := "wrong-result"
					if xv.Cmp(sliver) >= 0 || yv.Cmp(sliver) >= 0 {
						class = "wrong-result-top-sliver"
					}
					c.Fail(class, fmt.Sprintf("got 0x%x want 0x%x", got, w))
					return
				}
				if (alias == kit.AliasNone || alias == kit.AliasZY || alias == kit.AliasXY) && xo != x0 ||
					(alias == kit.AliasNone || alias == kit.AliasZX) && yo != y0 {
					c.Fail("operand-clobbered", "an operand that is not the receiver changed")
					return
				}
			case "Neg", "Red":
				c.Vals, c.Classes = c.Vals[:1], c.Classes[:1]
				z := x0
				w := new(big.Int).Set(xv)
				if op == "Neg" {
					z.Neg()
					w.Neg(w)
				} else {
					z.Red()
				}
				if !c.Expect("result", gTo(&z), w.Mod(w, n)) {
					return
				}
			case "IsZero":
				c.Vals, c.Classes = c.Vals[:1], c.Classes[:1]
				z := x0
				want := kit.Mod(xv, n).Sign() == 0
				vlib.Class("goldilocks.Scalar", fmt.Sprintf("IsZero=%v", want))
				if z.IsZero() != want {
					c.Fail("wrong-predicate", "IsZero")
					return
				}
			case "FromBytes":
				// any length; little-endian; reduced modulo the order
				l := rapid.SampledFrom([]int{0, 1, 7, 8, 55, 56, 57, 63, 64, 65, 112, 113, 114, 120, 128, 200}).Draw(t, "len")
				wide := vlib.Limbs(t, (l+7)/8+1, 1, "wide")
				wide.Mod(wide, kit.Pow2(8*l))
				if rapid.Bool().Draw(t, "near") {
					k := vlib.Limbs(t, rapid.IntRange(1, 4).Draw(t, "kw"), 1, "k")
					cand := new(big.Int).Mul(k, n)
					cand.Add(cand, big.NewInt(int64(rapid.IntRange(0, 2).Draw(t, "d"))))
					if cand.BitLen() <= 8*l {
						wide = cand
					}
				}
				c.Vals, c.Classes = []*big.Int{wide}, []string{fmt.Sprintf("%d-bytes", l)}
				z := junk
				z.FromBytes(vlib.LE(wide, l))
				if !c.Expect("residue", gTo(&z), kit.Mod(wide, n)) {
					return
				}
			}
			c.Done()
		}
	})
}

type grp struct {
	name string
	g    group.Group
	n    *big.Int
	size int
	be   bool // big-endian encoding
}

func TestC12GroupScalar(t *testing.T) {
	defer vlib.Done()
	groups := []grp{
		// orders from the standard library's curve parameters (independent of circl)
		{"group.P256", group.P256, elliptic.P256().Params().N, 32, true},
		{"group.P384", group.P384, elliptic.P384().Params().N, 48, true},
		{"group.P521", group.P521, elliptic.P521().Params().N, 66, true},
		{"group.Ristretto255", group.Ristretto255, kit.Hex("1000000000000000000000000000000014def9dea2f79cd65812631a5cf5d3ed"), 32, false},
	}
	for _, gr := range groups {
		gr := gr
		if !gr.n.ProbablyPrime(20) {
			t.Fatalf("SELFTEST-FAIL: order of %s", gr.name)
		}
		f := &kit.F{Name: gr.name, P: gr.n, Bits: 8 * gr.size, C: 1, Reduced: true}
		enc := func(v *big.Int) []byte {
			if gr.be {
				return vlib.BE(v, gr.size)
			}
			return vlib.LE(v, gr.size)
		}
		from := func(v *big.Int) group.Scalar {
			s := gr.g.NewScalar()
			if err := s.UnmarshalBinary(enc(v)); err != nil {
				panic(fmt.Sprintf("harness: canonical scalar refused: %v", err))
			}
			return s
		}
		to := func(s group.Scalar) *big.Int {
			b, err := s.MarshalBinary()
			if err != nil || len(b) != gr.size {
				panic("harness: Scalar.MarshalBinary")
			}
			if gr.be {
				return new(big.Int).SetBytes(b)
			}
			return vlib.FromLE(b)
		}
		t.Run(gr.name, func(t *testing.T) {
			vlib.Check(t, vlib.N(8000, 60000), func(t *rapid.T) {
				op := rapid.SampledFrom([]string{"Add", "Sub", "Mul", "Mul", "Neg", "Inv", "IsZero", "IsEqual", "SetUint64", "SetBigInt", "CMov", "CSelect", "Set", "Copy", "Marshal"}).Draw(t, "op")
				xv, xc := f.Operand(t, "x")
				yv, yc := f.Operand(t, "y")
				jv, _ := f.Operand(t, "junk")
				alias := kit.AliasNone
				switch op {
				case "Add", "Sub", "Mul":
					alias = kit.DrawAlias3(t)
				case "Neg", "Inv":
					alias = kit.DrawAlias2(t)
				case "IsEqual":
					yv, yc = f.DrawSecond(t, xv, xc, "y2")
				}
				if alias == kit.AliasXY || alias == kit.AliasAll {
					yv, yc = xv, xc
				}
				sel := rapid.IntRange(0, 1).Draw(t, "sel")
				for _, alias := range kit.Patterns(alias) {
					c := &kit.Case{T: t, Type: gr.name, Op: op, Backend: "go", Alias: alias, Vals: []*big.Int{xv, yv}, Classes: []string{xc, yc}}
					x, y, z := from(xv), from(yv), from(jv)
					// objects under the alias pattern
					px, py, pz := x, y, z
					switch alias {
					case kit.AliasZX:
						pz = px
					case kit.AliasZY:
						pz = py
					case kit.AliasXY:
						py = px
					case kit.AliasAll:
						py, pz = px, px
					}
					var r group.Scalar
					w := new(big.Int)
					switch op {
					case "Add":
						r = pz.Add(px, py)
						w.Add(xv, yv)
					case "Sub":
						r = pz.Sub(px, py)
						w.Sub(xv, yv)
					case "Mul":
						r = pz.Mul(px, py)
						w.Mul(xv, yv)
					case "Neg":
						c.Vals, c.Classes = c.Vals[:1], c.Classes[:1]
						r = pz.Neg(px)
						w.Neg(xv)
					case "Inv":
						c.Vals, c.Classes = c.Vals[:1], c.Classes[:1]
						if xv.Sign() == 0 {
							vlib.Class(gr.name, "inv-of-zero(not asserted)")
							continue
						}
						r = pz.Inv(px)
						w.ModInverse(xv, gr.n)
					case "IsZero":
						c.Vals, c.Classes = c.Vals[:1], c.Classes[:1]
						vlib.Class(gr.name, fmt.Sprintf("IsZero=%v", xv.Sign() == 0))
						if x.IsZero() != (xv.Sign() == 0) {
							c.Fail("wrong-predicate", "IsZero")
							return
						}
					case "IsEqual":
						vlib.Class(gr.name, fmt.Sprintf("IsEqual=%v", xv.Cmp(yv) == 0))
						if x.IsEqual(y) != (xv.Cmp(yv) == 0) {
							c.Fail("wrong-predicate", "IsEqual")
							return
						}
					case "SetUint64":
						n64 := vlib.Limbs(t, 1, 1, "n").Uint64()
						c.Vals, c.Classes = []*big.Int{new(big.Int).SetUint64(n64)}, []string{"word"}
						r = z.SetUint64(n64)
						w.SetUint64(n64)
					case "SetBigInt":
						// any integer, reduced modulo the order
						bv := vlib.Limbs(t, rapid.IntRange(1, 12).Draw(t, "bw"), 1, "big")
						if rapid.IntRange(0, 3).Draw(t, "bneg") == 0 {
							bv.Neg(bv)
						}
						if rapid.IntRange(0, 3).Draw(t, "bmult") == 0 {
							bv.Mul(bv, gr.n)
						}
						c.Vals, c.Classes = []*big.Int{bv}, []string{"bigint"}
						in := new(big.Int).Set(bv)
						r = z.SetBigInt(in)
						if in.Cmp(bv) != 0 {
							c.Fail("argument-modified", "SetBigInt changed its argument")
							return
						}
						w.Set(bv)
					case "CMov":
						c.Vals, c.Classes = append(c.Vals, big.NewInt(int64(sel))), append(c.Classes, "sel")
						r = z.CMov(sel, x)
						w.Set(jv)
						if sel == 1 {
							w.Set(xv)
						}
					case "CSelect":
						c.Vals, c.Classes = append(c.Vals, big.NewInt(int64(sel))), append(c.Classes, "sel")
						r = z.CSelect(sel, x, y)
						w.Set(yv)
						if sel == 1 {
							w.Set(xv)
						}
					case "Set":
						c.Vals, c.Classes = c.Vals[:1], c.Classes[:1]
						r = z.Set(x)
						w.Set(xv)
					case "Copy":
						c.Vals, c.Classes = c.Vals[:1], c.Classes[:1]
						cp := x.Copy()
						x.Add(x, from(big.NewInt(1))) // the copy must not follow
						r = cp
						w.Set(xv)
					case "Marshal":
						c.Vals, c.Classes = c.Vals[:1], c.Classes[:1]
						b, err := x.MarshalBinary()
						if err != nil || !bytes.Equal(b, enc(xv)) {
							c.Fail("wrong-encoding", fmt.Sprintf("MarshalBinary = %x err=%v", b, err))
							return
						}
					}
					if r != nil {
						if !c.Expect("result", to(r), w.Mod(w, gr.n)) {
							return
						}
						if op != "Copy" && op != "IsZero" && op != "IsEqual" {
							// the methods return the receiver
							want := pz
							if op == "SetUint64" || op == "SetBigInt" || op == "CMov" || op == "CSelect" || op == "Set" {
								want = z
							}
							if r != want {
								c.Fail("not-receiver", "the method did not return its receiver")
								return
							}
						}
						// operands that are not the receiver keep their value
						if op == "Add" || op == "Sub" || op == "Mul" || op == "Neg" || op == "Inv" {
							if px != pz && to(px).Cmp(xv) != 0 || (op != "Neg" && op != "Inv" && py != pz && to(py).Cmp(yv) != 0) {
								c.Fail("operand-clobbered", "an operand that is not the receiver changed")
								return
							}
						}
					}
					c.Done()
				}
			})
		})
	}
}

// Deterministic sweep of the zero / equality tests over every single-bit and one-limb pattern.
func TestC12ScalarPredicateSweep(t *testing.T) {
	defer vlib.Done()
	kit.SweepPredicates(t, &kit.Preds[goldilocks.Scalar]{F: &kit.F{Name: "goldilocks.Scalar", P: ed448Order, Bits: 448, C: 1},
		Type: "goldilocks.Scalar", Backend: "go", From: gFrom,
		IsZero: func(x *goldilocks.Scalar) bool { return x.IsZero() }})
	for _, gr := range []struct {
		name string
		g    group.Group
		n    *big.Int
		size int
		be   bool
	}{
		{"group.P256", group.P256, elliptic.P256().Params().N, 32, true},
		{"group.P384", group.P384, elliptic.P384().Params().N, 48, true},
		{"group.P521", group.P521, elliptic.P521().Params().N, 66, true},
		{"group.Ristretto255", group.Ristretto255, kit.Hex("1000000000000000000000000000000014def9dea2f79cd65812631a5cf5d3ed"), 32, false},
	} {
		gr := gr
		kit.SweepPredicates(t, &kit.Preds[group.Scalar]{F: &kit.F{Name: gr.name, P: gr.n, Bits: 8 * gr.size, C: 1, Reduced: true},
			Type: gr.name, Backend: "go",
			From: func(v *big.Int) group.Scalar {
				s := gr.g.NewScalar()
				b := vlib.LE(v, gr.size)
				if gr.be {
					b = vlib.BE(v, gr.size)
				}
				if err := s.UnmarshalBinary(b); err != nil {
					panic(err)
				}
				return s
			},
			IsZero:  func(x *group.Scalar) bool { return (*x).IsZero() },
			IsEqual: func(x, y *group.Scalar) bool { return (*x).IsEqual(*y) }})
	}
}
