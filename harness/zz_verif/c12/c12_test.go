//go:build verif

// C12 black-box: the exported API of math/fp25519 and math/fp448 (run under
// every CPU configuration and the purego build by the driver) and the
// integer/byte conversions of internal/conv, against math/big.
package c12

import (
	"bytes"
	"encoding/binary"
	"fmt"
	"math/big"
	"strings"
	"testing"

	"github.com/cloudflare/circl/internal/conv"
	"github.com/cloudflare/circl/math/fp25519"
	"github.com/cloudflare/circl/math/fp448"
	"github.com/cloudflare/circl/zz_verif/c12/kit"
	"github.com/cloudflare/circl/zz_verif/vlib"
	"pgregory.net/rapid"
)

func TestC12Fp25519API(t *testing.T) {
	defer vlib.Done()
	prime := new(big.Int).Sub(kit.Pow2(255), big.NewInt(19))
	ty := &kit.EltType[fp25519.Elt]{
		F:            &kit.F{Name: "fp25519", P: prime, Bits: 256, C: 38},
		Size:         fp25519.Size,
		From:         func(v *big.Int) (e fp25519.Elt) { copy(e[:], vlib.LE(v, fp25519.Size)); return },
		To:           func(e *fp25519.Elt) *big.Int { return vlib.FromLE(e[:]) },
		InvSqrtNonQR: "undetermined",
	}
	if fp25519.P() != ty.From(prime) {
		vlib.ReportDirect(t, "C12/fp25519/P/api/wrong-constant", "P() is not 2^255-19", nil)
	}
	be := []kit.EltOps[fp25519.Elt]{{
		Backend: "api-" + vlib.Config,
		Add:     fp25519.Add, Sub: fp25519.Sub, Mul: fp25519.Mul, Sqr: fp25519.Sqr, Neg: fp25519.Neg, Inv: fp25519.Inv,
		Modp: fp25519.Modp, AddSub: fp25519.AddSub, Cmov: fp25519.Cmov, Cswap: fp25519.Cswap, InvSqrt: fp25519.InvSqrt,
		IsZero: fp25519.IsZero, ToBytes: fp25519.ToBytes, SetOne: fp25519.SetOne,
	}}
	kit.SweepPredicates(t, &kit.Preds[fp25519.Elt]{F: ty.F, Type: "fp25519", Backend: be[0].Backend, From: ty.From, IsZero: fp25519.IsZero})
	vlib.Check(t, vlib.N(30000, 150000), func(t *rapid.T) { kit.CheckElt(t, ty, be) })
}

func TestC12Fp448API(t *testing.T) {
	defer vlib.Done()
	prime := new(big.Int).Sub(kit.Pow2(448), kit.Pow2(224))
	prime.Sub(prime, big.NewInt(1))
	ty := &kit.EltType[fp448.Elt]{
		F:            &kit.F{Name: "fp448", P: prime, Bits: 448, C: 1},
		Size:         fp448.Size,
		From:         func(v *big.Int) (e fp448.Elt) { copy(e[:], vlib.LE(v, fp448.Size)); return },
		To:           func(e *fp448.Elt) *big.Int { return vlib.FromLE(e[:]) },
		InvSqrtNonQR: "sqrt(-x/y)",
	}
	if fp448.P() != ty.From(prime) || fp448.One() != ty.From(big.NewInt(1)) {
		vlib.ReportDirect(t, "C12/fp448/P/api/wrong-constant", "P() is not 2^448-2^224-1 or One() is not 1", nil)
	}
	be := []kit.EltOps[fp448.Elt]{{
		Backend: "api-" + vlib.Config,
		Add:     fp448.Add, Sub: fp448.Sub, Mul: fp448.Mul, Sqr: fp448.Sqr, Neg: fp448.Neg, Inv: fp448.Inv,
		Modp: fp448.Modp, AddSub: fp448.AddSub, Cmov: fp448.Cmov, Cswap: fp448.Cswap, InvSqrt: fp448.InvSqrt,
		IsZero: fp448.IsZero, IsOne: fp448.IsOne, ToBytes: fp448.ToBytes, SetOne: fp448.SetOne,
	}}
	kit.SweepPredicates(t, &kit.Preds[fp448.Elt]{F: ty.F, Type: "fp448", Backend: be[0].Backend, From: ty.From, IsZero: fp448.IsZero, IsOne: fp448.IsOne})
	vlib.Check(t, vlib.N(30000, 150000), func(t *rapid.T) { kit.CheckElt(t, ty, be) })
}

// internal/conv: conversions between little/big-endian bytes, uint64 limbs and big.Int.
func TestC12Conv(t *testing.T) {
	defer vlib.Done()
	const sub = "internal/conv"
	vlib.Check(t, vlib.N(20000, 100000), func(t *rapid.T) {
		n := rapid.IntRange(0, 80).Draw(t, "nbytes")
		var v *big.Int
		cls := "uniform"
		if n == 0 {
			v = new(big.Int)
		} else if rapid.Bool().Draw(t, "edge") {
			v = vlib.Limbs(t, (n+7)/8, 1, "v")
			v.Mod(v, kit.Pow2(8*n))
			cls = "limb-edge"
		} else {
			b := make([]byte, n)
			vlib.FillRandom(t, b, "v")
			v = new(big.Int).SetBytes(b)
		}
		le, be := vlib.LE(v, n), vlib.BE(v, n)
		fn := rapid.SampledFrom([]string{"BytesLe2BigInt", "BytesLe2Hex", "BytesBe2Uint64Le", "BigInt2BytesLe", "Uint64Le2BigInt", "Uint64Le2BytesLe", "Uint64Le2BytesBe", "Uint64Le2Hex", "BigInt2Uint64Le"}).Draw(t, "fn")
		vlib.Eval(sub)
		vlib.Class(sub, "fn="+fn)
		fail := func(detail string) {
			vlib.Report(t, "C12/internal.conv/"+fn+"/wrong-result", fmt.Sprintf("n=%d v=0x%x: %s", n, v, detail))
		}
		nw := (n + 7) / 8
		words := make([]uint64, nw)
		pad := vlib.LE(v, 8*nw)
		for i := range words {
			words[i] = binary.LittleEndian.Uint64(pad[8*i:])
		}
		hexOf := func(width int) string {
			if width == 0 {
				return "0x00"
			}
			return "0x" + fmt.Sprintf("%0*x", 2*width, v)
		}
		switch fn {
		case "BytesLe2BigInt":
			if got := conv.BytesLe2BigInt(le); got.Cmp(v) != 0 {
				fail(fmt.Sprintf("got 0x%x", got))
			}
		case "BytesLe2Hex":
			if got := conv.BytesLe2Hex(le); got != hexOf(n) {
				fail("got " + got)
			}
		case "BytesBe2Uint64Le":
			got := conv.BytesBe2Uint64Le(be)
			if len(got) != nw {
				fail(fmt.Sprintf("length %d", len(got)))
				return
			}
			for i := range got {
				if got[i] != words[i] {
					fail(fmt.Sprintf("got %x", got))
					return
				}
			}
		case "Uint64Le2BigInt":
			if got := conv.Uint64Le2BigInt(words); got.Cmp(v) != 0 {
				fail(fmt.Sprintf("got 0x%x", got))
			}
		case "Uint64Le2BytesLe":
			if got := conv.Uint64Le2BytesLe(words); !bytes.Equal(got, pad) {
				fail(fmt.Sprintf("got %x", got))
			}
		case "Uint64Le2BytesBe":
			if got := conv.Uint64Le2BytesBe(words); !bytes.Equal(got, vlib.BE(v, 8*nw)) {
				fail(fmt.Sprintf("got %x", got))
			}
		case "Uint64Le2Hex":
			if got := conv.Uint64Le2Hex(words); got != hexOf(8*nw) {
				fail("got " + got)
			}
		case "BigInt2BytesLe", "BigInt2Uint64Le":
			// documented: z is written (zero padded) iff x is non-negative and fits; otherwise z is not modified
			zl := rapid.IntRange(0, 12).Draw(t, "zlen")
			neg := rapid.IntRange(0, 5).Draw(t, "neg") == 0 && v.Sign() != 0
			x := new(big.Int).Set(v)
			if neg {
				x.Neg(x)
				cls += "+negative"
			}
			if fn == "BigInt2BytesLe" {
				zl = rapid.IntRange(0, 90).Draw(t, "zlenb")
				z := bytes.Repeat([]byte{0xa5}, zl)
				conv.BigInt2BytesLe(z, x)
				want := bytes.Repeat([]byte{0xa5}, zl)
				if !neg && (v.BitLen()+7)/8 <= zl {
					want = vlib.LE(v, zl)
					vlib.Class(sub, "fits")
				} else {
					vlib.Class(sub, "does-not-fit-or-negative")
				}
				if !bytes.Equal(z, want) {
					vlib.Report(t, "C12/internal.conv/"+fn+"/"+map[bool]string{true: "negative-modifies", false: "wrong-result"}[neg], fmt.Sprintf("x=%s0x%x len(z)=%d: z=%x want %x", map[bool]string{true: "-", false: ""}[neg], v, zl, z, want))
				}
			} else {
				z := make([]uint64, zl)
				for i := range z {
					z[i] = 0xa5a5a5a5a5a5a5a5
				}
				conv.BigInt2Uint64Le(z, x)
				want := make([]uint64, zl)
				if !neg && (v.BitLen()+63)/64 <= zl {
					copy(want, words)
					vlib.Class(sub, "fits")
				} else {
					for i := range want {
						want[i] = 0xa5a5a5a5a5a5a5a5
					}
					vlib.Class(sub, "does-not-fit-or-negative")
				}
				for i := range z {
					if z[i] != want[i] {
						vlib.Report(t, "C12/internal.conv/"+fn+"/"+map[bool]string{true: "negative-modifies", false: "wrong-result"}[neg], fmt.Sprintf("x=%s0x%x len(z)=%d: z=%x want %x", map[bool]string{true: "-", false: ""}[neg], v, zl, z, want))
						return
					}
				}
			}
			if x.CmpAbs(v) != 0 {
				fail("argument modified")
			}
		}
		vlib.Class(sub, "operand="+cls)
		if !strings.HasPrefix(cls, "uniform") || n == 0 {
			vlib.NonTrivial(sub, "", []byte(fn), []byte{byte(n)}, v.Bytes())
		}
	})
}
