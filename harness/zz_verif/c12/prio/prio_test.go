//go:build verif

// C12 black-box: the Prio3 fields vdaf/prio3/arith/fp64 and fp128 (elements,
// vectors, NTT, polynomials) against math/big.
package prio

import (
	"bytes"
	"fmt"
	"math/big"
	"testing"

	"github.com/cloudflare/circl/vdaf/prio3/arith"
	"github.com/cloudflare/circl/vdaf/prio3/arith/fp128"
	"github.com/cloudflare/circl/vdaf/prio3/arith/fp64"
	"github.com/cloudflare/circl/zz_verif/c12/kit"
	"github.com/cloudflare/circl/zz_verif/vlib"
	"pgregory.net/rapid"
)

type field[E comparable, F arith.Fp[E]] struct {
	f        *kit.F
	size     int
	numRoots uint
	order    []byte
}

func (fd *field[E, F]) from(v *big.Int) (z E) {
	if err := F(&z).UnmarshalBinary(vlib.LE(v, fd.size)); err != nil {
		panic(fmt.Sprintf("harness: canonical value %x refused: %v", v, err))
	}
	return
}

func (fd *field[E, F]) to(z *E) *big.Int {
	b, err := F(z).MarshalBinary()
	if err != nil || len(b) != fd.size {
		panic("harness: MarshalBinary")
	}
	return vlib.FromLE(b)
}

// same: right value and the canonical object (identical words, IsEqual).
func (fd *field[E, F]) same(z *E, want *big.Int) bool {
	if fd.to(z).Cmp(want) != 0 {
		return false
	}
	w := fd.from(want)
	return *z == w && F(z).IsEqual(&w)
}

func (fd *field[E, F]) drawVec(t *rapid.T, n int, label string) ([]*big.Int, []E, bool) {
	vals := make([]*big.Int, n)
	out := make([]E, n)
	edge := false
	mode := rapid.IntRange(0, 2).Draw(t, label+".mode")
	for i := range vals {
		if mode == 0 {
			b := make([]byte, fd.size+8)
			vlib.FillRandom(t, b, fmt.Sprintf("%s.%d", label, i))
			vals[i] = kit.Mod(new(big.Int).SetBytes(b), fd.f.P)
		} else {
			var c string
			vals[i], c = fd.f.ValueOrMont(t, fmt.Sprintf("%s.%d", label, i))
			if c != "uniform" {
				edge = true
			}
		}
		out[i] = fd.from(vals[i])
	}
	return vals, out, edge
}

func checkFp[E comparable, F arith.Fp[E]](t *rapid.T, fd *field[E, F]) {
	f, p := fd.f, fd.f.P
	op := rapid.SampledFrom([]string{"Add", "Sub", "Mul", "Mul", "Sqr", "Inv", "AddAssign", "SubAssign", "MulAssign",
		"IsZero", "IsOne", "IsEqual", "SetOne", "SetUint64", "GetUint64", "InvUint64", "InvTwoN", "RootOfUnity", "Unmarshal", "Order"}).Draw(t, "op")
	xv, xc := f.ValueOrMont(t, "x")
	yv, yc := f.ValueOrMont(t, "y")
	jv, _ := f.ValueOrMont(t, "junk")
	alias := kit.AliasNone
	switch op {
	case "Add", "Sub", "Mul":
		alias = kit.DrawAlias3(t)
	case "Sqr", "Inv", "AddAssign", "SubAssign", "MulAssign":
		alias = kit.DrawAlias2(t)
	case "IsEqual":
		yv, yc = f.DrawSecond(t, xv, xc, "y2")
	}
	if alias == kit.AliasXY || alias == kit.AliasAll {
		yv, yc = xv, xc
	}
	// a quarter of the arithmetic cases: operands solved so that the Montgomery word of the RESULT is a
	// drawn edge word, mostly in the gap [0, 2^w−p) where an unreduced alias r+p still fits the limbs
	switch op {
	case "Add", "Sub", "Mul", "Sqr", "Inv":
		if (alias == kit.AliasNone || alias == kit.AliasZX || alias == kit.AliasZY || op == "Sqr" || op == "Inv") && rapid.IntRange(0, 3).Draw(t, "targeted") == 0 {
			if tx, ty, tc, ok := f.Targeted(t, op, nil, "tg"); ok {
				xv, yv, xc, yc = tx, ty, tc, tc
			}
		}
	}
	x0, y0, junk := fd.from(xv), fd.from(yv), fd.from(jv)
	// canon: the result must also be the canonical object (same words, IsEqual, IsZero/IsOne as the value says)
	canon := func(c *kit.Case, z *E, want *big.Int) bool {
		w := fd.from(want)
		if *z != w || !F(z).IsEqual(&w) || !F(&w).IsEqual(z) ||
			F(z).IsZero() != (want.Sign() == 0) || F(z).IsOne() != (want.Cmp(big.NewInt(1)) == 0) {
			c.Fail("non-canonical-result", fmt.Sprintf("value 0x%x is right but the element differs from the canonical one (words %v vs %v)", want, *z, w))
			return false
		}
		return true
	}
	w64 := vlib.Limbs(t, 1, 1, "w64").Uint64()
	small := uint(rapid.IntRange(0, int(fd.numRoots)).Draw(t, "n"))
	for _, alias := range kit.Patterns(alias) {
		c := &kit.Case{T: t, Type: f.Name, Op: op, Backend: "go", Alias: alias, Vals: []*big.Int{xv, yv}, Classes: []string{xc, yc}}
		switch op {
		case "Add", "Sub", "Mul":
			fn := map[string]func(z, x, y *E){
				"Add": func(z, x, y *E) { F(z).Add(x, y) }, "Sub": func(z, x, y *E) { F(z).Sub(x, y) }, "Mul": func(z, x, y *E) { F(z).Mul(x, y) }}[op]
			z, xo, yo := kit.Bin(alias, fn, x0, y0, junk)
			w := new(big.Int)
			switch op {
			case "Add":
				w.Add(xv, yv)
			case "Sub":
				w.Sub(xv, yv)
			case "Mul":
				w.Mul(xv, yv)
			}
			if !c.Expect("result", fd.to(&z), w.Mod(w, p)) || !canon(c, &z, w) {
				return
			}
			if (alias == kit.AliasNone || alias == kit.AliasZY || alias == kit.AliasXY) && xo != x0 ||
				(alias == kit.AliasNone || alias == kit.AliasZX) && yo != y0 {
				c.Fail("operand-clobbered", "an operand that is not the receiver changed")
				return
			}
		case "Sqr", "Inv":
			c.Vals, c.Classes = c.Vals[:1], c.Classes[:1]
			fn := func(z, x *E) { F(z).Sqr(x) }
			w := new(big.Int).Mul(xv, xv)
			if op == "Inv" {
				fn = func(z, x *E) { F(z).Inv(x) }
				if xv.Sign() == 0 {
					vlib.Class(f.Name, "inv-of-zero(not asserted)")
					w = nil
				} else {
					w.ModInverse(xv, p)
				}
			}
			z, _ := kit.Un(alias, fn, x0, junk)
			if w != nil && (!c.Expect("result", fd.to(&z), w.Mod(w, p)) || !canon(c, &z, w)) {
				return
			}
		case "AddAssign", "SubAssign", "MulAssign":
			// z op= x ; alias z=x means z.OpAssign(z)
			z, x := y0, x0
			zv := yv
			px := &x
			if alias == kit.AliasZX {
				z, zv = x0, xv
				px = &z
			}
			w := new(big.Int)
			switch op {
			case "AddAssign":
				F(&z).AddAssign(px)
				w.Add(zv, xv)
			case "SubAssign":
				F(&z).SubAssign(px)
				w.Sub(zv, xv)
			case "MulAssign":
				F(&z).MulAssign(px)
				w.Mul(zv, xv)
			}
			if !c.Expect("result", fd.to(&z), w.Mod(w, p)) || !canon(c, &z, w) {
				return
			}
		case "IsZero", "IsOne":
			c.Vals, c.Classes = c.Vals[:1], c.Classes[:1]
			z := x0
			var got, want bool
			if op == "IsZero" {
				got, want = F(&z).IsZero(), xv.Sign() == 0
			} else {
				got, want = F(&z).IsOne(), xv.Cmp(big.NewInt(1)) == 0
			}
			vlib.Class(f.Name, fmt.Sprintf("%s=%v", op, want))
			if got != want {
				c.Fail("wrong-predicate", fmt.Sprintf("%s=%v", op, got))
				return
			}
		case "IsEqual":
			a, b := x0, y0
			want := xv.Cmp(yv) == 0
			vlib.Class(f.Name, fmt.Sprintf("IsEqual=%v", want))
			if F(&a).IsEqual(&b) != want {
				c.Fail("wrong-predicate", "IsEqual")
				return
			}
		case "SetOne":
			z := junk
			F(&z).SetOne()
			if !c.Expect("value", fd.to(&z), big.NewInt(1)) {
				return
			}
		case "SetUint64":
			// documented: set to x if x < Order()
			c.Vals, c.Classes = []*big.Int{new(big.Int).SetUint64(w64)}, []string{"word"}
			z := junk
			err := F(&z).SetUint64(w64)
			inRange := new(big.Int).SetUint64(w64).Cmp(p) < 0
			vlib.Class(f.Name, fmt.Sprintf("SetUint64-in-range=%v", inRange))
			if inRange != (err == nil) {
				c.Fail("wrong-acceptance", fmt.Sprintf("SetUint64(%d) err=%v", w64, err))
				return
			}
			if err == nil && !c.Expect("value", fd.to(&z), new(big.Int).SetUint64(w64)) {
				return
			}
		case "GetUint64":
			// documented: the integer representative if it is < 2^64
			c.Vals, c.Classes = c.Vals[:1], c.Classes[:1]
			z := x0
			got, err := F(&z).GetUint64()
			if xv.IsUint64() {
				if err != nil || got != xv.Uint64() {
					c.Fail("wrong-value", fmt.Sprintf("GetUint64 = %d, %v", got, err))
					return
				}
			} else if err == nil {
				c.Fail("missing-error", fmt.Sprintf("GetUint64 of a value ≥ 2^64 returned %d", got))
				return
			}
		case "InvUint64":
			n := w64
			if rapid.Bool().Draw(t, "smalln") {
				n = uint64(rapid.IntRange(1, 20).Draw(t, "nn"))
			}
			nb := new(big.Int).SetUint64(n)
			c.Vals, c.Classes = []*big.Int{nb}, []string{"word"}
			if kit.Mod(nb, p).Sign() == 0 || nb.Cmp(p) >= 0 {
				break // 1/0 is undefined; x ≥ Order is refused by SetUint64 (documented panic)
			}
			z := junk
			F(&z).InvUint64(n)
			if wi := new(big.Int).ModInverse(nb, p); !c.Expect("result", fd.to(&z), wi) || !canon(c, &z, wi) {
				return
			}
		case "InvTwoN":
			c.Vals, c.Classes = []*big.Int{big.NewInt(int64(small))}, []string{"n"}
			z := junk
			F(&z).InvTwoN(small)
			if wi := new(big.Int).ModInverse(kit.Mod(kit.Pow2(int(small)), p), p); !c.Expect("result", fd.to(&z), wi) || !canon(c, &z, wi) {
				return
			}
		case "RootOfUnity":
			// the principal root of unity of order 2^n: ω^(2^n) = 1 and ω^(2^(n−1)) = −1
			c.Vals, c.Classes = []*big.Int{big.NewInt(int64(small))}, []string{"n"}
			z := junk
			F(&z).SetRootOfUnityTwoN(small)
			w := fd.to(&z)
			if new(big.Int).Exp(w, kit.Pow2(int(small)), p).Cmp(big.NewInt(1)) != 0 ||
				(small > 0 && new(big.Int).Exp(w, kit.Pow2(int(small)-1), p).Cmp(new(big.Int).Sub(p, big.NewInt(1))) != 0) {
				c.Fail("not-primitive", fmt.Sprintf("SetRootOfUnityTwoN(%d) = %x", small, w))
				return
			}
			if o, ok := any(F(&z)).(interface{ OrderRootUnity() uint }); ok && o.OrderRootUnity() != fd.numRoots {
				c.Fail("wrong-constant", "OrderRootUnity")
				return
			}
		case "Unmarshal":
			// exactly the canonical little-endian encodings are accepted
			v, cls := (&kit.F{Name: f.Name, P: p, Bits: 8 * fd.size, C: 1}).Operand(t, "u")
			c.Vals, c.Classes = []*big.Int{v}, []string{cls}
			z := junk
			err := F(&z).UnmarshalBinary(vlib.LE(v, fd.size))
			inRange := v.Cmp(p) < 0
			vlib.Class(f.Name, fmt.Sprintf("Unmarshal-in-range=%v", inRange))
			if inRange != (err == nil) {
				c.Fail("wrong-acceptance", fmt.Sprintf("UnmarshalBinary err=%v", err))
				return
			}
			if err == nil {
				b, _ := F(&z).MarshalBinary()
				if !bytes.Equal(b, vlib.LE(v, fd.size)) {
					c.Fail("roundtrip", fmt.Sprintf("MarshalBinary gave %x", b))
					return
				}
			}
		case "Order":
			c.Vals, c.Classes = nil, nil
			if new(big.Int).SetBytes(fd.order).Cmp(p) != 0 {
				c.Fail("wrong-constant", fmt.Sprintf("Order() = %x", fd.order))
				return
			}
		}
		c.Done()
	}
}

// vectors and polynomials
func checkVecPoly[E comparable, F arith.Fp[E], V arith.Vec[V, E], P arith.Poly[P, E]](t *rapid.T, fd *field[E, F]) {
	f, p := fd.f, fd.f.P
	sub := f.Name + ".vec"
	op := rapid.SampledFrom([]string{"NTT", "NTT", "InvNTT", "PolyMul", "PolyMul", "MulNSquare", "MulNlogN", "PolySqr", "Evaluate", "DotProduct", "VecOps", "Bits", "Strip"}).Draw(t, "op")
	vlib.Eval(sub)
	vlib.Class(sub, "op="+op)
	fail := func(class, detail string) {
		vlib.Report(t, "C12/"+f.Name+"/"+op+"/go/"+class, detail)
	}
	root := func(logN uint) *big.Int {
		var w E
		F(&w).SetRootOfUnityTwoN(logN)
		return fd.to(&w)
	}
	hashParts := func(vs ...[]*big.Int) [][]byte {
		o := [][]byte{[]byte(op)}
		for _, v := range vs {
			for _, x := range v {
				o = append(o, x.Bytes())
			}
		}
		return o
	}
	switch op {
	case "NTT", "InvNTT":
		logN := uint(rapid.IntRange(0, 6).Draw(t, "logN"))
		N := 1 << logN
		n := N
		if rapid.Bool().Draw(t, "short") {
			n = rapid.IntRange(0, N).Draw(t, "len")
		}
		vals, in, edge := fd.drawVec(t, n, "v")
		out := make([]E, N) // zero receiver (the receiver's old content is only overwritten where the input reaches)
		if n == N {
			_, junk, _ := fd.drawVec(t, N, "junk")
			out = junk
		}
		w := root(logN)
		if op == "InvNTT" {
			V(out).InvNTT(V(in), uint(N))
			w = new(big.Int).ModInverse(w, p)
		} else {
			V(out).NTT(V(in), uint(N))
		}
		// out[k] = Σ_j in[j]·ω^(jk), ω the package's principal 2^logN-th root (its inverse for InvNTT, no 1/N factor)
		for k := 0; k < N; k++ {
			acc := new(big.Int)
			wk := new(big.Int).Exp(w, big.NewInt(int64(k)), p)
			pw := big.NewInt(1)
			for j := 0; j < n; j++ {
				acc.Add(acc, new(big.Int).Mul(vals[j], pw))
				pw = kit.Mod(new(big.Int).Mul(pw, wk), p)
			}
			acc.Mod(acc, p)
			if !fd.same(&out[k], acc) {
				fail("wrong-transform", fmt.Sprintf("N=%d len=%d in=%x: out[%d]=%x want %x", N, n, vals, k, fd.to(&out[k]), acc))
				return
			}
		}
		for j := range in {
			if !fd.same(&in[j], vals[j]) {
				fail("operand-clobbered", "input vector changed")
				return
			}
		}
		vlib.Class(sub, fmt.Sprintf("N=%d", N))
		if edge || n < N {
			vlib.NonTrivial(sub, "", hashParts(vals, []*big.Int{big.NewInt(int64(N))})...)
		}
	case "PolyMul", "MulNSquare", "MulNlogN", "PolySqr":
		lx := rapid.IntRange(1, 40).Draw(t, "lx")
		ly := rapid.IntRange(1, 40).Draw(t, "ly")
		if op == "PolyMul" && rapid.IntRange(0, 3).Draw(t, "big") == 0 {
			lx, ly = rapid.IntRange(60, 90).Draw(t, "lxb"), rapid.IntRange(60, 90).Draw(t, "lyb") // above the NlogN threshold (128)
		}
		xv, x, e1 := fd.drawVec(t, lx, "x")
		yv, y, e2 := fd.drawVec(t, ly, "y")
		if op == "PolySqr" {
			yv, y, ly = xv, x, lx
		}
		_, z, _ := fd.drawVec(t, lx+ly-1, "junk")
		switch op {
		case "PolyMul":
			P(z).Mul(P(x), P(y))
		case "MulNSquare":
			m, ok := any(P(z)).(interface{ MulNSquare(x, y P) })
			if !ok {
				return
			}
			m.MulNSquare(P(x), P(y))
		case "MulNlogN":
			m, ok := any(P(z)).(interface{ MulNlogN(x, y P) })
			if !ok {
				return
			}
			m.MulNlogN(P(x), P(y))
		case "PolySqr":
			P(z).Sqr(P(x))
		}
		want := make([]*big.Int, lx+ly-1)
		for i := range want {
			want[i] = new(big.Int)
		}
		for i := range xv {
			for j := range yv {
				want[i+j].Add(want[i+j], new(big.Int).Mul(xv[i], yv[j]))
			}
		}
		for i := range want {
			if !fd.same(&z[i], want[i].Mod(want[i], p)) {
				fail("wrong-product", fmt.Sprintf("x=%x y=%x: coefficient %d = %x want %x", xv, yv, i, fd.to(&z[i]), want[i]))
				return
			}
		}
		vlib.Class(sub, fmt.Sprintf("outlen>=128:%v", lx+ly-1 >= 128))
		if e1 || e2 {
			vlib.NonTrivial(sub, "", hashParts(xv, yv)...)
		}
	case "Evaluate", "Strip":
		n := rapid.IntRange(0, 20).Draw(t, "n")
		cv, cf, _ := fd.drawVec(t, n, "c")
		av, a, _ := fd.drawVec(t, 1, "a")
		if op == "Evaluate" {
			got := P(cf).Evaluate(&a[0])
			want := new(big.Int)
			for i := n - 1; i >= 0; i-- {
				want.Mul(want, av[0]).Add(want, cv[i]).Mod(want, p)
			}
			if !fd.same(&got, want) {
				fail("wrong-value", fmt.Sprintf("p=%x at %x: %x want %x", cv, av[0], fd.to(&got), want))
				return
			}
		} else {
			k := rapid.IntRange(0, n).Draw(t, "zeros")
			for i := n - k; i < n; i++ {
				cv[i] = new(big.Int)
				cf[i] = fd.from(cv[i])
			}
			wantLen := 0
			for i := range cv {
				if cv[i].Sign() != 0 {
					wantLen = i + 1
				}
			}
			if got := P(cf).Strip(); len(got) != wantLen {
				fail("wrong-length", fmt.Sprintf("Strip of %x has length %d want %d", cv, len(got), wantLen))
				return
			}
		}
		vlib.NonTrivial(sub, "", hashParts(cv, av)...)
	case "DotProduct", "VecOps":
		n := rapid.IntRange(0, 24).Draw(t, "n")
		xv, x, _ := fd.drawVec(t, n, "x")
		yv, y, _ := fd.drawVec(t, n, "y")
		av, a, _ := fd.drawVec(t, 1, "a")
		if op == "DotProduct" {
			got := V(x).DotProduct(V(y))
			want := new(big.Int)
			for i := range xv {
				want.Add(want, new(big.Int).Mul(xv[i], yv[i]))
			}
			if !fd.same(&got, want.Mod(want, p)) {
				fail("wrong-value", fmt.Sprintf("x=%x y=%x: %x want %x", xv, yv, fd.to(&got), want))
				return
			}
		} else {
			s := append([]E{}, x...)
			d := append([]E{}, x...)
			m := append([]E{}, x...)
			V(s).AddAssign(V(y))
			V(d).SubAssign(V(y))
			V(m).ScalarMul(&a[0])
			for i := range xv {
				ws := kit.Mod(new(big.Int).Add(xv[i], yv[i]), p)
				wd := kit.Mod(new(big.Int).Sub(xv[i], yv[i]), p)
				wm := kit.Mod(new(big.Int).Mul(xv[i], av[0]), p)
				if !fd.same(&s[i], ws) || !fd.same(&d[i], wd) || !fd.same(&m[i], wm) {
					fail("wrong-value", fmt.Sprintf("index %d of AddAssign/SubAssign/ScalarMul", i))
					return
				}
			}
			if V(x).Size() != uint(n*fd.size) {
				fail("wrong-size", "Vec.Size")
				return
			}
		}
		vlib.NonTrivial(sub, "", hashParts(xv, yv, av)...)
	case "Bits":
		n := vlib.Limbs(t, 1, 1, "n").Uint64()
		l := rapid.IntRange(0, 70).Draw(t, "len")
		v := make([]E, l)
		err := V(v).SplitBits(n)
		fits := new(big.Int).SetUint64(n).BitLen() <= l
		if fits != (err == nil) {
			fail("wrong-acceptance", fmt.Sprintf("SplitBits(%d) into %d elements: err=%v", n, l, err))
			return
		}
		if err == nil {
			for i := range v {
				if fd.to(&v[i]).Uint64() != (n>>uint(i))&1 && i < 64 {
					fail("wrong-bit", fmt.Sprintf("SplitBits(%d)[%d]", n, i))
					return
				}
			}
			j := V(v).JoinBits()
			if fd.to(&j).Cmp(kit.Mod(new(big.Int).SetUint64(n), p)) != 0 {
				fail("wrong-join", fmt.Sprintf("JoinBits(SplitBits(%d)) = %x", n, fd.to(&j)))
				return
			}
		}
		vlib.NonTrivial(sub, "", []byte(op), new(big.Int).SetUint64(n).Bytes(), []byte{byte(l)})
	}
}

func TestC12Prio(t *testing.T) {
	defer vlib.Done()
	p64 := kit.Hex("ffffffff00000001")
	p128 := kit.Hex("ffffffffffffffe40000000000000001")
	if !p64.ProbablyPrime(20) || !p128.ProbablyPrime(20) {
		t.Fatalf("SELFTEST-FAIL: Prio3 field orders")
	}
	var a fp64.Fp
	var b fp128.Fp
	f64 := &field[fp64.Fp, *fp64.Fp]{f: &kit.F{Name: "prio.fp64", P: p64, Bits: 64, C: 1 << 32, Reduced: true, R: kit.Pow2(64)}, size: fp64.Size, numRoots: 32, order: a.Order()}
	f128 := &field[fp128.Fp, *fp128.Fp]{f: &kit.F{Name: "prio.fp128", P: p128, Bits: 128, C: 28, Reduced: true, R: kit.Pow2(128)}, size: fp128.Size, numRoots: 66, order: b.Order()}
	t.Run("sweep", func(t *testing.T) {
		kit.SweepPredicates(t, &kit.Preds[fp64.Fp]{F: f64.f, Type: "prio.fp64", Backend: "go", From: f64.from,
			IsZero: func(x *fp64.Fp) bool { return x.IsZero() }, IsOne: func(x *fp64.Fp) bool { return x.IsOne() },
			IsEqual: func(x, y *fp64.Fp) bool { return x.IsEqual(y) }})
		kit.SweepPredicates(t, &kit.Preds[fp128.Fp]{F: f128.f, Type: "prio.fp128", Backend: "go", From: f128.from,
			IsZero: func(x *fp128.Fp) bool { return x.IsZero() }, IsOne: func(x *fp128.Fp) bool { return x.IsOne() },
			IsEqual: func(x, y *fp128.Fp) bool { return x.IsEqual(y) }})
	})
	t.Run("fp64", func(t *testing.T) {
		vlib.Check(t, vlib.N(15000, 150000), func(t *rapid.T) { checkFp(t, f64) })
	})
	t.Run("fp128", func(t *testing.T) {
		vlib.Check(t, vlib.N(15000, 150000), func(t *rapid.T) { checkFp(t, f128) })
	})
	t.Run("fp64.vec", func(t *testing.T) {
		vlib.Check(t, vlib.N(1500, 15000), func(t *rapid.T) { checkVecPoly[fp64.Fp, *fp64.Fp, fp64.Vec, fp64.Poly](t, f64) })
	})
	t.Run("fp128.vec", func(t *testing.T) {
		vlib.Check(t, vlib.N(1500, 15000), func(t *rapid.T) { checkVecPoly[fp128.Fp, *fp128.Fp, fp128.Vec, fp128.Poly](t, f128) })
	})
}
