//go:build verif

package bls

import (
	"bytes"
	"fmt"
	"math/big"
	"testing"

	"github.com/cloudflare/circl/ecc/bls12381/ff"
	"github.com/cloudflare/circl/zz_verif/c12/kit"
	"github.com/cloudflare/circl/zz_verif/ref/fptower"
	"github.com/cloudflare/circl/zz_verif/vlib"
	"pgregory.net/rapid"
)

// primeAPI is the common method set of ff.Fp and ff.Scalar.
type primeAPI[T any] interface {
	*T
	Add(x, y *T)
	Sub(x, y *T)
	Mul(x, y *T)
	Sqr(x *T)
	Inv(x *T)
	Neg()
	IsZero() int
	IsEqual(x *T) int
	SetUint64(uint64)
	SetOne()
	SetBytes([]byte)
	SetString(string) error
	MarshalBinary() ([]byte, error)
	UnmarshalBinary([]byte) error
}

func checkPrime[T comparable, PT primeAPI[T]](t *rapid.T, f *kit.F, size int, order []byte) {
	p := f.P
	from := func(v *big.Int) (z T) {
		if err := PT(&z).UnmarshalBinary(vlib.BE(v, size)); err != nil {
			panic(fmt.Sprintf("harness: canonical value refused: %v", err))
		}
		return
	}
	to := func(z *T) *big.Int {
		b, err := PT(z).MarshalBinary()
		if err != nil || len(b) != size {
			panic("harness: MarshalBinary")
		}
		return new(big.Int).SetBytes(b)
	}
	op := rapid.SampledFrom([]string{"Add", "Sub", "Mul", "Mul", "Sqr", "Inv", "Neg", "IsZero", "IsEqual", "SetUint64", "SetOne", "SetBytes", "SetString", "UnmarshalBinary", "Order"}).Draw(t, "op")
	xv, xc := f.ValueOrMont(t, "x")
	yv, yc := f.ValueOrMont(t, "y")
	jv, _ := f.ValueOrMont(t, "junk")
	alias := kit.AliasNone
	switch op {
	case "Add", "Sub", "Mul":
		alias = kit.DrawAlias3(t)
	case "Sqr", "Inv":
		alias = kit.DrawAlias2(t)
	case "IsEqual":
		yv, yc = f.DrawSecond(t, xv, xc, "y2")
	}
	if alias == kit.AliasXY || alias == kit.AliasAll {
		yv, yc = xv, xc
	}
	// a quarter of the arithmetic cases: operands solved so that the Montgomery word of the RESULT is a drawn edge word
	switch op {
	case "Add", "Sub", "Mul", "Sqr", "Inv":
		if (alias == kit.AliasNone || alias == kit.AliasZX || alias == kit.AliasZY || op == "Sqr" || op == "Inv") && rapid.IntRange(0, 3).Draw(t, "targeted") == 0 {
			if tx, ty, tc, ok := f.Targeted(t, op, nil, "tg"); ok {
				xv, yv, xc, yc = tx, ty, tc, tc
			}
		}
	}
	x0, y0, junk := from(xv), from(yv), from(jv)
	// canon: the result must also be the canonical object (same limbs, IsEqual, IsZero as the value says)
	canon := func(c *kit.Case, z *T, want *big.Int) bool {
		w := from(want)
		wantZero := 0
		if want.Sign() == 0 {
			wantZero = 1
		}
		if *z != w || PT(z).IsEqual(&w) != 1 || PT(&w).IsEqual(z) != 1 || PT(z).IsZero() != wantZero {
			c.Fail("non-canonical-result", fmt.Sprintf("value 0x%x is right but the element differs from the canonical one", want))
			return false
		}
		return true
	}
	for _, alias := range kit.Patterns(alias) {
		c := &kit.Case{T: t, Type: f.Name, Op: op, Backend: "go", Alias: alias, Vals: []*big.Int{xv, yv}, Classes: []string{xc, yc}}
		switch op {
		case "Add", "Sub", "Mul":
			fn := map[string]func(z, x, y *T){
				"Add": func(z, x, y *T) { PT(z).Add(x, y) }, "Sub": func(z, x, y *T) { PT(z).Sub(x, y) }, "Mul": func(z, x, y *T) { PT(z).Mul(x, y) }}[op]
			z, xo, yo := kit.Bin(alias, fn, x0, y0, junk)
			w := new(big.Int)
			switch op {
			case "Add":
				w.Add(xv, yv)
			case "Sub":
				w.Sub(xv, yv)
			case "Mul":
				w.Mul(xv, yv)
			}
			if !c.Expect("result", to(&z), w.Mod(w, p)) || !canon(c, &z, w) {
				return
			}
			if (alias == kit.AliasNone || alias == kit.AliasZY || alias == kit.AliasXY) && xo != x0 ||
				(alias == kit.AliasNone || alias == kit.AliasZX) && yo != y0 {
				c.Fail("operand-clobbered", "an operand that is not the receiver changed")
				return
			}
		case "Sqr", "Inv":
			c.Vals, c.Classes = c.Vals[:1], c.Classes[:1]
			fn := func(z, x *T) { PT(z).Sqr(x) }
			w := new(big.Int).Mul(xv, xv)
			if op == "Inv" {
				fn = func(z, x *T) { PT(z).Inv(x) }
				if xv.Sign() == 0 {
					vlib.Class(f.Name, "inv-of-zero(not asserted)")
					w = nil
				} else {
					w.ModInverse(xv, p)
				}
			}
			z, _ := kit.Un(alias, fn, x0, junk)
			if w != nil && (!c.Expect("result", to(&z), w.Mod(w, p)) || !canon(c, &z, w)) {
				return
			}
		case "Neg":
			c.Vals, c.Classes = c.Vals[:1], c.Classes[:1]
			z := x0
			PT(&z).Neg()
			if wn := kit.Mod(new(big.Int).Neg(xv), p); !c.Expect("result", to(&z), wn) || !canon(c, &z, wn) {
				return
			}
		case "IsZero":
			c.Vals, c.Classes = c.Vals[:1], c.Classes[:1]
			z := x0
			want := 0
			if xv.Sign() == 0 {
				want = 1
			}
			vlib.Class(f.Name, fmt.Sprintf("IsZero=%d", want))
			if got := PT(&z).IsZero(); got != want {
				c.Fail("wrong-predicate", fmt.Sprintf("IsZero=%d", got))
				return
			}
		case "IsEqual":
			a, b := x0, y0
			want := 0
			if xv.Cmp(yv) == 0 {
				want = 1
			}
			vlib.Class(f.Name, fmt.Sprintf("IsEqual=%d", want))
			if got := PT(&a).IsEqual(&b); got != want {
				c.Fail("wrong-predicate", fmt.Sprintf("IsEqual=%d", got))
				return
			}
		case "SetUint64":
			n := vlib.Limbs(t, 1, 1, "n").Uint64()
			c.Vals, c.Classes = []*big.Int{new(big.Int).SetUint64(n)}, []string{"word"}
			z := junk
			PT(&z).SetUint64(n)
			if !c.Expect("value", to(&z), new(big.Int).SetUint64(n)) {
				return
			}
		case "SetOne":
			c.Vals, c.Classes = []*big.Int{jv}, []string{"junk"}
			z := junk
			PT(&z).SetOne()
			if !c.Expect("value", to(&z), big.NewInt(1)) {
				return
			}
		case "SetBytes":
			// any length, reduced modulo the order
			n := rapid.SampledFrom([]int{0, 1, size - 1, size, size + 1, 2 * size, 2*size + 16}).Draw(t, "len")
			wide := vlib.Limbs(t, (n+7)/8+1, 1, "wide")
			wide.Mod(wide, kit.Pow2(8*n))
			if rapid.Bool().Draw(t, "near") {
				// k·p + small
				k := vlib.Limbs(t, 1, 1, "k")
				cand := new(big.Int).Mul(k, p)
				cand.Add(cand, big.NewInt(int64(rapid.IntRange(0, 2).Draw(t, "d"))))
				if cand.BitLen() <= 8*n {
					wide = cand
				}
			}
			c.Vals, c.Classes = []*big.Int{wide}, []string{fmt.Sprintf("%d-bytes", n)}
			z := junk
			PT(&z).SetBytes(vlib.BE(wide, n))
			if !c.Expect("residue", to(&z), kit.Mod(wide, p)) || !canon(c, &z, kit.Mod(wide, p)) {
				return
			}
		case "SetString":
			// numeric strings 0 … order−1 are accepted, everything else is an error
			v, cls := (&kit.F{Name: f.Name, P: p, Bits: f.Bits, C: 1}).Operand(t, "s")
			if rapid.IntRange(0, 5).Draw(t, "negs") == 0 {
				v = new(big.Int).Neg(v)
				cls = "negative"
			}
			base := rapid.SampledFrom([]string{"%d", "0x%x", "0b%b", "0o%o"}).Draw(t, "base")
			s := fmt.Sprintf(base, v)
			if v.Sign() < 0 {
				s = "-" + fmt.Sprintf(base, new(big.Int).Neg(v))
			}
			c.Vals, c.Classes = []*big.Int{v}, []string{cls}
			z := junk
			err := PT(&z).SetString(s)
			inRange := v.Sign() >= 0 && v.Cmp(p) < 0
			vlib.Class(f.Name, fmt.Sprintf("SetString-in-range=%v", inRange))
			if inRange != (err == nil) {
				c.Fail("wrong-acceptance", fmt.Sprintf("SetString(%q) err=%v", s, err))
				return
			}
			if err == nil && !c.Expect("value", to(&z), v) {
				return
			}
			if err != nil && z != junk {
				c.Fail("modified-on-error", fmt.Sprintf("SetString(%q) failed but changed the receiver", s))
				return
			}
		case "UnmarshalBinary":
			// exactly the numbers 0 … order−1 (big-endian, size bytes) are accepted
			v, cls := (&kit.F{Name: f.Name, P: p, Bits: 8 * size, C: 1}).Operand(t, "u")
			c.Vals, c.Classes = []*big.Int{v}, []string{cls}
			z := junk
			err := PT(&z).UnmarshalBinary(vlib.BE(v, size))
			inRange := v.Cmp(p) < 0
			vlib.Class(f.Name, fmt.Sprintf("Unmarshal-in-range=%v", inRange))
			if inRange != (err == nil) {
				c.Fail("wrong-acceptance", fmt.Sprintf("UnmarshalBinary err=%v", err))
				return
			}
			if err == nil {
				b, _ := PT(&z).MarshalBinary()
				if !bytes.Equal(b, vlib.BE(v, size)) {
					c.Fail("roundtrip", fmt.Sprintf("MarshalBinary gave %x", b))
					return
				}
			}
		case "Order":
			c.Vals, c.Classes = nil, nil
			if new(big.Int).SetBytes(order).Cmp(p) != 0 {
				c.Fail("wrong-constant", fmt.Sprintf("order %x", order))
				return
			}
		}
		c.Done()
	}
}

var scF = &kit.F{Name: "bls.Scalar", P: fptower.R, Bits: 256, C: 1, Reduced: true, R: kit.Pow2(256)}

func TestC12PrimeFields(t *testing.T) {
	defer vlib.Done()
	t.Run("Fp", func(t *testing.T) {
		vlib.Check(t, vlib.N(12000, 50000), func(t *rapid.T) { checkPrime[ff.Fp](t, fpF, ff.FpSize, ff.FpOrder()) })
	})
	t.Run("Scalar", func(t *testing.T) {
		vlib.Check(t, vlib.N(12000, 50000), func(t *rapid.T) { checkPrime[ff.Scalar](t, scF, ff.ScalarSize, ff.ScalarOrder()) })
	})
}

func e2From(e fptower.E2) ff.Fp2 { return ff.Fp2{fpFrom(e[0]), fpFrom(e[1])} }
func e2To(z *ff.Fp2) fptower.E2  { return fptower.E2{fpTo(&z[0]), fpTo(&z[1])} }

func drawE2(t *rapid.T, label string) (fptower.E2, string) {
	e, c := ringFp2.draw(t, label)
	return e[0], c
}

// Fp and Fp2: square roots, sign functions, exponentiation, encodings.
func TestC12FpFp2Extras(t *testing.T) {
	defer vlib.Done()
	p := fptower.P
	half := new(big.Int).Rsh(p, 1) // (p−1)/2
	vlib.Check(t, vlib.N(5000, 25000), func(t *rapid.T) {
		op := rapid.SampledFrom([]string{"Fp.Sqrt", "Fp.IsNegative", "Fp.Sgn0", "Fp.ExpVarTime", "Fp.CMov",
			"Fp2.Sqrt", "Fp2.Sqrt", "Fp2.IsNegative", "Fp2.Sgn0", "Fp2.ExpVarTime", "Fp2.Marshal", "Fp2.SetString"}).Draw(t, "op")
		typ := op[:len(op)-len(op[3:])]
		_ = typ
		xv, xc := fpF.ValueOrMont(t, "x")
		jv, _ := fpF.ValueOrMont(t, "junk")
		xe, xec := drawE2(t, "x2")
		je, _ := drawE2(t, "junk2")
		tname := "bls.Fp"
		if op[:3] == "Fp2" {
			tname = "bls.Fp2"
		}
		c := &kit.Case{T: t, Type: tname, Op: op[len(tname)-3:], Backend: "go", Vals: []*big.Int{xv}, Classes: []string{xc}}
		if tname == "bls.Fp2" {
			c.Vals, c.Classes = []*big.Int{xe[0], xe[1]}, []string{xec}
		}
		switch op {
		case "Fp.Sqrt":
			if rapid.Bool().Draw(t, "forceQR") {
				xv = kit.Mod(new(big.Int).Mul(xv, xv), p)
				c.Vals, c.Classes = []*big.Int{xv}, []string{"square"}
			}
			x, z := fpFrom(xv), fpFrom(jv)
			got := z.Sqrt(&x)
			jac := big.Jacobi(xv, p)
			vlib.Class(tname, fmt.Sprintf("Sqrt-legendre=%d", jac))
			zv := fpTo(&z)
			switch {
			case jac == 1 || (jac == 0 && got == 1):
				if got != 1 || kit.Mod(new(big.Int).Mul(zv, zv), p).Cmp(xv) != 0 {
					c.Fail("wrong-sqrt", fmt.Sprintf("Sqrt returned %d, z=%x", got, zv))
					return
				}
			default:
				if got != 0 || zv.Cmp(jv) != 0 {
					c.Fail("wrong-nonresidue", fmt.Sprintf("Sqrt returned %d, z=%x (receiver was %x)", got, zv, jv))
					return
				}
			}
		case "Fp.IsNegative", "Fp.Sgn0":
			x := fpFrom(xv)
			want := 0
			if op == "Fp.IsNegative" {
				if xv.Cmp(half) > 0 {
					want = 1
				}
				if got := x.IsNegative(); got != want {
					c.Fail("wrong-predicate", fmt.Sprintf("IsNegative=%d", got))
					return
				}
			} else {
				want = int(xv.Bit(0))
				if got := x.Sgn0(); got != want {
					c.Fail("wrong-predicate", fmt.Sprintf("Sgn0=%d", got))
					return
				}
			}
		case "Fp.ExpVarTime":
			n := vlib.Bytes(t, 0, 50, "n")
			x := fpFrom(xv)
			z := fpFrom(jv)
			if rapid.Bool().Draw(t, "alias") {
				z = x
				z.ExpVarTime(&z, n)
			} else {
				z.ExpVarTime(&x, n)
			}
			c.Vals, c.Classes = append(c.Vals, new(big.Int).SetBytes(n)), append(c.Classes, "exponent")
			if !c.Expect("power", fpTo(&z), new(big.Int).Exp(xv, new(big.Int).SetBytes(n), p)) {
				return
			}
		case "Fp.CMov":
			sel := rapid.IntRange(0, 1).Draw(t, "sel")
			x, y, z := fpFrom(xv), fpFrom(jv), ff.Fp{}
			z.CMov(&x, &y, sel)
			want := x
			if sel == 1 {
				want = y
			}
			if z != want {
				c.Fail("wrong-selection", fmt.Sprintf("CMov(x,y,%d)", sel))
				return
			}
		case "Fp2.Sqrt":
			if rapid.Bool().Draw(t, "forceQR") {
				xe = fptower.Mul2(xe, xe)
				c.Vals, c.Classes = []*big.Int{xe[0], xe[1]}, []string{"square"}
			}
			x, z := e2From(xe), e2From(je)
			got := z.Sqrt(&x)
			isSq := fptower.IsSquare2(xe)
			vlib.Class(tname, fmt.Sprintf("Sqrt-square=%v", isSq))
			ze := e2To(&z)
			if isSq && !(xe.IsZero() && got == 0) {
				if got != 1 || !fptower.Mul2(ze, ze).Equal(xe) {
					c.Fail("wrong-sqrt", fmt.Sprintf("Sqrt returned %d, z=%v", got, ze))
					return
				}
			} else if got != 0 || !ze.Equal(je) {
				c.Fail("wrong-nonresidue", fmt.Sprintf("Sqrt returned %d, z=%v (receiver was %v)", got, ze, je))
				return
			}
		case "Fp2.IsNegative":
			// 1 iff z is lexicographically larger than −z (compare the u-coefficient first)
			x := e2From(xe)
			neg := func(v *big.Int) bool { return v.Cmp(half) > 0 }
			want := 0
			if neg(xe[1]) || (xe[1].Sign() == 0 && neg(xe[0])) {
				want = 1
			}
			if got := x.IsNegative(); got != want {
				c.Fail("wrong-predicate", fmt.Sprintf("IsNegative=%d", got))
				return
			}
		case "Fp2.Sgn0":
			// RFC 9380 §4.1 for m = 2
			x := e2From(xe)
			want := int(xe[0].Bit(0))
			if xe[0].Sign() == 0 {
				want = int(xe[1].Bit(0))
			}
			if got := x.Sgn0(); got != want {
				c.Fail("wrong-predicate", fmt.Sprintf("Sgn0=%d", got))
				return
			}
		case "Fp2.ExpVarTime":
			n := vlib.Bytes(t, 0, 24, "n")
			x, z := e2From(xe), e2From(je)
			z.ExpVarTime(&x, n)
			c.Vals, c.Classes = append(c.Vals, new(big.Int).SetBytes(n)), append(c.Classes, "exponent")
			if w := fptower.Exp2(xe, new(big.Int).SetBytes(n)); !e2To(&z).Equal(w) {
				c.Fail("wrong-power", fmt.Sprintf("got %v want %v", e2To(&z), w))
				return
			}
		case "Fp2.Marshal":
			// a[1] ‖ a[0], big-endian
			x := e2From(xe)
			b, err := x.MarshalBinary()
			want := append(vlib.BE(xe[1], ff.FpSize), vlib.BE(xe[0], ff.FpSize)...)
			if err != nil || !bytes.Equal(b, want) {
				c.Fail("wrong-encoding", fmt.Sprintf("MarshalBinary = %x err=%v", b, err))
				return
			}
			var y ff.Fp2
			if err := y.UnmarshalBinary(b); err != nil || y != x {
				c.Fail("roundtrip", fmt.Sprintf("UnmarshalBinary err=%v", err))
				return
			}
		case "Fp2.SetString":
			var y ff.Fp2
			if err := y.SetString(xe[0].String(), "0x"+xe[1].Text(16)); err != nil || !e2To(&y).Equal(xe) {
				c.Fail("wrong-value", fmt.Sprintf("SetString err=%v value=%v", err, e2To(&y)))
				return
			}
		}
		c.Done()
	})
}

// Encodings of Fp6 / Fp12 (high coefficient first), Fp12.Exp, the cubic
// representation, and the groups Cyclo6 / URoot.
func TestC12Fp12Extras(t *testing.T) {
	defer vlib.Done()
	absX := new(big.Int).Neg(fptower.X)
	vlib.Check(t, vlib.N(700, 3000), func(t *rapid.T) {
		op := rapid.SampledFrom([]string{"Fp6.Marshal", "Fp12.Marshal", "Fp12.Exp", "Fp12Cubic.Convert", "Fp12Cubic.MulLine",
			"Cyclo6.Easy", "Cyclo6.Sqr", "Cyclo6.Sqr", "Cyclo6.MulInvFrob", "Cyclo6.PowToX", "URoot.Hard", "URoot.Exp"}).Draw(t, "op")
		xe, xc := ringFp12.draw(t, "x")
		ye, yc := ringFp12.draw(t, "y")
		tname := "bls." + op[:len(op)-len(op[indexDot(op):])]
		c := &kit.Case{T: t, Type: tname, Op: op[indexDot(op)+1:], Backend: "go", Vals: flatVals(xe), Classes: []string{xc}}
		x12 := ringFp12.from(xe)
		cyclo := func(e fptower.E12) (ff.Cyclo6, fptower.E12, bool) {
			// f ↦ f^((p⁶−1)(p²+1)) with the reference; ok=false for f = 0
			if e.IsZero() {
				return ff.Cyclo6{}, e, false
			}
			g := fptower.Mul(fptower.Conj6(e), fptower.Inv(e))
			g = fptower.Mul(fptower.FrobN(g, 2), g)
			f := ringFp12.from(e)
			var out ff.Cyclo6
			ff.EasyExponentiation(&out, &f)
			return out, g, true
		}
		c6to := func(z *ff.Cyclo6) fptower.E12 { return ringFp12.to((*ff.Fp12)(z)) }
		switch op {
		case "Fp6.Marshal":
			e6, c6 := ringFp6.draw(t, "x6")
			c.Vals, c.Classes = flatVals(e6), []string{c6}
			x := ringFp6.from(e6)
			b, err := x.MarshalBinary()
			var want []byte
			for _, i := range []int{4, 2, 0} { // a[2] ‖ a[1] ‖ a[0], each as a1 ‖ a0
				want = append(want, vlib.BE(e6[i][1], ff.FpSize)...)
				want = append(want, vlib.BE(e6[i][0], ff.FpSize)...)
			}
			var y ff.Fp6
			if err != nil || !bytes.Equal(b, want) || y.UnmarshalBinary(b) != nil || y != x {
				c.Fail("wrong-encoding", fmt.Sprintf("MarshalBinary = %x err=%v", b, err))
				return
			}
		case "Fp12.Marshal":
			b, err := x12.MarshalBinary()
			var want []byte
			for _, i := range []int{5, 3, 1, 4, 2, 0} { // a[1] ‖ a[0] with a[h] = Fp6 over w^(2i+h)
				want = append(want, vlib.BE(xe[i][1], ff.FpSize)...)
				want = append(want, vlib.BE(xe[i][0], ff.FpSize)...)
			}
			var y ff.Fp12
			if err != nil || !bytes.Equal(b, want) || y.UnmarshalBinary(b) != nil || y != x12 {
				c.Fail("wrong-encoding", fmt.Sprintf("MarshalBinary = %x err=%v", b, err))
				return
			}
		case "Fp12.Exp":
			n := vlib.Bytes(t, 0, 9, "n")
			c.Vals, c.Classes = append(c.Vals, new(big.Int).SetBytes(n)), append(c.Classes, "exponent")
			var z ff.Fp12
			z.Exp(&x12, n)
			if w := fptower.Exp(xe, new(big.Int).SetBytes(n)); !ringFp12.to(&z).Equal(w) {
				c.Fail("wrong-power", fmt.Sprintf("got %v want %v", ringFp12.to(&z), w))
				return
			}
		case "Fp12Cubic.Convert":
			var cu ff.Fp12Cubic
			cu.FromFp12(&x12)
			if !ringFp12Cubic.to(&cu).Equal(xe) {
				c.Fail("wrong-conversion", fmt.Sprintf("FromFp12 gave %v", ringFp12Cubic.to(&cu)))
				return
			}
			var back ff.Fp12
			back.FromFp12Cubic(&cu)
			if back != x12 {
				c.Fail("roundtrip", "FromFp12Cubic(FromFp12(x)) ≠ x")
				return
			}
		case "Fp12Cubic.MulLine":
			// LineValue a represents a[0] + a[1]·w² + a[2]·w³
			l0, _ := drawE2(t, "l0")
			l1, _ := drawE2(t, "l1")
			l2, _ := drawE2(t, "l2")
			le := fptower.Zero()
			le[0], le[2], le[3] = l0, l1, l2
			c.Vals, c.Classes = flatVals(xe, le), []string{xc, "line"}
			lv := ff.LineValue{e2From(l0), e2From(l1), e2From(l2)}
			cu := ringFp12Cubic.from(xe)
			var z ff.Fp12Cubic
			z.MulLine(&cu, &lv)
			if w := fptower.Mul(xe, le); !ringFp12Cubic.to(&z).Equal(w) {
				c.Fail("wrong-result", fmt.Sprintf("got %v want %v", ringFp12Cubic.to(&z), w))
				return
			}
			z = cu
			z.MulLine(&z, &lv)
			if w := fptower.Mul(xe, le); !ringFp12Cubic.to(&z).Equal(w) {
				c.Type, c.Alias = tname, kit.AliasZX
				c.Fail("wrong-result", "z.MulLine(z, l)")
				return
			}
		case "Cyclo6.Easy":
			g, ge, ok := cyclo(xe)
			if !ok {
				vlib.Class(tname, "easy-exp-of-zero(not asserted)")
				break
			}
			if !c6to(&g).Equal(ge) {
				c.Fail("wrong-result", fmt.Sprintf("EasyExponentiation gave %v want %v", c6to(&g), ge))
				return
			}
		case "Cyclo6.Sqr":
			g, ge, ok := cyclo(xe)
			if !ok {
				break
			}
			var z ff.Cyclo6
			alias := rapid.Bool().Draw(t, "alias")
			if alias {
				z = g
				z.Sqr(&z)
				c.Alias = kit.AliasZX
			} else {
				z.Sqr(&g)
			}
			if w := fptower.Mul(ge, ge); !c6to(&z).Equal(w) {
				c.Fail("wrong-result", fmt.Sprintf("Granger-Scott square gave %v want %v", c6to(&z), w))
				return
			}
		case "Cyclo6.MulInvFrob":
			g, ge, ok := cyclo(xe)
			h, he, ok2 := cyclo(ye)
			if !ok || !ok2 {
				break
			}
			c.Vals, c.Classes = flatVals(xe, ye), []string{xc, yc}
			var m, inv, fr ff.Cyclo6
			m.Mul(&g, &h)
			inv.Inv(&g)
			fr.Frob(&g)
			if !c6to(&m).Equal(fptower.Mul(ge, he)) {
				c.Fail("wrong-product", "Cyclo6.Mul")
				return
			}
			if !fptower.Mul(c6to(&inv), ge).Equal(fptower.One()) {
				c.Fail("wrong-inverse", "Cyclo6.Inv (conjugation) is not the inverse")
				return
			}
			if !c6to(&fr).Equal(fptower.Frob(ge)) {
				c.Fail("wrong-frobenius", "Cyclo6.Frob")
				return
			}
			id := ff.Cyclo6{}
			(*ff.Fp12)(&id).SetOne()
			if id.IsIdentity() != 1 || g.IsEqual(&g) != 1 || (g.IsIdentity() == 1) != ge.Equal(fptower.One()) {
				c.Fail("wrong-predicate", "IsIdentity / IsEqual")
				return
			}
		case "Cyclo6.PowToX":
			g, ge, ok := cyclo(xe)
			if !ok {
				break
			}
			var z ff.Cyclo6
			z.PowToX(&g)
			// x is negative: z·g^|x| = 1
			if !fptower.Mul(c6to(&z), fptower.Exp(ge, absX)).Equal(fptower.One()) {
				c.Fail("wrong-power", "PowToX(g)·g^|x| ≠ 1")
				return
			}
		case "URoot.Hard", "URoot.Exp":
			g, _, ok := cyclo(xe)
			if !ok {
				break
			}
			var u ff.URoot
			ff.HardExponentiation(&u, &g)
			ue := ringFp12.to((*ff.Fp12)(&u))
			if op == "URoot.Hard" {
				// documented: u is an r-th root of unity
				if !fptower.Exp(ue, fptower.R).Equal(fptower.One()) {
					c.Fail("not-a-root-of-unity", "HardExponentiation(g)^r ≠ 1")
					return
				}
				if (u.IsIdentity() == 1) != ue.Equal(fptower.One()) {
					c.Fail("wrong-predicate", "URoot.IsIdentity")
					return
				}
				vlib.Class(tname, fmt.Sprintf("hard-exp-identity=%v", ue.Equal(fptower.One())))
			} else {
				n := vlib.Bytes(t, 0, 6, "n")
				c.Vals, c.Classes = append(c.Vals, new(big.Int).SetBytes(n)), append(c.Classes, "exponent")
				var z, s, m, iv ff.URoot
				z.Exp(&u, n)
				if !ringFp12.to((*ff.Fp12)(&z)).Equal(fptower.Exp(ue, new(big.Int).SetBytes(n))) {
					c.Fail("wrong-power", "URoot.Exp")
					return
				}
				s.Sqr(&u)
				m.Mul(&u, &u)
				iv.Inv(&u)
				if s.IsEqual(&m) != 1 || !ringFp12.to((*ff.Fp12)(&s)).Equal(fptower.Mul(ue, ue)) ||
					!fptower.Mul(ringFp12.to((*ff.Fp12)(&iv)), ue).Equal(fptower.One()) {
					c.Fail("wrong-result", "URoot.Sqr/Mul/Inv")
					return
				}
				b, err := u.MarshalBinary()
				var back ff.URoot
				if err != nil || back.UnmarshalBinary(b) != nil || back.IsEqual(&u) != 1 {
					c.Fail("roundtrip", "URoot marshal")
					return
				}
			}
		}
		c.Done()
	})
}

func indexDot(s string) int {
	for i := range s {
		if s[i] == '.' {
			return i
		}
	}
	return len(s)
}

// sweepRing runs the predicate sweep on one coordinate at a time of a tower type.
func sweepRing[T comparable](t *testing.T, r *ring[T]) {
	for k, idx := range r.coords {
		idx := idx
		ps := &kit.Preds[T]{F: fpF, Type: r.name, Backend: fmt.Sprintf("go/coord%d", k),
			From: func(v *big.Int) T {
				e := fptower.Zero()
				e[idx/2][idx%2] = v
				return r.from(e)
			}}
		if r.isZero != nil {
			ps.IsZero = func(x *T) bool { return r.isZero(x) == 1 }
		}
		if r.isEqual != nil {
			ps.IsEqual = func(x, y *T) bool { return r.isEqual(x, y) == 1 }
		}
		kit.SweepPredicates(t, ps)
	}
}

// TestC12PredicateSweep: deterministic enumeration of every single-bit /
// one-limb difference of the internal (Montgomery) representation for the
// zero, one and equality tests of ff.
func TestC12PredicateSweep(t *testing.T) {
	defer vlib.Done()
	kit.SweepPredicates(t, &kit.Preds[ff.Fp]{F: fpF, Type: "bls.Fp", Backend: "go", From: fpFrom,
		IsZero:  func(x *ff.Fp) bool { return x.IsZero() == 1 },
		IsEqual: func(x, y *ff.Fp) bool { return x.IsEqual(y) == 1 }})
	kit.SweepPredicates(t, &kit.Preds[ff.Scalar]{F: scF, Type: "bls.Scalar", Backend: "go",
		From: func(v *big.Int) (z ff.Scalar) {
			if err := z.UnmarshalBinary(vlib.BE(v, ff.ScalarSize)); err != nil {
				panic(err)
			}
			return
		},
		IsZero:  func(x *ff.Scalar) bool { return x.IsZero() == 1 },
		IsEqual: func(x, y *ff.Scalar) bool { return x.IsEqual(y) == 1 }})
	sweepRing(t, ringFp2)
	sweepRing(t, ringFp4)
	sweepRing(t, ringFp6)
	sweepRing(t, ringFp12)
	sweepRing(t, ringFp12Cubic)
	// identity tests of the groups inside Fp12: 1 with one coordinate changed by one internal pattern
	var n int64
	for _, idx := range ringFp12.coords {
		for _, d := range fpF.InternalPatterns() {
			e := fptower.One()
			a := fpF.ToInternal(e[idx/2][idx%2])
			b := new(big.Int).Xor(a, d)
			if b.Cmp(fptower.P) >= 0 {
				continue
			}
			e[idx/2][idx%2] = fpF.FromInternal(b)
			x := ringFp12.from(e)
			c6, ur := ff.Cyclo6(x), ff.URoot(x)
			n += 2
			if c6.IsIdentity() != 0 || ur.IsIdentity() != 0 {
				if !vlib.ReportDirect(t, "C12/bls.Cyclo6/IsIdentity/go/wrong-predicate-sweep", fmt.Sprintf("1 with coordinate %d changed by internal pattern 0x%x is reported as the identity", idx, d), map[string]interface{}{"coord": idx, "pattern": d.String()}) {
					return
				}
			}
		}
	}
	vlib.EvalN("bls.Cyclo6", n)
	vlib.ClassN("bls.Cyclo6", "op=predicate-sweep", n)
}
