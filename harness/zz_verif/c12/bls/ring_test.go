//go:build verif

// C12 black-box: the BLS12-381 field tower of ecc/bls12381/ff against the
// polynomial reference ref/fptower (conventions: DESIGN Appendix B and the
// package documentation of ff).
package bls

import (
	"fmt"
	"math/big"
	"testing"

	"github.com/cloudflare/circl/ecc/bls12381/ff"
	"github.com/cloudflare/circl/zz_verif/c12/kit"
	"github.com/cloudflare/circl/zz_verif/ref/fptower"
	"github.com/cloudflare/circl/zz_verif/vlib"
	"pgregory.net/rapid"
)

var fpF = &kit.F{Name: "bls.Fp", P: fptower.P, Bits: 384, C: 1, Reduced: true, R: kit.Pow2(384)}

func fpFrom(v *big.Int) (z ff.Fp) {
	if err := z.UnmarshalBinary(vlib.BE(v, ff.FpSize)); err != nil {
		panic(fmt.Sprintf("harness: canonical value refused: %x: %v", v, err))
	}
	return
}

func fpTo(z *ff.Fp) *big.Int {
	b, err := z.MarshalBinary()
	if err != nil || len(b) != ff.FpSize {
		panic("harness: Fp.MarshalBinary")
	}
	return new(big.Int).SetBytes(b)
}

// ring describes one tower type: which of the 12 Fp coordinates (index
// 2·i+j for the coefficient of wⁱ·uʲ) its own coordinates occupy.
type ring[T comparable] struct {
	name   string
	coords []int
	get    func(z *T, k int) *ff.Fp

	add, sub, mul     func(z, x, y *T)
	sqr, inv, frob    func(z, x *T)
	neg, cjg, mulbeta func(z *T)
	cmov              func(z, x, y *T, b int)
	isZero            func(z *T) int
	isEqual           func(z, x *T) int
	setOne            func(z *T)
	cjgRef, betaRef   func(fptower.E12) fptower.E12
}

func (r *ring[T]) to(z *T) fptower.E12 {
	e := fptower.Zero()
	for k, idx := range r.coords {
		e[idx/2][idx%2] = fpTo(r.get(z, k))
	}
	return e
}

func (r *ring[T]) from(e fptower.E12) (z T) {
	for k, idx := range r.coords {
		*r.get(&z, k) = fpFrom(e[idx/2][idx%2])
	}
	return
}

// inSub tells whether e lies in the subfield/subspace of the type.
func (r *ring[T]) inSub(e fptower.E12) bool {
	used := map[int]bool{}
	for _, idx := range r.coords {
		used[idx] = true
	}
	for i := 0; i < 12; i++ {
		if !used[i] && e[i/2][i%2].Sign() != 0 {
			return false
		}
	}
	return true
}

func (r *ring[T]) draw(t *rapid.T, label string) (fptower.E12, string) {
	e := fptower.Zero()
	shape := rapid.SampledFrom([]string{"full", "full", "full", "sparse", "single", "zero", "one", "minus-one"}).Draw(t, label+".shape")
	cls := shape
	switch shape {
	case "zero":
	case "one":
		e[0][0] = big.NewInt(1)
	case "minus-one":
		e[0][0] = new(big.Int).Sub(fptower.P, big.NewInt(1))
	case "single":
		k := rapid.IntRange(0, len(r.coords)-1).Draw(t, label+".coord")
		v, c := fpF.ValueOrMont(t, label)
		e[r.coords[k]/2][r.coords[k]%2] = v
		cls += "/" + c
	default:
		edge := false
		for k, idx := range r.coords {
			if shape == "sparse" && rapid.Bool().Draw(t, fmt.Sprintf("%s.z%d", label, k)) {
				continue
			}
			v, c := fpF.ValueOrMont(t, fmt.Sprintf("%s.c%d", label, k))
			e[idx/2][idx%2] = v
			if c != "uniform" {
				edge = true
			}
		}
		if edge {
			cls += "/edge"
		} else {
			cls += "/uniform"
		}
	}
	return e, cls
}

func flatVals(es ...fptower.E12) []*big.Int {
	var o []*big.Int
	for _, e := range es {
		for i := 0; i < 6; i++ {
			o = append(o, e[i][0], e[i][1])
		}
	}
	return o
}

func ringOps[T comparable](r *ring[T]) []string {
	var ops []string
	add := func(ok bool, names ...string) {
		if ok {
			ops = append(ops, names...)
		}
	}
	add(r.add != nil, "Add")
	add(r.sub != nil, "Sub")
	add(r.mul != nil, "Mul", "Mul", "Mul")
	add(r.sqr != nil, "Sqr", "Sqr")
	add(r.inv != nil, "Inv", "Inv")
	add(r.frob != nil, "Frob")
	add(r.neg != nil, "Neg")
	add(r.cjg != nil, "Cjg")
	add(r.mulbeta != nil, "MulBeta")
	add(r.cmov != nil, "CMov")
	add(r.isZero != nil, "IsZero")
	add(r.isEqual != nil, "IsEqual")
	add(r.setOne != nil, "SetOne")
	add(true, "laws")
	return ops
}

func checkRing[T comparable](t *rapid.T, r *ring[T]) {
	op := rapid.SampledFrom(ringOps(r)).Draw(t, "op")
	xe, xc := r.draw(t, "x")
	ye, yc := r.draw(t, "y")
	je, _ := r.draw(t, "junk")
	alias := kit.AliasNone
	switch op {
	case "Add", "Sub", "Mul":
		alias = kit.DrawAlias3(t)
	case "Sqr", "Inv", "Frob":
		alias = kit.DrawAlias2(t)
	case "IsEqual":
		// equal, or different in one Fp coordinate only (possibly by a single internal bit), or independent
		if rapid.IntRange(0, 3).Draw(t, "rel") != 3 {
			ye, yc = xe, xc
			k := r.coords[rapid.IntRange(0, len(r.coords)-1).Draw(t, "relcoord")]
			nv, nc := fpF.DrawSecond(t, xe[k/2][k%2], xc, "y2")
			ye[k/2] = fptower.E2{ye[k/2][0], ye[k/2][1]}
			ye[k/2][k%2] = nv
			if nc == "internal-neighbour" {
				yc = nc
			}
		}
	}
	if alias == kit.AliasXY || alias == kit.AliasAll {
		ye, yc = xe, xc
	}
	sel := rapid.IntRange(0, 1).Draw(t, "sel")
	x0, y0, junk := r.from(xe), r.from(ye), r.from(je)
	for _, alias := range kit.Patterns(alias) {
		c := &kit.Case{T: t, Type: r.name, Op: op, Backend: "go", Alias: alias, Vals: flatVals(xe, ye), Classes: []string{xc, yc}}
		expect := func(what string, got *T, want fptower.E12) bool {
			g := r.to(got)
			if !g.Equal(want) {
				c.Fail("wrong-"+what, fmt.Sprintf("got %v want %v", g, want))
				return false
			}
			// … and it must be the canonical object: same limbs as the element built from the reference value
			if w := r.from(want); *got != w || (r.isEqual != nil && r.isEqual(got, &w) != 1) {
				c.Fail("non-canonical-"+what, fmt.Sprintf("value %v is right but the element differs from the canonical one", want))
				return false
			}
			return true
		}
		switch op {
		case "Add", "Sub", "Mul":
			fn := map[string]func(z, x, y *T){"Add": r.add, "Sub": r.sub, "Mul": r.mul}[op]
			z, xo, yo := kit.Bin(alias, fn, x0, y0, junk)
			var w fptower.E12
			switch op {
			case "Add":
				w = fptower.Add(xe, ye)
			case "Sub":
				w = fptower.Sub(xe, ye)
			case "Mul":
				w = fptower.Mul(xe, ye)
			}
			if !expect("result", &z, w) {
				return
			}
			if (alias == kit.AliasNone || alias == kit.AliasZY || alias == kit.AliasXY) && xo != x0 ||
				(alias == kit.AliasNone || alias == kit.AliasZX) && yo != y0 {
				c.Fail("operand-clobbered", "an operand that is not the receiver changed")
				return
			}
		case "Sqr", "Inv", "Frob":
			c.Vals, c.Classes = flatVals(xe), []string{xc}
			fn := map[string]func(z, x *T){"Sqr": r.sqr, "Inv": r.inv, "Frob": r.frob}[op]
			z, xo := kit.Un(alias, fn, x0, junk)
			switch op {
			case "Sqr":
				if !expect("result", &z, fptower.Mul(xe, xe)) {
					return
				}
			case "Frob":
				if !expect("result", &z, fptower.Frob(xe)) {
					return
				}
			case "Inv":
				if xe.IsZero() {
					vlib.Class(r.name, "inv-of-zero(not asserted)")
				} else {
					ze := r.to(&z)
					if !fptower.Mul(ze, xe).Equal(fptower.One()) {
						c.Fail("wrong-inverse", fmt.Sprintf("z·x ≠ 1, z = %v", ze))
						return
					}
				}
			}
			if alias == kit.AliasNone && xo != x0 {
				c.Fail("operand-clobbered", "the operand changed")
				return
			}
		case "Neg", "Cjg", "MulBeta":
			c.Vals, c.Classes = flatVals(xe), []string{xc}
			z := x0
			var w fptower.E12
			switch op {
			case "Neg":
				r.neg(&z)
				w = fptower.Neg(xe)
			case "Cjg":
				r.cjg(&z)
				w = r.cjgRef(xe)
			case "MulBeta":
				r.mulbeta(&z)
				w = r.betaRef(xe)
			}
			if !expect("result", &z, w) {
				return
			}
		case "CMov":
			c.Vals, c.Classes = append(c.Vals, big.NewInt(int64(sel))), append(c.Classes, "sel")
			z := junk
			a, b := x0, y0
			r.cmov(&z, &a, &b, sel)
			want := x0
			if sel == 1 {
				want = y0
			}
			if z != want || a != x0 || b != y0 {
				c.Fail("wrong-selection", fmt.Sprintf("CMov(x,y,%d) gave %v", sel, r.to(&z)))
				return
			}
			// receiver may be one of the operands (this is how Sqrt uses it)
			z = x0
			r.cmov(&z, &z, &b, sel)
			if z != want {
				c.Fail("wrong-selection", fmt.Sprintf("z.CMov(z,y,%d) gave %v", sel, r.to(&z)))
				return
			}
		case "IsZero":
			c.Vals, c.Classes = flatVals(xe), []string{xc}
			z := x0
			want := 0
			if xe.IsZero() {
				want = 1
			}
			vlib.Class(r.name, fmt.Sprintf("IsZero=%d", want))
			if got := r.isZero(&z); got != want {
				c.Fail("wrong-predicate", fmt.Sprintf("IsZero=%d", got))
				return
			}
		case "IsEqual":
			a, b := x0, y0
			want := 0
			if xe.Equal(ye) {
				want = 1
			}
			vlib.Class(r.name, fmt.Sprintf("IsEqual=%d", want))
			if got := r.isEqual(&a, &b); got != want {
				c.Fail("wrong-predicate", fmt.Sprintf("IsEqual=%d", got))
				return
			}
		case "SetOne":
			c.Vals, c.Classes = flatVals(je), []string{"junk"}
			z := junk
			r.setOne(&z)
			if !expect("one", &z, fptower.One()) {
				return
			}
		case "laws":
			// metamorphic ring laws on circl's own operations (no reference involved)
			if r.mul == nil || r.add == nil {
				break
			}
			var ab, ba, s, l, rr, t1, t2 T
			a, b, cc := x0, y0, junk
			r.mul(&ab, &a, &b)
			r.mul(&ba, &b, &a)
			if ab != ba {
				c.Fail("law-commutative", "x·y ≠ y·x")
				return
			}
			r.add(&s, &b, &cc)
			r.mul(&l, &a, &s)
			r.mul(&t1, &a, &b)
			r.mul(&t2, &a, &cc)
			r.add(&rr, &t1, &t2)
			if l != rr {
				c.Fail("law-distributive", "x·(y+j) ≠ x·y + x·j")
				return
			}
			if r.sqr != nil {
				r.sqr(&t1, &a)
				r.mul(&t2, &a, &a)
				if t1 != t2 {
					c.Fail("law-square", "Sqr(x) ≠ x·x")
					return
				}
			}
		}
		c.Done()
	}
}

func runRing[T comparable](t *testing.T, r *ring[T], quick, thorough int) {
	t.Run(r.name, func(t *testing.T) {
		vlib.Check(t, vlib.N(quick, thorough), func(t *rapid.T) { checkRing(t, r) })
	})
}

func conj2Ref(e fptower.E12) fptower.E12 { z := e; z[0] = fptower.Conj2(e[0]); return z }
func mulXiRef(e fptower.E12) fptower.E12 {
	xi := fptower.Zero()
	xi[0] = fptower.Xi()
	return fptower.Mul(e, xi)
}
func mulVRef(e fptower.E12) fptower.E12 {
	v := fptower.Zero()
	v[2] = fptower.One2()
	return fptower.Mul(e, v)
}
func negW3Ref(e fptower.E12) fptower.E12 { z := e; z[3] = fptower.Neg2(e[3]); return z }

var (
	ringFp2 = &ring[ff.Fp2]{
		name: "bls.Fp2", coords: []int{0, 1},
		get: func(z *ff.Fp2, k int) *ff.Fp { return &z[k] },
		add: func(z, x, y *ff.Fp2) { z.Add(x, y) }, sub: func(z, x, y *ff.Fp2) { z.Sub(x, y) }, mul: func(z, x, y *ff.Fp2) { z.Mul(x, y) },
		sqr: func(z, x *ff.Fp2) { z.Sqr(x) }, inv: func(z, x *ff.Fp2) { z.Inv(x) }, frob: func(z, x *ff.Fp2) { z.Frob(x) },
		neg: func(z *ff.Fp2) { z.Neg() }, cjg: func(z *ff.Fp2) { z.Cjg() }, mulbeta: func(z *ff.Fp2) { z.MulBeta() },
		cmov:   func(z, x, y *ff.Fp2, b int) { z.CMov(x, y, b) },
		isZero: func(z *ff.Fp2) int { return z.IsZero() }, isEqual: func(z, x *ff.Fp2) int { return z.IsEqual(x) },
		setOne: func(z *ff.Fp2) { z.SetOne() }, cjgRef: conj2Ref, betaRef: mulXiRef,
	}
	ringFp4 = &ring[ff.Fp4]{
		name: "bls.Fp4", coords: []int{0, 1, 6, 7},
		get: func(z *ff.Fp4, k int) *ff.Fp { return &z[k/2][k%2] },
		add: func(z, x, y *ff.Fp4) { z.Add(x, y) }, sub: func(z, x, y *ff.Fp4) { z.Sub(x, y) }, mul: func(z, x, y *ff.Fp4) { z.Mul(x, y) },
		sqr: func(z, x *ff.Fp4) { z.Sqr(x) }, inv: func(z, x *ff.Fp4) { z.Inv(x) },
		neg: func(z *ff.Fp4) { z.Neg() }, cjg: func(z *ff.Fp4) { z.Cjg() },
		isZero: func(z *ff.Fp4) int { return z.IsZero() }, isEqual: func(z, x *ff.Fp4) int { return z.IsEqual(x) },
		setOne: func(z *ff.Fp4) { z.SetOne() }, cjgRef: negW3Ref,
	}
	ringFp6 = &ring[ff.Fp6]{
		name: "bls.Fp6", coords: []int{0, 1, 4, 5, 8, 9},
		get: func(z *ff.Fp6, k int) *ff.Fp { return &z[k/2][k%2] },
		add: func(z, x, y *ff.Fp6) { z.Add(x, y) }, sub: func(z, x, y *ff.Fp6) { z.Sub(x, y) }, mul: func(z, x, y *ff.Fp6) { z.Mul(x, y) },
		sqr: func(z, x *ff.Fp6) { z.Sqr(x) }, inv: func(z, x *ff.Fp6) { z.Inv(x) }, frob: func(z, x *ff.Fp6) { z.Frob(x) },
		neg: func(z *ff.Fp6) { z.Neg() }, mulbeta: func(z *ff.Fp6) { z.MulBeta() },
		cmov:   func(z, x, y *ff.Fp6, b int) { z.CMov(x, y, b) },
		isZero: func(z *ff.Fp6) int { return z.IsZero() }, isEqual: func(z, x *ff.Fp6) int { return z.IsEqual(x) },
		setOne: func(z *ff.Fp6) { z.SetOne() }, betaRef: mulVRef,
	}
	// Fp12 = Fp6[w]/(w²−v): z[h][i][j] is the coefficient of w^(2i+h)·uʲ
	ringFp12 = &ring[ff.Fp12]{
		name: "bls.Fp12", coords: []int{0, 1, 4, 5, 8, 9, 2, 3, 6, 7, 10, 11},
		get: func(z *ff.Fp12, k int) *ff.Fp { return &z[k/6][(k%6)/2][k%2] },
		add: func(z, x, y *ff.Fp12) { z.Add(x, y) }, sub: func(z, x, y *ff.Fp12) { z.Sub(x, y) }, mul: func(z, x, y *ff.Fp12) { z.Mul(x, y) },
		sqr: func(z, x *ff.Fp12) { z.Sqr(x) }, inv: func(z, x *ff.Fp12) { z.Inv(x) }, frob: func(z, x *ff.Fp12) { z.Frob(x) },
		neg: func(z *ff.Fp12) { z.Neg() }, cjg: func(z *ff.Fp12) { z.Cjg() },
		cmov:   func(z, x, y *ff.Fp12, b int) { z.CMov(x, y, b) },
		isZero: func(z *ff.Fp12) int { return z.IsZero() }, isEqual: func(z, x *ff.Fp12) int { return z.IsEqual(x) },
		setOne: func(z *ff.Fp12) { z.SetOne() }, cjgRef: fptower.Conj6,
	}
	// Fp12Cubic = Fp4[w]/(w³−t): z[c][i][j] is the coefficient of w^(c+3i)·uʲ
	ringFp12Cubic = &ring[ff.Fp12Cubic]{
		name: "bls.Fp12Cubic", coords: []int{0, 1, 6, 7, 2, 3, 8, 9, 4, 5, 10, 11},
		get: func(z *ff.Fp12Cubic, k int) *ff.Fp { return &z[k/4][(k%4)/2][k%2] },
		add: func(z, x, y *ff.Fp12Cubic) { z.Add(x, y) }, mul: func(z, x, y *ff.Fp12Cubic) { z.Mul(x, y) },
		sqr:     func(z, x *ff.Fp12Cubic) { z.Sqr(x) },
		isEqual: func(z, x *ff.Fp12Cubic) int { return z.IsEqual(x) },
		setOne:  func(z *ff.Fp12Cubic) { z.SetOne() },
	}
)

func TestC12Tower(t *testing.T) {
	defer vlib.Done()
	if err := fptower.SelfTest(); err != nil {
		t.Fatalf("SELFTEST-FAIL: ref/fptower: %v", err)
	}
	vlib.Selftest("ref/fptower", "ok")
	runRing(t, ringFp2, 6000, 30000)
	runRing(t, ringFp4, 3000, 12000)
	runRing(t, ringFp6, 2500, 10000)
	runRing(t, ringFp12, 1500, 6000)
	runRing(t, ringFp12Cubic, 1200, 5000)
}
