//go:build verif

// C19 — Prio3: aggregates equal the true aggregate, degenerate parameters are
// refused by the constructors, invalid or altered reports are rejected during
// preparation, every message survives marshal/unmarshal.
package c19

import (
	"bytes"
	"errors"
	"fmt"
	"math/big"
	"strings"
	"testing"

	"github.com/cloudflare/circl/vdaf/prio3/arith/fp128"
	"github.com/cloudflare/circl/vdaf/prio3/arith/fp64"
	"github.com/cloudflare/circl/vdaf/prio3/count"
	"github.com/cloudflare/circl/vdaf/prio3/histogram"
	"github.com/cloudflare/circl/vdaf/prio3/mhcv"
	"github.com/cloudflare/circl/vdaf/prio3/sum"
	"github.com/cloudflare/circl/vdaf/prio3/sumvec"
	"github.com/cloudflare/circl/zz_verif/ref/prio3xof"
	"github.com/cloudflare/circl/zz_verif/vlib"
	"pgregory.net/rapid"
)

// ---------------------------------------------------------------------------
// one report through preparation, with optional per-aggregator alterations

type report struct {
	m     any
	nonce Nonce
	rand  []byte
	pub   []byte
	ins   [][]byte
	// honest intermediate values (filled by process when the run is honest)
	prepShares [][]byte
	prepMsg    []byte
	outs       [][]byte
}

// view is what each aggregator receives / what travels between them.
type view struct {
	nonces []Nonce
	pubs   [][]byte
	ins    [][]byte
	// alterPrepShares edits the list of prep shares handed to PrepSharesToPrep
	alterPrepShares func(ps [][]byte) string
	// alterPrepMsg returns the prep message delivered to aggregator id
	alterPrepMsg func(id int, msg []byte) []byte
}

type outcome struct {
	accepted bool
	stage    string // where it was refused: decode:<T>, PrepInit, PrepSharesToPrep, PrepNext
	err      error
	viol     *harnessViol
	outs     [][]byte
	pss      [][]byte
	msg      []byte
}

// soft reports the findings the adapter collected without stopping; a known
// one is counted and the case goes on.
func soft(t vlib.TB, I inst, desc string) {
	for _, hv := range I.Soft() {
		vlib.Report(t, hv.key, desc+": "+hv.detail)
	}
}

func classify(err error) (stage string, hv *harnessViol) {
	var de *decodeErr
	var oe *opErr
	switch {
	case errors.As(err, &hv):
		return "harness", hv
	case errors.As(err, &de):
		return "decode:" + de.typ, nil
	case errors.As(err, &oe):
		return oe.op, nil
	}
	return "unknown", nil
}

func process(I inst, vk *VerifyKey, v *view) (o outcome) {
	n := I.L().shares
	sts := make([][]byte, n)
	pss := make([][]byte, n)
	fail := func(err error) outcome {
		o.err = err
		o.stage, o.viol = classify(err)
		return o
	}
	for i := 0; i < n; i++ {
		st, ps, err := I.PrepInit(vk, &v.nonces[i], uint8(i), v.pubs[i], v.ins[i])
		if err != nil {
			return fail(err)
		}
		sts[i], pss[i] = st, ps
	}
	o.pss = make([][]byte, n)
	for i := range pss {
		o.pss[i] = append([]byte{}, pss[i]...)
	}
	if v.alterPrepShares != nil {
		v.alterPrepShares(pss)
	}
	msg, err := I.PrepSharesToPrep(pss)
	if err != nil {
		return fail(err)
	}
	o.msg = msg
	outs := make([][]byte, n)
	var firstErr error
	for i := 0; i < n; i++ {
		m := msg
		if v.alterPrepMsg != nil {
			m = v.alterPrepMsg(i, msg)
		}
		out, err := I.PrepNext(sts[i], m)
		if err != nil {
			if _, hv := classify(err); hv != nil {
				return fail(err)
			}
			if firstErr == nil {
				firstErr = err
			}
			continue
		}
		outs[i] = out
	}
	if firstErr != nil {
		// at least one aggregator refuses: the report is dropped by all
		return fail(firstErr)
	}
	o.accepted = true
	o.outs = outs
	return o
}

func honestView(I inst, r *report) *view {
	n := I.L().shares
	v := &view{nonces: make([]Nonce, n), pubs: make([][]byte, n), ins: make([][]byte, n)}
	for i := 0; i < n; i++ {
		v.nonces[i] = r.nonce
		v.pubs[i] = r.pub
		v.ins[i] = r.ins[i]
	}
	return v
}

func cp(b []byte) []byte { return append([]byte{}, b...) }

func flipBit(t *rapid.T, b []byte, off, n int, label string) int {
	i := rapid.IntRange(0, 8*n-1).Draw(t, label)
	b[off+i/8] ^= 1 << (i % 8)
	return i
}

// newEltValue draws a different canonical value for a field element.
func newEltValue(t *rapid.T, cur, p *big.Int, label string) *big.Int {
	var v *big.Int
	switch pick(t, 10, label+".k") {
	case 7, 8:
		// the difference from the honest value is structured in the internal
		// (Montgomery) representation: only part of its width is non-zero
		d, _ := structuredDelta(t, p, -1, label)
		v = new(big.Int).Add(cur, d)
	case 9:
		v, _ = structuredDelta(t, p, -1, label)
	case 0:
		v = new(big.Int).Add(cur, big.NewInt(1))
	case 1:
		v = new(big.Int).Sub(cur, big.NewInt(1))
	case 2:
		v = big.NewInt(0)
	case 3:
		v = big.NewInt(1)
	case 4:
		v = new(big.Int).Sub(p, big.NewInt(1))
	case 5:
		v = new(big.Int).Add(cur, new(big.Int).Lsh(big.NewInt(1), uint(rapid.IntRange(1, 127).Draw(t, label+".sh"))))
	default:
		b := make([]byte, 24)
		vlib.FillRandom(t, b, label)
		v = new(big.Int).SetBytes(b)
	}
	v.Mod(v, p)
	if v.Cmp(cur) == 0 {
		v.Add(v, big.NewInt(2))
		v.Mod(v, p)
	}
	return v
}

// windows of the internal representation (bit ranges [lo,hi)) that a
// structured element leaves non-zero; everything outside is zero.
func windows(p *big.Int) [][2]int {
	if p.BitLen() <= 64 {
		return [][2]int{{32, 64}, {0, 32}, {16, 64}, {48, 64}, {0, 16}, {8, 64}, {32, 33}, {63, 64}}
	}
	return [][2]int{{64, 128}, {0, 64}, {32, 128}, {96, 128}, {0, 32}, {32, 64}, {64, 96}, {16, 128}, {64, 65}, {127, 128}}
}

// structuredDelta returns a non-zero field element e whose Montgomery form
// e*R mod p (R = 2^64 resp. 2^128, the representation fiat-crypto style field
// code computes with) is zero outside one window; w < 0 draws the window.
// Such values pass a comparison that looks at part of the representation only.
func structuredDelta(t *rapid.T, p *big.Int, w int, label string) (*big.Int, string) {
	ws := windows(p)
	if w < 0 {
		w = pick(t, len(ws), label+".win")
	}
	lo, hi := ws[w][0], ws[w][1]
	width := 64
	if p.BitLen() > 64 {
		width = 128
	}
	r := new(big.Int).Lsh(big.NewInt(1), uint(width))
	rInv := new(big.Int).ModInverse(r, p)
	for {
		b := make([]byte, 16)
		vlib.FillRandom(t, b, label+".pat")
		pat := new(big.Int).SetBytes(b)
		if pick(t, 3, label+".small") == 0 {
			pat.SetInt64(int64(1 + pick(t, 7, label+".k")))
		}
		pat.Mod(pat, new(big.Int).Lsh(big.NewInt(1), uint(hi-lo)))
		pat.Lsh(pat, uint(lo))
		if pat.Sign() == 0 || pat.Cmp(p) >= 0 {
			continue
		}
		e := pat.Mul(pat, rInv)
		e.Mod(e, p)
		return e, fmt.Sprintf("mont[%d,%d)", lo, hi)
	}
}

var altKindsAll = []string{
	"leader-meas-elt", "leader-proof-elt", "leader-bitflip", "leader-resize",
	"helper-seed", "helper-swap", "helper-resize", "foreign-share",
	"nonce-one", "nonce-all",
	"prepshare-verifier-elt", "prepshare-bitflip", "prepshare-resize", "prepshare-foreign",
	"prepmsg-resize",
	"semantic-invalid", "semantic-invalid", "semantic-invalid",
}

var altKindsJR = []string{
	"leader-blind", "helper-blind",
	"pubshare-part-all", "pubshare-part-other", "pubshare-part-own", "pubshare-resize",
	"prepshare-jrpart",
	"prepmsg-bitflip-all", "prepmsg-bitflip-one",
}

// alteration builds the altered view of report r. asserted=false marks the
// combinations for which the specification does not demand a rejection.
// other is another honest report of the same batch (may be nil).
func alteration(t *rapid.T, c *icase, r, other *report, kind string) (v *view, label string, asserted bool) {
	I := c.I
	l := I.L()
	n := l.shares
	v = honestView(I, r)
	asserted = true
	label = kind
	helper := func(lbl string) int { return rapid.IntRange(1, n-1).Draw(t, lbl) }
	switch kind {
	case "leader-meas-elt", "leader-proof-elt":
		b := cp(r.ins[0])
		var idx int
		if kind == "leader-meas-elt" {
			if l.measLen == 0 {
				return v, "n/a", false
			}
			idx = idxBiased(t, l.measLen, c.chunk, "me")
		} else {
			if l.proofLen == 0 {
				return v, "n/a", false
			}
			idx = l.measLen + idxBiased(t, l.proofLen, 0, "pe")
		}
		putElt(b, idx, l.fs, newEltValue(t, getElt(b, idx, l.fs), l.p, "elt"))
		v.ins[0] = b
	case "leader-blind":
		b := cp(r.ins[0])
		flipBit(t, b, len(b)-seedSize, seedSize, "bit")
		v.ins[0] = b
	case "leader-bitflip":
		b := cp(r.ins[0])
		flipBit(t, b, 0, len(b), "bit")
		v.ins[0] = b
	case "leader-resize", "helper-resize", "pubshare-resize", "prepshare-resize", "prepmsg-resize":
		resize := func(b []byte) []byte {
			switch pick(t, 4, "rs") {
			case 0:
				return append(cp(b), rapid.Byte().Draw(t, "rs.b"))
			case 1:
				if len(b) > 0 {
					return cp(b)[:len(b)-1]
				}
				return append(cp(b), 0)
			case 2:
				return []byte{}
			default:
				return append(cp(b), b...)
			}
		}
		switch kind {
		case "leader-resize":
			v.ins[0] = resize(r.ins[0])
		case "helper-resize":
			i := helper("h")
			v.ins[i] = resize(r.ins[i])
		case "pubshare-resize":
			nb := resize(r.pub)
			for i := range v.pubs {
				v.pubs[i] = nb
			}
		case "prepshare-resize":
			i := rapid.IntRange(0, n-1).Draw(t, "agg")
			b := resize(r.prepShares[i])
			if bytes.Equal(b, r.prepShares[i]) {
				return v, "identity", false
			}
			v.alterPrepShares = func(ps [][]byte) string { ps[i] = b; return "" }
		case "prepmsg-resize":
			all := rapid.Bool().Draw(t, "all")
			i := rapid.IntRange(0, n-1).Draw(t, "agg")
			nm := resize(r.prepMsg)
			if bytes.Equal(nm, r.prepMsg) {
				return v, "identity", false
			}
			v.alterPrepMsg = func(id int, msg []byte) []byte {
				if all || id == i {
					return nm
				}
				return msg
			}
		}
	case "helper-seed":
		i := helper("h")
		b := cp(r.ins[i])
		flipBit(t, b, 0, seedSize, "bit")
		v.ins[i] = b
	case "helper-blind":
		i := helper("h")
		b := cp(r.ins[i])
		flipBit(t, b, seedSize, seedSize, "bit")
		v.ins[i] = b
	case "helper-swap":
		if n < 3 {
			return v, "n/a", false
		}
		i := helper("h1")
		j := helper("h2")
		if i == j {
			j = 1 + (i % (n - 1))
		}
		if rapid.Bool().Draw(t, "copy") {
			// aggregator j receives a copy of aggregator i's share
			v.ins[j] = r.ins[i]
			label = "helper-copy"
		} else {
			v.ins[i], v.ins[j] = r.ins[j], r.ins[i]
		}
	case "foreign-share":
		if other == nil {
			return v, "n/a", false
		}
		i := rapid.IntRange(0, n-1).Draw(t, "agg")
		v.ins[i] = other.ins[i]
		asserted = unrelated(l, r, other)
	case "pubshare-part-all", "pubshare-part-other", "pubshare-part-own":
		j := rapid.IntRange(0, n-1).Draw(t, "part")
		b := cp(r.pub)
		flipBit(t, b, j*seedSize, seedSize, "bit")
		switch kind {
		case "pubshare-part-all":
			for i := range v.pubs {
				v.pubs[i] = b
			}
		case "pubshare-part-other":
			k := (j + 1 + rapid.IntRange(0, n-2).Draw(t, "seenby")) % n
			v.pubs[k] = b
		default:
			// Only aggregator j sees its own part altered. The specification
			// lets it overwrite that part with the recomputed one, so no
			// rejection can be demanded: counted, not asserted.
			v.pubs[j] = b
			asserted = false
		}
	case "nonce-one":
		i := rapid.IntRange(0, n-1).Draw(t, "agg")
		flipBit(t, v.nonces[i][:], 0, len(r.nonce), "bit")
		// With zero bits to check (Sum bound 0, SumVec bits 0) the circuit has no
		// gadget call: proof and verifier are constants, nothing depends on the
		// query randomness, so the nonce cannot matter.
		asserted = l.measLen > 0
	case "nonce-all":
		var nn Nonce = r.nonce
		flipBit(t, nn[:], 0, len(nn), "bit")
		for i := range v.nonces {
			v.nonces[i] = nn
		}
		// Without joint randomness a nonce changed consistently everywhere
		// merely selects other query randomness for a still valid proof.
		asserted = l.jr && l.measLen > 0
	case "prepshare-verifier-elt", "prepshare-bitflip", "prepshare-jrpart", "prepshare-foreign":
		// PrepInit is deterministic, so the honest prep shares of r are known
		i := rapid.IntRange(0, n-1).Draw(t, "agg")
		if kind == "prepshare-foreign" && (other == nil || other.prepShares == nil) {
			return v, "n/a", false
		}
		b := cp(r.prepShares[i])
		switch kind {
		case "prepshare-verifier-elt":
			idx := rapid.IntRange(0, l.verLen-1).Draw(t, "vidx")
			putElt(b, idx, l.fs, newEltValue(t, getElt(b, idx, l.fs), l.p, "velt"))
		case "prepshare-bitflip":
			flipBit(t, b, 0, len(b), "bit")
		case "prepshare-jrpart":
			flipBit(t, b, l.verLen*l.fs, seedSize, "bit")
		default:
			b = cp(other.prepShares[i])
			asserted = unrelated(l, r, other)
		}
		if bytes.Equal(b, r.prepShares[i]) {
			return v, "identity", false
		}
		v.alterPrepShares = func(ps [][]byte) string { ps[i] = b; return "" }
	case "prepmsg-bitflip-all", "prepmsg-bitflip-one":
		i := rapid.IntRange(0, n-1).Draw(t, "agg")
		b := cp(r.prepMsg)
		flipBit(t, b, 0, len(b), "bit")
		v.alterPrepMsg = func(id int, msg []byte) []byte {
			if kind == "prepmsg-bitflip-one" && id != i {
				return msg
			}
			return b
		}
	case "semantic-invalid":
		if c.genEdit == nil {
			return v, "n/a", false
		}
		edits, lbl := c.genEdit(t, r.m)
		if lbl == "n/a" {
			return v, "n/a", false
		}
		honest := c.encode(r.m)
		b := cp(r.ins[0])
		for _, e := range edits {
			d := new(big.Int).Sub(e.val, honest[e.idx])
			s := getElt(b, e.idx, l.fs)
			s.Add(s, d)
			s.Mod(s, l.p)
			putElt(b, e.idx, l.fs, s)
		}
		v.ins[0] = b
		label = "semantic:" + lbl
	default:
		panic("unknown alteration " + kind)
	}
	return v, label, asserted
}

// unrelated tells whether two honest reports share neither the nonce nor any
// helper seed. Splicing a share of one into the other is only then certain to
// be refused: with a reused nonce and reused helper seeds the spliced report
// is simply a replay of the other (valid) report.
func unrelated(l *layout, a, b *report) bool {
	if a.nonce == b.nonce {
		return false
	}
	step := seedSize
	if l.jr {
		step = 2 * seedSize
	}
	for i := 0; i < l.shares-1; i++ {
		if bytes.Equal(a.rand[i*step:i*step+seedSize], b.rand[i*step:i*step+seedSize]) {
			return false
		}
	}
	return true
}

func viewEqual(a, b *view) bool {
	if a.alterPrepShares != nil || a.alterPrepMsg != nil {
		return false
	}
	for i := range a.ins {
		if a.nonces[i] != b.nonces[i] || !bytes.Equal(a.pubs[i], b.pubs[i]) || !bytes.Equal(a.ins[i], b.ins[i]) {
			return false
		}
	}
	return true
}

// ---------------------------------------------------------------------------
// model

func addVec(acc, x []*big.Int) []*big.Int {
	if acc == nil {
		acc = make([]*big.Int, len(x))
		for i := range acc {
			acc[i] = new(big.Int)
		}
	}
	for i := range x {
		acc[i].Add(acc[i], x[i])
	}
	return acc
}

// sumShares adds the marshalled field vectors of all aggregators mod p.
func sumShares(l *layout, shares [][]byte) []*big.Int {
	o := make([]*big.Int, l.outLen)
	for j := range o {
		o[j] = new(big.Int)
		for i := range shares {
			o[j].Add(o[j], getElt(shares[i], j, l.fs))
		}
		o[j].Mod(o[j], l.p)
	}
	return o
}

func vecEq(a, b []*big.Int) bool {
	if len(a) != len(b) {
		return false
	}
	for i := range a {
		if a[i].Cmp(b[i]) != 0 {
			return false
		}
	}
	return true
}

func fmtVec(v []*big.Int) string {
	var s []string
	for i, x := range v {
		if i >= 12 {
			s = append(s, "…")
			break
		}
		s = append(s, x.String())
	}
	return "[" + strings.Join(s, " ") + "]"
}

// aggEqual compares circl's aggregate with the model; representable tells
// whether the model value fits the aggregate type and is below the modulus.
func aggEqual(c *icase, got any, want []*big.Int) (equal, representable bool) {
	if below, fits := aggRange(c, want); !below || !fits {
		return false, false
	}
	if c.scalar {
		g, ok := got.(uint64)
		return ok && len(want) == 1 && want[0].Uint64() == g, true
	}
	g, ok := got.([]uint64)
	if !ok || len(g) != len(want) {
		return false, true
	}
	for i := range g {
		if want[i].Uint64() != g[i] {
			return false, true
		}
	}
	return true, true
}

// aggRange: is every position of the exact aggregate below the field modulus
// (otherwise the property demands nothing), and does it fit the 64-bit
// aggregate type (otherwise the only right answer is the documented error —
// Fp.GetUint64: "if x < 2^64" — never another value).
func aggRange(c *icase, want []*big.Int) (belowModulus, fits bool) {
	belowModulus, fits = true, true
	for _, w := range want {
		if w.Cmp(c.I.L().p) >= 0 {
			belowModulus = false
		}
		if w.Cmp(two64) >= 0 {
			fits = false
		}
	}
	return
}

func measBytes(m any) []byte { return []byte(fmt.Sprintf("%v", m)) }

// ---------------------------------------------------------------------------
// derivations (draft-13 §7.2.1): the input shares are an additive sharing of
// the encoded measurement whose helper parts are expanded from the seeds in
// rand with the aggregator id as binder; the public share holds the joint
// randomness parts (bound to blind, id, nonce and measurement share), the
// prep message their seed. Recomputed with ref/prio3xof.

func checkDerivations(t vlib.TB, c *icase, r *report) bool {
	l := c.I.L()
	n := l.shares
	name := c.name
	step := seedSize
	if l.jr {
		step = 2 * seedSize
	}
	detail := func(s string) string {
		return fmt.Sprintf("%s measurement %v nonce %x rand %s: %s", c.desc, r.m, r.nonce, vlib.Hex(r.rand), s)
	}
	sum := prio3xof.DecodeVec(r.ins[0][:l.measLen*l.fs], l.fs)
	var parts []byte
	if l.jr {
		leaderBlind := r.rand[(n-1)*step : (n-1)*step+seedSize]
		if !bytes.Equal(r.ins[0][len(r.ins[0])-seedSize:], leaderBlind) {
			return vlib.Report(t, "C19/derivation/"+name+"/leader-blind", detail("the leader's blind is not the seed the specification takes from rand"))
		}
		parts = append(parts, prio3xof.JointRandPart(c.algID, c.ctx, 0, leaderBlind, r.nonce[:], r.ins[0][:l.measLen*l.fs])...)
	}
	for i := 1; i < n; i++ {
		want := r.rand[(i-1)*step : i*step]
		if !bytes.Equal(r.ins[i], want) {
			return vlib.Report(t, "C19/derivation/"+name+"/helper-share-encoding", detail(fmt.Sprintf("helper %d input share %x, want seed (and blind) %x", i, r.ins[i], want)))
		}
		h := prio3xof.HelperMeasShare(c.algID, c.ctx, uint8(i), want[:seedSize], l.p, l.fs, l.measLen)
		for j := range sum {
			sum[j].Add(sum[j], h[j])
			sum[j].Mod(sum[j], l.p)
		}
		if l.jr {
			parts = append(parts, prio3xof.JointRandPart(c.algID, c.ctx, uint8(i), want[seedSize:], r.nonce[:], prio3xof.EncodeVec(h, l.fs))...)
		}
	}
	if exp := c.encode(r.m); !vecEq(sum, exp) {
		return vlib.Report(t, "C19/derivation/"+name+"/meas-shares", detail(fmt.Sprintf("leader share plus specified helper shares = %s, encoded measurement = %s", fmtVec(sum), fmtVec(exp))))
	}
	if l.jr {
		if !bytes.Equal(parts, r.pub) {
			return vlib.Report(t, "C19/derivation/"+name+"/joint-rand-parts", detail(fmt.Sprintf("public share %x, specified joint randomness parts %x", r.pub, parts)))
		}
		if seed := prio3xof.JointRandSeed(c.algID, c.ctx, parts); !bytes.Equal(seed, r.prepMsg) {
			return vlib.Report(t, "C19/derivation/"+name+"/joint-rand-seed", detail(fmt.Sprintf("prep message %x, specified joint randomness seed %x", r.prepMsg, seed)))
		}
	}
	vlib.Class("batch/"+name, "derivations-recomputed")
	return false
}

// ---------------------------------------------------------------------------
// the batch property

func batchProperty(t *rapid.T, name string, shares uint8, large bool, maxBatch int) {
	sub := "batch/" + name
	c, be, call := drawCase(t, name, shares, large)
	vlib.Eval(sub)
	if be != nil {
		if be.panicked != nil {
			vlib.Report(t, "C19/constructor/"+name+"/valid-params-panic", fmt.Sprintf("%s panics: %v\n%s", call, be.panicked, be.stack))
		} else {
			vlib.Report(t, "C19/constructor/"+name+"/valid-params-refused", fmt.Sprintf("%s = %v", call, be.err))
		}
		return
	}
	I := c.I
	l := I.L()
	n := l.shares
	if pick(t, 3, "repeat") == 0 {
		I.SetRepeat(true)
		vlib.Class(sub, "every-call-repeated")
	}
	vlib.Class(sub, fmt.Sprintf("shares=%d", n))
	if c.checked > 0 {
		cls := "chunk-not-dividing"
		if c.chunk >= c.checked {
			cls = "chunk>=total"
		} else if c.checked%c.chunk == 0 {
			cls = "chunk-divides"
		}
		vlib.Class(sub, cls)
	}
	var vk VerifyKey
	copy(vk[:], vlib.EdgeBytes(t, len(vk), "vk"))

	nValid := rapid.IntRange(1, maxBatch).Draw(t, "nvalid")
	nAlt := pick(t, 4, "nalt")
	nInv := 0
	if c.genInvalidMeas != nil {
		nInv = pick(t, 2, "ninv")
	}
	if n > 16 {
		nAlt, nInv = min(nAlt, 1), 0
	}

	aggs := make([][]byte, n)
	for i := range aggs {
		a, err := I.AggInit()
		if err != nil {
			reportHarness(t, c, err, "AggInit")
			return
		}
		aggs[i] = a
	}
	var want []*big.Int
	var reports []*report
	var ms []any
	var nonces []Nonce
	var rands [][]byte
	anyExtreme := false
	accepted := uint(0)

	newReport := func(m any, label string) (*report, error) {
		r := &report{m: m}
		copy(r.nonce[:], vlib.EdgeBytes(t, len(r.nonce), label+".nonce"))
		r.rand = vlib.EdgeBytes(t, l.randSize, label+".rand")
		var err error
		p, st := vlib.Catch(func() { r.pub, r.ins, err = I.Shard(m, &r.nonce, r.rand) })
		if p != nil {
			return nil, &panicErr{p, st}
		}
		soft(t, I, c.desc)
		return r, err
	}

	// altered reports: must be refused, so they never reach the aggregate
	kinds := altKindsAll
	if l.jr {
		kinds = append(append([]string{}, altKindsAll...), altKindsJR...)
		kinds = append(kinds, altKindsJR...)
	}
	doAltered := func(k int) bool {
		asub := "altered/" + name
		r := reports[rapid.IntRange(0, len(reports)-1).Draw(t, "alt.base")]
		var other *report
		if len(reports) > 1 {
			other = reports[rapid.IntRange(0, len(reports)-1).Draw(t, "alt.other")]
			if other == r {
				other = nil
			}
		}
		kind := pickFrom(t, kinds, "alt.kind")
		v, label, asserted := alteration(t, c, r, other, kind)
		vlib.Eval(asub)
		if label == "n/a" || label == "identity" {
			vlib.Class(asub, label+":"+kind)
			return true
		}
		if viewEqual(v, honestView(I, r)) {
			vlib.Class(asub, "alteration-was-identity:"+label)
			return true
		}
		var o outcome
		p, st := vlib.Catch(func() { o = process(I, &vk, v) })
		soft(t, I, c.desc)
		if p != nil {
			vlib.Report(t, "C19/panic/"+name+"/prepare/"+vlib.PanicClass(p), fmt.Sprintf("%s alteration %s: %v\n%s", c.desc, label, p, st))
			return false
		}
		if o.viol != nil {
			vlib.Report(t, o.viol.key, c.desc+" alteration "+label+": "+o.viol.detail)
			return false
		}
		cls := label + " → "
		if o.accepted {
			cls += "accepted"
		} else {
			cls += "rejected@" + o.stage
		}
		if !asserted {
			vlib.Class(asub, "not-asserted:"+cls)
			if o.accepted && (kind == "nonce-all" || kind == "pubshare-part-own") {
				// the shares are the honest ones: an accepted report still must
				// contribute exactly its measurement
				if got, exp := sumShares(l, o.outs), c.output(r.m); !vecEq(got, exp) {
					vlib.Report(t, "C19/out-shares/"+name+"/after-unasserted-alteration", fmt.Sprintf("%s alteration %s: outputs %s want %s", c.desc, label, fmtVec(got), fmtVec(exp)))
					return false
				}
			}
			return true
		}
		if o.accepted {
			vlib.Report(t, "C19/altered-accepted/"+name+"/"+strings.SplitN(label, ":", 2)[0],
				fmt.Sprintf("%s measurement %v nonce %x vk %x rand %s: alteration %s passed PrepInit, PrepSharesToPrep and PrepNext at all %d aggregators (outputs add up to %s)",
					c.desc, r.m, r.nonce, vk, vlib.Hex(r.rand), label, n, fmtVec(sumShares(l, o.outs))))
			return false
		}
		vlib.NonTrivial(asub, cls, []byte(c.desc), measBytes(r.m), r.nonce[:], r.rand, vk[:], []byte(label), []byte(fmt.Sprint(k)))
		vlib.Sample(asub, cls, fmt.Sprintf("%s m=%v nonce=%x: %s (%v)", c.desc, r.m, r.nonce, cls, o.err))
		return true
	}

	// measurements outside the valid set handed to Shard: refused by the
	// client (error or panic, both only counted) or rejected in preparation
	doInvalid := func(k int) bool {
		isub := "invalid/" + name
		m, label := c.genInvalidMeas(t)
		vlib.Eval(isub)
		r, err := newReport(m, fmt.Sprintf("inv%d", k))
		if err != nil {
			var pe *panicErr
			var hv *harnessViol
			switch {
			case errors.As(err, &pe):
				// the client must refuse an invalid measurement cleanly
				vlib.Class(isub, label+" → shard-panic:"+vlib.PanicClass(pe.p))
				vlib.Report(t, "C19/panic/"+name+"/Shard/"+vlib.PanicClass(pe.p), fmt.Sprintf("%s: Shard(%v) (%s, outside the valid set) panics instead of returning an error: %v\n%s", c.desc, m, label, pe.p, pe.st))
				return false
			case errors.As(err, &hv):
				vlib.Report(t, hv.key, c.desc+": "+hv.detail)
				return false
			default:
				vlib.Class(isub, label+" → shard-error")
			}
			vlib.NonTrivial(isub, "", []byte(c.desc), measBytes(m))
			return true
		}
		var o outcome
		p, st := vlib.Catch(func() { o = process(I, &vk, honestView(I, r)) })
		soft(t, I, c.desc)
		if p != nil {
			vlib.Report(t, "C19/panic/"+name+"/prepare/"+vlib.PanicClass(p), fmt.Sprintf("%s invalid measurement %v: %v\n%s", c.desc, m, p, st))
			return false
		}
		if o.viol != nil {
			vlib.Report(t, o.viol.key, c.desc+": "+o.viol.detail)
			return false
		}
		if o.accepted {
			vlib.Report(t, "C19/invalid-measurement-accepted/"+name,
				fmt.Sprintf("%s: Shard(%v) (%s) succeeds and the report passes preparation at all aggregators; outputs add up to %s", c.desc, m, label, fmtVec(sumShares(l, o.outs))))
			return false
		}
		vlib.NonTrivial(isub, label+" → rejected@"+o.stage, []byte(c.desc), measBytes(m), r.nonce[:], r.rand)
		return true
	}

	// altered and invalid reports are interleaved with the valid ones: entry
	// k of after[] is processed after valid report after[k]
	afterAlt := make([]int, nAlt)
	for i := range afterAlt {
		afterAlt[i] = pick(t, nValid, "alt.pos")
	}
	afterInv := make([]int, nInv)
	for i := range afterInv {
		afterInv[i] = pick(t, nValid, "inv.pos")
	}

	for k := 0; k < nValid; k++ {
		m, ext := c.genMeas(t, fmt.Sprintf("m%d", k))
		anyExtreme = anyExtreme || ext
		r, err := newReport(m, fmt.Sprintf("r%d", k))
		if err != nil {
			reportStep(t, c, "honest", "Shard", err, fmt.Sprintf("%s measurement %v", c.desc, m))
			return
		}
		if len(r.ins[0]) != l.leaderLen() || (n > 1 && len(r.ins[1]) != l.helperLen()) {
			t.Fatalf("harness: unexpected share sizes leader %d (want %d) helper %d (want %d)", len(r.ins[0]), l.leaderLen(), len(r.ins[1]), l.helperLen())
		}
		var o outcome
		p, st := vlib.Catch(func() { o = process(I, &vk, honestView(I, r)) })
		soft(t, I, c.desc)
		if p != nil {
			vlib.Report(t, "C19/panic/"+name+"/prepare/"+vlib.PanicClass(p), fmt.Sprintf("%s measurement %v: %v\n%s", c.desc, m, p, st))
			return
		}
		if !o.accepted {
			if o.viol != nil {
				vlib.Report(t, o.viol.key, c.desc+": "+o.viol.detail)
				return
			}
			vlib.Report(t, "C19/honest-rejected/"+name+"/"+o.stage, fmt.Sprintf("%s measurement %v nonce %x vk %x rand %s: %v", c.desc, m, r.nonce, vk, vlib.Hex(r.rand), o.err))
			return
		}
		r.prepShares, r.prepMsg, r.outs = o.pss, o.msg, o.outs
		// per-report: the output shares add up to the measurement's output
		if got, exp := sumShares(l, o.outs), c.output(m); !vecEq(got, exp) {
			vlib.Report(t, "C19/out-shares/"+name, fmt.Sprintf("%s measurement %v: output shares add up to %s, want %s", c.desc, m, fmtVec(got), fmtVec(exp)))
			return
		}
		for i := range aggs {
			a, err := I.AggUpdate(aggs[i], o.outs[i])
			if err != nil {
				reportHarness(t, c, err, "AggUpdate")
				return
			}
			aggs[i] = a
		}
		if k == 0 && n <= 16 {
			if checkDerivations(t, c, r) {
				return
			}
		}
		accepted++
		want = addVec(want, c.output(m))
		reports = append(reports, r)
		ms = append(ms, m)
		nonces = append(nonces, r.nonce)
		rands = append(rands, r.rand)
		for i, pos := range afterAlt {
			if pos == k && !doAltered(i) {
				return
			}
		}
		for i, pos := range afterInv {
			if pos == k && !doInvalid(i) {
				return
			}
		}
	}

	// collect
	var got any
	var err error
	p, st := vlib.Catch(func() { got, err = I.Unshard(aggs, accepted) })
	if p != nil {
		vlib.Report(t, "C19/panic/"+name+"/Unshard/"+vlib.PanicClass(p), fmt.Sprintf("%s: %v\n%s", c.desc, p, st))
		return
	}
	eq, representable := false, true
	if err == nil {
		eq, representable = aggEqual(c, got, want)
	} else {
		_, representable = aggEqual(c, nil, want)
	}
	below, fits := aggRange(c, want)
	switch {
	case !below:
		vlib.Class(sub, "aggregate>=modulus(not asserted)")
	case !fits:
		// below the modulus but beyond 64 bits: an error is the only right answer
		if _, hv := classify(err); hv != nil {
			vlib.Report(t, hv.key, c.desc+": "+hv.detail)
			return
		}
		if err == nil {
			vlib.Report(t, "C19/aggregate/"+name+"/overflow-not-reported", fmt.Sprintf("%s batch %v: the aggregate is %s (a position reaches 2^64) but Unshard returns %v without an error", c.desc, ms, fmtVec(want), got))
			return
		}
		vlib.NonTrivial(sub, "aggregate>=2^64 → error", []byte(c.desc), []byte(fmt.Sprint(ms)))
	case err != nil:
		if _, hv := classify(err); hv != nil {
			vlib.Report(t, hv.key, c.desc+": "+hv.detail)
		} else {
			vlib.Report(t, "C19/aggregate/"+name+"/unshard-error", fmt.Sprintf("%s batch %v: %v", c.desc, ms, err))
		}
		return
	case !eq:
		vlib.Report(t, "C19/aggregate/"+name+"/mismatch", fmt.Sprintf("%s batch %v: Unshard = %v, plain-integer aggregate = %s", c.desc, ms, got, fmtVec(want)))
		return
	}
	// the same batch as a running aggregation on the Go values, without
	// marshalling: collected half way, extended, collected twice at the end
	if pick(t, 3, "direct") == 0 {
		var dmid, dgot any
		p, st := vlib.Catch(func() { dmid, dgot, err = I.Direct(&vk, ms, nonces, rands) })
		if p != nil {
			vlib.Report(t, "C19/panic/"+name+"/direct/"+vlib.PanicClass(p), fmt.Sprintf("%s: %v\n%s", c.desc, p, st))
			return
		}
		var wantMid []*big.Int
		for _, m := range ms[:(len(ms)+1)/2] {
			wantMid = addVec(wantMid, c.output(m))
		}
		_, midRepresentable := aggEqual(c, nil, wantMid)
		if err != nil {
			if _, hv := classify(err); hv != nil {
				vlib.Report(t, hv.key, c.desc+" (running aggregation): "+hv.detail)
				return
			}
			if representable && midRepresentable {
				vlib.Report(t, "C19/aggregate/"+name+"/direct-error", fmt.Sprintf("%s batch %v: %v", c.desc, ms, err))
				return
			}
		} else {
			if eq, _ := aggEqual(c, dmid, wantMid); midRepresentable && !eq {
				vlib.Report(t, "C19/aggregate/"+name+"/direct-mismatch", fmt.Sprintf("%s batch %v: Unshard after %d reports = %v, want %s", c.desc, ms, (len(ms)+1)/2, dmid, fmtVec(wantMid)))
				return
			}
			if eq, _ := aggEqual(c, dgot, want); representable && !eq {
				vlib.Report(t, "C19/aggregate/"+name+"/direct-mismatch", fmt.Sprintf("%s batch %v: after an intermediate collection Unshard = %v, want %s", c.desc, ms, dgot, fmtVec(want)))
				return
			}
			vlib.Class(sub, "running-aggregation-compared")
		}
	}
	// interleaved history on this one instance: the per-report steps of all
	// valid reports, of one report with an altered proof element and of one
	// abandoned report in a drawn order
	if pick(t, 2, "pipeline") == 0 {
		var reps []pipeReport
		for i := range ms {
			reps = append(reps, pipeReport{m: ms[i], nonce: nonces[i], rand: rands[i], stages: 3})
		}
		nValidReps := len(reps)
		if l.proofLen > 0 {
			b := cp(reports[0].ins[0])
			idx := l.measLen + idxBiased(t, l.proofLen, 0, "pipe.pe")
			x := getElt(b, idx, l.fs)
			x.Add(x, big.NewInt(1)).Mod(x, l.p)
			putElt(b, idx, l.fs, x)
			reps = append(reps, pipeReport{m: ms[0], nonce: nonces[0], rand: rands[0], leader: b, stages: 3})
		}
		ab := pick(t, len(ms), "pipe.abandon")
		reps = append(reps, pipeReport{m: ms[ab], nonce: nonces[ab], rand: rands[ab], stages: 1 + pick(t, 2, "pipe.abandon.at")})
		// positions: a drawn permutation, so that altered / abandoned reports sit anywhere
		perm := rapid.Permutation(seq(len(reps))).Draw(t, "pipe.perm")
		var schedule []int
		okind := pickFrom(t, []string{"all-PrepInit-first", "staggered", "reverse-completion", "shuffled", "sequential"}, "pipe.order")
		switch okind {
		case "all-PrepInit-first":
			for st := 0; st < 3; st++ {
				schedule = append(schedule, perm...)
			}
		case "staggered":
			for step := 0; step < len(perm)+2; step++ {
				for st := 0; st < 3; st++ {
					if i := step - st; i >= 0 && i < len(perm) {
						schedule = append(schedule, perm[i])
					}
				}
			}
		case "reverse-completion":
			schedule = append(schedule, perm...)
			for i := len(perm) - 1; i >= 0; i-- {
				schedule = append(schedule, perm[i], perm[i])
			}
		case "shuffled":
			var all []int
			for st := 0; st < 3; st++ {
				all = append(all, perm...)
			}
			for _, i := range rapid.Permutation(seq(len(all))).Draw(t, "pipe.shuffle") {
				schedule = append(schedule, all[i])
			}
		default:
			for _, r := range perm {
				schedule = append(schedule, r, r, r)
			}
		}
		var acc []bool
		var pgot any
		var perr error
		p, st := vlib.Catch(func() { acc, pgot, perr = I.Pipeline(&vk, reps, schedule) })
		detail := fmt.Sprintf("%s, %d reports (%d valid, altered at %d, abandoned last), order %s, schedule %v", c.desc, len(reps), nValidReps, nValidReps, okind, schedule)
		if p != nil {
			vlib.Report(t, "C19/panic/"+name+"/pipeline/"+vlib.PanicClass(p), fmt.Sprintf("%s: %v\n%s", detail, p, st))
			return
		}
		var hv *harnessViol
		if errors.As(perr, &hv) {
			vlib.Report(t, hv.key, detail+": "+perr.Error())
			return
		}
		for i := range reps {
			wantAcc := i < nValidReps
			if acc != nil && acc[i] != wantAcc {
				vlib.Report(t, "C19/interleaved/"+name+"/verdict", fmt.Sprintf("%s: report %d accepted=%v, sequential model says %v", detail, i, acc[i], wantAcc))
				return
			}
		}
		if below, fits := aggRange(c, want); below && fits {
			if perr != nil {
				vlib.Report(t, "C19/interleaved/"+name+"/error", fmt.Sprintf("%s: %v", detail, perr))
				return
			}
			if eq, _ := aggEqual(c, pgot, want); !eq {
				vlib.Report(t, "C19/interleaved/"+name+"/aggregate", fmt.Sprintf("%s: Unshard = %v, want %s", detail, pgot, fmtVec(want)))
				return
			}
		}
		vlib.NonTrivial(sub, "interleaved:"+okind, []byte(c.desc), []byte(fmt.Sprint(schedule)), vk[:], []byte(fmt.Sprint(ms)))
	}
	if representable {
		vlib.Class(sub, "aggregate-compared")
	}
	vlib.Class(sub, fmt.Sprintf("batch=%d", nValid))
	if n > 2 || anyExtreme {
		cls := "extreme-measurement"
		if n > 2 {
			cls = ">2-aggregators"
		}
		parts := [][]byte{[]byte(c.desc), vk[:]}
		for i := range ms {
			parts = append(parts, measBytes(ms[i]), nonces[i][:], rands[i])
		}
		vlib.NonTrivial(sub, cls, parts...)
	}
	vlib.Sample(sub, "honest", fmt.Sprintf("%s batch=%v → %v", c.desc, ms, got))
}

type panicErr struct {
	p  interface{}
	st string
}

func (e *panicErr) Error() string { return fmt.Sprint("panic: ", e.p) }

func reportHarness(t vlib.TB, c *icase, err error, what string) {
	if _, hv := classify(err); hv != nil {
		vlib.Report(t, hv.key, c.desc+": "+hv.detail)
		return
	}
	vlib.Report(t, "C19/marshal/"+c.name+"/"+what+"-failed", fmt.Sprintf("%s: %v", c.desc, err))
}

func reportStep(t vlib.TB, c *icase, phase, step string, err error, detail string) {
	var pe *panicErr
	var hv *harnessViol
	switch {
	case errors.As(err, &pe):
		vlib.Report(t, "C19/panic/"+c.name+"/"+step+"/"+vlib.PanicClass(pe.p), fmt.Sprintf("%s: %v\n%s", detail, pe.p, pe.st))
	case errors.As(err, &hv):
		vlib.Report(t, hv.key, detail+": "+hv.detail)
	default:
		vlib.Report(t, "C19/"+phase+"-rejected/"+c.name+"/"+step, fmt.Sprintf("%s: %v", detail, err))
	}
}

func TestC19Batch(t *testing.T) {
	defer vlib.Done()
	selftest(t)
	for _, name := range instNames {
		name := name
		t.Run(name, func(t *testing.T) {
			n := vlib.N(1000, 1500)
			if name == "count" {
				n = vlib.N(1500, 2500)
			}
			vlib.Check(t, n, func(t *rapid.T) {
				batchProperty(t, name, drawShares(t), vlib.Thorough() && pick(t, 6, "big") == 0, 8)
			})
		})
	}
}

// TestC19Wide: 255 aggregators (≈100× the cost of two): a handful per shard,
// thorough tier only.
func TestC19Wide(t *testing.T) {
	defer vlib.Done()
	if !vlib.Thorough() {
		t.Skip("thorough only")
	}
	name := instNames[vlib.Shard%len(instNames)]
	vlib.Check(t, 2, func(t *rapid.T) {
		shares := uint8(pickFrom(t, []int{255, 255, 254, 128, 17}, "wide"))
		batchProperty(t, name, shares, false, 2)
	})
}

// ---------------------------------------------------------------------------
// degenerate constructor arguments

func ctor(name string, call string, f func() error) (outcome string, detail string) {
	var err error
	p, st := vlib.Catch(func() { err = f() })
	switch {
	case p != nil:
		return "panic:" + vlib.PanicClass(p), fmt.Sprintf("%s panics: %v\n%s", call, p, st)
	case err == nil:
		return "accepted", call + " returns no error"
	}
	return "error", err.Error()
}

func TestC19Constructors(t *testing.T) {
	defer vlib.Done()
	sub := "constructor"
	check := func(rt *rapid.T, inst, kind, call string, f func() error) {
		vlib.Eval(sub)
		oc, detail := ctor(inst, call, f)
		vlib.Class(sub, inst+"/"+kind+" → "+strings.SplitN(oc, ":", 2)[0])
		vlib.NonTrivial(sub, "", []byte(call))
		switch {
		case oc == "error":
			return
		case oc == "accepted":
			if kind == "bound-too-large" {
				detail += demoSumWrap(call)
			}
			vlib.Report(rt, "C19/constructor/"+inst+"/"+kind+"-accepted", detail)
		default:
			short := map[string]string{"chunk0": "chunk0-panic", "shares-lt2": "shares-lt2-panic", "bound-too-large": "bound-too-large-panic"}[kind]
			vlib.Report(rt, "C19/constructor/"+inst+"/"+short, detail)
		}
	}
	vlib.Check(t, vlib.N(1500, 3000), func(rt *rapid.T) {
		ctx := drawCtx(rt)
		inst := pickFrom(rt, instNames, "inst")
		kinds := []string{"shares-lt2"}
		switch inst {
		case "sum":
			kinds = append(kinds, "bound-too-large", "bound-too-large")
		case "sumvec", "histogram", "mhcv":
			kinds = append(kinds, "chunk0", "chunk0")
		}
		kind := pickFrom(rt, kinds, "kind")
		// otherwise admissible parameters
		shares := drawShares(rt)
		if kind == "shares-lt2" {
			shares = uint8(pick(rt, 2, "fewshares"))
		}
		switch inst {
		case "count":
			check(rt, inst, kind, fmt.Sprintf("count.New(%d,ctx)", shares), func() error { _, err := count.New(shares, ctx); return err })
		case "sum":
			max := drawSumBound(rt)
			if kind == "bound-too-large" {
				switch pick(rt, 7, "big.k") {
				case 0:
					max = 1 << 63
				case 1:
					max = 1<<63 + 1
				case 2:
					max = ^uint64(0)
				case 3:
					max = p64.Uint64() - 1
				case 4:
					max = p64.Uint64()
				default:
					max = rapid.Uint64Range(1<<63, ^uint64(0)).Draw(rt, "big.v")
				}
			}
			check(rt, inst, kind, fmt.Sprintf("sum.New(%d,%d,ctx)", shares, max), func() error { _, err := sum.New(shares, max, ctx); return err })
		case "sumvec":
			nbits := uint(rapid.IntRange(1, 64).Draw(rt, "bits"))
			length := uint(rapid.IntRange(1, 20).Draw(rt, "length"))
			chunk := drawChunk(rt, int(length*nbits))
			if kind == "chunk0" {
				chunk = 0
			}
			check(rt, inst, kind, fmt.Sprintf("sumvec.New(%d,%d,%d,%d,ctx)", shares, length, nbits, chunk), func() error { _, err := sumvec.New(shares, length, nbits, chunk, ctx); return err })
		case "histogram":
			length := uint(rapid.IntRange(1, 100).Draw(rt, "length"))
			chunk := drawChunk(rt, int(length))
			if kind == "chunk0" {
				chunk = 0
			}
			check(rt, inst, kind, fmt.Sprintf("histogram.New(%d,%d,%d,ctx)", shares, length, chunk), func() error { _, err := histogram.New(shares, length, chunk, ctx); return err })
		case "mhcv":
			length := uint(rapid.IntRange(1, 100).Draw(rt, "length"))
			maxW := uint(rapid.IntRange(1, int(length)).Draw(rt, "maxw"))
			chunk := drawChunk(rt, int(length)+2)
			if kind == "chunk0" {
				chunk = 0
			}
			check(rt, inst, kind, fmt.Sprintf("mhcv.New(%d,%d,%d,%d,ctx)", shares, length, maxW, chunk), func() error { _, err := mhcv.New(shares, length, maxW, chunk, ctx); return err })
		}
	})
}

// demoSumWrap shows the consequence of an accepted 64-bit bound: a
// measurement the instance takes as valid comes back reduced modulo the field.
func demoSumWrap(call string) (s string) {
	p, _ := vlib.Catch(func() {
		c, be := newSumCase(2, ^uint64(0), []byte("demo"))
		if be != nil {
			return
		}
		m := ^uint64(0)
		var vk VerifyKey
		r := &report{m: m, rand: make([]byte, c.I.L().randSize)}
		var err error
		r.pub, r.ins, err = c.I.Shard(m, &r.nonce, r.rand)
		if err != nil {
			s = fmt.Sprintf("; (with bound 2^64-1, Shard(2^64-1): %v)", err)
			return
		}
		o := process(c.I, &vk, honestView(c.I, r))
		if o.accepted {
			s = fmt.Sprintf("; e.g. with bound 2^64-1 the single measurement 2^64-1 is accepted and aggregates to %s", fmtVec(sumShares(c.I.L(), o.outs)))
		}
	})
	if p != nil {
		s = fmt.Sprintf("; (demo panicked: %v)", p)
	}
	return s
}

// ---------------------------------------------------------------------------
// oracle self-test: the field constants and the model, independent of circl's
// arithmetic (math/big only); the last two lines compare the constants with
// the moduli circl advertises, a mismatch there is a harness error.

func selftest(t *testing.T) {
	fail := func(f string, a ...any) {
		fmt.Printf("SELFTEST-FAIL "+f+"\n", a...)
		t.Fatalf("SELFTEST-FAIL "+f, a...)
	}
	q64 := new(big.Int).Sub(new(big.Int).Lsh(big.NewInt(1), 64), new(big.Int).Lsh(big.NewInt(1), 32))
	q64.Add(q64, big.NewInt(1))
	q128 := new(big.Int).Mul(new(big.Int).Lsh(big.NewInt(1), 66), new(big.Int).SetUint64(4611686018427387897))
	q128.Add(q128, big.NewInt(1))
	if q64.Cmp(p64) != 0 || q128.Cmp(p128) != 0 || !p64.ProbablyPrime(20) || !p128.ProbablyPrime(20) {
		fail("field moduli")
	}
	if new(big.Int).SetBytes(new(fp64.Fp).Order()).Cmp(p64) != 0 || new(big.Int).SetBytes(new(fp128.Fp).Order()).Cmp(p128) != 0 {
		// depends on circl, outside C19 (field constants, C12): the model's arithmetic would use another modulus
		fail("circl misbehaved outside C19: fp64.Fp.Order() = %x, fp128.Fp.Order() = %x differ from the draft's moduli %x, %x", new(fp64.Fp).Order(), new(fp128.Fp).Order(), p64, p128)
	}
	b := make([]byte, 32)
	v, _ := new(big.Int).SetString("123456789abcdef0fedcba9876543210", 16)
	putElt(b, 1, 16, v)
	if getElt(b, 1, 16).Cmp(v) != 0 || b[16] != 0x10 || b[31] != 0x12 || getElt(b, 0, 16).Sign() != 0 {
		fail("element codec")
	}
	if x := bitsOf(6, 4); x[0].Sign() != 0 || x[1].Cmp(big.NewInt(1)) != 0 || x[2].Cmp(big.NewInt(1)) != 0 || x[3].Sign() != 0 {
		fail("bitsOf")
	}
	if err := prio3xof.SelfTest(vlib.Harness); err != nil {
		fail("ref/prio3xof: %v", err)
	}
	vlib.Selftest("C19 field constants, element codec, bit encoding", "ok")
	vlib.Selftest("ref/prio3xof (XofTurboShake128 and share/joint-randomness derivations) against the draft's XofTurboShake128, Prio3Sum_1 and Prio3Histogram_1 vectors; ref/keccak against RFC 9861", "ok")
}

// ---------------------------------------------------------------------------
// many aggregators, quick tier too: one honest report per instance (smallest
// admissible parameters) with 127, 128, 129, 200 and 255 aggregators through
// shard → prepare → aggregate → unshard, and RAND_SIZE = SEED_SIZE * SHARES
// (twice that with joint randomness; draft-13 §7.2, Table 7): Shard must take
// exactly that much randomness.

func TestC19ManyAggregators(t *testing.T) {
	defer vlib.Done()
	ctx := []byte("many aggregators")
	mk := map[string]func(shares uint8) (*icase, *buildErr, any){
		"count": func(s uint8) (*icase, *buildErr, any) { c, be := newCountCase(s, ctx); return c, be, true },
		"sum":   func(s uint8) (*icase, *buildErr, any) { c, be := newSumCase(s, 1, ctx); return c, be, uint64(1) },
		"sumvec": func(s uint8) (*icase, *buildErr, any) {
			c, be := newSumVecCase(s, 1, 1, 1, ctx)
			return c, be, []uint64{1}
		},
		"histogram": func(s uint8) (*icase, *buildErr, any) {
			c, be := newHistogramCase(s, 1, 1, ctx)
			return c, be, uint64(0)
		},
		"mhcv": func(s uint8) (*icase, *buildErr, any) {
			c, be := newMhcvCase(s, 1, 1, 1, ctx)
			return c, be, []bool{true}
		},
	}
	for _, name := range instNames {
		for k, shares := range []uint8{127, 128, 129, 200, 255} {
			sub := "many/" + name
			vlib.Eval(sub)
			replay := map[string]interface{}{"instance": name, "shares": shares, "seed": vlib.Seed}
			c, be, m := mk[name](shares)
			if be != nil {
				vlib.ReportDirect(t, "C19/constructor/"+name+"/valid-params-refused", fmt.Sprintf("%s with %d aggregators: err=%v panic=%v", name, shares, be.err, be.panicked), replay)
				continue
			}
			I := c.I
			l := I.L()
			wantRand := seedSize * int(shares)
			if l.jr {
				wantRand *= 2
			}
			if l.randSize != wantRand {
				vlib.ReportDirect(t, "C19/rand-size/"+name, fmt.Sprintf("%s: Params().RandSize() = %d, specified RAND_SIZE = %d", c.desc, l.randSize, wantRand), replay)
				continue
			}
			runOne(t, sub, c, m, k, fmt.Sprintf("shares=%d", shares), replay)
		}
	}
}

// runOne: one honest report with seed-derived nonce, randomness and verify
// key through shard → prepare → aggregate → unshard (byte level).
func runOne(t *testing.T, sub string, c *icase, m any, k int, class string, replay map[string]interface{}) {
	name := c.name
	I := c.I
	l := I.L()
	wantRand := l.randSize
	r := &report{m: m, rand: make([]byte, wantRand)}
	vlib.ExpandInto(r.rand, uint64(vlib.Seed)*1000+uint64(k))
	vlib.ExpandInto(r.nonce[:], uint64(vlib.Seed)*1000+100+uint64(k))
	var vk VerifyKey
	vlib.ExpandInto(vk[:], uint64(vlib.Seed)*1000+200+uint64(k))
	var err error
	var o outcome
	var got any
	stage := "Shard"
	p, st := vlib.Catch(func() {
		r.pub, r.ins, err = I.Shard(m, &r.nonce, r.rand)
		if err != nil {
			return
		}
		stage = "prepare"
		o = process(I, &vk, honestView(I, r))
		if !o.accepted {
			err = o.err
			return
		}
		stage = "aggregate"
		aggs := make([][]byte, l.shares)
		for i := range aggs {
			var a []byte
			if a, err = I.AggInit(); err != nil {
				return
			}
			if aggs[i], err = I.AggUpdate(a, o.outs[i]); err != nil {
				return
			}
		}
		stage = "Unshard"
		got, err = I.Unshard(aggs, 1)
	})
	for _, hv := range I.Soft() {
		vlib.ReportDirect(t, hv.key, c.desc+": "+hv.detail, replay)
	}
	switch {
	case p != nil:
		vlib.ReportDirect(t, "C19/panic/"+name+"/"+stage+"/"+vlib.PanicClass(p), fmt.Sprintf("%s: %v\n%s", c.desc, p, st), replay)
	case err != nil:
		if _, hv := classify(err); hv != nil {
			vlib.ReportDirect(t, hv.key, c.desc+": "+hv.detail, replay)
		} else {
			vlib.ReportDirect(t, "C19/honest-rejected/"+name+"/"+stage, fmt.Sprintf("%s measurement %v with %d bytes of randomness: %v", c.desc, m, len(r.rand), err), replay)
		}
	default:
		if s := sumShares(l, o.outs); !vecEq(s, c.output(m)) {
			vlib.ReportDirect(t, "C19/out-shares/"+name, fmt.Sprintf("%s: output shares add up to %s", c.desc, fmtVec(s)), replay)
		} else if eq, _ := aggEqual(c, got, c.output(m)); !eq {
			vlib.ReportDirect(t, "C19/aggregate/"+name+"/mismatch", fmt.Sprintf("%s measurement %v: Unshard = %v", c.desc, m, got), replay)
		} else {
			vlib.NonTrivial(sub, class, []byte(c.desc), r.rand, r.nonce[:], vk[:])
		}
	}
}

// TestC19Sizes: deterministic parameter points (2 aggregators, one honest
// report each): the smallest value of every parameter including the zero-bit
// instances, and a sweep over the number of gadget calls across every power
// of two up to 2^11 (the proof system's NTT sizes go up to 2^13), for the
// 64-bit field through every bit width of Sum.
func TestC19Sizes(t *testing.T) {
	defer vlib.Done()
	ctx := []byte("sizes")
	type point struct {
		class string
		mk    func() (*icase, *buildErr, any)
	}
	var pts []point
	add := func(class string, mk func() (*icase, *buildErr, any)) { pts = append(pts, point{class, mk}) }
	add("smallest", func() (*icase, *buildErr, any) { c, be := newCountCase(2, ctx); return c, be, true })
	// zero-bit and smallest parameters
	add("zero-bits", func() (*icase, *buildErr, any) { c, be := newSumCase(2, 0, ctx); return c, be, uint64(0) })
	for _, p := range [][3]uint{{1, 0, 1}, {3, 0, 5}, {1, 1, 1}, {1, 1, 9}, {2, 64, 1}} {
		p := p
		cl := "smallest"
		if p[1] == 0 {
			cl = "zero-bits"
		}
		add(cl, func() (*icase, *buildErr, any) {
			c, be := newSumVecCase(2, p[0], p[1], p[2], ctx)
			m := make([]uint64, p[0])
			if p[1] > 0 {
				m[p[0]-1] = 1
			}
			return c, be, m
		})
	}
	for _, p := range [][3]uint{{1, 0, 1}, {5, 0, 2}, {1, 1, 1}, {1, 1, 4}} {
		p := p
		cl := "smallest"
		if p[1] == 0 {
			cl = "zero-bits"
		}
		add(cl, func() (*icase, *buildErr, any) {
			c, be := newMhcvCase(2, p[0], p[1], p[2], ctx)
			m := make([]bool, p[0])
			m[0] = p[1] > 0
			return c, be, m
		})
	}
	for _, p := range [][2]uint{{1, 1}, {1, 5}, {2, 2}} {
		p := p
		add("smallest", func() (*icase, *buildErr, any) {
			c, be := newHistogramCase(2, p[0], p[1], ctx)
			return c, be, uint64(p[0] - 1)
		})
	}
	// Sum: every bit width (2*bits gadget calls, NTT sizes 4..256 in the 64-bit field)
	for b := uint(1); b <= 63; b++ {
		for _, max := range []uint64{uint64(1) << (b - 1), uint64(1)<<b - 1} {
			max := max
			add("sum-bit-widths", func() (*icase, *buildErr, any) { c, be := newSumCase(2, max, ctx); return c, be, max })
		}
	}
	// gadget-call sweep in the 128-bit field: 2^j-1 and 2^j calls, j = 1..11
	for j := uint(1); j <= 11; j++ {
		for _, calls := range []uint{1<<j - 1, 1 << j} {
			calls := calls
			add("gadget-calls", func() (*icase, *buildErr, any) {
				c, be := newHistogramCase(2, calls, 1, ctx)
				return c, be, uint64(calls - 1)
			})
			add("gadget-calls", func() (*icase, *buildErr, any) {
				c, be := newSumVecCase(2, calls, 1, 1, ctx)
				m := make([]uint64, calls)
				m[calls-1] = 1
				return c, be, m
			})
			if calls >= 2 {
				add("gadget-calls", func() (*icase, *buildErr, any) {
					c, be := newMhcvCase(2, calls-1, 1, 1, ctx)
					m := make([]bool, calls-1)
					m[calls-2] = true
					return c, be, m
				})
			}
		}
	}
	// wider chunks with many calls
	add("gadget-calls", func() (*icase, *buildErr, any) {
		c, be := newSumVecCase(2, 1000, 16, 31, ctx)
		m := make([]uint64, 1000)
		m[0], m[999] = 65535, 1
		return c, be, m
	})
	add("gadget-calls", func() (*icase, *buildErr, any) {
		c, be := newHistogramCase(2, 3000, 3, ctx)
		return c, be, uint64(2999)
	})
	add("gadget-calls", func() (*icase, *buildErr, any) {
		c, be := newMhcvCase(2, 1500, 700, 2, ctx)
		m := make([]bool, 1500)
		for i := 0; i < 700; i++ {
			m[2*i] = true
		}
		return c, be, m
	})
	for k, p := range pts {
		if k%vlib.NShards != vlib.Shard {
			continue
		}
		c, be, m := p.mk()
		replay := map[string]interface{}{"point": k, "class": p.class, "seed": vlib.Seed}
		if be != nil {
			vlib.Eval("sizes")
			vlib.ReportDirect(t, "C19/constructor/sizes/valid-params-refused", fmt.Sprintf("point %d (%s): err=%v panic=%v", k, p.class, be.err, be.panicked), replay)
			continue
		}
		sub := "sizes/" + c.name
		vlib.Eval(sub)
		replay["instance"] = c.desc
		runOne(t, sub, c, m, k, p.class, replay)
	}
}

// TestC19Structured: alterations whose difference from the honest value is
// zero in part of the internal representation (every window of windows()),
// applied to every element of the leader's measurement and proof share and of
// one prep share (capped for large instances). A comparison that only looks
// at part of an element (IsZero / IsEqual in Decide) would let them through.
func TestC19Structured(t *testing.T) {
	defer vlib.Done()
	for _, name := range instNames {
		name := name
		t.Run(name, func(t *testing.T) {
			vlib.Check(t, vlib.N(30, 80), func(t *rapid.T) {
				sub := "structured/" + name
				c, be, call := drawCase(t, name, uint8(2+pick(t, 2, "shares")), false)
				if be != nil {
					vlib.Report(t, "C19/constructor/"+name+"/valid-params-refused", fmt.Sprintf("%s: err=%v panic=%v", call, be.err, be.panicked))
					return
				}
				I := c.I
				l := I.L()
				var vk VerifyKey
				copy(vk[:], vlib.EdgeBytes(t, len(vk), "vk"))
				m, _ := c.genMeas(t, "m")
				r := &report{m: m}
				copy(r.nonce[:], vlib.EdgeBytes(t, len(r.nonce), "nonce"))
				r.rand = vlib.EdgeBytes(t, l.randSize, "rand")
				var err error
				var o outcome
				p, st := vlib.Catch(func() {
					if r.pub, r.ins, err = I.Shard(m, &r.nonce, r.rand); err == nil {
						o = process(I, &vk, honestView(I, r))
					}
				})
				soft(t, I, c.desc)
				if _, hv := classify(err); hv != nil {
					vlib.Report(t, hv.key, c.desc+": "+hv.detail)
					return
				}
				if o.viol != nil {
					vlib.Report(t, o.viol.key, c.desc+": "+o.viol.detail)
					return
				}
				if p != nil || err != nil || !o.accepted {
					vlib.Report(t, "C19/honest-rejected/"+name+"/structured", fmt.Sprintf("%s measurement %v: panic=%v err=%v stage=%s %v\n%s", c.desc, m, p, err, o.stage, o.err, st))
					return
				}
				r.prepShares, r.prepMsg = o.pss, o.msg
				// element positions: all if few, else first / last few and random ones
				positions := func(n int) []int {
					if n <= 12 {
						return seq(n)
					}
					ps := []int{0, 1, 2, n - 3, n - 2, n - 1}
					for k := 0; k < 4; k++ {
						ps = append(ps, rapid.IntRange(3, n-4).Draw(t, "pos"))
					}
					return ps
				}
				agg := pick(t, l.shares, "agg")
				type target struct {
					where string
					idx   int
				}
				var targets []target
				for _, i := range positions(l.measLen + l.proofLen) {
					targets = append(targets, target{"leader", i})
				}
				for _, i := range positions(l.verLen) {
					targets = append(targets, target{"prepshare", i})
				}
				for _, tg := range targets {
					for w := range windows(l.p) {
						d, wl := structuredDelta(t, l.p, w, "d")
						v := honestView(I, r)
						label := tg.where + "-elt+" + wl
						if tg.where == "leader" {
							b := cp(r.ins[0])
							x := getElt(b, tg.idx, l.fs)
							x.Add(x, d).Mod(x, l.p)
							putElt(b, tg.idx, l.fs, x)
							v.ins[0] = b
						} else {
							b := cp(r.prepShares[agg])
							x := getElt(b, tg.idx, l.fs)
							x.Add(x, d).Mod(x, l.p)
							putElt(b, tg.idx, l.fs, x)
							v.alterPrepShares = func(ps [][]byte) string { ps[agg] = b; return "" }
						}
						vlib.Eval(sub)
						var o outcome
						p, st := vlib.Catch(func() { o = process(I, &vk, v) })
						soft(t, I, c.desc)
						if p != nil {
							vlib.Report(t, "C19/panic/"+name+"/prepare/"+vlib.PanicClass(p), fmt.Sprintf("%s %s: %v\n%s", c.desc, label, p, st))
							return
						}
						if o.viol != nil {
							vlib.Report(t, o.viol.key, c.desc+" "+label+": "+o.viol.detail)
							return
						}
						if o.accepted {
							vlib.Report(t, "C19/altered-accepted/"+name+"/structured-"+tg.where+"-elt",
								fmt.Sprintf("%s measurement %v nonce %x vk %x rand %s: element %d of the %s share changed by %s (Montgomery form zero outside bits %s) passes preparation at all aggregators",
									c.desc, m, r.nonce, vk, vlib.Hex(r.rand), tg.idx, tg.where, d, wl))
							return
						}
						vlib.NonTrivial(sub, tg.where+"+"+wl+" → rejected@"+o.stage, []byte(c.desc), measBytes(m), r.nonce[:], r.rand, vk[:], []byte(label), []byte(fmt.Sprint(tg.idx)), d.Bytes())
					}
				}
			})
		})
	}
}

// runBatch: a batch of valid measurements (2 aggregators or whatever the case
// has) through the byte-level path with seed-derived nonces and randomness;
// returns what Unshard returns.
func runBatch(c *icase, ms []any, base uint64) (got any, err error) {
	I := c.I
	l := I.L()
	var vk VerifyKey
	vlib.ExpandInto(vk[:], base)
	aggs := make([][]byte, l.shares)
	for i := range aggs {
		if aggs[i], err = I.AggInit(); err != nil {
			return nil, err
		}
	}
	for k, m := range ms {
		r := &report{m: m, rand: make([]byte, l.randSize)}
		vlib.ExpandInto(r.rand, base+uint64(2*k)+1)
		vlib.ExpandInto(r.nonce[:], base+uint64(2*k)+2)
		if r.pub, r.ins, err = I.Shard(m, &r.nonce, r.rand); err != nil {
			return nil, err
		}
		o := process(I, &vk, honestView(I, r))
		if !o.accepted {
			return nil, o.err
		}
		for i := range aggs {
			if aggs[i], err = I.AggUpdate(aggs[i], o.outs[i]); err != nil {
				return nil, err
			}
		}
	}
	return I.Unshard(aggs, uint(len(ms)))
}

// TestC19Overflow: aggregates that do not fit the 64-bit aggregate type
// (SumVec with the widest entries; the other instances cannot get there: a
// count of reports per position, resp. a sum in the 64-bit field where a sum
// beyond the modulus is outside the property). Each position in turn is driven
// across 2^64: Unshard must return an error, never another vector; the batch
// that stops at exactly 2^64-1 must be returned exactly.
func TestC19Overflow(t *testing.T) {
	defer vlib.Done()
	ctx := []byte("overflow")
	sub := "overflow/sumvec"
	max64 := ^uint64(0)
	for _, p := range [][3]uint{{4, 64, 16}, {1, 64, 1}, {3, 63, 10}, {5, 64, 7}} {
		length, nbits, chunk := p[0], p[1], p[2]
		entry := max64
		if nbits < 64 {
			entry = uint64(1)<<nbits - 1
		}
		for pos := 0; pos < int(length); pos++ {
			for _, over := range []bool{true, false} {
				c, be := newSumVecCase(2, length, nbits, chunk, ctx)
				if be != nil {
					t.Fatalf("sumvec.New(2,%d,%d,%d): %v %v", length, nbits, chunk, be.err, be.panicked)
				}
				// reports with the largest entry at pos until the sum passes 2^64
				// (over) or a last report that stops at exactly 2^64-1
				var ms []any
				total := new(big.Int)
				for k := 0; ; k++ {
					v := make([]uint64, length)
					v[pos] = entry
					for i := range v {
						if i != pos {
							v[i] = uint64(k+i) & entry
						}
					}
					next := new(big.Int).Add(total, bi(entry))
					if next.Cmp(two64) >= 0 {
						if over {
							ms = append(ms, v)
							total = next
						} else if rest := new(big.Int).Sub(new(big.Int).Sub(two64, big.NewInt(1)), total); rest.Sign() > 0 {
							v[pos] = rest.Uint64()
							ms = append(ms, v)
							total.Add(total, rest)
						}
						break
					}
					ms = append(ms, v)
					total = next
				}
				var want []*big.Int
				for _, m := range ms {
					want = addVec(want, c.output(m))
				}
				vlib.Eval(sub)
				replay := map[string]interface{}{"instance": c.desc, "position": pos, "over": over, "batch": fmt.Sprint(ms)}
				var got any
				var err error
				pn, st := vlib.Catch(func() { got, err = runBatch(c, ms, uint64(vlib.Seed)*7919+uint64(pos)) })
				for _, hv := range c.I.Soft() {
					vlib.ReportDirect(t, hv.key, c.desc+": "+hv.detail, replay)
				}
				_, hv := classify(err)
				switch {
				case pn != nil:
					vlib.ReportDirect(t, "C19/panic/sumvec/batch/"+vlib.PanicClass(pn), fmt.Sprintf("%s: %v\n%s", c.desc, pn, st), replay)
				case err != nil && hv != nil:
					vlib.ReportDirect(t, hv.key, c.desc+": "+hv.detail, replay)
				case over && err == nil:
					vlib.ReportDirect(t, "C19/aggregate/sumvec/overflow-not-reported", fmt.Sprintf("%s batch %v: position %d of the aggregate is %s >= 2^64 but Unshard returns %v without an error", c.desc, ms, pos, want[pos], got), replay)
				case over:
					vlib.NonTrivial(sub, "position-crosses-2^64 → error", []byte(c.desc), []byte(fmt.Sprint(ms)))
				case err != nil:
					vlib.ReportDirect(t, "C19/aggregate/sumvec/unshard-error", fmt.Sprintf("%s batch %v (aggregate %s fits 64 bits): %v", c.desc, ms, fmtVec(want), err), replay)
				default:
					if eq, _ := aggEqual(c, got, want); !eq {
						vlib.ReportDirect(t, "C19/aggregate/sumvec/mismatch", fmt.Sprintf("%s batch %v: Unshard = %v, want %s", c.desc, ms, got, fmtVec(want)), replay)
					} else {
						vlib.NonTrivial(sub, "position-at-2^64-1 → exact", []byte(c.desc), []byte(fmt.Sprint(ms)))
					}
				}
			}
		}
	}
}
