//go:build verif

package c19

import (
	"fmt"
	"math/big"
	"math/bits"

	"github.com/cloudflare/circl/vdaf/prio3/count"
	"github.com/cloudflare/circl/vdaf/prio3/histogram"
	"github.com/cloudflare/circl/vdaf/prio3/mhcv"
	"github.com/cloudflare/circl/vdaf/prio3/sum"
	"github.com/cloudflare/circl/vdaf/prio3/sumvec"
	"github.com/cloudflare/circl/zz_verif/vlib"
	"pgregory.net/rapid"
)

var instNames = []string{"count", "sum", "sumvec", "histogram", "mhcv"}

// edit replaces element idx of the *encoded measurement* (sum of all shares)
// by val; applied to the leader's share as share += val - honest.
type edit struct {
	idx int
	val *big.Int
}

// icase is one configured instance together with its plain-integer model.
type icase struct {
	I      inst
	name   string
	desc   string
	shares int
	// genMeas draws a valid measurement; extreme tells whether it is one of the
	// extremes of the valid set.
	genMeas func(t *rapid.T, label string) (m any, extreme bool)
	// encode is the specified encoding of a valid measurement (vector of
	// MEAS_LEN field elements as integers), output its truncation.
	encode func(m any) []*big.Int
	output func(m any) []*big.Int
	// scalar aggregate (count, sum) or vector
	scalar bool
	// genInvalidMeas draws a measurement outside the valid set that the Go type
	// can express (nil if there is none).
	genInvalidMeas func(t *rapid.T) (m any, label string)
	// genEdit draws an alteration of the encoded measurement which makes it
	// invalid for the circuit.
	genEdit func(t *rapid.T, m any) (e []edit, label string)
	// chunk structure of the range-checked part (0 if not chunked)
	chunk int
	// algorithm identifier (draft-13 §10, Table 18) and application context
	algID uint32
	ctx   []byte
	// number of range-checked elements (0 if not chunked)
	checked int
}

func bi(v uint64) *big.Int { return new(big.Int).SetUint64(v) }

func bitsOf(v uint64, n int) []*big.Int {
	o := make([]*big.Int, n)
	for i := range o {
		o[i] = bi((v >> uint(i)) & 1)
	}
	return o
}

func nonBit(t *rapid.T, p *big.Int, label string) *big.Int {
	switch pick(t, 5, label+".nb") {
	case 0:
		return big.NewInt(2)
	case 1:
		return new(big.Int).Sub(p, big.NewInt(1))
	case 2: // (p+1)/2: x with 2x = 1
		v := new(big.Int).Add(p, big.NewInt(1))
		return v.Rsh(v, 1)
	case 3:
		return new(big.Int).Lsh(big.NewInt(1), uint(rapid.IntRange(1, 63).Draw(t, label+".sh")))
	default:
		b := make([]byte, 16)
		vlib.FillRandom(t, b, label)
		v := new(big.Int).SetBytes(b)
		v.Mod(v, p)
		if v.Cmp(big.NewInt(2)) < 0 {
			v.SetInt64(3)
		}
		return v
	}
}

// idxBiased picks an index in [0,n) with extra weight on the last chunk and
// the first element.
func idxBiased(t *rapid.T, n, chunk int, label string) int {
	if n <= 1 {
		return 0
	}
	switch pick(t, 10, label+".where") {
	case 0:
		return 0
	case 1, 2:
		return n - 1
	case 3, 4:
		if chunk > 0 {
			start := ((n - 1) / chunk) * chunk
			return rapid.IntRange(start, n-1).Draw(t, label+".lastchunk")
		}
	}
	return rapid.IntRange(0, n-1).Draw(t, label+".idx")
}

type buildErr struct {
	panicked interface{}
	stack    string
	err      error
}

func build(f func() (inst, error)) (I inst, be *buildErr) {
	var err error
	p, st := vlib.Catch(func() { I, err = f() })
	if p != nil {
		return nil, &buildErr{panicked: p, stack: st}
	}
	if err != nil {
		return nil, &buildErr{err: err}
	}
	return I, nil
}

func newCountCase(shares uint8, ctx []byte) (*icase, *buildErr) {
	I, be := build(func() (inst, error) {
		cc := append([]byte{}, ctx...)
		c, err := count.New(shares, cc)
		scribble(cc) // the constructor must not keep the caller's context slice
		if err != nil {
			return nil, err
		}
		return newAdapter("count", 8, c), nil
	})
	if be != nil {
		return nil, be
	}
	c := &icase{I: I, algID: 1, ctx: ctx, name: "count", desc: fmt.Sprintf("count(shares=%d)", shares), shares: int(shares), scalar: true}
	c.genMeas = func(t *rapid.T, label string) (any, bool) {
		return rapid.Bool().Draw(t, label), true // both values are the extremes 0 and max
	}
	c.encode = func(m any) []*big.Int {
		if m.(bool) {
			return []*big.Int{bi(1)}
		}
		return []*big.Int{bi(0)}
	}
	c.output = c.encode
	c.genEdit = func(t *rapid.T, m any) ([]edit, string) {
		return []edit{{0, nonBit(t, p64, "cnt")}}, "non-bit"
	}
	return c, nil
}

func newSumCase(shares uint8, max uint64, ctx []byte) (*icase, *buildErr) {
	I, be := build(func() (inst, error) {
		cc := append([]byte{}, ctx...)
		s, err := sum.New(shares, max, cc)
		scribble(cc) // the constructor must not keep the caller's context slice
		if err != nil {
			return nil, err
		}
		return newAdapter("sum", 8, s), nil
	})
	if be != nil {
		return nil, be
	}
	nb := bits.Len64(max)
	var offset uint64
	if nb < 64 {
		offset = (uint64(1) << uint(nb)) - 1 - max
	}
	c := &icase{I: I, algID: 2, ctx: ctx, name: "sum", desc: fmt.Sprintf("sum(shares=%d,max=%d)", shares, max), shares: int(shares), scalar: true}
	c.genMeas = func(t *rapid.T, label string) (any, bool) {
		switch pick(t, 6, label+".k") {
		case 0:
			return uint64(0), true
		case 1:
			return max, true
		case 2:
			return min(uint64(1), max), max <= 1
		default:
			v := rapid.Uint64Range(0, max).Draw(t, label)
			return v, v == 0 || v == max
		}
	}
	c.encode = func(m any) []*big.Int {
		v := m.(uint64)
		return append(bitsOf(v, nb), bitsOf(v+offset, nb)...)
	}
	c.output = func(m any) []*big.Int { return []*big.Int{bi(m.(uint64))} }
	c.genInvalidMeas = func(t *rapid.T) (any, string) {
		cands := []uint64{max + 1, max + 2, ^uint64(0), uint64(1)<<uint(nb) - 1, uint64(1) << uint(nb%64), uint64(1)<<uint(nb%64) + 1, 1 << 63}
		k := rapid.IntRange(0, len(cands)).Draw(t, "inv.k")
		var v uint64
		if k == len(cands) {
			v = rapid.Uint64Range(max+1, ^uint64(0)).Draw(t, "inv.v")
		} else {
			v = cands[k]
		}
		if v <= max {
			v = max + 1
		}
		lbl := "above-2^bits"
		if bits.Len64(v) <= nb {
			lbl = "in-(max,2^bits)"
		}
		return v, lbl
	}
	c.genEdit = func(t *rapid.T, m any) ([]edit, string) {
		v := m.(uint64)
		if nb == 0 {
			return nil, "n/a" // no element to edit
		}
		k := pick(t, 4, "sum.ek")
		if k == 0 && max != uint64(1)<<uint(nb)-1 {
			// out-of-range sum with every entry a bit: a' in (max, 2^bits),
			// reported b' = (a'+offset) mod 2^bits
			a := rapid.Uint64Range(max+1, uint64(1)<<uint(nb)-1).Draw(t, "sum.a")
			b := (a + offset) & (uint64(1)<<uint(nb) - 1)
			var e []edit
			for i, x := range append(bitsOf(a, nb), bitsOf(b, nb)...) {
				e = append(e, edit{i, x})
			}
			return e, "out-of-range-sum(all-bits)"
		}
		if k == 1 {
			// flip one bit of a or of b only: entries stay bits, range check breaks
			i := idxBiased(t, 2*nb, nb, "sum.flip")
			cur := c.encode(v)[i]
			return []edit{{i, bi(1 - cur.Uint64())}}, "range-check-mismatch(all-bits)"
		}
		i := idxBiased(t, 2*nb, nb, "sum.nb")
		return []edit{{i, nonBit(t, p64, "sum")}}, "non-bit"
	}
	return c, nil
}

func newSumVecCase(shares uint8, length, nbits, chunk uint, ctx []byte) (*icase, *buildErr) {
	I, be := build(func() (inst, error) {
		cc := append([]byte{}, ctx...)
		s, err := sumvec.New(shares, length, nbits, chunk, cc)
		scribble(cc) // the constructor must not keep the caller's context slice
		if err != nil {
			return nil, err
		}
		return newAdapter("sumvec", 16, s), nil
	})
	if be != nil {
		return nil, be
	}
	var maxv uint64 = ^uint64(0)
	if nbits < 64 {
		maxv = uint64(1)<<nbits - 1
	}
	c := &icase{I: I, algID: 3, ctx: ctx, name: "sumvec", desc: fmt.Sprintf("sumvec(shares=%d,len=%d,bits=%d,chunk=%d)", shares, length, nbits, chunk), shares: int(shares), chunk: int(chunk), checked: int(length * nbits)}
	hot := -1 // one position per batch that collects maximal entries (drives its sum across 2^64 for wide entries)
	c.genMeas = func(t *rapid.T, label string) (any, bool) {
		v := make([]uint64, length)
		if hot < 0 {
			hot = pick(t, int(length), "hotpos")
		}
		k := pick(t, 7, label+".k")
		ext := false
		switch k {
		case 5, 6:
			v[hot] = maxv
			if k == 6 {
				for i := range v {
					if i != hot {
						v[i] = rapid.Uint64Range(0, maxv>>4).Draw(t, label+".small")
					}
				}
			}
			ext = true
		case 0:
			ext = true
		case 1:
			for i := range v {
				v[i] = maxv
			}
			ext = true
		default:
			for i := range v {
				switch pick(t, 4, label+".ek") {
				case 0:
					v[i] = 0
				case 1:
					v[i] = maxv
					ext = true
				default:
					v[i] = rapid.Uint64Range(0, maxv).Draw(t, label+".e")
				}
			}
		}
		return v, ext
	}
	c.encode = func(m any) []*big.Int {
		var o []*big.Int
		for _, x := range m.([]uint64) {
			o = append(o, bitsOf(x, int(nbits))...)
		}
		return o
	}
	c.output = func(m any) []*big.Int {
		var o []*big.Int
		for _, x := range m.([]uint64) {
			o = append(o, bi(x))
		}
		return o
	}
	c.genInvalidMeas = func(t *rapid.T) (any, string) {
		k := pick(t, 3, "inv.k")
		if k == 0 || nbits == 64 {
			n := int(length) + 1
			if rapid.Bool().Draw(t, "inv.short") {
				n = int(length) - 1
			}
			return make([]uint64, n), "wrong-length"
		}
		v := make([]uint64, length)
		i := pickFrom(t, []int{0, int(length) - 1, rapid.IntRange(0, int(length)-1).Draw(t, "inv.i")}, "inv.pos")
		if k == 1 {
			v[i] = uint64(1)<<nbits + uint64(pick(t, 2, "inv.d"))
		} else {
			v[i] = rapid.Uint64Range(uint64(1)<<nbits, ^uint64(0)).Draw(t, "inv.v")
		}
		return v, "entry>=2^bits"
	}
	c.genEdit = func(t *rapid.T, m any) ([]edit, string) {
		n := int(length * nbits)
		if n == 0 {
			return nil, "n/a"
		}
		i := idxBiased(t, n, int(chunk), "sv")
		return []edit{{i, nonBit(t, p128, "sv")}}, "non-bit"
	}
	return c, nil
}

func newHistogramCase(shares uint8, length, chunk uint, ctx []byte) (*icase, *buildErr) {
	I, be := build(func() (inst, error) {
		cc := append([]byte{}, ctx...)
		h, err := histogram.New(shares, length, chunk, cc)
		scribble(cc) // the constructor must not keep the caller's context slice
		if err != nil {
			return nil, err
		}
		return newAdapter("histogram", 16, h), nil
	})
	if be != nil {
		return nil, be
	}
	c := &icase{I: I, algID: 4, ctx: ctx, name: "histogram", desc: fmt.Sprintf("histogram(shares=%d,len=%d,chunk=%d)", shares, length, chunk), shares: int(shares), chunk: int(chunk), checked: int(length)}
	c.genMeas = func(t *rapid.T, label string) (any, bool) {
		switch pick(t, 4, label+".k") {
		case 0:
			return uint64(0), true
		case 1:
			return uint64(length - 1), true
		default:
			v := rapid.Uint64Range(0, uint64(length-1)).Draw(t, label)
			return v, v == 0 || v == uint64(length-1)
		}
	}
	c.encode = func(m any) []*big.Int {
		o := make([]*big.Int, length)
		for i := range o {
			o[i] = bi(0)
		}
		o[m.(uint64)] = bi(1)
		return o
	}
	c.output = c.encode
	c.genInvalidMeas = func(t *rapid.T) (any, string) {
		switch pick(t, 4, "inv.k") {
		case 0:
			return uint64(length), "bucket==length"
		case 1:
			return uint64(length) + 1 + uint64(pick(t, 2, "inv.d")), "bucket>length"
		case 2:
			return ^uint64(0), "bucket>length"
		default:
			return rapid.Uint64Range(uint64(length)+1, ^uint64(0)).Draw(t, "inv.v"), "bucket>length"
		}
	}
	c.genEdit = func(t *rapid.T, m any) ([]edit, string) {
		hot := int(m.(uint64))
		n := int(length)
		k := pick(t, 4, "h.ek")
		if n == 1 {
			if k == 0 {
				return []edit{{0, bi(0)}}, "zero-hot"
			}
			return []edit{{0, nonBit(t, p128, "h")}}, "non-bit"
		}
		other := func(label string) int {
			j := idxBiased(t, n-1, int(chunk), label)
			if j >= hot {
				j++
			}
			return j
		}
		switch k {
		case 0:
			return []edit{{other("h.two"), bi(1)}}, "two-hot"
		case 1:
			return []edit{{hot, bi(0)}}, "zero-hot"
		case 2:
			// the entries still add up to one, but two of them are not bits
			j := other("h.mv")
			d := nonBit(t, p128, "h.d")
			a := new(big.Int).Add(bi(1), d)
			a.Mod(a, p128)
			b := new(big.Int).Sub(p128, d)
			return []edit{{hot, a}, {j, b}}, "sum-preserving-non-bits"
		default:
			return []edit{{idxBiased(t, n, int(chunk), "h.nb"), nonBit(t, p128, "h")}}, "non-bit"
		}
	}
	return c, nil
}

func newMhcvCase(shares uint8, length, maxW, chunk uint, ctx []byte) (*icase, *buildErr) {
	I, be := build(func() (inst, error) {
		cc := append([]byte{}, ctx...)
		m, err := mhcv.New(shares, length, maxW, chunk, cc)
		scribble(cc) // the constructor must not keep the caller's context slice
		if err != nil {
			return nil, err
		}
		return newAdapter("mhcv", 16, m), nil
	})
	if be != nil {
		return nil, be
	}
	nb := bits.Len64(uint64(maxW))
	offset := (uint64(1) << uint(nb)) - 1 - uint64(maxW)
	c := &icase{I: I, algID: 5, ctx: ctx, name: "mhcv", desc: fmt.Sprintf("mhcv(shares=%d,len=%d,maxw=%d,chunk=%d)", shares, length, maxW, chunk), shares: int(shares), chunk: int(chunk), checked: int(length) + nb}
	withWeight := func(t *rapid.T, w int, label string) []bool {
		v := make([]bool, length)
		perm := rapid.Permutation(seq(int(length))).Draw(t, label+".perm")
		for _, i := range perm[:w] {
			v[i] = true
		}
		return v
	}
	c.genMeas = func(t *rapid.T, label string) (any, bool) {
		switch pick(t, 4, label+".k") {
		case 0:
			return make([]bool, length), true
		case 1:
			return withWeight(t, int(maxW), label), true
		default:
			w := rapid.IntRange(0, int(maxW)).Draw(t, label+".w")
			return withWeight(t, w, label), w == 0 || w == int(maxW)
		}
	}
	weight := func(v []bool) uint64 {
		var w uint64
		for _, b := range v {
			if b {
				w++
			}
		}
		return w
	}
	c.output = func(m any) []*big.Int {
		var o []*big.Int
		for _, b := range m.([]bool) {
			if b {
				o = append(o, bi(1))
			} else {
				o = append(o, bi(0))
			}
		}
		return o
	}
	c.encode = func(m any) []*big.Int {
		return append(c.output(m), bitsOf(offset+weight(m.([]bool)), nb)...)
	}
	c.genInvalidMeas = func(t *rapid.T) (any, string) {
		if maxW < length && rapid.Bool().Draw(t, "inv.w") {
			w := rapid.IntRange(int(maxW)+1, int(length)).Draw(t, "inv.weight")
			if pick(t, 2, "inv.w.edge") == 0 {
				w = int(maxW) + 1
			}
			return withWeight(t, w, "inv"), "weight>max"
		}
		n := int(length) + 1
		if rapid.Bool().Draw(t, "inv.short") {
			n = int(length) - 1
		}
		return make([]bool, n), "wrong-length"
	}
	c.genEdit = func(t *rapid.T, m any) ([]edit, string) {
		v := m.([]bool)
		w := int(weight(v))
		n := int(length)
		k := pick(t, 4, "m.ek")
		if k <= 1 && maxW < length {
			// raise the weight above the maximum by setting further entries
			tgt := rapid.IntRange(int(maxW)+1, n).Draw(t, "m.tw")
			var e []edit
			for i := 0; i < n && w < tgt; i++ {
				if !v[i] {
					e = append(e, edit{i, bi(1)})
					w++
				}
			}
			if k == 0 {
				return e, "weight>max(claimed-weight-unchanged)"
			}
			rep := (offset + uint64(tgt)) & (uint64(1)<<uint(nb) - 1)
			for i, x := range bitsOf(rep, nb) {
				e = append(e, edit{n + i, x})
			}
			return e, "weight>max(claimed-weight-wrapped,all-bits)"
		}
		if k == 2 && nb > 0 {
			// claimed weight differs from the true one
			i := n + rapid.IntRange(0, nb-1).Draw(t, "m.wb")
			cur := c.encode(m)[i]
			return []edit{{i, bi(1 - cur.Uint64())}}, "claimed-weight-mismatch(all-bits)"
		}
		return []edit{{idxBiased(t, n+nb, int(chunk), "m.nb"), nonBit(t, p128, "m")}}, "non-bit"
	}
	return c, nil
}

// pick is a uniform choice in [0,n): rapid's own integer generators favour
// small values, which starves the later alternatives of a switch.
func pick(t *rapid.T, n int, label string) int {
	// rapid draws small numbers again and again; salting with the label keeps
	// the favourite draws from mapping to the same alternative everywhere
	x := rapid.Uint64().Draw(t, label) + 0x9e3779b97f4a7c15 + vlib.Hash64([]byte(label))
	x ^= x >> 33
	x *= 0xff51afd7ed558ccd
	x ^= x >> 33
	x *= 0xc4ceb9fe1a85ec53
	x ^= x >> 33
	return int(x % uint64(n))
}

func pickFrom[T any](t *rapid.T, xs []T, label string) T { return xs[pick(t, len(xs), label)] }

func seq(n int) []int {
	o := make([]int, n)
	for i := range o {
		o[i] = i
	}
	return o
}

// ---------------------------------------------------------------------------
// parameter generators (admissible parameters only)

var sumBounds = []uint64{1, 2, 255, 1 << 32, 1 << 62, 1<<63 - 1}

func drawShares(t *rapid.T) uint8 {
	switch pick(t, 20, "shares.k") {
	case 0, 1, 2, 3, 4, 5, 6, 7:
		return 2
	case 8, 9, 10, 11, 12, 13:
		return 3
	case 14, 15, 16:
		return 16
	default:
		return uint8(rapid.IntRange(4, 15).Draw(t, "shares"))
	}
}

func drawCtx(t *rapid.T) []byte {
	switch pick(t, 6, "ctx.k") {
	case 0:
		return []byte{}
	case 1:
		return []byte("some application")
	default:
		return vlib.Bytes(t, 1, 40, "ctx")
	}
}

func drawSumBound(t *rapid.T) uint64 {
	switch pick(t, 11, "max.k") {
	case 10:
		return 0 // zero bits: the only valid measurement is 0
	case 0, 1, 2, 3, 4:
		return pickFrom(t, sumBounds, "max")
	case 5, 6:
		k := rapid.IntRange(1, 62).Draw(t, "max.pow")
		d := rapid.IntRange(-1, 1).Draw(t, "max.d")
		v := uint64(int64(uint64(1)<<uint(k)) + int64(d))
		if v == 0 {
			v = 1
		}
		return v
	default:
		k := rapid.IntRange(1, 63).Draw(t, "max.bits")
		return rapid.Uint64Range(uint64(1)<<uint(k-1), uint64(1)<<uint(k)-1).Draw(t, "max.v")
	}
}

func drawChunk(t *rapid.T, total int) uint {
	if total < 1 {
		total = 1
	}
	switch pick(t, 8, "chunk.k") {
	case 0:
		return 1
	case 1:
		return uint(total)
	case 2:
		return uint(total + rapid.IntRange(1, 5).Draw(t, "chunk.over"))
	case 3:
		// about sqrt(total), the recommended choice
		r := 1
		for r*r < total {
			r++
		}
		return uint(r)
	default:
		return uint(rapid.IntRange(1, total+1).Draw(t, "chunk"))
	}
}

func drawCase(t *rapid.T, name string, shares uint8, large bool) (*icase, *buildErr, string) {
	ctx := drawCtx(t)
	switch name {
	case "count":
		c, be := newCountCase(shares, ctx)
		return c, be, fmt.Sprintf("count.New(%d,ctx)", shares)
	case "sum":
		max := drawSumBound(t)
		c, be := newSumCase(shares, max, ctx)
		return c, be, fmt.Sprintf("sum.New(%d,%d,ctx)", shares, max)
	case "sumvec":
		maxTotal := 160
		if large {
			maxTotal = 800
		}
		if shares > 16 {
			maxTotal = 48
		}
		nb := pickFrom(t, []int{1, 1, 2, 3, 8, 16, 32, 63, 64, -1, -1, 0}, "bits")
		if nb < 0 {
			nb = rapid.IntRange(1, 64).Draw(t, "bits.v")
		}
		nbits := uint(nb) // 0 bits: every entry is 0
		ml := maxTotal / max(nb, 1)
		if ml < 1 {
			ml = 1
		}
		if ml > 24 {
			ml = 24
		}
		length := uint(rapid.IntRange(1, ml).Draw(t, "length"))
		chunk := drawChunk(t, int(length*nbits))
		c, be := newSumVecCase(shares, length, nbits, chunk, ctx)
		return c, be, fmt.Sprintf("sumvec.New(%d,%d,%d,%d,ctx)", shares, length, nbits, chunk)
	case "histogram":
		ml := 48
		if large {
			ml = 300
		}
		length := uint(rapid.IntRange(1, ml).Draw(t, "length"))
		chunk := drawChunk(t, int(length))
		c, be := newHistogramCase(shares, length, chunk, ctx)
		return c, be, fmt.Sprintf("histogram.New(%d,%d,%d,ctx)", shares, length, chunk)
	default:
		ml := 40
		if large {
			ml = 200
		}
		length := uint(rapid.IntRange(1, ml).Draw(t, "length"))
		var maxW uint
		switch pick(t, 5, "maxw.k") {
		case 4:
			maxW = 0 // zero bits: only the all-false vector is valid
		case 0:
			maxW = 1
		case 1:
			maxW = length
		default:
			maxW = uint(rapid.IntRange(1, int(length)).Draw(t, "maxw"))
		}
		nb := bits.Len64(uint64(maxW))
		chunk := drawChunk(t, int(length)+nb)
		c, be := newMhcvCase(shares, length, maxW, chunk, ctx)
		return c, be, fmt.Sprintf("mhcv.New(%d,%d,%d,%d,ctx)", shares, length, maxW, chunk)
	}
}
