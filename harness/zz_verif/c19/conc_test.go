//go:build verif

package c19

import (
	"bytes"
	"crypto/sha256"
	"fmt"
	"math/big"
	"sync"
	"testing"

	"github.com/cloudflare/circl/zz_verif/vlib"
)

// ---------------------------------------------------------------------------
// concurrent use: K goroutines run whole report pipelines at once, most with
// their own instance object (all five types, different parameters), some
// sharing one instance object with every call made under a lock (the types
// are not documented as safe for concurrent use; serialised sharing is the
// use a caller may rely on). Every marshalled message, every accept / reject
// decision and every aggregate must equal what the same deterministic inputs
// give when the jobs run one after the other.

type concJob struct {
	name  string
	mk    func() (*icase, *buildErr)
	ms    []any
	base  uint64
	share int // jobs with the same share > 0 use one instance object
}

type concResult struct {
	transcript [32]byte
	log        []string
	agg        any
	aggErr     string
	accepted   int
	err        error // harness-level violation
}

// lockedInst serialises the calls on a shared instance.
type lockedInst struct {
	inst
	mu *sync.Mutex
}

func (l lockedInst) Shard(m any, nonce *Nonce, rand []byte) ([]byte, [][]byte, error) {
	l.mu.Lock()
	defer l.mu.Unlock()
	return l.inst.Shard(m, nonce, rand)
}

func (l lockedInst) PrepInit(vk *VerifyKey, nonce *Nonce, id uint8, pub, in []byte) ([]byte, []byte, error) {
	l.mu.Lock()
	defer l.mu.Unlock()
	return l.inst.PrepInit(vk, nonce, id, pub, in)
}

func (l lockedInst) PrepSharesToPrep(pss [][]byte) ([]byte, error) {
	l.mu.Lock()
	defer l.mu.Unlock()
	return l.inst.PrepSharesToPrep(pss)
}

func (l lockedInst) PrepNext(st, msg []byte) ([]byte, error) {
	l.mu.Lock()
	defer l.mu.Unlock()
	return l.inst.PrepNext(st, msg)
}

func (l lockedInst) AggInit() ([]byte, error) {
	l.mu.Lock()
	defer l.mu.Unlock()
	return l.inst.AggInit()
}

func (l lockedInst) AggUpdate(agg, out []byte) ([]byte, error) {
	l.mu.Lock()
	defer l.mu.Unlock()
	return l.inst.AggUpdate(agg, out)
}

func (l lockedInst) Unshard(aggs [][]byte, n uint) (any, error) {
	l.mu.Lock()
	defer l.mu.Unlock()
	return l.inst.Unshard(aggs, n)
}

// runJob: every valid measurement as an honest report, and after each of them
// the same report once more with one element of the leader's proof share
// changed and once with the nonce changed at aggregator 0.
func runJob(I inst, j *concJob) (res concResult) {
	l := I.L()
	h := sha256.New()
	put := func(tag string, bs ...[]byte) {
		h.Write([]byte(tag))
		for _, b := range bs {
			h.Write([]byte{byte(len(b)), byte(len(b) >> 8), byte(len(b) >> 16)})
			h.Write(b)
		}
	}
	var vk VerifyKey
	vlib.ExpandInto(vk[:], j.base)
	aggs := make([][]byte, l.shares)
	var err error
	for i := range aggs {
		if aggs[i], err = I.AggInit(); err != nil {
			res.err = err
			return
		}
	}
	for k, m := range j.ms {
		r := &report{m: m, rand: make([]byte, l.randSize)}
		vlib.ExpandInto(r.rand, j.base+uint64(3*k)+1)
		vlib.ExpandInto(r.nonce[:], j.base+uint64(3*k)+2)
		if r.pub, r.ins, err = I.Shard(m, &r.nonce, r.rand); err != nil {
			if _, hv := classify(err); hv != nil {
				res.err = err
				return
			}
			res.log = append(res.log, fmt.Sprintf("report %d: Shard: %v", k, err))
			put("shard-error", []byte(err.Error()))
			continue
		}
		put("shard", append([][]byte{r.pub}, r.ins...)...)
		views := []*view{honestView(I, r)}
		// altered proof element (last element of the proof share)
		if l.proofLen > 0 {
			v := honestView(I, r)
			b := cp(r.ins[0])
			idx := l.measLen + l.proofLen - 1
			x := getElt(b, idx, l.fs)
			x.Add(x, big.NewInt(1)).Mod(x, l.p)
			putElt(b, idx, l.fs, x)
			v.ins[0] = b
			views = append(views, v)
		}
		{
			v := honestView(I, r)
			v.nonces[0][3] ^= 0x40
			views = append(views, v)
		}
		for vi, v := range views {
			o := process(I, &vk, v)
			if o.viol != nil {
				res.err = o.viol
				return
			}
			put(fmt.Sprintf("report-%d-%d accepted=%v stage=%s", k, vi, o.accepted, o.stage), o.pss...)
			put("msg", o.msg)
			put("outs", o.outs...)
			res.log = append(res.log, fmt.Sprintf("report %d view %d: accepted=%v stage=%s err=%v", k, vi, o.accepted, o.stage, o.err))
			if vi == 0 {
				if !o.accepted {
					continue
				}
				res.accepted++
				for i := range aggs {
					if aggs[i], err = I.AggUpdate(aggs[i], o.outs[i]); err != nil {
						res.err = err
						return
					}
				}
			}
		}
	}
	put("aggs", aggs...)
	res.agg, err = I.Unshard(aggs, uint(res.accepted))
	if err != nil {
		if _, hv := classify(err); hv != nil {
			res.err = err
			return
		}
		res.aggErr = err.Error()
	}
	put(fmt.Sprintf("agg %v %s", res.agg, res.aggErr))
	copy(res.transcript[:], h.Sum(nil))
	return
}

func concJobs(seed uint64) []*concJob {
	ctx := []byte("concurrent")
	var jobs []*concJob
	add := func(name string, share int, mk func() (*icase, *buildErr), ms ...any) {
		jobs = append(jobs, &concJob{name: name, mk: mk, ms: ms, base: seed*1_000_003 + uint64(len(jobs))*97, share: share})
	}
	add("count/2", 0, func() (*icase, *buildErr) { return newCountCase(2, ctx) }, true, false, true)
	add("count/3", 0, func() (*icase, *buildErr) { return newCountCase(3, ctx) }, false, true)
	add("sum/255", 0, func() (*icase, *buildErr) { return newSumCase(2, 255, ctx) }, uint64(0), uint64(255), uint64(100))
	add("sum/2^62", 0, func() (*icase, *buildErr) { return newSumCase(3, 1<<62, ctx) }, uint64(1)<<62, uint64(12345))
	add("sumvec/10x8/9", 0, func() (*icase, *buildErr) { return newSumVecCase(2, 10, 8, 9, ctx) }, []uint64{1, 2, 3, 4, 5, 6, 7, 8, 9, 255}, make([]uint64, 10))
	add("sumvec/3x16/7", 0, func() (*icase, *buildErr) { return newSumVecCase(3, 3, 16, 7, ctx) }, []uint64{65535, 0, 1}, []uint64{7, 8, 9})
	add("sumvec/40x3/5", 0, func() (*icase, *buildErr) { return newSumVecCase(2, 40, 3, 5, ctx) }, func() []uint64 { v := make([]uint64, 40); v[39] = 7; v[0] = 1; return v }())
	add("histogram/100/10", 0, func() (*icase, *buildErr) { return newHistogramCase(2, 100, 10, ctx) }, uint64(0), uint64(99), uint64(42))
	add("histogram/11/3", 0, func() (*icase, *buildErr) { return newHistogramCase(3, 11, 3, ctx) }, uint64(2), uint64(10))
	add("histogram/64/1", 0, func() (*icase, *buildErr) { return newHistogramCase(2, 64, 1, ctx) }, uint64(63))
	add("mhcv/10/2/3", 0, func() (*icase, *buildErr) { return newMhcvCase(4, 10, 2, 3, ctx) }, []bool{true, false, false, false, false, false, false, false, false, true}, make([]bool, 10))
	add("mhcv/30/7/4", 0, func() (*icase, *buildErr) { return newMhcvCase(2, 30, 7, 4, ctx) }, func() []bool { v := make([]bool, 30); v[0], v[29], v[7] = true, true, true; return v }())
	// three goroutines share one Histogram object, three one Sum object, two one SumVec object
	for g := 0; g < 3; g++ {
		add("shared-histogram/20/4", 1, func() (*icase, *buildErr) { return newHistogramCase(2, 20, 4, ctx) }, uint64(g), uint64(19-g))
		add("shared-sum/1000", 2, func() (*icase, *buildErr) { return newSumCase(2, 1000, ctx) }, uint64(g*300), uint64(1000))
	}
	for g := 0; g < 2; g++ {
		add("shared-sumvec/6x4/5", 3, func() (*icase, *buildErr) { return newSumVecCase(3, 6, 4, 5, ctx) }, []uint64{uint64(g), 15, 0, 1, 2, 3})
	}
	return jobs
}

func TestC19Concurrent(t *testing.T) {
	defer vlib.Done()
	sub := "concurrent"
	rounds := vlib.N(40, 120)
	for round := 0; round < rounds; round++ {
		jobs := concJobs(uint64(vlib.Seed)*131 + uint64(round) + uint64(vlib.Shard)*1009)
		// sequential reference, every job on its own fresh instance
		want := make([]concResult, len(jobs))
		cases := make([]*icase, len(jobs))
		for i, j := range jobs {
			c, be := j.mk()
			if be != nil {
				t.Fatalf("%s: constructor: %v %v", j.name, be.err, be.panicked)
			}
			cases[i] = c
			p, st := vlib.Catch(func() { want[i] = runJob(c.I, j) })
			replay := map[string]interface{}{"job": j.name, "round": round, "seed": vlib.Seed}
			if p != nil {
				vlib.ReportDirect(t, "C19/panic/"+c.name+"/sequential/"+vlib.PanicClass(p), fmt.Sprintf("%s: %v\n%s", j.name, p, st), replay)
				return
			}
			if want[i].err != nil {
				_, hv := classify(want[i].err)
				if hv != nil {
					vlib.ReportDirect(t, hv.key, j.name+": "+hv.detail, replay)
				} else {
					vlib.ReportDirect(t, "C19/marshal/"+c.name+"/sequential", fmt.Sprintf("%s: %v", j.name, want[i].err), replay)
				}
				return
			}
			// the sequential run itself against the model
			var exp []*big.Int
			for _, m := range j.ms {
				exp = addVec(exp, c.output(m))
			}
			if eq, _ := aggEqual(c, want[i].agg, exp); !eq || want[i].accepted != len(j.ms) {
				vlib.ReportDirect(t, "C19/aggregate/"+c.name+"/mismatch", fmt.Sprintf("%s (sequential): accepted %d of %d, Unshard = %v %s, want %s\n%v", j.name, want[i].accepted, len(j.ms), want[i].agg, want[i].aggErr, fmtVec(exp), want[i].log), replay)
				return
			}
		}
		// concurrent: fresh instances; jobs of one share group get the same object behind a lock
		insts := make([]inst, len(jobs))
		shared := map[int]inst{}
		for i, j := range jobs {
			if j.share > 0 {
				if s, ok := shared[j.share]; ok {
					insts[i] = s
					continue
				}
			}
			c, be := j.mk()
			if be != nil {
				t.Fatalf("%s: constructor: %v %v", j.name, be.err, be.panicked)
			}
			insts[i] = c.I
			if j.share > 0 {
				insts[i] = lockedInst{c.I, new(sync.Mutex)}
				shared[j.share] = insts[i]
			}
		}
		got := make([]concResult, len(jobs))
		panics := make([]string, len(jobs))
		var wg sync.WaitGroup
		start := make(chan struct{})
		for i := range jobs {
			wg.Add(1)
			go func(i int) {
				defer wg.Done()
				<-start
				if p, st := vlib.Catch(func() { got[i] = runJob(insts[i], jobs[i]) }); p != nil {
					panics[i] = fmt.Sprintf("%v\n%s", p, st)
				}
			}(i)
		}
		close(start)
		wg.Wait()
		for i, j := range jobs {
			c := cases[i]
			vlib.Eval(sub)
			kind := "own-instance"
			if j.share > 0 {
				kind = "shared-instance(locked)"
			}
			replay := map[string]interface{}{"job": j.name, "round": round, "seed": vlib.Seed, "goroutines": len(jobs)}
			switch {
			case panics[i] != "":
				vlib.ReportDirect(t, "C19/concurrent/"+c.name+"/panic", fmt.Sprintf("%s (%s, %d goroutines): %s", j.name, kind, len(jobs), panics[i]), replay)
			case got[i].err != nil:
				key := "C19/concurrent/" + c.name + "/harness"
				if _, hv := classify(got[i].err); hv != nil {
					key = hv.key
				}
				vlib.ReportDirect(t, key, fmt.Sprintf("%s (%s, %d goroutines at once): %v", j.name, kind, len(jobs), got[i].err), replay)
			case !bytes.Equal(got[i].transcript[:], want[i].transcript[:]) || fmt.Sprint(got[i].agg) != fmt.Sprint(want[i].agg):
				vlib.ReportDirect(t, "C19/concurrent/"+c.name+"/differs-from-sequential",
					fmt.Sprintf("%s (%s) run at once with %d other pipelines: messages / decisions / aggregate differ from the sequential run with the same inputs.\nsequential: %v → %v %s\nconcurrent: %v → %v %s",
						j.name, kind, len(jobs)-1, want[i].log, want[i].agg, want[i].aggErr, got[i].log, got[i].agg, got[i].aggErr), replay)
			default:
				vlib.NonTrivial(sub, kind+"/"+c.name, []byte(j.name), want[i].transcript[:])
			}
		}
		if t.Failed() {
			return
		}
	}
}
