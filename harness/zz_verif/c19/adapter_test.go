//go:build verif

package c19

import (
	"bytes"
	"encoding"
	"errors"
	"fmt"
	"math/big"

	"github.com/cloudflare/circl/vdaf/prio3/count"
)

// The five packages alias the same internal types for these.
type (
	Nonce       = count.Nonce
	VerifyKey   = count.VerifyKey
	PrepMessage = count.PrepMessage
	PublicShare = count.PublicShare
)

const seedSize = 32

var (
	// 2^64 - 2^32 + 1 and 2^66 * 4611686018427387897 + 1 (draft-irtf-cfrg-vdaf-13, Table 3)
	p64, _  = new(big.Int).SetString("18446744069414584321", 10)
	p128, _ = new(big.Int).SetString("340282366920938462946865773367900766209", 10)
	two64   = new(big.Int).Lsh(big.NewInt(1), 64)
)

// api is the common shape of the five exported instance types; all type
// parameters are inferred from the concrete value, so the internal package is
// never named.
type api[M, A, AS, IS, OS, PS, ST, PP any] interface {
	Params() PP
	Shard(M, *Nonce, []byte) (PublicShare, []IS, error)
	PrepInit(*VerifyKey, *Nonce, uint8, PublicShare, IS) (*ST, *PS, error)
	PrepSharesToPrep([]PS) (*PrepMessage, error)
	PrepNext(*ST, *PrepMessage) (*OS, error)
	AggregateInit() AS
	AggregateUpdate(*AS, *OS)
	Unshard([]AS, uint) (*A, error)
}

type paramLens interface {
	JointRandLength() uint
	MeasurementLength() uint
	OutputLength() uint
	ProofLength() uint
	VerifierLength() uint
	RandSize() uint
	Shares() uint8
}

// layout describes the wire format of one configured instance
// (draft-irtf-cfrg-vdaf-13 §7.2.7 message serialisation).
type layout struct {
	name     string
	shares   int
	fs       int // encoded field element size
	p        *big.Int
	measLen  int
	proofLen int
	verLen   int
	outLen   int
	randSize int
	jr       bool
}

func (l *layout) leaderLen() int {
	n := (l.measLen + l.proofLen) * l.fs
	if l.jr {
		n += seedSize
	}
	return n
}

func (l *layout) helperLen() int {
	if l.jr {
		return 2 * seedSize
	}
	return seedSize
}

func (l *layout) prepShareLen() int {
	n := l.verLen * l.fs
	if l.jr {
		n += seedSize
	}
	return n
}

// inst is the byte-level view of an instance: every message crosses the
// boundary in its marshalled form, so each step exercises unmarshal∘marshal.
type inst interface {
	L() *layout
	Shard(m any, nonce *Nonce, rand []byte) (pub []byte, ins [][]byte, err error)
	PrepInit(vk *VerifyKey, nonce *Nonce, id uint8, pub, in []byte) (st, ps []byte, err error)
	PrepSharesToPrep(pss [][]byte) ([]byte, error)
	PrepNext(st, msg []byte) ([]byte, error)
	AggInit() ([]byte, error)
	AggUpdate(agg, out []byte) ([]byte, error)
	Unshard(aggs [][]byte, n uint) (any, error)
	// Direct runs a whole honest batch on the Go values without any
	// marshalling and returns the aggregate.
	Direct(vk *VerifyKey, ms []any, nonces []Nonce, rands [][]byte) (mid, final any, err error)
	// SetRepeat makes every operation run twice on the same operands; the
	// two results must be equal.
	SetRepeat(on bool)
	Soft() []*harnessViol
	// Pipeline runs the per-report steps of several reports on this one
	// instance in the given interleaving, on the Go values (nothing is
	// marshalled between the steps except for snapshots).
	Pipeline(vk *VerifyKey, reps []pipeReport, schedule []int) (accepted []bool, agg any, err error)
	// Decode unmarshals b as message type typ (for an input share of
	// aggregator id) and checks the re-marshal identity.
	Decode(typ string, b []byte, id uint) error
}

// decodeErr: UnmarshalBinary refused the bytes.
type decodeErr struct {
	typ string
	err error
}

func (e *decodeErr) Error() string { return "decode " + e.typ + ": " + e.err.Error() }

// opErr: the protocol step itself returned an error.
type opErr struct {
	op  string
	err error
}

func (e *opErr) Error() string { return e.op + ": " + e.err.Error() }

// harnessViol: an oracle of the byte-level adapter failed (marshal identity).
type harnessViol struct{ key, detail string }

func (e *harnessViol) Error() string { return e.key + ": " + e.detail }

type adapter[P api[M, A, AS, IS, OS, PS, ST, PP], M, A, AS, IS, OS, PS, ST, PP any] struct {
	v      P
	pp     PP
	l      layout
	repeat bool // call every operation twice and compare
	soft   []*harnessViol
}

func newAdapter[P api[M, A, AS, IS, OS, PS, ST, PP], M, A, AS, IS, OS, PS, ST, PP any](name string, fs int, v P) inst {
	a := &adapter[P, M, A, AS, IS, OS, PS, ST, PP]{v: v, pp: v.Params()}
	pl, ok := any(&a.pp).(paramLens)
	if !ok {
		panic("Params() lacks the length accessors")
	}
	a.l = layout{
		name: name, shares: int(pl.Shares()), fs: fs,
		measLen: int(pl.MeasurementLength()), proofLen: int(pl.ProofLength()),
		verLen: int(pl.VerifierLength()), outLen: int(pl.OutputLength()),
		randSize: int(pl.RandSize()), jr: pl.JointRandLength() > 0,
	}
	if fs == 8 {
		a.l.p = p64
	} else {
		a.l.p = p128
	}
	return a
}

func (a *adapter[P, M, A, AS, IS, OS, PS, ST, PP]) L() *layout { return &a.l }

func newT[T, PP any](pp *PP, extra ...uint) *T {
	y := new(T)
	if yy, ok := any(y).(interface{ New(*PP) *T }); ok {
		yy.New(pp)
	} else if yy, ok := any(y).(interface{ New(*PP, uint) *T }); ok {
		yy.New(pp, extra[0])
	} else {
		panic(fmt.Sprintf("%T has no New(params)", y))
	}
	return y
}

func enc[T any](typ string, x *T) ([]byte, error) {
	b, err := any(x).(encoding.BinaryMarshaler).MarshalBinary()
	if err != nil {
		return nil, &harnessViol{"C19/marshal/" + typ + "/marshal-error", err.Error()}
	}
	return b, nil
}

// dec unmarshals b into a freshly New'd value and checks that re-marshalling
// gives b back (the decoder is canonical: accepted bytes are the encoding).
func dec[T, PP any](pp *PP, typ string, b []byte, extra ...uint) (*T, error) {
	y := newT[T](pp, extra...)
	// The decoder gets its own buffer, which is overwritten as soon as it
	// returns (a caller may reuse its receive buffer): the decoded value must
	// not alias it.
	buf := append(make([]byte, 0, len(b)+8), b...)
	if len(b) == 0 && b == nil {
		buf = nil
	}
	if err := any(y).(encoding.BinaryUnmarshaler).UnmarshalBinary(buf); err != nil {
		return nil, &decodeErr{typ, err}
	}
	scribble(buf)
	b2, err := any(y).(encoding.BinaryMarshaler).MarshalBinary()
	if err != nil {
		return nil, &harnessViol{"C19/marshal/" + typ + "/marshal-error", err.Error()}
	}
	if !bytes.Equal(b, b2) {
		if len(b) == len(b2) && bytes.Equal(b2, buf) {
			return nil, &harnessViol{"C19/marshal/" + typ + "/aliases-input-buffer", fmt.Sprintf("after the source buffer was overwritten the decoded value marshals to the new buffer contents %x instead of %x", b2, b)}
		}
		return nil, &harnessViol{"C19/marshal/" + typ + "/not-identity", fmt.Sprintf("in %x out %x", b, b2)}
	}
	return y, nil
}

// scribble overwrites a buffer the callee must no longer depend on: every
// byte changes (inverted), so any aliasing shows.
func scribble(b []byte) {
	for i := range b {
		b[i] = ^b[i]
	}
}

func cloneMeas(m any) any {
	switch v := m.(type) {
	case []uint64:
		return append([]uint64{}, v...)
	case []bool:
		return append([]bool{}, v...)
	}
	return m
}

func scribbleMeas(m any) {
	switch v := m.(type) {
	case []uint64:
		for i := range v {
			v[i] = ^v[i]
		}
	case []bool:
		for i := range v {
			v[i] = !v[i]
		}
	}
}

// same: the operand x still marshals to before (the call left it unchanged).
func same[T any](inst, op, operand string, x *T, before []byte) error {
	after, err := any(x).(encoding.BinaryMarshaler).MarshalBinary()
	if err != nil {
		return &harnessViol{"C19/operand-modified/" + inst + "/" + op + "/" + operand, "operand no longer marshals: " + err.Error()}
	}
	if !bytes.Equal(before, after) {
		return &harnessViol{"C19/operand-modified/" + inst + "/" + op + "/" + operand, fmt.Sprintf("before the call %x, after it %x", before, after)}
	}
	return nil
}

func notRepeatable(inst, op string, first, second any) error {
	return &harnessViol{"C19/not-repeatable/" + inst + "/" + op, fmt.Sprintf("the same call on the same operands returned %v, then %v", first, second)}
}

func errStr(err error) string {
	if err == nil {
		return "<nil>"
	}
	return err.Error()
}

func (a *adapter[P, M, A, AS, IS, OS, PS, ST, PP]) SetRepeat(on bool) { a.repeat = on }

func (a *adapter[P, M, A, AS, IS, OS, PS, ST, PP]) Decode(typ string, b []byte, id uint) (err error) {
	switch typ {
	case "PublicShare":
		_, err = dec[PublicShare](&a.pp, typ, b)
	case "InputShare":
		_, err = dec[IS](&a.pp, typ, b, id)
	case "PrepShare":
		_, err = dec[PS](&a.pp, typ, b)
	case "PrepState":
		_, err = dec[ST](&a.pp, typ, b)
	case "PrepMessage":
		_, err = dec[PrepMessage](&a.pp, typ, b)
	case "OutShare":
		_, err = dec[OS](&a.pp, typ, b)
	case "AggShare":
		_, err = dec[AS](&a.pp, typ, b)
	default:
		panic("unknown message type " + typ)
	}
	return err
}

// pipeReport is one report of an interleaved history.
type pipeReport struct {
	m      any
	nonce  Nonce
	rand   []byte
	leader []byte // if not nil: the leader's input share is decoded from these (altered) bytes
	stages int    // 3 = run to completion; 1 or 2 = abandoned after PrepInit / PrepSharesToPrep
}

// Pipeline: entry k of schedule advances report schedule[k] by one stage
// (0: Shard + PrepInit at every aggregator, 1: PrepSharesToPrep, 2: PrepNext at
// every aggregator + AggregateUpdate). Every object a report owns (prep states,
// prep shares, prep message) is marshalled when it is created and again right
// before it is used: the steps of the other reports in between must not have
// changed it.
func (a *adapter[P, M, A, AS, IS, OS, PS, ST, PP]) Pipeline(vk *VerifyKey, reps []pipeReport, schedule []int) ([]bool, any, error) {
	n := a.l.shares
	name := a.l.name
	type live struct {
		stage   int
		dead    bool
		sts     []*ST
		pss     []PS
		msg     *PrepMessage
		stSnap  [][]byte
		psSnap  [][]byte
		msgSnap []byte
	}
	lv := make([]live, len(reps))
	accepted := make([]bool, len(reps))
	aggs := make([]AS, n)
	for i := range aggs {
		aggs[i] = a.v.AggregateInit()
	}
	done := uint(0)
	check := func(r *live, what string) error {
		for i := range r.sts {
			if e := same(name, "pipeline", "PrepState", r.sts[i], r.stSnap[i]); e != nil {
				return fmt.Errorf("%w (checked before %s)", e, what)
			}
			if e := same(name, "pipeline", "PrepShare", &r.pss[i], r.psSnap[i]); e != nil {
				return fmt.Errorf("%w (checked before %s)", e, what)
			}
		}
		if r.msg != nil {
			if e := same(name, "pipeline", "PrepMessage", r.msg, r.msgSnap); e != nil {
				return fmt.Errorf("%w (checked before %s)", e, what)
			}
		}
		return nil
	}
	for _, k := range schedule {
		r := &lv[k]
		rep := &reps[k]
		if r.dead || r.stage >= rep.stages {
			continue
		}
		switch r.stage {
		case 0:
			pub, ins, err := a.v.Shard(rep.m.(M), &rep.nonce, rep.rand)
			if err != nil {
				return nil, nil, &opErr{"Shard", err}
			}
			if rep.leader != nil {
				is, err := dec[IS](&a.pp, "InputShare", rep.leader, 0)
				if err != nil {
					r.dead = true
					break
				}
				ins[0] = *is
			}
			r.sts, r.pss = make([]*ST, n), make([]PS, n)
			r.stSnap, r.psSnap = make([][]byte, n), make([][]byte, n)
			for i := 0; i < n && !r.dead; i++ {
				st, ps, err := a.v.PrepInit(vk, &rep.nonce, uint8(i), pub, ins[i])
				if err != nil {
					r.dead = true
					break
				}
				r.sts[i], r.pss[i] = st, *ps
				if r.stSnap[i], err = enc("PrepState", st); err != nil {
					return nil, nil, err
				}
				if r.psSnap[i], err = enc("PrepShare", ps); err != nil {
					return nil, nil, err
				}
			}
			if r.dead {
				r.sts, r.pss = nil, nil
			}
		case 1:
			if err := check(r, "PrepSharesToPrep"); err != nil {
				return nil, nil, err
			}
			msg, err := a.v.PrepSharesToPrep(r.pss)
			if err != nil {
				r.dead = true
				break
			}
			r.msg = msg
			if r.msgSnap, err = enc("PrepMessage", msg); err != nil {
				return nil, nil, err
			}
		case 2:
			if err := check(r, "PrepNext"); err != nil {
				return nil, nil, err
			}
			outs := make([]*OS, n)
			for i := 0; i < n; i++ {
				out, err := a.v.PrepNext(r.sts[i], r.msg)
				if err != nil {
					r.dead = true
					break
				}
				outs[i] = out
			}
			if !r.dead {
				for i := 0; i < n; i++ {
					a.v.AggregateUpdate(&aggs[i], outs[i])
				}
				accepted[k] = true
				done++
			}
		}
		r.stage++
	}
	res, err := a.v.Unshard(aggs, done)
	if err != nil {
		return accepted, nil, &opErr{"Unshard", err}
	}
	return accepted, any(*res), nil
}

// Soft drains the findings that do not stop the run (the adapter went on
// with the values taken before the caller's buffers were overwritten).
func (a *adapter[P, M, A, AS, IS, OS, PS, ST, PP]) Soft() []*harnessViol {
	s := a.soft
	a.soft = nil
	return s
}

func (a *adapter[P, M, A, AS, IS, OS, PS, ST, PP]) Shard(m any, nonce *Nonce, rand []byte) ([]byte, [][]byte, error) {
	if _, ok := m.(M); !ok {
		panic(fmt.Sprintf("measurement %T", m))
	}
	name := a.l.name
	mBefore := fmt.Sprintf("%v", m)
	nBefore, rBefore := *nonce, append([]byte{}, rand...)
	run := func() ([]byte, [][]byte, error) {
		// the callee gets private copies which are overwritten when it returns
		mc := cloneMeas(m)
		nc, rc := *nonce, append([]byte{}, rand...)
		pub, ins, err := a.v.Shard(mc.(M), &nc, rc)
		if fmt.Sprintf("%v", mc) != mBefore || nc != nBefore || !bytes.Equal(rc, rBefore) {
			return nil, nil, &harnessViol{"C19/operand-modified/" + name + "/Shard/inputs", "Shard wrote to its measurement, nonce or randomness"}
		}
		if err != nil {
			return nil, nil, &opErr{"Shard", err}
		}
		if len(ins) != a.l.shares {
			return nil, nil, &harnessViol{"C19/shard/" + name + "/share-count", fmt.Sprintf("%d input shares for %d aggregators", len(ins), a.l.shares)}
		}
		marshalAll := func() ([]byte, [][]byte, error) {
			pb, err := enc("PublicShare", &pub)
			if err != nil {
				return nil, nil, err
			}
			out := make([][]byte, len(ins))
			for i := range ins {
				out[i], err = enc("InputShare", &ins[i])
				if err != nil {
					return nil, nil, err
				}
			}
			return pb, out, nil
		}
		pb, out, err := marshalAll()
		if err != nil {
			return nil, nil, err
		}
		// the caller now reuses (here: overwrites) what it passed in; the
		// returned shares must not depend on those buffers any more
		scribbleMeas(mc)
		scribble(nc[:])
		scribble(rc)
		pb1, out1, err := marshalAll()
		if err != nil {
			return nil, nil, err
		}
		if !bytes.Equal(pb, pb1) || !bytes.Equal(bytes.Join(out, nil), bytes.Join(out1, nil)) {
			what := "input-shares"
			if !bytes.Equal(pb, pb1) {
				what = "public-share"
			}
			return nil, nil, &harnessViol{"C19/aliasing/" + name + "/Shard/" + what,
				"the shares returned by Shard change when the caller overwrites the measurement, nonce and randomness it passed in (they alias the caller's buffers)"}
		}
		return pb, out, nil
	}
	pb, out, err := run()
	if fmt.Sprintf("%v", m) != mBefore || *nonce != nBefore || !bytes.Equal(rand, rBefore) {
		return nil, nil, &harnessViol{"C19/operand-modified/" + name + "/Shard/inputs", "Shard wrote to its measurement, nonce or randomness"}
	}
	if a.repeat {
		pb2, out2, err2 := run()
		if errStr(err) != errStr(err2) || !bytes.Equal(pb, pb2) || !bytes.Equal(bytes.Join(out, nil), bytes.Join(out2, nil)) {
			return nil, nil, notRepeatable(name, "Shard", errStr(err), errStr(err2))
		}
	}
	return pb, out, err
}

func (a *adapter[P, M, A, AS, IS, OS, PS, ST, PP]) PrepInit(vk *VerifyKey, nonce *Nonce, id uint8, pub, in []byte) ([]byte, []byte, error) {
	name := a.l.name
	ps, err := dec[PublicShare](&a.pp, "PublicShare", pub)
	if err != nil {
		return nil, nil, err
	}
	is, err := dec[IS](&a.pp, "InputShare", in, uint(id))
	if err != nil {
		return nil, nil, err
	}
	vkBefore, nBefore := *vk, *nonce
	run := func() ([]byte, []byte, error) {
		vc, nc := *vk, *nonce
		st, sh, err := a.v.PrepInit(&vc, &nc, id, *ps, *is)
		if vc != vkBefore || nc != nBefore {
			return nil, nil, &harnessViol{"C19/operand-modified/" + name + "/PrepInit/key-or-nonce", "PrepInit wrote to the verify key or nonce"}
		}
		if err != nil {
			return nil, nil, &opErr{"PrepInit", err}
		}
		stb, err := enc("PrepState", st)
		if err != nil {
			return nil, nil, err
		}
		shb, err := enc("PrepShare", sh)
		if err != nil {
			return nil, nil, err
		}
		scribble(vc[:])
		scribble(nc[:])
		stb1, err := enc("PrepState", st)
		if err != nil {
			return nil, nil, err
		}
		shb1, err := enc("PrepShare", sh)
		if err != nil {
			return nil, nil, err
		}
		if !bytes.Equal(stb, stb1) || !bytes.Equal(shb, shb1) {
			return nil, nil, &harnessViol{"C19/aliasing/" + name + "/PrepInit/key-or-nonce", "prep state or prep share change when the caller overwrites the verify key and nonce it passed in"}
		}
		return stb, shb, nil
	}
	stb, shb, err := run()
	if *vk != vkBefore || *nonce != nBefore {
		return nil, nil, &harnessViol{"C19/operand-modified/" + name + "/PrepInit/key-or-nonce", "PrepInit wrote to the verify key or nonce"}
	}
	if e := same(name, "PrepInit", "PublicShare", ps, pub); e != nil {
		return nil, nil, e
	}
	if e := same(name, "PrepInit", "InputShare", is, in); e != nil {
		return nil, nil, e
	}
	if a.repeat {
		stb2, shb2, err2 := run()
		if errStr(err) != errStr(err2) || !bytes.Equal(stb, stb2) || !bytes.Equal(shb, shb2) {
			return nil, nil, notRepeatable(name, "PrepInit", errStr(err), errStr(err2))
		}
	}
	return stb, shb, err
}

func (a *adapter[P, M, A, AS, IS, OS, PS, ST, PP]) PrepSharesToPrep(pss [][]byte) ([]byte, error) {
	name := a.l.name
	shares := make([]PS, len(pss))
	for i := range pss {
		s, err := dec[PS](&a.pp, "PrepShare", pss[i])
		if err != nil {
			return nil, err
		}
		shares[i] = *s
	}
	run := func() ([]byte, error) {
		msg, err := a.v.PrepSharesToPrep(shares)
		if err != nil {
			return nil, &opErr{"PrepSharesToPrep", err}
		}
		return enc("PrepMessage", msg)
	}
	mb, err := run()
	for i := range shares {
		if e := same(name, "PrepSharesToPrep", "PrepShare", &shares[i], pss[i]); e != nil {
			return nil, e
		}
	}
	if a.repeat {
		mb2, err2 := run()
		if errStr(err) != errStr(err2) || !bytes.Equal(mb, mb2) {
			return nil, notRepeatable(name, "PrepSharesToPrep", errStr(err), errStr(err2))
		}
	}
	return mb, err
}

func (a *adapter[P, M, A, AS, IS, OS, PS, ST, PP]) PrepNext(st, msg []byte) ([]byte, error) {
	name := a.l.name
	s, err := dec[ST](&a.pp, "PrepState", st)
	if err != nil {
		return nil, err
	}
	m, err := dec[PrepMessage](&a.pp, "PrepMessage", msg)
	if err != nil {
		return nil, err
	}
	run := func() ([]byte, error) {
		out, err := a.v.PrepNext(s, m)
		if err != nil {
			return nil, &opErr{"PrepNext", err}
		}
		return enc("OutShare", out)
	}
	ob, err := run()
	if e := same(name, "PrepNext", "PrepState", s, st); e != nil {
		return nil, e
	}
	if e := same(name, "PrepNext", "PrepMessage", m, msg); e != nil {
		return nil, e
	}
	if a.repeat {
		ob2, err2 := run()
		if errStr(err) != errStr(err2) || !bytes.Equal(ob, ob2) {
			return nil, notRepeatable(name, "PrepNext", errStr(err), errStr(err2))
		}
	}
	return ob, err
}

func (a *adapter[P, M, A, AS, IS, OS, PS, ST, PP]) AggInit() ([]byte, error) {
	s := a.v.AggregateInit()
	b, err := enc("AggShare", &s)
	if err != nil {
		return nil, err
	}
	s2 := a.v.AggregateInit()
	b2, err := enc("AggShare", &s2)
	if err != nil {
		return nil, err
	}
	if !bytes.Equal(b, b2) {
		return nil, notRepeatable(a.l.name, "AggregateInit", fmt.Sprintf("%x", b), fmt.Sprintf("%x", b2))
	}
	return b, nil
}

// AggUpdate: the aggregation share is the accumulator (updated by design),
// the output share is an operand and must stay as it was; updating a second
// copy of the accumulator with the same output share must give the same.
func (a *adapter[P, M, A, AS, IS, OS, PS, ST, PP]) AggUpdate(agg, out []byte) ([]byte, error) {
	name := a.l.name
	s, err := dec[AS](&a.pp, "AggShare", agg)
	if err != nil {
		return nil, err
	}
	o, err := dec[OS](&a.pp, "OutShare", out)
	if err != nil {
		return nil, err
	}
	a.v.AggregateUpdate(s, o)
	if e := same(name, "AggregateUpdate", "OutShare", o, out); e != nil {
		return nil, e
	}
	b, err := enc("AggShare", s)
	if err != nil {
		return nil, err
	}
	if a.repeat {
		s2, err := dec[AS](&a.pp, "AggShare", agg)
		if err != nil {
			return nil, err
		}
		a.v.AggregateUpdate(s2, o)
		b2, err := enc("AggShare", s2)
		if err != nil {
			return nil, err
		}
		if !bytes.Equal(b, b2) {
			return nil, notRepeatable(name, "AggregateUpdate", fmt.Sprintf("%x", b), fmt.Sprintf("%x", b2))
		}
	}
	return b, nil
}

// Unshard: every aggregation share must be left as it was (a collector may
// retry, and the aggregators go on aggregating), and a second Unshard of the
// same shares must return the same aggregate.
func (a *adapter[P, M, A, AS, IS, OS, PS, ST, PP]) Unshard(aggs [][]byte, n uint) (any, error) {
	name := a.l.name
	shares := make([]AS, len(aggs))
	for i := range aggs {
		s, err := dec[AS](&a.pp, "AggShare", aggs[i])
		if err != nil {
			return nil, err
		}
		shares[i] = *s
	}
	run := func() (any, error) {
		r, err := a.v.Unshard(shares, n)
		if err != nil {
			return nil, &opErr{"Unshard", err}
		}
		if r == nil {
			return nil, &opErr{"Unshard", errors.New("nil aggregate without error")}
		}
		return any(*r), nil
	}
	r, err := run()
	for i := range shares {
		if e := same(name, "Unshard", "AggShare", &shares[i], aggs[i]); e != nil {
			return nil, e
		}
	}
	r2, err2 := run()
	if errStr(err) != errStr(err2) || fmt.Sprint(r) != fmt.Sprint(r2) {
		return nil, notRepeatable(name, "Unshard", fmt.Sprint(r, " ", errStr(err)), fmt.Sprint(r2, " ", errStr(err2)))
	}
	return r, err
}

// Direct: a running aggregation on the Go values without any marshalling:
// collected once half way (the result is returned as mid), extended with the
// remaining reports, collected twice at the end.
func (a *adapter[P, M, A, AS, IS, OS, PS, ST, PP]) Direct(vk *VerifyKey, ms []any, nonces []Nonce, rands [][]byte) (mid, final any, err error) {
	n := a.l.shares
	name := a.l.name
	aggs := make([]AS, n)
	for i := range aggs {
		aggs[i] = a.v.AggregateInit()
	}
	collect := func(k uint) (any, error) {
		r, err := a.v.Unshard(aggs, k)
		if err != nil {
			return nil, &opErr{"Unshard", err}
		}
		return any(*r), nil
	}
	half := (len(ms) + 1) / 2
	for k, m := range ms {
		pub, ins, err := a.v.Shard(m.(M), &nonces[k], rands[k])
		if err != nil {
			return nil, nil, &opErr{"Shard", err}
		}
		sts := make([]*ST, n)
		pss := make([]PS, n)
		for i := 0; i < n; i++ {
			st, ps, err := a.v.PrepInit(vk, &nonces[k], uint8(i), pub, ins[i])
			if err != nil {
				return nil, nil, &opErr{"PrepInit", err}
			}
			sts[i], pss[i] = st, *ps
		}
		msg, err := a.v.PrepSharesToPrep(pss)
		if err != nil {
			return nil, nil, &opErr{"PrepSharesToPrep", err}
		}
		for i := 0; i < n; i++ {
			out, err := a.v.PrepNext(sts[i], msg)
			if err != nil {
				return nil, nil, &opErr{"PrepNext", err}
			}
			a.v.AggregateUpdate(&aggs[i], out)
		}
		if k+1 == half {
			if mid, err = collect(uint(half)); err != nil {
				return nil, nil, err
			}
		}
	}
	final, err = collect(uint(len(ms)))
	if err != nil {
		return nil, nil, err
	}
	again, err2 := collect(uint(len(ms)))
	if err2 != nil || fmt.Sprint(final) != fmt.Sprint(again) {
		return nil, nil, notRepeatable(name, "Unshard", fmt.Sprint(final), fmt.Sprint(again, " ", errStr(err2)))
	}
	return mid, final, nil
}

// ---------------------------------------------------------------------------
// field elements inside marshalled messages (little-endian, fs bytes)

func getElt(b []byte, idx, fs int) *big.Int {
	o := make([]byte, fs)
	for i := 0; i < fs; i++ {
		o[fs-1-i] = b[idx*fs+i]
	}
	return new(big.Int).SetBytes(o)
}

func putElt(b []byte, idx, fs int, v *big.Int) {
	o := v.FillBytes(make([]byte, fs))
	for i := 0; i < fs; i++ {
		b[idx*fs+i] = o[fs-1-i]
	}
}
