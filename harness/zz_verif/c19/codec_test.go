//go:build verif

package c19

import (
	"bytes"
	"errors"
	"fmt"
	"math/big"
	"testing"

	"github.com/cloudflare/circl/zz_verif/vlib"
)

// TestC19Codec: boundary values of the field-element codec inside every
// message type of every instance (both fields). Elements of an honest message
// are overwritten in its bytes, at the first, a middle and the last element
// position: 0, 1, 2, p-2, p-1 are field elements (the message must decode,
// re-marshal to the same bytes and be usable in the next protocol step), p,
// p+1 and 2^(8·size)-1 are not (the message must be refused), as is the message
// of all 0xFF bytes. Messages without field elements (helper input share,
// public share, prep message) consist of seeds, every byte string of the right
// length is one: they must decode for all-0x00 and all-0xFF contents.
func TestC19Codec(t *testing.T) {
	defer vlib.Done()
	ctx := []byte("codec")
	mk := []func() (*icase, *buildErr, any){
		func() (*icase, *buildErr, any) { c, be := newCountCase(2, ctx); return c, be, true },
		func() (*icase, *buildErr, any) { c, be := newSumCase(2, 5, ctx); return c, be, uint64(3) },
		func() (*icase, *buildErr, any) {
			c, be := newSumVecCase(2, 3, 2, 4, ctx)
			return c, be, []uint64{1, 2, 3}
		},
		func() (*icase, *buildErr, any) { c, be := newHistogramCase(2, 5, 2, ctx); return c, be, uint64(4) },
		func() (*icase, *buildErr, any) {
			c, be := newMhcvCase(2, 4, 2, 3, ctx)
			return c, be, []bool{true, false, false, true}
		},
	}
	for _, f := range mk {
		c, be, m := f()
		if be != nil {
			t.Fatalf("constructor: %v %v", be.err, be.panicked)
		}
		I := c.I
		l := I.L()
		sub := "codec/" + c.name
		p := l.p
		top := new(big.Int).Sub(new(big.Int).Lsh(big.NewInt(1), uint(8*l.fs)), big.NewInt(1))
		valid := map[string]*big.Int{"0": big.NewInt(0), "1": big.NewInt(1), "2": big.NewInt(2),
			"p-2": new(big.Int).Sub(p, big.NewInt(2)), "p-1": new(big.Int).Sub(p, big.NewInt(1))}
		invalid := map[string]*big.Int{"p": p, "p+1": new(big.Int).Add(p, big.NewInt(1)), "2^n-1": top}
		order := []string{"0", "1", "2", "p-2", "p-1", "p", "p+1", "2^n-1"}

		// an honest report gives one message of every type
		r := &report{m: m, rand: make([]byte, l.randSize)}
		vlib.ExpandInto(r.rand, uint64(vlib.Seed)*17+1)
		vlib.ExpandInto(r.nonce[:], uint64(vlib.Seed)*17+2)
		var vk VerifyKey
		vlib.ExpandInto(vk[:], uint64(vlib.Seed)*17+3)
		var err error
		if r.pub, r.ins, err = I.Shard(m, &r.nonce, r.rand); err != nil {
			t.Fatalf("%s Shard: %v", c.desc, err)
		}
		sts := make([][]byte, l.shares)
		pss := make([][]byte, l.shares)
		for i := 0; i < l.shares; i++ {
			if sts[i], pss[i], err = I.PrepInit(&vk, &r.nonce, uint8(i), r.pub, r.ins[i]); err != nil {
				t.Fatalf("%s PrepInit: %v", c.desc, err)
			}
		}
		msg, err := I.PrepSharesToPrep(pss)
		if err != nil {
			t.Fatalf("%s PrepSharesToPrep: %v", c.desc, err)
		}
		out, err := I.PrepNext(sts[0], msg)
		if err != nil {
			t.Fatalf("%s PrepNext: %v", c.desc, err)
		}
		agg0, err := I.AggInit()
		if err != nil {
			t.Fatalf("%s AggInit: %v", c.desc, err)
		}
		agg, err := I.AggUpdate(agg0, out)
		if err != nil {
			t.Fatalf("%s AggUpdate: %v", c.desc, err)
		}

		type msgT struct {
			typ   string
			b     []byte
			id    uint
			nElts int // field elements at the front of the message
		}
		msgs := []msgT{
			{"InputShare", r.ins[0], 0, l.measLen + l.proofLen},
			{"PrepShare", pss[0], 0, l.verLen},
			{"PrepState", sts[0], 0, l.outLen},
			{"OutShare", out, 0, l.outLen},
			{"AggShare", agg, 0, l.outLen},
		}
		report := func(key, detail string, replay map[string]interface{}) {
			vlib.ReportDirect(t, "C19/codec/"+c.name+"/"+key, c.desc+": "+detail, replay)
		}
		// usable: the decoded message goes through the next step
		usable := func(mt msgT, b []byte, idx int, v *big.Int) error {
			switch mt.typ {
			case "InputShare":
				_, _, err := I.PrepInit(&vk, &r.nonce, 0, r.pub, b)
				var de *decodeErr
				var hv *harnessViol
				if errors.As(err, &de) || errors.As(err, &hv) {
					return err
				}
			case "PrepShare":
				_, err := I.PrepSharesToPrep([][]byte{b, pss[1]})
				var de *decodeErr
				var hv *harnessViol
				if errors.As(err, &de) || errors.As(err, &hv) {
					return err
				}
			case "PrepState":
				o, err := I.PrepNext(b, msg)
				if err != nil {
					return err
				}
				if !bytes.Equal(o, b[:l.outLen*l.fs]) {
					return fmt.Errorf("PrepNext returns out share %x, the state holds %x", o, b[:l.outLen*l.fs])
				}
			case "OutShare":
				a, err := I.AggUpdate(agg0, b)
				if err != nil {
					return err
				}
				if !bytes.Equal(a, b) {
					return fmt.Errorf("zero aggregation share updated with %x gives %x", b, a)
				}
			case "AggShare":
				// a second share such that every position adds up to 7
				other := cp(b)
				for j := 0; j < l.outLen; j++ {
					x := new(big.Int).Sub(big.NewInt(7), getElt(b, j, l.fs))
					putElt(other, j, l.fs, x.Mod(x, p))
				}
				got, err := I.Unshard([][]byte{b, other}, 1)
				if err != nil {
					return err
				}
				want := make([]*big.Int, l.outLen)
				for j := range want {
					want[j] = big.NewInt(7)
				}
				if eq, _ := aggEqual(c, got, want); !eq {
					return fmt.Errorf("Unshard of a share with element %d = %s and its complement to 7 gives %v", idx, v, got)
				}
			}
			return nil
		}
		for _, mt := range msgs {
			if len(mt.b) < mt.nElts*l.fs {
				t.Fatalf("%s: %s shorter than its %d elements", c.desc, mt.typ, mt.nElts)
			}
			positions := map[string]int{"first": 0, "middle": mt.nElts / 2, "last": mt.nElts - 1}
			for _, pn := range []string{"first", "middle", "last"} {
				idx := positions[pn]
				if mt.nElts == 0 {
					continue
				}
				for _, vn := range order {
					v, ok := valid[vn]
					isValid := ok
					if !ok {
						v = invalid[vn]
					}
					b := cp(mt.b)
					putElt(b, idx, l.fs, v)
					vlib.Eval(sub)
					replay := map[string]interface{}{"instance": c.desc, "type": mt.typ, "position": pn, "index": idx, "value": vn, "bytes": fmt.Sprintf("%x", b)}
					var derr error
					pnc, st := vlib.Catch(func() {
						derr = I.Decode(mt.typ, b, mt.id)
						if derr == nil && isValid {
							derr = usable(mt, b, idx, v)
							if derr != nil {
								derr = fmt.Errorf("not usable: %w", derr)
							}
						}
					})
					cls := fmt.Sprintf("%s %s=%s", mt.typ, pn, vn)
					switch {
					case pnc != nil:
						report(mt.typ+"/panic", fmt.Sprintf("element %d (%s) set to %s: %v\n%s", idx, pn, vn, pnc, st), replay)
					case isValid && derr != nil:
						key := mt.typ + "/valid-refused"
						var hv *harnessViol
						if errors.As(derr, &hv) {
							key = mt.typ + "/" + hv.key[len("C19/"):]
						}
						report(key, fmt.Sprintf("element %d (%s) set to the field element %s (%x): %v", idx, pn, vn, b[idx*l.fs:(idx+1)*l.fs], derr), replay)
					case !isValid && derr == nil:
						report(mt.typ+"/invalid-accepted", fmt.Sprintf("element %d (%s) set to %s >= modulus (%x) is accepted", idx, pn, vn, b[idx*l.fs:(idx+1)*l.fs]), replay)
					default:
						vlib.NonTrivial(sub, cls, []byte(c.desc), []byte(cls))
					}
				}
			}
			// all 0xFF
			b := bytes.Repeat([]byte{0xff}, len(mt.b))
			vlib.Eval(sub)
			if mt.nElts > 0 {
				if err := I.Decode(mt.typ, b, mt.id); err == nil {
					report(mt.typ+"/invalid-accepted", "the all-0xFF message is accepted", map[string]interface{}{"instance": c.desc, "type": mt.typ})
				} else {
					vlib.NonTrivial(sub, mt.typ+" all-ff refused", []byte(c.desc), []byte(mt.typ))
				}
			}
		}
		// seed-only messages
		seedMsgs := []msgT{{"InputShare", r.ins[1], 1, 0}}
		if l.jr {
			seedMsgs = append(seedMsgs, msgT{"PublicShare", r.pub, 0, 0}, msgT{"PrepMessage", msg, 0, 0})
		}
		for _, mt := range seedMsgs {
			for _, fill := range []byte{0x00, 0xff} {
				b := bytes.Repeat([]byte{fill}, len(mt.b))
				vlib.Eval(sub)
				if err := I.Decode(mt.typ, b, mt.id); err != nil {
					report(mt.typ+"/valid-refused", fmt.Sprintf("seed-only message of %d bytes 0x%02x (aggregator %d): %v", len(b), fill, mt.id, err), map[string]interface{}{"instance": c.desc, "type": mt.typ})
				} else {
					vlib.NonTrivial(sub, fmt.Sprintf("%s seeds=%02x", mt.typ, fill), []byte(c.desc), []byte(mt.typ), []byte{fill, byte(mt.id)})
				}
			}
		}
	}
}
