//go:build verif

package c19

import (
	"fmt"
	"testing"

	"github.com/cloudflare/circl/vdaf/prio3/histogram"
	"github.com/cloudflare/circl/vdaf/prio3/mhcv"
	"github.com/cloudflare/circl/vdaf/prio3/sum"
	"github.com/cloudflare/circl/vdaf/prio3/sumvec"
	"github.com/cloudflare/circl/zz_verif/vlib"
)

func TestProbe(t *testing.T) {
	ctx := []byte("x")
	p, _ := vlib.Catch(func() { _, err := sum.New(2, 1<<63, ctx); fmt.Println("sum 2^63", err) })
	fmt.Println(p)
	p, _ = vlib.Catch(func() { _, err := sum.New(2, ^uint64(0), ctx); fmt.Println("sum max", err) })
	fmt.Println(p)
	p, _ = vlib.Catch(func() { _, err := sumvec.New(2, 3, 3, 0, ctx); fmt.Println("sumvec", err) })
	fmt.Println(p)
	p, _ = vlib.Catch(func() { _, err := histogram.New(2, 3, 0, ctx); fmt.Println("hist", err) })
	fmt.Println(p)
	p, _ = vlib.Catch(func() { _, err := mhcv.New(2, 3, 2, 0, ctx); fmt.Println("mhcv", err) })
	fmt.Println(p)
	p, _ = vlib.Catch(func() { _, err := mhcv.New(1, 3, 2, 1, ctx); fmt.Println("mhcv1", err) })
	fmt.Println(p)
	p, _ = vlib.Catch(func() { _, err := mhcv.New(2, 3, 0, 1, ctx); fmt.Println("mhcv w0", err) })
	fmt.Println(p)
	p, _ = vlib.Catch(func() { _, err := sumvec.New(2, 0, 3, 1, ctx); fmt.Println("sumvec len0", err) })
	fmt.Println(p)
	p, _ = vlib.Catch(func() { _, err := sumvec.New(2, 3, 0, 1, ctx); fmt.Println("sumvec bits0", err) })
	fmt.Println(p)
	p, _ = vlib.Catch(func() { _, err := histogram.New(2, 0, 1, ctx); fmt.Println("hist len0", err) })
	fmt.Println(p)
	h, _ := histogram.New(2, 4, 2, ctx)
	pp := h.Params()
	var n histogram.Nonce
	p, _ = vlib.Catch(func() { _, _, err := h.Shard(4, &n, make([]byte, pp.RandSize())); fmt.Println("hist shard len", err) })
	fmt.Println(p)
	p, _ = vlib.Catch(func() { _, _, err := h.Shard(5, &n, make([]byte, pp.RandSize())); fmt.Println("hist shard len+1", err) })
	fmt.Println(p)
}
