//go:build verif

// C10 — no byte string makes a parser, verifier, opener or decapsulator panic.
// Area: CP-ABE, prio3, blind RSA, Ascon, PKI, CSIDH/SIDH/SIKE, Kyber PKE, fixed-length package-level KEM functions, DH, simot. The machinery is in zz_verif/c10core.
package c10b

import (
	"fmt"
	"runtime"
	"strings"
	"testing"

	core "github.com/cloudflare/circl/zz_verif/c10core"
)

type Entry = core.Entry

var registry []Entry

// Register adds entries (called from init functions of reg_*_test.go).
func Register(es ...Entry) {
	for i := range es {
		es[i].Call = stableCall(es[i].Call)
	}
	registry = append(registry, es...)
}

// stableCall re-raises an explicit panic whose message has leading or trailing
// white space (tkn's "misuse of addDuals: …\n") with the white space trimmed:
// vlib.PanicClass keeps a trailing newline in the finding key, and such a key
// can not be matched by a line of the known-findings file. Runtime errors and
// all other panic values are re-raised unchanged (the frames of the original
// panic are still on the stack when the outer recover() takes the trace).
func stableCall(f func([]byte)) func([]byte) {
	return func(b []byte) {
		defer func() {
			if r := recover(); r != nil {
				if _, isRuntime := r.(runtime.Error); !isRuntime {
					if s := fmt.Sprint(r); strings.TrimSpace(s) != s {
						panic(strings.TrimSpace(s))
					}
				}
				panic(r)
			}
		}()
		f(b)
	}
}

func seedBytes(n int, tag uint64) []byte { return core.SeedBytes(n, tag) }
func mustB(b []byte, err error) []byte   { return core.MustB(b, err) }

func TestC10Registry(t *testing.T) { core.SelfTest(t, registry) }
func TestC10(t *testing.T)         { core.Run(t, registry) }
func TestC10Sweep(t *testing.T)    { core.Sweep(t, registry) }
func FuzzC10(f *testing.F)         { core.Fuzz(f, registry) }
