//go:build verif

package c10b

import (
	"encoding/binary"
	"fmt"
	"testing"

	"github.com/cloudflare/circl/abe/cpabe/tkn20"
	"github.com/cloudflare/circl/zz_verif/vlib"
	"pgregory.net/rapid"
)

// Structured generator for the formula section of a CP-ABE ciphertext.
//
// Byte-level mutation of a ciphertext almost never yields a formula that
// passes the decoder's structural checks (every wire consumed once, every gate
// output set, #inputs = #gates+1) and is nevertheless not a tree. Here gate
// lists are drawn as such — random wire permutations (always "well formed",
// often cyclic, the cycle frequently not connected to the output wire),
// forced self-loops and 2-cycles, duplicated outputs / inputs, out-of-range
// wires, unknown gate classes, valid trees in permuted gate order, gate counts
// off by one — and serialized with consistent lengths around them, so that
// the decoder reaches toposort / satisfaction / decapsulate:
//
//   - "mini" ciphertexts (old and new format) made of the policy, an empty c1
//     matrix and zero c2/c3 counts: enough for ExtractFromCiphertext (+use:
//     Satisfaction, Equal, ExtractAttributeValuePairs) and CouldDecrypt, which
//     read only the policy; a call costs microseconds;
//   - the real ciphertext of the same policy with its gate bytes overwritten in
//     place, for AttributeKey.Decrypt (header consistency checks, decapsulate).
//
// The wires (labels, hashed values, polarity) are those of real policies over
// the registry's attributes, so that some inputs match the key and some do not.

var formulaPolicies = []string{
	"country: NL and EU: true",
	"country: NL and EU: true and tier: 1",
	"(country: NL or country: US) and EU: true and not tier: 3",
	"(country: NL or country: US) and (EU: true or region: X) and not tier: 3",
	"(country: NL or country: US) and (EU: true or region: X) and not tier: 3 and tier: 1",
}

type gate struct {
	class         byte
	in0, in1, out uint16
}

type formulaBase struct {
	n       int    // gates of the honest policy (inputs = n+1)
	ct      []byte // honest ciphertext
	gateOff int    // offset of the first gate in ct
	wires   []byte // nWires16 | wires, as serialized in ct
	gates   []gate // the honest gates
}

var formulaBases []formulaBase

func formulaSetup() []formulaBase {
	if formulaBases != nil {
		return formulaBases
	}
	for i, ps := range formulaPolicies {
		var pol tkn20.Policy
		if err := pol.FromString(ps); err != nil {
			panic(err)
		}
		ct, err := tknFix.pk.Encrypt(vlib.NewReader(uint64(500+i)), pol, []byte("formula"))
		if err != nil {
			panic(err)
		}
		if pt, err := tknFix.ak.Decrypt(ct); err != nil || string(pt) != "formula" {
			panic("formula fixture does not decrypt: " + ps)
		}
		_, encl := tknWalk(ct)
		if len(encl) < 4 {
			panic("formula fixture: unexpected layout")
		}
		pol16, fl := encl[2], encl[3]
		polEnd := pol16.off + 2 + int(leGet(ct, pol16))
		fEnd := fl.off + 2 + int(leGet(ct, fl))
		n := int(binary.LittleEndian.Uint16(ct[fl.off+2:]))
		b := formulaBase{n: n, ct: ct, gateOff: fl.off + 4, wires: append([]byte{}, ct[fEnd:polEnd]...)}
		for g := 0; g < n; g++ {
			p := ct[b.gateOff+7*g:]
			b.gates = append(b.gates, gate{p[0], binary.LittleEndian.Uint16(p[1:]), binary.LittleEndian.Uint16(p[3:]), binary.LittleEndian.Uint16(p[5:])})
		}
		if n != i+1 {
			panic(fmt.Sprintf("formula fixture %q has %d gates", ps, n))
		}
		formulaBases = append(formulaBases, b)
	}
	return formulaBases
}

func gateBytes(gs []gate) []byte {
	out := make([]byte, 0, 7*len(gs))
	for _, g := range gs {
		out = append(out, g.class)
		out = binary.LittleEndian.AppendUint16(out, g.in0)
		out = binary.LittleEndian.AppendUint16(out, g.in1)
		out = binary.LittleEndian.AppendUint16(out, g.out)
	}
	return out
}

// miniCt wraps a policy made of gs and the base's wires into the smallest
// ciphertext the header parser accepts (newFormat: version tag and 32-bit
// prefixes for macData and C1).
func (b *formulaBase) miniCt(gs []gate, newFormat bool) []byte {
	pol := binary.LittleEndian.AppendUint16(nil, uint16(2+7*len(gs)))
	pol = binary.LittleEndian.AppendUint16(pol, uint16(len(gs)))
	pol = append(pol, gateBytes(gs)...)
	pol = append(pol, b.wires...)
	c1 := binary.LittleEndian.AppendUint16(nil, uint16(len(pol)))
	c1 = append(c1, pol...)
	c1 = append(c1, 4, 0, 0, 0, 0, 0) // c1: len16=4 | rows=0 cols=0
	c1 = append(c1, 0, 0, 0, 0)       // c2Len=0, c3Len=0
	pre := func(dst, x []byte) []byte {
		if newFormat {
			dst = binary.LittleEndian.AppendUint32(dst, uint32(len(x)))
		} else {
			dst = binary.LittleEndian.AppendUint16(dst, uint16(len(x)))
		}
		return append(dst, x...)
	}
	mac := pre(nil, c1)
	var ct []byte
	if newFormat {
		ct = append(ct, "v1.3.8"...)
	}
	ct = append(ct, 0, 0) // empty id
	return pre(ct, mac)
}

// fullCt is the honest ciphertext with its gates replaced (same count only).
func (b *formulaBase) fullCt(gs []gate) []byte {
	if len(gs) != b.n {
		return nil
	}
	ct := append([]byte{}, b.ct...)
	copy(ct[b.gateOff:], gateBytes(gs))
	return ct
}

func gatesString(gs []gate) string {
	s := ""
	for _, g := range gs {
		s += fmt.Sprintf("(%d:%d,%d>%d)", g.class, g.in0, g.in1, g.out)
	}
	return s
}

var formulaMiniEntries = []string{"tkn20.Attributes.CouldDecrypt", "tkn20.Policy.ExtractFromCiphertext+use", "tkn20.Policy.ExtractFromCiphertext"}

func formulaProbe(t vlib.TB, d *directTB, b *formulaBase, gs []gate, kind string, idx int, withDecrypt bool) {
	mini := b.miniCt(gs, idx%2 == 1)
	for _, name := range formulaMiniEntries {
		if e := entryByName(name); e != nil {
			if d != nil {
				d.replay = map[string]interface{}{"entry": name, "gates": gatesString(gs), "input": fmt.Sprintf("%x", mini)}
			}
			probe(t, e, kind, mini)
		}
	}
	if full := b.fullCt(gs); withDecrypt && full != nil {
		for _, name := range []string{"tkn20.AttributeKey.Decrypt", "tkn20.Attributes.CouldDecrypt"} {
			if e := entryByName(name); e != nil {
				if d != nil {
					d.replay = map[string]interface{}{"entry": name, "gates": gatesString(gs), "input": fmt.Sprintf("%x", full)}
				}
				probe(t, e, kind+"/full", full)
			}
		}
	}
}

// permutations calls f with every permutation of 0..k-1 (Heap's algorithm); f must not keep p.
func permutations(k int, f func(p []int)) {
	p := make([]int, k)
	for i := range p {
		p[i] = i
	}
	var rec func(m int)
	rec = func(m int) {
		if m == 1 {
			f(p)
			return
		}
		for i := 0; i < m; i++ {
			rec(m - 1)
			if m%2 == 0 {
				p[i], p[m-1] = p[m-1], p[i]
			} else {
				p[0], p[m-1] = p[m-1], p[0]
			}
		}
	}
	rec(k)
}

// TestC10FormulaEnum: every formula of 2 and of 3 gates that passes the
// well-formedness check — each of the wires 0..2n-1 consumed exactly once,
// each of the wires n+1..2n produced exactly once: (2n)!·n! wirings, 48 and
// 4320 — with all (n = 2) resp. index-derived (n = 3) gate classes.
func TestC10FormulaEnum(t *testing.T) {
	defer vlib.Done()
	if entryByName("tkn20.Attributes.CouldDecrypt") == nil {
		t.Skip("no tkn20 entries")
	}
	bases := formulaSetup()
	d := &directTB{t: t}
	idx := 0
	for _, n := range []int{2, 3} {
		b := &bases[n-1]
		permutations(n, func(outs []int) {
			outP := append([]int{}, outs...)
			permutations(2*n, func(ins []int) {
				idx++
				if idx%vlib.NShards != vlib.Shard {
					return
				}
				if n == 3 && !vlib.Thorough() && idx%4 != 0 {
					return // quick tier: every 4th wiring of n = 3
				}
				classSets := []int{idx % (1 << n)}
				if n == 2 {
					classSets = []int{0, 1, 2, 3}
				}
				for _, cs := range classSets {
					gs := make([]gate, n)
					for g := 0; g < n; g++ {
						gs[g] = gate{byte(cs >> g & 1), uint16(ins[2*g]), uint16(ins[2*g+1]), uint16(n + 1 + outP[g])}
					}
					// Decrypt on the real ciphertext: all of n = 2, every 48th of n = 3 (all in thorough)
					withDecrypt := n == 2 && cs == 0 || n == 3 && (vlib.Thorough() || idx%48 == 0)
					formulaProbe(d, d, b, gs, fmt.Sprintf("formula-enum/n=%d", n), idx, withDecrypt)
				}
			})
		})
	}
	if vlib.Thorough() {
		vlib.Exhaustive("tkn20 well-formed formulas of 2 and 3 gates", 48+4320, "all wirings in which every wire 0..2n-1 is consumed once and every wire n+1..2n is produced once, for the policy-only consumers and Decrypt")
	} else {
		vlib.Exhaustive("tkn20 well-formed formulas of 2 gates", 48, "all wirings x all class assignments for the policy-only consumers, all wirings for Decrypt; of the 4320 wirings of 3 gates every 4th (Decrypt: every 48th)")
	}
}

// drawGates draws a hostile gate list for a policy of n+1 inputs.
func drawGates(t *rapid.T, b *formulaBase) (string, []gate) {
	n := b.n
	perm := func(k int, label string) []int {
		p := make([]int, k)
		for i := range p {
			p[i] = i
		}
		for i := k - 1; i > 0; i-- {
			j := rapid.IntRange(0, i).Draw(t, label)
			p[i], p[j] = p[j], p[i]
		}
		return p
	}
	wellFormed := func() []gate {
		ins, outs := perm(2*n, "ins"), perm(n, "outs")
		gs := make([]gate, n)
		for g := range gs {
			gs[g] = gate{byte(rapid.IntRange(0, 1).Draw(t, "class")), uint16(ins[2*g]), uint16(ins[2*g+1]), uint16(n + 1 + outs[g])}
		}
		return gs
	}
	// swapIn makes gate g consume wire w by exchanging it with whichever input holds w (keeps "each wire once")
	swapIn := func(gs []gate, g int, w uint16) {
		for i := range gs {
			if gs[i].in0 == w {
				gs[i].in0, gs[g].in1 = gs[g].in1, w
				return
			}
			if gs[i].in1 == w && i != g {
				gs[i].in1, gs[g].in1 = gs[g].in1, w
				return
			}
		}
	}
	kind := rapid.SampledFrom([]string{"wellformed-perm", "wellformed-perm", "self-loop", "two-cycle", "tree-permuted", "dup-out", "dup-in", "wire-oob", "class-oob", "count-1", "count+1", "honest-classes-flipped"}).Draw(t, "fkind")
	var gs []gate
	switch kind {
	case "wellformed-perm":
		gs = wellFormed()
	case "self-loop":
		gs = wellFormed()
		g := rapid.IntRange(0, n-1).Draw(t, "g")
		if int(gs[g].out) <= 2*n-1 {
			swapIn(gs, g, gs[g].out)
		}
	case "two-cycle":
		gs = wellFormed()
		if n >= 2 {
			g := rapid.IntRange(0, n-1).Draw(t, "g")
			h := (g + 1 + rapid.IntRange(0, n-2).Draw(t, "h")) % n
			if int(gs[g].out) <= 2*n-1 {
				swapIn(gs, h, gs[g].out)
			}
			if int(gs[h].out) <= 2*n-1 {
				swapIn(gs, g, gs[h].out)
			}
		}
	case "tree-permuted":
		gs = append([]gate{}, b.gates...)
		p := perm(n, "order")
		o := make([]gate, n)
		for i := range o {
			o[i] = gs[p[i]]
		}
		gs = o
	case "dup-out":
		gs = wellFormed()
		if n >= 2 {
			gs[rapid.IntRange(0, n-1).Draw(t, "g")].out = gs[rapid.IntRange(0, n-1).Draw(t, "h")].out
		}
	case "dup-in":
		gs = wellFormed()
		g := rapid.IntRange(0, n-1).Draw(t, "g")
		gs[g].in0 = uint16(rapid.IntRange(0, 2*n-1).Draw(t, "w"))
	case "wire-oob":
		gs = wellFormed()
		g := rapid.IntRange(0, n-1).Draw(t, "g")
		w := uint16(rapid.SampledFrom([]int{2 * n, 2*n + 1, 2*n + 2, n, 0, 0x7fff, 0x8000, 0xffff}).Draw(t, "w"))
		switch rapid.IntRange(0, 2).Draw(t, "which") {
		case 0:
			gs[g].in0 = w
		case 1:
			gs[g].in1 = w
		default:
			gs[g].out = w
		}
	case "class-oob":
		gs = wellFormed()
		gs[rapid.IntRange(0, n-1).Draw(t, "g")].class = rapid.SampledFrom([]byte{2, 3, 0x7f, 0x80, 0xff}).Draw(t, "c")
	case "count-1":
		gs = wellFormed()[:n-1]
	case "count+1":
		gs = append(wellFormed(), gate{0, uint16(rapid.IntRange(0, 2*n+1).Draw(t, "a")), uint16(rapid.IntRange(0, 2*n+1).Draw(t, "b")), uint16(rapid.IntRange(n+1, 2*n+2).Draw(t, "o"))})
	default: // honest wiring, classes flipped (And <-> Or)
		gs = append([]gate{}, b.gates...)
		for i := range gs {
			if rapid.Bool().Draw(t, "flip") {
				gs[i].class ^= 1
			}
		}
	}
	return kind, gs
}

func TestC10FormulaGen(t *testing.T) {
	defer vlib.Done()
	if entryByName("tkn20.Attributes.CouldDecrypt") == nil {
		t.Skip("no tkn20 entries")
	}
	bases := formulaSetup()
	vlib.Check(t, vlib.N(500, 5000), func(t *rapid.T) {
		b := &bases[rapid.IntRange(0, len(bases)-1).Draw(t, "base")]
		kind, gs := drawGates(t, b)
		idx := rapid.IntRange(0, 1).Draw(t, "fmt")
		withDecrypt := rapid.IntRange(0, 7).Draw(t, "dec") == 0
		formulaProbe(t, nil, b, gs, "formula/"+kind, idx, withDecrypt)
	})
}
