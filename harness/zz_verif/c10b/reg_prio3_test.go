//go:build verif

package c10b

import (
	"encoding"

	"github.com/cloudflare/circl/vdaf/prio3/arith/fp128"
	"github.com/cloudflare/circl/vdaf/prio3/arith/fp64"
	"github.com/cloudflare/circl/vdaf/prio3/count"
	"github.com/cloudflare/circl/vdaf/prio3/histogram"
	"github.com/cloudflare/circl/vdaf/prio3/mhcv"
	"github.com/cloudflare/circl/vdaf/prio3/sum"
	"github.com/cloudflare/circl/vdaf/prio3/sumvec"
)

// The message types of vdaf/prio3 live in an internal package and are exported
// through aliases of the five instances; prio3.Params cannot be named from
// here, so the registration is generic over it (PP) and over the message types.

type p3Msg[T, PP any] interface {
	*T
	New(*PP) *T
	encoding.BinaryMarshaler
	encoding.BinaryUnmarshaler
}

type p3In[T, PP any] interface {
	*T
	New(*PP, uint) *T
	encoding.BinaryMarshaler
	encoding.BinaryUnmarshaler
}

type p3Vdaf[M, A, PP, PubS, IS, PSh, PSt, PM, OS, AS any] interface {
	Params() PP
	Shard(M, *count.Nonce, []byte) (PubS, []IS, error)
	PrepInit(*count.VerifyKey, *count.Nonce, uint8, PubS, IS) (*PSt, *PSh, error)
	PrepSharesToPrep([]PSh) (*PM, error)
	PrepNext(*PSt, *PM) (*OS, error)
	AggregateInit() AS
	AggregateUpdate(*AS, *OS)
	Unshard([]AS, uint) (*A, error)
}

func regPrio3[
	M, A, PP, PubS, IS, PSh, PSt, PM, OS, AS any,
	PPubS p3Msg[PubS, PP], PIS p3In[IS, PP], PPSh p3Msg[PSh, PP], PPSt p3Msg[PSt, PP], PPM p3Msg[PM, PP], POS p3Msg[OS, PP], PAS p3Msg[AS, PP],
](inst string, v p3Vdaf[M, A, PP, PubS, IS, PSh, PSt, PM, OS, AS], randSize uint, meas []M) {
	name := "prio3/" + inst
	params := v.Params()
	var verifyKey count.VerifyKey
	copy(verifyKey[:], seedBytes(len(verifyKey), 200))

	// one complete honest run per measurement: collects the valid encodings of every message type
	type run struct {
		nonce                                        count.Nonce
		pub                                          PubS
		in                                           []IS
		states                                       []*PSt
		shares                                       []PSh
		msg                                          *PM
		outs                                         []*OS
		pubB, in0B, in1B, shB, stB, msgB, outB, aggB []byte
	}
	var runs []run
	aggs := []AS{v.AggregateInit(), v.AggregateInit()}
	for i, m := range meas {
		var r run
		copy(r.nonce[:], seedBytes(len(r.nonce), uint64(210+i)))
		var err error
		r.pub, r.in, err = v.Shard(m, &r.nonce, seedBytes(int(randSize), uint64(220+i)))
		if err != nil {
			panic(err)
		}
		for a := 0; a < 2; a++ {
			st, sh, err := v.PrepInit(&verifyKey, &r.nonce, uint8(a), r.pub, r.in[a])
			if err != nil {
				panic(err)
			}
			r.states = append(r.states, st)
			r.shares = append(r.shares, *sh)
		}
		r.msg, err = v.PrepSharesToPrep(r.shares)
		if err != nil {
			panic(err)
		}
		for a := 0; a < 2; a++ {
			o, err := v.PrepNext(r.states[a], r.msg)
			if err != nil {
				panic(err)
			}
			r.outs = append(r.outs, o)
			v.AggregateUpdate(&aggs[a], o)
		}
		r.pubB = mustB(PPubS(&r.pub).MarshalBinary())
		r.in0B = mustB(PIS(&r.in[0]).MarshalBinary())
		r.in1B = mustB(PIS(&r.in[1]).MarshalBinary())
		r.shB = mustB(PPSh(&r.shares[i%2]).MarshalBinary())
		r.stB = mustB(PPSt(r.states[i%2]).MarshalBinary())
		r.msgB = mustB(PPM(r.msg).MarshalBinary())
		r.outB = mustB(POS(r.outs[i%2]).MarshalBinary())
		r.aggB = mustB(PAS(&aggs[i%2]).MarshalBinary())
		runs = append(runs, r)
	}
	if _, err := v.Unshard(aggs, uint(len(meas))); err != nil {
		panic(err)
	}
	n := len(runs)
	r0 := runs[0]
	sel := func(f func(r run) []byte) func(int) []byte {
		return func(i int) []byte { return f(runs[i%n]) }
	}

	// decoders: the receiving object is sized with New(params) as the package's own tests do
	decPub := func(b []byte) (*PubS, bool) {
		s := PPubS(new(PubS)).New(&params)
		return s, PPubS(s).UnmarshalBinary(b) == nil
	}
	decIn := func(b []byte, agg uint) (*IS, bool) {
		s := PIS(new(IS)).New(&params, agg)
		return s, PIS(s).UnmarshalBinary(b) == nil
	}
	decSh := func(b []byte) (*PSh, bool) {
		s := PPSh(new(PSh)).New(&params)
		return s, PPSh(s).UnmarshalBinary(b) == nil
	}
	decSt := func(b []byte) (*PSt, bool) {
		s := PPSt(new(PSt)).New(&params)
		return s, PPSt(s).UnmarshalBinary(b) == nil
	}
	decMsg := func(b []byte) (*PM, bool) { s := PPM(new(PM)).New(&params); return s, PPM(s).UnmarshalBinary(b) == nil }
	decOut := func(b []byte) (*OS, bool) { s := POS(new(OS)).New(&params); return s, POS(s).UnmarshalBinary(b) == nil }
	decAgg := func(b []byte) (*AS, bool) { s := PAS(new(AS)).New(&params); return s, PAS(s).UnmarshalBinary(b) == nil }

	E := func(suffix string, call func([]byte), valid func(int) []byte) Entry {
		return Entry{Name: name + "." + suffix, Group: "prio3", NValid: n, Call: call, Valid: valid}
	}
	Register(
		E("PublicShare.UnmarshalBinary", func(b []byte) { decPub(b) }, sel(func(r run) []byte { return r.pubB })),
		E("InputShare(leader).UnmarshalBinary", func(b []byte) { decIn(b, 0) }, sel(func(r run) []byte { return r.in0B })),
		E("InputShare(helper).UnmarshalBinary", func(b []byte) { decIn(b, 1) }, sel(func(r run) []byte { return r.in1B })),
		E("PrepShare.UnmarshalBinary", func(b []byte) { decSh(b) }, sel(func(r run) []byte { return r.shB })),
		E("PrepState.UnmarshalBinary", func(b []byte) { decSt(b) }, sel(func(r run) []byte { return r.stB })),
		E("PrepMessage.UnmarshalBinary", func(b []byte) { decMsg(b) }, sel(func(r run) []byte { return r.msgB })),
		E("OutShare.UnmarshalBinary", func(b []byte) { decOut(b) }, sel(func(r run) []byte { return r.outB })),
		E("AggShare.UnmarshalBinary", func(b []byte) { decAgg(b) }, sel(func(r run) []byte { return r.aggB })),

		// zero-value receivers (New not called)
		E("InputShare(zero).UnmarshalBinary", func(b []byte) { _ = PIS(new(IS)).UnmarshalBinary(b) }, sel(func(r run) []byte { return r.in0B })),
		E("PrepShare(zero).UnmarshalBinary", func(b []byte) { _ = PPSh(new(PSh)).UnmarshalBinary(b) }, sel(func(r run) []byte { return r.shB })),
		E("PrepState(zero).UnmarshalBinary", func(b []byte) { _ = PPSt(new(PSt)).UnmarshalBinary(b) }, sel(func(r run) []byte { return r.stB })),
		E("AggShare(zero).UnmarshalBinary", func(b []byte) { _ = PAS(new(AS)).UnmarshalBinary(b) }, sel(func(r run) []byte { return r.aggB })),

		// protocol steps fed with messages decoded from hostile bytes (the other arguments are honest)
		E("PrepInit(leader,hostile-input-share)", func(b []byte) {
			if s, ok := decIn(b, 0); ok {
				_, _, _ = v.PrepInit(&verifyKey, &r0.nonce, 0, r0.pub, *s)
				_, _, _ = v.PrepInit(&verifyKey, &r0.nonce, 1, r0.pub, *s) // wrong role
			}
		}, sel(func(r run) []byte { return r.in0B })),
		E("PrepInit(helper,hostile-input-share)", func(b []byte) {
			if s, ok := decIn(b, 1); ok {
				_, _, _ = v.PrepInit(&verifyKey, &r0.nonce, 1, r0.pub, *s)
				_, _, _ = v.PrepInit(&verifyKey, &r0.nonce, 0, r0.pub, *s) // wrong role
				_, _, _ = v.PrepInit(&verifyKey, &r0.nonce, 255, r0.pub, *s)
			}
		}, sel(func(r run) []byte { return r.in1B })),
		E("PrepInit(hostile-public-share)", func(b []byte) {
			if s, ok := decPub(b); ok {
				_, _, _ = v.PrepInit(&verifyKey, &r0.nonce, 0, *s, r0.in[0])
				_, _, _ = v.PrepInit(&verifyKey, &r0.nonce, 1, *s, r0.in[1])
			}
		}, sel(func(r run) []byte { return r.pubB })),
		E("PrepSharesToPrep(hostile-prep-share)", func(b []byte) {
			if s, ok := decSh(b); ok {
				_, _ = v.PrepSharesToPrep([]PSh{r0.shares[0], *s})
				_, _ = v.PrepSharesToPrep([]PSh{*s, *s})
				_, _ = v.PrepSharesToPrep([]PSh{*s})
			}
		}, sel(func(r run) []byte { return r.shB })),
		E("PrepNext(hostile-prep-state)", func(b []byte) {
			if s, ok := decSt(b); ok {
				_, _ = v.PrepNext(s, r0.msg)
			}
		}, sel(func(r run) []byte { return r.stB })),
		E("PrepNext(hostile-prep-message)", func(b []byte) {
			if s, ok := decMsg(b); ok {
				_, _ = v.PrepNext(r0.states[0], s)
			}
		}, sel(func(r run) []byte { return r.msgB })),
		E("AggregateUpdate+Unshard(hostile-out-share)", func(b []byte) {
			if s, ok := decOut(b); ok {
				a := v.AggregateInit()
				v.AggregateUpdate(&a, s)
				_, _ = v.Unshard([]AS{a, aggs[1]}, uint(len(meas)))
			}
		}, sel(func(r run) []byte { return r.outB })),
		E("Unshard(hostile-agg-share)", func(b []byte) {
			if s, ok := decAgg(b); ok {
				_, _ = v.Unshard([]AS{*s, aggs[1]}, uint(len(meas)))
				_, _ = v.Unshard([]AS{*s, *s}, 0)
				_, _ = v.Unshard([]AS{*s}, 1)
			}
		}, sel(func(r run) []byte { return r.aggB })),
	)
}

func init() {
	ctx := []byte("c10b prio3")
	{
		v, err := count.New(2, ctx)
		if err != nil {
			panic(err)
		}
		p := v.Params()
		regPrio3("count", v, p.RandSize(), []bool{true, false})
	}
	{
		v, err := sum.New(2, 1000, ctx)
		if err != nil {
			panic(err)
		}
		p := v.Params()
		regPrio3("sum", v, p.RandSize(), []uint64{999, 0})
	}
	{
		v, err := sumvec.New(2, 4, 4, 3, ctx)
		if err != nil {
			panic(err)
		}
		p := v.Params()
		regPrio3("sumvec", v, p.RandSize(), [][]uint64{{1, 2, 3, 15}, {0, 0, 0, 0}})
	}
	{
		v, err := histogram.New(2, 4, 3, ctx)
		if err != nil {
			panic(err)
		}
		p := v.Params()
		regPrio3("histogram", v, p.RandSize(), []uint64{2, 0})
	}
	{
		v, err := mhcv.New(2, 5, 2, 3, ctx)
		if err != nil {
			panic(err)
		}
		p := v.Params()
		regPrio3("mhcv", v, p.RandSize(), [][]bool{{true, false, false, false, true}, {false, false, false, false, false}})
	}

	// field elements and vectors
	{
		var x fp64.Fp
		_ = x.SetUint64(0x0123456789abcdef)
		xb := mustB(x.MarshalBinary())
		vec := make(fp64.Vec, 5)
		for i := range vec {
			_ = vec[i].SetUint64(uint64(i) * 0x1111111111)
		}
		vb := mustB(vec.MarshalBinary())
		Register(
			Entry{Name: "prio3/fp64.Fp.UnmarshalBinary", Group: "prio3",
				Call:  func(b []byte) { var z fp64.Fp; _ = z.UnmarshalBinary(b) },
				Valid: func(int) []byte { return xb }},
			Entry{Name: "prio3/fp64.Vec.UnmarshalBinary", Group: "prio3",
				Call:  func(b []byte) { z := make(fp64.Vec, 5); _ = z.UnmarshalBinary(b) },
				Valid: func(int) []byte { return vb }},
			Entry{Name: "prio3/fp64.Vec(nil).UnmarshalBinary", Group: "prio3",
				Call:  func(b []byte) { var z fp64.Vec; _ = z.UnmarshalBinary(b) },
				Valid: func(int) []byte { return vb }},
			Entry{Name: "prio3/fp64.Poly-as-Vec.UnmarshalBinary", Group: "prio3",
				Call:  func(b []byte) { z := make(fp64.Poly, 5); _ = fp64.Vec(z).UnmarshalBinary(b); _ = z.Strip() },
				Valid: func(int) []byte { return vb }},
		)
	}
	{
		var x fp128.Fp
		_ = x.SetUint64(0x0123456789abcdef)
		xb := mustB(x.MarshalBinary())
		vec := make(fp128.Vec, 5)
		for i := range vec {
			_ = vec[i].SetUint64(uint64(i) * 0x1111111111)
		}
		vb := mustB(vec.MarshalBinary())
		Register(
			Entry{Name: "prio3/fp128.Fp.UnmarshalBinary", Group: "prio3",
				Call:  func(b []byte) { var z fp128.Fp; _ = z.UnmarshalBinary(b) },
				Valid: func(int) []byte { return xb }},
			Entry{Name: "prio3/fp128.Vec.UnmarshalBinary", Group: "prio3",
				Call:  func(b []byte) { z := make(fp128.Vec, 5); _ = z.UnmarshalBinary(b) },
				Valid: func(int) []byte { return vb }},
			Entry{Name: "prio3/fp128.Vec(nil).UnmarshalBinary", Group: "prio3",
				Call:  func(b []byte) { var z fp128.Vec; _ = z.UnmarshalBinary(b) },
				Valid: func(int) []byte { return vb }},
			Entry{Name: "prio3/fp128.Poly-as-Vec.UnmarshalBinary", Group: "prio3",
				Call:  func(b []byte) { z := make(fp128.Poly, 5); _ = fp128.Vec(z).UnmarshalBinary(b); _ = z.Strip() },
				Valid: func(int) []byte { return vb }},
		)
	}
}
