//go:build verif

package c10b

import (
	"fmt"
	"os"
	"regexp"
	"sort"
	"strings"
	"testing"

	"github.com/cloudflare/circl/zz_verif/vlib"
)

var siteRe = regexp.MustCompile(`(?m)^\s+(/\S+/circl\S*|/repo/\S+|/tmp/wt\S+):(\d+)`)

// TestScratchSites lists distinct panic sites over the deterministic inputs (dev only).
func TestScratchSites(t *testing.T) {
	if os.Getenv("C10B_SCRATCH") == "" {
		t.Skip("dev only")
	}
	sites := map[string]string{}
	try := func(e *Entry, in []byte) {
		p, st := vlib.Catch(func() { e.Call(in) })
		if p == nil {
			return
		}
		site := "?"
		for _, l := range strings.Split(st, "\n") {
			if strings.Contains(l, "zz_verif") || strings.Contains(l, "/usr/lib/go") {
				continue
			}
			if m := siteRe.FindStringSubmatch(l); m != nil {
				site = m[1] + ":" + m[2]
				break
			}
		}
		k := fmt.Sprintf("%s | %s", site, vlib.PanicClass(p))
		if _, ok := sites[k]; !ok {
			sites[k] = fmt.Sprintf("%s len=%d %v in=%s", e.Name, len(in), p, vlib.Hex(in))
		}
	}
	for _, e := range sortedEntries() {
		e := e
		if e.Valid == nil || e.ExactLen > 0 {
			continue
		}
		for vi := 0; vi < max(1, e.NValid); vi++ {
			v := e.Valid(vi)
			if strings.HasPrefix(e.Name, "tkn20.") && (strings.Contains(e.Name, "Ciphertext") || strings.HasSuffix(e.Name, "Key.Decrypt") || strings.Contains(e.Name, "golden")) {
				if !strings.HasSuffix(e.Name, "Key.Decrypt") || vi != 1 {
					for _, in := range tknSweepInputs(v) {
						try(&e, in)
					}
				}
			}
			step := 1
			if e.Cost > 1 {
				step = 7
			}
			for l := 0; l < len(v); l += step {
				try(&e, v[:l])
			}
			try(&e, append(append([]byte{}, v...), 0))
		}
	}
	var ks []string
	for k := range sites {
		ks = append(ks, k)
	}
	sort.Strings(ks)
	for _, k := range ks {
		t.Logf("SITE %s\n      %s", k, sites[k])
	}
}

// TestScratchString: which accepted policy makes String() overflow the stack (dev only; kills the process).
func TestScratchString(t *testing.T) {
	if os.Getenv("C10B_SCRATCH") != "2" {
		t.Skip("dev only")
	}
	e := entryByName("tkn20.Policy.ExtractFromCiphertext")
	for vi := 0; vi < e.NValid; vi++ {
		for i, in := range tknSweepInputs(e.Valid(vi)) {
			var p tknPolicy
			ok := false
			vlib.Catch(func() { ok = p.ExtractFromCiphertext(in) == nil })
			if ok {
				fmt.Fprintf(os.Stderr, "STRING valid=%d input#%d diff=%s\n", vi, i, diffBytes(e.Valid(vi), in))
				vlib.Catch(func() { _ = p.String() })
			}
		}
	}
}

func diffBytes(a, b []byte) string {
	var out []string
	for i := range a {
		if i < len(b) && a[i] != b[i] {
			out = append(out, fmt.Sprintf("@%d:%02x->%02x", i, a[i], b[i]))
		}
	}
	return strings.Join(out, ",")
}

func TestScratchMinimal(t *testing.T) {
	if os.Getenv("C10B_SCRATCH") != "3" {
		t.Skip("dev only")
	}
	wire := "0700" + "0000" + "0000" + "0000" + "01"
	pol3 := "0200" + "0000" + "0300" + wire + wire + wire
	cases := map[string]string{
		"empty":            "",
		"5 bytes":          "0000000000",
		"formula.go:81":    "0000" + "0800" + "0600" + "0400" + "0000" + "0100",
		"policy.go:241":    "0000" + "0800" + "0600" + "0400" + "ffff" + "0000",
		"policy.go:250":    "0000" + "0a00" + "0800" + "0600" + "0200" + "0000" + "0100",
		"policy.go:253":    "0000" + "0c00" + "0a00" + "0800" + "0200" + "0000" + "0100" + "ffff",
		"tk.go:413":        "0000" + "1000" + "0e00" + "0600" + "0200" + "0000" + "0000" + "0400" + "00000000",
		"tk.go:432":        "0000" + "1200" + "1000" + "0600" + "0200" + "0000" + "0000" + "0400" + "00000000" + "0000",
		"formula.go:193":   "0000" + "2f00" + "2d00" + "2100" + pol3 + "0400" + "00000000" + "0000" + "0000",
	}
	var names []string
	for n := range cases {
		names = append(names, n)
	}
	sort.Strings(names)
	for _, n := range names {
		in, err := hexDecode(cases[n])
		if err != nil {
			t.Fatal(err)
		}
		for _, en := range []string{"tkn20.Policy.ExtractFromCiphertext", "tkn20.Attributes.CouldDecrypt", "tkn20.AttributeKey.Decrypt"} {
			e := entryByName(en)
			p, st := vlib.Catch(func() { e.Call(in) })
			site := ""
			for _, l := range strings.Split(st, "\n") {
				if m := siteRe.FindStringSubmatch(l); m != nil && !strings.Contains(l, "zz_verif") {
					site = m[1] + ":" + m[2]
					break
				}
			}
			t.Logf("%-16s %-36s %d bytes %s -> %v %s", n, en, len(in), cases[n], p, site)
		}
	}
}

func hexDecode(s string) ([]byte, error) {
	b := make([]byte, len(s)/2)
	_, err := fmt.Sscanf(s, "%x", &b)
	if len(s) == 0 {
		return []byte{}, nil
	}
	return b, err
}
