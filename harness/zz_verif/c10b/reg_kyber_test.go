//go:build verif

package c10b

// Package-level functions of pke/kyber/*, kem/kyber/* and kem/frodo/frodo640shake.
// Unpack, DecryptTo and DecapsulateTo document a panic for any length other
// than the fixed one ("Panics if buf is not of size …"): they receive hostile
// content of exactly that length (ExactLen). UnpackMLKEM returns an error and
// receives all lengths. (The kem.Scheme methods of these packages are covered
// by the c10 binary through kem/schemes.All().)

import (
	kemfrodo "github.com/cloudflare/circl/kem/frodo/frodo640shake"
	kem1024 "github.com/cloudflare/circl/kem/kyber/kyber1024"
	kem512 "github.com/cloudflare/circl/kem/kyber/kyber512"
	kem768 "github.com/cloudflare/circl/kem/kyber/kyber768"
	pke1024 "github.com/cloudflare/circl/pke/kyber/kyber1024"
	pke512 "github.com/cloudflare/circl/pke/kyber/kyber512"
	pke768 "github.com/cloudflare/circl/pke/kyber/kyber768"
)

func init() {
	{
		pk, sk := pke512.NewKeyFromSeed(seedBytes(pke512.KeySeedSize, 400))
		pkb := make([]byte, pke512.PublicKeySize)
		pk.Pack(pkb)
		skb := make([]byte, pke512.PrivateKeySize)
		sk.Pack(skb)
		pt := seedBytes(pke512.PlaintextSize, 400+1)
		seed := seedBytes(pke512.EncryptionSeedSize, 400+2)
		ct := make([]byte, pke512.CiphertextSize)
		pk.EncryptTo(ct, pt, seed)
		mpk, _ := pke512.NewKeyFromSeedMLKEM(seedBytes(pke512.KeySeedSize, 400+3))
		mpkb := make([]byte, pke512.PublicKeySize)
		mpk.Pack(mpkb)
		Register(
			Entry{Name: "pke/kyber512.PublicKey.Unpack", Group: "kyber", ExactLen: pke512.PublicKeySize,
				Call: func(b []byte) {
					var k pke512.PublicKey
					k.Unpack(b)
					k.EncryptTo(make([]byte, pke512.CiphertextSize), pt, seed)
					k.Pack(make([]byte, pke512.PublicKeySize))
				},
				Valid: func(int) []byte { return pkb }},
			Entry{Name: "pke/kyber512.PublicKey.UnpackMLKEM", Group: "kyber", NValid: 2,
				Call: func(b []byte) {
					var k pke512.PublicKey
					if k.UnpackMLKEM(b) == nil {
						k.EncryptTo(make([]byte, pke512.CiphertextSize), pt, seed)
					}
				},
				Valid: func(i int) []byte { return [][]byte{mpkb, pkb}[i%2] }},
			Entry{Name: "pke/kyber512.PrivateKey.Unpack", Group: "kyber", ExactLen: pke512.PrivateKeySize,
				Call: func(b []byte) {
					var k pke512.PrivateKey
					k.Unpack(b)
					k.DecryptTo(make([]byte, pke512.PlaintextSize), ct)
					_ = k.Equal(sk)
				},
				Valid: func(int) []byte { return skb }},
			Entry{Name: "pke/kyber512.PrivateKey.DecryptTo", Group: "kyber", ExactLen: pke512.CiphertextSize,
				Call:  func(b []byte) { sk.DecryptTo(make([]byte, pke512.PlaintextSize), b) },
				Valid: func(int) []byte { return ct }},
		)
	}
	{
		pk, sk := pke768.NewKeyFromSeed(seedBytes(pke768.KeySeedSize, 410))
		pkb := make([]byte, pke768.PublicKeySize)
		pk.Pack(pkb)
		skb := make([]byte, pke768.PrivateKeySize)
		sk.Pack(skb)
		pt := seedBytes(pke768.PlaintextSize, 410+1)
		seed := seedBytes(pke768.EncryptionSeedSize, 410+2)
		ct := make([]byte, pke768.CiphertextSize)
		pk.EncryptTo(ct, pt, seed)
		mpk, _ := pke768.NewKeyFromSeedMLKEM(seedBytes(pke768.KeySeedSize, 410+3))
		mpkb := make([]byte, pke768.PublicKeySize)
		mpk.Pack(mpkb)
		Register(
			Entry{Name: "pke/kyber768.PublicKey.Unpack", Group: "kyber", ExactLen: pke768.PublicKeySize,
				Call: func(b []byte) {
					var k pke768.PublicKey
					k.Unpack(b)
					k.EncryptTo(make([]byte, pke768.CiphertextSize), pt, seed)
					k.Pack(make([]byte, pke768.PublicKeySize))
				},
				Valid: func(int) []byte { return pkb }},
			Entry{Name: "pke/kyber768.PublicKey.UnpackMLKEM", Group: "kyber", NValid: 2,
				Call: func(b []byte) {
					var k pke768.PublicKey
					if k.UnpackMLKEM(b) == nil {
						k.EncryptTo(make([]byte, pke768.CiphertextSize), pt, seed)
					}
				},
				Valid: func(i int) []byte { return [][]byte{mpkb, pkb}[i%2] }},
			Entry{Name: "pke/kyber768.PrivateKey.Unpack", Group: "kyber", ExactLen: pke768.PrivateKeySize,
				Call: func(b []byte) {
					var k pke768.PrivateKey
					k.Unpack(b)
					k.DecryptTo(make([]byte, pke768.PlaintextSize), ct)
					_ = k.Equal(sk)
				},
				Valid: func(int) []byte { return skb }},
			Entry{Name: "pke/kyber768.PrivateKey.DecryptTo", Group: "kyber", ExactLen: pke768.CiphertextSize,
				Call:  func(b []byte) { sk.DecryptTo(make([]byte, pke768.PlaintextSize), b) },
				Valid: func(int) []byte { return ct }},
		)
	}
	{
		pk, sk := pke1024.NewKeyFromSeed(seedBytes(pke1024.KeySeedSize, 420))
		pkb := make([]byte, pke1024.PublicKeySize)
		pk.Pack(pkb)
		skb := make([]byte, pke1024.PrivateKeySize)
		sk.Pack(skb)
		pt := seedBytes(pke1024.PlaintextSize, 420+1)
		seed := seedBytes(pke1024.EncryptionSeedSize, 420+2)
		ct := make([]byte, pke1024.CiphertextSize)
		pk.EncryptTo(ct, pt, seed)
		mpk, _ := pke1024.NewKeyFromSeedMLKEM(seedBytes(pke1024.KeySeedSize, 420+3))
		mpkb := make([]byte, pke1024.PublicKeySize)
		mpk.Pack(mpkb)
		Register(
			Entry{Name: "pke/kyber1024.PublicKey.Unpack", Group: "kyber", ExactLen: pke1024.PublicKeySize,
				Call: func(b []byte) {
					var k pke1024.PublicKey
					k.Unpack(b)
					k.EncryptTo(make([]byte, pke1024.CiphertextSize), pt, seed)
					k.Pack(make([]byte, pke1024.PublicKeySize))
				},
				Valid: func(int) []byte { return pkb }},
			Entry{Name: "pke/kyber1024.PublicKey.UnpackMLKEM", Group: "kyber", NValid: 2,
				Call: func(b []byte) {
					var k pke1024.PublicKey
					if k.UnpackMLKEM(b) == nil {
						k.EncryptTo(make([]byte, pke1024.CiphertextSize), pt, seed)
					}
				},
				Valid: func(i int) []byte { return [][]byte{mpkb, pkb}[i%2] }},
			Entry{Name: "pke/kyber1024.PrivateKey.Unpack", Group: "kyber", ExactLen: pke1024.PrivateKeySize,
				Call: func(b []byte) {
					var k pke1024.PrivateKey
					k.Unpack(b)
					k.DecryptTo(make([]byte, pke1024.PlaintextSize), ct)
					_ = k.Equal(sk)
				},
				Valid: func(int) []byte { return skb }},
			Entry{Name: "pke/kyber1024.PrivateKey.DecryptTo", Group: "kyber", ExactLen: pke1024.CiphertextSize,
				Call:  func(b []byte) { sk.DecryptTo(make([]byte, pke1024.PlaintextSize), b) },
				Valid: func(int) []byte { return ct }},
		)
	}
	{
		pk, sk := kem512.Scheme().DeriveKeyPair(seedBytes(kem512.KeySeedSize, 430))
		pkb, skb := mustB(pk.MarshalBinary()), mustB(sk.MarshalBinary())
		eseed := seedBytes(kem512.EncapsulationSeedSize, 430+1)
		ct := make([]byte, kem512.CiphertextSize)
		pk.(*kem512.PublicKey).EncapsulateTo(ct, make([]byte, kem512.SharedKeySize), eseed)
		Register(
			Entry{Name: "kem/kyber512.PublicKey.Unpack", Group: "kyber", Cost: 1, ExactLen: kem512.PublicKeySize,
				Call: func(b []byte) {
					var k kem512.PublicKey
					k.Unpack(b)
					k.EncapsulateTo(make([]byte, kem512.CiphertextSize), make([]byte, kem512.SharedKeySize), eseed)
					k.Pack(make([]byte, kem512.PublicKeySize))
				},
				Valid: func(int) []byte { return pkb }},
			Entry{Name: "kem/kyber512.PrivateKey.Unpack", Group: "kyber", Cost: 1, ExactLen: kem512.PrivateKeySize,
				Call: func(b []byte) {
					var k kem512.PrivateKey
					k.Unpack(b)
					k.DecapsulateTo(make([]byte, kem512.SharedKeySize), ct)
					k.Pack(make([]byte, kem512.PrivateKeySize))
					_ = k.Public()
				},
				Valid: func(int) []byte { return skb }},
			Entry{Name: "kem/kyber512.PrivateKey.DecapsulateTo", Group: "kyber", Cost: 1, ExactLen: kem512.CiphertextSize,
				Call:  func(b []byte) { sk.(*kem512.PrivateKey).DecapsulateTo(make([]byte, kem512.SharedKeySize), b) },
				Valid: func(int) []byte { return ct }},
		)
	}
	{
		pk, sk := kem768.Scheme().DeriveKeyPair(seedBytes(kem768.KeySeedSize, 440))
		pkb, skb := mustB(pk.MarshalBinary()), mustB(sk.MarshalBinary())
		eseed := seedBytes(kem768.EncapsulationSeedSize, 440+1)
		ct := make([]byte, kem768.CiphertextSize)
		pk.(*kem768.PublicKey).EncapsulateTo(ct, make([]byte, kem768.SharedKeySize), eseed)
		Register(
			Entry{Name: "kem/kyber768.PublicKey.Unpack", Group: "kyber", Cost: 1, ExactLen: kem768.PublicKeySize,
				Call: func(b []byte) {
					var k kem768.PublicKey
					k.Unpack(b)
					k.EncapsulateTo(make([]byte, kem768.CiphertextSize), make([]byte, kem768.SharedKeySize), eseed)
					k.Pack(make([]byte, kem768.PublicKeySize))
				},
				Valid: func(int) []byte { return pkb }},
			Entry{Name: "kem/kyber768.PrivateKey.Unpack", Group: "kyber", Cost: 1, ExactLen: kem768.PrivateKeySize,
				Call: func(b []byte) {
					var k kem768.PrivateKey
					k.Unpack(b)
					k.DecapsulateTo(make([]byte, kem768.SharedKeySize), ct)
					k.Pack(make([]byte, kem768.PrivateKeySize))
					_ = k.Public()
				},
				Valid: func(int) []byte { return skb }},
			Entry{Name: "kem/kyber768.PrivateKey.DecapsulateTo", Group: "kyber", Cost: 1, ExactLen: kem768.CiphertextSize,
				Call:  func(b []byte) { sk.(*kem768.PrivateKey).DecapsulateTo(make([]byte, kem768.SharedKeySize), b) },
				Valid: func(int) []byte { return ct }},
		)
	}
	{
		pk, sk := kem1024.Scheme().DeriveKeyPair(seedBytes(kem1024.KeySeedSize, 450))
		pkb, skb := mustB(pk.MarshalBinary()), mustB(sk.MarshalBinary())
		eseed := seedBytes(kem1024.EncapsulationSeedSize, 450+1)
		ct := make([]byte, kem1024.CiphertextSize)
		pk.(*kem1024.PublicKey).EncapsulateTo(ct, make([]byte, kem1024.SharedKeySize), eseed)
		Register(
			Entry{Name: "kem/kyber1024.PublicKey.Unpack", Group: "kyber", Cost: 1, ExactLen: kem1024.PublicKeySize,
				Call: func(b []byte) {
					var k kem1024.PublicKey
					k.Unpack(b)
					k.EncapsulateTo(make([]byte, kem1024.CiphertextSize), make([]byte, kem1024.SharedKeySize), eseed)
					k.Pack(make([]byte, kem1024.PublicKeySize))
				},
				Valid: func(int) []byte { return pkb }},
			Entry{Name: "kem/kyber1024.PrivateKey.Unpack", Group: "kyber", Cost: 1, ExactLen: kem1024.PrivateKeySize,
				Call: func(b []byte) {
					var k kem1024.PrivateKey
					k.Unpack(b)
					k.DecapsulateTo(make([]byte, kem1024.SharedKeySize), ct)
					k.Pack(make([]byte, kem1024.PrivateKeySize))
					_ = k.Public()
				},
				Valid: func(int) []byte { return skb }},
			Entry{Name: "kem/kyber1024.PrivateKey.DecapsulateTo", Group: "kyber", Cost: 1, ExactLen: kem1024.CiphertextSize,
				Call:  func(b []byte) { sk.(*kem1024.PrivateKey).DecapsulateTo(make([]byte, kem1024.SharedKeySize), b) },
				Valid: func(int) []byte { return ct }},
		)
	}
	{
		pk, sk := kemfrodo.Scheme().DeriveKeyPair(seedBytes(kemfrodo.KeySeedSize, 460))
		pkb, skb := mustB(pk.MarshalBinary()), mustB(sk.MarshalBinary())
		eseed := seedBytes(kemfrodo.EncapsulationSeedSize, 460+1)
		ct := make([]byte, kemfrodo.CiphertextSize)
		pk.(*kemfrodo.PublicKey).EncapsulateTo(ct, make([]byte, kemfrodo.SharedKeySize), eseed)
		Register(
			Entry{Name: "kem/frodo640shake.PublicKey.Unpack", Group: "kyber", Cost: 25, ExactLen: kemfrodo.PublicKeySize,
				Call: func(b []byte) {
					var k kemfrodo.PublicKey
					k.Unpack(b)
					k.EncapsulateTo(make([]byte, kemfrodo.CiphertextSize), make([]byte, kemfrodo.SharedKeySize), eseed)
					k.Pack(make([]byte, kemfrodo.PublicKeySize))
				},
				Valid: func(int) []byte { return pkb }},
			Entry{Name: "kem/frodo640shake.PrivateKey.Unpack", Group: "kyber", Cost: 25, ExactLen: kemfrodo.PrivateKeySize,
				Call: func(b []byte) {
					var k kemfrodo.PrivateKey
					k.Unpack(b)
					k.DecapsulateTo(make([]byte, kemfrodo.SharedKeySize), ct)
					k.Pack(make([]byte, kemfrodo.PrivateKeySize))
					_ = k.Public()
				},
				Valid: func(int) []byte { return skb }},
			Entry{Name: "kem/frodo640shake.PrivateKey.DecapsulateTo", Group: "kyber", Cost: 25, ExactLen: kemfrodo.CiphertextSize,
				Call:  func(b []byte) { sk.(*kemfrodo.PrivateKey).DecapsulateTo(make([]byte, kemfrodo.SharedKeySize), b) },
				Valid: func(int) []byte { return ct }},
		)
	}
}
