//go:build verif

package c10b

import (
	"crypto"
	"crypto/rsa"
	"crypto/x509"
	"encoding/hex"
	"encoding/pem"
	"math/big"
	"os"
	"path/filepath"

	"github.com/cloudflare/circl/blindsign/blindrsa"
	"github.com/cloudflare/circl/blindsign/blindrsa/partiallyblindrsa"
	"github.com/cloudflare/circl/cipher/ascon"
	"github.com/cloudflare/circl/dh/csidh"
	"github.com/cloudflare/circl/dh/curve4q"
	"github.com/cloudflare/circl/dh/sidh"
	"github.com/cloudflare/circl/dh/x25519"
	"github.com/cloudflare/circl/dh/x448"
	"github.com/cloudflare/circl/group"
	"github.com/cloudflare/circl/kem"
	"github.com/cloudflare/circl/kem/sike/sikep434"
	"github.com/cloudflare/circl/kem/sike/sikep503"
	"github.com/cloudflare/circl/kem/sike/sikep751"
	"github.com/cloudflare/circl/ot/simot"
	"github.com/cloudflare/circl/pki"
	"github.com/cloudflare/circl/sign"
	"github.com/cloudflare/circl/sign/schemes"
	"github.com/cloudflare/circl/zz_verif/vlib"
)

func mustHex(s string) []byte {
	b, err := hex.DecodeString(s)
	if err != nil {
		panic(err)
	}
	return b
}

// A fixed 2048-bit RSA key whose primes are safe primes (needed by
// partiallyblindrsa.NewSigner). Public test data: the key used by circl's own
// tests (blindsign/blindrsa/brsa_test.go loadStrongRSAKey,
// https://gist.github.com/chris-wood/b77536febb25a5a11af428afff77820a).
func strongRSAKey() *rsa.PrivateKey {
	p := new(big.Int).SetBytes(mustHex("dcd90af1be463632c0d5ea555256a20605af3db667475e190e3af12a34a3324c46a3094062c59fb4b249e0ee6afba8bee14e0276d126c99f4784b23009bf6168ff628ac1486e5ae8e23ce4d362889de4df63109cbd90ef93db5ae64372bfe1c55f832766f21e94ea3322eb2182f10a891546536ba907ad74b8d72469bea396f3"))
	q := new(big.Int).SetBytes(mustHex("f8ba5c89bd068f57234a3cf54a1c89d5b4cd0194f2633ca7c60b91a795a56fa8c8686c0e37b1c4498b851e3420d08bea29f71d195cfbd3671c6ddc49cf4c1db5b478231ea9d91377ffa98fe95685fca20ba4623212b2f2def4da5b281ed0100b651f6db32112e4017d831c0da668768afa7141d45bbc279f1e0f8735d74395b3"))
	n := new(big.Int).SetBytes(mustHex("d6930820f71fe517bf3259d14d40209b02a5c0d3d61991c731dd7da39f8d69821552e2318d6c9ad897e603887a476ea3162c1205da9ac96f02edf31df049bd55f142134c17d4382a0e78e275345f165fbe8e49cdca6cf5c726c599dd39e09e75e0f330a33121e73976e4facba9cfa001c28b7c96f8134f9981db6750b43a41710f51da4240fe03106c12acb1e7bb53d75ec7256da3fddd0718b89c365410fce61bc7c99b115fb4c3c318081fa7e1b65a37774e8e50c96e8ce2b2cc6b3b367982366a2bf9924c4bafdb3ff5e722258ab705c76d43e5f1f121b984814e98ea2b2b8725cd9bc905c0bc3d75c2a8db70a7153213c39ae371b2b5dc1dafcb19d6fae9"))
	d := new(big.Int).SetBytes(mustHex("4e21356983722aa1adedb084a483401c1127b781aac89eab103e1cfc52215494981d18dd8028566d9d499469c25476358de23821c78a6ae43005e26b394e3051b5ca206aa9968d68cae23b5affd9cbb4cb16d64ac7754b3cdba241b72ad6ddfc000facdb0f0dd03abd4efcfee1730748fcc47b7621182ef8af2eeb7c985349f62ce96ab373d2689baeaea0e28ea7d45f2d605451920ca4ea1f0c08b0f1f6711eaa4b7cca66d58a6b916f9985480f90aca97210685ac7b12d2ec3e30a1c7b97b65a18d38a93189258aa346bf2bc572cd7e7359605c20221b8909d599ed9d38164c9c4abf396f897b9993c1e805e574d704649985b600fa0ced8e5427071d7049d"))
	return &rsa.PrivateKey{PublicKey: rsa.PublicKey{N: n, E: 65537}, D: d, Primes: []*big.Int{p, q}}
}

// derLenFields returns the positions of the DER length octets of b (recursing
// into SEQUENCEs and into OCTET STRINGs whose content parses as DER), at most 12.
func derLenFields(b []byte) [][2]int {
	var walk func(base int, b []byte, depth int) ([][2]int, bool)
	walk = func(base int, b []byte, depth int) ([][2]int, bool) {
		var out [][2]int
		o := 0
		for o < len(b) {
			if o+2 > len(b) {
				return nil, false
			}
			tag, l, hdr := b[o], int(b[o+1]), 2
			if l&0x80 != 0 {
				nb := l & 0x7f
				if nb == 0 || nb > 3 || o+2+nb > len(b) {
					return nil, false
				}
				l = 0
				for i := 0; i < nb; i++ {
					l = l<<8 | int(b[o+2+i])
				}
				out = append(out, [2]int{base + o + 1, 1}, [2]int{base + o + 2, nb})
				hdr = 2 + nb
			} else {
				out = append(out, [2]int{base + o + 1, 1})
			}
			if o+hdr+l > len(b) {
				return nil, false
			}
			if depth < 4 && (tag == 0x30 || tag == 0x04 && l > 2) {
				if inner, ok := walk(base+o+hdr, b[o+hdr:o+hdr+l], depth+1); ok {
					out = append(out, inner...)
				}
			}
			o += hdr + l
		}
		return out, true
	}
	out, _ := walk(0, b, 0)
	if len(out) > 12 {
		out = out[:12]
	}
	return out
}

func init() {
	regBlindRSA()
	regAscon()
	regPKI()
	regCSIDH()
	regSIDH()
	regDH()
	regSimOT()
}

// loadRSAKey reads a PKCS#1 PEM key from this package's testdata directory.
func loadRSAKey(file string) *rsa.PrivateKey {
	data, err := os.ReadFile(filepath.Join(vlib.Harness, "zz_verif", "c10b", "testdata", file))
	if err != nil {
		panic(err)
	}
	blk, _ := pem.Decode(data)
	if blk == nil {
		panic("no PEM block in " + file)
	}
	k, err := x509.ParsePKCS1PrivateKey(blk.Bytes)
	if err != nil {
		panic(err)
	}
	return k
}

// Besides the byte-aligned 2048-bit key, moduli of 1025 and 2049 bits (safe
// primes; copies of c18/testdata/rsa-{1025,2049}-safe-0.pem): with a bit
// length ≡ 1 (mod 8) the PSS encoded message is one byte shorter than the
// modulus, so s^e mod N of a hostile signature s < N may not fit the buffer —
// the length checks on that path are reachable only with such a key.
func regBlindRSA() {
	allVariants := []blindVariant{{"PSS-Randomized", blindrsa.SHA384PSSRandomized}, {"PSSZERO-Randomized", blindrsa.SHA384PSSZeroRandomized},
		{"PSS-Deterministic", blindrsa.SHA384PSSDeterministic}, {"PSSZERO-Deterministic", blindrsa.SHA384PSSZeroDeterministic}}
	regBlindRSAKey("", strongRSAKey(), allVariants, []crypto.Hash{crypto.SHA384, crypto.SHA256})
	regBlindRSAKey("1025-bit", loadRSAKey("rsa-1025-safe-0.pem"), allVariants[:2], []crypto.Hash{crypto.SHA384})
	regBlindRSAKey("2049-bit", loadRSAKey("rsa-2049-safe-0.pem"), allVariants[:2], []crypto.Hash{crypto.SHA384})
}

type blindVariant struct {
	name string
	v    blindrsa.Variant
}

func regBlindRSAKey(tag string, key *rsa.PrivateKey, variants []blindVariant, hashes []crypto.Hash) {
	sep, dot := "", ""
	if tag != "" {
		sep, dot = tag+"/", "/"+tag
	}
	kLen := (key.N.BitLen() + 7) / 8
	// the integers 0, 1, N-1, N, N+1, 2^(8k)-1 and p as k-byte strings
	var hostileInts [][]byte
	for _, v := range []*big.Int{big.NewInt(0), big.NewInt(1), new(big.Int).Sub(key.N, big.NewInt(1)), key.N, new(big.Int).Add(key.N, big.NewInt(1)),
		new(big.Int).Sub(new(big.Int).Lsh(big.NewInt(1), uint(8*kLen)), big.NewInt(1)), key.Primes[0]} {
		hostileInts = append(hostileInts, v.FillBytes(make([]byte, kLen)))
	}
	signer := blindrsa.NewSigner(key)
	for _, vr := range variants {
		vr := vr
		client, err := blindrsa.NewClient(vr.v, &key.PublicKey)
		if err != nil {
			panic(err)
		}
		verifier, err := blindrsa.NewVerifier(vr.v, &key.PublicKey)
		if err != nil {
			panic(err)
		}
		msg, err := client.Prepare(vlib.NewReader(300), []byte("c10b message"))
		if err != nil {
			panic(err)
		}
		blinded, state, err := client.Blind(vlib.NewReader(301), msg)
		if err != nil {
			panic(err)
		}
		blindSig, err := signer.BlindSign(blinded)
		if err != nil {
			panic(err)
		}
		sig, err := client.Finalize(state, blindSig)
		if err != nil {
			panic(err)
		}
		if verifier.Verify(msg, sig) != nil {
			panic("blindrsa fixture does not verify")
		}
		name := "blindrsa/" + sep + vr.name
		if vr.v == blindrsa.SHA384PSSRandomized {
			// the signer does not depend on the variant: one entry
			addCorpus("blindrsa"+dot+".Signer.BlindSign", hostileInts...)
			Register(Entry{Name: "blindrsa" + dot + ".Signer.BlindSign", Group: "blindrsa", Moduli: [][]byte{key.N.Bytes()}, Cost: 6,
				Call:  func(b []byte) { _, _ = signer.BlindSign(b) },
				Valid: func(int) []byte { return blinded }})
		}
		Register(
			Entry{Name: name + ".Client.Finalize", Group: "blindrsa", Moduli: [][]byte{key.N.Bytes()},
				Call:  func(b []byte) { _, _ = client.Finalize(state, b) },
				Valid: func(int) []byte { return blindSig }},
			Entry{Name: name + ".Verifier.Verify", Group: "blindrsa", Moduli: [][]byte{key.N.Bytes()},
				Call:  func(b []byte) { _ = verifier.Verify(msg, b); _ = client.Verify(msg, b) },
				Valid: func(int) []byte { return sig }},
		)
		addCorpus(name+".Client.Finalize", hostileInts...)
		addCorpus(name+".Verifier.Verify", hostileInts...)
	}

	// partially blind RSA
	for _, h := range hashes {
		h := h
		psigner, err := partiallyblindrsa.NewSigner(key, h)
		if err != nil {
			panic(err)
		}
		pverifier := partiallyblindrsa.NewVerifier(&key.PublicKey, h)
		metadata := []byte("metadata")
		pmsg := []byte("c10b partially blind message")
		r, rInv := new(big.Int).SetBytes(seedBytes(kLen-1, 310)), new(big.Int)
		for rInv.ModInverse(r, key.N) == nil {
			r.Add(r, big.NewInt(1))
		}
		pblinded, pstate, err := pverifier.FixedBlind(pmsg, metadata, seedBytes(h.Size(), 311), r.Bytes(), rInv.Bytes())
		if err != nil {
			panic(err)
		}
		pblindSig, err := psigner.BlindSign(pblinded, metadata)
		if err != nil {
			panic(err)
		}
		psig, err := pstate.Finalize(pblindSig)
		if err != nil {
			panic(err)
		}
		if pverifier.Verify(pmsg, metadata, psig) != nil {
			panic("partiallyblindrsa fixture does not verify")
		}
		name := "partiallyblindrsa/" + sep + h.String()
		addCorpus(name+".Signer.BlindSign", hostileInts...)
		addCorpus(name+".VerifierState.Finalize", hostileInts...)
		addCorpus(name+".Verifier.Verify", hostileInts...)
		Register(
			Entry{Name: name + ".Signer.BlindSign", Group: "blindrsa", Moduli: [][]byte{key.N.Bytes()}, Cost: 12,
				Call:  func(b []byte) { _, _ = psigner.BlindSign(b, metadata) },
				Valid: func(int) []byte { return pblinded }},
			Entry{Name: name + ".Signer.BlindSign(hostile-metadata)", Group: "blindrsa", Moduli: [][]byte{key.N.Bytes()}, Cost: 12,
				Call:  func(b []byte) { _, _ = psigner.BlindSign(pblinded, b) },
				Valid: func(int) []byte { return metadata }},
			Entry{Name: name + ".VerifierState.Finalize", Group: "blindrsa", Moduli: [][]byte{key.N.Bytes()}, Cost: 3,
				Call:  func(b []byte) { _, _ = pstate.Finalize(b) },
				Valid: func(int) []byte { return pblindSig }},
			Entry{Name: name + ".Verifier.Verify", Group: "blindrsa", Moduli: [][]byte{key.N.Bytes()}, Cost: 3,
				Call:  func(b []byte) { _ = pverifier.Verify(pmsg, metadata, b) },
				Valid: func(int) []byte { return psig }},
			Entry{Name: name + ".Verifier.Verify(hostile-metadata)", Group: "blindrsa", Moduli: [][]byte{key.N.Bytes()}, Cost: 3,
				Call:  func(b []byte) { _ = pverifier.Verify(pmsg, b, psig) },
				Valid: func(int) []byte { return metadata }},
		)
	}
}

func regAscon() {
	for _, m := range []ascon.Mode{ascon.Ascon128, ascon.Ascon128a, ascon.Ascon80pq} {
		m := m
		c, err := ascon.New(seedBytes(m.KeySize(), 320), m)
		if err != nil {
			panic(err)
		}
		nonce := seedBytes(ascon.NonceSize, 321)
		ad := []byte("associated data of c10b")
		var cts [][]byte
		for _, n := range []int{0, 1, 7, 8, 16, 17, 33} {
			cts = append(cts, c.Seal(nil, nonce, seedBytes(n, uint64(322+n)), ad))
		}
		Register(
			Entry{Name: "ascon/" + m.String() + ".Open(hostile-ciphertext)", Group: "ascon", NValid: len(cts), Sizes: []int{16, 24, 49},
				Call:  func(b []byte) { _, _ = c.Open(nil, nonce, b, ad) },
				Valid: func(i int) []byte { return cts[i%len(cts)] }},
			Entry{Name: "ascon/" + m.String() + ".Open(hostile-ciphertext,in-place)", Group: "ascon", NValid: len(cts), Sizes: []int{16, 24, 49},
				Call:  func(b []byte) { b = append([]byte{}, b...); _, _ = c.Open(b[:0], nonce, b, ad) },
				Valid: func(i int) []byte { return cts[i%len(cts)] }},
			Entry{Name: "ascon/" + m.String() + ".Open(hostile-ad)", Group: "ascon",
				Call:  func(b []byte) { _, _ = c.Open(nil, nonce, cts[5], b) },
				Valid: func(int) []byte { return ad }},
		)
	}
}

func regPKI() {
	var pemPub, pemPriv, derPub, derPriv [][]byte
	for _, s := range schemes.All() {
		if _, ok := s.(pki.CertificateScheme); !ok {
			continue
		}
		switch s.Name() {
		case "Ed25519", "Ed448", "Ed25519-Dilithium2", "Ed448-Dilithium3", "ML-DSA-44":
		default:
			continue // the remaining schemes differ only in sizes
		}
		pk, sk := s.DeriveKey(seedBytes(s.SeedSize(), 330))
		pemPub = append(pemPub, mustB(pki.MarshalPEMPublicKey(pk)))
		pemPriv = append(pemPriv, mustB(pki.MarshalPEMPrivateKey(sk)))
		derPub = append(derPub, mustB(pki.MarshalPKIXPublicKey(pk)))
		derPriv = append(derPriv, mustB(pki.MarshalPKIXPrivateKey(sk)))
	}
	if len(pemPub) == 0 {
		panic("no certificate schemes")
	}
	// further well-formed PEM inputs: wrong block type, empty block, headers, two blocks, unknown OID, an RSA-style key
	extra := [][]byte{
		pem.EncodeToMemory(&pem.Block{Type: "CERTIFICATE", Bytes: derPub[0]}),
		pem.EncodeToMemory(&pem.Block{Type: "PUBLIC KEY", Bytes: nil}),
		pem.EncodeToMemory(&pem.Block{Type: "PRIVATE KEY", Bytes: nil}),
		pem.EncodeToMemory(&pem.Block{Type: "", Bytes: derPub[0]}),
		pem.EncodeToMemory(&pem.Block{Type: "PUBLIC KEY", Headers: map[string]string{"Proc-Type": "4,ENCRYPTED"}, Bytes: derPub[0]}),
		append(append([]byte{}, pemPub[0]...), pemPub[0]...),
		pem.EncodeToMemory(&pem.Block{Type: "PUBLIC KEY", Bytes: mustHex("302a300506032b656e032100" + "00112233445566778899aabbccddeeff00112233445566778899aabbccddeeff")}), // X25519 OID: unsupported algorithm
		pem.EncodeToMemory(&pem.Block{Type: "PUBLIC KEY", Bytes: mustHex("302a300506032b6571032100" + "00112233445566778899aabbccddeeff00112233445566778899aabbccddeeff")}), // Ed448 OID with a 32-byte key
		pem.EncodeToMemory(&pem.Block{Type: "PRIVATE KEY", Bytes: mustHex("302e020100300506032b657004220420" + "00112233445566778899aabbccddeeff00112233445566778899aabbccddeeff")}),
		pem.EncodeToMemory(&pem.Block{Type: "PRIVATE KEY", Bytes: mustHex("302c020100300506032b6570042000112233445566778899aabbccddeeff00112233445566778899aabbccddeeff")}), // inner OCTET STRING missing
		[]byte("-----BEGIN PUBLIC KEY-----\n-----END PUBLIC KEY-----\n"),
		[]byte("-----BEGIN PUBLIC KEY-----\n"),
		[]byte("garbage that is not PEM\n"),
		[]byte("\n"),
	}
	addCorpus("pki.UnmarshalPEMPublicKey", extra...)
	addCorpus("pki.UnmarshalPEMPublicKey", pemPriv...) // a private key where a public key is expected
	addCorpus("pki.UnmarshalPEMPrivateKey", extra...)
	addCorpus("pki.UnmarshalPEMPrivateKey", pemPub...)
	for _, e := range extra {
		if blk, _ := pem.Decode(e); blk != nil && len(blk.Bytes) > 0 {
			for _, n := range []string{"Ed25519", "Ed448"} {
				addCorpus("pki.UnmarshalPKIXPublicKey/"+n, blk.Bytes)
				addCorpus("pki.UnmarshalPKIXPrivateKey/"+n, blk.Bytes)
			}
		}
	}
	Register(
		Entry{Name: "pki.UnmarshalPEMPublicKey", Group: "pki", NValid: len(pemPub),
			Call:  func(b []byte) { _, _ = pki.UnmarshalPEMPublicKey(b) },
			Valid: func(i int) []byte { return pemPub[i%len(pemPub)] }},
		Entry{Name: "pki.UnmarshalPEMPrivateKey", Group: "pki", NValid: len(pemPriv),
			Call:  func(b []byte) { _, _ = pki.UnmarshalPEMPrivateKey(b) },
			Valid: func(i int) []byte { return pemPriv[i%len(pemPriv)] }},
	)
	// PKIX: one entry per scheme so that the DER length octets can be named
	for i := range derPub {
		i := i
		tag := []string{"Ed25519", "Ed448", "Ed25519-Dilithium2", "Ed448-Dilithium3", "ML-DSA-44"}[i]
		Register(
			Entry{Name: "pki.UnmarshalPKIXPublicKey/" + tag, Group: "pki", LenFields: derLenFields(derPub[i]),
				Call: func(b []byte) {
					if k, err := pki.UnmarshalPKIXPublicKey(b); err == nil && k != nil {
						_, _ = k.MarshalBinary()
						_ = k.Scheme().Verify(k, []byte("m"), make([]byte, k.Scheme().SignatureSize()), nil)
					}
				},
				Valid: func(int) []byte { return derPub[i] }},
			Entry{Name: "pki.UnmarshalPKIXPrivateKey/" + tag, Group: "pki", LenFields: derLenFields(derPriv[i]),
				Call: func(b []byte) {
					if k, err := pki.UnmarshalPKIXPrivateKey(b); err == nil && k != nil {
						_, _ = k.MarshalBinary()
						var opts *sign.SignatureOpts
						_ = k.Scheme().Sign(k, []byte("m"), opts)
					}
				},
				Valid: func(int) []byte { return derPriv[i] }},
		)
	}
}

func regCSIDH() {
	var prv csidh.PrivateKey
	if err := csidh.GeneratePrivateKey(&prv, vlib.NewReader(340)); err != nil {
		panic(err)
	}
	var pub csidh.PublicKey
	csidh.GeneratePublicKey(&pub, &prv, vlib.NewReader(341))
	prvB := make([]byte, csidh.PrivateKeySize)
	pubB := make([]byte, csidh.PublicKeySize)
	if !prv.Export(prvB) || !pub.Export(pubB) {
		panic("csidh export")
	}
	Register(
		Entry{Name: "csidh.PrivateKey.Import", Group: "csidh",
			Call:  func(b []byte) { var k csidh.PrivateKey; _ = k.Import(b) },
			Valid: func(int) []byte { return prvB }},
		Entry{Name: "csidh.PublicKey.Import", Group: "csidh",
			Call:  func(b []byte) { var k csidh.PublicKey; _ = k.Import(b) },
			Valid: func(int) []byte { return pubB }},
		Entry{Name: "csidh.PublicKey.Import+Validate", Group: "csidh", Cost: 12,
			Call: func(b []byte) {
				var k csidh.PublicKey
				if k.Import(b) {
					_ = csidh.Validate(&k, vlib.NewReader(342))
				}
			},
			Valid: func(int) []byte { return pubB }},
		// DeriveSecret validates the key itself (its documentation: returns false if pub is invalid)
		Entry{Name: "csidh.PublicKey.Import+DeriveSecret", Group: "csidh", Cost: 60,
			Call: func(b []byte) {
				var k csidh.PublicKey
				if k.Import(b) {
					var ss [64]byte
					_ = csidh.DeriveSecret(&ss, &k, &prv, vlib.NewReader(343))
				}
			},
			Valid: func(int) []byte { return pubB }},
	)
}

func regSIDH() {
	type ps struct {
		name string
		id   uint8
		sch  kem.Scheme
		newK func() *sidh.KEM
	}
	for _, p := range []ps{
		{"p434", sidh.Fp434, sikep434.Scheme(), func() *sidh.KEM { return sidh.NewSike434(vlib.NewReader(350)) }},
		{"p503", sidh.Fp503, sikep503.Scheme(), func() *sidh.KEM { return sidh.NewSike503(vlib.NewReader(350)) }},
		{"p751", sidh.Fp751, sikep751.Scheme(), func() *sidh.KEM { return sidh.NewSike751(vlib.NewReader(350)) }},
	} {
		p := p
		cost := map[string]int{"p434": 20, "p503": 30, "p751": 60}[p.name]
		// raw SIDH key import, both variants
		for _, kv := range []struct {
			n string
			v sidh.KeyVariant
		}{{"A", sidh.KeyVariantSidhA}, {"B", sidh.KeyVariantSidhB}, {"SIKE", sidh.KeyVariantSike}} {
			kv := kv
			prv := sidh.NewPrivateKey(p.id, kv.v)
			if err := prv.Generate(vlib.NewReader(351)); err != nil {
				panic(err)
			}
			pub := sidh.NewPublicKey(p.id, kv.v)
			prv.GeneratePublicKey(pub)
			prvB := make([]byte, prv.Size())
			prv.Export(prvB)
			pubB := make([]byte, pub.Size())
			pub.Export(pubB)
			Register(
				Entry{Name: "sidh/" + p.name + "/" + kv.n + ".PublicKey.Import", Group: "sidh",
					Call:  func(b []byte) { _ = sidh.NewPublicKey(p.id, kv.v).Import(b) },
					Valid: func(int) []byte { return pubB }},
				Entry{Name: "sidh/" + p.name + "/" + kv.n + ".PrivateKey.Import", Group: "sidh",
					Call:  func(b []byte) { _ = sidh.NewPrivateKey(p.id, kv.v).Import(b) },
					Valid: func(int) []byte { return prvB }},
			)
			if p.name == "p434" && kv.n == "B" {
				// a hostile (imported, unvalidated) public key of the peer in the key agreement
				prvA := sidh.NewPrivateKey(p.id, sidh.KeyVariantSidhA)
				if err := prvA.Generate(vlib.NewReader(352)); err != nil {
					panic(err)
				}
				Register(Entry{Name: "sidh/p434/B.PublicKey.Import+DeriveSecret", Group: "sidh", Cost: cost,
					Call: func(b []byte) {
						k := sidh.NewPublicKey(p.id, kv.v)
						if k.Import(b) == nil {
							ss := make([]byte, prvA.SharedSecretSize())
							prvA.DeriveSecret(ss, k)
						}
					},
					Valid: func(int) []byte { return pubB }})
			}
		}

		// SIKE through the kem.Scheme API (not part of kem/schemes.All())
		s := p.sch
		pk, sk := s.DeriveKeyPair(seedBytes(s.SeedSize(), 353))
		ct, _, err := s.EncapsulateDeterministically(pk, seedBytes(s.EncapsulationSeedSize(), 354))
		if err != nil {
			panic(err)
		}
		pkb, skb := mustB(pk.MarshalBinary()), mustB(sk.MarshalBinary())
		name := "kem/" + s.Name()
		Register(
			Entry{Name: name + ".UnmarshalBinaryPublicKey", Group: "sidh",
				Call:  func(b []byte) { _, _ = s.UnmarshalBinaryPublicKey(b) },
				Valid: func(int) []byte { return pkb }},
			Entry{Name: name + ".UnmarshalBinaryPrivateKey", Group: "sidh",
				Call:  func(b []byte) { _, _ = s.UnmarshalBinaryPrivateKey(b) },
				Valid: func(int) []byte { return skb }},
			Entry{Name: name + ".Decapsulate", Group: "sidh", Cost: cost,
				Call:  func(b []byte) { _, _ = s.Decapsulate(sk, b) },
				Valid: func(int) []byte { return ct }},
		)
		if p.name == "p434" {
			Register(Entry{Name: name + ".UnmarshalBinaryPublicKey+Encapsulate", Group: "sidh", Cost: cost,
				Call: func(b []byte) {
					if k, err := s.UnmarshalBinaryPublicKey(b); err == nil {
						_, _, _ = s.EncapsulateDeterministically(k, seedBytes(s.EncapsulationSeedSize(), 355))
					}
				},
				Valid: func(int) []byte { return pkb }})
		}

		// sidh.KEM.Decapsulate documents a panic unless len(ciphertext) == CiphertextSize(): exact length only
		kemObj := p.newK()
		prvS := sidh.NewPrivateKey(p.id, sidh.KeyVariantSike)
		if err := prvS.Generate(vlib.NewReader(356)); err != nil {
			panic(err)
		}
		pubS := sidh.NewPublicKey(p.id, sidh.KeyVariantSike)
		prvS.GeneratePublicKey(pubS)
		ct2 := make([]byte, kemObj.CiphertextSize())
		ss2 := make([]byte, kemObj.SharedSecretSize())
		if err := kemObj.Encapsulate(ct2, ss2, pubS); err != nil {
			panic(err)
		}
		Register(Entry{Name: "sidh/" + p.name + ".KEM.Decapsulate", Group: "sidh", Cost: cost, ExactLen: kemObj.CiphertextSize(),
			Call: func(b []byte) {
				kemObj.Reset()
				_ = kemObj.Decapsulate(make([]byte, kemObj.SharedSecretSize()), prvS, pubS, b)
			},
			Valid: func(int) []byte { return ct2 }})
	}
}

// Fixed-size array APIs that report failure with a bool: hostile peer values.
func regDH() {
	{
		var sk, pk, peerSk, peerPk x25519.Key
		copy(sk[:], seedBytes(x25519.Size, 360))
		copy(peerSk[:], seedBytes(x25519.Size, 361))
		x25519.KeyGen(&pk, &sk)
		x25519.KeyGen(&peerPk, &peerSk)
		Register(Entry{Name: "x25519.Shared", Group: "dh", ExactLen: x25519.Size,
			Call:  func(b []byte) { var p, ss x25519.Key; copy(p[:], b); _ = x25519.Shared(&ss, &sk, &p) },
			Valid: func(int) []byte { return peerPk[:] }})
	}
	{
		var sk, pk, peerSk, peerPk x448.Key
		copy(sk[:], seedBytes(x448.Size, 362))
		copy(peerSk[:], seedBytes(x448.Size, 363))
		x448.KeyGen(&pk, &sk)
		x448.KeyGen(&peerPk, &peerSk)
		Register(Entry{Name: "x448.Shared", Group: "dh", ExactLen: x448.Size,
			Call:  func(b []byte) { var p, ss x448.Key; copy(p[:], b); _ = x448.Shared(&ss, &sk, &p) },
			Valid: func(int) []byte { return peerPk[:] }})
	}
	{
		var sk, pk, peerSk, peerPk curve4q.Key
		copy(sk[:], seedBytes(curve4q.Size, 364))
		copy(peerSk[:], seedBytes(curve4q.Size, 365))
		curve4q.KeyGen(&pk, &sk)
		curve4q.KeyGen(&peerPk, &peerSk)
		Register(Entry{Name: "curve4q.Shared", Group: "dh", ExactLen: curve4q.Size,
			Call:  func(b []byte) { var p, ss curve4q.Key; copy(p[:], b); _ = curve4q.Shared(&ss, &sk, &p) },
			Valid: func(int) []byte { return peerPk[:] }})
	}
}

// ot/simot: the receiver's last round takes the two AES-GCM ciphertexts sent
// by the (untrusted) sender and returns an error. The protocol draws its
// randomness from crypto/rand internally, so no valid encodings are used as
// mutation bases (the inputs stay a deterministic function of the seed); the
// expected size is nonce(12)+message(32)+tag(16).
func regSimOT() {
	g := group.P256
	var sender simot.Sender
	var receiver simot.Receiver
	m0, m1 := seedBytes(32, 370), seedBytes(32, 371)
	a := sender.InitSender(g, m0, m1, 0)
	b := receiver.Round1Receiver(g, 0, 0, a)
	e0, e1 := sender.Round2Sender(b)
	if err := receiver.Round3Receiver(e0, e1, 0); err != nil {
		panic(err)
	}
	fixed := make([]byte, len(e0))
	Register(
		Entry{Name: "simot.Receiver.Round3Receiver(hostile-e0)", Group: "simot", Sizes: []int{len(e0)},
			Call: func(in []byte) { _ = receiver.Round3Receiver(in, fixed, 0) }},
		Entry{Name: "simot.Receiver.Round3Receiver(hostile-e1)", Group: "simot", Sizes: []int{len(e1)},
			Call: func(in []byte) { _ = receiver.Round3Receiver(fixed, in, 1) }},
		Entry{Name: "simot.Receiver.Round3Receiver(hostile-e0=e1)", Group: "simot", Sizes: []int{len(e1)},
			Call: func(in []byte) { _ = receiver.Round3Receiver(in, in, 0); _ = receiver.Round3Receiver(in, in, 1) }},
	)
}
