//go:build verif

package c10b

import (
	"bufio"
	"bytes"
	"context"
	"encoding/hex"
	"fmt"
	"os"
	"os/exec"
	"path/filepath"
	"runtime/debug"
	"strconv"
	"strings"
	"testing"
	"time"

	"github.com/cloudflare/circl/zz_verif/vlib"
)

// Policy.String() on a policy that ExtractFromCiphertext accepted. On the
// pinned tree a formula whose gates form a cycle makes String recurse without
// bound; Go's stack-overflow is a fatal error that recover() cannot catch, so
// the calls are made in a child process (this test binary re-executed with
// C10B_CHILD_INPUTS set) and the parent reports a dead child as
// C10/panic/tkn20.Policy.ExtractFromCiphertext+String/stack-overflow.

const stringEntry = "tkn20.Policy.ExtractFromCiphertext+String"

func TestC10PolicyStringChild(t *testing.T) {
	if spec := os.Getenv("C10B_CHILD_FROMSTRING"); spec != "" {
		// "<atom>:<count>": parse count nested atoms with the default stack limit
		i := strings.LastIndex(spec, ":")
		n, _ := strconv.Atoi(spec[i+1:])
		var p tknPolicy
		_ = p.FromString(strings.Repeat(spec[:i], n) + "a: b")
		fmt.Println("CHILD-END")
		return
	}
	path := os.Getenv("C10B_CHILD_INPUTS")
	if path == "" {
		t.Skip("helper process of TestC10PolicyString")
	}
	// String() of a policy with the maximal 65535 gates recurses at most 65535 deep (about 10 MB of stack)
	debug.SetMaxStack(64 << 20)
	start, _ := strconv.Atoi(os.Getenv("C10B_CHILD_START"))
	f, err := os.Open(path)
	if err != nil {
		t.Fatal(err)
	}
	defer f.Close()
	sc := bufio.NewScanner(f)
	sc.Buffer(make([]byte, 1<<20), 1<<24)
	for i := 0; sc.Scan(); i++ {
		if i < start {
			continue
		}
		in, err := hex.DecodeString(sc.Text())
		if err != nil {
			t.Fatal(err)
		}
		var p tknPolicy
		if p.ExtractFromCiphertext(in) == nil {
			if pv, _ := vlib.Catch(func() { _ = p.String() }); pv != nil {
				fmt.Printf("CHILD-PANIC %d %s\n", i, vlib.PanicClass(pv))
				continue
			}
		}
		fmt.Printf("CHILD-DONE %d\n", i)
	}
	fmt.Println("CHILD-END")
}

func TestC10PolicyString(t *testing.T) {
	defer vlib.Done()
	if vlib.Shard != 0 {
		return // deterministic enumeration: one shard is enough
	}
	ext := entryByName("tkn20.Policy.ExtractFromCiphertext")
	if ext == nil {
		t.Skip("no tkn20 entries")
	}
	// inputs: the sweep mutations of the valid ciphertexts that ExtractFromCiphertext accepts
	var inputs [][]byte
	for vi := 0; vi < max(1, ext.NValid); vi++ {
		v := ext.Valid(vi)
		if !vlib.Thorough() && vi >= 2 {
			break // the generated ciphertexts of a one-attribute and of a five-attribute policy
		}
		// only the mutations inside the policy part matter for String()
		_, encl := tknWalkCached(v)
		if len(encl) < 3 {
			continue
		}
		pol := encl[2]
		polEnd := pol.off + 2 + int(leGet(v, pol))
		for _, in := range tknSweepInputs(v) {
			same := true
			for i := pol.off + 2; i < polEnd && i < len(in); i++ {
				if in[i] != v[i] {
					same = false
					break
				}
			}
			if same {
				continue
			}
			ok := false
			vlib.Catch(func() { var p tknPolicy; ok = p.ExtractFromCiphertext(in) == nil })
			if ok {
				inputs = append(inputs, in)
			}
		}
	}
	dir := os.Getenv("VERIF_WORK")
	if dir == "" {
		dir = os.TempDir()
	}
	path := filepath.Join(dir, fmt.Sprintf("c10b-string-inputs-%d.txt", os.Getpid()))
	var buf bytes.Buffer
	for _, in := range inputs {
		buf.WriteString(hex.EncodeToString(in))
		buf.WriteByte('\n')
	}
	if err := os.WriteFile(path, buf.Bytes(), 0o644); err != nil {
		t.Fatalf("SELFTEST-FAIL cannot write child input file: %v", err)
	}
	defer os.Remove(path)

	sub := "decode/tkn20"
	e := Entry{Name: stringEntry, Group: "tkn20"}
	d := &directTB{t: t}
	reportOnce := func(d *directTB, key, detail string, replay map[string]interface{}) {
		d.replay = replay
		vlib.Report(d, key, detail)
	}
	start := 0
	for restarts := 0; start < len(inputs) && restarts < vlib.N(3, 8); restarts++ {
		ctx, cancel := context.WithTimeout(context.Background(), 120*time.Second)
		cmd := exec.CommandContext(ctx, os.Args[0], "-test.run=^TestC10PolicyStringChild$", "-test.v=true", "-test.timeout=0")
		cmd.Env = append(os.Environ(), "C10B_CHILD_INPUTS="+path, "C10B_CHILD_START="+strconv.Itoa(start), "VERIF_OUT=")
		out, err := cmd.CombinedOutput()
		timedOut := ctx.Err() == context.DeadlineExceeded
		cancel()
		if timedOut {
			t.Fatalf("SELFTEST-FAIL the String() helper process exceeded its time budget (inconclusive)")
		}
		last, ended := start-1, false
		for _, l := range strings.Split(string(out), "\n") {
			f := strings.Fields(l)
			switch {
			case len(f) == 2 && f[0] == "CHILD-DONE":
				last, _ = strconv.Atoi(f[1])
				vlib.Eval(sub)
				vlib.NonTrivial(sub, "in=string-child", []byte(e.Name), inputs[last])
			case len(f) == 3 && f[0] == "CHILD-PANIC":
				last, _ = strconv.Atoi(f[1])
				vlib.Eval(sub)
				vlib.Class(sub, "panic")
				reportOnce(d, "C10/panic/"+e.Name+"/"+f[2], fmt.Sprintf("entry=%s input(%d bytes)=%s panic class %s in Policy.String()", e.Name, len(inputs[last]), vlib.Hex(inputs[last]), f[2]),
					map[string]interface{}{"entry": e.Name, "input": hex.EncodeToString(inputs[last])})
			case len(f) == 1 && f[0] == "CHILD-END":
				ended = true
			}
		}
		if ended {
			start = len(inputs)
			break
		}
		// the child died while processing input last+1
		culprit := last + 1
		if culprit >= len(inputs) || !strings.Contains(string(out), "stack overflow") && !strings.Contains(string(out), "goroutine stack exceeds") {
			if culprit < len(inputs) && (strings.Contains(string(out), "\npanic: ") || strings.HasPrefix(string(out), "panic: ") || strings.Contains(string(out), "fatal error: ")) {
				// the Go runtime ended the child inside ExtractFromCiphertext / String() of input culprit
				// (a panic outside the recovered call or an unrecoverable fatal error): circl, not the harness
				vlib.Eval(sub)
				vlib.Class(sub, "panic")
				in := inputs[culprit]
				reportOnce(d, "C10/panic/"+e.Name+"/process-died",
					fmt.Sprintf("entry=%s input(%d bytes)=%s: the helper process died inside ExtractFromCiphertext/Policy.String() (%v):\n%s", e.Name, len(in), vlib.Hex(in), err, tailStr(string(out), 1500)),
					map[string]interface{}{"entry": e.Name, "input": hex.EncodeToString(in)})
				start = culprit + 1
				continue
			}
			t.Fatalf("SELFTEST-FAIL the String() helper process failed unexpectedly (%v):\n%s", err, tailStr(string(out), 2000))
		}
		vlib.Eval(sub)
		vlib.Class(sub, "panic")
		in := inputs[culprit]
		reportOnce(d, "C10/panic/"+e.Name+"/stack-overflow",
			fmt.Sprintf("entry=%s input(%d bytes)=%s: ExtractFromCiphertext accepts the ciphertext, Policy.String() then recurses without bound (fatal error: stack overflow, not recoverable)", e.Name, len(in), vlib.Hex(in)),
			map[string]interface{}{"entry": e.Name, "input": hex.EncodeToString(in)})
		start = culprit + 1
	}
	vlib.Note(fmt.Sprintf("Policy.String() helper process: %d accepted mutated ciphertexts", len(inputs)))
}

// TestC10PolicyDeepNesting (thorough tier): the policy parser is recursive;
// a 1 MiB string of "(" (or 256 Ki times "not ") must yield an error, not kill
// the process. Run in a child process with the default 1 GB stack limit.
func TestC10PolicyDeepNesting(t *testing.T) {
	defer vlib.Done()
	if !vlib.Thorough() || vlib.Shard != 0 {
		t.Skip("thorough tier, shard 0 only (needs up to 2 GB of memory for a moment)")
	}
	e := entryByName("tkn20.Policy.FromString")
	if e == nil {
		t.Skip("no tkn20 entries")
	}
	d := &directTB{t: t}
	for _, spec := range []string{"(:1048576", "not :262144"} {
		ctx, cancel := context.WithTimeout(context.Background(), 300*time.Second)
		cmd := exec.CommandContext(ctx, os.Args[0], "-test.run=^TestC10PolicyStringChild$", "-test.v=true", "-test.timeout=0")
		cmd.Env = append(os.Environ(), "C10B_CHILD_FROMSTRING="+spec, "VERIF_OUT=")
		out, err := cmd.CombinedOutput()
		timedOut := ctx.Err() == context.DeadlineExceeded
		cancel()
		if timedOut {
			t.Fatalf("SELFTEST-FAIL the FromString helper process exceeded its time budget (inconclusive)")
		}
		vlib.Eval("decode/tkn20")
		switch {
		case strings.Contains(string(out), "CHILD-END"):
			vlib.NonTrivial("decode/tkn20", "in=policy/deep-nesting-child", []byte(e.Name), []byte(spec))
		case strings.Contains(string(out), "goroutine stack exceeds"):
			vlib.Class("decode/tkn20", "panic")
			d.replay = map[string]interface{}{"entry": e.Name, "input": "strings.Repeat(atom, n) + \"a: b\" with atom:n = " + spec}
			vlib.Report(d, "C10/panic/"+e.Name+"/stack-overflow", fmt.Sprintf("entry=%s input=%q repeated (atom:count = %s) followed by \"a: b\": fatal error: stack overflow in the recursive-descent parser (not recoverable)", e.Name, spec[:strings.LastIndex(spec, ":")], spec))
		case strings.Contains(string(out), "\npanic: ") || strings.HasPrefix(string(out), "panic: "):
			// FromString is the only call the child makes: an (ordinary) panic escaped from it
			vlib.Class("decode/tkn20", "panic")
			d.replay = map[string]interface{}{"entry": e.Name, "input": "strings.Repeat(atom, n) + \"a: b\" with atom:n = " + spec}
			vlib.Report(d, "C10/panic/"+e.Name+"/deep-nesting-panic", fmt.Sprintf("entry=%s input=%q repeated (atom:count = %s) followed by \"a: b\": the helper process died with a panic:\n%s", e.Name, spec[:strings.LastIndex(spec, ":")], spec, tailStr(string(out), 1500)))
		default:
			t.Fatalf("SELFTEST-FAIL the FromString helper process failed unexpectedly (%v):\n%s", err, tailStr(string(out), 2000))
		}
	}
}

func tailStr(s string, n int) string {
	if len(s) > n {
		return s[len(s)-n:]
	}
	return s
}
