//go:build verif

package c10b

import (
	"encoding/binary"
	"os"
	"path/filepath"

	"github.com/cloudflare/circl/abe/cpabe/tkn20"
	"github.com/cloudflare/circl/zz_verif/vlib"
)

// Valid policy strings (also the seeds of the policy-string mutator in extra_test.go).
var tknPolicyStrings = []string{
	"EU: true",
	"(country: NL or country: US) and not tier: 3 and EU: true",
	"not region: US",
	"region: US or region: EU or tier: 1 or tier: 2 or tier: 3 and owner: cloudflare",
	"(region: US or region: EU) or (tier: 1 or tier: 2 or tier: 3) and (owner: cloudflare)",
	"not (a: 1 and (b: 2 or not c: 3)) or d_4: x_y",
}

// tknCtLenFields returns the offsets of the top-level little-endian length
// prefixes of a v1.3.8 ciphertext:
//
//	"v1.3.8" | len16 id | len32 macData{ len32 C1{ len16 policy | … } | len32 env } | len16 tag
//
// Only the low byte of each is given as a (offset,1) field: the c10core mutator
// writes big-endian, a one-byte field is endian-neutral. The little-endian
// aware mutations are in extra_test.go.
func tknCtLenFields(ct []byte) [][2]int {
	le16 := func(o int) int { return int(binary.LittleEndian.Uint16(ct[o:])) }
	le32 := func(o int) int { return int(binary.LittleEndian.Uint32(ct[o:])) }
	o := 6
	idOff := o
	o += 2 + le16(o)
	macOff := o
	macLen := le32(o)
	c1Off := o + 4
	c1Len := le32(c1Off)
	polOff := c1Off + 4
	envOff := c1Off + 4 + c1Len
	tagOff := macOff + 4 + macLen
	c1MatOff := polOff + 2 + le16(polOff)
	return [][2]int{{idOff, 1}, {macOff, 1}, {macOff + 1, 1}, {c1Off, 1}, {c1Off + 1, 1}, {polOff, 1}, {polOff + 1, 1},
		{polOff + 2, 1}, {c1MatOff, 1}, {c1MatOff + 1, 1}, {envOff, 1}, {envOff + 1, 1}, {tagOff, 1}}
}

// fixtures shared with the structured formula generator (formula_test.go)
var tknFix struct {
	pk    tkn20.PublicKey
	attrs tkn20.Attributes
	ak    tkn20.AttributeKey
}

func init() {
	pk, msk, err := tkn20.Setup(vlib.NewReader(100))
	if err != nil {
		panic(err)
	}
	attrs := tkn20.Attributes{}
	attrs.FromMap(map[string]string{"country": "NL", "EU": "true", "tier": "1"})
	ak, err := msk.KeyGen(vlib.NewReader(101), attrs)
	if err != nil {
		panic(err)
	}
	tknFix.pk, tknFix.attrs, tknFix.ak = pk, attrs, ak
	var cts [][]byte
	for i, ps := range tknPolicyStrings[:2] {
		var pol tkn20.Policy
		if err := pol.FromString(ps); err != nil {
			panic(err)
		}
		ct, err := pk.Encrypt(vlib.NewReader(uint64(110+i)), pol, []byte("attack at dawn"))
		if err != nil {
			panic(err)
		}
		if pt, err := ak.Decrypt(ct); err != nil || string(pt) != "attack at dawn" {
			panic("tkn20 fixture does not decrypt")
		}
		cts = append(cts, ct)
	}
	// offsets of the larger ciphertext; the leading ones (id, macData, C1, policy) are the same in every
	// v1.3.8 ciphertext, on the other valid encodings the later ones are just further byte positions to overwrite
	lf := tknCtLenFields(cts[1])

	// the repository's golden files: old (v1.3.7) and new ciphertext format + the matching attribute key
	td := filepath.Join(vlib.Repo, "abe", "cpabe", "tkn20", "testdata")
	old, err1 := os.ReadFile(filepath.Join(td, "ciphertext_v137"))
	newer, err2 := os.ReadFile(filepath.Join(td, "ciphertext"))
	tdKeyRaw, err3 := os.ReadFile(filepath.Join(td, "attributeKey"))
	haveTd := err1 == nil && err2 == nil && err3 == nil
	var tdKey tkn20.AttributeKey
	if haveTd {
		if err := tdKey.UnmarshalBinary(tdKeyRaw); err != nil {
			haveTd = false
		}
	}
	all := append([][]byte{}, cts...)
	if haveTd {
		all = append(all, old, newer)
	}
	nAll := len(all)
	validCt := func(i int) []byte { return all[i%nAll] }
	leStructured["tkn20.AttributeKey.Decrypt"] = true
	leStructured["tkn20.Attributes.CouldDecrypt"] = true
	leStructured["tkn20.Policy.ExtractFromCiphertext"] = true
	leStructured["tkn20.Policy.ExtractFromCiphertext+use"] = true

	Register(
		Entry{Name: "tkn20.AttributeKey.Decrypt", Group: "tkn20", Cost: 8, NValid: nAll, LenFields: lf,
			Call:  func(b []byte) { _, _ = ak.Decrypt(b) },
			Valid: validCt},
		Entry{Name: "tkn20.Attributes.CouldDecrypt", Group: "tkn20", Cost: 4, NValid: nAll, LenFields: lf,
			Call:  func(b []byte) { _ = attrs.CouldDecrypt(b) },
			Valid: validCt},
		Entry{Name: "tkn20.Policy.ExtractFromCiphertext", Group: "tkn20", Cost: 2, NValid: nAll, LenFields: lf,
			Call:  func(b []byte) { var p tkn20.Policy; _ = p.ExtractFromCiphertext(b) },
			Valid: validCt},
		// follow-on use of a policy that ExtractFromCiphertext accepted
		Entry{Name: "tkn20.Policy.ExtractFromCiphertext+use", Group: "tkn20", Cost: 4, NValid: nAll, LenFields: lf,
			Call: func(b []byte) {
				var p, q tkn20.Policy
				if p.ExtractFromCiphertext(b) == nil {
					_ = p.ExtractAttributeValuePairs()
					_ = p.Satisfaction(attrs)
					if q.ExtractFromCiphertext(cts[0]) == nil {
						_ = p.Equal(&q)
					}
					// p.String() is deliberately not called: on a cyclic formula it recurses without
					// bound and the process dies with an unrecoverable stack overflow (see notes/C10b.md).
				}
			},
			Valid: validCt},
	)
	if haveTd {
		leStructured["tkn20.AttributeKey.Decrypt/golden-key"] = true
		Register(Entry{Name: "tkn20.AttributeKey.Decrypt/golden-key", Group: "tkn20", Cost: 8, NValid: 2,
			Call:  func(b []byte) { _, _ = tdKey.Decrypt(b) },
			Valid: func(i int) []byte { return [][]byte{old, newer}[i%2] }})
	}

	// policy language parser
	Register(Entry{Name: "tkn20.Policy.FromString", Group: "tkn20", NValid: len(tknPolicyStrings),
		Call:  func(b []byte) { var p tkn20.Policy; _ = p.FromString(string(b)) },
		Valid: func(i int) []byte { return []byte(tknPolicyStrings[i%len(tknPolicyStrings)]) }})

	// keys
	pkb := mustB(pk.MarshalBinary())
	mskb := mustB(msk.MarshalBinary())
	akb := mustB(ak.MarshalBinary())
	var polA tkn20.Policy
	if err := polA.FromString(tknPolicyStrings[0]); err != nil {
		panic(err)
	}
	for _, n := range []string{"tkn20.PublicKey.UnmarshalBinary+Equal", "tkn20.SystemSecretKey.UnmarshalBinary+Equal", "tkn20.AttributeKey.UnmarshalBinary+Equal", "tkn20.PublicKey.UnmarshalBinary", "tkn20.PublicKey.UnmarshalBinary+Encrypt", "tkn20.SystemSecretKey.UnmarshalBinary",
		"tkn20.SystemSecretKey.UnmarshalBinary+KeyGen", "tkn20.AttributeKey.UnmarshalBinary", "tkn20.AttributeKey.UnmarshalBinary+Decrypt"} {
		leStructured[n] = true
	}
	Register(
		Entry{Name: "tkn20.PublicKey.UnmarshalBinary+Equal", Group: "tkn20", Cost: 2, LenFields: [][2]int{{0, 1}, {1, 1}},
			Call: func(b []byte) {
				var k tkn20.PublicKey
				if k.UnmarshalBinary(b) == nil {
					_, _ = k.Equal(&pk), pk.Equal(&k)
				}
			},
			Valid: func(int) []byte { return pkb }},
		Entry{Name: "tkn20.SystemSecretKey.UnmarshalBinary+Equal", Group: "tkn20", LenFields: [][2]int{{0, 1}, {1, 1}},
			Call: func(b []byte) {
				var k tkn20.SystemSecretKey
				if k.UnmarshalBinary(b) == nil {
					_, _ = k.Equal(&msk), msk.Equal(&k)
				}
			},
			Valid: func(int) []byte { return mskb }},
		Entry{Name: "tkn20.AttributeKey.UnmarshalBinary+Equal", Group: "tkn20", Cost: 2, LenFields: [][2]int{{0, 1}, {1, 1}, {2, 1}},
			Call: func(b []byte) {
				var k tkn20.AttributeKey
				if k.UnmarshalBinary(b) == nil {
					_, _ = k.Equal(&ak), ak.Equal(&k)
				}
			},
			Valid: func(int) []byte { return akb }},
		Entry{Name: "tkn20.PublicKey.UnmarshalBinary", Group: "tkn20", Cost: 2, LenFields: [][2]int{{0, 1}, {1, 1}},
			Call:  func(b []byte) { var k tkn20.PublicKey; _ = k.UnmarshalBinary(b) },
			Valid: func(int) []byte { return pkb }},
		Entry{Name: "tkn20.PublicKey.UnmarshalBinary+Encrypt", Group: "tkn20", Cost: 8, LenFields: [][2]int{{0, 1}, {1, 1}},
			Call: func(b []byte) {
				var k tkn20.PublicKey
				if k.UnmarshalBinary(b) == nil {
					_, _ = k.MarshalBinary()
					_, _ = k.Encrypt(vlib.NewReader(120), polA, []byte("m"))
				}
			},
			Valid: func(int) []byte { return pkb }},
		Entry{Name: "tkn20.SystemSecretKey.UnmarshalBinary", Group: "tkn20", LenFields: [][2]int{{0, 1}, {1, 1}},
			Call:  func(b []byte) { var k tkn20.SystemSecretKey; _ = k.UnmarshalBinary(b) },
			Valid: func(int) []byte { return mskb }},
		Entry{Name: "tkn20.SystemSecretKey.UnmarshalBinary+KeyGen", Group: "tkn20", Cost: 16, LenFields: [][2]int{{0, 1}, {1, 1}},
			Call: func(b []byte) {
				var k tkn20.SystemSecretKey
				if k.UnmarshalBinary(b) == nil {
					_, _ = k.MarshalBinary()
					_, _ = k.KeyGen(vlib.NewReader(121), attrs)
				}
			},
			Valid: func(int) []byte { return mskb }},
		Entry{Name: "tkn20.AttributeKey.UnmarshalBinary", Group: "tkn20", Cost: 2, LenFields: [][2]int{{0, 1}, {1, 1}, {2, 1}},
			Call:  func(b []byte) { var k tkn20.AttributeKey; _ = k.UnmarshalBinary(b) },
			Valid: func(int) []byte { return akb }},
		Entry{Name: "tkn20.AttributeKey.UnmarshalBinary+Decrypt", Group: "tkn20", Cost: 8, LenFields: [][2]int{{0, 1}, {1, 1}, {2, 1}},
			Call: func(b []byte) {
				var k tkn20.AttributeKey
				if k.UnmarshalBinary(b) == nil {
					_, _ = k.MarshalBinary()
					_, _ = k.Decrypt(cts[1])
				}
			},
			Valid: func(int) []byte { return akb }},
	)
}
