//go:build verif

package c10b

import (
	"encoding/binary"
	"fmt"
	"sort"
	"strings"
	"testing"

	"github.com/cloudflare/circl/abe/cpabe/tkn20"
	"github.com/cloudflare/circl/zz_verif/vlib"
	"pgregory.net/rapid"
)

type tknPolicy = tkn20.Policy

// Additional input generators for formats that c10core's generic mutator
// reaches poorly:
//
//   - TestC10StructuredLE: the CP-ABE wire formats use nested little-endian
//     16/32-bit length and count fields (c10core's length-field mutation writes
//     big-endian). Length-like fields are discovered automatically in each valid
//     encoding and overwritten with boundary values, including values that make
//     an enclosing field end exactly at (or one/two bytes past) another field.
//   - TestC10NestedSweep: every value of the enclosing length fields of a
//     CP-ABE ciphertext (deterministic enumeration, strided in quick).
//   - TestC10PolicyStrings: grammar-level mutations of valid policy strings.
//
// Finding keys have the same form as in c10core: C10/panic/<entry>/<panic class>.

// leStructured marks the entries (by name) whose encodings carry little-endian length fields.
var leStructured = map[string]bool{}

func sortedEntries() []Entry {
	r := append([]Entry{}, registry...)
	sort.SliceStable(r, func(i, j int) bool { return r[i].Name < r[j].Name })
	return r
}

func entryByName(name string) *Entry {
	for i := range registry {
		if registry[i].Name == name {
			return &registry[i]
		}
	}
	return nil
}

func trimStack(st string) string {
	var out []string
	for _, l := range strings.Split(st, "\n") {
		if strings.Contains(l, "cloudflare/circl") && !strings.Contains(l, "zz_verif") {
			out = append(out, strings.TrimSpace(l))
		}
		if len(out) >= 8 {
			break
		}
	}
	return strings.Join(out, "\n")
}

// probe calls e on in and reports a panic (same oracle and key as c10core.probe).
func probe(t vlib.TB, e *Entry, kind string, in []byte) (panicked bool) {
	sub := "decode/" + e.Group
	vlib.Eval(sub)
	if p, st := vlib.Catch(func() { e.Call(in) }); p != nil {
		key := "C10/panic/" + e.Name + "/" + vlib.PanicClass(p)
		vlib.Class(sub, "panic")
		vlib.Report(t, key, fmt.Sprintf("entry=%s input(%s, %d bytes)=%s panic=%v\n%s", e.Name, kind, len(in), vlib.Hex(in), p, trimStack(st)))
		return true
	}
	vlib.NonTrivial(sub, "in="+kind, []byte(e.Name), in)
	vlib.Sample(sub, e.Name+"/"+kind, fmt.Sprintf("%s(%s: %s) returned", e.Name, kind, vlib.Hex(in)))
	return false
}

type directTB struct {
	t      *testing.T
	replay map[string]interface{}
}

var directSeen = map[string]bool{}

func (d *directTB) Fatalf(format string, args ...any) {
	msg := fmt.Sprintf(format, args...)
	key := "unknown"
	if i := strings.Index(msg, "key="); i >= 0 {
		key = strings.Fields(msg[i+4:])[0]
	}
	if directSeen[key] {
		return
	}
	directSeen[key] = true
	vlib.ReportDirect(d.t, key, msg, d.replay)
}
func (d *directTB) Logf(format string, args ...any) { d.t.Logf(format, args...) }

// ---------------------------------------------------------------------------
// little-endian length / count fields

type leField struct{ off, w int }

// leCandidates lists the positions whose little-endian value could be a length
// or count: the value does not exceed the number of bytes that follow.
func leCandidates(v []byte) []leField {
	var out []leField
	n := len(v)
	for o := 0; o+2 <= n; o++ {
		if int(binary.LittleEndian.Uint16(v[o:])) <= n-o-2 {
			out = append(out, leField{o, 2})
		}
		if o+4 <= n && uint64(binary.LittleEndian.Uint32(v[o:])) <= uint64(n-o-4) {
			out = append(out, leField{o, 4})
		}
	}
	return out
}

func leGet(b []byte, f leField) uint64 {
	if f.w == 2 {
		return uint64(binary.LittleEndian.Uint16(b[f.off:]))
	}
	return uint64(binary.LittleEndian.Uint32(b[f.off:]))
}

func lePut(b []byte, f leField, v uint64) {
	if f.w == 2 {
		binary.LittleEndian.PutUint16(b[f.off:], uint16(v))
	} else {
		binary.LittleEndian.PutUint32(b[f.off:], uint32(v))
	}
}

var leCache = map[string][]leField{}

func leMutate(t *rapid.T, name string, vi int, v []byte) (string, []byte) {
	ck := fmt.Sprintf("%s/%d", name, vi)
	cands, ok := leCache[ck]
	if !ok {
		cands = leCandidates(v)
		leCache[ck] = cands
	}
	out := append([]byte{}, v...)
	if len(cands) == 0 {
		return "le/none", out
	}
	var kinds []string
	k := rapid.SampledFrom([]int{1, 1, 1, 2, 3}).Draw(t, "nfields")
	for j := 0; j < k; j++ {
		// favour the structural fields (known for ciphertexts, otherwise the first 40 candidates)
		var f leField
		if rapid.Bool().Draw(t, "outer") {
			outer := cands[:min(len(cands), 40)]
			if strings.Contains(name, "Decrypt") && !strings.Contains(name, "Unmarshal") || strings.Contains(name, "Ciphertext") {
				if sf, _ := tknWalkCached(v); len(sf) > 0 {
					outer = sf
				}
			}
			f = outer[rapid.IntRange(0, len(outer)-1).Draw(t, "fi")]
		} else {
			f = cands[rapid.IntRange(0, len(cands)-1).Draw(t, "fi")]
		}
		old := leGet(out, f)
		rem := uint64(len(out) - f.off - f.w)
		mode := rapid.SampledFrom([]string{"0", "1", "-1", "+1", "+7", "*2", "rem", "rem+1", "rem-1", "max", "max-1", "half", "msb", "small", "cut-at", "cut-at", "swap16"}).Draw(t, "mode")
		nv := old
		switch mode {
		case "0":
			nv = 0
		case "1":
			nv = 1
		case "-1":
			nv = old - 1
		case "+1":
			nv = old + 1
		case "+7":
			nv = old + 7
		case "*2":
			nv = old * 2
		case "rem":
			nv = rem
		case "rem+1":
			nv = rem + 1
		case "rem-1":
			nv = rem - 1
		case "max":
			nv = ^uint64(0)
		case "max-1":
			nv = ^uint64(0) - 1
		case "half":
			nv = old / 2
		case "msb":
			nv = 1 << (8*f.w - 1)
		case "small":
			nv = uint64(rapid.IntRange(0, 40).Draw(t, "sv"))
		case "cut-at":
			// make this field end at (or just past) the start of a later field
			g := cands[rapid.IntRange(0, len(cands)-1).Draw(t, "gi")]
			d := rapid.IntRange(0, 3).Draw(t, "delta")
			if g.off+d >= f.off+f.w {
				nv = uint64(g.off + d - f.off - f.w)
			}
		case "swap16":
			if f.w == 2 && f.off+4 <= len(out) {
				a, b := out[f.off], out[f.off+1]
				out[f.off], out[f.off+1] = out[f.off+2], out[f.off+3]
				out[f.off+2], out[f.off+3] = a, b
				kinds = append(kinds, "swap16")
				continue
			}
		}
		lePut(out, f, nv)
		kinds = append(kinds, fmt.Sprintf("w%d:%s", f.w, mode))
	}
	if rapid.IntRange(0, 5).Draw(t, "cut") == 0 {
		// additionally truncate right after (or inside) a field
		g := cands[rapid.IntRange(0, len(cands)-1).Draw(t, "ci")]
		l := g.off + rapid.IntRange(0, g.w).Draw(t, "cd")
		if l <= len(out) {
			out = out[:l]
			kinds = append(kinds, "trunc-at-field")
		}
	}
	return "le/" + strings.Join(kinds, "+"), out
}

func TestC10StructuredLE(t *testing.T) {
	defer vlib.Done()
	for _, e := range sortedEntries() {
		e := e
		if !leStructured[e.Name] || e.Valid == nil {
			continue
		}
		t.Run(e.Name, func(t *testing.T) {
			n := vlib.N(400, 3000) / max(1, e.Cost)
			vlib.Check(t, n, func(t *rapid.T) {
				vi := rapid.IntRange(0, max(1, e.NValid)-1).Draw(t, "vi")
				kind, in := leMutate(t, e.Name, vi, e.Valid(vi))
				probe(t, &e, kind, in)
			})
		})
	}
}

// tknWalk returns the structural little-endian fields of a valid CP-ABE
// ciphertext (either format) in order of appearance; encl are the length fields
// whose extent contains further fields (macData, C1, policy, formula length).
// Layout (bk.go EncryptCCA, tk.go ciphertextHeader.marshalBinary, policy.go, formula.go):
//
//	["v1.3.8"] lenW id | lenX macData{ lenX C1{ len16 policy{ len16 formula{ n16 | n*(class8 in0_16 in1_16 out16) }
//	  | nWires16 | nWires*( len16 wire{ len16 label | len16 raw | len16 scalar | positive8 } ) }
//	  | len16 matrixG2{rows16 cols16 …} | c2Len16 | c2Len*(len16 matrix) | c3Len16 | c3Len*(len16 matrix) | c3Len*(len16 matrix-or-empty) }
//	  | lenX env } | len16 tag          (X = 32 bits with the version prefix, 16 bits without)
func tknWalk(ct []byte) (fields, encl []leField) {
	defer func() { _ = recover() }() // a valid encoding never gets here; keep what was collected
	o, x := 0, 2
	if len(ct) >= 6 && string(ct[:6]) == "v1.3.8" {
		o, x = 6, 4
	}
	add := func(off, w int) leField {
		f := leField{off, w}
		fields = append(fields, f)
		return f
	}
	id := add(o, 2)
	o += 2 + int(leGet(ct, id))
	mac := add(o, x)
	encl = append(encl, mac)
	macEnd := o + x + int(leGet(ct, mac))
	o += x
	c1 := add(o, x)
	encl = append(encl, c1)
	c1End := o + x + int(leGet(ct, c1))
	o += x
	// header
	pol := add(o, 2)
	encl = append(encl, pol)
	polEnd := o + 2 + int(leGet(ct, pol))
	o += 2
	fl := add(o, 2)
	encl = append(encl, fl)
	fEnd := o + 2 + int(leGet(ct, fl))
	o += 2
	ng := add(o, 2)
	o += 2
	for i := 0; i < int(leGet(ct, ng)); i++ {
		add(o+1, 2)
		add(o+3, 2)
		add(o+5, 2)
		o += 7
	}
	o = fEnd
	nw := add(o, 2)
	o += 2
	for i := 0; i < int(leGet(ct, nw)); i++ {
		wl := add(o, 2)
		wEnd := o + 2 + int(leGet(ct, wl))
		o += 2
		for j := 0; j < 3; j++ {
			f := add(o, 2)
			o += 2 + int(leGet(ct, f))
		}
		o = wEnd
	}
	o = polEnd
	matrix := func() {
		l := add(o, 2)
		if leGet(ct, l) >= 4 {
			add(o+2, 2)
			add(o+4, 2)
		}
		o += 2 + int(leGet(ct, l))
	}
	matrix() // c1
	c2 := add(o, 2)
	o += 2
	for i := 0; i < int(leGet(ct, c2)); i++ {
		matrix()
	}
	c3 := add(o, 2)
	o += 2
	for i := 0; i < 2*int(leGet(ct, c3)); i++ {
		matrix()
	}
	o = c1End
	add(o, x) // env
	o = macEnd
	add(o, 2) // tag
	return fields, encl
}

var tknWalkCache = map[string][2][]leField{}

func tknWalkCached(ct []byte) ([]leField, []leField) {
	k := string(ct)
	if v, ok := tknWalkCache[k]; ok {
		return v[0], v[1]
	}
	f, e := tknWalk(ct)
	inRange := func(fs []leField) []leField {
		var o []leField
		for _, x := range fs {
			if x.off >= 0 && x.off+x.w <= len(ct) {
				o = append(o, x)
			}
		}
		return o
	}
	f, e = inRange(f), inRange(e)
	tknWalkCache[k] = [2][]leField{f, e}
	return f, e
}

// tknSweepInputs enumerates boundary values of every structural field of a
// valid ciphertext, and for each enclosing length field every value that makes
// it end at / just past the start of each later structural field.
func tknSweepInputs(v []byte) [][]byte {
	fields, encl := tknWalkCached(v)
	var out [][]byte
	set := func(f leField, nv uint64) {
		if nv == leGet(v, f) {
			return
		}
		b := append([]byte{}, v...)
		lePut(b, f, nv)
		out = append(out, b)
	}
	for _, f := range fields {
		old := leGet(v, f)
		for _, nv := range []uint64{0, 1, old - 2, old - 1, old + 1, old + 2, old + 7, old * 2, ^uint64(0), 1 << (8*f.w - 1)} {
			set(f, nv)
		}
		if f.w == 2 && f.off+4 <= len(v) && (v[f.off] != v[f.off+2] || v[f.off+1] != v[f.off+3]) {
			// exchange with the following 16-bit value (rows <-> cols of a matrix header)
			b := append([]byte{}, v...)
			b[f.off], b[f.off+1], b[f.off+2], b[f.off+3] = v[f.off+2], v[f.off+3], v[f.off], v[f.off+1]
			out = append(out, b)
		}
	}
	for _, e := range encl {
		end := e.off + e.w + int(leGet(v, e))
		for _, g := range fields {
			if g.off <= e.off || g.off > end {
				continue
			}
			for d := 0; d <= 2; d++ {
				if nv := g.off + d - e.off - e.w; nv >= 0 {
					set(e, uint64(nv))
				}
			}
		}
	}
	return out
}

// TestC10NestedSweep is a deterministic enumeration over the structural
// fields of the CP-ABE ciphertext (both formats). ExtractFromCiphertext sees
// every input; the other ciphertext consumers share its header parser, so
// (to bound the cost: they run pairings once the header parses) they see the
// inputs on which ExtractFromCiphertext panicked or succeeded, plus all
// mutations of the fields that only they read (env, tag).
func TestC10NestedSweep(t *testing.T) {
	defer vlib.Done()
	ext := entryByName("tkn20.Policy.ExtractFromCiphertext")
	if ext == nil {
		t.Skip("no tkn20 entries")
	}
	others := []*Entry{entryByName("tkn20.Policy.ExtractFromCiphertext+use"), entryByName("tkn20.Attributes.CouldDecrypt"),
		entryByName("tkn20.AttributeKey.Decrypt"), entryByName("tkn20.AttributeKey.Decrypt/golden-key")}
	d := &directTB{t: t}
	run := func(e *Entry, in []byte) bool {
		d.replay = map[string]interface{}{"entry": e.Name, "input": fmt.Sprintf("%x", in)}
		return probe(d, e, "nested-sweep", in)
	}
	accepted := false
	ext2 := *ext
	ext2.Call = func(b []byte) { var pol tknPolicy; accepted = pol.ExtractFromCiphertext(b) == nil }
	for vi := 0; vi < max(1, ext.NValid); vi++ {
		if vi%vlib.NShards != vlib.Shard {
			continue
		}
		v := ext.Valid(vi)
		if !vlib.Thorough() && len(v) > 3000 {
			continue // the ciphertext of the large policy: thorough tier only
		}
		fields, _ := tknWalkCached(v)
		tail := map[int]bool{}
		if len(fields) >= 2 {
			tail[fields[len(fields)-1].off] = true
			tail[fields[len(fields)-2].off] = true
		}
		for _, in := range tknSweepInputs(v) {
			accepted = false
			panicked := run(&ext2, in)
			// does the input differ from v only in env/tag length fields?
			onlyTail := false
			for off := range tail {
				if off+1 < len(in) && (in[off] != v[off] || in[off+1] != v[off+1]) {
					onlyTail = true
				}
			}
			if panicked || accepted || onlyTail {
				for _, e := range others {
					if e != nil {
						run(e, in)
					}
				}
			}
		}
	}
}

// tknKeyFields returns the structural 16-bit fields of a valid CP-ABE key encoding (tk.go):
//
//	PublicKey        3 x ( len16 | matrix{rows16 cols16 …} )
//	SystemSecretKey  5 x ( len16 | matrix ) | len16 prfKey
//	AttributeKey     len16 | attributes{ n16 | n x ( len16 label | 33 bytes ) } | len16 matrix | len16 matrix
//	                 | n16 | n x ( len16 label | len16 matrix ) | n16 | n x ( len16 label | len16 matrix )
func tknKeyFields(name string, v []byte) (fields []leField) {
	defer func() { _ = recover() }()
	o := 0
	add := func(off int) int {
		fields = append(fields, leField{off, 2})
		return int(binary.LittleEndian.Uint16(v[off:]))
	}
	matrix := func() {
		l := add(o)
		if l >= 4 {
			add(o + 2)
			add(o + 4)
		}
		o += 2 + l
	}
	switch {
	case strings.Contains(name, "PublicKey"):
		for i := 0; i < 3; i++ {
			matrix()
		}
	case strings.Contains(name, "SystemSecretKey"):
		for i := 0; i < 5; i++ {
			matrix()
		}
		add(o)
	default:
		l := add(o)
		end := o + 2 + l
		n := add(o + 2)
		o += 4
		for i := 0; i < n; i++ {
			o += 2 + add(o) + 33
		}
		o = end
		matrix()
		matrix()
		for k := 0; k < 2; k++ {
			n := add(o)
			o += 2
			for i := 0; i < n; i++ {
				o += 2 + add(o)
				matrix()
			}
		}
	}
	var in []leField
	for _, f := range fields {
		if f.off+2 <= len(v) {
			in = append(in, f)
		}
	}
	return in
}

// TestC10KeyFieldSweep: deterministic enumeration over the length-like 16-bit
// fields of the CP-ABE key encodings (lengths, counts, matrix rows/cols):
// boundary values and the exchange with the following 16-bit value.
func TestC10KeyFieldSweep(t *testing.T) {
	defer vlib.Done()
	names := []string{"tkn20.PublicKey.UnmarshalBinary", "tkn20.PublicKey.UnmarshalBinary+Encrypt", "tkn20.SystemSecretKey.UnmarshalBinary",
		"tkn20.SystemSecretKey.UnmarshalBinary+KeyGen", "tkn20.AttributeKey.UnmarshalBinary", "tkn20.AttributeKey.UnmarshalBinary+Decrypt",
		"tkn20.PublicKey.UnmarshalBinary+Equal", "tkn20.SystemSecretKey.UnmarshalBinary+Equal", "tkn20.AttributeKey.UnmarshalBinary+Equal"}
	d := &directTB{t: t}
	for ni, name := range names {
		if ni%vlib.NShards != vlib.Shard {
			continue
		}
		e := entryByName(name)
		if e == nil || e.Valid == nil {
			continue
		}
		v := e.Valid(0)
		try := func(in []byte) {
			d.replay = map[string]interface{}{"entry": e.Name, "input": fmt.Sprintf("%x", in)}
			probe(d, e, "key-field-sweep", in)
		}
		for _, f := range tknKeyFields(name, v) {
			old := leGet(v, f)
			for _, nv := range []uint64{0, 1, old - 1, old + 1, old * 2, 0xffff} {
				if nv&0xffff != old {
					b := append([]byte{}, v...)
					lePut(b, f, nv)
					try(b)
				}
			}
			if f.off+4 <= len(v) && (v[f.off] != v[f.off+2] || v[f.off+1] != v[f.off+3]) {
				b := append([]byte{}, v...)
				b[f.off], b[f.off+1], b[f.off+2], b[f.off+3] = v[f.off+2], v[f.off+3], v[f.off], v[f.off+1]
				try(b)
			}
		}
		if strings.Contains(name, "AttributeKey") {
			// rename one occurrence of an attribute label (the key lists each label up to three
			// times: attribute values, k3, k3wild): flip a bit at the start of every run of letters
			isL := func(c byte) bool { return c >= 'A' && c <= 'Z' || c >= 'a' && c <= 'z' }
			for i := 2; i+1 < len(v); i++ {
				if isL(v[i]) && isL(v[i+1]) && !isL(v[i-1]) {
					b := append([]byte{}, v...)
					b[i] ^= 1
					try(b)
				}
			}
		}
	}
}

// ---------------------------------------------------------------------------
// hostile constants

// corpus holds, per entry name, well-formed but hostile inputs (wrong PEM block
// type, empty PEM block, unsupported OID, the RSA modulus as a "signature", …).
// They are not valid encodings (c10core's self-test requires those to be
// handled without a panic and would classify a panic as a harness fault), so
// they are fed here: each as it is, and as a base for one generic mutation.
var corpus = map[string][][]byte{}

func addCorpus(name string, in ...[]byte) { corpus[name] = append(corpus[name], in...) }

func TestC10Corpus(t *testing.T) {
	defer vlib.Done()
	d := &directTB{t: t}
	for _, e := range sortedEntries() {
		e := e
		items := corpus[e.Name]
		if len(items) == 0 {
			continue
		}
		for _, in := range items {
			d.replay = map[string]interface{}{"entry": e.Name, "input": fmt.Sprintf("%x", in)}
			probe(d, &e, "corpus", in)
		}
		t.Run(e.Name, func(t *testing.T) {
			vlib.Check(t, vlib.N(100, 1000)/max(1, e.Cost), func(t *rapid.T) {
				base := items[rapid.IntRange(0, len(items)-1).Draw(t, "ci")]
				m := vlib.Mutate(t, base, nil, "cm")
				kind := m.Kind
				if i := strings.IndexAny(kind, "@→+=/"); i > 0 {
					kind = kind[:i]
				}
				probe(t, &e, "corpus-mut/"+kind, m.Out)
			})
		})
	}
}

// ---------------------------------------------------------------------------
// policy strings

var policyAtoms = []string{"(", ")", ":", "and", "or", "not", " ", "\n", "\t", "a", "b_1", "0", "EU", "true", "é", "名", "\x00", "\"", ",", "&&", "||", "!", "-", "and:", "not:", "or)", "(("}

func mutatePolicy(t *rapid.T, s string) (string, string) {
	toks := strings.Fields(strings.NewReplacer("(", " ( ", ")", " ) ", ":", " : ").Replace(s))
	kind := rapid.SampledFrom([]string{"drop-token", "dup-token", "insert-atom", "swap-tokens", "replace-token", "unbalance-open", "unbalance-close", "dangling-op",
		"long-ident", "deep-parens", "deep-not", "many-clauses", "unicode-ident", "truncate-string", "atoms-only", "no-spaces", "keyword-as-ident", "repeat-attr"}).Draw(t, "pkind")
	pos := func(label string) int {
		if len(toks) == 0 {
			return 0
		}
		return rapid.IntRange(0, len(toks)-1).Draw(t, label)
	}
	join := func() string { return strings.Join(toks, " ") }
	switch kind {
	case "drop-token":
		if len(toks) > 0 {
			i := pos("i")
			toks = append(toks[:i:i], toks[i+1:]...)
		}
		return kind, join()
	case "dup-token":
		if len(toks) > 0 {
			i := pos("i")
			toks = append(toks[:i+1:i+1], toks[i:]...)
		}
		return kind, join()
	case "insert-atom":
		i := pos("i")
		a := rapid.SampledFrom(policyAtoms).Draw(t, "atom")
		toks = append(toks[:i:i], append([]string{a}, toks[i:]...)...)
		return kind, join()
	case "swap-tokens":
		if len(toks) > 1 {
			i, j := pos("i"), pos("j")
			toks[i], toks[j] = toks[j], toks[i]
		}
		return kind, join()
	case "replace-token":
		if len(toks) > 0 {
			toks[pos("i")] = rapid.SampledFrom(policyAtoms).Draw(t, "atom")
		}
		return kind, join()
	case "unbalance-open":
		return kind, strings.Repeat("(", rapid.IntRange(1, 5).Draw(t, "k")) + s
	case "unbalance-close":
		return kind, s + strings.Repeat(")", rapid.IntRange(1, 5).Draw(t, "k"))
	case "dangling-op":
		op := rapid.SampledFrom([]string{"and", "or", "not", ":", "and not", "or (", "and ("}).Draw(t, "op")
		if rapid.Bool().Draw(t, "front") {
			return kind, op + " " + s
		}
		return kind, s + " " + op
	case "long-ident":
		n := rapid.SampledFrom([]int{255, 256, 65535, 65536, 70000}).Draw(t, "n")
		id := strings.Repeat("x", n)
		if rapid.Bool().Draw(t, "key") {
			return kind, id + ": v and " + s
		}
		return kind, "k: " + id + " or " + s
	case "deep-parens":
		n := rapid.SampledFrom([]int{10, 1000, 20000}).Draw(t, "n")
		closeN := n
		if rapid.Bool().Draw(t, "unbalanced") {
			closeN = n - 1
		}
		return kind, strings.Repeat("(", n) + s + strings.Repeat(")", closeN)
	case "deep-not":
		n := rapid.SampledFrom([]int{2, 3, 1001, 20000}).Draw(t, "n")
		return kind, strings.Repeat("not ", n) + s
	case "many-clauses":
		n := rapid.SampledFrom([]int{30, 300, 1000}).Draw(t, "n") // "not" makes the parser quadratic in the number of attributes: keep it small
		op := rapid.SampledFrom([]string{" and ", " or ", " and not ", " or not "}).Draw(t, "op")
		var b strings.Builder
		for i := 0; i < n; i++ {
			if i > 0 {
				b.WriteString(op)
			}
			fmt.Fprintf(&b, "k%d: v%d", i%7, i)
		}
		return kind, b.String()
	case "unicode-ident":
		id := rapid.SampledFrom([]string{"é", "名前", "á", "\xff\xfe", "𝒳", "a​b", "ｆｕｌｌ"}).Draw(t, "id")
		return kind, id + ": " + id + " and " + s
	case "truncate-string":
		if len(s) > 0 {
			return kind, s[:rapid.IntRange(0, len(s)-1).Draw(t, "l")]
		}
		return kind, s
	case "atoms-only":
		n := rapid.IntRange(0, 12).Draw(t, "n")
		var parts []string
		for i := 0; i < n; i++ {
			parts = append(parts, rapid.SampledFrom(policyAtoms).Draw(t, "atom"))
		}
		return kind, strings.Join(parts, rapid.SampledFrom([]string{"", " "}).Draw(t, "sep"))
	case "no-spaces":
		return kind, strings.ReplaceAll(s, " ", "")
	case "keyword-as-ident":
		kw := rapid.SampledFrom([]string{"and", "or", "not"}).Draw(t, "kw")
		return kind, rapid.SampledFrom([]string{kw + ": x", "x: " + kw, kw + ": " + kw, s + " and " + kw + ": " + kw}).Draw(t, "form")
	default: // repeat-attr
		return kind, s + " and " + s + " or not (" + s + ")"
	}
}

func TestC10PolicyStrings(t *testing.T) {
	e := entryByName("tkn20.Policy.FromString")
	if e == nil {
		t.Skip("no policy entry")
	}
	defer vlib.Done()
	vlib.Check(t, vlib.N(400, 3000), func(t *rapid.T) {
		s := rapid.SampledFrom(tknPolicyStrings).Draw(t, "seed")
		kind, m := mutatePolicy(t, s)
		if rapid.IntRange(0, 3).Draw(t, "twice") == 0 {
			var k2 string
			k2, m = mutatePolicy(t, m)
			kind += "+" + k2
		}
		if len(m) > 1<<20 {
			m = m[:1<<20]
		}
		probe(t, e, "policy/"+kind, []byte(m))
	})
}
