//go:build verif

package c10b

import (
	"encoding/binary"
	"fmt"
	"sort"
	"strings"
	"testing"

	"github.com/cloudflare/circl/zz_verif/vlib"
	"pgregory.net/rapid"
)

// Additional input generators for formats that c10core's generic mutator
// reaches poorly:
//
//   - TestC10StructuredLE: the CP-ABE wire formats use nested little-endian
//     16/32-bit length and count fields (c10core's length-field mutation writes
//     big-endian). Length-like fields are discovered automatically in each valid
//     encoding and overwritten with boundary values, including values that make
//     an enclosing field end exactly at (or one/two bytes past) another field.
//   - TestC10NestedSweep: every value of the enclosing length fields of a
//     CP-ABE ciphertext (deterministic enumeration, strided in quick).
//   - TestC10PolicyStrings: grammar-level mutations of valid policy strings.
//
// Finding keys have the same form as in c10core: C10/panic/<entry>/<panic class>.

// leStructured marks the entries (by name) whose encodings carry little-endian length fields.
var leStructured = map[string]bool{}

func sortedEntries() []Entry {
	r := append([]Entry{}, registry...)
	sort.SliceStable(r, func(i, j int) bool { return r[i].Name < r[j].Name })
	return r
}

func entryByName(name string) *Entry {
	for i := range registry {
		if registry[i].Name == name {
			return &registry[i]
		}
	}
	return nil
}

func trimStack(st string) string {
	var out []string
	for _, l := range strings.Split(st, "\n") {
		if strings.Contains(l, "cloudflare/circl") && !strings.Contains(l, "zz_verif") {
			out = append(out, strings.TrimSpace(l))
		}
		if len(out) >= 8 {
			break
		}
	}
	return strings.Join(out, "\n")
}

// probe calls e on in and reports a panic (same oracle and key as c10core.probe).
func probe(t vlib.TB, e *Entry, kind string, in []byte) {
	sub := "decode/" + e.Group
	vlib.Eval(sub)
	if p, st := vlib.Catch(func() { e.Call(in) }); p != nil {
		key := "C10/panic/" + e.Name + "/" + vlib.PanicClass(p)
		vlib.Class(sub, "panic")
		vlib.Report(t, key, fmt.Sprintf("entry=%s input(%s, %d bytes)=%s panic=%v\n%s", e.Name, kind, len(in), vlib.Hex(in), p, trimStack(st)))
		return
	}
	vlib.NonTrivial(sub, "in="+kind, []byte(e.Name), in)
	vlib.Sample(sub, e.Name+"/"+kind, fmt.Sprintf("%s(%s: %s) returned", e.Name, kind, vlib.Hex(in)))
}

type directTB struct {
	t      *testing.T
	replay map[string]interface{}
}

var directSeen = map[string]bool{}

func (d *directTB) Fatalf(format string, args ...any) {
	msg := fmt.Sprintf(format, args...)
	key := "unknown"
	if i := strings.Index(msg, "key="); i >= 0 {
		key = strings.Fields(msg[i+4:])[0]
	}
	if directSeen[key] {
		return
	}
	directSeen[key] = true
	vlib.ReportDirect(d.t, key, msg, d.replay)
}
func (d *directTB) Logf(format string, args ...any) { d.t.Logf(format, args...) }

// ---------------------------------------------------------------------------
// little-endian length / count fields

type leField struct{ off, w int }

// leCandidates lists the positions whose little-endian value could be a length
// or count: the value does not exceed the number of bytes that follow.
func leCandidates(v []byte) []leField {
	var out []leField
	n := len(v)
	for o := 0; o+2 <= n; o++ {
		if int(binary.LittleEndian.Uint16(v[o:])) <= n-o-2 {
			out = append(out, leField{o, 2})
		}
		if o+4 <= n && uint64(binary.LittleEndian.Uint32(v[o:])) <= uint64(n-o-4) {
			out = append(out, leField{o, 4})
		}
	}
	return out
}

func leGet(b []byte, f leField) uint64 {
	if f.w == 2 {
		return uint64(binary.LittleEndian.Uint16(b[f.off:]))
	}
	return uint64(binary.LittleEndian.Uint32(b[f.off:]))
}

func lePut(b []byte, f leField, v uint64) {
	if f.w == 2 {
		binary.LittleEndian.PutUint16(b[f.off:], uint16(v))
	} else {
		binary.LittleEndian.PutUint32(b[f.off:], uint32(v))
	}
}

var leCache = map[string][]leField{}

func leMutate(t *rapid.T, name string, vi int, v []byte) (string, []byte) {
	ck := fmt.Sprintf("%s/%d", name, vi)
	cands, ok := leCache[ck]
	if !ok {
		cands = leCandidates(v)
		leCache[ck] = cands
	}
	out := append([]byte{}, v...)
	if len(cands) == 0 {
		return "le/none", out
	}
	var kinds []string
	k := rapid.SampledFrom([]int{1, 1, 1, 2, 3}).Draw(t, "nfields")
	for j := 0; j < k; j++ {
		// the first 40 candidates are the outer (structural) fields: favour them
		var f leField
		if rapid.Bool().Draw(t, "outer") {
			f = cands[rapid.IntRange(0, min(len(cands), 40)-1).Draw(t, "fi")]
		} else {
			f = cands[rapid.IntRange(0, len(cands)-1).Draw(t, "fi")]
		}
		old := leGet(out, f)
		rem := uint64(len(out) - f.off - f.w)
		mode := rapid.SampledFrom([]string{"0", "1", "-1", "+1", "+7", "*2", "rem", "rem+1", "rem-1", "max", "max-1", "half", "msb", "small", "cut-at", "cut-at", "swap16"}).Draw(t, "mode")
		nv := old
		switch mode {
		case "0":
			nv = 0
		case "1":
			nv = 1
		case "-1":
			nv = old - 1
		case "+1":
			nv = old + 1
		case "+7":
			nv = old + 7
		case "*2":
			nv = old * 2
		case "rem":
			nv = rem
		case "rem+1":
			nv = rem + 1
		case "rem-1":
			nv = rem - 1
		case "max":
			nv = ^uint64(0)
		case "max-1":
			nv = ^uint64(0) - 1
		case "half":
			nv = old / 2
		case "msb":
			nv = 1 << (8*f.w - 1)
		case "small":
			nv = uint64(rapid.IntRange(0, 40).Draw(t, "sv"))
		case "cut-at":
			// make this field end at (or just past) the start of a later field
			g := cands[rapid.IntRange(0, len(cands)-1).Draw(t, "gi")]
			d := rapid.IntRange(0, 3).Draw(t, "delta")
			if g.off+d >= f.off+f.w {
				nv = uint64(g.off + d - f.off - f.w)
			}
		case "swap16":
			if f.w == 2 && f.off+4 <= len(out) {
				a, b := out[f.off], out[f.off+1]
				out[f.off], out[f.off+1] = out[f.off+2], out[f.off+3]
				out[f.off+2], out[f.off+3] = a, b
				kinds = append(kinds, "swap16")
				continue
			}
		}
		lePut(out, f, nv)
		kinds = append(kinds, fmt.Sprintf("w%d:%s", f.w, mode))
	}
	if rapid.IntRange(0, 5).Draw(t, "cut") == 0 {
		// additionally truncate right after (or inside) a field
		g := cands[rapid.IntRange(0, len(cands)-1).Draw(t, "ci")]
		l := g.off + rapid.IntRange(0, g.w).Draw(t, "cd")
		if l <= len(out) {
			out = out[:l]
			kinds = append(kinds, "trunc-at-field")
		}
	}
	return "le/" + strings.Join(kinds, "+"), out
}

func TestC10StructuredLE(t *testing.T) {
	defer vlib.Done()
	for _, e := range sortedEntries() {
		e := e
		if !leStructured[e.Name] || e.Valid == nil {
			continue
		}
		t.Run(e.Name, func(t *testing.T) {
			n := vlib.N(400, 4000) / max(1, e.Cost)
			vlib.Check(t, n, func(t *rapid.T) {
				vi := rapid.IntRange(0, max(1, e.NValid)-1).Draw(t, "vi")
				kind, in := leMutate(t, e.Name, vi, e.Valid(vi))
				probe(t, &e, kind, in)
			})
		})
	}
}

// TestC10NestedSweep enumerates the values of the enclosing length fields of a
// v1.3.8 CP-ABE ciphertext (macData, C1, policy, first matrix) and of the
// old-format equivalents, for the three ciphertext parsers.
func TestC10NestedSweep(t *testing.T) {
	defer vlib.Done()
	names := []string{"tkn20.Policy.ExtractFromCiphertext", "tkn20.Attributes.CouldDecrypt", "tkn20.AttributeKey.Decrypt", "tkn20.Policy.ExtractFromCiphertext+use"}
	for ni, name := range names {
		if ni%vlib.NShards != vlib.Shard {
			continue
		}
		e := entryByName(name)
		if e == nil {
			continue
		}
		for vi := 0; vi < max(1, e.NValid); vi++ {
			v := e.Valid(vi)
			cands := leCandidates(v)
			// the structural prefix fields: those within the first 64 bytes
			for _, f := range cands {
				if f.off > 64 {
					break
				}
				old := int(leGet(v, f))
				hi := old + 3
				step := 1
				if !vlib.Thorough() && hi > 150 {
					step = hi/150 + 1
				}
				if e.Cost > 1 {
					step *= 2
				}
				d := &directTB{t: t}
				try := func(nv int) {
					out := append([]byte{}, v...)
					lePut(out, f, uint64(nv))
					d.replay = map[string]interface{}{"entry": e.Name, "input": fmt.Sprintf("%x", out)}
					probe(d, e, "nested-sweep", out)
				}
				for nv := 0; nv <= hi; nv += step {
					if nv != old {
						try(nv)
					}
				}
				for nv := max(0, old-12); nv <= old+3; nv++ { // always the neighbourhood of the true value
					if nv != old {
						try(nv)
					}
				}
			}
		}
	}
}

// ---------------------------------------------------------------------------
// policy strings

var policyAtoms = []string{"(", ")", ":", "and", "or", "not", " ", "\n", "\t", "a", "b_1", "0", "EU", "true", "é", "名", "\x00", "\"", ",", "&&", "||", "!", "-", "and:", "not:", "or)", "(("}

func mutatePolicy(t *rapid.T, s string) (string, string) {
	toks := strings.Fields(strings.NewReplacer("(", " ( ", ")", " ) ", ":", " : ").Replace(s))
	kind := rapid.SampledFrom([]string{"drop-token", "dup-token", "insert-atom", "swap-tokens", "replace-token", "unbalance-open", "unbalance-close", "dangling-op",
		"long-ident", "deep-parens", "deep-not", "many-clauses", "unicode-ident", "truncate-string", "atoms-only", "no-spaces", "keyword-as-ident", "repeat-attr"}).Draw(t, "pkind")
	pos := func(label string) int {
		if len(toks) == 0 {
			return 0
		}
		return rapid.IntRange(0, len(toks)-1).Draw(t, label)
	}
	join := func() string { return strings.Join(toks, " ") }
	switch kind {
	case "drop-token":
		if len(toks) > 0 {
			i := pos("i")
			toks = append(toks[:i:i], toks[i+1:]...)
		}
		return kind, join()
	case "dup-token":
		if len(toks) > 0 {
			i := pos("i")
			toks = append(toks[:i+1:i+1], toks[i:]...)
		}
		return kind, join()
	case "insert-atom":
		i := pos("i")
		a := rapid.SampledFrom(policyAtoms).Draw(t, "atom")
		toks = append(toks[:i:i], append([]string{a}, toks[i:]...)...)
		return kind, join()
	case "swap-tokens":
		if len(toks) > 1 {
			i, j := pos("i"), pos("j")
			toks[i], toks[j] = toks[j], toks[i]
		}
		return kind, join()
	case "replace-token":
		if len(toks) > 0 {
			toks[pos("i")] = rapid.SampledFrom(policyAtoms).Draw(t, "atom")
		}
		return kind, join()
	case "unbalance-open":
		return kind, strings.Repeat("(", rapid.IntRange(1, 5).Draw(t, "k")) + s
	case "unbalance-close":
		return kind, s + strings.Repeat(")", rapid.IntRange(1, 5).Draw(t, "k"))
	case "dangling-op":
		op := rapid.SampledFrom([]string{"and", "or", "not", ":", "and not", "or (", "and ("}).Draw(t, "op")
		if rapid.Bool().Draw(t, "front") {
			return kind, op + " " + s
		}
		return kind, s + " " + op
	case "long-ident":
		n := rapid.SampledFrom([]int{255, 256, 65535, 65536, 70000}).Draw(t, "n")
		id := strings.Repeat("x", n)
		if rapid.Bool().Draw(t, "key") {
			return kind, id + ": v and " + s
		}
		return kind, "k: " + id + " or " + s
	case "deep-parens":
		n := rapid.SampledFrom([]int{10, 1000, 20000}).Draw(t, "n")
		closeN := n
		if rapid.Bool().Draw(t, "unbalanced") {
			closeN = n - 1
		}
		return kind, strings.Repeat("(", n) + s + strings.Repeat(")", closeN)
	case "deep-not":
		n := rapid.SampledFrom([]int{2, 3, 1001, 20000}).Draw(t, "n")
		return kind, strings.Repeat("not ", n) + s
	case "many-clauses":
		n := rapid.SampledFrom([]int{100, 2000, 40000}).Draw(t, "n")
		op := rapid.SampledFrom([]string{" and ", " or ", " and not ", " or not "}).Draw(t, "op")
		var b strings.Builder
		for i := 0; i < n; i++ {
			if i > 0 {
				b.WriteString(op)
			}
			fmt.Fprintf(&b, "k%d: v%d", i%7, i)
		}
		return kind, b.String()
	case "unicode-ident":
		id := rapid.SampledFrom([]string{"é", "名前", "á", "\xff\xfe", "𝒳", "a​b", "ｆｕｌｌ"}).Draw(t, "id")
		return kind, id + ": " + id + " and " + s
	case "truncate-string":
		if len(s) > 0 {
			return kind, s[:rapid.IntRange(0, len(s)-1).Draw(t, "l")]
		}
		return kind, s
	case "atoms-only":
		n := rapid.IntRange(0, 12).Draw(t, "n")
		var parts []string
		for i := 0; i < n; i++ {
			parts = append(parts, rapid.SampledFrom(policyAtoms).Draw(t, "atom"))
		}
		return kind, strings.Join(parts, rapid.SampledFrom([]string{"", " "}).Draw(t, "sep"))
	case "no-spaces":
		return kind, strings.ReplaceAll(s, " ", "")
	case "keyword-as-ident":
		kw := rapid.SampledFrom([]string{"and", "or", "not"}).Draw(t, "kw")
		return kind, rapid.SampledFrom([]string{kw + ": x", "x: " + kw, kw + ": " + kw, s + " and " + kw + ": " + kw}).Draw(t, "form")
	default: // repeat-attr
		return kind, s + " and " + s + " or not (" + s + ")"
	}
}

func TestC10PolicyStrings(t *testing.T) {
	e := entryByName("tkn20.Policy.FromString")
	if e == nil {
		t.Skip("no policy entry")
	}
	defer vlib.Done()
	vlib.Check(t, vlib.N(600, 6000), func(t *rapid.T) {
		s := rapid.SampledFrom(tknPolicyStrings).Draw(t, "seed")
		kind, m := mutatePolicy(t, s)
		if rapid.IntRange(0, 3).Draw(t, "twice") == 0 {
			var k2 string
			k2, m = mutatePolicy(t, m)
			kind += "+" + k2
		}
		if len(m) > 1<<20 {
			m = m[:1<<20]
		}
		probe(t, e, "policy/"+kind, []byte(m))
	})
}
