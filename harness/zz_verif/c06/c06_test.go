//go:build verif

// C06 — X25519/X448 equal RFC 7748 on every input and flag exactly the all-zero results.
//
// Sub-checks
//
//	shared/<fn>        Shared(k,u) output == ref/mont (big-integer RFC 7748 ladder), flag == (output != 0),
//	                   KeyGen(k) == ref(k, base point), both parties agree; X25519 also against crypto/ecdh
//	consequence/<kem>  the KEMs built on the functions return an error exactly when the flag is false
//	                   (kem/hybrid X-schemes, HPKE DHKEM(X25519/X448), X25519Kyber768Draft00); X-Wing does not
package c06

import (
	"bytes"
	"crypto/ecdh"
	"encoding/hex"
	"fmt"
	"math/big"
	"sync"
	"testing"

	"github.com/cloudflare/circl/dh/x25519"
	"github.com/cloudflare/circl/dh/x448"
	"github.com/cloudflare/circl/hpke"
	"github.com/cloudflare/circl/kem"
	"github.com/cloudflare/circl/kem/schemes"
	"github.com/cloudflare/circl/zz_verif/ref/mont"
	"github.com/cloudflare/circl/zz_verif/vlib"
	"pgregory.net/rapid"
)

var (
	stOnce sync.Once
	stErr  error
)

func selftest(t *testing.T) {
	stOnce.Do(func() {
		stErr = mont.SelfTest(vlib.Harness+"/zz_verif/ref/mont/testdata", vlib.Thorough() && vlib.Shard == 0 && vlib.Config == "default")
		if stErr == nil {
			stErr = lowOrderSelfTest()
		}
		if stErr == nil {
			vlib.Selftest("ref/mont vs RFC 7748 section 5.2 and 6 vectors (iterated 1000x in the thorough tier), low-order list", "ok")
		}
	})
	if stErr != nil {
		fmt.Printf("SELFTEST-FAIL ref/mont: %v\n", stErr)
		t.Fatalf("SELFTEST-FAIL ref/mont: %v", stErr)
	}
}

// Low-order u-coordinates (public constants: the points of order 1, 2, 4, 8 of
// Curve25519 and its twist; of order 1, 2, 4 of Curve448 and its twist). They
// are only used to BIAS the generator; the expectation always comes from the
// reference output. The self-test confirms that the reference maps each of
// them to zero.
func lowOrder(c *mont.Curve) []*big.Int {
	pm1 := new(big.Int).Sub(c.P, big.NewInt(1))
	out := []*big.Int{big.NewInt(0), big.NewInt(1), pm1}
	if c.Bits == 255 {
		// little-endian octets as in the usual lists of small-order inputs
		for _, h := range []string{
			"e0eb7a7c3b41b8ae1656e3faf19fc46ada098deb9c32b1fd866205165f49b800",
			"5f9c95bca3508c24b1d0b1559c83ef5b04445cc4581c8e86d8224eddd09f1157",
		} {
			b, err := hex.DecodeString(h)
			if err != nil {
				panic(err)
			}
			out = append(out, vlib.FromLE(b))
		}
	}
	return out
}

func lowOrderSelfTest() error {
	for _, c := range []*mont.Curve{mont.C25519, mont.C448} {
		k := make([]byte, c.Size)
		k[3] = 0x55
		for _, u := range lowOrder(c) {
			if o := c.X(k, vlib.LE(u, c.Size)); !mont.IsZero(o) {
				return fmt.Errorf("%s: reference output for low-order u=%x is %x", c.Name, u, o)
			}
		}
		if o := c.X(k, vlib.LE(big.NewInt(2), c.Size)); mont.IsZero(o) {
			return fmt.Errorf("%s: reference output for u=2 is zero", c.Name)
		}
	}
	return nil
}

// ---------------------------------------------------------------------------
// generators

// pick draws an index in [0,n) uniformly (rapid's own small-integer generators
// are biased towards small values, which would starve the later classes).
func pick(t *rapid.T, n int, label string) int {
	var b [8]byte
	vlib.ExpandInto(b[:], rapid.Uint64().Draw(t, label))
	v := uint64(0)
	for _, x := range b {
		v = v<<8 | uint64(x)
	}
	return int(v % uint64(n))
}

func drawScalar(t *rapid.T, c *mont.Curve, label string) ([]byte, string) {
	n := c.Size
	k := make([]byte, n)
	kinds := []string{"zero", "one", "top-bit-254", "all-ones", "clamp-sensitive", "clamp-sensitive", "single-bit", "random", "random", "random"}
	kind := kinds[pick(t, len(kinds), label+".kind")]
	switch kind {
	case "zero":
	case "one":
		k[0] = 1
	case "top-bit-254":
		// 2^254 for X25519 (the smallest clamped scalar), 2^447 for X448
		if n == 32 {
			k[31] = 0x40
		} else {
			k[55] = 0x80
		}
	case "all-ones":
		for i := range k {
			k[i] = 0xff
		}
	case "clamp-sensitive":
		vlib.FillRandom(t, k, label)
		k[0] = rapid.SampledFrom([]byte{0, 1, 2, 3, 4, 7, 8, 0xf8, 0xfb, 0xfc, 0xff}).Draw(t, label+".b0")
		k[n-1] = rapid.SampledFrom([]byte{0, 1, 0x3f, 0x40, 0x7f, 0x80, 0xbf, 0xc0, 0xff}).Draw(t, label+".bl")
	case "single-bit":
		i := rapid.IntRange(0, 8*n-1).Draw(t, label+".bit")
		k[i/8] = 1 << (i % 8)
	default:
		vlib.FillRandom(t, k, label)
	}
	return k, kind
}

var uKinds = []string{"zero", "one", "p-1", "p", "p+1", "low-order", "low-order", "low-order+alias", "p+small", "all-ones", "small", "near-p", "limb-edge", "twist", "curve", "noncanonical-random", "random", "random"}

func drawU(t *rapid.T, c *mont.Curve, label string) ([]byte, string) {
	n := c.Size
	kind := uKinds[pick(t, len(uKinds), label+".kind")]
	one := big.NewInt(1)
	width := new(big.Int).Lsh(one, uint(8*n))
	var v *big.Int
	switch kind {
	case "zero":
		v = big.NewInt(0)
	case "one":
		v = big.NewInt(1)
	case "p-1":
		v = new(big.Int).Sub(c.P, one)
	case "p":
		v = new(big.Int).Set(c.P)
	case "p+1":
		v = new(big.Int).Add(c.P, one)
	case "low-order":
		lo := lowOrder(c)
		v = new(big.Int).Set(lo[rapid.IntRange(0, len(lo)-1).Draw(t, label+".lo")])
	case "low-order+alias":
		// the same field element written differently: +p where it fits, and (X25519) the ignored bit 255
		lo := lowOrder(c)
		v = new(big.Int).Set(lo[rapid.IntRange(0, len(lo)-1).Draw(t, label+".lo")])
		if w := new(big.Int).Add(v, c.P); w.BitLen() <= c.Bits && rapid.Bool().Draw(t, label+".plusp") {
			v = w
		}
		if c.Bits == 255 && (rapid.Bool().Draw(t, label+".bit255") || v.Cmp(c.P) < 0) {
			v.SetBit(v, 255, 1)
		}
		if c.Bits == 448 && v.Cmp(c.P) < 0 {
			// the only aliases for X448 are v+p for v < 2^224+1
			kind = "low-order"
		}
	case "p+small":
		v = new(big.Int).Add(c.P, big.NewInt(int64(rapid.IntRange(0, 40).Draw(t, label+".d"))))
	case "all-ones":
		v = new(big.Int).Sub(width, one)
	case "small":
		v = big.NewInt(int64(rapid.IntRange(0, 1000).Draw(t, label+".v")))
	case "near-p":
		v = vlib.NearModulus(t, c.P, 8*n, label)
	case "limb-edge":
		cc := uint64(19)
		if n == 56 {
			cc = 1
		}
		v = vlib.Limbs(t, n/8, cc, label)
	case "twist", "curve":
		// a random u of the wanted kind (rejection sampling on a counter, at most 64 steps)
		b := make([]byte, n)
		vlib.FillRandom(t, b, label)
		v = vlib.FromLE(b)
		if c.Bits == 255 {
			v.SetBit(v, 255, 0)
		}
		for i := 0; i < 64 && c.OnCurve(v) != (kind == "curve"); i++ {
			v.Add(v, one)
		}
	case "noncanonical-random":
		if c.Bits == 255 {
			b := make([]byte, n)
			vlib.FillRandom(t, b, label)
			v = vlib.FromLE(b)
			v.SetBit(v, 255, 1)
		} else {
			b := make([]byte, 28)
			vlib.FillRandom(t, b, label)
			v = new(big.Int).Add(c.P, vlib.FromLE(b))
		}
	default:
		b := make([]byte, n)
		vlib.FillRandom(t, b, label)
		v = vlib.FromLE(b)
	}
	v.Mod(v, width)
	return vlib.LE(v, n), kind
}

// ---------------------------------------------------------------------------
// calling circl

// Output-buffer modes: the result must not depend on what the output buffer
// held before the call, and the API allows the output to alias an input.
const (
	outGarbage     = iota // separate buffer pre-filled with drawn garbage
	outOnes               // separate buffer pre-filled with 0xff
	outAliasPublic        // shared == public
	outAliasSecret        // shared == secret
	outModes
)

var outModeName = []string{"prefilled-garbage", "prefilled-ones", "alias-public", "alias-secret"}

func fill(dst []byte, mode int, garbage []byte) {
	if mode == outOnes {
		for i := range dst {
			dst[i] = 0xff
		}
		return
	}
	copy(dst, garbage)
}

// circlShared calls Shared with the output buffer arranged as mode says.
func circlShared(c *mont.Curve, k, u []byte, mode int, garbage []byte) (out []byte, ok bool) {
	if c.Bits == 255 {
		var s, kk, uu x25519.Key
		copy(kk[:], k)
		copy(uu[:], u)
		fill(s[:], mode, garbage)
		switch mode {
		case outAliasPublic:
			ok = x25519.Shared(&uu, &kk, &uu)
			s = uu
			copy(uu[:], u)
		case outAliasSecret:
			ok = x25519.Shared(&kk, &kk, &uu)
			s = kk
			copy(kk[:], k)
		default:
			ok = x25519.Shared(&s, &kk, &uu)
		}
		if !bytes.Equal(kk[:], k) || !bytes.Equal(uu[:], u) {
			panic("inputs modified")
		}
		return s[:], ok
	}
	var s, kk, uu x448.Key
	copy(kk[:], k)
	copy(uu[:], u)
	fill(s[:], mode, garbage)
	switch mode {
	case outAliasPublic:
		ok = x448.Shared(&uu, &kk, &uu)
		s = uu
		copy(uu[:], u)
	case outAliasSecret:
		ok = x448.Shared(&kk, &kk, &uu)
		s = kk
		copy(kk[:], k)
	default:
		ok = x448.Shared(&s, &kk, &uu)
	}
	if !bytes.Equal(kk[:], k) || !bytes.Equal(uu[:], u) {
		panic("inputs modified")
	}
	return s[:], ok
}

// circlKeyGen calls KeyGen into a pre-filled buffer, or in place (public == secret).
func circlKeyGen(c *mont.Curve, k []byte, mode int, garbage []byte) []byte {
	if c.Bits == 255 {
		var p, kk x25519.Key
		copy(kk[:], k)
		fill(p[:], mode, garbage)
		if mode == outAliasSecret {
			x25519.KeyGen(&kk, &kk)
			return kk[:]
		}
		x25519.KeyGen(&p, &kk)
		if !bytes.Equal(kk[:], k) {
			panic("inputs modified")
		}
		return p[:]
	}
	var p, kk x448.Key
	copy(kk[:], k)
	fill(p[:], mode, garbage)
	if mode == outAliasSecret {
		x448.KeyGen(&kk, &kk)
		return kk[:]
	}
	x448.KeyGen(&p, &kk)
	if !bytes.Equal(kk[:], k) {
		panic("inputs modified")
	}
	return p[:]
}

func sharedCase(t *rapid.T, c *mont.Curve) {
	sub := "shared/" + c.Name
	k, kk := drawScalar(t, c, "k")
	u, uk := drawU(t, c, "u")
	vlib.Eval(sub)
	vlib.Class(sub, "k="+kk)
	vlib.Class(sub, "u="+uk)
	mode := pick(t, outModes, "outmode")
	garbage := make([]byte, c.Size)
	vlib.FillRandom(t, garbage, "garbage")
	vlib.Class(sub, "out="+outModeName[mode])
	want := c.X(k, u)
	got, ok := circlShared(c, k, u, mode, garbage)
	in := func() string {
		return fmt.Sprintf("k=%x (%s) u=%x (%s) output buffer: %s (%x)", k, kk, u, uk, outModeName[mode], garbage)
	}
	if !bytes.Equal(got, want) {
		if vlib.Report(t, "C06/shared/"+c.Name+"/output-differs-from-RFC7748", fmt.Sprintf("%s circl=%x reference=%x flag=%v", in(), got, want, ok)) {
			return
		}
	}
	zero := mont.IsZero(want)
	if ok == zero {
		cls := "flag-true-on-zero-output"
		if ok == false {
			cls = "flag-false-on-nonzero-output"
		}
		if vlib.Report(t, "C06/flag/"+c.Name+"/"+cls, fmt.Sprintf("%s output=%x flag=%v", in(), got, ok)) {
			return
		}
	}
	if zero {
		vlib.Class(sub, "output=zero")
	}
	if c.OnCurve(c.CanonU(u)) {
		vlib.Class(sub, "u-on-curve")
	} else {
		vlib.Class(sub, "u-on-twist")
	}
	if vlib.FromLE(u).Cmp(c.P) >= 0 {
		vlib.Class(sub, "u-noncanonical")
	}
	// key generation == the function at the base point
	pub := circlKeyGen(c, k, mode, garbage)
	wantPub := c.XBase(k)
	if !bytes.Equal(pub, wantPub) {
		if vlib.Report(t, "C06/keygen/"+c.Name+"/differs-from-RFC7748", fmt.Sprintf("k=%x (%s) circl=%x reference=%x", k, kk, pub, wantPub)) {
			return
		}
	}
	// crypto/ecdh differential
	if c.Bits == 255 {
		priv, err := ecdh.X25519().NewPrivateKey(k)
		pk, err2 := ecdh.X25519().NewPublicKey(u)
		if err != nil || err2 != nil {
			t.Fatalf("SELFTEST-FAIL crypto/ecdh refused a 32-byte string: %v %v", err, err2)
		}
		if !bytes.Equal(priv.PublicKey().Bytes(), pub) {
			if vlib.Report(t, "C06/keygen/X25519/differs-from-crypto-ecdh", fmt.Sprintf("k=%x circl=%x ecdh=%x", k, pub, priv.PublicKey().Bytes())) {
				return
			}
		}
		s, err := priv.ECDH(pk)
		if (err != nil) != !ok || (err == nil && !bytes.Equal(s, got)) {
			if vlib.Report(t, "C06/shared/X25519/differs-from-crypto-ecdh", fmt.Sprintf("%s circl=%x flag=%v ecdh=%x err=%v", in(), got, ok, s, err)) {
				return
			}
		}
	}
	// both parties agree (second scalar)
	k2, _ := drawScalar(t, c, "k2")
	pub2 := circlKeyGen(c, k2, outGarbage, garbage)
	s1, ok1 := circlShared(c, k, pub2, outGarbage, garbage)
	s2, ok2 := circlShared(c, k2, pub, mode, garbage)
	if !bytes.Equal(s1, s2) || !ok1 || !ok2 {
		if vlib.Report(t, "C06/agreement/"+c.Name, fmt.Sprintf("kA=%x kB=%x A's secret=%x (%v) B's secret=%x (%v)", k, k2, s1, ok1, s2, ok2)) {
			return
		}
	}
	if kk != "random" || (uk != "random" && uk != "curve") {
		vlib.NonTrivial(sub, "", k, u)
		vlib.Sample(sub, "k="+kk+",u="+uk, fmt.Sprintf("%s → %x flag=%v", in(), got, ok))
	}
}

func TestC06Shared(t *testing.T) {
	defer vlib.Done()
	selftest(t)
	for _, c := range []*mont.Curve{mont.C25519, mont.C448} {
		c := c
		t.Run(c.Name, func(t *testing.T) {
			n := vlib.N(1200, 6000)
			if c.Bits == 448 {
				n = vlib.N(600, 3500)
			}
			vlib.Check(t, n, func(t *rapid.T) { sharedCase(t, c) })
		})
	}
}

// ---------------------------------------------------------------------------
// consequences

type consumer struct {
	name   string
	s      kem.Scheme
	c      *mont.Curve
	ctOff  int  // offset of the raw share inside the ciphertext
	pkOff  int  // offset of the raw X public key inside the public key
	skOff  int  // offset of the raw X private key inside the private key
	errors bool // a false flag must become an error
	auth   bool
}

func consumers() []consumer {
	by := func(n string) kem.Scheme {
		s := schemes.ByName(n)
		if s == nil {
			panic("no scheme " + n)
		}
		return s
	}
	var out []consumer
	for _, n := range []string{"Kyber512-X25519", "Kyber768-X25519"} {
		out = append(out, consumer{name: "kem/hybrid:" + n, s: by(n), c: mont.C25519, errors: true})
	}
	for _, n := range []string{"Kyber768-X448", "Kyber1024-X448"} {
		out = append(out, consumer{name: "kem/hybrid:" + n, s: by(n), c: mont.C448, errors: true})
	}
	{
		s := by("X25519MLKEM768")
		out = append(out, consumer{name: "kem/hybrid:X25519MLKEM768", s: s, c: mont.C25519, errors: true,
			ctOff: s.CiphertextSize() - 32, pkOff: s.PublicKeySize() - 32, skOff: s.PrivateKeySize() - 32})
	}
	out = append(out,
		consumer{name: "hpke:DHKEM(X25519)", s: hpke.KEM_X25519_HKDF_SHA256.Scheme(), c: mont.C25519, errors: true, auth: true},
		consumer{name: "hpke:DHKEM(X448)", s: hpke.KEM_X448_HKDF_SHA512.Scheme(), c: mont.C448, errors: true, auth: true},
		consumer{name: "hpke:X25519Kyber768Draft00", s: hpke.KEM_X25519_KYBER768_DRAFT00.Scheme(), c: mont.C25519, errors: true},
	)
	{
		s := by("X-Wing")
		out = append(out, consumer{name: "kem/xwing:X-Wing", s: s, c: mont.C25519, errors: false,
			ctOff: s.CiphertextSize() - 32, pkOff: s.PublicKeySize() - 32, skOff: -1})
		h := hpke.KEM_XWING.Scheme()
		out = append(out, consumer{name: "hpke:X-Wing", s: h, c: mont.C25519, errors: false,
			ctOff: h.CiphertextSize() - 32, pkOff: h.PublicKeySize() - 32, skOff: -1})
	}
	return out
}

func consequenceCase(t *rapid.T, cs consumer) {
	sub := "consequence/" + cs.name
	s, c := cs.s, cs.c
	n := c.Size
	kseed := vlib.EdgeBytes(t, s.SeedSize(), "kseed")
	eseed := vlib.EdgeBytes(t, s.EncapsulationSeedSize(), "eseed")
	// bias towards the values that make the flag false
	var u []byte
	var uk string
	if rapid.Bool().Draw(t, "lowbias") {
		lo := lowOrder(c)
		v := new(big.Int).Set(lo[rapid.IntRange(0, len(lo)-1).Draw(t, "lo")])
		uk = "low-order"
		if w := new(big.Int).Add(v, c.P); w.BitLen() <= c.Bits && rapid.Bool().Draw(t, "plusp") {
			v, uk = w, "low-order+alias"
		}
		if c.Bits == 255 && rapid.Bool().Draw(t, "bit255") {
			v.SetBit(v, 255, 1)
			uk = "low-order+alias"
		}
		u = vlib.LE(v, n)
	} else {
		u, uk = drawU(t, c, "u")
	}
	vlib.Eval(sub)
	pk, sk := s.DeriveKeyPair(kseed)
	ct, _, err := s.EncapsulateDeterministically(pk, eseed)
	if err != nil {
		t.Fatalf("honest encapsulation failed: %v", err)
	}
	// the flag Shared returns for u does not depend on the scalar: it is false iff the
	// reference output is zero, which (for clamped scalars) happens iff u has low order
	probe := make([]byte, n)
	probe[1] = 0x11
	low := mont.IsZero(c.X(probe, u))
	if cs.skOff >= 0 {
		skb, _ := sk.MarshalBinary()
		if !low != !mont.IsZero(c.X(skb[cs.skOff:cs.skOff+n], u)) {
			t.Fatalf("SELFTEST-FAIL zero output depends on the scalar: u=%x", u)
		}
	}
	want := low && cs.errors
	vlib.Class(sub, "u="+uk)
	if low {
		vlib.Class(sub, "flag=false")
	}
	what := rapid.SampledFrom([]string{"decapsulate", "decapsulate", "encapsulate", "auth"}).Draw(t, "what")
	if what == "auth" && !cs.auth {
		what = "decapsulate"
	}
	var gotErr error
	switch what {
	case "decapsulate":
		ct2 := append([]byte{}, ct...)
		copy(ct2[cs.ctOff:], u)
		if p, st := vlib.Catch(func() { _, gotErr = s.Decapsulate(sk, ct2) }); p != nil {
			vlib.Report(t, "C06/consequence/"+cs.name+"/panic", fmt.Sprintf("u=%x %v\n%s", u, p, st))
			return
		}
	case "encapsulate":
		pkb, _ := pk.MarshalBinary()
		copy(pkb[cs.pkOff:], u)
		pk2, err := s.UnmarshalBinaryPublicKey(pkb)
		if err != nil {
			// refusing the key at parse time is also "an error"
			gotErr = err
			break
		}
		if p, st := vlib.Catch(func() { _, _, gotErr = s.EncapsulateDeterministically(pk2, eseed) }); p != nil {
			vlib.Report(t, "C06/consequence/"+cs.name+"/panic", fmt.Sprintf("u=%x %v\n%s", u, p, st))
			return
		}
	case "auth":
		as := s.(kem.AuthScheme)
		pkS, err := s.UnmarshalBinaryPublicKey(u)
		if err != nil {
			gotErr = err
			break
		}
		if p, st := vlib.Catch(func() { _, gotErr = as.AuthDecapsulate(sk, ct, pkS) }); p != nil {
			vlib.Report(t, "C06/consequence/"+cs.name+"/panic", fmt.Sprintf("u=%x %v\n%s", u, p, st))
			return
		}
	}
	vlib.Class(sub, "op="+what)
	if (gotErr != nil) != want {
		cls := "no-error-on-false-flag"
		if gotErr != nil {
			cls = "error-on-true-flag"
		}
		if vlib.Report(t, "C06/consequence/"+cs.name+"/"+what+"/"+cls, fmt.Sprintf("u=%x (%s) low-order=%v err=%v", u, uk, low, gotErr)) {
			return
		}
	}
	if uk != "random" && uk != "curve" {
		vlib.NonTrivial(sub, "", []byte(what), u, kseed, eseed)
	}
}

func TestC06Consequences(t *testing.T) {
	defer vlib.Done()
	selftest(t)
	for _, cs := range consumers() {
		cs := cs
		t.Run(cs.name, func(t *testing.T) {
			vlib.Check(t, vlib.N(120, 600), func(t *rapid.T) { consequenceCase(t, cs) })
		})
	}
}
