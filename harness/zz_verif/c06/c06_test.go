//go:build verif

// C06 — X25519/X448 equal RFC 7748 on every input and flag exactly the all-zero results.
//
// Sub-checks
//
//	shared/<fn>        Shared(k,u) output == ref/mont (big-integer RFC 7748 ladder), flag == (output != 0),
//	                   KeyGen(k) == ref(k, base point), both parties agree; X25519 also against crypto/ecdh
//	consequence/<kem>  the KEMs built on the functions return an error exactly when the flag is false
//	                   (kem/hybrid X-schemes, HPKE DHKEM(X25519/X448), X25519Kyber768Draft00); X-Wing does not
package c06

import (
	"bytes"
	"crypto/ecdh"
	"encoding/hex"
	"fmt"
	"math/big"
	"strings"
	"sync"
	"testing"

	"github.com/cloudflare/circl/dh/x25519"
	"github.com/cloudflare/circl/dh/x448"
	"github.com/cloudflare/circl/hpke"
	"github.com/cloudflare/circl/kem"
	"github.com/cloudflare/circl/kem/schemes"
	"github.com/cloudflare/circl/zz_verif/ref/mlkem"
	"github.com/cloudflare/circl/zz_verif/ref/mont"
	"github.com/cloudflare/circl/zz_verif/ref/prodgen"
	"github.com/cloudflare/circl/zz_verif/vlib"
	"golang.org/x/crypto/sha3"
	"pgregory.net/rapid"
)

var (
	stOnce sync.Once
	stErr  error
)

func selftest(t *testing.T) {
	stOnce.Do(func() {
		stErr = mont.SelfTest(vlib.Harness+"/zz_verif/ref/mont/testdata", vlib.Thorough() && vlib.Shard == 0 && vlib.Config == "default")
		if stErr == nil {
			stErr = lowOrderSelfTest()
		}
		if stErr == nil {
			stErr = xwingSelfTest()
		}
		if stErr == nil {
			vlib.Selftest("X-Wing reference (ref/mlkem + ref/mont + x/crypto sha3) vs SHAKE128 digest of the specification's test-vectors.txt", "ok")
		}
		if stErr == nil {
			vlib.Selftest("ref/mont vs RFC 7748 section 5.2 and 6 vectors (iterated 1000x in the thorough tier), low-order list", "ok")
		}
	})
	if stErr != nil {
		fmt.Printf("SELFTEST-FAIL ref/mont: %v\n", stErr)
		t.Fatalf("SELFTEST-FAIL ref/mont: %v", stErr)
	}
}

// Low-order u-coordinates (public constants: the points of order 1, 2, 4, 8 of
// Curve25519 and its twist; of order 1, 2, 4 of Curve448 and its twist). They
// are only used to BIAS the generator; the expectation always comes from the
// reference output. The self-test confirms that the reference maps each of
// them to zero.
func lowOrder(c *mont.Curve) []*big.Int {
	pm1 := new(big.Int).Sub(c.P, big.NewInt(1))
	out := []*big.Int{big.NewInt(0), big.NewInt(1), pm1}
	if c.Bits == 255 {
		// little-endian octets as in the usual lists of small-order inputs
		for _, h := range []string{
			"e0eb7a7c3b41b8ae1656e3faf19fc46ada098deb9c32b1fd866205165f49b800",
			"5f9c95bca3508c24b1d0b1559c83ef5b04445cc4581c8e86d8224eddd09f1157",
		} {
			b, err := hex.DecodeString(h)
			if err != nil {
				panic(err)
			}
			out = append(out, vlib.FromLE(b))
		}
	}
	return out
}

func lowOrderSelfTest() error {
	for _, c := range []*mont.Curve{mont.C25519, mont.C448} {
		k := make([]byte, c.Size)
		k[3] = 0x55
		for _, u := range lowOrder(c) {
			if o := c.X(k, vlib.LE(u, c.Size)); !mont.IsZero(o) {
				return fmt.Errorf("%s: reference output for low-order u=%x is %x", c.Name, u, o)
			}
		}
		if o := c.X(k, vlib.LE(big.NewInt(2), c.Size)); mont.IsZero(o) {
			return fmt.Errorf("%s: reference output for u=2 is zero", c.Name)
		}
	}
	return nil
}

// ---------------------------------------------------------------------------
// generators

// pick draws an index in [0,n) uniformly (rapid's own small-integer generators
// are biased towards small values, which would starve the later classes).
func pick(t *rapid.T, n int, label string) int {
	var b [8]byte
	vlib.ExpandInto(b[:], rapid.Uint64().Draw(t, label))
	v := uint64(0)
	for _, x := range b {
		v = v<<8 | uint64(x)
	}
	return int(v % uint64(n))
}

func drawScalar(t *rapid.T, c *mont.Curve, label string) ([]byte, string) {
	n := c.Size
	k := make([]byte, n)
	kinds := []string{"zero", "one", "top-bit-254", "all-ones", "clamp-sensitive", "clamp-sensitive", "single-bit", "base-point-preimage", "random", "random", "random"}
	kind := kinds[pick(t, len(kinds), label+".kind")]
	switch kind {
	case "zero":
	case "one":
		k[0] = 1
	case "top-bit-254":
		// 2^254 for X25519 (the smallest clamped scalar), 2^447 for X448
		if n == 32 {
			k[31] = 0x40
		} else {
			k[55] = 0x80
		}
	case "all-ones":
		for i := range k {
			k[i] = 0xff
		}
	case "clamp-sensitive":
		vlib.FillRandom(t, k, label)
		k[0] = rapid.SampledFrom([]byte{0, 1, 2, 3, 4, 7, 8, 0xf8, 0xfb, 0xfc, 0xff}).Draw(t, label+".b0")
		k[n-1] = rapid.SampledFrom([]byte{0, 1, 0x3f, 0x40, 0x7f, 0x80, 0xbf, 0xc0, 0xff}).Draw(t, label+".bl")
	case "single-bit":
		i := rapid.IntRange(0, 8*n-1).Draw(t, label+".bit")
		k[i/8] = 1 << (i % 8)
	case "base-point-preimage":
		// KeyGen(k) is the base point (u = 9 resp. 5): the one tiny public key with a known scalar
		pre := basePreimages(c)
		if len(pre) == 0 {
			vlib.FillRandom(t, k, label)
			break
		}
		copy(k, pre[pick(t, len(pre), label+".pre")])
		// bits the clamping ignores may be anything
		if rapid.Bool().Draw(t, label+".unclamped") {
			if n == 32 {
				k[0] |= byte(pick(t, 8, label+".low"))
				k[31] ^= 0x80
			} else {
				k[0] |= byte(pick(t, 4, label+".low"))
			}
		}
	default:
		vlib.FillRandom(t, k, label)
	}
	return k, kind
}

var uKinds = []string{"tiny-output-preimage", "tiny-output-preimage", "limb-boundary", "limb-boundary", "limb-boundary", "zero", "one", "p-1", "p", "p+1", "low-order", "low-order", "low-order+alias", "p+small", "all-ones", "small", "near-p", "limb-edge", "twist", "curve", "noncanonical-random", "random", "random"}

func drawU(t *rapid.T, c *mont.Curve, label string) ([]byte, string) {
	n := c.Size
	kind := uKinds[pick(t, len(uKinds), label+".kind")]
	one := big.NewInt(1)
	width := new(big.Int).Lsh(one, uint(8*n))
	var v *big.Int
	switch kind {
	case "limb-boundary":
		// next to a limb boundary / a power of two / a multiple of p: the carry and borrow chains of the
		// canonical reduction of the peer value
		cc := uint64(19)
		var extra *big.Int
		if n == 56 {
			cc = 1
			extra = new(big.Int).Lsh(one, 224)
		}
		v, _ = prodgen.Boundary(t, n/8, cc, c.P, extra, label+".b")
	case "tiny-output-preimage":
		v = big.NewInt(0) // replaced by the caller, who knows the scalar
	case "zero":
		v = big.NewInt(0)
	case "one":
		v = big.NewInt(1)
	case "p-1":
		v = new(big.Int).Sub(c.P, one)
	case "p":
		v = new(big.Int).Set(c.P)
	case "p+1":
		v = new(big.Int).Add(c.P, one)
	case "low-order":
		lo := lowOrder(c)
		v = new(big.Int).Set(lo[rapid.IntRange(0, len(lo)-1).Draw(t, label+".lo")])
	case "low-order+alias":
		// the same field element written differently: +p where it fits, and (X25519) the ignored bit 255
		lo := lowOrder(c)
		v = new(big.Int).Set(lo[rapid.IntRange(0, len(lo)-1).Draw(t, label+".lo")])
		if w := new(big.Int).Add(v, c.P); w.BitLen() <= c.Bits && rapid.Bool().Draw(t, label+".plusp") {
			v = w
		}
		if c.Bits == 255 && (rapid.Bool().Draw(t, label+".bit255") || v.Cmp(c.P) < 0) {
			v.SetBit(v, 255, 1)
		}
		if c.Bits == 448 && v.Cmp(c.P) < 0 {
			// the only aliases for X448 are v+p for v < 2^224+1
			kind = "low-order"
		}
	case "p+small":
		v = new(big.Int).Add(c.P, big.NewInt(int64(rapid.IntRange(0, 40).Draw(t, label+".d"))))
	case "all-ones":
		v = new(big.Int).Sub(width, one)
	case "small":
		v = big.NewInt(int64(rapid.IntRange(0, 1000).Draw(t, label+".v")))
	case "near-p":
		v = vlib.NearModulus(t, c.P, 8*n, label)
	case "limb-edge":
		cc := uint64(19)
		if n == 56 {
			cc = 1
		}
		v = vlib.Limbs(t, n/8, cc, label)
	case "twist", "curve":
		// a random u of the wanted kind (rejection sampling on a counter, at most 64 steps)
		b := make([]byte, n)
		vlib.FillRandom(t, b, label)
		v = vlib.FromLE(b)
		if c.Bits == 255 {
			v.SetBit(v, 255, 0)
		}
		for i := 0; i < 64 && c.OnCurve(v) != (kind == "curve"); i++ {
			v.Add(v, one)
		}
	case "noncanonical-random":
		if c.Bits == 255 {
			b := make([]byte, n)
			vlib.FillRandom(t, b, label)
			v = vlib.FromLE(b)
			v.SetBit(v, 255, 1)
		} else {
			b := make([]byte, 28)
			vlib.FillRandom(t, b, label)
			v = new(big.Int).Add(c.P, vlib.FromLE(b))
		}
	default:
		b := make([]byte, n)
		vlib.FillRandom(t, b, label)
		v = vlib.FromLE(b)
	}
	v.Mod(v, width)
	return vlib.LE(v, n), kind
}

// ---------------------------------------------------------------------------
// outputs with two representatives
//
// The functions end in a final reduction: a result v < 2^255-p = 19 (X25519) resp.
// v < 2^448-p = 2^224+1 (X448) also fits the output width as v+p, and only the final
// reduction tells them apart. Random inputs produce such results with probability
// 2^-251 / 2^-224, so they are constructed: for a tiny u0 that is the u-coordinate of a
// point Q of prime order n (on the curve or on the twist) and any scalar k, the peer
// value u([s^-1 mod n]Q), s = clamp(k), gives X(k, .) = u0. For KeyGen the only
// reachable tiny result is the base point itself: scalars a = j*l +- 1 that are fixed
// by the clamping. The expectation is, as always, the reference's output.

type tinyPoint struct {
	u *big.Int
	n *big.Int // odd prime order of the subgroup the point lies in
}

var (
	tinyMu   sync.Mutex
	tinyList = map[string][]tinyPoint{}
	preimg   = map[string][][]byte{}
)

func groupOrders(c *mont.Curve) (l, lTwist *big.Int, cof int64) {
	two := big.NewInt(2)
	if c.Bits == 255 {
		l = new(big.Int).Lsh(big.NewInt(1), 252)
		d, _ := new(big.Int).SetString("27742317777372353535851937790883648493", 10)
		l.Add(l, d)
		cof = 8
	} else {
		l = new(big.Int).Lsh(big.NewInt(1), 446)
		d, _ := new(big.Int).SetString("8335dc163bb124b65129c96fde933d8d723a70aadc873d6d54a7bb0d", 16)
		l.Sub(l, d)
		cof = 4
	}
	// #E + #E' = 2p + 2; the twist has cofactor 4 on both curves
	t := new(big.Int).Mul(c.P, two)
	t.Add(t, two)
	t.Sub(t, new(big.Int).Mul(l, big.NewInt(cof)))
	lTwist = t.Div(t, big.NewInt(4))
	return
}

// twoRepBound is 2^width - p: results below it have a second representative.
func twoRepBound(c *mont.Curve) *big.Int {
	w := new(big.Int).Lsh(big.NewInt(1), uint(c.Bits))
	if c.Bits == 448 {
		w = new(big.Int).Lsh(big.NewInt(1), 448)
	}
	return w.Sub(w, c.P)
}

func tinyPoints(c *mont.Curve) []tinyPoint {
	tinyMu.Lock()
	defer tinyMu.Unlock()
	if l := tinyList[c.Name]; l != nil {
		return l
	}
	l, lt, _ := groupOrders(c)
	var out []tinyPoint
	try := func(u *big.Int) {
		n := lt
		if c.OnCurve(u) {
			n = l
		}
		if c.Ladder(n, u).Sign() == 0 && u.Sign() != 0 {
			out = append(out, tinyPoint{u: new(big.Int).Set(u), n: n})
		}
	}
	if c.Bits == 255 {
		for v := int64(2); v < 19; v++ {
			try(big.NewInt(v))
		}
	} else {
		for v := int64(2); v < 40 && len(out) < 6; v++ {
			try(big.NewInt(v))
		}
		// larger values of the two-representative range, derived from the run's seed
		b := make([]byte, 28)
		for i := 0; len(out) < 12 && i < 200; i++ {
			vlib.ExpandInto(b, uint64(vlib.Seed)*7919+uint64(i))
			v := vlib.FromLE(b)
			if i%3 == 0 {
				v.Rsh(v, uint(8*(i%20)))
			}
			try(v)
		}
	}
	tinyList[c.Name] = out
	return out
}

// basePreimages lists the scalars (already in clamped form) whose public key is the base point.
func basePreimages(c *mont.Curve) [][]byte {
	tinyMu.Lock()
	defer tinyMu.Unlock()
	if l := preimg[c.Name]; l != nil {
		return l
	}
	l, _, _ := groupOrders(c)
	var out [][]byte
	for j := int64(1); j <= 16; j++ {
		for _, sgn := range []int64{1, -1} {
			a := new(big.Int).Mul(l, big.NewInt(j))
			a.Add(a, big.NewInt(sgn))
			if a.BitLen() > 8*c.Size {
				continue
			}
			b := vlib.LE(a, c.Size)
			if c.DecodeScalar(b).Cmp(a) == 0 {
				out = append(out, b)
			}
		}
	}
	preimg[c.Name] = out
	return out
}

// tinyOutputPeer returns a peer value P with X(k, P) = u0 for a drawn tiny u0.
func tinyOutputPeer(t *rapid.T, c *mont.Curve, k []byte, label string) []byte {
	pts := tinyPoints(c)
	if len(pts) == 0 {
		return append([]byte{}, c.Base...)
	}
	q := pts[pick(t, len(pts), label+".tiny")]
	s := c.DecodeScalar(k)
	sinv := new(big.Int).ModInverse(new(big.Int).Mod(s, q.n), q.n)
	if sinv == nil {
		return append([]byte{}, c.Base...)
	}
	v := c.Ladder(sinv, q.u)
	if c.Bits == 255 && rapid.Bool().Draw(t, label+".bit255") {
		v.SetBit(v, 255, 1)
	}
	return vlib.LE(v, c.Size)
}

// ---------------------------------------------------------------------------
// calling circl

// Output-buffer modes: the result must not depend on what the output buffer
// held before the call, and the API allows the output to alias an input.
const (
	outGarbage     = iota // separate buffer pre-filled with drawn garbage
	outOnes               // separate buffer pre-filled with 0xff
	outAliasPublic        // shared == public
	outAliasSecret        // shared == secret
	outModes
)

var outModeName = []string{"prefilled-garbage", "prefilled-ones", "alias-public", "alias-secret"}

func fill(dst []byte, mode int, garbage []byte) {
	if mode == outOnes {
		for i := range dst {
			dst[i] = 0xff
		}
		return
	}
	copy(dst, garbage)
}

// circlShared calls Shared with the output buffer arranged as mode says.
func circlShared(c *mont.Curve, k, u []byte, mode int, garbage []byte) (out []byte, ok bool) {
	if c.Bits == 255 {
		var s, kk, uu x25519.Key
		copy(kk[:], k)
		copy(uu[:], u)
		fill(s[:], mode, garbage)
		switch mode {
		case outAliasPublic:
			ok = x25519.Shared(&uu, &kk, &uu)
			s = uu
			copy(uu[:], u)
		case outAliasSecret:
			ok = x25519.Shared(&kk, &kk, &uu)
			s = kk
			copy(kk[:], k)
		default:
			ok = x25519.Shared(&s, &kk, &uu)
		}
		if !bytes.Equal(kk[:], k) || !bytes.Equal(uu[:], u) {
			panic("inputs modified")
		}
		return s[:], ok
	}
	var s, kk, uu x448.Key
	copy(kk[:], k)
	copy(uu[:], u)
	fill(s[:], mode, garbage)
	switch mode {
	case outAliasPublic:
		ok = x448.Shared(&uu, &kk, &uu)
		s = uu
		copy(uu[:], u)
	case outAliasSecret:
		ok = x448.Shared(&kk, &kk, &uu)
		s = kk
		copy(kk[:], k)
	default:
		ok = x448.Shared(&s, &kk, &uu)
	}
	if !bytes.Equal(kk[:], k) || !bytes.Equal(uu[:], u) {
		panic("inputs modified")
	}
	return s[:], ok
}

// circlKeyGen calls KeyGen into a pre-filled buffer, or in place (public == secret).
func circlKeyGen(c *mont.Curve, k []byte, mode int, garbage []byte) []byte {
	if c.Bits == 255 {
		var p, kk x25519.Key
		copy(kk[:], k)
		fill(p[:], mode, garbage)
		if mode == outAliasSecret {
			x25519.KeyGen(&kk, &kk)
			return kk[:]
		}
		x25519.KeyGen(&p, &kk)
		if !bytes.Equal(kk[:], k) {
			panic("inputs modified")
		}
		return p[:]
	}
	var p, kk x448.Key
	copy(kk[:], k)
	fill(p[:], mode, garbage)
	if mode == outAliasSecret {
		x448.KeyGen(&kk, &kk)
		return kk[:]
	}
	x448.KeyGen(&p, &kk)
	if !bytes.Equal(kk[:], k) {
		panic("inputs modified")
	}
	return p[:]
}

func sharedCase(t *rapid.T, c *mont.Curve) {
	sub := "shared/" + c.Name
	k, kk := drawScalar(t, c, "k")
	u, uk := drawU(t, c, "u")
	if uk == "tiny-output-preimage" {
		u = tinyOutputPeer(t, c, k, "u")
	}
	vlib.Eval(sub)
	vlib.Class(sub, "k="+kk)
	vlib.Class(sub, "u="+uk)
	mode := pick(t, outModes, "outmode")
	garbage := make([]byte, c.Size)
	vlib.FillRandom(t, garbage, "garbage")
	vlib.Class(sub, "out="+outModeName[mode])
	want := c.X(k, u)
	got, ok := circlShared(c, k, u, mode, garbage)
	in := func() string {
		return fmt.Sprintf("k=%x (%s) u=%x (%s) output buffer: %s (%x)", k, kk, u, uk, outModeName[mode], garbage)
	}
	if !bytes.Equal(got, want) {
		if vlib.Report(t, "C06/shared/"+c.Name+"/output-differs-from-RFC7748", fmt.Sprintf("%s circl=%x reference=%x flag=%v", in(), got, want, ok)) {
			return
		}
	}
	zero := mont.IsZero(want)
	if ok == zero {
		cls := "flag-true-on-zero-output"
		if ok == false {
			cls = "flag-false-on-nonzero-output"
		}
		if vlib.Report(t, "C06/flag/"+c.Name+"/"+cls, fmt.Sprintf("%s output=%x flag=%v", in(), got, ok)) {
			return
		}
	}
	if zero {
		vlib.Class(sub, "output=zero")
	} else if vlib.FromLE(want).Cmp(twoRepBound(c)) < 0 {
		vlib.Class(sub, "output-has-two-representatives")
	}

	if c.OnCurve(c.CanonU(u)) {
		vlib.Class(sub, "u-on-curve")
	} else {
		vlib.Class(sub, "u-on-twist")
	}
	if vlib.FromLE(u).Cmp(c.P) >= 0 {
		vlib.Class(sub, "u-noncanonical")
	}
	// key generation == the function at the base point
	pub := circlKeyGen(c, k, mode, garbage)
	wantPub := c.XBase(k)
	if vlib.FromLE(wantPub).Cmp(twoRepBound(c)) < 0 {
		vlib.Class(sub, "public-key-has-two-representatives")
	}
	if !bytes.Equal(pub, wantPub) {
		if vlib.Report(t, "C06/keygen/"+c.Name+"/differs-from-RFC7748", fmt.Sprintf("k=%x (%s) circl=%x reference=%x", k, kk, pub, wantPub)) {
			return
		}
	}
	// crypto/ecdh differential
	if c.Bits == 255 {
		priv, err := ecdh.X25519().NewPrivateKey(k)
		pk, err2 := ecdh.X25519().NewPublicKey(u)
		if err != nil || err2 != nil {
			t.Fatalf("SELFTEST-FAIL crypto/ecdh refused a 32-byte string: %v %v", err, err2)
		}
		if !bytes.Equal(priv.PublicKey().Bytes(), pub) {
			if vlib.Report(t, "C06/keygen/X25519/differs-from-crypto-ecdh", fmt.Sprintf("k=%x circl=%x ecdh=%x", k, pub, priv.PublicKey().Bytes())) {
				return
			}
		}
		s, err := priv.ECDH(pk)
		if (err != nil) != !ok || (err == nil && !bytes.Equal(s, got)) {
			if vlib.Report(t, "C06/shared/X25519/differs-from-crypto-ecdh", fmt.Sprintf("%s circl=%x flag=%v ecdh=%x err=%v", in(), got, ok, s, err)) {
				return
			}
		}
	}
	// both parties agree (second scalar)
	k2, _ := drawScalar(t, c, "k2")
	pub2 := circlKeyGen(c, k2, outGarbage, garbage)
	s1, ok1 := circlShared(c, k, pub2, outGarbage, garbage)
	s2, ok2 := circlShared(c, k2, pub, mode, garbage)
	if !bytes.Equal(s1, s2) || !ok1 || !ok2 {
		if vlib.Report(t, "C06/agreement/"+c.Name, fmt.Sprintf("kA=%x kB=%x A's secret=%x (%v) B's secret=%x (%v)", k, k2, s1, ok1, s2, ok2)) {
			return
		}
	}
	if kk != "random" || (uk != "random" && uk != "curve") {
		vlib.NonTrivial(sub, "", k, u)
		vlib.Sample(sub, "k="+kk+",u="+uk, fmt.Sprintf("%s → %x flag=%v", in(), got, ok))
	}
}

func TestC06Shared(t *testing.T) {
	defer vlib.Done()
	selftest(t)
	for _, c := range []*mont.Curve{mont.C25519, mont.C448} {
		c := c
		t.Run(c.Name, func(t *testing.T) {
			n := vlib.N(900, 6000)
			if c.Bits == 448 {
				n = vlib.N(450, 3500)
			}
			vlib.Check(t, n, func(t *rapid.T) { sharedCase(t, c) })
		})
	}
}

// ---------------------------------------------------------------------------
// X-Wing reference (draft-connolly-cfrg-xwing-kem): ML-KEM-768 from ref/mlkem,
// X25519 from ref/mont, SHAKE256 / SHA3-256 from x/crypto. No circl code.

var xwingLabel = []byte{0x5c, 0x2e, 0x2f, 0x2f, 0x5e, 0x5c} // \.//^\

func shake(n int, variant int, in []byte) []byte {
	h := sha3.NewShake256()
	if variant == 128 {
		h = sha3.NewShake128()
	}
	h.Write(in)
	o := make([]byte, n)
	h.Read(o)
	return o
}

// xwingExpand is expandDecapsulationKey: SHAKE256(sk, 96) = d || z || sk_X.
func xwingExpand(seed []byte) (ekM, dkM, skX, pkX []byte) {
	e := shake(96, 256, seed)
	ekM, dkM = mlkem.Get(3, false).KeyGen(e[0:32], e[32:64])
	skX = e[64:96]
	pkX = mont.C25519.XBase(skX)
	return
}

func xwingCombine(ssM, ssX, ctX, pkX []byte) []byte {
	h := sha3.New256()
	h.Write(ssM)
	h.Write(ssX)
	h.Write(ctX)
	h.Write(pkX)
	h.Write(xwingLabel)
	return h.Sum(nil)
}

// xwingDecaps: the X25519 value enters the combiner whatever it is (also all-zero).
func xwingDecaps(seed, ct []byte) []byte {
	_, dkM, skX, pkX := xwingExpand(seed)
	ctM, ctX := ct[:1088], ct[1088:]
	ssM := mlkem.Get(3, false).Decaps(dkM, ctM)
	ssX := mont.C25519.X(skX, ctX)
	return xwingCombine(ssM, ssX, ctX, pkX)
}

// xwingEncaps is EncapsulateDerand: eseed = m || ek_X.
func xwingEncaps(pk, eseed []byte) (ct, ss []byte) {
	pkM, pkX := pk[:1184], pk[1184:]
	ekX := eseed[32:64]
	ctX := mont.C25519.XBase(ekX)
	ssX := mont.C25519.X(ekX, pkX)
	ssM, ctM := mlkem.Get(3, false).Encaps(pkM, eseed[:32])
	return append(append([]byte{}, ctM...), ctX...), xwingCombine(ssM, ssX, ctX, pkX)
}

// xwingSelfTest regenerates spec/test-vectors.txt of the X-Wing specification with the
// reference and compares its SHAKE128 digest with the published one.
func xwingSelfTest() error {
	var w strings.Builder
	writeHex := func(prefix string, val []byte) {
		const indent, width = "  ", 74
		hx := fmt.Sprintf("%x", val)
		if len(prefix)+len(hx)+5 < width {
			fmt.Fprintf(&w, "%s     %s\n", prefix, hx)
			return
		}
		fmt.Fprintf(&w, "%s\n", prefix)
		for len(hx) != 0 {
			n := width - len(indent)
			if len(hx) < n {
				n = len(hx)
			}
			fmt.Fprintf(&w, "%s%s\n", indent, hx[:n])
			hx = hx[n:]
		}
	}
	stream := shake(3*(32+64), 128, nil)
	for i := 0; i < 3; i++ {
		seed, eseed := stream[:32], stream[32:96]
		stream = stream[96:]
		ekM, _, _, pkX := xwingExpand(seed)
		pk := append(append([]byte{}, ekM...), pkX...)
		ct, ss := xwingEncaps(pk, eseed)
		if ss2 := xwingDecaps(seed, ct); !bytes.Equal(ss, ss2) {
			return fmt.Errorf("X-Wing reference: decapsulation does not invert encapsulation")
		}
		writeHex("seed", seed)
		writeHex("sk", seed)
		writeHex("pk", pk)
		writeHex("eseed", eseed)
		writeHex("ct", ct)
		writeHex("ss", ss)
		w.WriteString("\n")
	}
	if got := fmt.Sprintf("%x", shake(32, 128, []byte(w.String()))); got != "1bcd0057d861d6b866239936cadcaeee1ec0164dedc181c386e9e54fe46156fe" {
		return fmt.Errorf("X-Wing reference: digest of the regenerated test vectors is %s", got)
	}
	return nil
}

// ---------------------------------------------------------------------------
// consequences

type consumer struct {
	name   string
	s      kem.Scheme
	c      *mont.Curve
	ctOff  int  // offset of the raw share inside the ciphertext
	pkOff  int  // offset of the raw X public key inside the public key
	skOff  int  // offset of the raw X private key inside the private key
	errors bool // a false flag must become an error
	xwing  bool // the value is checked against the X-Wing reference
	auth   bool
}

func consumers() []consumer {
	by := func(n string) kem.Scheme {
		s := schemes.ByName(n)
		if s == nil {
			panic("no scheme " + n)
		}
		return s
	}
	var out []consumer
	for _, n := range []string{"Kyber512-X25519", "Kyber768-X25519"} {
		out = append(out, consumer{name: "kem/hybrid:" + n, s: by(n), c: mont.C25519, errors: true})
	}
	for _, n := range []string{"Kyber768-X448", "Kyber1024-X448"} {
		out = append(out, consumer{name: "kem/hybrid:" + n, s: by(n), c: mont.C448, errors: true})
	}
	{
		s := by("X25519MLKEM768")
		out = append(out, consumer{name: "kem/hybrid:X25519MLKEM768", s: s, c: mont.C25519, errors: true,
			ctOff: s.CiphertextSize() - 32, pkOff: s.PublicKeySize() - 32, skOff: s.PrivateKeySize() - 32})
	}
	out = append(out,
		consumer{name: "hpke:DHKEM(X25519)", s: hpke.KEM_X25519_HKDF_SHA256.Scheme(), c: mont.C25519, errors: true, auth: true},
		consumer{name: "hpke:DHKEM(X448)", s: hpke.KEM_X448_HKDF_SHA512.Scheme(), c: mont.C448, errors: true, auth: true},
		consumer{name: "hpke:X25519Kyber768Draft00", s: hpke.KEM_X25519_KYBER768_DRAFT00.Scheme(), c: mont.C25519, errors: true},
	)
	{
		s := by("X-Wing")
		out = append(out, consumer{name: "kem/xwing:X-Wing", s: s, c: mont.C25519, errors: false,
			ctOff: s.CiphertextSize() - 32, pkOff: s.PublicKeySize() - 32, skOff: -1, xwing: true})
		h := hpke.KEM_XWING.Scheme()
		out = append(out, consumer{name: "hpke:X-Wing", s: h, c: mont.C25519, errors: false,
			ctOff: h.CiphertextSize() - 32, pkOff: h.PublicKeySize() - 32, skOff: -1, xwing: true})
	}
	return out
}

// scribble overwrites a buffer that was handed to a decoder (including spare capacity): the decoded
// object must not depend on the caller's buffer afterwards.
func scribble(b []byte) {
	b = b[:cap(b)]
	for i := range b {
		b[i] ^= 0xa5 + byte(i)
	}
}

func consequenceCase(t *rapid.T, cs consumer) {
	sub := "consequence/" + cs.name
	s, c := cs.s, cs.c
	n := c.Size
	kseed := vlib.EdgeBytes(t, s.SeedSize(), "kseed")
	eseed := vlib.EdgeBytes(t, s.EncapsulationSeedSize(), "eseed")
	// bias towards the values that make the flag false
	var u []byte
	var uk string
	if rapid.Bool().Draw(t, "lowbias") {
		lo := lowOrder(c)
		v := new(big.Int).Set(lo[rapid.IntRange(0, len(lo)-1).Draw(t, "lo")])
		uk = "low-order"
		if w := new(big.Int).Add(v, c.P); w.BitLen() <= c.Bits && rapid.Bool().Draw(t, "plusp") {
			v, uk = w, "low-order+alias"
		}
		if c.Bits == 255 && rapid.Bool().Draw(t, "bit255") {
			v.SetBit(v, 255, 1)
			uk = "low-order+alias"
		}
		u = vlib.LE(v, n)
	} else {
		u, uk = drawU(t, c, "u")
	}
	vlib.Eval(sub)
	pk, sk := s.DeriveKeyPair(kseed)
	ct, _, err := s.EncapsulateDeterministically(pk, eseed)
	if err != nil {
		t.Fatalf("honest encapsulation failed: %v", err)
	}
	// the flag Shared returns for u does not depend on the scalar: it is false iff the
	// reference output is zero, which (for clamped scalars) happens iff u has low order
	probe := make([]byte, n)
	probe[1] = 0x11
	low := mont.IsZero(c.X(probe, u))
	if cs.skOff >= 0 {
		skb, _ := sk.MarshalBinary()
		if !low != !mont.IsZero(c.X(skb[cs.skOff:cs.skOff+n], u)) {
			t.Fatalf("SELFTEST-FAIL zero output depends on the scalar: u=%x", u)
		}
	}
	want := low && cs.errors
	// the private key goes through the decoder; the import buffer is overwritten before the key is used
	skOrig, _ := sk.MarshalBinary()
	pkOrig, _ := pk.MarshalBinary()
	if rapid.Bool().Draw(t, "importSk") {
		buf := append(make([]byte, 0, len(skOrig)+8), skOrig...)
		sk2, err := s.UnmarshalBinaryPrivateKey(buf)
		if err != nil {
			t.Fatalf("UnmarshalBinaryPrivateKey of an own key failed: %v", err)
		}
		scribble(buf)
		b2, _ := sk2.MarshalBinary()
		p2, _ := sk2.Public().MarshalBinary()
		if !bytes.Equal(b2, skOrig) || !bytes.Equal(p2, pkOrig) {
			if vlib.Report(t, "C06/consequence/"+cs.name+"/imported-private-key-depends-on-caller-buffer", fmt.Sprintf("sk=%x: after overwriting the import buffer MarshalBinary=%x Public=%x (want %x)", skOrig, b2, p2, pkOrig)) {
				return
			}
		}
		sk = sk2
		vlib.Class(sub, "private-key-imported-buffer-overwritten")
	}
	vlib.Class(sub, "u="+uk)
	if low {
		vlib.Class(sub, "flag=false")
	}
	what := rapid.SampledFrom([]string{"decapsulate", "decapsulate", "encapsulate", "auth"}).Draw(t, "what")
	if what == "auth" && !cs.auth {
		what = "decapsulate"
	}
	var gotErr error
	var gotSS, gotCT, encPk, ct2 []byte
	switch what {
	case "decapsulate":
		ct2 = append([]byte{}, ct...)
		copy(ct2[cs.ctOff:], u)
		if p, st := vlib.Catch(func() { gotSS, gotErr = s.Decapsulate(sk, ct2) }); p != nil {
			vlib.Report(t, "C06/consequence/"+cs.name+"/panic", fmt.Sprintf("u=%x %v\n%s", u, p, st))
			return
		}
	case "encapsulate":
		pkb, _ := pk.MarshalBinary()
		copy(pkb[cs.pkOff:], u)
		encPk = append([]byte{}, pkb...)
		pk2, err := s.UnmarshalBinaryPublicKey(pkb)
		scribble(pkb)
		if err != nil {
			// refusing the key at parse time is also "an error"
			gotErr = err
			break
		}
		if p, st := vlib.Catch(func() { gotCT, gotSS, gotErr = s.EncapsulateDeterministically(pk2, eseed) }); p != nil {
			vlib.Report(t, "C06/consequence/"+cs.name+"/panic", fmt.Sprintf("u=%x %v\n%s", u, p, st))
			return
		}
	case "auth":
		as := s.(kem.AuthScheme)
		ubuf := append([]byte{}, u...)
		pkS, err := s.UnmarshalBinaryPublicKey(ubuf)
		scribble(ubuf)
		if err != nil {
			gotErr = err
			break
		}
		if p, st := vlib.Catch(func() { _, gotErr = as.AuthDecapsulate(sk, ct, pkS) }); p != nil {
			vlib.Report(t, "C06/consequence/"+cs.name+"/panic", fmt.Sprintf("u=%x %v\n%s", u, p, st))
			return
		}
	}
	vlib.Class(sub, "op="+what)
	if (gotErr != nil) != want {
		cls := "no-error-on-false-flag"
		if gotErr != nil {
			cls = "error-on-true-flag"
		}
		if vlib.Report(t, "C06/consequence/"+cs.name+"/"+what+"/"+cls, fmt.Sprintf("u=%x (%s) low-order=%v err=%v", u, uk, low, gotErr)) {
			return
		}
	}
	// X-Wing: no error is not enough — the secret must be the combiner of the specification with
	// the X25519 value as it is (all-zero for a low-order share), for every u
	if cs.xwing && gotErr == nil {
		skb := skOrig
		switch what {
		case "decapsulate":
			if want := xwingDecaps(skb, ct2); !bytes.Equal(gotSS, want) {
				if vlib.Report(t, "C06/consequence/"+cs.name+"/decapsulate/secret-differs-from-X-Wing-specification", fmt.Sprintf("seed=%x ct_X=%x (%s) low-order=%v got=%x want=%x", skb, u, uk, low, gotSS, want)) {
					return
				}
			}
			vlib.Class(sub, "xwing-secret-compared")
		case "encapsulate":
			wantCT, wantSS := xwingEncaps(encPk, eseed)
			if !bytes.Equal(gotCT, wantCT) || !bytes.Equal(gotSS, wantSS) {
				if vlib.Report(t, "C06/consequence/"+cs.name+"/encapsulate/differs-from-X-Wing-specification", fmt.Sprintf("pk_X=%x (%s) eseed=%x low-order=%v got ss=%x want ss=%x ct equal=%v", u, uk, eseed, low, gotSS, wantSS, bytes.Equal(gotCT, wantCT))) {
					return
				}
			}
			vlib.Class(sub, "xwing-secret-compared")
		}
	}
	if uk != "random" && uk != "curve" {
		vlib.NonTrivial(sub, "", []byte(what), u, kseed, eseed)
	}
}

func TestC06Consequences(t *testing.T) {
	defer vlib.Done()
	selftest(t)
	for _, cs := range consumers() {
		cs := cs
		t.Run(cs.name, func(t *testing.T) {
			vlib.Check(t, vlib.N(120, 600), func(t *rapid.T) { consequenceCase(t, cs) })
		})
	}
}
