//go:build verif

// C15 — hashes, XOFs and Ascon match their specifications on every input and chunking.
//
// Black-box part. Oracles: ref/keccak (lane-level Keccak-p from FIPS 202 / RFC 9861),
// golang.org/x/crypto (sha3, blake2b, blake2s), ref/h2c, ref/ascon.
package c15

import (
	"bytes"
	"crypto"
	_ "crypto/sha256"
	_ "crypto/sha512"
	"fmt"
	"hash"
	"testing"

	"github.com/cloudflare/circl/expander"
	"github.com/cloudflare/circl/internal/sha3"
	"github.com/cloudflare/circl/simd/keccakf1600"
	"github.com/cloudflare/circl/xof"
	"github.com/cloudflare/circl/xof/k12"
	"github.com/cloudflare/circl/zz_verif/c15/xofsm"
	rascon "github.com/cloudflare/circl/zz_verif/ref/ascon"
	"github.com/cloudflare/circl/zz_verif/ref/h2c"
	"github.com/cloudflare/circl/zz_verif/ref/keccak"
	"github.com/cloudflare/circl/zz_verif/vlib"
	"golang.org/x/crypto/blake2b"
	"golang.org/x/crypto/blake2s"
	xsha3 "golang.org/x/crypto/sha3"
	"pgregory.net/rapid"
)

// ---------------------------------------------------------------------------
// oracle self-tests

func TestC15_00Selftest(t *testing.T) {
	defer vlib.Done()
	heavy := vlib.Thorough() && vlib.Shard == 0
	if err := keccak.SelfTest(vlib.Harness, heavy); err != nil {
		vlib.Selftest("ref/keccak", "FAIL: "+err.Error())
		t.Fatalf("SELFTEST-FAIL ref/keccak: %v", err)
	}
	vlib.Selftest("ref/keccak", "ok")
	if err := rascon.SelfTest(vlib.Harness); err != nil {
		vlib.Selftest("ref/ascon", "FAIL: "+err.Error())
		t.Fatalf("SELFTEST-FAIL ref/ascon: %v", err)
	}
	vlib.Selftest("ref/ascon", "ok")
	if err := h2c.SelfTest(vlib.Harness); err != nil {
		vlib.Selftest("ref/h2c", "FAIL: "+err.Error())
		t.Fatalf("SELFTEST-FAIL ref/h2c: %v", err)
	}
	vlib.Selftest("ref/h2c", "ok")
}

// ---------------------------------------------------------------------------
// adapters

type shaInst struct{ s *sha3.State }

func (a shaInst) Write(p []byte) (int, error) { return a.s.Write(p) }
func (a shaInst) Read(p []byte) (int, error)  { return a.s.Read(p) }
func (a shaInst) Reset()                      { a.s.Reset() }
func (a shaInst) Sum(in []byte) []byte        { return a.s.Sum(in) }
func (a shaInst) CloneInst() xofsm.Inst       { return shaInst{a.s.Clone().(*sha3.State)} }

type xofInst struct{ x xof.XOF }

func (a xofInst) Write(p []byte) (int, error) { return a.x.Write(p) }
func (a xofInst) Read(p []byte) (int, error)  { return a.x.Read(p) }
func (a xofInst) Reset()                      { a.x.Reset() }
func (a xofInst) CloneInst() xofsm.Inst       { return xofInst{a.x.Clone()} }

type k12Inst struct{ s *k12.State }

func (a k12Inst) Write(p []byte) (int, error) { return a.s.Write(p) }
func (a k12Inst) Read(p []byte) (int, error)  { return a.s.Read(p) }
func (a k12Inst) Reset()                      { a.s.Reset() }
func (a k12Inst) CloneInst() xofsm.Inst       { c := a.s.Clone(); return k12Inst{&c} }

func xShake128(m []byte, n int) []byte { o := make([]byte, n); xsha3.ShakeSum128(o, m); return o }
func xShake256(m []byte, n int) []byte { o := make([]byte, n); xsha3.ShakeSum256(o, m); return o }

func xDigest(newH func() hash.Hash) func(m []byte, n int) []byte {
	return func(m []byte, n int) []byte {
		h := newH()
		h.Write(m)
		return h.Sum(nil)[:n]
	}
}

func refBlake2xb(m []byte, n int) []byte {
	x, err := blake2b.NewXOF(blake2b.OutputLengthUnknown, nil)
	if err != nil {
		panic(err)
	}
	x.Write(m)
	o := make([]byte, n)
	x.Read(o)
	return o
}

func refBlake2xs(m []byte, n int) []byte {
	x, err := blake2s.NewXOF(blake2s.OutputLengthUnknown, nil)
	if err != nil {
		panic(err)
	}
	x.Write(m)
	o := make([]byte, n)
	x.Read(o)
	return o
}

func drawD(t *rapid.T) byte {
	if rapid.Bool().Draw(t, "Dedge") {
		return rapid.SampledFrom([]byte{0x01, 0x06, 0x07, 0x0b, 0x1f, 0x7f, 0x40}).Draw(t, "D")
	}
	return byte(rapid.IntRange(1, 0x7f).Draw(t, "D"))
}

var ctxLens = []int{0, 1, 2, 255, 256, 257, 300, 8180, 8189, 8190, 8191, 8192, 8193, 16384, 65536, 65537}

func drawCtx(t *rapid.T) []byte {
	var n int
	if rapid.IntRange(0, 2).Draw(t, "ctxedge") > 0 {
		n = rapid.SampledFrom(ctxLens).Draw(t, "ctxlen")
	} else {
		n = rapid.IntRange(0, 600).Draw(t, "ctxlen")
	}
	c := make([]byte, n)
	if n > 0 {
		vlib.FillRandom(t, c, "ctx")
	}
	return c
}

func ctxClass(n int) string {
	switch {
	case n == 0:
		return "ctx:len0"
	case n < 256:
		return "ctx:len<256(1-byte length_encode)"
	case n == 256 || n == 65536:
		return "ctx:length_encode-with-zero-byte"
	case n < 65536:
		return "ctx:2-byte-length"
	}
	return "ctx:3-byte-length"
}

type fn struct {
	name string
	mk   func(t *rapid.T) xofsm.Spec
	cost int
}

func functions() []fn {
	sha := func(name string, bitsz int, newS func() sha3.State, newX func() hash.Hash) fn {
		return fn{name: "sponge/" + name, cost: 1, mk: func(t *rapid.T) xofsm.Spec {
			return xofsm.Spec{
				New:  func() xofsm.Inst { s := newS(); return shaInst{&s} },
				Ref:  xDigest(newX),
				Rate: 200 - 2*bitsz/8, MaxOut: bitsz / 8, SumLen: bitsz / 8, Big: 40,
			}
		}}
	}
	return []fn{
		sha("SHA3-224", 224, sha3.New224, xsha3.New224),
		sha("SHA3-256", 256, sha3.New256, xsha3.New256),
		sha("SHA3-384", 384, sha3.New384, xsha3.New384),
		sha("SHA3-512", 512, sha3.New512, xsha3.New512),
		{name: "sponge/SHAKE128", cost: 1, mk: func(t *rapid.T) xofsm.Spec {
			return xofsm.Spec{New: func() xofsm.Inst { s := sha3.NewShake128(); return shaInst{&s} }, Ref: xShake128, Rate: 168, Big: 40}
		}},
		{name: "sponge/SHAKE256", cost: 1, mk: func(t *rapid.T) xofsm.Spec {
			return xofsm.Spec{New: func() xofsm.Inst { s := sha3.NewShake256(); return shaInst{&s} }, Ref: xShake256, Rate: 136, Big: 40}
		}},
		{name: "sponge/TurboSHAKE128", cost: 1, mk: func(t *rapid.T) xofsm.Spec {
			D := drawD(t)
			return xofsm.Spec{New: func() xofsm.Inst { s := sha3.NewTurboShake128(D); return shaInst{&s} }, Ref: func(m []byte, n int) []byte { return keccak.TurboSHAKE128(m, D, n) }, Rate: 168, Big: 40}
		}},
		{name: "sponge/TurboSHAKE256", cost: 1, mk: func(t *rapid.T) xofsm.Spec {
			D := drawD(t)
			return xofsm.Spec{New: func() xofsm.Inst { s := sha3.NewTurboShake256(D); return shaInst{&s} }, Ref: func(m []byte, n int) []byte { return keccak.TurboSHAKE256(m, D, n) }, Rate: 136, Big: 40}
		}},
		{name: "xof/SHAKE128", cost: 2, mk: func(t *rapid.T) xofsm.Spec {
			return xofsm.Spec{New: func() xofsm.Inst { return xofInst{xof.SHAKE128.New()} }, Ref: xShake128, Rate: 168, Big: 40}
		}},
		{name: "xof/SHAKE256", cost: 2, mk: func(t *rapid.T) xofsm.Spec {
			return xofsm.Spec{New: func() xofsm.Inst { return xofInst{xof.SHAKE256.New()} }, Ref: xShake256, Rate: 136, Big: 40}
		}},
		// circl wraps x/crypto's BLAKE2X, which is also the oracle: only the chunking / clone / reset relations carry weight here
		{name: "xof/BLAKE2XB-same-library-oracle", cost: 2, mk: func(t *rapid.T) xofsm.Spec {
			return xofsm.Spec{New: func() xofsm.Inst { return xofInst{xof.BLAKE2XB.New()} }, Ref: refBlake2xb, Rate: 128, Big: 40}
		}},
		{name: "xof/BLAKE2XS-same-library-oracle", cost: 2, mk: func(t *rapid.T) xofsm.Spec {
			return xofsm.Spec{New: func() xofsm.Inst { return xofInst{xof.BLAKE2XS.New()} }, Ref: refBlake2xs, Rate: 64, Big: 40}
		}},
		{name: "xof/K12D10", cost: 1, mk: func(t *rapid.T) xofsm.Spec {
			return xofsm.Spec{New: func() xofsm.Inst { return xofInst{xof.K12D10.New()} }, Ref: func(m []byte, n int) []byte { return keccak.KT128(m, nil, n) },
				Rate: 168, Big: 300, Lanes: pubLanes(), Tail: 1}
		}},
		{name: "k12/NewDraft10-ctx", cost: 1, mk: func(t *rapid.T) xofsm.Spec {
			ctx := drawCtx(t)
			vlib.Class("k12/NewDraft10-ctx", ctxClass(len(ctx)))
			return xofsm.Spec{New: func() xofsm.Inst { s := k12.NewDraft10(ctx); return k12Inst{&s} }, Ref: func(m []byte, n int) []byte { return keccak.KT128(m, ctx, n) },
				Rate: 168, Big: 300, Lanes: pubLanes(), Tail: len(ctx) + len(keccak.LengthEncode(uint64(len(ctx))))}
		}},
	}
}

// pubLanes is the lane count NewDraft10 documents it chooses.
func pubLanes() int {
	if keccakf1600.IsEnabledX4() {
		return 4
	}
	if keccakf1600.IsEnabledX2() {
		return 2
	}
	return 1
}

// TestC15Histories: Write/Read/Clone/Reset/Sum histories against the reference stream.
func TestC15Histories(t *testing.T) {
	defer vlib.Done()
	for _, f := range functions() {
		f := f
		t.Run(f.name, func(t *testing.T) {
			vlib.Check(t, vlib.N(260, 1000)/f.cost, func(t *rapid.T) {
				sp := f.mk(t)
				sp.Sub = f.name
				sp.Key = "C15/" + f.name
				xofsm.Run(t, sp)
			})
		})
	}
}

// ---------------------------------------------------------------------------
// two-chunk split sweep (deterministic): Write(m[:s]); Write(m[s:]); Read

func TestC15Split2(t *testing.T) {
	defer vlib.Done()
	shots := []xofsm.OneShot{
		{"sponge/SHA3-256", 136, 1, 0, func() xofsm.Inst { s := sha3.New256(); return shaInst{&s} }, func(m []byte, n int) []byte { return keccak.SHA3(256, m, n) }, 32},
		{"sponge/SHA3-512", 72, 1, 0, func() xofsm.Inst { s := sha3.New512(); return shaInst{&s} }, func(m []byte, n int) []byte { return keccak.SHA3(512, m, n) }, 64},
		{"sponge/SHAKE128", 168, 1, 0, func() xofsm.Inst { s := sha3.NewShake128(); return shaInst{&s} }, xShake128, 200},
		{"sponge/TurboSHAKE256", 136, 1, 0, func() xofsm.Inst { s := sha3.NewTurboShake256(0x1f); return shaInst{&s} }, func(m []byte, n int) []byte { return keccak.TurboSHAKE256(m, 0x1f, n) }, 200},
		{"xof/K12D10", 168, pubLanes(), 1, func() xofsm.Inst { return xofInst{xof.K12D10.New()} }, func(m []byte, n int) []byte { return keccak.KT128(m, nil, n) }, 40},
	}
	for _, o := range shots {
		xofsm.Sweep(t, o)
		if t.Failed() {
			return
		}
	}
}

// TestC15K12ManyChunks: chunk counts whose length_encode contains a zero byte
// (256 leaves = 0x0100) and its neighbours; 2 MiB messages.
func TestC15K12ManyChunks(t *testing.T) {
	defer vlib.Done()
	sub := "k12/many-chunks"
	cases := []struct{ leaves, extra int }{{255, 0}, {256, 0}, {256, 1}, {257, -1}, {255, 8191}}
	for i, c := range cases {
		if i%vlib.NShards != vlib.Shard {
			continue
		}
		// |M| + 1 (length_encode(0)) = 8192*(1+leaves) + extra  ⇒ number of leaves = leaves (+1 if extra>0)
		L := 8192*(1+c.leaves) + c.extra - 1
		msg := make([]byte, L)
		vlib.ExpandInto(msg, uint64(vlib.Seed)*31+uint64(i))
		want := keccak.KT128(msg, nil, 48)
		s := k12.NewDraft10(nil)
		got := make([]byte, 48)
		step := 100000 + 8192*i
		for off := 0; off < L; off += step {
			e := off + step
			if e > L {
				e = L
			}
			s.Write(msg[off:e])
		}
		s.Read(got)
		vlib.Eval(sub)
		if !bytes.Equal(got, want) {
			if !vlib.ReportDirect(t, "C15/k12/NewDraft10/stream-many-chunks", fmt.Sprintf("|M|=%d (%d leaves): got %x want %x", L, c.leaves, got, want), map[string]interface{}{"L": L}) {
				return
			}
			continue
		}
		vlib.NonTrivial(sub, fmt.Sprintf("leaves≈%d", c.leaves), []byte(fmt.Sprint(L, vlib.Seed)))
	}
}

// ---------------------------------------------------------------------------
// 2- and 4-way permutations and the scalar permutation, lane-wise vs ref/keccak.P

func drawLanes(t *rapid.T, label string) [25]uint64 {
	var a [25]uint64
	switch rapid.IntRange(0, 5).Draw(t, label+".kind") {
	case 0:
	case 1:
		for i := range a {
			a[i] = ^uint64(0)
		}
	case 2:
		i := rapid.IntRange(0, 1599).Draw(t, label+".bit")
		a[i/64] = 1 << uint(i%64)
	default:
		var b [200]byte
		vlib.FillRandom(t, b[:], label)
		for i := range a {
			for j := 0; j < 8; j++ {
				a[i] |= uint64(b[8*i+j]) << uint(8*j)
			}
		}
	}
	return a
}

func lanesBytes(a *[25]uint64) []byte {
	b := make([]byte, 200)
	for i := range a {
		for j := 0; j < 8; j++ {
			b[8*i+j] = byte(a[i] >> uint(8*j))
		}
	}
	return b
}

func TestC15Permutations(t *testing.T) {
	defer vlib.Done()
	vlib.Note(fmt.Sprintf("keccakf1600: IsEnabledX4=%v IsEnabledX2=%v (config %s)", keccakf1600.IsEnabledX4(), keccakf1600.IsEnabledX2(), vlib.Config))
	vlib.Check(t, vlib.N(1500, 12000), func(t *rapid.T) {
		turbo := rapid.Bool().Draw(t, "turbo")
		nr := 24
		if turbo {
			nr = 12
		}
		reps := rapid.IntRange(1, 3).Draw(t, "reps")
		way := rapid.SampledFrom([]int{1, 2, 4}).Draw(t, "way")
		sub := fmt.Sprintf("perm/x%d", way)
		vlib.Eval(sub)
		var in [4][25]uint64
		for i := 0; i < way; i++ {
			in[i] = drawLanes(t, fmt.Sprintf("s%d", i))
		}
		want := in
		for i := 0; i < way; i++ {
			for r := 0; r < reps; r++ {
				keccak.P(&want[i], nr)
			}
		}
		var got [4][25]uint64
		switch way {
		case 1:
			got[0] = in[0]
			for r := 0; r < reps; r++ {
				sha3.KeccakF1600(&got[0], turbo)
			}
		case 2:
			var s keccakf1600.StateX2
			a := s.Initialize(turbo)
			if len(a) != 50 {
				vlib.Report(t, "C15/perm/x2/initialize-length", fmt.Sprint(len(a)))
				return
			}
			for j := 0; j < 25; j++ {
				a[2*j], a[2*j+1] = in[0][j], in[1][j]
			}
			for r := 0; r < reps; r++ {
				s.Permute()
			}
			for j := 0; j < 25; j++ {
				got[0][j], got[1][j] = a[2*j], a[2*j+1]
			}
		case 4:
			var s keccakf1600.StateX4
			a := s.Initialize(turbo)
			if len(a) != 100 {
				vlib.Report(t, "C15/perm/x4/initialize-length", fmt.Sprint(len(a)))
				return
			}
			for j := 0; j < 25; j++ {
				for i := 0; i < 4; i++ {
					a[4*j+i] = in[i][j]
				}
			}
			for r := 0; r < reps; r++ {
				s.Permute()
			}
			for j := 0; j < 25; j++ {
				for i := 0; i < 4; i++ {
					got[i][j] = a[4*j+i]
				}
			}
		}
		for i := 0; i < way; i++ {
			if got[i] != want[i] {
				vlib.Report(t, fmt.Sprintf("C15/perm/x%d/lane-mismatch", way), fmt.Sprintf("turbo=%v reps=%d lane-set %d: input %x got %x want %x", turbo, reps, i, in[i], got[i], want[i]))
				return
			}
		}
		cls := "rounds=24"
		if turbo {
			cls = "rounds=12"
		}
		parts := [][]byte{[]byte(cls), {byte(reps)}}
		for i := 0; i < way; i++ {
			parts = append(parts, lanesBytes(&in[i]))
		}
		vlib.NonTrivial(sub, cls, parts...)
	})
}

// ---------------------------------------------------------------------------
// RFC 9380 expanders

type mdInfo struct {
	name string
	h    crypto.Hash
}

var mds = []mdInfo{{"SHA256", crypto.SHA256}, {"SHA384", crypto.SHA384}, {"SHA512", crypto.SHA512}, {"SHA512_256", crypto.SHA512_256}, {"SHA3_256", crypto.SHA3_256}}

type xofInfo struct {
	name string
	id   xof.ID
	ref  func(m []byte, n int) []byte
}

var xofs = []xofInfo{
	{"SHAKE128", xof.SHAKE128, xShake128}, {"SHAKE256", xof.SHAKE256, xShake256},
	{"BLAKE2XB", xof.BLAKE2XB, refBlake2xb}, {"BLAKE2XS", xof.BLAKE2XS, refBlake2xs},
	{"K12D10", xof.K12D10, func(m []byte, n int) []byte { return keccak.KT128(m, nil, n) }},
}

var dstLens = []int{0, 1, 2, 16, 254, 255, 256, 257, 300, 1000, 9000}

func TestC15Expander(t *testing.T) {
	defer vlib.Done()
	vlib.Check(t, vlib.N(1500, 14000), func(t *rapid.T) {
		var dl int
		if rapid.IntRange(0, 3).Draw(t, "dstedge") > 0 {
			dl = rapid.SampledFrom(dstLens).Draw(t, "dstlen")
		} else {
			dl = rapid.IntRange(0, 400).Draw(t, "dstlen")
		}
		dst := make([]byte, dl)
		if dl > 0 {
			vlib.FillRandom(t, dst, "dst")
		}
		var ml int
		switch rapid.IntRange(0, 3).Draw(t, "mkind") {
		case 0:
			ml = rapid.SampledFrom([]int{0, 1, 55, 56, 63, 64, 65, 111, 112, 127, 128, 129, 135, 136, 137, 167, 168, 169, 8191, 8192, 8193}).Draw(t, "mlen")
		default:
			ml = rapid.IntRange(0, 300).Draw(t, "mlen")
		}
		msg := make([]byte, ml)
		if ml > 0 {
			vlib.FillRandom(t, msg, "msg")
		}
		isXMD := rapid.Bool().Draw(t, "xmd")
		var sub, key string
		var exp expander.Expander
		var want func(n int) ([]byte, error)
		var unit, maxN int
		if isXMD {
			md := rapid.SampledFrom(mds).Draw(t, "md")
			sub, key = "expander/xmd", "C15/expander/xmd/"+md.name
			exp = expander.NewExpanderMD(md.h, dst)
			unit = md.h.Size()
			maxN = 255 * unit
			want = func(n int) ([]byte, error) { return h2c.XMD(md.h.New, msg, dst, n) }
			vlib.Class(sub, "hash="+md.name)
		} else {
			x := rapid.SampledFrom(xofs).Draw(t, "xof")
			k := drawSecLevel(t)
			vlib.Class("expander/xof", fmt.Sprintf("k mod 4 = %d", k%4))
			sub, key = "expander/xof", "C15/expander/xof/"+x.name
			exp = expander.NewExpanderXOF(x.id, uint(k), dst)
			unit = 168
			maxN = 65535
			want = func(n int) ([]byte, error) { return h2c.XOF(x.ref, k, msg, dst, n) }
			vlib.Class(sub, "xof="+x.name)
		}
		if maxN > 65535 {
			maxN = 65535
		}
		var n int
		switch rapid.IntRange(0, 9).Draw(t, "nkind") {
		case 0, 1, 2, 3:
			n = rapid.SampledFrom([]int{0, 1, unit - 1, unit, unit + 1, 2*unit + 3, 3 * unit, 255, 256, 257}).Draw(t, "n")
		case 4:
			n = rapid.SampledFrom([]int{maxN, maxN - 1, 10000}).Draw(t, "n")
		default:
			n = rapid.IntRange(0, 600).Draw(t, "n")
		}
		if n > maxN {
			n = maxN
		}
		vlib.Eval(sub)
		ref, err := want(n)
		if err != nil {
			t.Fatalf("SELFTEST-FAIL reference aborted inside the valid domain: %v", err)
		}
		var got, got2 []byte
		if p, st := vlib.Catch(func() {
			got = exp.Expand(msg, uint(n))
		}); p != nil {
			vlib.Report(t, key+"/panic/"+vlib.PanicClass(p), fmt.Sprintf("|dst|=%d |msg|=%d n=%d: %v\n%s", dl, ml, n, p, st))
			return
		}
		if !bytes.Equal(got, ref) {
			vlib.Report(t, key+"/value", fmt.Sprintf("|dst|=%d |msg|=%d n=%d: got %s want %s (dst=%s msg=%s)", dl, ml, n, vlib.Hex(got), vlib.Hex(ref), vlib.Hex(dst), vlib.Hex(msg)))
			return
		}
		// the expander object is reusable and keeps no state: scribble over the result, expand something else, repeat
		for i := range got {
			got[i] ^= 0xff
		}
		_ = exp.Expand(append([]byte{1}, msg...), uint(n/2))
		got2 = exp.Expand(msg, uint(n))
		if !bytes.Equal(got2, ref) {
			vlib.Report(t, key+"/reuse", fmt.Sprintf("|dst|=%d |msg|=%d n=%d: second Expand on the same object differs", dl, ml, n))
			return
		}
		switch {
		case dl > 255:
			vlib.Class(sub, "dst:oversize(>255)")
		case dl == 255:
			vlib.Class(sub, "dst:255")
		case dl == 0:
			vlib.Class(sub, "dst:empty")
		}
		if n == maxN {
			vlib.Class(sub, "n:max")
		}
		if n == 0 {
			vlib.Class(sub, "n:0")
		}
		if dl > 255 || n > unit {
			cls := "nt:multi-block-output"
			if dl > 255 {
				cls = "nt:oversize-dst"
			}
			vlib.NonTrivial(sub, cls, []byte(key), dst, msg, []byte(fmt.Sprint(n)))
			vlib.Sample(sub, cls, fmt.Sprintf("%s |dst|=%d |msg|=%d n=%d → %s", key, dl, ml, n, vlib.Hex(ref)))
		}
	})
}

// TestC15ExpanderAbort: RFC 9380 §5.3.1 step 3 / §5.3.2 step 1: the expanders
// abort for ell > 255 resp. len_in_bytes > 65535 (circl documents a panic).
func TestC15ExpanderAbort(t *testing.T) {
	defer vlib.Done()
	sub := "expander/abort"
	for _, md := range mds {
		n := 255*md.h.Size() + 1
		var out []byte
		p, _ := vlib.Catch(func() { out = expander.NewExpanderMD(md.h, []byte("dst")).Expand([]byte("m"), uint(n)) })
		vlib.Eval(sub)
		if p == nil {
			vlib.ReportDirect(t, "C15/expander/xmd/ell>255-not-refused", fmt.Sprintf("%s: Expand(n=%d) returned %d bytes; RFC 9380 §5.3.1 step 3 says abort", md.name, n, len(out)), map[string]interface{}{"hash": md.name, "n": n})
			continue
		}
		vlib.NonTrivial(sub, "xmd:ell>255⇒abort", []byte(md.name))
	}
xofLoop:
	for _, x := range xofs {
		for _, n := range []int{65536, 65537, 70000} {
			var out []byte
			p, _ := vlib.Catch(func() { out = expander.NewExpanderXOF(x.id, 128, []byte("dst")).Expand([]byte("m"), uint(n)) })
			vlib.Eval(sub)
			if p == nil {
				if !vlib.ReportDirect(t, "C15/expander/xof/len>65535-not-refused", fmt.Sprintf("%s: Expand(n=%d) returned %d bytes (the 2-byte length field wraps to %d); RFC 9380 §5.3.2 step 1 says abort and the doc comment of Expand says it panics", x.name, n, len(out), n&0xffff), map[string]interface{}{"xof": x.name, "n": n}) {
					break xofLoop // one replay per finding key is enough
				}
				continue
			}
			vlib.NonTrivial(sub, "xof:len>65535⇒abort", []byte(x.name), []byte(fmt.Sprint(n)))
		}
	}
}

// ---------------------------------------------------------------------------
// one-shot helpers (hashes.go Sum*, shake.go *ShakeSum*, k12.Draft10Sum)

func TestC15OneShot(t *testing.T) {
	defer vlib.Done()
	sub := "oneshot"
	lens := []int{0, 1, 71, 72, 73, 103, 104, 105, 135, 136, 137, 143, 144, 145, 167, 168, 169, 8191, 8192, 8193, 16384, 40960, 40961}
	vlib.Check(t, vlib.N(300, 3000), func(t *rapid.T) {
		var n int
		if rapid.Bool().Draw(t, "edge") {
			n = rapid.SampledFrom(lens).Draw(t, "len")
		} else {
			n = rapid.IntRange(0, 700).Draw(t, "len")
		}
		msg := make([]byte, n)
		if n > 0 {
			vlib.FillRandom(t, msg, "msg")
		}
		ol := rapid.SampledFrom([]int{0, 1, 32, 135, 136, 137, 167, 168, 169, 339, 1000}).Draw(t, "olen")
		D := drawD(t)
		ctx := vlib.Bytes(t, 0, 300, "ctx")
		vlib.Eval(sub)
		bad := func(what string, got, want []byte) bool {
			if !bytes.Equal(got, want) {
				vlib.Report(t, "C15/oneshot/"+what, fmt.Sprintf("|msg|=%d out=%d D=%#x |ctx|=%d: got %s want %s", n, ol, D, len(ctx), vlib.Hex(got), vlib.Hex(want)))
				return true
			}
			return false
		}
		d224, d256, d384, d512 := sha3.Sum224(msg), sha3.Sum256(msg), sha3.Sum384(msg), sha3.Sum512(msg)
		w224, w256, w384, w512 := xsha3.Sum224(msg), xsha3.Sum256(msg), xsha3.Sum384(msg), xsha3.Sum512(msg)
		if bad("Sum224", d224[:], w224[:]) || bad("Sum256", d256[:], w256[:]) || bad("Sum384", d384[:], w384[:]) || bad("Sum512", d512[:], w512[:]) {
			return
		}
		o := make([]byte, ol)
		sha3.ShakeSum128(o, msg)
		if bad("ShakeSum128", o, xShake128(msg, ol)) {
			return
		}
		sha3.ShakeSum256(o, msg)
		if bad("ShakeSum256", o, xShake256(msg, ol)) {
			return
		}
		sha3.TurboShakeSum128(o, msg, D)
		if bad("TurboShakeSum128", o, keccak.TurboSHAKE128(msg, D, ol)) {
			return
		}
		sha3.TurboShakeSum256(o, msg, D)
		if bad("TurboShakeSum256", o, keccak.TurboSHAKE256(msg, D, ol)) {
			return
		}
		k12.Draft10Sum(o, msg, ctx)
		if bad("Draft10Sum", o, keccak.KT128(msg, ctx, ol)) {
			return
		}
		if n > 168 {
			vlib.NonTrivial(sub, "multi-block", msg, ctx, []byte{D, byte(ol), byte(ol >> 8)})
		}
	})
}

// drawSecLevel draws the security level k of expand_message_xof over structured values: the
// oversize-DST reduction reads ceil(2k/8) bytes, so every residue of k matters.
func drawSecLevel(t *rapid.T) int {
	switch rapid.IntRange(0, 3).Draw(t, "kkind") {
	case 0:
		return rapid.SampledFrom([]int{128, 256, 192, 100, 4}).Draw(t, "k")
	case 1:
		m := rapid.IntRange(1, 33).Draw(t, "km")
		return 8*m + rapid.SampledFrom([]int{-3, -1, 1, 3}).Draw(t, "kd")
	default:
		return rapid.IntRange(1, 264).Draw(t, "k")
	}
}

// TestC15ExpanderSweep: deterministic sweeps over the integer parameters of the expanders.
//   - xof: every security level k in 1..264 x every XOF id x DST length in {20, 255, 256, 300};
//   - xof and xmd: every DST length 250..260 and every output length 0..3*unit+2 plus the largest two.
func TestC15ExpanderSweep(t *testing.T) {
	defer vlib.Done()
	sub := "expander/sweep"
	msg := make([]byte, 37)
	vlib.ExpandInto(msg, uint64(vlib.Seed)*131+7)
	dstBuf := make([]byte, 400)
	vlib.ExpandInto(dstBuf, uint64(vlib.Seed)*131+8)
	idx := 0
	check := func(key, what string, got []byte, want []byte, err error) bool {
		vlib.Eval(sub)
		if err != nil {
			t.Fatalf("SELFTEST-FAIL reference aborted inside the valid domain: %v", err)
		}
		if !bytes.Equal(got, want) {
			return vlib.ReportDirect(t, key, fmt.Sprintf("%s: got %s want %s", what, vlib.Hex(got), vlib.Hex(want)), map[string]interface{}{"case": what})
		}
		return true
	}
	for _, x := range xofs {
		for k := 1; k <= 264; k++ {
			for _, dl := range []int{20, 255, 256, 300} {
				idx++
				if idx%vlib.NShards != vlib.Shard {
					continue
				}
				dst := dstBuf[:dl]
				want, err := h2c.XOF(x.ref, k, msg, dst, 40)
				got := expander.NewExpanderXOF(x.id, uint(k), dst).Expand(msg, 40)
				if !check("C15/expander/xof/"+x.name+"/value-k-sweep", fmt.Sprintf("%s k=%d |dst|=%d n=40", x.name, k, dl), got, want, err) {
					return
				}
				if dl > 255 {
					vlib.NonTrivial(sub, fmt.Sprintf("xof:oversize-dst,k mod 4=%d", k%4), []byte(x.name), []byte{byte(k), byte(k >> 8), byte(dl), byte(dl >> 8), byte(vlib.Seed)})
				}
			}
		}
		for dl := 250; dl <= 260; dl++ {
			for _, n := range append(seq(0, 3*168+2), 65534, 65535) {
				idx++
				if idx%vlib.NShards != vlib.Shard || (!vlib.Thorough() && n > 8 && n < 65534 && (n+dl)%7 != vlib.Seed%7) {
					continue
				}
				dst := dstBuf[:dl]
				want, err := h2c.XOF(x.ref, 128, msg, dst, n)
				got := expander.NewExpanderXOF(x.id, 128, dst).Expand(msg, uint(n))
				if !check("C15/expander/xof/"+x.name+"/value-length-sweep", fmt.Sprintf("%s k=128 |dst|=%d n=%d", x.name, dl, n), got, want, err) {
					return
				}
				vlib.NonTrivial(sub, "xof:dst250..260 x n", []byte(x.name), []byte{byte(n), byte(n >> 8), byte(dl), byte(dl >> 8), byte(vlib.Seed)})
			}
		}
	}
	for _, md := range mds {
		unit := md.h.Size()
		for dl := 250; dl <= 260; dl++ {
			for _, n := range append(seq(0, 3*unit+2), 255*unit-1, 255*unit) {
				idx++
				if idx%vlib.NShards != vlib.Shard || (!vlib.Thorough() && n > 8 && n < 255*unit-1 && (n+dl)%3 != vlib.Seed%3) {
					continue
				}
				dst := dstBuf[:dl]
				want, err := h2c.XMD(md.h.New, msg, dst, n)
				got := expander.NewExpanderMD(md.h, dst).Expand(msg, uint(n))
				if !check("C15/expander/xmd/"+md.name+"/value-length-sweep", fmt.Sprintf("%s |dst|=%d n=%d", md.name, dl, n), got, want, err) {
					return
				}
				vlib.NonTrivial(sub, "xmd:dst250..260 x n", []byte(md.name), []byte{byte(n), byte(n >> 8), byte(dl), byte(dl >> 8), byte(vlib.Seed)})
			}
		}
	}
	if vlib.Shard == 0 {
		vlib.Exhaustive("C15 expander/sweep: expand_message_xof for every k in 1..264 x 5 XOFs x |DST| in {20,255,256,300}", int64(5*264*4), "all shards together; one message per seed")
	}
}

func seq(a, b int) []int {
	var o []int
	for i := a; i <= b; i++ {
		o = append(o, i)
	}
	return o
}
