//go:build verif && race

package c15

const raceBuild = true
