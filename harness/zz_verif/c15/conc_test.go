//go:build verif

package c15

import (
	"bytes"
	"fmt"
	"sort"
	"sync"
	"testing"

	"github.com/cloudflare/circl/cipher/ascon"
	"github.com/cloudflare/circl/expander"
	"github.com/cloudflare/circl/internal/sha3"
	"github.com/cloudflare/circl/simd/keccakf1600"
	"github.com/cloudflare/circl/xof/k12"
	"github.com/cloudflare/circl/zz_verif/ref/h2c"
	"github.com/cloudflare/circl/zz_verif/ref/keccak"
	"github.com/cloudflare/circl/zz_verif/vlib"
)

// TestC15Concurrent: objects that are documented or plausibly used as shared
// immutable values are used by K goroutines at once with DIFFERENT inputs; every
// result must equal the reference value computed beforehand, sequentially:
//   - one ascon.Cipher (a cipher.AEAD) per mode: Seal, Open of genuine
//     ciphertexts, Open of altered ciphertexts (incl. the body of one message
//     with the genuine tag of another message that is being opened concurrently);
//   - one Expander (MD and XOF, short and oversize DST) per kind;
//   - xof.ID.New() / k12.NewDraft10(shared context) / the sha3 one-shot helpers /
//     separate StateX4 objects, each goroutine working on its OWN state
//     (package-level tables are the only shared data).
//
// A single hash state is never shared between goroutines (not a supported use).
// The same test is also built with -race (binary c15conc): the race detector
// reports unsynchronised writes to shared objects independently of the schedule.
func TestC15Concurrent(t *testing.T) {
	defer vlib.Done()
	const K = 8
	rounds := vlib.N(40, 400)

	// first failure per key, reported after the goroutines have joined
	var mu sync.Mutex
	fails := map[string]string{}
	fail := func(key, detail string) {
		mu.Lock()
		if _, ok := fails[key]; !ok {
			fails[key] = detail
		}
		mu.Unlock()
	}
	run := func(mult int, body func(g, r int)) {
		var wg sync.WaitGroup
		start := make(chan struct{})
		for g := 0; g < K; g++ {
			wg.Add(1)
			go func(g int) {
				defer wg.Done()
				<-start
				for r := 0; r < rounds*mult; r++ {
					body(g, r)
				}
			}(g)
		}
		close(start)
		wg.Wait()
	}
	rnd := func(n int, salt uint64) []byte {
		b := make([]byte, n)
		vlib.ExpandInto(b, uint64(vlib.Seed)*1_000_003+uint64(vlib.Shard)*7919+salt)
		return b
	}

	// ---- Ascon: one Cipher per mode
	type amsg struct{ nonce, ad, pt, sealed, forgedTag, flipped []byte }
	for mi, am := range asconModes {
		name := am.ref.Name
		sub := "conc/ascon/" + name
		key := rnd(am.ref.KeyLen, uint64(100+mi))
		c, err := ascon.New(key, am.m)
		if err != nil {
			t.Fatalf("New: %v", err)
		}
		lens := []int{0, 1, am.ref.Rate, 3*am.ref.Rate + 1, 40, 300, 5, 17}
		msgs := make([][]amsg, K)
		for g := 0; g < K; g++ {
			for j := 0; j < 4; j++ {
				s := uint64(1000*mi + 10*g + j)
				m := amsg{nonce: rnd(16, s+1), ad: rnd(lens[(g+j)%len(lens)], s+2), pt: rnd(lens[(g+3*j+1)%len(lens)], s+3)}
				m.sealed = am.ref.Seal(key, m.nonce, m.ad, m.pt)
				msgs[g] = append(msgs[g], m)
			}
		}
		for g := 0; g < K; g++ {
			for j := range msgs[g] {
				m := &msgs[g][j]
				o := msgs[(g+1)%K][j]
				// body of m with the genuine tag of the message another goroutine opens at the same time
				m.forgedTag = append(append([]byte{}, m.sealed[:len(m.pt)]...), o.sealed[len(o.pt):]...)
				m.flipped = append([]byte{}, m.sealed...)
				m.flipped[(g+j)%len(m.flipped)] ^= 1 << uint(j)
			}
		}
		mult := 60 // plain build: the window in which shared scratch data can be clobbered is a few ns wide, so many cheap rounds
		if raceBuild {
			mult = 1 // the race detector does not depend on the schedule
		}
		run(mult, func(g, r int) {
			m := msgs[g][r%len(msgs[g])]
			vlib.Eval(sub)
			if got := c.Seal(nil, m.nonce, m.pt, m.ad); !bytes.Equal(got, m.sealed) {
				fail("C15/conc/ascon/"+name+"/Seal", fmt.Sprintf("goroutine %d: Seal on the shared Cipher = %s, reference %s", g, vlib.Hex(got), vlib.Hex(m.sealed)))
			}
			if got, err := c.Open(nil, m.nonce, m.sealed, m.ad); err != nil || !bytes.Equal(got, m.pt) {
				fail("C15/conc/ascon/"+name+"/Open-genuine-rejected", fmt.Sprintf("goroutine %d: Open of a genuine ciphertext (|pt|=%d |ad|=%d) on the shared Cipher: err=%v, plaintext equal=%v", g, len(m.pt), len(m.ad), err, bytes.Equal(got, m.pt)))
			}
			// in place, too
			buf := append([]byte{}, m.sealed...)
			if got, err := c.Open(buf[:0], m.nonce, buf, m.ad); err != nil || !bytes.Equal(got, m.pt) {
				fail("C15/conc/ascon/"+name+"/Open-genuine-rejected", fmt.Sprintf("goroutine %d: in-place Open of a genuine ciphertext on the shared Cipher: err=%v", g, err))
			}
			if got, err := c.Open(nil, m.nonce, m.forgedTag, m.ad); err == nil || got != nil {
				fail("C15/conc/ascon/"+name+"/Open-accepts-altered", fmt.Sprintf("goroutine %d: ciphertext body with the tag of a concurrently opened message accepted: err=%v", g, err))
			}
			if got, err := c.Open(nil, m.nonce, m.flipped, m.ad); err == nil || got != nil {
				fail("C15/conc/ascon/"+name+"/Open-accepts-altered", fmt.Sprintf("goroutine %d: ciphertext with one flipped bit accepted: err=%v", g, err))
			}
			vlib.NonTrivial(sub, "shared-cipher-round", []byte(name), m.nonce, []byte{byte(g), byte(r), byte(r >> 8)})
		})
	}

	// ---- expanders: one object per kind
	type ejob struct {
		msg  []byte
		n    int
		want []byte
	}
	type ecase struct {
		name string
		exp  expander.Expander
		jobs [][]ejob
	}
	var ecases []ecase
	mkJobs := func(salt uint64, maxN int, ref func(msg []byte, n int) []byte) [][]ejob {
		jobs := make([][]ejob, K)
		ns := []int{1, 32, 33, 100, 255, 600, 2000, 0}
		for g := 0; g < K; g++ {
			for j := 0; j < 3; j++ {
				n := ns[(g+j)%len(ns)]
				if n > maxN {
					n = maxN
				}
				msg := rnd([]int{0, 3, 64, 200, 1000}[(g+2*j)%5], salt+uint64(10*g+j))
				jobs[g] = append(jobs[g], ejob{msg, n, ref(msg, n)})
			}
		}
		return jobs
	}
	for di, dl := range []int{20, 300} {
		dst := rnd(dl, uint64(5000+di))
		for _, md := range mds {
			md := md
			ecases = append(ecases, ecase{fmt.Sprintf("xmd/%s/dst%d", md.name, dl), expander.NewExpanderMD(md.h, dst),
				mkJobs(uint64(6000+100*di), 255*md.h.Size(), func(msg []byte, n int) []byte {
					o, err := h2c.XMD(md.h.New, msg, dst, n)
					if err != nil {
						panic("SELFTEST-FAIL " + err.Error())
					}
					return o
				})})
		}
		for _, x := range xofs {
			x := x
			ecases = append(ecases, ecase{fmt.Sprintf("xof/%s/dst%d", x.name, dl), expander.NewExpanderXOF(x.id, 128, dst),
				mkJobs(uint64(7000+100*di), 65535, func(msg []byte, n int) []byte {
					o, err := h2c.XOF(x.ref, 128, msg, dst, n)
					if err != nil {
						panic("SELFTEST-FAIL " + err.Error())
					}
					return o
				})})
		}
	}
	run(1, func(g, r int) {
		ec := ecases[(g+r)%len(ecases)]
		j := ec.jobs[g][r%len(ec.jobs[g])]
		vlib.Eval("conc/expander")
		if got := ec.exp.Expand(j.msg, uint(j.n)); !bytes.Equal(got, j.want) {
			fail("C15/conc/expander/"+ec.name, fmt.Sprintf("goroutine %d: Expand(|msg|=%d, n=%d) on the shared Expander = %s, reference %s", g, len(j.msg), j.n, vlib.Hex(got), vlib.Hex(j.want)))
		}
		vlib.NonTrivial("conc/expander", "shared-expander-call", []byte(ec.name), j.msg, []byte{byte(g), byte(r), byte(r >> 8)})
	})

	// ---- constructors and one-shot helpers from several goroutines, each on its own state
	ctx := rnd(300, 8000) // one context slice shared by all k12 states (retained by reference, never written)
	type xjob struct {
		msg              []byte
		outs             map[string][]byte
		lanes, lanesWant [4][25]uint64
		turbo            bool
	}
	xjobs := make([]xjob, K)
	const olen = 200
	for g := 0; g < K; g++ {
		j := xjob{msg: rnd([]int{0, 167, 168, 1000, 8192, 8193, 40000, 70000}[g%8], uint64(8100+g)), outs: map[string][]byte{}, turbo: g%2 == 0}
		j.outs["SHAKE128"] = xShake128(j.msg, olen)
		j.outs["SHAKE256"] = xShake256(j.msg, olen)
		j.outs["BLAKE2XB"] = refBlake2xb(j.msg, olen)
		j.outs["BLAKE2XS"] = refBlake2xs(j.msg, olen)
		j.outs["K12D10"] = keccak.KT128(j.msg, nil, olen)
		j.outs["k12ctx"] = keccak.KT128(j.msg, ctx, olen)
		j.outs["turbo128"] = keccak.TurboSHAKE128(j.msg, 0x1f, olen)
		nr := 24
		if j.turbo {
			nr = 12
		}
		for i := 0; i < 4; i++ {
			b := rnd(200, uint64(8200+10*g+i))
			for k := 0; k < 25; k++ {
				for q := 0; q < 8; q++ {
					j.lanes[i][k] |= uint64(b[8*k+q]) << uint(8*q)
				}
			}
			j.lanesWant[i] = j.lanes[i]
			keccak.P(&j.lanesWant[i], nr)
		}
		xjobs[g] = j
	}
	run(1, func(g, r int) {
		j := xjobs[(g+r)%K]
		vlib.Eval("conc/constructors")
		out := make([]byte, olen)
		for _, x := range xofs {
			h := x.id.New()
			half := len(j.msg) / 2
			_, _ = h.Write(j.msg[:half])
			_, _ = h.Write(j.msg[half:])
			_, _ = h.Read(out)
			if !bytes.Equal(out, j.outs[x.name]) {
				fail("C15/conc/xof.New/"+x.name, fmt.Sprintf("goroutine %d: own state from xof.ID.New(), |msg|=%d: got %s want %s", g, len(j.msg), vlib.Hex(out), vlib.Hex(j.outs[x.name])))
			}
		}
		s := k12.NewDraft10(ctx)
		_, _ = s.Write(j.msg)
		_, _ = s.Read(out)
		if !bytes.Equal(out, j.outs["k12ctx"]) {
			fail("C15/conc/k12.NewDraft10", fmt.Sprintf("goroutine %d: own state, shared context, |msg|=%d: got %s want %s", g, len(j.msg), vlib.Hex(out), vlib.Hex(j.outs["k12ctx"])))
		}
		sha3.TurboShakeSum128(out, j.msg, 0x1f)
		if !bytes.Equal(out, j.outs["turbo128"]) {
			fail("C15/conc/TurboShakeSum128", fmt.Sprintf("goroutine %d: |msg|=%d", g, len(j.msg)))
		}
		var st keccakf1600.StateX4
		a := st.Initialize(j.turbo)
		for k := 0; k < 25; k++ {
			for i := 0; i < 4; i++ {
				a[4*k+i] = j.lanes[i][k]
			}
		}
		st.Permute()
		for k := 0; k < 25; k++ {
			for i := 0; i < 4; i++ {
				if a[4*k+i] != j.lanesWant[i][k] {
					fail("C15/conc/perm/x4", fmt.Sprintf("goroutine %d: own StateX4, turbo=%v: lane mismatch", g, j.turbo))
				}
			}
		}
		vlib.NonTrivial("conc/constructors", "own-state-round", j.msg, []byte{byte(g), byte(r), byte(r >> 8)})
	})

	keys := make([]string, 0, len(fails))
	for key := range fails {
		keys = append(keys, key)
	}
	sort.Strings(keys)
	for _, key := range keys {
		vlib.ReportDirect(t, key, fails[key], map[string]interface{}{"rounds": rounds, "goroutines": K})
	}
}
