//go:build verif

package c15

import (
	"bytes"
	"fmt"
	"testing"

	"github.com/cloudflare/circl/cipher/ascon"
	rascon "github.com/cloudflare/circl/zz_verif/ref/ascon"
	"github.com/cloudflare/circl/zz_verif/vlib"
	"pgregory.net/rapid"
)

type asconMode struct {
	m   ascon.Mode
	ref rascon.Variant
}

var asconModes = []asconMode{{ascon.Ascon128, rascon.Ascon128}, {ascon.Ascon128a, rascon.Ascon128a}, {ascon.Ascon80pq, rascon.Ascon80pq}}

// drawLen: 0..3 blocks ± 1, biased to the block boundaries (1/8 of the draws: 4..8 blocks).
func drawLen(t *rapid.T, bs int, label string) int {
	k := rapid.IntRange(0, 15).Draw(t, label+".edge")
	if k >= 14 {
		// beyond the quantifier's 3 blocks (and beyond the 32-byte limit of the LWC KAT files): a few longer inputs
		return rapid.SampledFrom([]int{4*bs - 1, 4 * bs, 4*bs + 1, 5 * bs, 6*bs + 1, 8 * bs, 8*bs + 3}).Draw(t, label+".len")
	}
	if k >= 4 {
		return rapid.SampledFrom([]int{0, 0, 1, bs - 1, bs, bs + 1, 2*bs - 1, 2 * bs, 2*bs + 1, 3*bs - 1, 3 * bs, 3*bs + 1}).Draw(t, label+".len")
	}
	return rapid.IntRange(0, 3*bs+1).Draw(t, label+".len")
}

func lenClass(what string, n, bs int) string {
	switch {
	case n == 0:
		return what + ":empty"
	case n%bs == 0:
		return what + ":full-final-block"
	case n%bs == bs-1:
		return what + ":block-1"
	}
	return what + ":partial"
}

// mkDst returns a destination with the given prefix and either exactly enough,
// more than enough or too little spare capacity for `need` more bytes.
func mkDst(t *rapid.T, need int, label string) (dst []byte, class string) {
	pl := rapid.SampledFrom([]int{0, 0, 1, 5, 17}).Draw(t, label+".prefix")
	var spare int
	switch rapid.IntRange(0, 3).Draw(t, label+".cap") {
	case 0:
		spare, class = 0, "cap=len"
	case 1:
		spare, class = need, "cap=exact"
	case 2:
		spare, class = need+9, "cap=more"
	default:
		spare, class = need/2, "cap=half"
	}
	if rapid.IntRange(0, 5).Draw(t, label+".nil") == 0 && pl == 0 {
		return nil, "dst=nil"
	}
	dst = make([]byte, pl, pl+spare)
	for i := range dst {
		dst[i] = byte(0xd0 + i)
	}
	if pl > 0 {
		class = "prefix," + class
	}
	return dst, class
}

func TestC15Ascon(t *testing.T) {
	defer vlib.Done()
	vlib.Check(t, vlib.N(2500, 25000), func(t *rapid.T) {
		am := rapid.SampledFrom(asconModes).Draw(t, "mode")
		name := am.ref.Name
		bs := am.ref.Rate
		key := vlib.EdgeBytes(t, am.ref.KeyLen, "key")
		nonce := vlib.EdgeBytes(t, 16, "nonce")
		ad := make([]byte, drawLen(t, bs, "ad"))
		pt := make([]byte, drawLen(t, bs, "pt"))
		if len(ad) > 0 {
			vlib.FillRandom(t, ad, "ad")
		}
		if len(pt) > 0 {
			vlib.FillRandom(t, pt, "pt")
		}
		sealSub, openSub, tamperSub := "ascon/seal/"+name, "ascon/open/"+name, "ascon/tamper/"+name
		desc := func() string {
			return fmt.Sprintf("%s key=%x nonce=%x ad=%x pt=%x", name, key, nonce, ad, pt)
		}
		c, err := ascon.New(key, am.m)
		if err != nil {
			vlib.Report(t, "C15/ascon/"+name+"/New", fmt.Sprintf("New: %v", err))
			return
		}
		want := am.ref.Seal(key, nonce, ad, pt)
		vlib.Eval(sealSub)
		vlib.Class(sealSub, lenClass("pt", len(pt), bs))
		vlib.Class(sealSub, lenClass("ad", len(ad), bs))

		// --- Seal, appended to dst or in place
		var sealed []byte
		inPlace := rapid.IntRange(0, 3).Draw(t, "sealInPlace") == 0
		kcopy, ncopy, adcopy := append([]byte{}, key...), append([]byte{}, nonce...), append([]byte{}, ad...)
		if inPlace {
			spare := rapid.SampledFrom([]int{0, 16, 40}).Draw(t, "spare")
			buf := make([]byte, len(pt), len(pt)+spare)
			copy(buf, pt)
			var out []byte
			if p, st := vlib.Catch(func() { out = c.Seal(buf[:0], nonce, buf, ad) }); p != nil {
				vlib.Report(t, "C15/ascon/"+name+"/Seal/panic/"+vlib.PanicClass(p), desc()+"\n"+st)
				return
			}
			sealed = out
			vlib.Class(sealSub, fmt.Sprintf("seal:in-place,spare=%d", spare))
			if !bytes.Equal(out, want) {
				vlib.Report(t, "C15/ascon/"+name+"/Seal/in-place", fmt.Sprintf("%s: in-place Seal = %x, specification %x", desc(), out, want))
				return
			}
			vlib.NonTrivial(sealSub, "nt:seal-in-place", []byte(name), key, nonce, ad, pt)
		} else {
			dst, cls := mkDst(t, len(pt)+16, "sealdst")
			pre := append([]byte{}, dst...)
			ptc := append([]byte{}, pt...)
			var out []byte
			if p, st := vlib.Catch(func() { out = c.Seal(dst, nonce, ptc, ad) }); p != nil {
				vlib.Report(t, "C15/ascon/"+name+"/Seal/panic/"+vlib.PanicClass(p), desc()+"\n"+st)
				return
			}
			vlib.Class(sealSub, "seal:"+cls)
			if !bytes.Equal(out, append(append([]byte{}, pre...), want...)) {
				vlib.Report(t, "C15/ascon/"+name+"/Seal/value", fmt.Sprintf("%s dst-prefix=%x: Seal = %x, specification %x", desc(), pre, out, want))
				return
			}
			if !bytes.Equal(ptc, pt) {
				vlib.Report(t, "C15/ascon/"+name+"/Seal/modifies-plaintext", desc())
				return
			}
			sealed = out[len(pre):]
			if len(pre) > 0 {
				vlib.NonTrivial(sealSub, "nt:seal-appended-to-nonempty-dst", []byte(name), key, nonce, ad, pt, pre)
			}
		}
		if !bytes.Equal(kcopy, key) || !bytes.Equal(ncopy, nonce) || !bytes.Equal(adcopy, ad) {
			vlib.Report(t, "C15/ascon/"+name+"/Seal/modifies-arguments", desc())
			return
		}
		sealed = append([]byte{}, sealed...)

		// --- Open(Seal(x)) = x
		vlib.Eval(openSub)
		switch rapid.IntRange(0, 2).Draw(t, "openKind") {
		case 0: // in place
			spare := rapid.SampledFrom([]int{0, 7}).Draw(t, "ospare")
			buf := make([]byte, len(sealed), len(sealed)+spare)
			copy(buf, sealed)
			var out []byte
			var err error
			if p, st := vlib.Catch(func() { out, err = c.Open(buf[:0], nonce, buf, ad) }); p != nil {
				vlib.Report(t, "C15/ascon/"+name+"/Open/panic/"+vlib.PanicClass(p), desc()+"\n"+st)
				return
			}
			if err != nil || !bytes.Equal(out, pt) {
				vlib.Report(t, "C15/ascon/"+name+"/Open/in-place", fmt.Sprintf("%s: in-place Open err=%v got %x", desc(), err, out))
				return
			}
			vlib.NonTrivial(openSub, "nt:open-in-place", []byte(name), key, nonce, ad, pt)
		default:
			dst, cls := mkDst(t, len(pt), "opendst")
			pre := append([]byte{}, dst...)
			ctc := append([]byte{}, sealed...)
			var out []byte
			var err error
			if p, st := vlib.Catch(func() { out, err = c.Open(dst, nonce, ctc, ad) }); p != nil {
				vlib.Report(t, "C15/ascon/"+name+"/Open/panic/"+vlib.PanicClass(p), desc()+"\n"+st)
				return
			}
			vlib.Class(openSub, "open:"+cls)
			if err != nil || !bytes.Equal(out, append(append([]byte{}, pre...), pt...)) {
				vlib.Report(t, "C15/ascon/"+name+"/Open/value", fmt.Sprintf("%s dst-prefix=%x: Open err=%v got %x", desc(), pre, err, out))
				return
			}
			if !bytes.Equal(ctc, sealed) {
				vlib.Report(t, "C15/ascon/"+name+"/Open/modifies-ciphertext", desc())
				return
			}
			if len(pre) > 0 {
				vlib.NonTrivial(openSub, "nt:open-appended-to-nonempty-dst", []byte(name), key, nonce, ad, pt, pre)
			}
		}

		// --- alterations: every single-bit change must give (nil, error)
		nalt := rapid.IntRange(1, 4).Draw(t, "nalt")
		for a := 0; a < nalt; a++ {
			k2, n2, ad2, ct2 := append([]byte{}, key...), append([]byte{}, nonce...), append([]byte{}, ad...), append([]byte{}, sealed...)
			kinds := []string{"key", "nonce", "tag", "tag"}
			if len(ad) > 0 {
				kinds = append(kinds, "ad", "ad")
			}
			if len(pt) > 0 {
				kinds = append(kinds, "ct", "ct")
			}
			kinds = append(kinds, "ad-append", "ad-truncate", "ct-truncate", "ct-extend")
			kind := rapid.SampledFrom(kinds).Draw(t, "altkind")
			flip := func(b []byte, lo, hi int) string {
				i := rapid.IntRange(8*lo, 8*hi-1).Draw(t, "bit")
				b[i/8] ^= 1 << uint(i%8)
				return fmt.Sprintf("%s-bit@%d", kind, i-8*lo)
			}
			var alt string
			bitflip := true
			switch kind {
			case "key":
				alt = flip(k2, 0, len(k2))
			case "nonce":
				alt = flip(n2, 0, 16)
			case "ad":
				alt = flip(ad2, 0, len(ad2))
			case "ct":
				alt = flip(ct2, 0, len(pt))
			case "tag":
				alt = flip(ct2, len(pt), len(pt)+16)
			case "ad-append":
				ad2 = append(ad2, byte(rapid.SampledFrom([]int{0, 0x80, 1}).Draw(t, "adb")))
				alt, bitflip = kind, false
			case "ad-truncate":
				if len(ad2) == 0 {
					continue
				}
				ad2 = ad2[:len(ad2)-1]
				alt, bitflip = kind, false
			case "ct-truncate":
				ct2 = ct2[:len(ct2)-1]
				alt, bitflip = kind, false
			case "ct-extend":
				ct2 = append([]byte{byte(rapid.SampledFrom([]int{0, 0x80}).Draw(t, "ctb"))}, ct2...)
				alt, bitflip = kind, false
			}
			vlib.Eval(tamperSub)
			vlib.Class(tamperSub, "alter="+kind)
			if len(pt) == 0 && kind == "tag" {
				vlib.Class(tamperSub, "alter=tag,empty-ciphertext")
			}
			// the reference's verdict (it must reject: a single-bit change of any input changes the tag except with probability 2^-128)
			if r, rerr := am.ref.Open(k2, n2, ad2, ct2); rerr == nil {
				// astronomically unlikely; not a statement about circl
				vlib.Class(tamperSub, "reference-accepts-alteration")
				_ = r
				continue
			}
			c2, err := ascon.New(k2, am.m)
			if err != nil {
				t.Fatalf("New: %v", err)
			}
			inPl := rapid.Bool().Draw(t, "altInPlace")
			var out []byte
			var oerr error
			arg := append([]byte{}, ct2...)
			if p, st := vlib.Catch(func() {
				if inPl {
					out, oerr = c2.Open(arg[:0], n2, arg, ad2)
				} else {
					out, oerr = c2.Open([]byte{0xee, 0xee}, n2, arg, ad2)
				}
			}); p != nil {
				vlib.Report(t, "C15/ascon/"+name+"/Open/panic/"+vlib.PanicClass(p), fmt.Sprintf("%s alt=%s\n%s", desc(), alt, st))
				return
			}
			if oerr == nil || out != nil {
				what := "bitflip"
				if !bitflip {
					what = "length-change"
				}
				vlib.Report(t, "C15/ascon/"+name+"/Open/accepts-altered/"+what+"/"+kind, fmt.Sprintf("%s alt=%s inplace=%v: Open returned err=%v result=%x (nil=%v)", desc(), alt, inPl, oerr, out, out == nil))
				return
			}
			vlib.NonTrivial(tamperSub, "nt:altered-rejected", []byte(name), key, nonce, ad, pt, []byte(alt))
			if a == 0 {
				vlib.Sample(tamperSub, "altered", fmt.Sprintf("%s alt=%s → error, nil", desc(), alt))
			}
		}
	})
}

// TestC15AsconAllBits: every single-bit alteration of (key, nonce, ad, ct, tag)
// for one case per mode and (pt, ad) length class (thorough; sharded).
func TestC15AsconAllBits(t *testing.T) {
	defer vlib.Done()
	idx := 0
	for _, am := range asconModes {
		bs := am.ref.Rate
		name := am.ref.Name
		sub := "ascon/allbits/" + name
		lens := []int{0, 1, bs - 1, bs, bs + 1, 2 * bs}
		if !vlib.Thorough() {
			lens = []int{0, bs}
		}
		totalFlips := int64(0)
		for _, pl := range lens {
			for _, al := range lens {
				totalFlips += int64(8 * (am.ref.KeyLen + 16 + al + pl + 16))
			}
		}
		for _, pl := range lens {
			for _, al := range lens {
				idx++
				if idx%vlib.NShards != vlib.Shard {
					continue
				}
				buf := make([]byte, am.ref.KeyLen+16+al+pl)
				vlib.ExpandInto(buf, uint64(vlib.Seed)*977+uint64(idx))
				key, nonce, ad, pt := buf[:am.ref.KeyLen], buf[am.ref.KeyLen:am.ref.KeyLen+16], buf[am.ref.KeyLen+16:am.ref.KeyLen+16+al], buf[am.ref.KeyLen+16+al:]
				c, _ := ascon.New(key, am.m)
				sealed := c.Seal(nil, nonce, pt, ad)
				if !bytes.Equal(sealed, am.ref.Seal(key, nonce, ad, pt)) {
					vlib.ReportDirect(t, "C15/ascon/"+name+"/Seal/value", fmt.Sprintf("key=%x nonce=%x ad=%x pt=%x", key, nonce, ad, pt), map[string]interface{}{"pl": pl, "al": al})
					return
				}
				parts := [][]byte{key, nonce, ad, sealed}
				pnames := []string{"key", "nonce", "ad", "ct||tag"}
				for pi := range parts {
					for bit := 0; bit < 8*len(parts[pi]); bit++ {
						cp := make([][]byte, 4)
						for j := range parts {
							cp[j] = append([]byte{}, parts[j]...)
						}
						cp[pi][bit/8] ^= 1 << uint(bit%8)
						c2, _ := ascon.New(cp[0], am.m)
						out, err := c2.Open(nil, cp[1], cp[3], cp[2])
						vlib.Eval(sub)
						if err == nil || out != nil {
							if !vlib.ReportDirect(t, "C15/ascon/"+name+"/Open/accepts-altered/bitflip/"+pnames[pi], fmt.Sprintf("|pt|=%d |ad|=%d bit %d of %s flipped: err=%v out=%x", pl, al, bit, pnames[pi], err, out), map[string]interface{}{"pl": pl, "al": al, "part": pnames[pi], "bit": bit}) {
								return
							}
							continue
						}
						vlib.NonTrivial(sub, "flip:"+pnames[pi], []byte(fmt.Sprint(name, pl, al, pi, bit, vlib.Seed)))
					}
				}
			}
		}
		if vlib.Thorough() && vlib.Shard == 0 {
			vlib.Exhaustive("C15 "+sub+": all single-bit flips of key, nonce, ad, ct||tag for |pt|,|ad| in {0,1,bs-1,bs,bs+1,2bs}", totalFlips, "one pseudorandom (key, nonce, ad, pt) per length pair and seed; all shards together")
		}
	}
}
