//go:build verif

package c15

import (
	"bytes"
	"fmt"
	"testing"

	"github.com/cloudflare/circl/cipher/ascon"
	"github.com/cloudflare/circl/expander"
	"github.com/cloudflare/circl/internal/sha3"
	"github.com/cloudflare/circl/simd/keccakf1600"
	"github.com/cloudflare/circl/xof"
	"github.com/cloudflare/circl/xof/k12"
	"github.com/cloudflare/circl/zz_verif/ref/h2c"
	"github.com/cloudflare/circl/zz_verif/ref/keccak"
	"github.com/cloudflare/circl/zz_verif/vlib"
	"pgregory.net/rapid"
)

// Object-reuse histories: ONE object of every stateful (or seemingly stateless)
// type of C15 is used for several rounds with DIFFERENT parameters / inputs; every
// later result must equal what the specification (= a fresh object) gives.

// ---------------------------------------------------------------------------
// StateX2 / StateX4: Initialize(turbo) again and again on the same object, in every
// flag order, with fills and permutations in between.

func TestC15ReusePerm(t *testing.T) {
	defer vlib.Done()
	vlib.Check(t, vlib.N(500, 5000), func(t *rapid.T) {
		way := rapid.SampledFrom([]int{2, 4}).Draw(t, "way")
		sub := fmt.Sprintf("reuse/perm/x%d", way)
		// heap objects: they keep their address (and alignment offset) for the whole history
		s2, s4 := new(keccakf1600.StateX2), new(keccakf1600.StateX4)
		var a []uint64
		var model [4][25]uint64
		turbo, inited := false, false
		prev := "none"
		nInit := 0
		load := func() { // model -> a
			for j := 0; j < 25; j++ {
				for i := 0; i < way; i++ {
					a[way*j+i] = model[i][j]
				}
			}
		}
		doInit := func(t *rapid.T) {
			nt := rapid.Bool().Draw(t, "turbo")
			if way == 2 {
				a = s2.Initialize(nt)
			} else {
				a = s4.Initialize(nt)
			}
			if len(a) != 25*way {
				vlib.Report(t, fmt.Sprintf("C15/reuse/perm/x%d/initialize-length", way), fmt.Sprint(len(a)))
				return
			}
			if inited {
				vlib.Class(sub, fmt.Sprintf("re-Initialize:%v→%v", turbo, nt))
			}
			prev = fmt.Sprintf("%v→%v", turbo, nt)
			if !inited {
				prev = "first"
			}
			turbo, inited = nt, true
			nInit++
			// the contents after Initialize are not specified: always fill
			for i := 0; i < way; i++ {
				model[i] = drawLanes(t, fmt.Sprintf("s%d", i))
			}
			load()
		}
		acts := map[string]func(*rapid.T){
			"init": doInit,
			"fill": func(t *rapid.T) {
				if !inited {
					t.Skip()
				}
				i := rapid.IntRange(0, way-1).Draw(t, "lane")
				model[i] = drawLanes(t, "refill")
				load()
			},
			"permute": func(t *rapid.T) {
				if !inited {
					t.Skip()
				}
				if way == 2 {
					s2.Permute()
				} else {
					s4.Permute()
				}
				nr := 24
				if turbo {
					nr = 12
				}
				vlib.Eval(sub)
				for i := 0; i < way; i++ {
					keccak.P(&model[i], nr)
				}
				for j := 0; j < 25; j++ {
					for i := 0; i < way; i++ {
						if a[way*j+i] != model[i][j] {
							vlib.Report(t, fmt.Sprintf("C15/reuse/perm/x%d/lane-mismatch-after-reinitialize", way),
								fmt.Sprintf("object initialised %d times (last transition of the turbo flag %s), now turbo=%v: lane %d of state %d = %016x, expected %016x (Keccak-p[1600,%d])", nInit, prev, turbo, j, i, a[way*j+i], model[i][j], nr))
							load() // resynchronise for known findings
							return
						}
					}
				}
				if nInit >= 2 {
					vlib.NonTrivial(sub, "permute-after-re-Initialize:"+prev, lanesBytes(&model[0]), []byte{byte(nInit)})
				}
			},
		}
		acts["permute2"] = acts["permute"] // weight
		t.Repeat(acts)
	})
}

// ---------------------------------------------------------------------------
// hash / XOF objects: several rounds on one object, Reset in between, other
// message lengths, other chunking, other domain byte (TurboSHAKE: SwitchDS).

type reuseKind struct {
	name  string
	rate  int
	turbo bool // SwitchDS(D) per round
	sum   int  // >0: fixed-output hash, also Sum
	mk    func(ctx []byte, D byte) resettable
	ref   func(msg, ctx []byte, D byte, n int) []byte
}

// resettable is the method set used here (the adapters of c15_test.go satisfy it).
type resettable interface {
	Write(p []byte) (int, error)
	Read(p []byte) (int, error)
	Reset()
}

var reuseKinds = []reuseKind{
	{"SHA3-256", 136, false, 32, func(_ []byte, _ byte) resettable { s := sha3.New256(); return shaInst{&s} },
		func(m, _ []byte, _ byte, n int) []byte { return keccak.SHA3(256, m, n) }},
	{"SHA3-512", 72, false, 64, func(_ []byte, _ byte) resettable { s := sha3.New512(); return shaInst{&s} },
		func(m, _ []byte, _ byte, n int) []byte { return keccak.SHA3(512, m, n) }},
	{"SHAKE128", 168, false, 0, func(_ []byte, _ byte) resettable { s := sha3.NewShake128(); return shaInst{&s} },
		func(m, _ []byte, _ byte, n int) []byte { return xShake128(m, n) }},
	{"SHAKE256", 136, false, 0, func(_ []byte, _ byte) resettable { s := sha3.NewShake256(); return shaInst{&s} },
		func(m, _ []byte, _ byte, n int) []byte { return xShake256(m, n) }},
	{"TurboSHAKE128+SwitchDS", 168, true, 0, func(_ []byte, D byte) resettable { s := sha3.NewTurboShake128(D); return shaInst{&s} },
		func(m, _ []byte, D byte, n int) []byte { return keccak.TurboSHAKE128(m, D, n) }},
	{"TurboSHAKE256+SwitchDS", 136, true, 0, func(_ []byte, D byte) resettable { s := sha3.NewTurboShake256(D); return shaInst{&s} },
		func(m, _ []byte, D byte, n int) []byte { return keccak.TurboSHAKE256(m, D, n) }},
	{"xof.SHAKE128", 168, false, 0, func(_ []byte, _ byte) resettable { return xofInst{xof.SHAKE128.New()} },
		func(m, _ []byte, _ byte, n int) []byte { return xShake128(m, n) }},
	{"xof.SHAKE256", 136, false, 0, func(_ []byte, _ byte) resettable { return xofInst{xof.SHAKE256.New()} },
		func(m, _ []byte, _ byte, n int) []byte { return xShake256(m, n) }},
	{"xof.BLAKE2XB-same-library-oracle", 128, false, 0, func(_ []byte, _ byte) resettable { return xofInst{xof.BLAKE2XB.New()} },
		func(m, _ []byte, _ byte, n int) []byte { return refBlake2xb(m, n) }},
	{"xof.BLAKE2XS-same-library-oracle", 64, false, 0, func(_ []byte, _ byte) resettable { return xofInst{xof.BLAKE2XS.New()} },
		func(m, _ []byte, _ byte, n int) []byte { return refBlake2xs(m, n) }},
	{"xof.K12D10", 168, false, 0, func(_ []byte, _ byte) resettable { return xofInst{xof.K12D10.New()} },
		func(m, _ []byte, _ byte, n int) []byte { return keccak.KT128(m, nil, n) }},
	{"k12.NewDraft10-ctx", 168, false, 0, func(ctx []byte, _ byte) resettable { s := k12.NewDraft10(ctx); return k12Inst{&s} },
		func(m, ctx []byte, _ byte, n int) []byte { return keccak.KT128(m, ctx, n) }},
}

func TestC15ReuseHash(t *testing.T) {
	defer vlib.Done()
	vlib.Check(t, vlib.N(700, 7000), func(t *rapid.T) {
		k := rapid.SampledFrom(reuseKinds).Draw(t, "kind")
		sub := "reuse/hash/" + k.name
		var ctx []byte
		if k.name == "k12.NewDraft10-ctx" {
			ctx = drawCtx(t)
		}
		D := drawD(t)
		obj := k.mk(ctx, D)
		rounds := rapid.IntRange(2, 5).Draw(t, "rounds")
		isK12 := k.rate == 168 && (k.name == "xof.K12D10" || k.name == "k12.NewDraft10-ctx")
		lens := []int{0, 1, k.rate - 1, k.rate, k.rate + 1, 3*k.rate + 5}
		if isK12 {
			lens = append(lens, 8191, 8192, 8193, 2*8192, 3*8192+1, 5*8192, 5*8192+1, 9*8192)
		} else {
			lens = append(lens, 8192, 20000)
		}
		prevLen := -1
		for r := 0; r < rounds; r++ {
			label := fmt.Sprintf("r%d.", r)
			if r > 0 {
				obj.Reset()
			}
			if k.turbo && (r > 0 || rapid.Bool().Draw(t, label+"switch0")) {
				D = drawD(t)
				obj.(shaInst).s.SwitchDS(D)
			}
			var n int
			if rapid.IntRange(0, 3).Draw(t, label+"edge") > 0 {
				n = rapid.SampledFrom(lens).Draw(t, label+"len")
			} else {
				n = rapid.IntRange(0, 700).Draw(t, label+"len")
			}
			msg := make([]byte, n)
			if n > 0 {
				vlib.FillRandom(t, msg, label+"msg")
			}
			// 1..3 chunks
			cut1 := rapid.IntRange(0, n).Draw(t, label+"cut1")
			cut2 := rapid.IntRange(cut1, n).Draw(t, label+"cut2")
			var p interface{}
			var st string
			olen := rapid.SampledFrom([]int{1, 32, k.rate, k.rate + 1, 400}).Draw(t, label+"olen")
			if k.sum > 0 {
				olen = k.sum
			}
			got := make([]byte, olen)
			var sum []byte
			p, st = vlib.Catch(func() {
				obj.Write(msg[:cut1])
				obj.Write(msg[cut1:cut2])
				obj.Write(msg[cut2:])
				if k.sum > 0 {
					sum = obj.(shaInst).Sum(nil)
				}
				h := olen / 2
				obj.Read(got[:h])
				obj.Read(got[h:])
			})
			vlib.Eval(sub)
			if p != nil {
				vlib.Report(t, "C15/reuse/hash/"+k.name+"/panic/"+vlib.PanicClass(p), fmt.Sprintf("round %d on the same object (previous message %d bytes, now %d): %v\n%s", r, prevLen, n, p, st))
				return
			}
			want := k.ref(msg, ctx, D, olen)
			if !bytes.Equal(got, want) || (k.sum > 0 && !bytes.Equal(sum, want)) {
				vlib.Report(t, "C15/reuse/hash/"+k.name+"/round-differs-from-fresh", fmt.Sprintf("round %d on the same object after Reset (previous message %d bytes; now %d bytes in chunks %d/%d/%d, D=%#x, |ctx|=%d): got %s sum %s want %s",
					r, prevLen, n, cut1, cut2-cut1, n-cut2, D, len(ctx), vlib.Hex(got), vlib.Hex(sum), vlib.Hex(want)))
				return
			}
			if r > 0 {
				cls := "round-after-reset"
				switch {
				case prevLen > 8192 && n <= 8192:
					cls = "round-after-reset:long→short"
				case prevLen <= 8192 && n > 8192:
					cls = "round-after-reset:short→long"
				}
				vlib.NonTrivial(sub, cls, msg, ctx, []byte{D, byte(r), byte(prevLen), byte(prevLen >> 8), byte(prevLen >> 16)})
			}
			prevLen = n
		}
	})
}

// ---------------------------------------------------------------------------
// one ascon.Cipher for many Seal / Open calls with other nonces, AD and lengths,
// failing Opens in between.

func TestC15ReuseAscon(t *testing.T) {
	defer vlib.Done()
	vlib.Check(t, vlib.N(500, 5000), func(t *rapid.T) {
		am := rapid.SampledFrom(asconModes).Draw(t, "mode")
		name := am.ref.Name
		sub := "reuse/ascon/" + name
		key := vlib.EdgeBytes(t, am.ref.KeyLen, "key")
		c, err := ascon.New(key, am.m)
		if err != nil {
			t.Fatalf("New: %v", err)
		}
		bs := am.ref.Rate
		steps := rapid.IntRange(3, 9).Draw(t, "steps")
		lastFailed := false
		for i := 0; i < steps; i++ {
			label := fmt.Sprintf("s%d.", i)
			nonce := vlib.EdgeBytes(t, 16, label+"nonce")
			ad := make([]byte, drawLen(t, bs, label+"ad"))
			pt := make([]byte, drawLen(t, bs, label+"pt"))
			if len(ad) > 0 {
				vlib.FillRandom(t, ad, label+"ad")
			}
			if len(pt) > 0 {
				vlib.FillRandom(t, pt, label+"pt")
			}
			want := am.ref.Seal(key, nonce, ad, pt)
			op := rapid.SampledFrom([]string{"seal", "open", "open-altered", "open-altered", "open-short"}).Draw(t, label+"op")
			vlib.Eval(sub)
			ok := true
			switch op {
			case "seal":
				got := c.Seal(nil, nonce, pt, ad)
				ok = bytes.Equal(got, want)
				if !ok {
					vlib.Report(t, "C15/reuse/ascon/"+name+"/Seal", fmt.Sprintf("call %d on one Cipher (previous call failed: %v): Seal = %x, specification %x", i, lastFailed, got, want))
					return
				}
				lastFailed = false
			case "open":
				got, err := c.Open(nil, nonce, want, ad)
				if err != nil || !bytes.Equal(got, pt) {
					vlib.Report(t, "C15/reuse/ascon/"+name+"/Open", fmt.Sprintf("call %d on one Cipher (previous call failed: %v): Open of a genuine ciphertext: err=%v", i, lastFailed, err))
					return
				}
				lastFailed = false
			case "open-altered":
				bad := append([]byte{}, want...)
				b := rapid.IntRange(0, 8*len(bad)-1).Draw(t, label+"bit")
				bad[b/8] ^= 1 << uint(b%8)
				got, err := c.Open(nil, nonce, bad, ad)
				if err == nil || got != nil {
					vlib.Report(t, "C15/reuse/ascon/"+name+"/Open-accepts-altered", fmt.Sprintf("call %d on one Cipher: bit %d flipped, err=%v", i, b, err))
					return
				}
				lastFailed = true
			case "open-short":
				n := rapid.IntRange(0, 15).Draw(t, label+"short")
				got, err := c.Open(nil, nonce, want[len(want)-16:][:n], ad)
				if err == nil || got != nil {
					vlib.Report(t, "C15/reuse/ascon/"+name+"/Open-accepts-short", fmt.Sprintf("call %d: %d-byte input accepted", i, n))
					return
				}
				lastFailed = true
			}
			if i > 0 {
				vlib.NonTrivial(sub, "later-call:"+op, []byte(name), key, nonce, ad, pt, []byte{byte(i)})
			}
		}
	})
}

// ---------------------------------------------------------------------------
// one Expander for many Expand calls; the DST slice handed to the constructor
// (including its spare capacity) must not be written.

func TestC15ReuseExpander(t *testing.T) {
	defer vlib.Done()
	vlib.Check(t, vlib.N(400, 4000), func(t *rapid.T) {
		dl := rapid.SampledFrom([]int{0, 1, 16, 255, 256, 300}).Draw(t, "dstlen")
		spare := rapid.SampledFrom([]int{0, 1, 8, 64}).Draw(t, "spare")
		backing := make([]byte, dl+spare)
		vlib.FillRandom(t, backing, "dst")
		dst := backing[:dl]
		snapshot := append([]byte{}, backing...)
		var exp expander.Expander
		var ref func(msg []byte, n int) ([]byte, error)
		var name string
		maxN := 65535
		if rapid.Bool().Draw(t, "xmd") {
			md := rapid.SampledFrom(mds).Draw(t, "md")
			name = "xmd/" + md.name
			exp = expander.NewExpanderMD(md.h, dst)
			maxN = 255 * md.h.Size()
			ref = func(msg []byte, n int) ([]byte, error) { return h2c.XMD(md.h.New, msg, snapshot[:dl], n) }
		} else {
			x := rapid.SampledFrom(xofs).Draw(t, "xof")
			kk := drawSecLevel(t)
			name = "xof/" + x.name
			exp = expander.NewExpanderXOF(x.id, uint(kk), dst)
			ref = func(msg []byte, n int) ([]byte, error) { return h2c.XOF(x.ref, kk, msg, snapshot[:dl], n) }
		}
		sub := "reuse/expander"
		calls := rapid.IntRange(2, 6).Draw(t, "calls")
		prevN := -1
		for i := 0; i < calls; i++ {
			label := fmt.Sprintf("c%d.", i)
			msg := vlib.Bytes(t, 0, 300, label+"msg")
			n := rapid.SampledFrom([]int{0, 1, 31, 32, 33, 64, 100, 300, 1000, maxN}).Draw(t, label+"n")
			if n > maxN {
				n = maxN
			}
			want, err := ref(msg, n)
			if err != nil {
				t.Fatalf("SELFTEST-FAIL reference aborted inside the valid domain: %v", err)
			}
			mcopy := append([]byte{}, msg...)
			got := exp.Expand(msg, uint(n))
			vlib.Eval(sub)
			if !bytes.Equal(got, want) {
				vlib.Report(t, "C15/reuse/expander/"+name+"/call-differs-from-fresh", fmt.Sprintf("call %d on one Expander (|dst|=%d, previous n=%d, now |msg|=%d n=%d): got %s want %s", i, dl, prevN, len(msg), n, vlib.Hex(got), vlib.Hex(want)))
				return
			}
			if !bytes.Equal(backing, snapshot) || !bytes.Equal(msg, mcopy) {
				vlib.Report(t, "C15/reuse/expander/"+name+"/writes-to-caller-memory", fmt.Sprintf("call %d: Expand wrote to the DST slice handed to the constructor (len %d, spare capacity %d) or to the message", i, dl, spare))
				return
			}
			for j := range got {
				got[j] ^= 0xa5 // the result belongs to the caller
			}
			if i > 0 {
				vlib.NonTrivial(sub, "later-call", []byte(name), snapshot[:dl], msg, []byte{byte(n), byte(n >> 8), byte(i)})
			}
			prevN = n
		}
	})
}
