//go:build verif

// Package xofsm is the history ("state machine") driver shared by the C15
// black-box tests and the white-box K12 overlay: it drives Write / Read / Clone
// / Reset / Sum histories over several live copies of a sponge-like object and
// compares every Read with the corresponding slice of a reference output
// stream. The model of one live object is (bytes absorbed so far, number of
// bytes squeezed so far). It imports no circl package.
package xofsm

import (
	"bytes"
	"fmt"
	"hash/fnv"

	"github.com/cloudflare/circl/zz_verif/vlib"
	"pgregory.net/rapid"
)

// Inst is one live object under test.
type Inst interface {
	Write(p []byte) (int, error)
	Read(p []byte) (int, error)
	CloneInst() Inst
	Reset()
}

// Summer is implemented by fixed-output hashes.
type Summer interface {
	Sum(in []byte) []byte
}

// Spec describes one function under test.
type Spec struct {
	Sub    string // evidence sub-check name, e.g. "sponge/SHA3-256"
	Key    string // finding-key prefix, e.g. "C15/sponge/SHA3-256"
	New    func() Inst
	Ref    func(msg []byte, n int) []byte // first n bytes of the specified output for msg
	Rate   int                            // sponge rate in bytes
	Lanes  int                            // K12: parallel lanes (1 otherwise)
	Tail   int                            // bytes appended to the message at finalisation (K12: |C| + |length_encode|)
	MaxOut int                            // >0: at most this many bytes may be squeezed in total (SHA-3 digest size)
	SumLen int                            // >0: Sum(in) is offered and returns in || first SumLen bytes
	MaxMsg int                            // cap on the total message length
	Big    int                            // per-mille probability of jumping to a multi-kilobyte boundary
	// Invariant, if set, is a white-box check called after every step on every
	// live absorbing object; it returns "" or a description of the violation.
	Invariant func(in Inst, absorbed int, squeezing bool) string
}

type live struct {
	in       Inst
	msg      []byte
	squeezed int
	reading  bool
	refOut   []byte // cached reference stream (valid while reading: the message is frozen)
	// history facts
	hist        uint64 // hash of the lineage's operation sequence
	chunks      int
	straddle    bool // some write chunk had a rate / 8192 boundary strictly inside or at its end with more data following
	cloneOrRst  bool
	bornOfClone bool
}

func mix(h uint64, parts ...[]byte) uint64 {
	f := fnv.New64a()
	var b [8]byte
	for i := 0; i < 8; i++ {
		b[i] = byte(h >> (8 * i))
	}
	f.Write(b[:])
	for _, p := range parts {
		f.Write(p)
		f.Write([]byte{0xfe})
	}
	return f.Sum64()
}

func itob(v int) []byte { return []byte(fmt.Sprint(v)) }

// edgeTotals are the message lengths the property names.
func (sp *Spec) edgeTotals() []int {
	r := sp.Rate
	e := []int{r - 1, r, r + 1, 2*r - 1, 2 * r, 2*r + 1, 3 * r, 8191, 8192, 8193}
	for k := 2; k <= 9; k++ {
		e = append(e, k*8192-1, k*8192, k*8192+1)
	}
	if sp.Lanes == 4 {
		e = append(e, 13*8192-1, 13*8192, 13*8192+1)
	}
	if sp.Tail > 0 {
		n := len(e)
		for i := 0; i < n; i++ {
			if e[i]-sp.Tail > 0 {
				e = append(e, e[i]-sp.Tail)
			}
		}
	}
	return e
}

func (sp *Spec) fail(t *rapid.T, class, detail string) bool {
	return vlib.Report(t, sp.Key+"/"+class, detail)
}

// Run executes one history.
func Run(t *rapid.T, sp Spec) {
	if sp.Lanes == 0 {
		sp.Lanes = 1
	}
	if sp.MaxMsg == 0 {
		sp.MaxMsg = 9*8192 + 2
		if sp.Lanes == 4 {
			sp.MaxMsg = 13*8192 + 2 // first chunk + three full 4-lane buffers
		}
	}
	pool := make([]byte, sp.MaxMsg+64)
	switch rapid.IntRange(0, 9).Draw(t, "poolkind") {
	case 0:
	case 1:
		for i := range pool {
			pool[i] = byte(i % 0xfb)
		}
	default:
		vlib.FillRandom(t, pool, "pool")
	}
	edges := sp.edgeTotals()
	vlib.Class(sp.Sub, "histories")
	abandoned := false
	lives := []*live{{in: sp.New()}}
	pick := func(t *rapid.T, pred func(*live) bool) *live {
		var c []*live
		for _, l := range lives {
			if pred == nil || pred(l) {
				c = append(c, l)
			}
		}
		if len(c) == 0 {
			return nil
		}
		return c[rapid.IntRange(0, len(c)-1).Draw(t, "which")]
	}
	// call runs f and reports a panic of the code under test.
	call := func(t *rapid.T, op string, l *live, f func()) bool {
		if p, st := vlib.Catch(f); p != nil {
			abandoned = true
			sp.fail(t, "panic/"+op+"/"+vlib.PanicClass(p), fmt.Sprintf("%s after absorbing %d bytes in %d chunks, squeezed %d: panic %v\n%s", op, len(l.msg), l.chunks, l.squeezed, p, st))
			return false
		}
		return true
	}
	doRead := func(t *rapid.T, l *live, n int, where string) {
		buf := make([]byte, n+16)
		for i := range buf {
			buf[i] = 0xa5
		}
		var got int
		var err error
		if !call(t, "Read", l, func() { got, err = l.in.Read(buf[8 : 8+n]) }) {
			return
		}
		first := !l.reading
		l.reading = true
		vlib.Eval(sp.Sub) // one evaluation = one output slice (or Sum) compared with the reference
		if got != n || err != nil {
			abandoned = true
			sp.fail(t, "read-return", fmt.Sprintf("Read(%d bytes) returned (%d, %v)", n, got, err))
			return
		}
		for i := 0; i < 8; i++ {
			if buf[i] != 0xa5 || buf[8+n+i] != 0xa5 {
				abandoned = true
				sp.fail(t, "read-overrun", fmt.Sprintf("Read(%d bytes) wrote outside its buffer", n))
				return
			}
		}
		if first || len(l.refOut) < l.squeezed+n {
			if sp.MaxOut > 0 {
				l.refOut = sp.Ref(l.msg, sp.MaxOut)
			} else {
				l.refOut = sp.Ref(l.msg, l.squeezed+n+400)
			}
		}
		want := l.refOut[l.squeezed : l.squeezed+n]
		if !bytes.Equal(buf[8:8+n], want) {
			abandoned = true
			cls := "stream"
			if l.cloneOrRst {
				cls = "stream-after-clone-or-reset"
			}
			sp.fail(t, cls, fmt.Sprintf("%s: message of %d bytes written in %d chunks (clone/reset in lineage: %v), output bytes [%d,%d): got %s want %s",
				where, len(l.msg), l.chunks, l.cloneOrRst, l.squeezed, l.squeezed+n, vlib.Hex(buf[8:8+n]), vlib.Hex(want)))
			return
		}
		// evidence
		if first {
			vlib.Class(sp.Sub, "read:first(pads)")
			ml := len(l.msg) + sp.Tail
			switch {
			case ml == 0:
				vlib.Class(sp.Sub, "final-len:0")
			case ml%sp.Rate == 0:
				vlib.Class(sp.Sub, "final-len:multiple-of-rate")
			case ml%sp.Rate == sp.Rate-1:
				vlib.Class(sp.Sub, "final-len:rate-1(ds-and-0x80-same-byte)")
			}
			if ml > 8192 {
				vlib.Class(sp.Sub, "final-len:>8192")
				if (ml-8192)%8192 == 0 {
					vlib.Class(sp.Sub, "final-len:8192k")
				}
				if (ml-8192)%(sp.Lanes*8192) == 0 {
					vlib.Class(sp.Sub, "final-len:8192+m*lanes*8192")
				}
			}
			if ml == 8192 {
				vlib.Class(sp.Sub, "final-len:=8192")
			}
		} else {
			vlib.Class(sp.Sub, "read:continued")
		}
		if n == 0 {
			vlib.Class(sp.Sub, "read:n=0")
		}
		if n > 0 && l.squeezed/sp.Rate != (l.squeezed+n-1)/sp.Rate {
			vlib.Class(sp.Sub, "read:crosses-rate-boundary")
		}
		if n > 0 && (l.squeezed+n)%sp.Rate == 0 {
			vlib.Class(sp.Sub, "read:ends-at-rate-boundary")
		}
		l.squeezed += n
		l.hist = mix(l.hist, []byte("R"), itob(n))
		if (l.chunks >= 2 && l.straddle) || l.cloneOrRst {
			cls := "nt:multi-chunk-straddling"
			if !(l.chunks >= 2 && l.straddle) {
				cls = "nt:clone-or-reset-only"
			} else if l.cloneOrRst {
				cls = "nt:multi-chunk-straddling+clone-or-reset"
			}
			var hb [8]byte
			for i := 0; i < 8; i++ {
				hb[i] = byte(l.hist >> (8 * i))
			}
			vlib.NonTrivial(sp.Sub, cls, hb[:])
			if first {
				vlib.Sample(sp.Sub, cls, fmt.Sprintf("%s: %d-byte message in %d write chunks, clone/reset in lineage=%v, then Read(%d) = %s", sp.Sub, len(l.msg), l.chunks, l.cloneOrRst, n, vlib.Hex(want)))
			}
		}
	}
	doReset := func(t *rapid.T, l *live) bool {
		if !call(t, "Reset", l, func() { l.in.Reset() }) {
			return false
		}
		switch {
		case l.reading && l.squeezed%sp.Rate != 0:
			vlib.Class(sp.Sub, "reset:squeezing-mid-block")
		case l.reading:
			vlib.Class(sp.Sub, "reset:squeezing")
		case len(l.msg) > 8192:
			vlib.Class(sp.Sub, "reset:absorbing,>8192")
		case len(l.msg)%sp.Rate != 0:
			vlib.Class(sp.Sub, "reset:absorbing-partial-block")
		default:
			vlib.Class(sp.Sub, "reset:absorbing-empty-buffer")
		}
		l.msg = nil
		l.squeezed = 0
		l.reading = false
		l.refOut = nil
		l.chunks = 0
		l.straddle = false
		l.cloneOrRst = true
		l.hist = mix(l.hist, []byte("Z"))
		return true
	}
	readLens := []int{0, 1, sp.Rate - 1, sp.Rate, sp.Rate + 1, 2*sp.Rate + 3, 10000}
	drawReadLen := func(t *rapid.T, l *live) int {
		var n int
		switch rapid.IntRange(0, 9).Draw(t, "rkind") {
		case 0, 1, 2, 3:
			n = rapid.SampledFrom(readLens).Draw(t, "rlen")
		case 4:
			// up to the next rate boundary of the output stream
			n = sp.Rate - l.squeezed%sp.Rate
		default:
			n = rapid.IntRange(0, 64).Draw(t, "rlen")
		}
		if sp.MaxOut > 0 && l.squeezed+n > sp.MaxOut {
			n = sp.MaxOut - l.squeezed
		}
		return n
	}
	actions := map[string]func(*rapid.T){
		"write": func(t *rapid.T) {
			if abandoned {
				return
			}
			l := pick(t, func(l *live) bool { return !l.reading })
			if l == nil {
				// every live object is squeezing (Write after Read is documented to panic): Reset one, then write
				l = pick(t, nil)
				if !doReset(t, l) {
					return
				}
			}
			L := len(l.msg)
			room := sp.MaxMsg - L
			var n int
			kind := rapid.IntRange(0, 999).Draw(t, "wkind")
			huge := sp.Big / 2
			if L >= 8192 && (L-8192)%(sp.Lanes*8192) == 0 && sp.Big >= 200 {
				huge = 250 // the leaf buffer is empty: make the direct multi-lane path likely
			}
			switch {
			case kind < sp.Big || (kind >= 500 && kind < 650):
				// jump exactly to one of the named total lengths (far: any of them; near: within four blocks)
				var c []int
				for _, e := range edges {
					if e > L && e <= sp.MaxMsg && (kind < sp.Big || e <= 4*sp.Rate+L) {
						c = append(c, e)
					}
				}
				if len(c) == 0 {
					n = rapid.IntRange(0, min(room, 8)).Draw(t, "wlen")
				} else {
					n = rapid.SampledFrom(c).Draw(t, "target") - L
				}
			case kind < sp.Big+huge:
				// one or two full leaf buffers (lanes*8192), exactly or off by one / by a block
				j := rapid.IntRange(1, 2).Draw(t, "nbuf")
				d := rapid.SampledFrom([]int{0, 0, 0, -1, 1, sp.Rate, 8192}).Draw(t, "delta")
				n = j*sp.Lanes*8192 + d
				if L == 0 && rapid.Bool().Draw(t, "withfirst") {
					n += 8192
				}
			case kind < 500:
				n = rapid.IntRange(1, 2*sp.Rate+3).Draw(t, "wlen")
			case kind < 750:
				n = rapid.SampledFrom([]int{sp.Rate, 2 * sp.Rate, sp.Rate - 1, sp.Rate + 1, 3 * sp.Rate}).Draw(t, "wlen")
			case kind < 800:
				n = 0
			case kind < 960:
				n = rapid.IntRange(1, 2*sp.Rate+3).Draw(t, "wlen")
			default:
				n = rapid.IntRange(1, 20000).Draw(t, "wlen")
			}
			if n > room {
				n = room
			}
			off := rapid.IntRange(0, len(pool)-n).Draw(t, "poff")
			data := append([]byte{}, pool[off:off+n]...)
			// hand over a private copy at a drawn alignment and scribble over it afterwards (Write must not retain p)
			al := rapid.IntRange(0, 7).Draw(t, "align")
			arg := make([]byte, n+al)[al:]
			copy(arg, data)
			var wn int
			var err error
			if !call(t, "Write", l, func() { wn, err = l.in.Write(arg) }) {
				return
			}
			for i := range arg {
				arg[i] ^= 0x5a
			}
			if wn != n || err != nil {
				abandoned = true
				sp.fail(t, "write-return", fmt.Sprintf("Write(%d bytes) returned (%d, %v)", n, wn, err))
				return
			}
			// evidence about the chunk
			end := L + n
			if n == 0 {
				vlib.Class(sp.Sub, "write:len0")
			}
			if n > 0 {
				inside := func(b int) bool { return L/b != (end-1)/b || (end%b == 0) }
				if inside(sp.Rate) {
					l.straddle = true
					vlib.Class(sp.Sub, "write:block-boundary-inside-or-at-end")
				}
				if L%sp.Rate == 0 && n >= sp.Rate {
					vlib.Class(sp.Sub, "write:fast-path(empty-buffer,≥rate)")
				}
				if L%sp.Rate != 0 && L/sp.Rate != end/sp.Rate {
					vlib.Class(sp.Sub, "write:completes-partial-block")
				}
				if end%sp.Rate == 0 {
					vlib.Class(sp.Sub, "write:ends-at-block")
				}
				if end > 8192 {
					if L < 8192 {
						vlib.Class(sp.Sub, "write:crosses-first-8192")
					}
					if inside(8192) {
						l.straddle = true
						vlib.Class(sp.Sub, "write:8192-boundary-inside-or-at-end")
					}
					if (end-8192)%(sp.Lanes*8192) == 0 {
						vlib.Class(sp.Sub, "write:ends-at-8192+m*lanes*8192")
					}
					if L >= 8192 && (L-8192)%(sp.Lanes*8192) == 0 && n >= sp.Lanes*8192 {
						vlib.Class(sp.Sub, "write:≥lanes*8192-into-empty-leaf-buffer")
					}
					if L > 8192 && (L-8192)%(sp.Lanes*8192) != 0 && (L-8192)/(sp.Lanes*8192) != (end-8192)/(sp.Lanes*8192) {
						vlib.Class(sp.Sub, "write:fills-partial-leaf-buffer")
					}
				}
				if end == 8192 {
					vlib.Class(sp.Sub, "write:ends-at-8192")
				}
				// does part of this chunk take the direct multi-lane path (≥ lanes*8192 bytes left once the
				// first 8192-byte chunk and a partially filled leaf buffer have been served)?
				if sp.Lanes > 1 {
					rem, pos := n, 0
					if L < 8192 {
						rem -= min(rem, 8192-L)
					} else {
						pos = (L - 8192) % (sp.Lanes * 8192)
					}
					if pos != 0 {
						rem -= min(rem, sp.Lanes*8192-pos)
					}
					if rem >= sp.Lanes*8192 {
						vlib.Class(sp.Sub, "write:direct-multilane-path")
						if pos != 0 {
							vlib.Class(sp.Sub, "write:fills-buffer-then-direct-multilane-path")
						}
						if rem%(sp.Lanes*8192) == 0 {
							vlib.Class(sp.Sub, "write:direct-multilane-path,no-remainder")
						}
					}
				}
			}
			l.msg = append(l.msg, data...)
			l.chunks++
			l.hist = mix(l.hist, []byte("W"), data)
		},
		"read": func(t *rapid.T) {
			if abandoned {
				return
			}
			l := pick(t, nil)
			n := drawReadLen(t, l)
			doRead(t, l, n, "Read")
		},
		"clone": func(t *rapid.T) {
			if abandoned {
				return
			}
			if len(lives) >= 4 {
				t.Skip()
			}
			l := pick(t, nil)
			var c Inst
			if !call(t, "Clone", l, func() { c = l.in.CloneInst() }) {
				return
			}
			if l.reading {
				vlib.Class(sp.Sub, "clone:squeezing")
			} else if len(l.msg) > 8192 {
				vlib.Class(sp.Sub, "clone:absorbing,>8192")
			} else {
				vlib.Class(sp.Sub, "clone:absorbing")
			}
			l.cloneOrRst = true
			l.hist = mix(l.hist, []byte("C"))
			nl := *l
			nl.in = c
			nl.msg = append([]byte{}, l.msg...)
			nl.refOut = append([]byte{}, l.refOut...)
			nl.hist = mix(l.hist, []byte("child"))
			lives = append(lives, &nl)
		},
		"reset": func(t *rapid.T) {
			if abandoned {
				return
			}
			doReset(t, pick(t, nil))
		},
		"": func(t *rapid.T) {
			if abandoned || sp.Invariant == nil {
				return
			}
			for _, l := range lives {
				if s := sp.Invariant(l.in, len(l.msg), l.reading); s != "" {
					abandoned = true
					sp.fail(t, "whitebox-invariant", s)
					return
				}
			}
		},
	}
	if sp.SumLen > 0 {
		actions["sum"] = func(t *rapid.T) {
			if abandoned {
				return
			}
			l := pick(t, func(l *live) bool { return !l.reading })
			if l == nil {
				t.Skip()
			}
			pl := rapid.IntRange(0, 5).Draw(t, "prefixlen")
			spare := rapid.SampledFrom([]int{0, 0, 3, sp.SumLen, sp.SumLen + 8}).Draw(t, "sparecap")
			prefix := make([]byte, pl, pl+spare)
			for i := range prefix {
				prefix[i] = byte(0xc0 + i)
			}
			var got []byte
			if !call(t, "Sum", l, func() { got = l.in.(Summer).Sum(prefix) }) {
				return
			}
			vlib.Eval(sp.Sub)
			want := append(append([]byte{}, prefix...), sp.Ref(l.msg, sp.SumLen)...)
			if !bytes.Equal(got, want) {
				abandoned = true
				sp.fail(t, "sum", fmt.Sprintf("Sum(prefix of %d bytes, spare capacity %d) after %d bytes in %d chunks: got %s want %s", pl, spare, len(l.msg), l.chunks, vlib.Hex(got), vlib.Hex(want)))
				return
			}
			vlib.Class(sp.Sub, "sum:midway(state-continues)")
			l.hist = mix(l.hist, []byte("S"))
			if (l.chunks >= 2 && l.straddle) || l.cloneOrRst {
				var hb [8]byte
				for i := 0; i < 8; i++ {
					hb[i] = byte(l.hist >> (8 * i))
				}
				vlib.NonTrivial(sp.Sub, "nt:sum", hb[:])
			}
		}
	}
	// rapid draws actions uniformly: weight them by registering aliases (write 6, read 3, clone 1, reset 1, sum 1)
	for _, k := range []string{"write2", "write3", "write4", "write5", "write6"} {
		actions[k] = actions["write"]
	}
	actions["read2"], actions["read3"] = actions["read"], actions["read"]
	t.Repeat(actions)
	if abandoned {
		return
	}
	// final: every live object is squeezed once more
	for i, l := range lives {
		n := rapid.SampledFrom(readLens).Draw(t, fmt.Sprintf("final%d", i))
		if sp.MaxOut > 0 && l.squeezed+n > sp.MaxOut {
			n = sp.MaxOut - l.squeezed
		}
		if rapid.IntRange(0, 3).Draw(t, "finalsmall") != 0 && n > 300 {
			n = 32
			if sp.MaxOut > 0 && l.squeezed+n > sp.MaxOut {
				n = sp.MaxOut - l.squeezed
			}
		}
		doRead(t, l, n, "final Read")
		if abandoned {
			return
		}
	}
}

func min(a, b int) int {
	if a < b {
		return a
	}
	return b
}
