//go:build verif

package xofsm

import (
	"bytes"
	"fmt"
	"testing"

	"github.com/cloudflare/circl/zz_verif/vlib"
)

func sweepLens(rate, lanes int) []int {
	l := []int{0, 1, rate - 1, rate, rate + 1, 2 * rate, 2*rate + 1, 8191, 8192, 8193}
	for k := 2; k <= 9; k++ {
		l = append(l, k*8192-1, k*8192, k*8192+1)
	}
	return l
}

// OneShot describes a function for the two-chunk split sweep.
type OneShot struct {
	Name  string
	Rate  int
	Lanes int
	Tail  int
	Mk    func() Inst
	Ref   func(m []byte, n int) []byte
	Olen  int
}

// Sweep checks Write(m[:s]); Write(m[s:]); Read against the reference for all
// pairs (L, s <= L) of the named lengths (quick tier: every 4th pair plus all
// pairs with s in {0, L, multiples of 8192}); plain loop, sharded by pair index.
func Sweep(t *testing.T, o OneShot) {
	lens := sweepLens(o.Rate, o.Lanes)
	if o.Tail > 0 {
		for _, l := range sweepLens(o.Rate, o.Lanes) {
			if l-o.Tail >= 0 {
				lens = append(lens, l-o.Tail)
			}
		}
	}
	sub := "split2/" + o.Name
	maxL := 0
	for _, l := range lens {
		if l > maxL {
			maxL = l
		}
	}
	msg := make([]byte, maxL)
	vlib.ExpandInto(msg, uint64(vlib.Seed)*1000+15)
	idx := 0
	total := 0
	for _, L := range lens {
		want := []byte(nil)
		for _, s := range lens {
			if s > L {
				continue
			}
			idx++
			total++
			if !vlib.Thorough() && idx%4 != vlib.Seed%4 && !(s == L || s == 0 || s%8192 == 0) {
				continue
			}
			if idx%vlib.NShards != vlib.Shard {
				continue
			}
			if want == nil {
				want = o.Ref(msg[:L], o.Olen)
			}
			in := o.Mk()
			got := make([]byte, o.Olen)
			p, st := vlib.Catch(func() {
				in.Write(msg[:s])
				in.Write(msg[s:L])
				in.Read(got)
			})
			vlib.Eval(sub)
			if p != nil {
				if !vlib.ReportDirect(t, "C15/"+o.Name+"/panic/split2/"+vlib.PanicClass(p), fmt.Sprintf("L=%d split=%d panic %v\n%s", L, s, p, st), map[string]interface{}{"L": L, "split": s}) {
					return
				}
				continue
			}
			if !bytes.Equal(got, want) {
				if !vlib.ReportDirect(t, "C15/"+o.Name+"/stream", fmt.Sprintf("message of %d bytes written as %d + %d: got %s want %s", L, s, L-s, vlib.Hex(got), vlib.Hex(want)), map[string]interface{}{"L": L, "split": s}) {
					return
				}
				continue
			}
			if s > 0 && s < L {
				vlib.NonTrivial(sub, "two-chunks", []byte(fmt.Sprintf("%d/%d/%d", L, s, vlib.Seed)))
			}
		}
	}
	if vlib.Thorough() && vlib.Shard == 0 {
		vlib.Exhaustive("C15 "+sub+": all (length, split) pairs of the named lengths", int64(total), "all shards together; one pseudorandom message per seed")
	}
}
