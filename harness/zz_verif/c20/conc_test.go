//go:build verif

package c20

import (
	"bytes"
	"fmt"
	"sync"
	"testing"

	cpabe "github.com/cloudflare/circl/abe/cpabe/tkn20"
	"github.com/cloudflare/circl/zz_verif/ref/abe"
	"github.com/cloudflare/circl/zz_verif/vlib"
	"pgregory.net/rapid"
)

// Concurrent use. K goroutines start behind a barrier and run Encrypt,
// KeyGen, Decrypt, CouldDecrypt, ExtractFromCiphertext and policy operations,
// some on objects shared by all of them (one PublicKey, one SystemSecretKey,
// attribute keys, Attributes, ciphertext bytes, a Policy that is only read:
// Encrypt / String / Equal), some on the objects of a second, independent
// Setup. Policy.Satisfaction re-orders the gates of its receiver, so every
// goroutine calls it on a Policy of its own. Afterwards, sequentially: every
// result must be what the same call gives alone (all randomness comes from
// per-job deterministic readers), and every ciphertext made during the run
// must decrypt to its message with every satisfying key made during the run
// and be refused by the others — the sequential oracle of TestC20Cycle.

type concSystem struct {
	name string
	pk   *cpabe.PublicKey
	msk  *cpabe.SystemSecretKey
}

type encJob struct {
	sys     int
	F       *abe.Node
	src     string
	pol     *cpabe.Policy // read-only in the goroutine (may be shared by several jobs)
	msg     []byte
	seed    uint64
	ct      []byte
	err     error
	sharedP bool
}

type keyJob struct {
	sys  int
	idx  int
	seed uint64
	key  cpabe.AttributeKey
	err  error
}

type readJob struct { // operations on material made before the barrier
	kind string // decrypt | could | extract | policy
	idx  int
	ok   bool
	pt   []byte
	err  error
	note string
	F    *abe.Node
	src  string
}

func genSmallFormula(t *rapid.T) *abe.Node {
	leaves := rapid.SampledFrom([]int{1, 2, 2, 3}).Draw(t, "leaves")
	pool := rapid.IntRange(1, len(alphabet.Labels)).Draw(t, "labelPool")
	return genNode(t, leaves, 3, alphabet.Labels[:pool], alphabet.Values)
}

var (
	concOnce sync.Once
	concSysB concSystem
	concErr  error
)

func TestC20Conc(t *testing.T) {
	defer vlib.Done()
	const sub = "concurrent"
	e := envOrFail(t)
	if e == nil {
		return
	}
	concOnce.Do(func() {
		pk, msk, err := cpabe.Setup(vlib.NewReader(mix(uint64(vlib.Seed), uint64(vlib.Shard), 0xc0c)))
		concErr = err
		concSysB = concSystem{"second-setup", &pk, &msk}
	})
	if concErr != nil {
		t.Fatalf("Setup: %v", concErr)
	}
	systems := []concSystem{{"shared-setup", &e.pk, &e.msk}, concSysB}
	rounds := vlib.N(6, 60)
	if raceBuild {
		rounds = vlib.N(1, 6)
	}
	vlib.Check(t, rounds, func(t *rapid.T) {
		vlib.Eval(sub)
		nEnc := rapid.IntRange(2, 4).Draw(t, "encryptJobs")
		var encs []*encJob
		var keys []*keyJob
		var sharedPol *cpabe.Policy
		var sharedF *abe.Node
		var sharedSrc string
		for i := 0; i < nEnc; i++ {
			j := &encJob{sys: rapid.SampledFrom([]int{0, 0, 1}).Draw(t, "sys"), seed: rapid.Uint64().Draw(t, "encSeed")}
			if sharedPol != nil && rapid.IntRange(0, 2).Draw(t, "sharePolicy") == 0 {
				j.F, j.src, j.pol, j.sharedP = sharedF, sharedSrc, sharedPol, true
			} else {
				j.F = genSmallFormula(t)
				j.src, _ = render(t, j.F)
				j.pol = &cpabe.Policy{}
				if err := j.pol.FromString(j.src); err != nil {
					vlib.Report(t, "C20/parse/rejects-valid-policy", fmt.Sprintf("FromString error %v on %s", err, describe(j.F, j.src)))
					return
				}
				if sharedPol == nil {
					sharedPol, sharedF, sharedSrc = j.pol, j.F, j.src
				}
			}
			j.msg = make([]byte, rapid.SampledFrom(msgLens).Draw(t, "msgLen"))
			if len(j.msg) > 0 {
				vlib.FillRandom(t, j.msg, "msg")
			}
			encs = append(encs, j)
			// a key that satisfies this policy (if any), issued by the same system
			tt := abe.TruthTable(j.F, alphabet)
			var S []int
			for k, v := range tt {
				if v {
					S = append(S, k)
				}
			}
			if len(S) > 0 {
				keys = append(keys, &keyJob{sys: j.sys, idx: rapid.SampledFrom(S).Draw(t, "satisfying"), seed: rapid.Uint64().Draw(t, "keySeed")})
			}
		}
		for i := rapid.IntRange(1, 2).Draw(t, "extraKeys"); i > 0; i-- {
			keys = append(keys, &keyJob{sys: rapid.IntRange(0, 1).Draw(t, "ksys"), idx: rapid.IntRange(0, len(allAssign)-1).Draw(t, "anyAssignment"), seed: rapid.Uint64().Draw(t, "keySeed")})
		}

		// material made before the barrier, for the read-only jobs: one ciphertext of the shared system and cached keys
		F0 := genSmallFormula(t)
		src0, _ := render(t, F0)
		tt0 := abe.TruthTable(F0, alphabet)
		var p0 cpabe.Policy
		if err := p0.FromString(src0); err != nil {
			vlib.Report(t, "C20/parse/rejects-valid-policy", fmt.Sprintf("FromString error %v on %s", err, describe(F0, src0)))
			return
		}
		msg0 := []byte("made before the barrier")
		ct0, err := e.pk.Encrypt(vlib.NewReader(rapid.Uint64().Draw(t, "ct0Seed")), p0, msg0)
		if err != nil {
			vlib.Report(t, "C20/encrypt/error", fmt.Sprintf("Encrypt error %v; %s", err, describe(F0, src0)))
			return
		}
		var reads []*readJob
		for i := rapid.IntRange(2, 5).Draw(t, "readJobs"); i > 0; i-- {
			r := &readJob{kind: rapid.SampledFrom([]string{"decrypt", "decrypt", "could", "extract", "policy"}).Draw(t, "readKind")}
			switch r.kind {
			case "decrypt", "could":
				// shared attribute keys: a small pool so that goroutines really share one object
				r.idx = rapid.SampledFrom([]int{0, 85, 170, 255, 1, 2}).Draw(t, "sharedKey")
				if ke := e.keyFor(r.idx); ke.err != nil || ke.problem != "" {
					r.kind = "extract"
				}
			case "policy":
				r.F = genFormula(t)
				r.src, _ = render(t, r.F)
			}
			reads = append(reads, r)
		}

		// ---- the concurrent phase
		var jobs []func()
		for _, j := range encs {
			j := j
			jobs = append(jobs, func() {
				j.ct, j.err = systems[j.sys].pk.Encrypt(vlib.NewReader(j.seed), *j.pol, j.msg)
				if j.sharedP {
					_ = j.pol.String() // reading a shared policy
				}
			})
		}
		for _, k := range keys {
			k := k
			jobs = append(jobs, func() {
				k.key, k.err = systems[k.sys].msk.KeyGen(vlib.NewReader(k.seed), allAttrs[k.idx])
			})
		}
		for _, r := range reads {
			r := r
			jobs = append(jobs, func() {
				switch r.kind {
				case "decrypt":
					r.pt, r.err = e.keyFor(r.idx).k.Decrypt(ct0)
				case "could":
					r.ok = allAttrs[r.idx].CouldDecrypt(ct0)
				case "extract":
					var px cpabe.Policy
					if r.err = px.ExtractFromCiphertext(ct0); r.err == nil {
						if i := firstDiff(truthTableOf(&px, 0), tt0); i >= 0 {
							r.note = "extracted policy differs at attributes " + allAssign[i].Text()
						}
					}
				case "policy":
					var p cpabe.Policy // the goroutine's own object: Satisfaction re-orders its gates
					if r.err = p.FromString(r.src); r.err == nil {
						want := abe.TruthTable(r.F, alphabet)
						if i := firstDiff(truthTableOf(&p, 0), want); i >= 0 {
							r.note = "Satisfaction differs from the reference at attributes " + allAssign[i].Text()
						} else if back, err := abe.Parse(p.String()); err != nil || firstDiff(abe.TruthTable(back, alphabet), want) >= 0 {
							r.note = fmt.Sprintf("String()=%q is not equivalent to the policy", p.String())
						}
					}
				}
			})
		}
		// drawn order, so that different kinds of job overlap differently
		perm := rapid.Permutation(func() []int {
			ix := make([]int, len(jobs))
			for i := range ix {
				ix[i] = i
			}
			return ix
		}()).Draw(t, "order")
		start := make(chan struct{})
		var wg sync.WaitGroup
		var pmu sync.Mutex
		var panics []string
		for _, i := range perm {
			job := jobs[i]
			wg.Add(1)
			go func() {
				defer wg.Done()
				<-start
				if p, st := vlib.Catch(job); p != nil {
					pmu.Lock()
					panics = append(panics, fmt.Sprintf("%v\n%s", p, st))
					pmu.Unlock()
				}
			}()
		}
		close(start)
		wg.Wait()
		vlib.Class(sub, fmt.Sprintf("goroutines=%d", len(jobs)))
		vlib.ClassN(sub, "job:encrypt", int64(len(encs)))
		vlib.ClassN(sub, "job:keygen", int64(len(keys)))
		for _, r := range reads {
			vlib.Class(sub, "job:"+r.kind)
		}

		// ---- sequential examination
		plan := fmt.Sprintf("%d goroutines (%d Encrypt, %d KeyGen, %d read-only jobs) started together", len(jobs), len(encs), len(keys), len(reads))
		if len(panics) > 0 {
			vlib.Report(t, "C20/concurrent/panic", fmt.Sprintf("%s: %s", plan, panics[0]))
			return
		}
		for i, j := range encs {
			if j.err != nil {
				vlib.Report(t, "C20/concurrent/encrypt-error", fmt.Sprintf("%s: Encrypt #%d (%s) failed: %v; %s", plan, i, systems[j.sys].name, j.err, describe(j.F, j.src)))
				return
			}
			alone, err := systems[j.sys].pk.Encrypt(vlib.NewReader(j.seed), *j.pol, j.msg)
			if err != nil || !bytes.Equal(alone, j.ct) {
				vlib.Report(t, "C20/concurrent/encrypt-differs-from-sequential", fmt.Sprintf("%s: Encrypt #%d (%s) returned a ciphertext that differs from the one the same call (same key, policy, message, randomness) gives alone (err %v); %s", plan, i, systems[j.sys].name, err, describe(j.F, j.src)))
				return
			}
		}
		for i, k := range keys {
			if k.err != nil {
				vlib.Report(t, "C20/concurrent/keygen-error", fmt.Sprintf("%s: KeyGen #%d for %s failed: %v", plan, i, allAssign[k.idx].Text(), k.err))
				return
			}
			alone, err := systems[k.sys].msk.KeyGen(vlib.NewReader(k.seed), allAttrs[k.idx])
			var b1, b2 []byte
			if err == nil {
				b1, _ = alone.MarshalBinary()
				b2, _ = k.key.MarshalBinary()
			}
			if err != nil || !bytes.Equal(b1, b2) || !alone.Equal(&k.key) {
				vlib.Report(t, "C20/concurrent/keygen-differs-from-sequential", fmt.Sprintf("%s: KeyGen #%d (%s) for %s returned a key that differs from the one the same call gives alone (err %v)", plan, i, systems[k.sys].name, allAssign[k.idx].Text(), err))
				return
			}
		}
		for i, j := range encs {
			for n, k := range keys {
				if k.sys != j.sys {
					continue
				}
				want := abe.Eval(j.F, allAssign[k.idx])
				ctx := fmt.Sprintf("%s; ciphertext #%d and key #%d (%s) both made during the run; attributes %s; message %d bytes; %s", plan, i, n, systems[j.sys].name, allAssign[k.idx].Text(), len(j.msg), describe(j.F, j.src))
				if got := allAttrs[k.idx].CouldDecrypt(j.ct); got != want {
					vlib.Report(t, "C20/concurrent/could-decrypt/"+verdictKey(want), fmt.Sprintf("CouldDecrypt=%v, reference=%v; %s", got, want, ctx))
					return
				}
				pt, err := k.key.Decrypt(j.ct)
				if err == nil && !bytes.Equal(pt, j.msg) {
					vlib.Report(t, "C20/concurrent/decrypt/wrong-message", fmt.Sprintf("Decrypt returned %s; %s", vlib.Hex(pt), ctx))
					return
				}
				if (err == nil) != want {
					vlib.Report(t, "C20/concurrent/decrypt/"+verdictKey(want), fmt.Sprintf("Decrypt err=%v, reference verdict=%v; %s", err, want, ctx))
					return
				}
				vlib.Class(sub, fmt.Sprintf("pair:verdict=%v", want))
				vlib.NonTrivial(sub, "nontrivial:ciphertext-and-key-made-concurrently", j.ct[:64], u64b(k.seed), []byte{byte(k.idx)})
			}
		}
		for _, r := range reads {
			ctx := fmt.Sprintf("%s; read-only job %s on material made before the run; %s", plan, r.kind, describe(F0, src0))
			switch r.kind {
			case "decrypt":
				want := tt0[r.idx]
				if (r.err == nil) != want || (r.err == nil && !bytes.Equal(r.pt, msg0)) {
					vlib.Report(t, "C20/concurrent/decrypt/"+verdictKey(want), fmt.Sprintf("concurrent Decrypt with a shared key for %s: err=%v, reference verdict=%v; %s", allAssign[r.idx].Text(), r.err, want, ctx))
					return
				}
			case "could":
				if r.ok != tt0[r.idx] {
					vlib.Report(t, "C20/concurrent/could-decrypt/"+verdictKey(tt0[r.idx]), fmt.Sprintf("concurrent CouldDecrypt for %s = %v; %s", allAssign[r.idx].Text(), r.ok, ctx))
					return
				}
			case "extract":
				if r.err != nil || r.note != "" {
					vlib.Report(t, "C20/concurrent/extract", fmt.Sprintf("concurrent ExtractFromCiphertext: err=%v %s; %s", r.err, r.note, ctx))
					return
				}
			case "policy":
				if r.err != nil || r.note != "" {
					vlib.Report(t, "C20/concurrent/policy", fmt.Sprintf("%s; policy operations on a goroutine's own object: err=%v %s; %s", plan, r.err, r.note, describe(r.F, r.src)))
					return
				}
			}
		}
	})
}

func u64b(v uint64) []byte {
	b := make([]byte, 8)
	for i := range b {
		b[i] = byte(v >> (8 * i))
	}
	return b
}
