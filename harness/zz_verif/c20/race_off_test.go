//go:build verif && !race

package c20

const raceBuild = false
