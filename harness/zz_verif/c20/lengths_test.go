//go:build verif

package c20

import (
	"bytes"
	"fmt"
	"strings"
	"testing"

	cpabe "github.com/cloudflare/circl/abe/cpabe/tkn20"
	"github.com/cloudflare/circl/zz_verif/ref/abe"
	"github.com/cloudflare/circl/zz_verif/vlib"
)

// Length-field boundaries. The ciphertext formats carry little-endian length
// prefixes: the legacy layout u16 for id, MAC data, header, envelope and tag;
// the current layout u32 for MAC data, header and envelope and u16 for id,
// tag, the policy inside the header, every matrix, every wire label / value.
// Every quantity that such a field holds is driven to 2^15 and 2^16 (where the
// format allows it) and to the format's maximum, ±1, in both layouts, and each
// ciphertext goes through Decrypt / CouldDecrypt / ExtractFromCiphertext with
// a satisfying and a non-satisfying key.

type lenPoint struct {
	name string
	n    int // message length
}

// messagePoints lists the message lengths for a policy whose header has c1 bytes.
func messagePoints(c1 int) []lenPoint {
	var pts []lenPoint
	add := func(name string, n int) {
		if n >= 0 {
			pts = append(pts, lenPoint{name, n})
		}
	}
	add("empty", 0)
	for k := -1; k <= 1; k++ {
		add(fmt.Sprintf("envelope=2^15%+d", k), 1<<15+k-72)
		add(fmt.Sprintf("legacy-macdata=2^15%+d", k), 1<<15+k-72-4-c1)
		add(fmt.Sprintf("current-macdata=2^15%+d", k), 1<<15+k-72-8-c1)
		add(fmt.Sprintf("envelope=2^16%+d", k), 1<<16+k-72)
		add(fmt.Sprintf("current-macdata=2^16%+d", k), 1<<16+k-72-8-c1)
	}
	add("legacy-macdata=2^16-2", 1<<16-2-72-4-c1)
	add("legacy-macdata=2^16-1(maximum of the legacy layout)", 1<<16-1-72-4-c1)
	add("legacy-macdata=2^16(does not fit the legacy layout)", 1<<16-72-4-c1)
	add("message=2^15", 1<<15)
	add("message=2^16", 1<<16)
	add("message=70000", 70000)
	return pts
}

var lengthPolicies = []string{"a:1", "not a:1", "a:0 and not b:1", "a:0 or b:1", "not (a:0 and b:1) or c:2", "(a:2 or b:2) and not not c:0"}

// verdictsOn checks the three entry points on one ciphertext for one key.
func verdictsOn(t *testing.T, sub, format, what string, ct []byte, key *cpabe.AttributeKey, attrs *cpabe.Attributes, attrsText string, want bool, msg []byte, refTT []bool, replay map[string]interface{}) bool {
	vlib.Eval(sub)
	ctx := fmt.Sprintf("%s; layout=%s; ciphertext %d bytes, message %d bytes; attributes %s", what, format, len(ct), len(msg), attrsText)
	if got := attrs.CouldDecrypt(ct); got != want {
		vlib.ReportDirect(t, "C20/could-decrypt-"+format+"/"+verdictKey(want), fmt.Sprintf("CouldDecrypt=%v, reference=%v; %s", got, want, ctx), replay)
		return false
	}
	pt, err := key.Decrypt(ct)
	if err == nil && !bytes.Equal(pt, msg) {
		vlib.ReportDirect(t, "C20/decrypt-"+format+"/wrong-message", fmt.Sprintf("Decrypt returned %d bytes %s; %s", len(pt), vlib.Hex(pt), ctx), replay)
		return false
	}
	if (err == nil) != want {
		vlib.ReportDirect(t, "C20/decrypt-"+format+"/"+verdictKey(want), fmt.Sprintf("Decrypt err=%v, reference verdict=%v; %s", err, want, ctx), replay)
		return false
	}
	if refTT != nil {
		var px cpabe.Policy
		if err := px.ExtractFromCiphertext(ct); err != nil {
			vlib.ReportDirect(t, "C20/extract-"+format+"/error", fmt.Sprintf("ExtractFromCiphertext error %v; %s", err, ctx), replay)
			return false
		}
		if i := firstDiff(truthTableOf(&px, 0), refTT); i >= 0 {
			vlib.ReportDirect(t, "C20/extract-"+format+"/inequivalent", fmt.Sprintf("extracted policy differs at attributes %s; %s", allAssign[i].Text(), ctx), replay)
			return false
		}
	}
	vlib.Class(sub, fmt.Sprintf("%s:verdict=%v", format, want))
	return true
}

func TestC20Lengths(t *testing.T) {
	defer vlib.Done()
	const sub = "lengths/message"
	e := envOrFail(t)
	if e == nil {
		return
	}
	whole := make([]byte, 70000)
	vlib.ExpandInto(whole, mix(uint64(vlib.Seed), 0x1e9))
	// every shard handles the points i ≡ shard (mod nshards); the policy rotates with seed and point
	for pi := 0; ; pi++ {
		src := lengthPolicies[(vlib.Seed+pi)%len(lengthPolicies)]
		F, err := abe.Parse(src)
		if err != nil {
			t.Fatalf("SELFTEST-FAIL %v", err)
		}
		var p cpabe.Policy
		if err := p.FromString(src); err != nil {
			vlib.ReportDirect(t, "C20/parse/rejects-valid-policy", err.Error(), map[string]interface{}{"policy": src})
			return
		}
		// header size of this policy (it does not depend on the message)
		probe, err := e.pk.Encrypt(vlib.NewReader(1), p, nil)
		if err != nil {
			vlib.ReportDirect(t, "C20/encrypt/error", err.Error(), map[string]interface{}{"policy": src})
			return
		}
		pp, err := parseCT(probe)
		if err != nil {
			vlib.Note("C20: lengths sub-check cannot parse the ciphertext layout")
			return
		}
		pts := messagePoints(len(pp.c1))
		if pi >= len(pts) {
			break
		}
		if pi%vlib.NShards != vlib.Shard {
			continue
		}
		pt := pts[pi]
		tt := abe.TruthTable(F, alphabet)
		// a satisfying and a non-satisfying assignment, rotating with the point
		sat, unsat := -1, -1
		for k := 0; k < len(tt); k++ {
			i := (k + 37*pi + 11*vlib.Seed) % len(tt)
			if tt[i] && sat < 0 {
				sat = i
			}
			if !tt[i] && unsat < 0 {
				unsat = i
			}
		}
		msg := whole[:pt.n]
		encSeed := mix(uint64(vlib.Seed), 0x1e9a, uint64(pi))
		ct, err := e.pk.Encrypt(vlib.NewReader(encSeed), p, msg)
		if err != nil {
			vlib.ReportDirect(t, "C20/encrypt/error", fmt.Sprintf("Encrypt of a %d-byte message under %q: %v", pt.n, src, err), map[string]interface{}{"policy": src, "n": pt.n})
			return
		}
		layouts := []struct {
			name string
			ct   []byte
		}{{"current", ct}}
		legacy, why := transcode(ct, encSeed)
		if legacy != nil {
			layouts = append(layouts, struct {
				name string
				ct   []byte
			}{"legacy", legacy})
			vlib.Class(sub, "legacy-built:"+pt.name)
		} else {
			vlib.Class(sub, "legacy-unavailable("+why+"):"+pt.name)
		}
		for _, lay := range layouts {
			for _, idx := range []int{sat, unsat} {
				if idx < 0 {
					continue
				}
				ke := e.keyFor(idx)
				if ke.err != nil || ke.problem != "" {
					continue
				}
				rp := map[string]interface{}{"policy": src, "point": pt.name, "n": pt.n, "layout": lay.name, "attrs": allAssign[idx].Text()}
				if !verdictsOn(t, sub, lay.name, fmt.Sprintf("length point %q, policy %q", pt.name, src), lay.ct, &ke.k, &allAttrs[idx], allAssign[idx].Text(), tt[idx], msg, tt, rp) {
					return
				}
				vlib.NonTrivial(sub, "point:"+pt.name, []byte(pt.name), []byte(lay.name), []byte(src), []byte{byte(idx)})
			}
		}
		vlib.Sample(sub, pt.name, fmt.Sprintf("policy %q, message %d bytes, current ciphertext %d bytes, legacy %d bytes", src, pt.n, len(ct), len(legacy)))
	}
}

// TestC20LongNames: labels and values long enough to push the u16 fields of
// the wire record, of the policy inside the header, and (legacy layout) of the
// header and MAC data across 2^15 and up to the maximum the format can hold.
func TestC20LongNames(t *testing.T) {
	defer vlib.Done()
	const sub = "lengths/names"
	e := envOrFail(t)
	if e == nil {
		return
	}
	// serialised single-leaf policy = 47 + len(label) + len(value) bytes, it must fit a u16
	const maxLV = 1<<16 - 1 - 47
	type np struct {
		name    string
		l, v    int
		negated bool
		two     bool // a second leaf with another long label
	}
	pts := []np{
		{"label=2^15-1", 1<<15 - 1, 1, false, false},
		{"label=2^15", 1 << 15, 1, true, false},
		{"label=2^15+1", 1<<15 + 1, 2, false, false},
		{"value=2^15-1", 1, 1<<15 - 1, true, false},
		{"value=2^15", 2, 1 << 15, false, false},
		{"value=2^15+1", 1, 1<<15 + 1, false, false},
		{"policy=2^15-1", 1<<15 - 1 - 47 - 3, 3, false, false},
		{"policy=2^15", 1<<15 - 47 - 3, 3, true, false},
		{"policy=2^15+1", 1<<15 + 1 - 47 - 3, 3, false, false},
		{"policy=2^16-1(maximum),long-label", maxLV - 1, 1, false, false},
		{"policy=2^16-1(maximum),long-value", 1, maxLV - 1, true, false},
		{"policy=2^16-1(maximum),both-long", maxLV / 2, maxLV - maxLV/2, false, false},
		{"policy=2^16-2", maxLV - 2, 1, false, false},
		{"two-long-labels", 20000, 5, false, true},
		// header (C1) length = 2^15+k: label length solved from a probe ciphertext (l < 0 marks it, v = k+1)
		{"header=2^15-1", -1, 0, false, false},
		{"header=2^15", -1, 1, true, false},
		{"header=2^15+1", -1, 2, false, false},
	}
	name := func(prefix string, n int) string {
		if n <= len(prefix) {
			return prefix[:n]
		}
		return prefix + strings.Repeat("x", n-len(prefix)-1) + "9"
	}
	for pi, pt := range pts {
		if pi%vlib.NShards != vlib.Shard {
			continue
		}
		if pt.l < 0 {
			k := pt.v - 1
			pt.v = 1
			probeSrc := name("L", 100) + ":" + name("v", 1)
			if pt.negated {
				probeSrc = "not " + probeSrc
			}
			var pp cpabe.Policy
			if err := pp.FromString(probeSrc); err != nil {
				vlib.ReportDirect(t, "C20/parse/rejects-valid-policy", err.Error(), map[string]interface{}{"point": pt.name})
				return
			}
			pct, err := e.pk.Encrypt(vlib.NewReader(2), pp, nil)
			if err != nil {
				vlib.ReportDirect(t, "C20/encrypt/error", err.Error(), map[string]interface{}{"point": pt.name})
				return
			}
			parts, err := parseCT(pct)
			if err != nil {
				vlib.Note("C20: long-names sub-check cannot parse the ciphertext layout")
				continue
			}
			pt.l = 100 + (1<<15 + k - len(parts.c1))
		}
		label, value := name("L", pt.l), name("v", pt.v)
		leaf := label + ":" + value
		src := leaf
		if pt.negated {
			src = "not " + leaf
		}
		other := "o"
		if pt.two {
			other = name("M", pt.l)
			src = "(" + src + ") and " + other + ":1"
		}
		F, err := abe.Parse(src)
		if err != nil {
			t.Fatalf("SELFTEST-FAIL %v", err)
		}
		short := fmt.Sprintf("%s (label %d bytes, value %d bytes, negated=%v)", pt.name, len(label), len(value), pt.negated)
		rp := map[string]interface{}{"point": pt.name}
		var p cpabe.Policy
		if err := p.FromString(src); err != nil {
			vlib.ReportDirect(t, "C20/parse/rejects-valid-policy", fmt.Sprintf("FromString error %v on %s", err, short), rp)
			return
		}
		sets := []abe.Assignment{
			{label: value, other: "1"},
			{label: value + "0", other: "1"},
			{label: value},
			{other: "1"},
			{name("L", pt.l-1) + "8": value, other: "1"},
		}
		// print / parse with long names
		vlib.Eval(sub)
		var p2 cpabe.Policy
		if err := p2.FromString(p.String()); err != nil {
			vlib.ReportDirect(t, "C20/print-parse/rejected", fmt.Sprintf("FromString(String()) error %v on %s", err, short), rp)
			return
		}
		msg := []byte("long names " + pt.name)
		encSeed := mix(uint64(vlib.Seed), 0x10a6, uint64(pi))
		ct, err := e.pk.Encrypt(vlib.NewReader(encSeed), p, msg)
		if err != nil {
			vlib.ReportDirect(t, "C20/encrypt/error", fmt.Sprintf("Encrypt error %v on %s", err, short), rp)
			return
		}
		layouts := []struct {
			name string
			ct   []byte
		}{{"current", ct}}
		if legacy, why := transcode(ct, encSeed); legacy != nil {
			layouts = append(layouts, struct {
				name string
				ct   []byte
			}{"legacy", legacy})
			vlib.Class(sub, "legacy-built:"+pt.name)
		} else {
			vlib.Class(sub, "legacy-unavailable("+why+"):"+pt.name)
		}
		for si, a := range sets {
			if si >= 2 && (si+pi)%3 != 0 { // the first two sets always, the others in rotation
				continue
			}
			want := abe.Eval(F, a)
			at := attrsOf(a)
			if got := p.Satisfaction(at); got != want {
				vlib.ReportDirect(t, "C20/satisfaction/"+verdictKey(want), fmt.Sprintf("Satisfaction=%v, reference=%v; %s, attribute set #%d", got, want, short, si), rp)
				return
			}
			if got := p2.Satisfaction(at); got != want {
				vlib.ReportDirect(t, "C20/print-parse/inequivalent", fmt.Sprintf("re-parsed printed policy: Satisfaction=%v, reference=%v; %s, attribute set #%d", got, want, short, si), rp)
				return
			}
			key, err := e.msk.KeyGen(vlib.NewReader(mix(uint64(vlib.Seed), 0x10a7, uint64(pi), uint64(si))), at)
			if err != nil {
				vlib.ReportDirect(t, "C20/keygen/error", fmt.Sprintf("KeyGen error %v; %s, attribute set #%d", err, short, si), rp)
				return
			}
			// the key survives marshal/unmarshal with long labels — as far as its format can hold them:
			// the attribute block (u16 length) is 2 + sum(2+len(label)+33) including the 39-byte Boneh-Katz label
			block := 2 + 2 + 39 + 33
			for l := range a {
				block += 2 + len(l) + 33
			}
			k2 := key
			if block <= 0xffff {
				kb, err := key.MarshalBinary()
				k2 = cpabe.AttributeKey{}
				if err == nil {
					err = k2.UnmarshalBinary(kb)
				}
				if err != nil || !k2.Equal(&key) {
					vlib.ReportDirect(t, "C20/marshal/AttributeKey", fmt.Sprintf("attribute key with long labels does not survive marshal/unmarshal (err %v, encoding %d bytes); %s, attribute set #%d", err, len(kb), short, si), rp)
					return
				}
				vlib.Class(sub, "key-marshal-roundtrip")
			} else {
				vlib.Class(sub, "key-attribute-block-exceeds-u16(round trip not asserted: outside the key format)")
			}
			for li, lay := range layouts {
				k := &key
				if (li+si)%2 == 1 {
					k = &k2
				}
				if !verdictsOn(t, sub, lay.name, "long names: "+short+fmt.Sprintf(", attribute set #%d", si), lay.ct, k, &at, fmt.Sprintf("set #%d (%d labels)", si, len(a)), want, msg, nil, rp) {
					return
				}
				var px cpabe.Policy
				if err := px.ExtractFromCiphertext(lay.ct); err != nil || px.Satisfaction(at) != want {
					vlib.ReportDirect(t, "C20/extract-"+lay.name+"/inequivalent", fmt.Sprintf("policy extracted from the ciphertext: err %v, verdict differs from reference %v; %s", err, want, short), rp)
					return
				}
				vlib.NonTrivial(sub, "point:"+pt.name, []byte(pt.name), []byte(lay.name), []byte{byte(si)})
			}
		}
		hdr := 0
		if parts, err := parseCT(ct); err == nil {
			hdr = len(parts.c1)
		}
		vlib.Sample(sub, pt.name, fmt.Sprintf("%s: current ciphertext %d bytes, header %d bytes, layouts %d", short, len(ct), hdr, len(layouts)))
		vlib.Class(sub, fmt.Sprintf("header-bytes>=2^15:%v", hdr >= 1<<15))
	}
}
