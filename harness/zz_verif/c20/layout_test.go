//go:build verif

package c20

import (
	"encoding/binary"
	"errors"

	"golang.org/x/crypto/blake2b"
)

// Byte layout of a tkn20 ciphertext, written from the package documentation
// ("As of v1.3.8, ciphertext format changed to use wider prefixes") and the
// golden files in abe/cpabe/tkn20/testdata:
//
//	current:  "v1.3.8" ‖ u16(id) id ‖ u32(macData) macData ‖ u16(tag) tag,   macData = u32(C1) C1 ‖ u32(env) env
//	legacy:               u16(id) id ‖ u16(macData) macData ‖ u16(tag) tag,   macData = u16(C1) C1 ‖ u16(env) env
//
// (all lengths little-endian). id and the MAC key are two BLAKE2b-256 hashes
// of the 72-byte Boneh–Katz seed, which is the first thing Encrypt reads from
// its random source; tag = BLAKE2b-256-MAC(macKey, macData).
const versionPrefix = "v1.3.8"

type ctParts struct {
	legacy           bool
	id, c1, env, tag []byte
	trailing         int
}

var errLayout = errors.New("ciphertext does not follow the documented layout")

func cut(b []byte, w int) (item, rest []byte, ok bool) {
	if len(b) < w {
		return nil, nil, false
	}
	var n int
	if w == 2 {
		n = int(binary.LittleEndian.Uint16(b))
	} else {
		n = int(binary.LittleEndian.Uint32(b))
	}
	if n > len(b)-w {
		return nil, nil, false
	}
	return b[w : w+n], b[w+n:], true
}

func put(dst []byte, w int, item []byte) []byte {
	if w == 2 {
		dst = binary.LittleEndian.AppendUint16(dst, uint16(len(item)))
	} else {
		dst = binary.LittleEndian.AppendUint32(dst, uint32(len(item)))
	}
	return append(dst, item...)
}

func parseCT(ct []byte) (*ctParts, error) {
	p := &ctParts{}
	w := 2
	rest := ct
	if len(ct) >= len(versionPrefix) && string(ct[:len(versionPrefix)]) == versionPrefix {
		w = 4
		rest = ct[len(versionPrefix):]
	} else {
		p.legacy = true
	}
	var ok bool
	var mac []byte
	if p.id, rest, ok = cut(rest, 2); !ok {
		return nil, errLayout
	}
	if mac, rest, ok = cut(rest, w); !ok {
		return nil, errLayout
	}
	if p.tag, rest, ok = cut(rest, 2); !ok {
		return nil, errLayout
	}
	p.trailing = len(rest)
	if p.c1, mac, ok = cut(mac, w); !ok {
		return nil, errLayout
	}
	if p.env, mac, ok = cut(mac, w); !ok {
		return nil, errLayout
	}
	if len(mac) != 0 || len(p.id) != 32 || len(p.tag) != 32 {
		return nil, errLayout
	}
	return p, nil
}

func (p *ctParts) macData(legacy bool) []byte {
	w := 4
	if legacy {
		w = 2
	}
	return put(put(nil, w, p.c1), w, p.env)
}

func (p *ctParts) fitsLegacy() bool {
	return len(p.c1) <= 0xffff && len(p.env) <= 0xffff && len(p.c1)+len(p.env)+4 <= 0xffff
}

// build assembles the ciphertext in the requested layout with the given tag.
func (p *ctParts) build(legacy bool, tag []byte) []byte {
	var out []byte
	w := 4
	if legacy {
		w = 2
	} else {
		out = append(out, versionPrefix...)
	}
	out = put(out, 2, p.id)
	out = put(out, w, p.macData(legacy))
	return put(out, 2, tag)
}

// bkExpand derives (id, macKey) from the Boneh–Katz seed.
func bkExpand(seed []byte) (id, macKey []byte) {
	h1, _ := blake2b.New256(nil)
	h1.Write([]byte("id computation hash"))
	h1.Write(seed)
	h2, _ := blake2b.New256(nil)
	h2.Write([]byte("key computation hash"))
	h2.Write(seed)
	return h1.Sum(nil), h2.Sum(nil)
}

func bkTag(macKey, macData []byte) []byte {
	m, _ := blake2b.New256(macKey)
	m.Write(macData)
	return m.Sum(nil)
}

type region struct {
	name     string
	from, to int // byte offsets [from,to)
}

// regions splits a well-formed ciphertext into named byte ranges (used to
// stratify the bit alterations).
func regions(ct []byte) []region {
	p, err := parseCT(ct)
	if err != nil {
		return []region{{"all", 0, len(ct)}}
	}
	var r []region
	off := 0
	w := 4
	add := func(name string, n int) {
		if n > 0 {
			r = append(r, region{name, off, off + n})
		}
		off += n
	}
	if p.legacy {
		w = 2
	} else {
		add("version", len(versionPrefix))
	}
	add("id-len", 2)
	add("id", len(p.id))
	add("macdata-len", w)
	add("header-len", w)
	// header = u16(policy) policy ‖ rest
	plen := 0
	if len(p.c1) >= 2 {
		plen = int(binary.LittleEndian.Uint16(p.c1))
		if plen+2 > len(p.c1) {
			plen = len(p.c1) - 2
		}
		add("policy-len", 2)
		add("policy", plen)
		add("header-group-elements", len(p.c1)-2-plen)
	} else {
		add("header", len(p.c1))
	}
	add("env-len", w)
	if len(p.env) >= 72 {
		add("env-seed", 72)
		add("env-msg", len(p.env)-72)
	} else {
		add("env", len(p.env))
	}
	add("tag-len", 2)
	add("tag", len(p.tag))
	add("trailing", p.trailing)
	return r
}

func regionOf(rs []region, byteOff int) string {
	for _, r := range rs {
		if byteOff >= r.from && byteOff < r.to {
			return r.name
		}
	}
	return "?"
}

// envStart is the first byte that the header-only entry points
// (CouldDecrypt, ExtractFromCiphertext) never look at.
func envStart(rs []region) int {
	for _, r := range rs {
		if r.name == "env-len" {
			return r.from
		}
	}
	return 1 << 30
}
