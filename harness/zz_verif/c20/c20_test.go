//go:build verif

// C20 — CP-ABE (tkn20): decryption succeeds exactly when the attributes satisfy the policy.
//
// Black-box over abe/cpabe/tkn20. The oracle is the reference evaluator
// zz_verif/ref/abe (no circl imports). Sub-checks:
//
//	predicates/*   FromString + Satisfaction on every one of the 256 assignments of the
//	               alphabet {a,b,c,d}×{absent,0,1,2} per generated formula; String()→ref parser
//	               and String()→FromString equivalence; extra attributes are harmless
//	cycle/*        Setup once, then Encrypt / KeyGen / Decrypt / CouldDecrypt /
//	               ExtractFromCiphertext on a stratified choice of assignments (always both
//	               verdicts when both exist), in the current and in the legacy ciphertext
//	               layout (transcoded with the known Boneh–Katz seed), plus bit alterations
//	marshal        PublicKey / SystemSecretKey / AttributeKey marshal round trips
//	golden         the repository's golden files (current + v1.3.7 ciphertext)
//	soup           token soup: whatever FromString accepts must print/parse to an equivalent policy
package c20

import (
	"bytes"
	"crypto/sha256"
	"encoding/hex"
	"fmt"
	"strings"
	"sync"
	"testing"

	cpabe "github.com/cloudflare/circl/abe/cpabe/tkn20"
	"github.com/cloudflare/circl/zz_verif/ref/abe"
	"github.com/cloudflare/circl/zz_verif/vlib"
	"pgregory.net/rapid"
)

var (
	allAssign []abe.Assignment
	allAttrs  []cpabe.Attributes
)

func init() {
	for i := 0; i < alphabet.Size(); i++ {
		a := alphabet.At(i)
		allAssign = append(allAssign, a)
		allAttrs = append(allAttrs, attrsOf(a))
	}
}

func attrsOf(a abe.Assignment) cpabe.Attributes {
	m := make(map[string]string, len(a))
	for k, v := range a {
		m[k] = v
	}
	var at cpabe.Attributes
	at.FromMap(m)
	return at
}

var msgLens = []int{0, 1, 31, 32, 33, 1000}

func mix(parts ...uint64) uint64 {
	b := make([]byte, 0, 8*len(parts))
	for _, p := range parts {
		for i := 0; i < 8; i++ {
			b = append(b, byte(p>>(8*i)))
		}
	}
	h := sha256.Sum256(b)
	var v uint64
	for i := 0; i < 8; i++ {
		v |= uint64(h[i]) << (8 * i)
	}
	return v
}

// ---------------------------------------------------------------------------
// formula classes

func featureClasses(F *abe.Node) []string {
	var c []string
	c = append(c, fmt.Sprintf("leaves=%d", F.Leaves()), fmt.Sprintf("depth=%d", F.Depth()))
	if F.Nots() > 0 {
		c = append(c, "has-not")
	} else {
		c = append(c, "no-not")
	}
	if F.NotOverGate() {
		c = append(c, "not-over-gate")
	}
	if F.DoubleNot() {
		c = append(c, "nested-not")
	}
	if doubleNotOverGate(F) {
		c = append(c, "nested-not-over-gate")
	}
	if F.RepeatedLabel() {
		c = append(c, "repeated-label")
		pol, val := repeatedKinds(F)
		if pol {
			c = append(c, "repeated-label-mixed-polarity")
		}
		if val {
			c = append(c, "repeated-label-different-values")
		}
	}
	if F.Kind == abe.Leaf {
		c = append(c, "single-leaf")
	}
	return c
}

func doubleNotOverGate(n *abe.Node) bool {
	switch n.Kind {
	case abe.Leaf:
		return false
	case abe.Not:
		k := 1
		x := n.L
		for x.Kind == abe.Not {
			k++
			x = x.L
		}
		if k >= 2 && x.Kind != abe.Leaf {
			return true
		}
		return doubleNotOverGate(x)
	}
	return doubleNotOverGate(n.L) || doubleNotOverGate(n.R)
}

func repeatedKinds(F *abe.Node) (mixedPolarity, differentValues bool) {
	ls := abe.NNF(F).SignedLeaves()
	for i := range ls {
		for j := i + 1; j < len(ls); j++ {
			if ls[i].Label == ls[j].Label {
				if ls[i].Positive != ls[j].Positive {
					mixedPolarity = true
				}
				if ls[i].Value != ls[j].Value {
					differentValues = true
				}
			}
		}
	}
	return
}

// nonTrivialPair is the DESIGN rule: the formula has a negation or a repeated
// label, and the assignment misses a label the formula mentions or makes the
// verdict false.
func nonTrivialPair(F *abe.Node, hard bool, labels map[string]int, a abe.Assignment, verdict bool) bool {
	if !hard {
		return false
	}
	if !verdict {
		return true
	}
	for l := range labels {
		if _, ok := a[l]; !ok {
			return true
		}
	}
	return false
}

func describe(F *abe.Node, src string) string {
	return fmt.Sprintf("formula %s | policy text %q | negation normal form %s", F.Canon(), src, abe.NNF(F).String())
}

// drawCase draws a formula and one textual form, and self-checks the renderer
// against the reference parser.
func drawCase(t *rapid.T) (*abe.Node, string, renderStats) {
	F := genFormula(t)
	src, st := render(t, F)
	back, err := abe.Parse(src)
	if err != nil || !back.Equal(F) {
		t.Fatalf("SELFTEST-FAIL renderer/reference parser disagree: %q parses to %v (err %v), want %s", src, back, err, F.Canon())
	}
	if F.Leaves() > maxLeaves || F.Depth() > maxDepth {
		t.Fatalf("SELFTEST-FAIL generator out of bounds: %s", F.Canon())
	}
	return F, src, st
}

func truthTableOf(p *cpabe.Policy, from int) []bool {
	n := len(allAttrs)
	tt := make([]bool, n)
	for k := 0; k < n; k++ {
		i := (from + k) % n
		tt[i] = p.Satisfaction(allAttrs[i])
	}
	return tt
}

func firstDiff(a, b []bool) int {
	for i := range a {
		if a[i] != b[i] {
			return i
		}
	}
	return -1
}

func verdictKey(want bool) string {
	if want {
		return "rejects-satisfying"
	}
	return "accepts-unsatisfying"
}

// ---------------------------------------------------------------------------
// predicates

func TestC20Predicates(t *testing.T) {
	defer vlib.Done()
	const sub = "predicates/satisfaction"
	vlib.Check(t, vlib.N(2500, 8000), func(t *rapid.T) {
		F, src, st := drawCase(t)
		tt := abe.TruthTable(F, alphabet)
		// the two reference evaluators agree (cheap continuous self-test)
		nn := abe.NNF(F)
		for i, a := range allAssign {
			if abe.EvalNNF(nn, a) != tt[i] {
				t.Fatalf("SELFTEST-FAIL reference evaluators disagree on %s at %s", F.Canon(), a.Text())
			}
		}
		var p cpabe.Policy
		if err := p.FromString(src); err != nil {
			vlib.Eval(sub)
			vlib.Report(t, "C20/parse/rejects-valid-policy", fmt.Sprintf("FromString error %v on %s", err, describe(F, src)))
			return
		}
		printedFresh := p.String()
		start := rapid.IntRange(0, len(allAttrs)-1).Draw(t, "start")
		got := truthTableOf(&p, start)
		vlib.EvalN(sub, int64(len(tt)))
		if i := firstDiff(got, tt); i >= 0 {
			vlib.Report(t, "C20/satisfaction/"+verdictKey(tt[i]), fmt.Sprintf("attributes %s: Satisfaction=%v, reference=%v; %s", allAssign[i].Text(), got[i], tt[i], describe(F, src)))
			return
		}
		// evidence
		for _, c := range featureClasses(F) {
			vlib.Class(sub, "formula:"+c)
		}
		if st.redundantParens > 0 {
			vlib.Class(sub, "text:redundant-parentheses")
		}
		if st.droppedParens > 0 {
			vlib.Class(sub, "text:parentheses-left-to-precedence")
		}
		if st.oddBlanks {
			vlib.Class(sub, "text:tabs-newlines")
		}
		hard := F.Nots() > 0 || F.RepeatedLabel()
		labels := F.Labels()
		canon := []byte(F.Canon())
		nTrue := 0
		for i, v := range tt {
			if v {
				nTrue++
			}
			if nonTrivialPair(F, hard, labels, allAssign[i], v) {
				cls := "nontrivial:verdict-false"
				if v {
					cls = "nontrivial:verdict-true-with-missing-label"
				}
				vlib.NonTrivial(sub, cls, canon, []byte{byte(i)})
			}
		}
		vlib.ClassN(sub, "pair:verdict-true", int64(nTrue))
		vlib.ClassN(sub, "pair:verdict-false", int64(len(tt)-nTrue))
		if nTrue == 0 {
			vlib.Class(sub, "formula:unsatisfiable")
		}
		vlib.Sample(sub, fmt.Sprintf("leaves=%d", F.Leaves()), fmt.Sprintf("%q → %s ; satisfied by %d of 256 assignments", src, abe.NNF(F).String(), nTrue))

		// extra attributes are harmless
		{
			i := rapid.IntRange(0, len(allAssign)-1).Draw(t, "extraBase")
			a := abe.Assignment{}
			for k, v := range allAssign[i] {
				a[k] = v
			}
			a["e"] = rapid.SampledFrom([]string{"0", "1", "zz"}).Draw(t, "extraVal")
			a["internal"] = "1"
			if g := p.Satisfaction(attrsOf(a)); g != tt[i] {
				vlib.Report(t, "C20/satisfaction/extra-attribute-changes-verdict", fmt.Sprintf("attributes %s: Satisfaction=%v, reference=%v; %s", a.Text(), g, tt[i], describe(F, src)))
				return
			}
			vlib.Eval("predicates/extra-attributes")
		}

		// print → parse
		const psub = "predicates/print-parse"
		vlib.Eval(psub)
		for vi, printed := range []string{printedFresh, p.String()} {
			back, err := abe.Parse(printed)
			if err != nil {
				vlib.Report(t, "C20/print/not-in-policy-language", fmt.Sprintf("String()=%q is rejected by the reference parser (%v); %s", printed, err, describe(F, src)))
				return
			}
			if i := firstDiff(abe.TruthTable(back, alphabet), tt); i >= 0 {
				vlib.Report(t, "C20/print/inequivalent", fmt.Sprintf("String()=%q differs from the policy at attributes %s (after Satisfaction calls: %v); %s", printed, allAssign[i].Text(), vi == 1, describe(F, src)))
				return
			}
			var p2 cpabe.Policy
			if err := p2.FromString(printed); err != nil {
				vlib.Report(t, "C20/print-parse/rejected", fmt.Sprintf("FromString(String()) error %v for %q; %s", err, printed, describe(F, src)))
				return
			}
			if i := firstDiff(truthTableOf(&p2, 0), tt); i >= 0 {
				vlib.Report(t, "C20/print-parse/inequivalent", fmt.Sprintf("FromString(String()=%q) differs at attributes %s; %s", printed, allAssign[i].Text(), describe(F, src)))
				return
			}
			if vi == 0 {
				var fresh cpabe.Policy
				_ = fresh.FromString(src)
				var p3 cpabe.Policy
				_ = p3.FromString(printed)
				if fresh.Equal(&p3) {
					vlib.Class(psub, "reparsed-Equal-original")
				} else {
					vlib.Class(psub, "reparsed-not-Equal-original(not asserted)")
				}
			}
		}
		if hard {
			vlib.NonTrivial(psub, "nontrivial:negation-or-repeated-label", canon)
		}
	})
}

// ---------------------------------------------------------------------------
// system keys (Setup once per process) and attribute keys (pure function of the assignment number)

type keyEnt struct {
	k, k2   cpabe.AttributeKey // generated, and unmarshalled from its encoding
	enc     []byte
	err     error
	problem string // marshal round-trip complaint, reported by the user of the key
}

type sysEnv struct {
	pk, pk2   cpabe.PublicKey
	msk, msk2 cpabe.SystemSecretKey
	pkb, mskb []byte
	err       error
	problem   string
	keys      map[int]*keyEnt
	mu        sync.Mutex
}

var (
	envOnce sync.Once
	theEnv  *sysEnv
)

func getEnv() *sysEnv {
	envOnce.Do(func() {
		e := &sysEnv{keys: map[int]*keyEnt{}}
		theEnv = e
		rd := vlib.NewReader(mix(uint64(vlib.Seed), uint64(vlib.Shard), 0x5e7))
		e.pk, e.msk, e.err = cpabe.Setup(rd)
		if e.err != nil {
			return
		}
		var err error
		if e.pkb, err = e.pk.MarshalBinary(); err != nil {
			e.problem = "PublicKey.MarshalBinary: " + err.Error()
			return
		}
		if e.mskb, err = e.msk.MarshalBinary(); err != nil {
			e.problem = "SystemSecretKey.MarshalBinary: " + err.Error()
			return
		}
		if err = e.pk2.UnmarshalBinary(e.pkb); err != nil {
			e.problem = "PublicKey.UnmarshalBinary of its own encoding: " + err.Error()
			return
		}
		if err = e.msk2.UnmarshalBinary(e.mskb); err != nil {
			e.problem = "SystemSecretKey.UnmarshalBinary of its own encoding: " + err.Error()
			return
		}
	})
	return theEnv
}

func (e *sysEnv) keyFor(idx int) *keyEnt {
	e.mu.Lock()
	defer e.mu.Unlock()
	if k := e.keys[idx]; k != nil {
		return k
	}
	k := &keyEnt{}
	e.keys[idx] = k
	rd := vlib.NewReader(mix(uint64(vlib.Seed), uint64(vlib.Shard), 0x6b, uint64(idx)))
	msk := &e.msk
	if idx%2 == 1 {
		msk = &e.msk2 // every other key is issued by the unmarshalled system key
	}
	k.k, k.err = msk.KeyGen(rd, allAttrs[idx])
	if k.err != nil {
		return k
	}
	var err error
	if k.enc, err = k.k.MarshalBinary(); err != nil {
		k.problem = "AttributeKey.MarshalBinary: " + err.Error()
		k.k2 = k.k
		return k
	}
	if err = k.k2.UnmarshalBinary(k.enc); err != nil {
		k.problem = "AttributeKey.UnmarshalBinary of its own encoding: " + err.Error()
		k.k2 = k.k
		return k
	}
	if !k.k.Equal(&k.k2) || !k.k2.Equal(&k.k) {
		k.problem = "unmarshalled AttributeKey is not Equal to the original"
	} else if b, err := k.k2.MarshalBinary(); err != nil || !bytes.Equal(b, k.enc) {
		k.problem = "re-marshalled AttributeKey differs"
	}
	return k
}

func envOrFail(t vlib.TB) *sysEnv {
	e := getEnv()
	if e.err != nil {
		vlib.Report(t, "C20/setup/error", "Setup with a deterministic reader failed: "+e.err.Error())
		return nil
	}
	if e.problem != "" {
		vlib.Report(t, "C20/marshal/system-keys", e.problem)
		return nil
	}
	return e
}

// ---------------------------------------------------------------------------
// marshal round trips of the keys

func TestC20Marshal(t *testing.T) {
	defer vlib.Done()
	const sub = "marshal"
	e := envOrFail(t)
	if e == nil {
		return
	}
	vlib.Eval(sub)
	if !e.pk.Equal(&e.pk2) || !e.pk2.Equal(&e.pk) {
		vlib.ReportDirect(t, "C20/marshal/PublicKey/Equal", "unmarshalled PublicKey not Equal to the original", map[string]interface{}{"pk": hex.EncodeToString(e.pkb)})
		return
	}
	if !e.msk.Equal(&e.msk2) || !e.msk2.Equal(&e.msk) {
		vlib.ReportDirect(t, "C20/marshal/SystemSecretKey/Equal", "unmarshalled SystemSecretKey not Equal to the original", map[string]interface{}{})
		return
	}
	b1, err1 := e.pk2.MarshalBinary()
	b2, err2 := e.msk2.MarshalBinary()
	if err1 != nil || err2 != nil || !bytes.Equal(b1, e.pkb) || !bytes.Equal(b2, e.mskb) {
		vlib.ReportDirect(t, "C20/marshal/system-keys/bytes", "re-marshalled system keys differ", map[string]interface{}{})
		return
	}
	vlib.NonTrivial(sub, "system-keys-roundtrip", e.pkb)
	// a second, independent Setup must not be Equal (Equal is not constant true)
	pkO, mskO, err := cpabe.Setup(vlib.NewReader(mix(uint64(vlib.Seed), uint64(vlib.Shard), 0x0dd)))
	if err == nil {
		if pkO.Equal(&e.pk) || mskO.Equal(&e.msk) {
			vlib.ReportDirect(t, "C20/marshal/Equal-is-trivial", "keys of two different Setups compare Equal", map[string]interface{}{})
			return
		}
	}
	// attribute keys: a spread of assignments (absent labels, all labels)
	for _, idx := range []int{0, 1, 2, 7, 85, 170, 255, 27 + 3*vlib.Shard} {
		idx %= len(allAttrs)
		vlib.Eval(sub)
		k := e.keyFor(idx)
		if k.err != nil {
			vlib.ReportDirect(t, "C20/keygen/error", fmt.Sprintf("KeyGen for %s: %v", allAssign[idx].Text(), k.err), map[string]interface{}{"attrs": allAssign[idx].Text()})
			return
		}
		if k.problem != "" {
			vlib.ReportDirect(t, "C20/marshal/AttributeKey", fmt.Sprintf("%s (attributes %s)", k.problem, allAssign[idx].Text()), map[string]interface{}{"attrs": allAssign[idx].Text(), "key": hex.EncodeToString(k.enc)})
			return
		}
		vlib.NonTrivial(sub, "attribute-key-roundtrip", k.enc)
	}
	kA, kB := e.keyFor(1), e.keyFor(2)
	if kA.err == nil && kB.err == nil && kA.k.Equal(&kB.k) {
		vlib.ReportDirect(t, "C20/marshal/Equal-is-trivial", "attribute keys for different attributes compare Equal", map[string]interface{}{})
	}
}

// ---------------------------------------------------------------------------
// full cycle

type cycleCtx struct {
	F      *abe.Node
	src    string
	tt     []bool
	msg    []byte
	hard   bool
	labels map[string]int
}

// checkDecrypt runs the three verdict oracles of one (ciphertext, assignment) pair.
func checkDecrypt(t vlib.TB, e *sysEnv, c *cycleCtx, ct []byte, format string, idx int, useUnmarshalled bool) bool {
	sub := "cycle/decrypt-" + format
	want := c.tt[idx]
	a := allAssign[idx]
	ke := e.keyFor(idx)
	if ke.err != nil {
		vlib.Report(t, "C20/keygen/error", fmt.Sprintf("KeyGen for %s: %v", a.Text(), ke.err))
		return false
	}
	if ke.problem != "" {
		vlib.Report(t, "C20/marshal/AttributeKey", fmt.Sprintf("%s (attributes %s)", ke.problem, a.Text()))
		return false
	}
	key := &ke.k
	if useUnmarshalled {
		key = &ke.k2
	}
	vlib.Eval(sub)
	ctx := func() string {
		return fmt.Sprintf("layout=%s attributes %s message length %d; %s", format, a.Text(), len(c.msg), describe(c.F, c.src))
	}
	if got := allAttrs[idx].CouldDecrypt(ct); got != want {
		vlib.Report(t, "C20/could-decrypt-"+format+"/"+verdictKey(want), fmt.Sprintf("CouldDecrypt=%v, reference=%v; %s", got, want, ctx()))
		return false
	}
	pt, err := key.Decrypt(ct)
	if err == nil && !bytes.Equal(pt, c.msg) {
		vlib.Report(t, "C20/decrypt-"+format+"/wrong-message", fmt.Sprintf("Decrypt returned %s, message was %s; %s", vlib.Hex(pt), vlib.Hex(c.msg), ctx()))
		return false
	}
	if (err == nil) != want {
		vlib.Report(t, "C20/decrypt-"+format+"/"+verdictKey(want), fmt.Sprintf("Decrypt err=%v, reference verdict=%v; %s", err, want, ctx()))
		return false
	}
	if err != nil && pt != nil {
		vlib.Class(sub, "error-with-non-nil-plaintext")
	}
	vlib.Class(sub, fmt.Sprintf("verdict=%v", want))
	vlib.Class(sub, fmt.Sprintf("msglen=%d", len(c.msg)))
	if useUnmarshalled {
		vlib.Class(sub, "key=unmarshalled")
	}
	if nonTrivialPair(c.F, c.hard, c.labels, a, want) {
		vlib.NonTrivial(sub, "nontrivial", []byte(c.F.Canon()), []byte{byte(idx)}, []byte(format), []byte{byte(len(c.msg)), byte(len(c.msg) >> 8)})
	}
	return true
}

// topFrame names the innermost circl function on a panic stack.
func topFrame(stack string) string {
	lines := strings.Split(stack, "\n")
	seenPanic := false
	for _, l := range lines {
		if strings.HasPrefix(l, "panic(") {
			seenPanic = true
			continue
		}
		if !seenPanic || strings.HasPrefix(l, "\t") {
			continue
		}
		if i := strings.Index(l, "github.com/cloudflare/circl/"); i >= 0 && !strings.Contains(l, "zz_verif") {
			f := l[i+len("github.com/cloudflare/circl/"):]
			if j := strings.LastIndex(f, "("); j > 0 {
				f = f[:j]
			}
			if k := strings.LastIndex(f, "/"); k >= 0 {
				f = f[k+1:]
			}
			return f
		}
	}
	return "?"
}

const (
	entDecrypt = "Decrypt"
	entCould   = "CouldDecrypt"
	entExtract = "ExtractFromCiphertext"
)

// altCtx is what an alteration needs to know about the honest ciphertext.
type altCtx struct {
	key        *cpabe.AttributeKey
	attrs      *cpabe.Attributes
	attrsText  string
	authorised bool // the key's attributes satisfy the policy of the honest ciphertext
	msg        []byte
	desc       string
	sub        string // evidence sub-check prefix, default "cycle/bitflip-"
	diffKey    string // finding key for "decrypts to another message", default C20/bitflip/different-message
}

// alteration checks one altered ciphertext. single tells whether
// exactly one bit differs from the honest ciphertext.
func alteration(rep func(key, detail string) bool, ac *altCtx, ct, ct2 []byte, format, where, alt string, single, headerTouched bool) bool {
	sub := "cycle/bitflip-" + format
	if ac.sub != "" {
		sub = ac.sub + format
	}
	diffKey := "C20/bitflip/different-message"
	if ac.diffKey != "" {
		diffKey = ac.diffKey
	}
	vlib.Eval(sub)
	var pt []byte
	var err error
	pn, st := vlib.Catch(func() { pt, err = ac.key.Decrypt(ct2) })
	panicked := func(entry string, p interface{}, stack string) bool {
		if single {
			return rep("C20/bitflip-panic/"+entry, fmt.Sprintf("%s panics (%v) on a valid %s ciphertext with one bit altered (%s, region %s); %s\n%s", entry, p, format, alt, where, ac.desc, stack))
		}
		vlib.Class(sub, "panic(not reported: multi-bit alteration, C10's matter):"+entry+":"+vlib.PanicClass(p))
		return true
	}
	if pn != nil {
		vlib.Class(sub, "panic:"+entDecrypt+":"+vlib.PanicClass(pn)+"@"+topFrame(st))
		if !panicked(entDecrypt, pn, st) {
			return false
		}
	} else if err == nil {
		if !bytes.Equal(pt, ac.msg) {
			return rep(diffKey, fmt.Sprintf("altered %s ciphertext (%s, region %s) decrypts to %s instead of %s; attributes %s; %s", format, alt, where, vlib.Hex(pt), vlib.Hex(ac.msg), ac.attrsText, ac.desc))
		}
		if ac.authorised {
			vlib.Class(sub, "altered-ciphertext-decrypts-to-same-message:"+where)
		} else {
			vlib.Class(sub, "UNAUTHORISED-key-decrypts-altered-ciphertext-to-the-message:"+where)
			vlib.Note("C20: an altered ciphertext was decrypted (to the original message) by a key whose attributes do not satisfy the policy — not asserted by the property text, inspect: " + alt + "; " + ac.desc)
		}
	} else {
		vlib.Class(sub, "decrypt=error")
	}
	vlib.Class(sub, "region:"+where)
	if !single {
		vlib.Class(sub, "two-bits")
	}
	if ac.authorised {
		vlib.Class(sub, "key=authorised")
		h := sha256.Sum256(ct)
		vlib.NonTrivial(sub, "nontrivial:authorised-key", h[:8], []byte(alt), []byte(format))
	} else {
		vlib.Class(sub, "key=unauthorised")
	}
	if headerTouched {
		var cd bool
		if p, st := vlib.Catch(func() { cd = ac.attrs.CouldDecrypt(ct2) }); p != nil {
			vlib.Class(sub, "panic:"+entCould+":"+vlib.PanicClass(p)+"@"+topFrame(st))
			if !panicked(entCould, p, st) {
				return false
			}
		} else if cd != ac.authorised {
			vlib.Class(sub, "could-decrypt-verdict-changed-by-alteration(allowed)")
		}
		var pe cpabe.Policy
		if p, st := vlib.Catch(func() { _ = pe.ExtractFromCiphertext(ct2) }); p != nil {
			vlib.Class(sub, "panic:"+entExtract+":"+vlib.PanicClass(p)+"@"+topFrame(st))
			if !panicked(entExtract, p, st) {
				return false
			}
		}
	}
	return true
}

func (e *sysEnv) altCtxFor(c *cycleCtx, idx int) *altCtx {
	ke := e.keyFor(idx)
	if ke.err != nil {
		return nil
	}
	return &altCtx{key: &ke.k, attrs: &allAttrs[idx], attrsText: allAssign[idx].Text(), authorised: c.tt[idx], msg: c.msg, desc: describe(c.F, c.src)}
}

func flipBit(ct []byte, bit int) []byte {
	o := append([]byte{}, ct...)
	o[bit/8] ^= 1 << (bit % 8)
	return o
}

// transcode rebuilds the ciphertext in the legacy (v1.3.7) layout. It needs
// the Boneh–Katz seed, i.e. the first 72 bytes Encrypt took from its reader.
func transcode(ct []byte, encSeed uint64) (legacy []byte, why string) {
	p, err := parseCT(ct)
	if err != nil || p.legacy || p.trailing != 0 {
		return nil, "ciphertext-not-in-documented-current-layout"
	}
	seed := make([]byte, 72)
	_, _ = vlib.NewReader(encSeed).Read(seed)
	id, macKey := bkExpand(seed)
	if !bytes.Equal(id, p.id) || !bytes.Equal(bkTag(macKey, p.macData(false)), p.tag) {
		return nil, "id-or-tag-not-derived-from-first-72-random-bytes"
	}
	if !p.fitsLegacy() {
		return nil, "too-long-for-16-bit-lengths"
	}
	return p.build(true, bkTag(macKey, p.macData(true))), ""
}

func TestC20Cycle(t *testing.T) {
	defer vlib.Done()
	e := envOrFail(t)
	if e == nil {
		return
	}
	vlib.Check(t, vlib.N(36, 150), func(t *rapid.T) {
		F, src, _ := drawCase(t)
		c := &cycleCtx{F: F, src: src, tt: abe.TruthTable(F, alphabet), hard: F.Nots() > 0 || F.RepeatedLabel(), labels: F.Labels()}
		c.msg = make([]byte, rapid.SampledFrom(msgLens).Draw(t, "msgLen"))
		if len(c.msg) > 0 {
			vlib.FillRandom(t, c.msg, "msg")
		}
		var p cpabe.Policy
		if err := p.FromString(src); err != nil {
			vlib.Report(t, "C20/parse/rejects-valid-policy", fmt.Sprintf("FromString error %v on %s", err, describe(F, src)))
			return
		}
		encSeed := rapid.Uint64().Draw(t, "encSeed")
		pk := &e.pk
		unmarshalledPK := rapid.IntRange(0, 2).Draw(t, "pkKind") == 0
		if unmarshalledPK {
			pk = &e.pk2
		}
		const esub = "cycle/encrypt"
		vlib.Eval(esub)
		ct, err := pk.Encrypt(vlib.NewReader(encSeed), p, c.msg)
		if err != nil {
			vlib.Report(t, "C20/encrypt/error", fmt.Sprintf("Encrypt error %v; %s", err, describe(F, src)))
			return
		}
		for _, cl := range featureClasses(F) {
			vlib.Class(esub, "formula:"+cl)
		}
		if unmarshalledPK {
			vlib.Class(esub, "public-key=unmarshalled")
			if rapid.IntRange(0, 3).Draw(t, "cmpPK") == 0 {
				ctB, errB := e.pk.Encrypt(vlib.NewReader(encSeed), p, c.msg)
				if errB != nil || !bytes.Equal(ct, ctB) {
					vlib.Report(t, "C20/marshal/PublicKey/encrypts-differently", fmt.Sprintf("same randomness, original vs unmarshalled public key give different ciphertexts (err %v); %s", errB, describe(F, src)))
					return
				}
				vlib.Class(esub, "public-key-original-vs-unmarshalled-same-ciphertext")
			}
		}

		// --- the policy survives the trip through the ciphertext
		{
			const xsub = "cycle/extract"
			vlib.Eval(xsub)
			var fresh, px cpabe.Policy
			_ = fresh.FromString(src)
			if err := px.ExtractFromCiphertext(ct); err != nil {
				vlib.Report(t, "C20/extract/error", fmt.Sprintf("ExtractFromCiphertext error %v; %s", err, describe(F, src)))
				return
			}
			if !fresh.Equal(&px) || !px.Equal(&fresh) {
				vlib.Report(t, "C20/extract/not-equal", fmt.Sprintf("policy extracted from the ciphertext is not Equal to the policy encrypted under (extracted prints %q); %s", px.String(), describe(F, src)))
				return
			}
			if i := firstDiff(truthTableOf(&px, 0), c.tt); i >= 0 {
				vlib.Report(t, "C20/extract/inequivalent", fmt.Sprintf("extracted policy differs at attributes %s; %s", allAssign[i].Text(), describe(F, src)))
				return
			}
			if c.hard {
				vlib.NonTrivial(xsub, "nontrivial:negation-or-repeated-label", []byte(F.Canon()))
			}
		}

		// --- stratified choice of assignments
		var S, N, near []int
		for i, v := range c.tt {
			if v {
				S = append(S, i)
			} else {
				N = append(N, i)
			}
		}
		isSat := func(i int) bool { return c.tt[i] }
		for _, i := range N {
			// near miss: one label changed/added/removed makes it satisfying
			b := len(alphabet.Values) + 1
			m := 1
			found := false
			for range alphabet.Labels {
				d := (i / m) % b
				for nd := 0; nd < b && !found; nd++ {
					if nd != d && isSat(i+(nd-d)*m) {
						found = true
					}
				}
				m *= b
			}
			if found {
				near = append(near, i)
			}
		}
		var chosen []int
		if len(S) > 0 {
			chosen = append(chosen, rapid.SampledFrom(S).Draw(t, "satisfying"))
		} else {
			vlib.Class(esub, "formula:unsatisfiable")
		}
		if len(near) > 0 && rapid.IntRange(0, 2).Draw(t, "useNear") > 0 {
			chosen = append(chosen, rapid.SampledFrom(near).Draw(t, "nearMiss"))
			vlib.Class(esub, "unsatisfying=near-miss")
		} else {
			chosen = append(chosen, rapid.SampledFrom(N).Draw(t, "unsatisfying"))
		}
		if rapid.Bool().Draw(t, "third") {
			chosen = append(chosen, rapid.IntRange(0, len(allAssign)-1).Draw(t, "anyAssignment"))
		}

		legacy, why := transcode(ct, encSeed)
		if legacy == nil {
			vlib.Class(esub, "legacy-unavailable:"+why)
			vlib.Note("C20: legacy transcoding unavailable: " + why)
		}
		for _, idx := range chosen {
			um := rapid.Bool().Draw(t, "useUnmarshalledKey")
			if !checkDecrypt(t, e, c, ct, "current", idx, um) {
				return
			}
			if legacy != nil {
				if !checkDecrypt(t, e, c, legacy, "legacy", idx, um) {
					return
				}
			}
		}
		if legacy != nil {
			var px cpabe.Policy
			if err := px.ExtractFromCiphertext(legacy); err != nil {
				vlib.Report(t, "C20/extract-legacy/error", fmt.Sprintf("ExtractFromCiphertext(legacy layout) error %v; %s", err, describe(F, src)))
				return
			}
			if i := firstDiff(truthTableOf(&px, 0), c.tt); i >= 0 {
				vlib.Report(t, "C20/extract-legacy/inequivalent", fmt.Sprintf("policy extracted from the legacy layout differs at attributes %s; %s", allAssign[i].Text(), describe(F, src)))
				return
			}
		}

		// --- alterations
		rep := func(key, detail string) bool { return vlib.Report(t, key, detail) }
		doAlter := func(base []byte, format string, n int) bool {
			rs := regions(base)
			es := envStart(rs)
			for k := 0; k < n; k++ {
				var bit int
				if rapid.IntRange(0, 3).Draw(t, "uniformBit") == 0 {
					bit = rapid.IntRange(0, 8*len(base)-1).Draw(t, "bit")
				} else {
					r := rapid.SampledFrom(rs).Draw(t, "region")
					bit = 8*r.from + rapid.IntRange(0, 8*(r.to-r.from)-1).Draw(t, "bitInRegion")
				}
				idx := chosen[0]
				if rapid.IntRange(0, 4).Draw(t, "alterKey") == 0 {
					idx = chosen[len(chosen)-1]
				}
				ct2 := flipBit(base, bit)
				alt := fmt.Sprintf("bit %d of byte %d", bit%8, bit/8)
				single := true
				headerTouched := bit/8 < es
				if rapid.IntRange(0, 5).Draw(t, "multi") == 0 {
					b2 := rapid.IntRange(0, 8*len(base)-1).Draw(t, "bit2")
					if b2 != bit {
						ct2 = flipBit(ct2, b2)
						alt += fmt.Sprintf(" and bit %d of byte %d", b2%8, b2/8)
						single = false
						headerTouched = headerTouched || b2/8 < es
					}
				}
				ac := e.altCtxFor(c, idx)
				if ac == nil {
					continue
				}
				if !alteration(rep, ac, base, ct2, format, regionOf(rs, bit/8), alt, single, headerTouched) {
					return false
				}
			}
			return true
		}
		if !doAlter(ct, "current", vlib.N(4, 6)) {
			return
		}
		if legacy != nil && !doAlter(legacy, "legacy", vlib.N(2, 4)) {
			return
		}
		vlib.Sample(esub, fmt.Sprintf("leaves=%d", F.Leaves()), fmt.Sprintf("%q, message %d bytes, ciphertext %d bytes, assignments %v", src, len(c.msg), len(ct), func() []string {
			var s []string
			for _, i := range chosen {
				s = append(s, fmt.Sprintf("%s→%v", allAssign[i].Text(), c.tt[i]))
			}
			return s
		}()))
	})
}

// TestC20AllBitFlips: every single-bit alteration of one honest ciphertext
// per layout, decrypted with an authorised key (thorough tier, sharded by bit).
func TestC20AllBitFlips(t *testing.T) {
	defer vlib.Done()
	if !vlib.Thorough() {
		t.Skip("thorough only")
	}
	e := envOrFail(t)
	if e == nil {
		return
	}
	srcs := []string{"a:1 and not b:2", "not (a:0 and b:1) or c:2"}
	src := srcs[vlib.Seed%len(srcs)]
	F, err := abe.Parse(src)
	if err != nil {
		t.Fatalf("SELFTEST-FAIL %v", err)
	}
	c := &cycleCtx{F: F, src: src, tt: abe.TruthTable(F, alphabet), hard: true, labels: F.Labels(), msg: []byte("attack at dawn — C20 exhaustive bit flips")}
	var p cpabe.Policy
	if err := p.FromString(src); err != nil {
		vlib.ReportDirect(t, "C20/parse/rejects-valid-policy", err.Error(), map[string]interface{}{"policy": src})
		return
	}
	encSeed := mix(uint64(vlib.Seed), 0xa11)
	// all shards must flip the same ciphertext: use a Setup that does not depend on the shard
	pk, msk, err := cpabe.Setup(vlib.NewReader(mix(uint64(vlib.Seed), 0x5e7a11)))
	if err != nil {
		vlib.ReportDirect(t, "C20/setup/error", err.Error(), map[string]interface{}{})
		return
	}
	e2 := &sysEnv{pk: pk, msk: msk, msk2: msk, keys: map[int]*keyEnt{}}
	ct, err := pk.Encrypt(vlib.NewReader(encSeed), p, c.msg)
	if err != nil {
		vlib.ReportDirect(t, "C20/encrypt/error", err.Error(), map[string]interface{}{"policy": src})
		return
	}
	sat := -1
	for i, v := range c.tt {
		if v && len(allAssign[i]) == 2 {
			sat = i
			break
		}
	}
	if sat < 0 {
		t.Fatalf("SELFTEST-FAIL no satisfying assignment for %s", src)
	}
	// the flipped ciphertexts must be a pure function of (seed), so the key is too
	e2.keys[sat] = func() *keyEnt {
		k := &keyEnt{}
		k.k, k.err = msk.KeyGen(vlib.NewReader(mix(uint64(vlib.Seed), 0x6ba11)), allAttrs[sat])
		k.k2 = k.k
		return k
	}()
	legacy, why := transcode(ct, encSeed)
	if legacy == nil {
		vlib.Note("C20: legacy transcoding unavailable in the exhaustive flip test: " + why)
	}
	for _, lay := range []struct {
		name string
		ct   []byte
	}{{"current", ct}, {"legacy", legacy}} {
		if lay.ct == nil {
			continue
		}
		if pt, err := e2.keys[sat].k.Decrypt(lay.ct); err != nil || !bytes.Equal(pt, c.msg) {
			vlib.ReportDirect(t, "C20/decrypt-"+lay.name+"/rejects-satisfying", fmt.Sprintf("honest %s ciphertext does not decrypt: %v", lay.name, err), map[string]interface{}{"policy": src, "ct": hex.EncodeToString(lay.ct)})
			return
		}
		rs := regions(lay.ct)
		es := envStart(rs)
		nbits := 8 * len(lay.ct)
		if vlib.Shard == 0 {
			vlib.Exhaustive("C20 single-bit alterations of one honest "+lay.name+"-layout ciphertext of policy "+src, int64(nbits), "all shards together; Decrypt with an authorised key, CouldDecrypt/ExtractFromCiphertext when the header is touched")
		}
		for bit := vlib.Shard; bit < nbits; bit += vlib.NShards {
			ct2 := flipBit(lay.ct, bit)
			alt := fmt.Sprintf("bit %d of byte %d", bit%8, bit/8)
			failed := false
			rep := func(key, detail string) bool {
				ok := vlib.ReportDirect(t, key, detail, map[string]interface{}{"policy": src, "layout": lay.name, "bit": bit, "ct": hex.EncodeToString(lay.ct), "attrs": allAssign[sat].Text()})
				if !ok {
					failed = true
				}
				return ok
			}
			alteration(rep, e2.altCtxFor(c, sat), lay.ct, ct2, lay.name, regionOf(rs, bit/8), alt, true, bit/8 < es)
			if failed {
				return
			}
		}
	}
}

// ---------------------------------------------------------------------------
// token soup: FromString on strings near the language

var soupTokens = []string{"(", ")", ":", "and", "or", "not", "a", "b", "c", "0", "1", "2", "a", "1", ":", "not", "(", ")"}

func TestC20Soup(t *testing.T) {
	defer vlib.Done()
	const sub = "soup"
	vlib.Check(t, vlib.N(2000, 6000), func(t *rapid.T) {
		var s string
		if rapid.Bool().Draw(t, "fromValid") {
			F := genFormula(t)
			var st renderStats
			toks := renderTokens(t, F, 0, rapid.IntRange(0, 2).Draw(t, "style"), &st)
			for k := rapid.IntRange(1, 3).Draw(t, "edits"); k > 0 && len(toks) > 0; k-- {
				i := rapid.IntRange(0, len(toks)-1).Draw(t, "pos")
				switch rapid.IntRange(0, 3).Draw(t, "edit") {
				case 0:
					toks = append(toks[:i:i], toks[i+1:]...)
				case 1:
					toks = append(toks[:i:i], append([]string{rapid.SampledFrom(soupTokens).Draw(t, "ins")}, toks[i:]...)...)
				case 2:
					toks[i] = rapid.SampledFrom(soupTokens).Draw(t, "repl")
				default:
					j := rapid.IntRange(0, len(toks)-1).Draw(t, "swap")
					toks[i], toks[j] = toks[j], toks[i]
				}
			}
			s = strings.Join(toks, " ")
		} else {
			n := rapid.IntRange(0, 14).Draw(t, "n")
			toks := make([]string, n)
			for i := range toks {
				toks[i] = rapid.SampledFrom(soupTokens).Draw(t, "tok")
			}
			s = strings.Join(toks, rapid.SampledFrom([]string{" ", " ", ""}).Draw(t, "sep"))
		}
		checkSoup(t, sub, s)
	})
}

func checkSoup(t vlib.TB, sub, s string) {
	vlib.Eval(sub)
	ref, refErr := abe.Parse(s)
	var p cpabe.Policy
	var err error
	if pn, _ := vlib.Catch(func() { err = p.FromString(s) }); pn != nil {
		// robustness of the parser is property C10's subject; counted, not reported here
		vlib.Class(sub, "panic(not reported, C10):"+vlib.PanicClass(pn))
		return
	}
	switch {
	case err != nil && refErr != nil:
		vlib.Class(sub, "both-reject")
		return
	case err != nil && refErr == nil:
		if ref.Leaves() > 64 {
			vlib.Class(sub, "valid-but-huge")
			return
		}
		vlib.Report(t, "C20/parse/rejects-valid-policy", fmt.Sprintf("FromString(%q) error %v, but the string is in the policy language: %s", s, err, ref.Canon()))
		return
	case err == nil && refErr != nil:
		vlib.Class(sub, "library-accepts-what-reference-parser-rejects(allowed)")
	default:
		vlib.Class(sub, "both-accept")
	}
	var tt []bool
	var pn interface{}
	var printed string
	pn, _ = vlib.Catch(func() {
		printed = p.String()
		tt = truthTableOf(&p, 0)
	})
	if pn != nil {
		vlib.Class(sub, "panic-after-accept(not reported, C10):"+vlib.PanicClass(pn))
		return
	}
	if refErr == nil {
		want := abe.TruthTable(ref, alphabet)
		if i := firstDiff(tt, want); i >= 0 {
			vlib.Report(t, "C20/satisfaction/"+verdictKey(want[i]), fmt.Sprintf("attributes %s: Satisfaction=%v, reference=%v; %s", allAssign[i].Text(), tt[i], want[i], describe(ref, s)))
			return
		}
	}
	var p2 cpabe.Policy
	if err := p2.FromString(printed); err != nil {
		vlib.Report(t, "C20/print-parse/rejected", fmt.Sprintf("FromString(%q) accepted, but its String()=%q is rejected: %v", s, printed, err))
		return
	}
	if i := firstDiff(truthTableOf(&p2, 0), tt); i >= 0 {
		vlib.Report(t, "C20/print-parse/inequivalent", fmt.Sprintf("policy %q prints as %q which parses to a policy that differs at attributes %s", s, printed, allAssign[i].Text()))
		return
	}
	vlib.NonTrivial(sub, "nontrivial:accepted-and-round-tripped", []byte(s))
}

// FuzzC20PolicyFromString is the native fuzz target (not run by the driver's
// tiers; `go test -fuzz=FuzzC20PolicyFromString` with the harness overlay).
func FuzzC20PolicyFromString(f *testing.F) {
	for _, s := range []string{"a:1", "not a:1 and (b:2 or not not c:0)", "not (a:0 or a:1) and d:2", "((a:1))", "a:1 or b:1 and c:1"} {
		f.Add(s)
	}
	f.Fuzz(func(t *testing.T, s string) {
		if len(s) > 200 {
			return
		}
		checkSoup(t, "soup/native-fuzz-seeds", s)
	})
}
