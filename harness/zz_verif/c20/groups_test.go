//go:build verif

package c20

import (
	"fmt"
	"strings"
	"testing"

	"github.com/cloudflare/circl/abe/cpabe/tkn20"
	"github.com/cloudflare/circl/zz_verif/vlib"
)

// TestC20ManyGroups: the parser bounds the NESTING depth, not the number of parenthesised groups: flat
// policies with many groups (around and above the depth bound of 10000) parse and evaluate.
func TestC20ManyGroups(t *testing.T) {
	defer vlib.Done()
	sub := "parse/many-groups"
	for _, n := range []int{2, 100, 9999, 10000, 10001, 12000} {
		for _, opn := range []string{" or ", " and "} {
			vlib.Eval(sub)
			parts := make([]string, n)
			for i := range parts {
				parts[i] = "(a: 1)"
			}
			src := strings.Join(parts, opn)
			var p tkn20.Policy
			if err := p.FromString(src); err != nil {
				vlib.ReportDirect(t, "C20/parse/rejects-valid-policy", fmt.Sprintf("a flat policy of %d parenthesised groups joined by %q is refused: %v", n, strings.TrimSpace(opn), err),
					map[string]interface{}{"groups": n, "op": strings.TrimSpace(opn)})
				return
			}
			var yes, no tkn20.Attributes
			yes.FromMap(map[string]string{"a": "1"})
			no.FromMap(map[string]string{"a": "2"})
			if !p.Satisfaction(yes) || p.Satisfaction(no) {
				vlib.ReportDirect(t, "C20/satisfaction/many-groups", fmt.Sprintf("flat policy of %d groups (%s): Satisfaction(a=1)=%v Satisfaction(a=2)=%v", n, strings.TrimSpace(opn), p.Satisfaction(yes), p.Satisfaction(no)),
					map[string]interface{}{"groups": n})
				return
			}
			vlib.NonTrivial(sub, "", []byte(fmt.Sprint(n, opn)))
			vlib.Sample(sub, "groups", fmt.Sprintf("%d groups joined by %s: parses, a=1 satisfies, a=2 does not", n, strings.TrimSpace(opn)))
		}
	}
}
