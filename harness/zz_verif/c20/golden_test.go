//go:build verif

package c20

import (
	"bytes"
	"encoding/hex"
	"fmt"
	"os"
	"path/filepath"
	"testing"

	cpabe "github.com/cloudflare/circl/abe/cpabe/tkn20"
	"github.com/cloudflare/circl/zz_verif/ref/abe"
	"github.com/cloudflare/circl/zz_verif/vlib"
)

// The repository's golden files were produced by gen_testdata.go from the
// SHAKE128 stream of the empty string: Setup, then Encrypt("EU: true",
// "Be sure to drink your ovaltine!"), then KeyGen({country:NL, EU:true}).
// goldenBKSeed are the 72 stream bytes that Encrypt consumed first (computed
// once with x/crypto/sha3; a fact about the files, independent of the tree
// under test).
const (
	goldenBKSeed = "b9aea0cfce467be633d4d46a5086814da467dc73403c987d8fda5f6e568291dda40d7681a07eb9f80d8765c734bded79fcadcdacf4816800fad2888f935ef77e72aaf288ce1ee12e"
	goldenMsg    = "Be sure to drink your ovaltine!"
	goldenPolicy = "EU: true"
)

// TestC20Golden covers the legacy (v1.3.7) layout with the repository's own
// file and validates the harness' transcoder against it.
func TestC20Golden(t *testing.T) {
	defer vlib.Done()
	const sub = "golden"
	dir := filepath.Join(vlib.Repo, "abe/cpabe/tkn20/testdata")
	rd := func(n string) []byte {
		b, err := os.ReadFile(filepath.Join(dir, n))
		if err != nil {
			return nil
		}
		return b
	}
	cur, leg := rd("ciphertext"), rd("ciphertext_v137")
	pkb, skb, akb := rd("publicKey"), rd("secretKey"), rd("attributeKey")
	if cur == nil || leg == nil || pkb == nil || skb == nil || akb == nil {
		vlib.Note("C20: golden files not found under " + dir + " — golden sub-check skipped")
		t.Skip("no golden files")
	}
	// ---- oracle self-test: harness transcoder(current golden) == legacy golden, byte for byte
	seed, _ := hex.DecodeString(goldenBKSeed)
	id, macKey := bkExpand(seed)
	pc, err1 := parseCT(cur)
	pl, err2 := parseCT(leg)
	transcoderOK := err1 == nil && err2 == nil && !pc.legacy && pl.legacy &&
		bytes.Equal(id, pc.id) && bytes.Equal(bkTag(macKey, pc.macData(false)), pc.tag) &&
		bytes.Equal(pc.build(true, bkTag(macKey, pc.macData(true))), leg) &&
		bytes.Equal(pl.build(false, bkTag(macKey, pl.macData(false))), cur)
	if transcoderOK {
		vlib.Selftest("C20 legacy-layout transcoder reproduces testdata/ciphertext_v137 from testdata/ciphertext (and back)", "ok")
	} else {
		// the files of this tree are not the pinned ones: nothing can be concluded about the transcoder
		vlib.Selftest("C20 legacy-layout transcoder vs golden files", "skipped: golden files differ from the pinned ones")
		vlib.Note("C20: golden ciphertexts of this tree are not the pinned ones; transcoder self-test skipped")
	}
	ref, err := abe.Parse(goldenPolicy)
	if err != nil {
		t.Fatalf("SELFTEST-FAIL %v", err)
	}

	var pk cpabe.PublicKey
	var msk cpabe.SystemSecretKey
	var ak cpabe.AttributeKey
	for _, u := range []struct {
		name string
		f    func([]byte) error
		m    func() ([]byte, error)
		b    []byte
	}{
		{"PublicKey", pk.UnmarshalBinary, pk.MarshalBinary, pkb},
		{"SystemSecretKey", msk.UnmarshalBinary, msk.MarshalBinary, skb},
		{"AttributeKey", ak.UnmarshalBinary, ak.MarshalBinary, akb},
	} {
		vlib.Eval(sub)
		if err := u.f(u.b); err != nil {
			vlib.ReportDirect(t, "C20/golden/unmarshal/"+u.name, fmt.Sprintf("golden %s does not unmarshal: %v", u.name, err), map[string]interface{}{"file": u.name})
			return
		}
		if b, err := u.m(); err != nil || !bytes.Equal(b, u.b) {
			vlib.ReportDirect(t, "C20/golden/remarshal/"+u.name, fmt.Sprintf("golden %s does not re-marshal to the same bytes (err %v)", u.name, err), map[string]interface{}{"file": u.name})
			return
		}
		vlib.NonTrivial(sub, "golden-key-roundtrip", []byte(u.name))
	}

	// ---- verdicts on both layouts for a spread of attribute sets, keys issued by the golden system key
	sets := []abe.Assignment{
		{"country": "NL", "EU": "true"},
		{"EU": "true"},
		{"EU": "false"},
		{"EU": "TRUE"},
		{"country": "NL"},
		{"country": "true"},
		{},
		{"EU": "true", "eu": "false", "x": "1"},
	}
	type keyed struct {
		a     abe.Assignment
		attrs cpabe.Attributes
		key   cpabe.AttributeKey
		want  bool
	}
	var ks []keyed
	for i, a := range sets {
		at := attrsOf(a)
		var k cpabe.AttributeKey
		if i == 0 {
			k = ak // the stored key itself
		} else {
			var err error
			k, err = msk.KeyGen(vlib.NewReader(mix(uint64(vlib.Seed), 0x901d, uint64(i))), at)
			if err != nil {
				vlib.ReportDirect(t, "C20/keygen/error", fmt.Sprintf("KeyGen with the golden system key for %s: %v", a.Text(), err), map[string]interface{}{"attrs": a.Text()})
				return
			}
		}
		ks = append(ks, keyed{a, at, k, abe.Eval(ref, a)})
	}
	layouts := []struct {
		name string
		ct   []byte
	}{{"current", cur}, {"legacy", leg}}
	for _, lay := range layouts {
		var px, want cpabe.Policy
		_ = want.FromString(goldenPolicy)
		vlib.Eval(sub)
		if err := px.ExtractFromCiphertext(lay.ct); err != nil || !px.Equal(&want) {
			vlib.ReportDirect(t, "C20/extract-"+lay.name+"/golden", fmt.Sprintf("policy of the golden %s ciphertext: err %v, prints %q, want %q", lay.name, err, px.String(), goldenPolicy), map[string]interface{}{"layout": lay.name})
			return
		}
		for _, k := range ks {
			vlib.Eval(sub)
			rp := map[string]interface{}{"layout": lay.name, "attrs": k.a.Text(), "golden": true}
			if got := k.attrs.CouldDecrypt(lay.ct); got != k.want {
				vlib.ReportDirect(t, "C20/could-decrypt-"+lay.name+"/"+verdictKey(k.want), fmt.Sprintf("golden %s ciphertext, attributes %s: CouldDecrypt=%v, reference=%v", lay.name, k.a.Text(), got, k.want), rp)
				return
			}
			if got := px.Satisfaction(k.attrs); got != k.want {
				vlib.ReportDirect(t, "C20/satisfaction/"+verdictKey(k.want), fmt.Sprintf("golden %s ciphertext's policy, attributes %s: Satisfaction=%v, reference=%v", lay.name, k.a.Text(), got, k.want), rp)
				return
			}
			pt, err := k.key.Decrypt(lay.ct)
			if err == nil && string(pt) != goldenMsg {
				vlib.ReportDirect(t, "C20/decrypt-"+lay.name+"/wrong-message", fmt.Sprintf("golden %s ciphertext decrypts to %q", lay.name, pt), rp)
				return
			}
			if (err == nil) != k.want {
				vlib.ReportDirect(t, "C20/decrypt-"+lay.name+"/"+verdictKey(k.want), fmt.Sprintf("golden %s ciphertext, attributes %s: Decrypt err=%v, reference verdict=%v", lay.name, k.a.Text(), err, k.want), rp)
				return
			}
			vlib.Class(sub, fmt.Sprintf("%s:verdict=%v", lay.name, k.want))
			vlib.NonTrivial(sub, "golden-verdict", []byte(lay.name), []byte(k.a.Text()))
		}
	}

	// ---- single-bit alterations of the golden ciphertexts (quick: a stratified sample; thorough: all, sharded)
	for _, lay := range layouts {
		rs := regions(lay.ct)
		es := envStart(rs)
		nbits := 8 * len(lay.ct)
		var bits []int
		if vlib.Thorough() {
			for b := vlib.Shard; b < nbits; b += vlib.NShards {
				bits = append(bits, b)
			}
			if vlib.Shard == 0 {
				vlib.Exhaustive("C20 single-bit alterations of the golden "+lay.name+"-layout ciphertext", int64(nbits), "all shards together")
			}
		} else {
			rnd := make([]byte, 4*6*len(rs))
			vlib.ExpandInto(rnd, mix(uint64(vlib.Seed), uint64(vlib.Shard), 0xb175))
			for i, r := range rs {
				for k := 0; k < 6; k++ {
					o := 4 * (6*i + k)
					v := int(rnd[o]) | int(rnd[o+1])<<8 | int(rnd[o+2])<<16
					bits = append(bits, 8*r.from+v%(8*(r.to-r.from)))
				}
			}
		}
		for n, bit := range bits {
			k := ks[0]
			if n%5 == 4 {
				k = ks[2] // unauthorised key
			}
			ac := &altCtx{key: &k.key, attrs: &k.attrs, attrsText: k.a.Text(), authorised: k.want, msg: []byte(goldenMsg), desc: "golden ciphertext of policy " + goldenPolicy}
			failed := false
			rep := func(key, detail string) bool {
				ok := vlib.ReportDirect(t, key, detail, map[string]interface{}{"layout": lay.name, "bit": bit, "golden": true, "attrs": k.a.Text()})
				if !ok {
					failed = true
				}
				return ok
			}
			alteration(rep, ac, lay.ct, flipBit(lay.ct, bit), lay.name, regionOf(rs, bit/8), fmt.Sprintf("bit %d of byte %d", bit%8, bit/8), true, bit/8 < es)
			if failed {
				return
			}
		}
	}
}

// TestC20RefSelftest pins the reference evaluator/parser to the scheme's
// documented behaviour: the nine cases of testdata/policies.json (copied here,
// they are the repository's statement of the semantics) and the facts of
// DESIGN Appendix B.
func TestC20RefSelftest(t *testing.T) {
	defer vlib.Done()
	cases := []struct {
		policy string
		attrs  abe.Assignment
		want   bool
	}{
		{"region: US", abe.Assignment{"region": "EU"}, false},
		{"not region: US", abe.Assignment{"region": "EU"}, true},
		{"region: US or region: EU or tier: 1 or tier: 2 or tier: 3 and owner: cloudflare", abe.Assignment{"region": "AZ", "tier": "2", "owner": "cloudflare"}, true},
		{"(region: US or region: EU) or (tier: 1 or tier: 2 or tier: 3) and (owner: cloudflare)", abe.Assignment{"region": "AZ", "tier": "1", "owner": "cloudflare"}, true},
		{"((region: US or region: EU) and (not (tier: 3)))", abe.Assignment{"region": "EU", "tier": "2", "owner": "cloudflare"}, true},
		{"not (region: US or region: EU)", abe.Assignment{"region": "EU"}, false},
		{"not not region: US", abe.Assignment{"region": "EU"}, false},
		{"region: US or region: US", abe.Assignment{"region": "AZ"}, false},
		{"region: US and region: EU or region: ASIA", abe.Assignment{"region": "US"}, false},
		// DESIGN Appendix B
		{"not a:1", abe.Assignment{}, false},
		{"not a:1", abe.Assignment{"b": "2"}, false},
		{"not a:1", abe.Assignment{"a": "2"}, true},
		{"not a:1", abe.Assignment{"a": "1"}, false},
		{"not not a:1", abe.Assignment{"a": "1"}, true},
		{"not not not a:1", abe.Assignment{"a": "0"}, true},
		{"a:1", abe.Assignment{"a": "1", "zz": "9"}, true},
		{"not (a:1 and b:2)", abe.Assignment{"a": "1"}, false},          // (not a:1) or (not b:2): a equal, b absent
		{"not (a:1 and b:2)", abe.Assignment{"a": "1", "b": "0"}, true}, // b present and different
		{"not (a:1 or b:2)", abe.Assignment{"a": "0"}, false},           // needs both present and different
		{"not (a:1 or b:2)", abe.Assignment{"a": "0", "b": "1"}, true},
		{"not not (a:1 and b:2)", abe.Assignment{"a": "1", "b": "2"}, true},
		{"not not (a:1 and b:2)", abe.Assignment{"a": "1"}, false},
		{"a:0 or b:1 and c:2", abe.Assignment{"a": "0"}, true}, // and binds tighter than or
		{"not a:0 and b:1", abe.Assignment{"a": "1"}, false},   // not binds tighter than and
		{"a:0 and a:1", abe.Assignment{"a": "0"}, false},
		{"a:0 or not a:0", abe.Assignment{}, false},
	}
	for _, c := range cases {
		n, err := abe.Parse(c.policy)
		if err != nil {
			t.Fatalf("SELFTEST-FAIL reference parser rejects %q: %v", c.policy, err)
		}
		if g1, g2 := abe.Eval(n, c.attrs), abe.EvalNNF(abe.NNF(n), c.attrs); g1 != c.want || g2 != c.want {
			t.Fatalf("SELFTEST-FAIL reference evaluators on %q with %s: %v / %v, want %v", c.policy, c.attrs.Text(), g1, g2, c.want)
		}
		back, err := abe.Parse(n.Canon())
		if err != nil || !back.Equal(n) {
			t.Fatalf("SELFTEST-FAIL canonical text of %q does not parse back", c.policy)
		}
	}
	for _, bad := range []string{"", "&", "country: north korea", "(country: congo", "(country: china or taiwan)", "a:1 )", "a:1 b:2", "and", "not", "a:", ":1", "a:1 or", "a::1", "a:not"} {
		if _, err := abe.Parse(bad); err == nil {
			t.Fatalf("SELFTEST-FAIL reference parser accepts %q", bad)
		}
	}
	vlib.Selftest("C20 reference evaluator/parser: 9 repository policies.json cases + 17 hand-derived cases + 14 rejections", "ok")
}
