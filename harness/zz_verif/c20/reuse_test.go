//go:build verif

package c20

import (
	"bytes"
	"fmt"
	"testing"

	cpabe "github.com/cloudflare/circl/abe/cpabe/tkn20"
	"github.com/cloudflare/circl/zz_verif/ref/abe"
	"github.com/cloudflare/circl/zz_verif/vlib"
	"pgregory.net/rapid"
)

// Object reuse: the API fills existing objects (Attributes.FromMap,
// Policy.FromString, Policy.ExtractFromCiphertext, AttributeKey.UnmarshalBinary).
// After such a call the object must behave like a fresh one filled with the
// LAST input only; nothing of an earlier content may survive.

func digitsOf(idx int) []int {
	b := len(alphabet.Values) + 1
	d := make([]int, len(alphabet.Labels))
	for i := range d {
		d[i] = idx % b
		idx /= b
	}
	return d
}

func indexOf(d []int) int {
	b := len(alphabet.Values) + 1
	idx, m := 0, 1
	for _, v := range d {
		idx += v * m
		m *= b
	}
	return idx
}

func mapOf(a abe.Assignment) map[string]string {
	m := make(map[string]string, len(a))
	for k, v := range a {
		m[k] = v
	}
	return m
}

// drawShrinkingSequence draws 2..4 assignment numbers; every later one lacks
// at least one label of its predecessor (other labels may change value or appear).
func drawShrinkingSequence(t *rapid.T) []int {
	n := rapid.IntRange(2, 4).Draw(t, "seqLen")
	d := make([]int, len(alphabet.Labels))
	present := 0
	for i := range d {
		d[i] = rapid.IntRange(0, len(alphabet.Values)).Draw(t, "first")
		if d[i] > 0 {
			present++
		}
	}
	if present == 0 {
		d[rapid.IntRange(0, len(d)-1).Draw(t, "forceLabel")] = 1
	}
	seq := []int{indexOf(d)}
	for k := 1; k < n; k++ {
		var have []int
		for i, v := range d {
			if v > 0 {
				have = append(have, i)
			}
		}
		nd := append([]int{}, d...)
		if len(have) > 0 {
			nd[rapid.SampledFrom(have).Draw(t, "drop")] = 0
		}
		for i := range nd {
			switch rapid.IntRange(0, 5).Draw(t, "edit") {
			case 0:
				nd[i] = 0
			case 1:
				if nd[i] > 0 || d[i] == 0 { // never re-add the label just dropped with certainty; changing value / adding new labels is fine
					nd[i] = rapid.IntRange(1, len(alphabet.Values)).Draw(t, "val")
				}
			}
		}
		// make sure something of the predecessor is really missing
		missing := false
		for i := range nd {
			if d[i] > 0 && nd[i] == 0 {
				missing = true
			}
		}
		if !missing && len(have) > 0 {
			nd[have[0]] = 0
		}
		d = nd
		seq = append(seq, indexOf(d))
	}
	return seq
}

func TestC20Reuse(t *testing.T) {
	defer vlib.Done()
	e := envOrFail(t)
	if e == nil {
		return
	}
	presence := map[string]*cpabe.Policy{}
	for _, l := range alphabet.Labels {
		p := &cpabe.Policy{}
		if err := p.FromString(fmt.Sprintf("%s:0 or %s:1 or %s:2", l, l, l)); err != nil {
			t.Fatalf("presence policy: %v", err)
		}
		presence[l] = p
	}
	vlib.Check(t, vlib.N(30, 120), func(t *rapid.T) {
		// ------------------------------------------------------------------ Attributes reuse
		const asub = "reuse/attributes"
		F, src, _ := drawCase(t)
		tt := abe.TruthTable(F, alphabet)
		var pF cpabe.Policy
		if err := pF.FromString(src); err != nil {
			vlib.Report(t, "C20/parse/rejects-valid-policy", fmt.Sprintf("FromString error %v on %s", err, describe(F, src)))
			return
		}
		seq := drawShrinkingSequence(t)
		var at cpabe.Attributes // ONE object for the whole sequence
		history := ""
		for k, idx := range seq {
			at.FromMap(mapOf(allAssign[idx]))
			history += allAssign[idx].Text()
			vlib.Eval(asub)
			// label-presence probes and the drawn formula, reference = last map only
			for _, l := range alphabet.Labels {
				_, want := allAssign[idx][l]
				if got := presence[l].Satisfaction(at); got != want {
					vlib.Report(t, "C20/reuse/attributes/satisfaction/"+verdictKey(want), fmt.Sprintf("one Attributes object filled by FromMap with %s in turn: policy \"%s:0 or %s:1 or %s:2\" gives Satisfaction=%v, reference for the last map %s is %v", history, l, l, l, got, allAssign[idx].Text(), want))
					return
				}
			}
			if got := pF.Satisfaction(at); got != tt[idx] {
				vlib.Report(t, "C20/reuse/attributes/satisfaction/"+verdictKey(tt[idx]), fmt.Sprintf("one Attributes object filled by FromMap with %s in turn: Satisfaction=%v, reference for the last map is %v; %s", history, got, tt[idx], describe(F, src)))
				return
			}
			fresh := attrsOf(allAssign[idx])
			if !at.Equal(&fresh) || !fresh.Equal(&at) {
				vlib.Report(t, "C20/reuse/attributes/not-equal-fresh", fmt.Sprintf("one Attributes object filled by FromMap with %s in turn is not Equal to a fresh object filled with the last map", history))
				return
			}
			if k > 0 {
				vlib.NonTrivial(asub, "nontrivial:refilled-with-a-map-lacking-earlier-labels", []byte(history), []byte(F.Canon()))
			}
			history += " → "
		}
		last := seq[len(seq)-1]
		prev := seq[len(seq)-2]
		// a policy that needs exactly what is stale: a label the previous map had and the last one lacks
		detector := ""
		for _, l := range alphabet.Labels {
			if v, ok := allAssign[prev][l]; ok {
				if _, still := allAssign[last][l]; !still {
					detector = l + ":" + v
					break
				}
			}
		}
		polSrc, polF := src, F
		if detector != "" && rapid.IntRange(0, 3).Draw(t, "useDetector") > 0 {
			extra := genFormula(t)
			if rapid.Bool().Draw(t, "detectorAlone") || extra.Leaves() > 3 {
				polSrc = detector
			} else {
				polSrc = detector + " and (" + extra.Canon() + ")"
				if rapid.Bool().Draw(t, "detectorOr") {
					polSrc = detector + " or (" + extra.Canon() + ")"
				}
			}
			var err error
			if polF, err = abe.Parse(polSrc); err != nil {
				t.Fatalf("SELFTEST-FAIL detector policy %q: %v", polSrc, err)
			}
			vlib.Class(asub, "cycle-policy=needs-a-stale-label")
		} else {
			vlib.Class(asub, "cycle-policy=drawn-formula")
		}
		want := abe.Eval(polF, allAssign[last])
		var pol cpabe.Policy
		if err := pol.FromString(polSrc); err != nil {
			vlib.Report(t, "C20/parse/rejects-valid-policy", fmt.Sprintf("FromString error %v on %q", err, polSrc))
			return
		}
		msg := make([]byte, rapid.SampledFrom(msgLens).Draw(t, "msgLen"))
		if len(msg) > 0 {
			vlib.FillRandom(t, msg, "msg")
		}
		ct, err := e.pk.Encrypt(vlib.NewReader(rapid.Uint64().Draw(t, "encSeed")), pol, msg)
		if err != nil {
			vlib.Report(t, "C20/encrypt/error", fmt.Sprintf("Encrypt error %v on %q", err, polSrc))
			return
		}
		ctx := fmt.Sprintf("one Attributes object filled by FromMap with %s in turn; ciphertext under %q; reference verdict for the last map %v", history[:len(history)-len(" → ")], polSrc, want)
		vlib.Eval(asub + "/cycle")
		if got := at.CouldDecrypt(ct); got != want {
			vlib.Report(t, "C20/reuse/attributes/could-decrypt/"+verdictKey(want), fmt.Sprintf("CouldDecrypt=%v; %s", got, ctx))
			return
		}
		key, err := e.msk.KeyGen(vlib.NewReader(rapid.Uint64().Draw(t, "keySeed")), at)
		if err != nil {
			vlib.Report(t, "C20/keygen/error", fmt.Sprintf("KeyGen error %v; %s", err, ctx))
			return
		}
		pt, derr := key.Decrypt(ct)
		if derr == nil && !bytes.Equal(pt, msg) {
			vlib.Report(t, "C20/reuse/attributes/decrypt/wrong-message", fmt.Sprintf("Decrypt returned %s; %s", vlib.Hex(pt), ctx))
			return
		}
		if (derr == nil) != want {
			vlib.Report(t, "C20/reuse/attributes/decrypt/"+verdictKey(want), fmt.Sprintf("key generated from the reused object: Decrypt err=%v; %s", derr, ctx))
			return
		}
		vlib.Class(asub+"/cycle", fmt.Sprintf("verdict=%v", want))
		vlib.NonTrivial(asub+"/cycle", "nontrivial:key-from-refilled-object", []byte(ctx))

		// AttributeKey object reuse: unmarshal the key of the previous map, then the key of the last map, into one object
		{
			const ksub = "reuse/attribute-key"
			ka, kb := e.keyFor(prev), e.keyFor(last)
			if ka.err == nil && kb.err == nil && ka.problem == "" && kb.problem == "" {
				vlib.Eval(ksub)
				var k cpabe.AttributeKey
				if err := k.UnmarshalBinary(ka.enc); err != nil {
					vlib.Report(t, "C20/marshal/AttributeKey", "UnmarshalBinary of its own encoding: "+err.Error())
					return
				}
				if err := k.UnmarshalBinary(kb.enc); err != nil {
					vlib.Report(t, "C20/marshal/AttributeKey", "UnmarshalBinary (into a used object) of its own encoding: "+err.Error())
					return
				}
				pt, derr := k.Decrypt(ct)
				if (derr == nil) != want || (derr == nil && !bytes.Equal(pt, msg)) {
					vlib.Report(t, "C20/reuse/attribute-key/decrypt/"+verdictKey(want), fmt.Sprintf("AttributeKey object unmarshalled first from the key for %s then from the key for %s: Decrypt err=%v; ciphertext under %q, reference verdict %v", allAssign[prev].Text(), allAssign[last].Text(), derr, polSrc, want))
					return
				}
				if !k.Equal(&kb.k) {
					vlib.Report(t, "C20/reuse/attribute-key/not-equal", "AttributeKey unmarshalled into a used object is not Equal to the original key")
					return
				}
				vlib.NonTrivial(ksub, "nontrivial:key-object-reused", kb.enc, ka.enc[:16])
			}
		}

		// ------------------------------------------------------------------ Policy reuse
		const psub = "reuse/policy"
		var p cpabe.Policy // ONE object for the whole sequence
		np := rapid.IntRange(2, 3).Draw(t, "policySeq")
		phist := ""
		for k := 0; k < np; k++ {
			Fk := genFormula(t)
			if k == np-1 && rapid.Bool().Draw(t, "lastSmall") {
				Fk = abe.NewLeaf(rapid.SampledFrom(alphabet.Labels).Draw(t, "l"), rapid.SampledFrom(alphabet.Values).Draw(t, "v"))
				if rapid.Bool().Draw(t, "neg") {
					Fk = abe.NewNot(Fk)
				}
			}
			sk, _ := render(t, Fk)
			ttk := abe.TruthTable(Fk, alphabet)
			phist += fmt.Sprintf("%q", sk)
			vlib.Eval(psub)
			if err := p.FromString(sk); err != nil {
				vlib.Report(t, "C20/parse/rejects-valid-policy", fmt.Sprintf("FromString (object reused: %s) error %v", phist, err))
				return
			}
			var fresh cpabe.Policy
			_ = fresh.FromString(sk)
			if p.Equal(&fresh) && fresh.Equal(&p) {
				vlib.Class(psub, "reused-Equal-fresh")
			} else {
				vlib.Class(psub, "reused-not-Equal-fresh(not asserted)")
			}
			checkPrint := func(when string) bool {
				printed := p.String()
				back, err := abe.Parse(printed)
				if err != nil {
					vlib.Report(t, "C20/print/not-in-policy-language", fmt.Sprintf("one Policy object filled by FromString with %s in turn: String()=%q (%s) is rejected by the reference parser: %v", phist, printed, when, err))
					return false
				}
				if i := firstDiff(abe.TruthTable(back, alphabet), ttk); i >= 0 {
					vlib.Report(t, "C20/reuse/policy/print-inequivalent", fmt.Sprintf("one Policy object filled by FromString with %s in turn: String()=%q (%s) differs from the last policy at attributes %s", phist, printed, when, allAssign[i].Text()))
					return false
				}
				return true
			}
			checkSat := func(when string) bool {
				if i := firstDiff(truthTableOf(&p, 0), ttk); i >= 0 {
					vlib.Report(t, "C20/reuse/policy/satisfaction/"+verdictKey(ttk[i]), fmt.Sprintf("one Policy object filled by FromString with %s in turn: Satisfaction (%s) differs from the reference for the last policy at attributes %s", phist, when, allAssign[i].Text()))
					return false
				}
				return true
			}
			if rapid.Bool().Draw(t, "printFirst") {
				vlib.Class(psub, "order=String-then-Satisfaction-then-String")
				if !checkPrint("before Satisfaction") || !checkSat("after String") || !checkPrint("after Satisfaction") {
					return
				}
			} else {
				vlib.Class(psub, "order=Satisfaction-then-String")
				if !checkSat("first") || !checkPrint("after Satisfaction") {
					return
				}
			}
			if k > 0 {
				vlib.NonTrivial(psub, "nontrivial:policy-object-refilled", []byte(phist))
			}
			phist += " → "
		}
		// ExtractFromCiphertext into the used object
		vlib.Eval(psub + "/extract")
		if err := p.ExtractFromCiphertext(ct); err != nil {
			vlib.Report(t, "C20/extract/error", fmt.Sprintf("ExtractFromCiphertext into a used Policy object: %v", err))
			return
		}
		if i := firstDiff(truthTableOf(&p, 0), abe.TruthTable(polF, alphabet)); i >= 0 {
			vlib.Report(t, "C20/reuse/policy/extract-inequivalent", fmt.Sprintf("Policy object filled by FromString with %s then ExtractFromCiphertext(ciphertext under %q) differs from that policy at attributes %s", phist, polSrc, allAssign[i].Text()))
			return
		}
		if back, err := abe.Parse(p.String()); err != nil || firstDiff(abe.TruthTable(back, alphabet), abe.TruthTable(polF, alphabet)) >= 0 {
			vlib.Report(t, "C20/reuse/policy/print-inequivalent", fmt.Sprintf("Policy object reused for ExtractFromCiphertext prints %q, ciphertext was under %q", p.String(), polSrc))
			return
		}
		vlib.NonTrivial(psub+"/extract", "nontrivial:extract-into-used-object", []byte(phist), []byte(polSrc))
	})
}
