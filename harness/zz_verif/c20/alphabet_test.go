//go:build verif

package c20

import (
	"bytes"
	"fmt"
	"strings"
	"testing"

	cpabe "github.com/cloudflare/circl/abe/cpabe/tkn20"
	"github.com/cloudflare/circl/zz_verif/ref/abe"
	"github.com/cloudflare/circl/zz_verif/vlib"
	"pgregory.net/rapid"
)

// The identifier class of the policy language (labels and values alike):
// [A-Za-z0-9_]+ except the three lower-case keywords; blanks are space, tab,
// CR and LF. identChars is the whole class; identEdges are the ends of its
// ranges; outsideChars are the characters next to each range plus a few
// other plausible intruders — none of them may occur in a policy.
const identChars = "abcdefghijklmnopqrstuvwxyzABCDEFGHIJKLMNOPQRSTUVWXYZ0123456789_"

var (
	identEdges   = []byte{'a', 'z', 'A', 'Z', '0', '9', '_'}
	outsideChars = []byte{'`', '{', '@', '[', '/', ':', '^', '-', '.', ',', '\'', '"', '&', '|', '!', '=', '*', '\\', '\v', '\f', 0x00, 0x7f, 0x80, 0xc3, 0xff}
)

func isKeyword(s string) bool { return s == "and" || s == "or" || s == "not" }

// drawIdent draws an identifier over the whole class; the first, the last and
// the middle characters are each an edge of a range with probability 1/3.
func drawIdent(t *rapid.T, label string) string {
	n := rapid.SampledFrom([]int{1, 1, 2, 2, 3, 3, 4, 5, 8, 12}).Draw(t, label+".len")
	b := make([]byte, n)
	for i := range b {
		if rapid.IntRange(0, 2).Draw(t, label+".edge") == 0 {
			b[i] = rapid.SampledFrom(identEdges).Draw(t, label+".ec")
		} else {
			b[i] = identChars[rapid.IntRange(0, len(identChars)-1).Draw(t, label+".c")]
		}
	}
	s := string(b)
	if isKeyword(s) {
		s += "_"
	}
	return s
}

func drawDistinct(t *rapid.T, n int, label string) []string {
	var out []string
	seen := map[string]bool{}
	for len(out) < n {
		s := drawIdent(t, label)
		for seen[s] {
			s += string(identChars[rapid.IntRange(0, len(identChars)-1).Draw(t, label+".dedup")])
		}
		seen[s] = true
		out = append(out, s)
	}
	return out
}

// TestC20Identifiers: the predicates of TestC20Predicates over a freshly drawn
// alphabet per case (4 labels, 3 values from the whole identifier class), with
// up to 40 leaves, plus attribute sets whose labels / values are not
// identifiers at all (FromMap accepts any string).
func TestC20Identifiers(t *testing.T) {
	defer vlib.Done()
	const sub = "identifiers/predicates"
	vlib.Check(t, vlib.N(350, 2500), func(t *rapid.T) {
		al := abe.Alphabet{Labels: drawDistinct(t, 4, "label"), Values: drawDistinct(t, 3, "value")}
		leaves := rapid.SampledFrom([]int{1, 2, 2, 3, 3, 4, 5, 6, 7, 9, 12, 20, 40}).Draw(t, "leaves")
		pool := rapid.IntRange(1, 4).Draw(t, "labelPool")
		budget := minDepth(leaves) + rapid.IntRange(0, 3).Draw(t, "extraDepth")
		F := genNode(t, leaves, budget, al.Labels[:pool], al.Values)
		src, _ := render(t, F)
		if back, err := abe.Parse(src); err != nil || !back.Equal(F) {
			t.Fatalf("SELFTEST-FAIL renderer/reference parser disagree on %q: %v", src, err)
		}
		tt := abe.TruthTable(F, al)
		vlib.EvalN(sub, int64(len(tt)))
		var p cpabe.Policy
		if err := p.FromString(src); err != nil {
			vlib.Report(t, "C20/parse/rejects-valid-policy", fmt.Sprintf("FromString error %v on %s", err, describe(F, src)))
			return
		}
		printFirst := rapid.Bool().Draw(t, "printFirst")
		checkPrint := func() bool {
			printed := p.String()
			back, err := abe.Parse(printed)
			if err != nil {
				vlib.Report(t, "C20/print/not-in-policy-language", fmt.Sprintf("String()=%q is rejected by the reference parser (%v); %s", printed, err, describe(F, src)))
				return false
			}
			if i := firstDiff(abe.TruthTable(back, al), tt); i >= 0 {
				vlib.Report(t, "C20/print/inequivalent", fmt.Sprintf("String()=%q differs from the policy at attributes %s; %s", printed, al.At(i).Text(), describe(F, src)))
				return false
			}
			var p2 cpabe.Policy
			if err := p2.FromString(printed); err != nil {
				vlib.Report(t, "C20/print-parse/rejected", fmt.Sprintf("FromString(String()) error %v for %q; %s", err, printed, describe(F, src)))
				return false
			}
			for i := range tt {
				if p2.Satisfaction(attrsOf(al.At(i))) != tt[i] {
					vlib.Report(t, "C20/print-parse/inequivalent", fmt.Sprintf("FromString(String()=%q) differs at attributes %s; %s", printed, al.At(i).Text(), describe(F, src)))
					return false
				}
			}
			return true
		}
		if printFirst && !checkPrint() {
			return
		}
		for i := range tt {
			a := al.At(i)
			if got := p.Satisfaction(attrsOf(a)); got != tt[i] {
				vlib.Report(t, "C20/satisfaction/"+verdictKey(tt[i]), fmt.Sprintf("attributes %s: Satisfaction=%v, reference=%v; %s", a.Text(), got, tt[i], describe(F, src)))
				return
			}
		}
		if !checkPrint() {
			return
		}
		// attribute sets outside the identifier class: the value (or an extra label) is any string
		odd := []string{"", " ", "x y", al.Values[0] + " ", " " + al.Values[0], strings.ToUpper(al.Values[0]) + "é", al.Values[0] + "\x00", "and", "not " + al.Values[0], "日本"}
		for k := 0; k < 3; k++ {
			a := abe.Assignment{}
			for key, v := range al.At(rapid.IntRange(0, al.Size()-1).Draw(t, "oddBase")) {
				a[key] = v
			}
			a[rapid.SampledFrom(al.Labels).Draw(t, "oddLabel")] = rapid.SampledFrom(odd).Draw(t, "oddValue")
			a[rapid.SampledFrom(odd).Draw(t, "oddExtraLabel")] = al.Values[0]
			want := abe.Eval(F, a)
			vlib.Eval("identifiers/odd-attribute-strings")
			if got := p.Satisfaction(attrsOf(a)); got != want {
				vlib.Report(t, "C20/satisfaction/"+verdictKey(want), fmt.Sprintf("attributes %q (strings outside the identifier class): Satisfaction=%v, reference=%v; %s", a.Text(), got, want, describe(F, src)))
				return
			}
		}
		vlib.Class(sub, fmt.Sprintf("leaves:%s", map[bool]string{true: "7..40", false: "1..6"}[leaves > 6]))
		for _, id := range append(append([]string{}, al.Labels[:pool]...), al.Values...) {
			for _, e := range identEdges {
				if id[0] == e {
					vlib.Class(sub, fmt.Sprintf("first-char=%q", e))
				}
				if id[len(id)-1] == e {
					vlib.Class(sub, fmt.Sprintf("last-char=%q", e))
				}
			}
		}
		if F.Nots() > 0 || F.RepeatedLabel() {
			vlib.NonTrivial(sub, "nontrivial:negation-or-repeated-label", []byte(F.Canon()))
		}
	})
}

type sweepCase struct {
	name   string
	label  string
	value  string
	accept bool
}

// TestC20IdentSweep is deterministic: every character of the identifier class
// at the first, a middle and the last position of a label and of a value must
// be accepted (parse → print → parse, verdicts), every character outside must
// make FromString fail; one full Encrypt / KeyGen / Decrypt cycle per
// admissible character (split over the shards); keywords in other letter
// cases are identifiers; blanks; deep nesting; wide policies.
func TestC20IdentSweep(t *testing.T) {
	defer vlib.Done()
	const sub = "identifiers/sweep"
	e := envOrFail(t)
	if e == nil {
		return
	}
	place := func(c byte, pos int) string {
		switch pos {
		case 0:
			return string(c) + "q1"
		case 1:
			return "q" + string(c) + "1"
		case 2:
			return "q1" + string(c)
		}
		return string(c)
	}
	posName := []string{"first", "middle", "last", "alone"}
	checkAccept := func(label, value, what string) bool {
		vlib.Eval(sub)
		for _, neg := range []bool{false, true} {
			src := label + ": " + value
			if neg {
				src = "not " + src
			}
			rp := map[string]interface{}{"policy": src, "what": what}
			var p cpabe.Policy
			if err := p.FromString(src); err != nil {
				vlib.ReportDirect(t, "C20/parse/rejects-valid-policy", fmt.Sprintf("FromString(%q) error %v (%s)", src, err, what), rp)
				return false
			}
			F, err := abe.Parse(src)
			if err != nil {
				t.Fatalf("SELFTEST-FAIL reference parser rejects %q", src)
			}
			pairs := p.ExtractAttributeValuePairs()
			if len(pairs) != 1 || len(pairs[label]) != 1 || pairs[label][0] != value {
				vlib.ReportDirect(t, "C20/parse/wrong-identifiers", fmt.Sprintf("FromString(%q) holds the pairs %v (%s)", src, pairs, what), rp)
				return false
			}
			sets := []abe.Assignment{{label: value}, {label: value + "0"}, {label + "0": value}, {}, {label: strings.ToUpper(value), "zz": value}}
			check := func(q *cpabe.Policy, who string) bool {
				for _, a := range sets {
					want := abe.Eval(F, a)
					if got := q.Satisfaction(attrsOf(a)); got != want {
						vlib.ReportDirect(t, "C20/satisfaction/"+verdictKey(want), fmt.Sprintf("%s %q, attributes %s: Satisfaction=%v, reference=%v (%s)", who, src, a.Text(), got, want, what), rp)
						return false
					}
				}
				return true
			}
			if !check(&p, "policy") {
				return false
			}
			printed := p.String()
			back, err := abe.Parse(printed)
			if err != nil || !back.Equal(F) {
				vlib.ReportDirect(t, "C20/print/inequivalent", fmt.Sprintf("policy %q prints as %q (reference parser: %v) (%s)", src, printed, err, what), rp)
				return false
			}
			var p2 cpabe.Policy
			if err := p2.FromString(printed); err != nil {
				vlib.ReportDirect(t, "C20/print-parse/rejected", fmt.Sprintf("FromString(String()=%q) error %v (%s)", printed, err, what), rp)
				return false
			}
			if !check(&p2, "re-parsed printed policy of") {
				return false
			}
		}
		vlib.NonTrivial(sub, "accepted", []byte(label), []byte{0}, []byte(value))
		return true
	}
	checkReject := func(src, what string) bool {
		vlib.Eval(sub)
		var p cpabe.Policy
		var err error
		if pn, _ := vlib.Catch(func() { err = p.FromString(src) }); pn != nil {
			vlib.Class(sub, "panic(not reported, C10):"+vlib.PanicClass(pn))
			return true
		}
		if _, rerr := abe.Parse(src); rerr == nil {
			t.Fatalf("SELFTEST-FAIL reference parser accepts %q", src)
		}
		if err == nil {
			vlib.ReportDirect(t, "C20/parse/accepts-invalid-character", fmt.Sprintf("FromString(%q) succeeds (policy prints %q) although the text is not in the policy language (%s)", src, p.String(), what), map[string]interface{}{"policy": src, "what": what})
			return false
		}
		vlib.NonTrivial(sub, "rejected", []byte(src))
		return true
	}

	// ---- every admissible character, every position, label and value
	for i := 0; i < len(identChars); i++ {
		c := identChars[i]
		for pos := 0; pos < 4; pos++ {
			what := fmt.Sprintf("character %q %s in the label and in the value", c, posName[pos])
			if !checkAccept(place(c, pos), "v"+place(c, pos), what) || !checkAccept("L"+place(c, (pos+1)%4), place(c, pos), what) {
				return
			}
		}
	}
	vlib.Exhaustive("C20 identifier characters: each of the 63 characters of [A-Za-z0-9_] first / middle / last / alone, in a label and in a value", int64(len(identChars)*4*2), "parse, verdicts, print, re-parse; every shard")
	// ---- every outside character, every position
	for _, c := range outsideChars {
		for pos := 0; pos < 4; pos++ {
			what := fmt.Sprintf("character %q (outside the identifier class) %s", c, posName[pos])
			if !checkReject(place(c, pos)+":v1", what+" in the label") || !checkReject("l1:"+place(c, pos), what+" in the value") ||
				!checkReject("not "+place(c, pos)+":v1 and a:1", what+" in the label") {
				return
			}
		}
	}
	// ---- keywords are lower case only; other cases and supersets are identifiers
	for _, id := range []string{"AND", "OR", "NOT", "And", "oR", "nOt", "andx", "xand", "ort", "not1", "_and", "and_", "_", "__", "0", "007", "9z", "Zz", "a0Z9_"} {
		if !checkAccept(id, "v1", "identifier "+id+" as label") || !checkAccept("l1", id, "identifier "+id+" as value") {
			return
		}
	}
	for _, src := range []string{"and:1", "a:or", "not:1", "a:not", "or:and", "a:1 AND b:2", "a:1 Or b:2", "NOT a:1", "a:1 && b:2", "a=1", "a:1,b:2", "a:1 and", "a:1\vand b:2", "a:1\fb:2", "a:1\u00a0and\u00a0b:2", "a:1 and\u2003b:2"} {
		if !checkReject(src, "keyword / separator misuse") {
			return
		}
	}
	// ---- blanks: space, tab, CR, LF in any mixture, none, long runs
	for _, b := range []string{" ", "\t", "\r", "\n", "\r\n", "\n\r", " \t\r\n ", strings.Repeat(" ", 300), strings.Repeat("\n", 70) + strings.Repeat("\t", 70)} {
		src := b + "not" + b + "(" + b + "a" + b + ":" + b + "1" + b + "and" + b + "b:2" + b + ")" + b + "or" + b + "c" + b + ":" + b + "0" + b
		F, err := abe.Parse(src)
		if err != nil {
			t.Fatalf("SELFTEST-FAIL %q: %v", src, err)
		}
		var p cpabe.Policy
		vlib.Eval(sub)
		if err := p.FromString(src); err != nil {
			vlib.ReportDirect(t, "C20/parse/rejects-valid-policy", fmt.Sprintf("FromString(%q) error %v (blank form %q)", src, err, b), map[string]interface{}{"policy": src})
			return
		}
		if i := firstDiff(truthTableOf(&p, 0), abe.TruthTable(F, alphabet)); i >= 0 {
			vlib.ReportDirect(t, "C20/satisfaction/"+verdictKey(!p.Satisfaction(allAttrs[i])), fmt.Sprintf("policy %q (blank form %q) differs from the reference at %s", src, b, allAssign[i].Text()), map[string]interface{}{"policy": src})
			return
		}
		vlib.NonTrivial(sub, "blank-form", []byte(b))
	}
	// ---- deep nesting (well inside the parser's bound): k parentheses, k negations, both
	for _, k := range []int{1, 2, 7, 64, 500, 2000} {
		for _, src := range []string{
			strings.Repeat("(", k) + "a:1" + strings.Repeat(")", k),
			strings.Repeat("not ", k) + "a:1",
			strings.Repeat("not(", k) + "a:1 and b:2" + strings.Repeat(")", k),
			strings.Repeat("(not ", k) + "a:1 or not b:2" + strings.Repeat(")", k) + " and c:0",
		} {
			F, err := abe.Parse(src)
			if err != nil {
				t.Fatalf("SELFTEST-FAIL nesting %d: %v", k, err)
			}
			var p cpabe.Policy
			vlib.Eval(sub)
			what := fmt.Sprintf("nesting depth %d, text %.40q…", k, src)
			if err := p.FromString(src); err != nil {
				vlib.ReportDirect(t, "C20/parse/rejects-valid-policy", fmt.Sprintf("FromString error %v (%s)", err, what), map[string]interface{}{"depth": k})
				return
			}
			want := abe.TruthTable(F, alphabet)
			if i := firstDiff(truthTableOf(&p, 0), want); i >= 0 {
				vlib.ReportDirect(t, "C20/satisfaction/"+verdictKey(want[i]), fmt.Sprintf("%s differs from the reference at %s", what, allAssign[i].Text()), map[string]interface{}{"depth": k})
				return
			}
			back, err := abe.Parse(p.String())
			if err != nil || firstDiff(abe.TruthTable(back, alphabet), want) >= 0 {
				vlib.ReportDirect(t, "C20/print/inequivalent", fmt.Sprintf("%s prints as %q", what, p.String()), map[string]interface{}{"depth": k})
				return
			}
			vlib.NonTrivial(sub, "deep-nesting", []byte(fmt.Sprint(k)), []byte(src[:3]))
		}
	}

	// ---- full cycles: one per admissible character (this shard's share), and one wide policy
	cycle := func(src string, sat, unsat abe.Assignment, what string, seedTag uint64) bool {
		const csub = "identifiers/cycle"
		vlib.Eval(csub)
		rp := map[string]interface{}{"policy": src, "what": what}
		F, err := abe.Parse(src)
		if err != nil {
			t.Fatalf("SELFTEST-FAIL %q: %v", src, err)
		}
		var p cpabe.Policy
		if err := p.FromString(src); err != nil {
			vlib.ReportDirect(t, "C20/parse/rejects-valid-policy", fmt.Sprintf("FromString(%q) error %v (%s)", src, err, what), rp)
			return false
		}
		msg := []byte("sweep " + what)
		encSeed := mix(uint64(vlib.Seed), 0x1de7, seedTag)
		ct, err := e.pk.Encrypt(vlib.NewReader(encSeed), p, msg)
		if err != nil {
			vlib.ReportDirect(t, "C20/encrypt/error", fmt.Sprintf("Encrypt under %q: %v (%s)", src, err, what), rp)
			return false
		}
		layouts := []struct {
			name string
			ct   []byte
		}{{"current", ct}}
		if legacy, _ := transcode(ct, encSeed); legacy != nil && seedTag%2 == 0 {
			layouts = append(layouts, struct {
				name string
				ct   []byte
			}{"legacy", legacy})
		}
		for si, a := range []abe.Assignment{sat, unsat} {
			want := abe.Eval(F, a)
			if want != (si == 0) {
				t.Fatalf("SELFTEST-FAIL sweep assignment %s for %q", a.Text(), src)
			}
			at := attrsOf(a)
			key, err := e.msk.KeyGen(vlib.NewReader(mix(uint64(vlib.Seed), 0x1de8, seedTag, uint64(si))), at)
			if err != nil {
				vlib.ReportDirect(t, "C20/keygen/error", fmt.Sprintf("KeyGen for %s: %v (%s)", a.Text(), err, what), rp)
				return false
			}
			for _, lay := range layouts {
				if !verdictsOn(t, csub, lay.name, what+", policy "+fmt.Sprintf("%.60q", src), lay.ct, &key, &at, a.Text(), want, msg, nil, rp) {
					return false
				}
			}
		}
		// the policy travels through the ciphertext and still prints / parses
		var px, p2 cpabe.Policy
		if err := px.ExtractFromCiphertext(ct); err != nil {
			vlib.ReportDirect(t, "C20/extract-current/error", fmt.Sprintf("ExtractFromCiphertext: %v (%s)", err, what), rp)
			return false
		}
		if err := p2.FromString(px.String()); err != nil {
			vlib.ReportDirect(t, "C20/print-parse/rejected", fmt.Sprintf("the policy extracted from the ciphertext prints as %q, which FromString rejects: %v (%s)", px.String(), err, what), rp)
			return false
		}
		for _, a := range []abe.Assignment{sat, unsat} {
			if want := abe.Eval(F, a); px.Satisfaction(attrsOf(a)) != want || p2.Satisfaction(attrsOf(a)) != want {
				vlib.ReportDirect(t, "C20/extract-current/inequivalent", fmt.Sprintf("extracted / re-parsed policy differs from the reference at %s (%s)", a.Text(), what), rp)
				return false
			}
		}
		vlib.NonTrivial(csub, "cycle", []byte(src))
		return true
	}
	for i := 0; i < len(identChars); i++ {
		if i%vlib.NShards != vlib.Shard {
			continue
		}
		c := identChars[i]
		pos := (i/vlib.NShards + vlib.Seed) % 4
		label, value := place(c, pos), place(c, (pos+1)%4)
		src := label + ":" + value
		sat, unsat := abe.Assignment{label: value}, abe.Assignment{label: value + "_"}
		if i%3 == 1 {
			src = "not " + src
			sat, unsat = unsat, sat
		}
		if i%3 == 2 {
			unsat = abe.Assignment{label + "_": value}
		}
		if !cycle(src, sat, unsat, fmt.Sprintf("character %q %s in the label, %s in the value", c, posName[pos], posName[(pos+1)%4]), uint64(i)) {
			return
		}
	}
	wide := []string{
		"a:0 and b:1 and c:2 and d:0 and (a:1 or b:1) and (c:2 or not d:1) and not a:2 and not b:0 and (c:0 or c:1 or c:2) and d:0",
		"a:0 or b:0 or c:0 or d:0 or a:1 and b:1 and c:1 and d:1 or not (a:2 or b:2 or c:2 or d:2) and a:0",
		"not (a:1 and b:1 and c:1) and not (a:2 or b:2) and (a:0 or b:0 or c:0 or d:0 or d:1 or d:2) and not not (c:2 or c:0)",
		"((a:0 and b:0) or (a:1 and b:1) or (a:2 and b:2)) and ((c:0 and d:0) or (c:1 and d:1) or not (c:2 or d:2 or a:0))",
	}
	{
		src := wide[(vlib.Shard+vlib.Seed)%len(wide)]
		F, err := abe.Parse(src)
		if err != nil {
			t.Fatalf("SELFTEST-FAIL %v", err)
		}
		tt := abe.TruthTable(F, alphabet)
		sat, unsat := -1, -1
		for k := range tt {
			i := (k*97 + 13*vlib.Seed) % len(tt)
			if tt[i] && sat < 0 {
				sat = i
			}
			if !tt[i] && unsat < 0 && len(allAssign[i]) >= 3 {
				unsat = i
			}
		}
		if sat >= 0 && unsat >= 0 {
			if !cycle(src, allAssign[sat], allAssign[unsat], fmt.Sprintf("wide policy with %d leaves", F.Leaves()), 1000+uint64(vlib.Shard)) {
				return
			}
			vlib.Class("identifiers/cycle", fmt.Sprintf("wide-policy-leaves=%d", F.Leaves()))
		}
	}
	_ = bytes.Equal
}
