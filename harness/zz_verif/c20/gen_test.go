//go:build verif

package c20

import (
	"strings"

	"github.com/cloudflare/circl/zz_verif/ref/abe"
	"pgregory.net/rapid"
)

var alphabet = abe.Alphabet{Labels: []string{"a", "b", "c", "d"}, Values: []string{"0", "1", "2"}}

const (
	maxLeaves = 6
	maxDepth  = 4
)

func minDepth(l int) int {
	d := 0
	for (1 << d) < l {
		d++
	}
	return d
}

// genFormula draws F ::= leaf | (F and F) | (F or F) | not F with at most
// maxLeaves leaves and depth at most maxDepth. The label pool is drawn per
// formula (1..4 labels) so that repeated labels are frequent.
func genFormula(t *rapid.T) *abe.Node {
	leaves := rapid.SampledFrom([]int{1, 2, 2, 3, 3, 3, 4, 4, 4, 5, 5, 6, 6}).Draw(t, "leaves")
	pool := rapid.IntRange(1, len(alphabet.Labels)).Draw(t, "labelPool")
	off := rapid.IntRange(0, len(alphabet.Labels)-1).Draw(t, "labelOff")
	labels := make([]string, pool)
	for i := range labels {
		labels[i] = alphabet.Labels[(off+i)%len(alphabet.Labels)]
	}
	vpool := rapid.IntRange(1, len(alphabet.Values)).Draw(t, "valuePool")
	return genNode(t, leaves, maxDepth, labels, alphabet.Values[:vpool])
}

func genNode(t *rapid.T, leaves, budget int, labels, values []string) *abe.Node {
	maxNots := budget - minDepth(leaves)
	k := 0
	if maxNots > 0 {
		k = rapid.SampledFrom([]int{0, 0, 0, 0, 0, 0, 1, 1, 1, 2, 2, 3, 4}).Draw(t, "nots")
		if k > maxNots {
			k = maxNots
		}
	}
	budget -= k
	var n *abe.Node
	if leaves == 1 {
		n = abe.NewLeaf(rapid.SampledFrom(labels).Draw(t, "label"), rapid.SampledFrom(values).Draw(t, "value"))
	} else {
		var splits []int
		for l1 := 1; l1 < leaves; l1++ {
			if minDepth(l1) <= budget-1 && minDepth(leaves-l1) <= budget-1 {
				splits = append(splits, l1)
			}
		}
		l1 := rapid.SampledFrom(splits).Draw(t, "split")
		l := genNode(t, l1, budget-1, labels, values)
		r := genNode(t, leaves-l1, budget-1, labels, values)
		if rapid.Bool().Draw(t, "isAnd") {
			n = abe.NewAnd(l, r)
		} else {
			n = abe.NewOr(l, r)
		}
	}
	for i := 0; i < k; i++ {
		n = abe.NewNot(n)
	}
	return n
}

// ---------------------------------------------------------------------------
// rendering: parentheses only where the grammar needs them (not > and > or,
// binary operators associate to the left) plus random redundant ones, and
// random blanks between tokens (at least one between two words).

type renderStats struct {
	redundantParens int
	droppedParens   int
	oddBlanks       bool
}

func prec(n *abe.Node) int {
	switch n.Kind {
	case abe.Or:
		return 1
	case abe.And:
		return 2
	case abe.Not:
		return 3
	}
	return 4
}

// style: 0 = minimal parentheses, 1 = fully parenthesised operators, 2 = random
func renderTokens(t *rapid.T, n *abe.Node, need int, style int, st *renderStats) []string {
	var toks []string
	switch n.Kind {
	case abe.Leaf:
		toks = []string{n.Label, ":", n.Value}
	case abe.Not:
		toks = append([]string{"not"}, renderTokens(t, n.L, 3, style, st)...)
	case abe.And:
		toks = append(renderTokens(t, n.L, 2, style, st), "and")
		toks = append(toks, renderTokens(t, n.R, 3, style, st)...)
	default:
		toks = append(renderTokens(t, n.L, 1, style, st), "or")
		toks = append(toks, renderTokens(t, n.R, 2, style, st)...)
	}
	wrap := prec(n) < need
	if !wrap {
		switch style {
		case 0:
			if n.Kind == abe.And || n.Kind == abe.Or {
				st.droppedParens++
			}
		case 1:
			if n.Kind == abe.And || n.Kind == abe.Or {
				wrap = true
				st.redundantParens++
			}
		default:
			if rapid.IntRange(0, 3).Draw(t, "paren") == 0 {
				wrap = true
				st.redundantParens++
			} else if n.Kind == abe.And || n.Kind == abe.Or {
				st.droppedParens++
			}
		}
	}
	if wrap {
		toks = append(append([]string{"("}, toks...), ")")
		if style == 2 && rapid.IntRange(0, 9).Draw(t, "paren2") == 0 {
			toks = append(append([]string{"("}, toks...), ")")
			st.redundantParens++
		}
	}
	return toks
}

func isWord(tok string) bool { return tok != "(" && tok != ")" && tok != ":" }

var blanks = []string{"", "", " ", " ", " ", "  ", "\t", "\n", "\r\n", " \t ", "\r", "\n\n \r"}

func joinTokens(t *rapid.T, toks []string, plain bool, st *renderStats) string {
	var b strings.Builder
	if !plain {
		b.WriteString(rapid.SampledFrom(blanks).Draw(t, "lead"))
	}
	for i, tok := range toks {
		b.WriteString(tok)
		if i == len(toks)-1 {
			break
		}
		sep := " "
		if plain {
			// the library's own print style: "a:1", "(x and y)", "not a:1"
			if tok == "(" || toks[i+1] == ")" || tok == ":" || toks[i+1] == ":" {
				sep = ""
			}
		} else {
			sep = rapid.SampledFrom(blanks).Draw(t, "blank")
			if sep != "" && sep != " " {
				st.oddBlanks = true
			}
			if sep == "" && isWord(tok) && isWord(toks[i+1]) {
				sep = " "
			}
		}
		b.WriteString(sep)
	}
	if !plain {
		b.WriteString(rapid.SampledFrom(blanks).Draw(t, "trail"))
	}
	return b.String()
}

// render draws one textual form of the formula.
func render(t *rapid.T, n *abe.Node) (string, renderStats) {
	var st renderStats
	style := rapid.SampledFrom([]int{0, 1, 2, 2}).Draw(t, "parenStyle")
	toks := renderTokens(t, n, 0, style, &st)
	plain := rapid.IntRange(0, 3).Draw(t, "plainBlanks") == 0
	return joinTokens(t, toks, plain, &st), st
}
