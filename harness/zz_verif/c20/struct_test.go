//go:build verif

package c20

import (
	"encoding/binary"
	"fmt"
	"testing"

	cpabe "github.com/cloudflare/circl/abe/cpabe/tkn20"
	"github.com/cloudflare/circl/zz_verif/ref/abe"
	"github.com/cloudflare/circl/zz_verif/vlib"
)

// Structured multi-part alterations of a valid ciphertext. The oracle is the
// one of the single-bit relation: Decrypt fails or returns exactly the
// original message.
//
//	(a) every length field of the layout is set to a boundary value
//	    (0, 1, len-1, len+1, the field's maximum, half) in one of four ways —
//	    field only; item truncated/extended to match with the enclosing
//	    length fields updated; the same with stale enclosing fields; item
//	    resized but the field left alone — combined with no flip or one bit
//	    flip in the delimited region (first / last byte), in the regions on
//	    either side, and in the id, the message and the tag;
//	(b) pairs of single-bit flips: every bit of every length field × one bit
//	    of every other region, and one bit × one bit for every pair of the
//	    remaining regions.

type lenField struct {
	name      string // region name of the field
	off, w    int    // offset and width of the field
	cur       int    // its honest value = length of the item that follows
	enclosing []int  // indices (into the field list) of the fields whose items contain this one
}

// lengthFields lists the length prefixes of a well-formed ciphertext.
func lengthFields(ct []byte, rs []region) []lenField {
	find := func(name string) (region, bool) {
		for _, r := range rs {
			if r.name == name {
				return r, true
			}
		}
		return region{}, false
	}
	var fs []lenField
	idx := map[string]int{}
	add := func(name string, enclosing ...string) {
		r, ok := find(name)
		if !ok {
			return
		}
		w := r.to - r.from
		var cur int
		if w == 2 {
			cur = int(binary.LittleEndian.Uint16(ct[r.from:]))
		} else {
			cur = int(binary.LittleEndian.Uint32(ct[r.from:]))
		}
		f := lenField{name: name, off: r.from, w: w, cur: cur}
		for _, e := range enclosing {
			if i, ok := idx[e]; ok {
				f.enclosing = append(f.enclosing, i)
			}
		}
		idx[name] = len(fs)
		fs = append(fs, f)
	}
	add("id-len")
	add("macdata-len")
	add("header-len", "macdata-len")
	add("policy-len", "macdata-len", "header-len")
	add("env-len", "macdata-len")
	add("tag-len")
	return fs
}

func putLen(b []byte, off, w int, v uint64) {
	if w == 2 {
		binary.LittleEndian.PutUint16(b[off:], uint16(v))
	} else {
		binary.LittleEndian.PutUint32(b[off:], uint32(v))
	}
}

const (
	modeFieldOnly = iota
	modeResizeFixOuter
	modeResizeStaleOuter
	modeResizeItemOnly
	nModes
)

var modeNames = []string{"field-only", "item-resized,enclosing-fields-updated", "item-resized,enclosing-fields-stale", "item-resized,field-unchanged"}

// structEdit applies one length-field alteration to src (which has the layout of the honest ciphertext).
func structEdit(src []byte, fs []lenField, fi int, v uint64, mode int) ([]byte, bool) {
	f := fs[fi]
	if f.off+f.w+f.cur > len(src) {
		return nil, false
	}
	out := append([]byte{}, src...)
	if mode == modeFieldOnly {
		putLen(out, f.off, f.w, v)
		return out, true
	}
	if v > uint64(f.cur)+64 { // the item cannot be extended to a "maximum" value
		return nil, false
	}
	nv := int(v)
	itemStart := f.off + f.w
	item := append([]byte{}, src[itemStart:itemStart+f.cur]...)
	if nv <= len(item) {
		item = item[:nv]
	} else {
		item = append(item, make([]byte, nv-len(item))...)
	}
	out = append(append(append([]byte{}, src[:itemStart]...), item...), src[itemStart+f.cur:]...)
	if mode != modeResizeItemOnly {
		putLen(out, f.off, f.w, v)
	}
	if mode == modeResizeFixOuter {
		for _, ei := range f.enclosing {
			e := fs[ei]
			nvOuter := e.cur + nv - f.cur
			if nvOuter < 0 {
				return nil, false
			}
			putLen(out, e.off, e.w, uint64(nvOuter))
		}
	}
	return out, true
}

func boundaryValues(cur, w int) []uint64 {
	max := uint64(1)<<(8*uint(w)) - 1
	vals := []uint64{0, 1, uint64(cur / 2), max, max - 1, 1 << 15}
	if cur > 0 {
		vals = append(vals, uint64(cur-1))
	}
	vals = append(vals, uint64(cur+1), uint64(cur+16))
	var out []uint64
	seen := map[uint64]bool{uint64(cur): true}
	for _, v := range vals {
		if v <= max && !seen[v] {
			seen[v] = true
			out = append(out, v)
		}
	}
	return out
}

func TestC20StructuredAlterations(t *testing.T) {
	defer vlib.Done()
	e := envOrFail(t)
	if e == nil {
		return
	}
	srcs := []string{"a:1 and not b:2", "not (a:0 and b:1) or c:2", "a:2", "not a:0 or (b:1 and c:1)"}
	src := srcs[vlib.Seed%len(srcs)]
	F, err := abe.Parse(src)
	if err != nil {
		t.Fatalf("SELFTEST-FAIL %v", err)
	}
	tt := abe.TruthTable(F, alphabet)
	var p cpabe.Policy
	if err := p.FromString(src); err != nil {
		vlib.ReportDirect(t, "C20/parse/rejects-valid-policy", err.Error(), map[string]interface{}{"policy": src})
		return
	}
	// all shards alter the same ciphertext: system keys that do not depend on the shard
	pk, msk, err := cpabe.Setup(vlib.NewReader(mix(uint64(vlib.Seed), 0x57c)))
	if err != nil {
		vlib.ReportDirect(t, "C20/setup/error", err.Error(), map[string]interface{}{})
		return
	}
	msg := []byte("structured alterations: the quick brown fox jumps over the lazy dog")
	encSeed := mix(uint64(vlib.Seed), 0x57c1)
	ct, err := pk.Encrypt(vlib.NewReader(encSeed), p, msg)
	if err != nil {
		vlib.ReportDirect(t, "C20/encrypt/error", err.Error(), map[string]interface{}{"policy": src})
		return
	}
	sat := -1
	for k := range tt {
		i := (k*31 + 7*vlib.Seed) % len(tt)
		if tt[i] {
			sat = i
			break
		}
	}
	if sat < 0 {
		t.Fatalf("SELFTEST-FAIL no satisfying assignment for %s", src)
	}
	key, err := msk.KeyGen(vlib.NewReader(mix(uint64(vlib.Seed), 0x57c2)), allAttrs[sat])
	if err != nil {
		vlib.ReportDirect(t, "C20/keygen/error", err.Error(), map[string]interface{}{})
		return
	}
	legacy, why := transcode(ct, encSeed)
	if legacy == nil {
		vlib.Note("C20: legacy transcoding unavailable in the structured alteration sweep: " + why)
	}
	for _, lay := range []struct {
		name string
		ct   []byte
	}{{"current", ct}, {"legacy", legacy}} {
		if lay.ct == nil {
			continue
		}
		if pt, err := key.Decrypt(lay.ct); err != nil || string(pt) != string(msg) {
			vlib.ReportDirect(t, "C20/decrypt-"+lay.name+"/rejects-satisfying", fmt.Sprintf("honest %s ciphertext does not decrypt: %v", lay.name, err), map[string]interface{}{"policy": src})
			return
		}
		rs := regions(lay.ct)
		es := envStart(rs)
		fs := lengthFields(lay.ct, rs)
		if len(fs) != 6 {
			vlib.Note(fmt.Sprintf("C20: structured sweep found %d length fields in the %s layout (expected 6)", len(fs), lay.name))
		}
		ac := &altCtx{key: &key, attrs: &allAttrs[sat], attrsText: allAssign[sat].Text(), authorised: true, msg: msg,
			desc: "policy " + src, sub: "alter/structured-", diffKey: "C20/alteration/different-message"}
		failed := false
		n := 0
		try := func(ct2 []byte, where, alt string, header bool) bool {
			n++
			if n%vlib.NShards != vlib.Shard {
				return true
			}
			rep := func(k, detail string) bool {
				ok := vlib.ReportDirect(t, k, detail, map[string]interface{}{"policy": src, "layout": lay.name, "alteration": alt})
				if !ok {
					failed = true
				}
				return ok
			}
			// the header-only entry points are exercised on every third alteration that touches the header
			alteration(rep, ac, lay.ct, ct2, lay.name, where, alt, false, header && (n/vlib.NShards)%3 == 0)
			return !failed
		}
		regionIdx := func(name string) int {
			for i, r := range rs {
				if r.name == name {
					return i
				}
			}
			return -1
		}
		type flip struct {
			what string
			bit  int // -1: none
		}
		bitIn := func(r region, which string, salt int) int {
			switch which {
			case "first":
				return 8*r.from + salt%8
			case "last":
				return 8*(r.to-1) + salt%8
			}
			return 8*(r.from+(r.to-r.from)/2) + salt%8
		}
		// ---- (a) length field × boundary value × mode × flip
		for fi, f := range fs {
			ri := regionIdx(f.name)
			var flips []flip
			flips = append(flips, flip{"no flip", -1})
			addFlip := func(r region, which string) {
				flips = append(flips, flip{fmt.Sprintf("bit flip in the %s byte of region %s", which, r.name), bitIn(r, which, fi+vlib.Seed)})
			}
			if ri+1 < len(rs) { // the region the field delimits starts right after it
				addFlip(rs[ri+1], "first")
				addFlip(rs[ri+1], "last")
			}
			if ri > 0 {
				addFlip(rs[ri-1], "last")
			}
			// first region after the delimited item
			for _, r := range rs {
				if r.from >= f.off+f.w+f.cur {
					addFlip(r, "first")
					break
				}
			}
			for _, name := range []string{"id", "env-msg", "env-seed", "tag", "policy", "header-group-elements"} {
				if i := regionIdx(name); i >= 0 {
					addFlip(rs[i], "middle")
				}
			}
			for _, v := range boundaryValues(f.cur, f.w) {
				for mode := 0; mode < nModes; mode++ {
					for _, fl := range flips {
						base := lay.ct
						if fl.bit >= 0 {
							base = flipBit(lay.ct, fl.bit)
						}
						ct2, ok := structEdit(base, fs, fi, v, mode)
						if !ok {
							continue
						}
						alt := fmt.Sprintf("length field %s (honest value %d) → %d, %s; %s", f.name, f.cur, v, modeNames[mode], fl.what)
						header := f.off < es || (fl.bit >= 0 && fl.bit/8 < es)
						if !try(ct2, f.name, alt, header) {
							return
						}
						if n%vlib.NShards == vlib.Shard {
							vlib.Class("alter/structured-"+lay.name, "mode:"+modeNames[mode])
						}
					}
				}
			}
		}
		// ---- (b) pairs of single-bit flips
		isLen := map[int]bool{}
		for _, f := range fs {
			isLen[regionIdx(f.name)] = true
		}
		for ai, ra := range rs {
			for bi, rb := range rs {
				if bi == ai {
					continue
				}
				if isLen[ai] {
					// every bit of the length field × one bit of the other region
					for bitA := 8 * ra.from; bitA < 8*ra.to; bitA++ {
						bitB := bitIn(rb, []string{"first", "middle", "last"}[(bitA+bi)%3], bitA+vlib.Seed)
						alt := fmt.Sprintf("bit %d of byte %d (length field %s) and bit %d of byte %d (region %s)", bitA%8, bitA/8, ra.name, bitB%8, bitB/8, rb.name)
						if !try(flipBit(flipBit(lay.ct, bitA), bitB), ra.name+"+"+rb.name, alt, bitA/8 < es || bitB/8 < es) {
							return
						}
					}
				} else if !isLen[bi] && ai < bi {
					bitA := bitIn(ra, "middle", ai+vlib.Seed)
					bitB := bitIn(rb, "last", bi+vlib.Seed)
					alt := fmt.Sprintf("bit %d of byte %d (region %s) and bit %d of byte %d (region %s)", bitA%8, bitA/8, ra.name, bitB%8, bitB/8, rb.name)
					if !try(flipBit(flipBit(lay.ct, bitA), bitB), ra.name+"+"+rb.name, alt, bitA/8 < es || bitB/8 < es) {
						return
					}
				}
			}
		}
		if vlib.Shard == 0 {
			vlib.Exhaustive("C20 structured alterations of one honest "+lay.name+"-layout ciphertext: (length field × boundary value × 4 modes × flips) + (every bit of every length field × every other region) + region pairs", int64(n), "all shards together; policy "+src)
		}
	}
}
