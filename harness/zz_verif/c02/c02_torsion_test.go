//go:build verif

package c02

import (
	"crypto/sha256"
	"math/big"

	"github.com/cloudflare/circl/ecc/bls12381"
)

// Minimal affine arithmetic on E(Fp): y^2 = x^3 + 4 of BLS12-381 (math/big only), used to build
// points of the curve that are NOT in the order-r subgroup G1: the pairing ignores the cofactor
// component, so "signature + such a point" verifies in any verifier that forgets the subgroup test.
var (
	blsP, _ = new(big.Int).SetString("1a0111ea397fe69a4b1ba7b6434bacd764774b84f38512bf6730d2a0f6b0f6241eabfffeb153ffffb9feffffffffaaab", 16)
	blsR, _ = new(big.Int).SetString("73eda753299d7d483339d80809a1d80553bda402fffe5bfeffffffff00000001", 16)
)

type affPt struct {
	x, y *big.Int
	inf  bool
}

func fpAddPt(a, b affPt) affPt {
	if a.inf {
		return b
	}
	if b.inf {
		return a
	}
	p := blsP
	var lam *big.Int
	if a.x.Cmp(b.x) == 0 {
		if new(big.Int).Mod(new(big.Int).Add(a.y, b.y), p).Sign() == 0 {
			return affPt{inf: true}
		}
		num := new(big.Int).Mul(a.x, a.x)
		num.Mul(num, big.NewInt(3))
		den := new(big.Int).Lsh(a.y, 1)
		lam = num.Mul(num, den.ModInverse(den, p))
	} else {
		num := new(big.Int).Sub(b.y, a.y)
		den := new(big.Int).Sub(b.x, a.x)
		den.Mod(den, p)
		lam = num.Mul(num, den.ModInverse(den, p))
	}
	lam.Mod(lam, p)
	x := new(big.Int).Mul(lam, lam)
	x.Sub(x, a.x).Sub(x, b.x).Mod(x, p)
	y := new(big.Int).Sub(a.x, x)
	y.Mul(y, lam).Sub(y, a.y).Mod(y, p)
	return affPt{x: x, y: y}
}

func fpMulPt(k *big.Int, a affPt) affPt {
	r := affPt{inf: true}
	for i := k.BitLen() - 1; i >= 0; i-- {
		r = fpAddPt(r, r)
		if k.Bit(i) == 1 {
			r = fpAddPt(r, a)
		}
	}
	return r
}

// cofactorPoint returns a point of E(Fp) whose order divides the cofactor (so it lies outside G1).
func cofactorPoint(tag uint64) affPt {
	for c := uint64(0); ; c++ {
		h := sha256.Sum256([]byte{byte(tag), byte(tag >> 8), byte(tag >> 16), byte(c), byte(c >> 8), 'T'})
		h2 := sha256.Sum256(h[:])
		x := new(big.Int).SetBytes(append(h[:], h2[:16]...))
		x.Mod(x, blsP)
		rhs := new(big.Int).Exp(x, big.NewInt(3), blsP)
		rhs.Add(rhs, big.NewInt(4)).Mod(rhs, blsP)
		e := new(big.Int).Add(blsP, big.NewInt(1))
		e.Rsh(e, 2)
		y := new(big.Int).Exp(rhs, e, blsP)
		if new(big.Int).Exp(y, big.NewInt(2), blsP).Cmp(rhs) != 0 {
			continue
		}
		t := fpMulPt(blsR, affPt{x: x, y: y})
		if !t.inf {
			return t
		}
	}
}

func compressG1(a affPt) []byte {
	out := make([]byte, 48)
	if a.inf {
		out[0] = 0xc0
		return out
	}
	a.x.FillBytes(out)
	out[0] |= 0x80
	half := new(big.Int).Rsh(new(big.Int).Sub(blsP, big.NewInt(1)), 1)
	if a.y.Cmp(half) > 0 {
		out[0] |= 0x20
	}
	return out
}

// addCofactorPoint: for a compressed or uncompressed G1 encoding of a group member returns the
// compressed and the uncompressed encoding of (member + cofactor point), or nil.
func addCofactorPoint(enc []byte, tag uint64) (comp, uncomp []byte) {
	var g bls12381.G1
	if g.SetBytes(enc) != nil || g.IsIdentity() {
		return nil, nil
	}
	u := g.Bytes()
	s := affPt{x: new(big.Int).SetBytes(u[:48]), y: new(big.Int).SetBytes(u[48:])}
	s.x.SetBit(s.x, 383, 0).SetBit(s.x, 382, 0).SetBit(s.x, 381, 0)
	q := fpAddPt(s, cofactorPoint(tag))
	if q.inf {
		return nil, nil
	}
	uncomp = make([]byte, 96)
	q.x.FillBytes(uncomp[:48])
	q.y.FillBytes(uncomp[48:])
	return compressG1(q), uncomp
}

// uncompressedForm returns the uncompressed encoding of a compressed G1 / G2 element (nil if it does not decode).
func uncompressedForm(b []byte) []byte {
	switch len(b) {
	case 48:
		var p bls12381.G1
		if p.SetBytes(b) != nil {
			return nil
		}
		return p.Bytes()
	case 96:
		var p bls12381.G2
		if p.SetBytes(b) != nil {
			return nil
		}
		return p.Bytes()
	}
	return nil
}
