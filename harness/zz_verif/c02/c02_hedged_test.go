//go:build verif

package c02

import (
	"bytes"
	"fmt"
	"testing"

	"github.com/cloudflare/circl/sign/mldsa/mldsa44"
	"github.com/cloudflare/circl/sign/mldsa/mldsa65"
	"github.com/cloudflare/circl/sign/mldsa/mldsa87"
	"github.com/cloudflare/circl/zz_verif/vlib"
	"pgregory.net/rapid"
)

type mldsaPkg struct {
	name    string
	sigSize int
	// derive returns sign(msg, ctx, randomized) and verify(msg, ctx, sig) closures for the key of a seed
	derive func(seed *[32]byte) (func(msg, ctx []byte, randomized bool) ([]byte, error), func(msg, ctx, sig []byte) bool)
}

func mldsaPkgs() []mldsaPkg {
	return []mldsaPkg{
		{"ML-DSA-44", mldsa44.SignatureSize, func(seed *[32]byte) (func([]byte, []byte, bool) ([]byte, error), func([]byte, []byte, []byte) bool) {
			pk, sk := mldsa44.NewKeyFromSeed(seed)
			return func(m, c []byte, r bool) ([]byte, error) {
					sig := make([]byte, mldsa44.SignatureSize)
					return sig, mldsa44.SignTo(sk, m, c, r, sig)
				}, func(m, c, sig []byte) bool {
					return mldsa44.Verify(pk, m, c, sig)
				}
		}},
		{"ML-DSA-65", mldsa65.SignatureSize, func(seed *[32]byte) (func([]byte, []byte, bool) ([]byte, error), func([]byte, []byte, []byte) bool) {
			pk, sk := mldsa65.NewKeyFromSeed(seed)
			return func(m, c []byte, r bool) ([]byte, error) {
					sig := make([]byte, mldsa65.SignatureSize)
					return sig, mldsa65.SignTo(sk, m, c, r, sig)
				}, func(m, c, sig []byte) bool {
					return mldsa65.Verify(pk, m, c, sig)
				}
		}},
		{"ML-DSA-87", mldsa87.SignatureSize, func(seed *[32]byte) (func([]byte, []byte, bool) ([]byte, error), func([]byte, []byte, []byte) bool) {
			pk, sk := mldsa87.NewKeyFromSeed(seed)
			return func(m, c []byte, r bool) ([]byte, error) {
					sig := make([]byte, mldsa87.SignatureSize)
					return sig, mldsa87.SignTo(sk, m, c, r, sig)
				}, func(m, c, sig []byte) bool {
					return mldsa87.Verify(pk, m, c, sig)
				}
		}},
	}
}

// TestC02MLDSAHistory: the package-level SignTo of ML-DSA signs deterministically or hedged. Over a
// generated history of both kinds on one key (and a second key in between): every signature verifies
// for its (message, context) and for no other, and every deterministic signature of one (key, message,
// context) is the same bytes wherever in the history it is made — also right after hedged ones.
func TestC02MLDSAHistory(t *testing.T) {
	defer vlib.Done()
	for _, p := range mldsaPkgs() {
		p := p
		t.Run(p.name, func(t *testing.T) {
			sub := "mldsa-history/" + p.name
			vlib.Check(t, vlib.N(25, 250), func(t *rapid.T) {
				var seed, seed2 [32]byte
				copy(seed[:], vlib.EdgeBytes(t, 32, "seed"))
				copy(seed2[:], vlib.EdgeBytes(t, 32, "seed2"))
				signA, verifyA := p.derive(&seed)
				signB, verifyB := p.derive(&seed2)
				msgs := [][]byte{vlib.Msg(t, "m0"), vlib.Msg(t, "m1")}
				ctxs := [][]byte{nil, vlib.Bytes(t, 1, 40, "ctx")}
				det := map[string][]byte{}
				n := rapid.IntRange(3, 8).Draw(t, "steps")
				hist := ""
				hedgedBefore := false
				for i := 0; i < n; i++ {
					mi, ci := rapid.IntRange(0, 1).Draw(t, "mi"), rapid.IntRange(0, 1).Draw(t, "ci")
					randomized := rapid.Bool().Draw(t, "randomized")
					other := rapid.IntRange(0, 4).Draw(t, "otherKey") == 0
					sign, verify, who := signA, verifyA, "A"
					if other {
						sign, verify, who = signB, verifyB, "B"
					}
					vlib.Eval(sub)
					hist += fmt.Sprintf("%s.SignTo(m%d,ctx%d,randomized=%v) ", who, mi, ci, randomized)
					sig, err := sign(msgs[mi], ctxs[ci], randomized)
					if err != nil {
						vlib.Report(t, "C02/completeness/"+p.name+"/SignTo-error", fmt.Sprintf("seed=%x history: %s: %v", seed, hist, err))
						return
					}
					if !verify(msgs[mi], ctxs[ci], sig) {
						vlib.Report(t, "C02/completeness/"+p.name+"/history", fmt.Sprintf("seed=%x history: %s: the last signature is rejected", seed, hist))
						return
					}
					if !bytes.Equal(msgs[0], msgs[1]) && verify(msgs[1-mi], ctxs[ci], sig) {
						vlib.Report(t, "C02/accepts-altered/"+p.name+"/other-message", fmt.Sprintf("seed=%x history: %s: the signature verifies for the other message", seed, hist))
						return
					}
					if verify(msgs[mi], ctxs[1-ci], sig) {
						vlib.Report(t, "C02/accepts-altered/"+p.name+"/other-ctx", fmt.Sprintf("seed=%x history: %s: the signature verifies under the other context", seed, hist))
						return
					}
					if !randomized {
						k := fmt.Sprintf("%s/%d/%d", who, mi, ci)
						if prev, ok := det[k]; ok && !bytes.Equal(prev, sig) {
							vlib.Report(t, "C02/determinism/"+p.name+"/history", fmt.Sprintf("seed=%x history: %s: the deterministic signature differs from the one made earlier for the same key, message and context", seed, hist))
							return
						}
						det[k] = sig
						if hedgedBefore {
							vlib.NonTrivial(sub, "deterministic-after-hedged", seed[:], []byte(hist))
						}
					} else {
						hedgedBefore = true
					}
				}
				vlib.Sample(sub, "history", p.name+": "+hist)
			})
		})
	}
}
