//go:build verif

// C02 — signatures: honest ones verify; any altered key, message or signature fails.
package c02

import (
	"bytes"
	"crypto"
	"crypto/sha512"
	"fmt"
	"github.com/cloudflare/circl/ecc/bls12381"
	"golang.org/x/crypto/sha3"
	"math/big"
	"reflect"
	"strings"
	"sync"
	"testing"

	"github.com/cloudflare/circl/sign"
	"github.com/cloudflare/circl/sign/bls"
	"github.com/cloudflare/circl/sign/ed25519"
	"github.com/cloudflare/circl/sign/ed448"
	"github.com/cloudflare/circl/sign/schemes"
	"github.com/cloudflare/circl/zz_verif/vlib"
	"pgregory.net/rapid"
)

var (
	l25519, _ = new(big.Int).SetString("7237005577332262213973186563042994240857116359379907606001950938285454250989", 10)
	l448, _   = new(big.Int).SetString("181709681073901722637330951972001133588410340171829515070372549795146003961539585716195755291692375963310293709091662304773755859649779", 10)
)

// edScalar describes where an Edwards scalar S sits in a signature of a scheme.
type edScalar struct {
	off, n int
	order  *big.Int
}

func edScalarOf(s sign.Scheme) *edScalar {
	sz := s.SignatureSize()
	switch s.Name() {
	case "Ed25519":
		return &edScalar{32, 32, l25519}
	case "Ed448":
		return &edScalar{57, 57, l448}
	case "Ed25519-Dilithium2":
		return &edScalar{sz - 32, 32, l25519}
	case "Ed448-Dilithium3":
		return &edScalar{sz - 57, 57, l448}
	}
	return nil
}

// addOrder returns the signature with k times the group order added to the scalar S (nil if the
// result does not fit in the scalar's byte width).
func addOrder(sig []byte, e *edScalar, k int64) []byte {
	o := append([]byte{}, sig...)
	v := vlib.FromLE(o[e.off : e.off+e.n])
	v.Add(v, new(big.Int).Mul(e.order, big.NewInt(k)))
	if v.BitLen() > 8*e.n {
		return nil
	}
	copy(o[e.off:e.off+e.n], vlib.LE(v, e.n))
	return o
}

type verifier func(msg, sig []byte) bool

// expectReject runs the verifier on an altered tuple and reports acceptance or a panic.
func expectReject(t vlib.TB, sub, scheme, alt string, v verifier, msg, sig []byte, id ...[]byte) bool {
	vlib.Eval(sub)
	var ok bool
	if p, st := vlib.Catch(func() { ok = v(msg, sig) }); p != nil {
		return !vlib.Report(t, "C02/panic/"+scheme+"/Verify/"+vlib.PanicClass(p), fmt.Sprintf("alt=%s sig=%s msg=%s panic=%v\n%s", alt, vlib.Hex(sig), vlib.Hex(msg), p, st))
	}
	if ok {
		return !vlib.Report(t, "C02/accepts-altered/"+scheme+"/"+altClass(alt), fmt.Sprintf("alt=%s: Verify returned true; sig=%s msg=%s", alt, vlib.Hex(sig), vlib.Hex(msg)))
	}
	parts := append([][]byte{[]byte(scheme), []byte(alt), msg, sig}, id...)
	vlib.NonTrivial(sub, "alt="+altClass(alt), parts...)
	vlib.Sample(sub, altClass(alt), fmt.Sprintf("scheme=%s alt=%s msg=%s sig=%s → rejected", scheme, alt, vlib.Hex(msg), vlib.Hex(sig)))
	return true
}

func altClass(alt string) string {
	if i := strings.IndexAny(alt, "@→+="); i > 0 {
		return alt[:i]
	}
	return alt
}

// alterSig draws an alteration of a valid signature.
// listRegion describes a part of the signature that encodes a list of positions followed by running
// counts (the hint vector of Dilithium / ML-DSA: omega positions, then k counts): [end-width, end).
type listRegion struct{ end, width int }

func listRegionOf(s sign.Scheme) *listRegion {
	n := s.SignatureSize()
	switch s.Name() {
	case "Dilithium2", "ML-DSA-44":
		return &listRegion{n, 80 + 4}
	case "Dilithium3", "ML-DSA-65":
		return &listRegion{n, 55 + 6}
	case "Dilithium5", "ML-DSA-87":
		return &listRegion{n, 75 + 8}
	case "Ed25519-Dilithium2":
		return &listRegion{n - 64, 80 + 4}
	case "Ed448-Dilithium3":
		return &listRegion{n - 114, 55 + 6}
	}
	return nil
}

// sigRegion is set by the caller for schemes whose signatures contain a position list.
var sigRegion *listRegion

func alterSig(t *rapid.T, sig []byte, e *edScalar) (string, []byte) {
	kinds := []string{"sig-bitflip", "sig-bitflip", "sig-truncate", "sig-append", "sig-empty", "sig-random", "sig-zero-window", "sig-double", "sig-ramp"}
	if sigRegion != nil {
		kinds = append(kinds, "sig-ramp", "sig-ramp")
	}
	if e != nil {
		kinds = append(kinds, "sig-S-plus-L", "sig-S-plus-L", "sig-S-boundary")
	}
	k := rapid.SampledFrom(kinds).Draw(t, "sigalt")
	o := append([]byte{}, sig...)
	switch k {
	case "sig-bitflip":
		i := rapid.IntRange(0, 8*len(o)-1).Draw(t, "bit")
		o[i/8] ^= 1 << (i % 8)
		return fmt.Sprintf("sig-bitflip@%d", i), o
	case "sig-truncate":
		var l int
		if rapid.Bool().Draw(t, "nearEnd") {
			l = len(o) - rapid.IntRange(1, min(64, len(o))).Draw(t, "cut")
		} else {
			l = rapid.IntRange(0, len(o)-1).Draw(t, "tlen")
		}
		return fmt.Sprintf("sig-truncate→%d", l), vlib.Clip(o[:l])
	case "sig-append":
		extra := vlib.Bytes(t, 1, 16, "extra")
		if rapid.Bool().Draw(t, "zeroExtra") {
			for i := range extra {
				extra[i] = 0
			}
		}
		return fmt.Sprintf("sig-append+%d", len(extra)), append(o, extra...)
	case "sig-empty":
		return "sig-empty", []byte{}
	case "sig-random":
		vlib.FillRandom(t, o, "rs")
		return "sig-random", o
	case "sig-zero-window":
		w := rapid.IntRange(1, min(32, len(o))).Draw(t, "w")
		off := rapid.IntRange(0, len(o)-w).Draw(t, "off")
		changed := false
		for i := 0; i < w; i++ {
			if o[off+i] != 0 {
				changed = true
			}
			o[off+i] = 0
		}
		if !changed {
			o[off] = 1
		}
		return fmt.Sprintf("sig-zero-window@%d/%d", off, w), o
	case "sig-double":
		return "sig-double", append(o, sig...)
	case "sig-ramp":
		// a window overwritten with an increasing (or constant, or decreasing) progression a, a+d, a+2d, … saturating
		// at 0 and 255: sorted position lists and running counts that are well-formed but out of range
		if len(o) == 0 {
			return "sig-empty", o
		}
		end := len(o)
		w := rapid.IntRange(1, min(300, len(o))).Draw(t, "rw")
		if sigRegion != nil && sigRegion.end <= len(o) && rapid.IntRange(0, 3).Draw(t, "rlist") != 0 {
			end, w = sigRegion.end, sigRegion.width
			if rapid.IntRange(0, 3).Draw(t, "rpart") == 0 {
				w = rapid.IntRange(1, w).Draw(t, "rw2")
			}
		} else if rapid.Bool().Draw(t, "rany") {
			end = rapid.IntRange(w, len(o)).Draw(t, "rend")
		}
		a := rapid.IntRange(0, 255).Draw(t, "ra")
		if rapid.Bool().Draw(t, "ra0") {
			a = rapid.IntRange(0, 2).Draw(t, "ra1")
		}
		d := rapid.SampledFrom([]int{1, 1, 2, 3, 0, -1}).Draw(t, "rd")
		for i := 0; i < w; i++ {
			v := a + d*i
			if v > 255 {
				v = 255
			}
			if v < 0 {
				v = 0
			}
			o[end-w+i] = byte(v)
		}
		if bytes.Equal(o, sig) {
			o[end-1] ^= 1
		}
		return fmt.Sprintf("sig-ramp@%d/%d=%d+%d", end-w, w, a, d), o
	case "sig-S-boundary":
		// the scalar replaced by an exact boundary value of its range check: 0, 1, L-1, L, L+1, 2L, 2^k, all ones
		v := new(big.Int)
		kind := rapid.SampledFrom([]string{"L", "L", "L-1", "L+1", "2L", "0", "1", "max", "2^k"}).Draw(t, "sb")
		switch kind {
		case "L":
			v.Set(e.order)
		case "L-1":
			v.Sub(e.order, big.NewInt(1))
		case "L+1":
			v.Add(e.order, big.NewInt(1))
		case "2L":
			v.Lsh(e.order, 1)
		case "1":
			v.SetInt64(1)
		case "max":
			v.Sub(new(big.Int).Lsh(big.NewInt(1), uint(8*e.n)), big.NewInt(1))
		case "2^k":
			v.Lsh(big.NewInt(1), uint(rapid.IntRange(0, 8*e.n-1).Draw(t, "sbk")))
		}
		copy(o[e.off:e.off+e.n], vlib.LE(v, e.n))
		if bytes.Equal(o, sig) {
			o[0] ^= 1
		}
		return "sig-S-boundary=" + kind, o
	case "sig-S-plus-L":
		// S + k·L for every k that still fits the encoding: k = 1 is the classic malleability case,
		// larger k reach the unused top bits / the last byte of the scalar (k ≥ 4 for Ed448)
		kmax := int64(15)
		if e.n == 57 {
			kmax = 1023
		}
		k := int64(1)
		if rapid.Bool().Draw(t, "kbig") {
			k = rapid.Int64Range(2, kmax).Draw(t, "k")
		}
		if r := addOrder(sig, e, k); r != nil {
			return fmt.Sprintf("sig-S-plus-L=%d", k), r
		}
		if r := addOrder(sig, e, 1); r != nil {
			return "sig-S-plus-L=1", r
		}
		o[0] ^= 1
		return "sig-bitflip@0", o
	}
	return "sig-identity", o
}

func flipMsg(t *rapid.T, msg []byte) (string, []byte) {
	switch k := rapid.SampledFrom([]string{"msg-bitflip", "msg-truncate", "msg-extend"}).Draw(t, "msgalt"); {
	case k == "msg-bitflip" && len(msg) > 0:
		i := rapid.IntRange(0, 8*len(msg)-1).Draw(t, "mbit")
		o := append([]byte{}, msg...)
		o[i/8] ^= 1 << (i % 8)
		return fmt.Sprintf("msg-bitflip@%d", i), o
	case k == "msg-truncate" && len(msg) > 0:
		l := rapid.IntRange(0, len(msg)-1).Draw(t, "mlen")
		return fmt.Sprintf("msg-truncate→%d", l), vlib.Clip(msg[:l])
	default:
		return "msg-extend", append(append([]byte{}, msg...), rapid.Byte().Draw(t, "mb"))
	}
}

// otherCtx draws a context different from ctx: half of the time a near miss (one bit flipped in the
// first, the last or a drawn byte; one byte dropped or appended), otherwise an unrelated one.
func otherCtx(t *rapid.T, ctx string, label string) string {
	if len(ctx) > 0 && rapid.Bool().Draw(t, label+".near") {
		b := []byte(ctx)
		switch rapid.IntRange(0, 4).Draw(t, label+".nk") {
		case 0:
			b[len(b)-1] ^= 1 << rapid.IntRange(0, 7).Draw(t, label+".bit")
		case 1:
			b[0] ^= 1 << rapid.IntRange(0, 7).Draw(t, label+".bit")
		case 2:
			b[rapid.IntRange(0, len(b)-1).Draw(t, label+".pos")] ^= 1 << rapid.IntRange(0, 7).Draw(t, label+".bit")
		case 3:
			b = b[:len(b)-1]
		default:
			if len(b) < 255 {
				b = append(b, 0)
			} else {
				b[len(b)-1] ^= 0x80
			}
		}
		return string(b)
	}
	c2 := drawCtx(t, label)
	if c2 == ctx {
		c2 += "x"
		if len(c2) > 255 {
			c2 = c2[1:]
		}
	}
	return c2
}

func drawCtx(t *rapid.T, label string) string {
	switch rapid.IntRange(0, 5).Draw(t, label+".ck") {
	case 0:
		return ""
	case 1:
		return string(vlib.Bytes(t, 255, 255, label))
	case 2:
		return string(vlib.Bytes(t, 1, 1, label))
	default:
		return string(vlib.Bytes(t, 1, 255, label))
	}
}

// ---------------------------------------------------------------------------
// generic sign.Scheme API, all 10 registered schemes

func TestC02Schemes(t *testing.T) {
	defer vlib.Done()
	for _, s := range schemes.All() {
		s := s
		name := s.Name()
		t.Run(name, func(t *testing.T) {
			sub := "scheme/" + name
			e := edScalarOf(s)
			vlib.Check(t, vlib.N(150, 1500), func(t *rapid.T) {
				seed := vlib.EdgeBytes(t, s.SeedSize(), "seed")
				msg := vlib.Msg(t, "msg")
				var opts *sign.SignatureOpts
				ctx := ""
				if s.SupportsContext() {
					ctx = drawCtx(t, "ctx")
					if ctx != "" || rapid.Bool().Draw(t, "optsNonNil") {
						opts = &sign.SignatureOpts{Context: ctx}
					}
				}
				pk, sk := s.DeriveKey(seed)
				vlib.Eval(sub)
				sig := s.Sign(sk, msg, opts)
				if len(sig) != s.SignatureSize() {
					vlib.Report(t, "C02/size/"+name, fmt.Sprintf("signature has %d bytes, advertised %d", len(sig), s.SignatureSize()))
					return
				}
				if sig2 := s.Sign(sk, msg, opts); !bytes.Equal(sig, sig2) {
					vlib.Report(t, "C02/determinism/"+name, "two signatures of the same (key,msg,ctx) differ")
					return
				}
				// the same key used through its crypto.Signer interface in between (randomized / hedged for the
				// lattice schemes, with a reader of the harness): whatever that call does, the scheme's
				// deterministic signature of (key, msg, ctx) afterwards is still the same bytes
				if cs, ok := sk.(crypto.Signer); ok && rapid.IntRange(0, 2).Draw(t, "viaSigner") == 0 {
					var hsig []byte
					var herr error
					if p, st := vlib.Catch(func() { hsig, herr = cs.Sign(vlib.DrawReader(t, "hedge"), msg, crypto.Hash(0)) }); p != nil {
						vlib.Report(t, "C02/panic/"+name+"/crypto.Signer.Sign/"+vlib.PanicClass(p), fmt.Sprintf("seed=%x msg=%s: %v\n%s", seed, vlib.Hex(msg), p, st))
						return
					}
					if herr == nil && ctx == "" && !s.Verify(pk, msg, hsig, nil) {
						vlib.Report(t, "C02/completeness/"+name+"/crypto.Signer", fmt.Sprintf("signature made through crypto.Signer rejected: seed=%x msg=%s", seed, vlib.Hex(msg)))
						return
					}
					vlib.Class(sub, fmt.Sprintf("crypto.Signer-in-between err=%v", herr != nil))
					if sig3 := s.Sign(sk, msg, opts); !bytes.Equal(sig, sig3) {
						vlib.Report(t, "C02/determinism/"+name+"/after-crypto.Signer", fmt.Sprintf("seed=%x msg=%s ctx=%q: the deterministic signature changed after the key was used through crypto.Signer.Sign", seed, vlib.Hex(msg), ctx))
						return
					}
				}
				if !s.Verify(pk, msg, sig, opts) {
					vlib.Report(t, "C02/completeness/"+name, fmt.Sprintf("honest signature rejected: seed=%x msg=%s ctx=%q", seed, vlib.Hex(msg), ctx))
					return
				}
				pkb, err := pk.MarshalBinary()
				if err != nil || len(pkb) != s.PublicKeySize() {
					vlib.Report(t, "C02/size/"+name+"/pk", fmt.Sprintf("pk marshal err=%v len=%d adv=%d", err, len(pkb), s.PublicKeySize()))
					return
				}
				skb, err := sk.MarshalBinary()
				if err != nil || len(skb) != s.PrivateKeySize() {
					vlib.Report(t, "C02/size/"+name+"/sk", fmt.Sprintf("sk marshal err=%v len=%d adv=%d", err, len(skb), s.PrivateKeySize()))
					return
				}
				// the unmarshalled public key verifies too
				pk2, err := s.UnmarshalBinaryPublicKey(pkb)
				if err != nil || !s.Verify(pk2, msg, sig, opts) || !pk2.Equal(pk) {
					vlib.Report(t, "C02/completeness/"+name+"/unmarshalled-pk", fmt.Sprintf("err=%v", err))
					return
				}
				// ... and so does a key decoded with the type's own Unpack(*[N]byte) from an array the caller
				// re-uses afterwards (completeness must not depend on the caller keeping its buffer)
				if pk3, ok := unpackPublicKey(pk, pkb); ok {
					if !s.Verify(pk3, msg, sig, opts) || !pk3.Equal(pk) {
						vlib.Report(t, "C02/completeness/"+name+"/unpacked-pk", fmt.Sprintf("seed=%x: a public key decoded with Unpack, whose source array was overwritten afterwards, rejects the honest signature (Equal(original)=%v)", seed, pk3.Equal(pk)))
						return
					}
					vlib.Class(sub, "pk-via-Unpack")
				}
				vfy := func(m, sg []byte) bool { return s.Verify(pk, m, sg, opts) }
				idp := [][]byte{seed, []byte(ctx)}

				switch rapid.SampledFrom([]string{"sig", "sig", "sig", "msg", "key", "ctx", "pkbytes"}).Draw(t, "what") {
				case "sig":
					sigRegion = listRegionOf(s)
					alt, sig2 := alterSig(t, sig, e)
					sigRegion = nil
					if bytes.Equal(sig2, sig) {
						return
					}
					expectReject(t, sub, name, alt, vfy, msg, sig2, idp...)
				case "msg":
					alt, msg2 := flipMsg(t, msg)
					expectReject(t, sub, name, alt, vfy, msg2, sig, idp...)
				case "key":
					seed2 := vlib.EdgeBytes(t, s.SeedSize(), "seed2")
					if bytes.Equal(seed2, seed) {
						seed2[0] ^= 1
					}
					pkO, _ := s.DeriveKey(seed2)
					expectReject(t, sub, name, "other-key", func(m, sg []byte) bool { return s.Verify(pkO, m, sg, opts) }, msg, sig, seed2)
				case "ctx":
					if !s.SupportsContext() {
						return
					}
					ctx2 := otherCtx(t, ctx, "ctx2")
					if ctx2 == ctx {
						return
					}
					o2 := &sign.SignatureOpts{Context: ctx2}
					expectReject(t, sub, name, "other-ctx", func(m, sg []byte) bool { return s.Verify(pk, m, sg, o2) }, msg, sig, []byte(ctx2))
					// over-long context: verification false, signing refuses
					long := ctx + strings.Repeat("c", 256-len(ctx)+rapid.IntRange(0, 3).Draw(t, "over"))
					ol := &sign.SignatureOpts{Context: long}
					expectReject(t, sub, name, "ctx-too-long", func(m, sg []byte) bool { return s.Verify(pk, m, sg, ol) }, msg, sig, []byte(long))
					// the longest admissible context, differing in its last / first byte only (fixed-size dom buffers)
					{
						c255 := strings.Repeat("m", 254) + "x"
						s255 := s.Sign(sk, msg, &sign.SignatureOpts{Context: c255})
						for _, alt := range []string{strings.Repeat("m", 254) + "y", "n" + c255[1:], c255[:254], c255[:127] + "Z" + c255[128:]} {
							oa := &sign.SignatureOpts{Context: alt}
							expectReject(t, sub, name, "other-ctx-255", func(m, sg []byte) bool { return s.Verify(pk, m, sg, oa) }, msg, s255, []byte(alt))
						}
						if !s.Verify(pk, msg, s255, &sign.SignatureOpts{Context: c255}) {
							vlib.Report(t, "C02/completeness/"+name+"/ctx-255", "honest signature under a 255-byte context rejected")
							return
						}
					}
					// a one-byte length field that wraps: the signature a verifier would accept if it encoded
					// len(ctx) mod 256 — made under the context long[:n%256] on the message long[n%256:]‖msg
					{
						n := 256*rapid.IntRange(1, 2).Draw(t, "wrapk") + rapid.SampledFrom([]int{0, 0, 1, 7}).Draw(t, "wrapr")
						wl := strings.Repeat("w", n)
						r := n % 256
						wmsg := append([]byte(wl[r:]), msg...)
						wsig := s.Sign(sk, wmsg, &sign.SignatureOpts{Context: wl[:r]})
						ow := &sign.SignatureOpts{Context: wl}
						expectReject(t, sub, name, "ctx-length-wrap", func(m, sg []byte) bool { return s.Verify(pk, m, sg, ow) }, msg, wsig, []byte(wl))
					}
					var sl []byte
					p, _ := vlib.Catch(func() { sl = s.Sign(sk, msg, ol) })
					if p == nil && sl != nil {
						// a signature was produced for a 256+ byte context: it must at least not verify
						vlib.Class(sub, "sign-long-ctx-returned")
						if s.Verify(pk, msg, sl, ol) {
							vlib.Report(t, "C02/ctx-too-long-accepted/"+name, fmt.Sprintf("ctx of %d bytes signed and verified", len(long)))
							return
						}
					} else {
						vlib.Class(sub, "sign-long-ctx-refused")
					}
				case "pkbytes":
					i := rapid.IntRange(0, 8*len(pkb)-1).Draw(t, "pkbit")
					pkb2 := append([]byte{}, pkb...)
					pkb2[i/8] ^= 1 << (i % 8)
					var pk3 sign.PublicKey
					var err error
					if p, st := vlib.Catch(func() { pk3, err = s.UnmarshalBinaryPublicKey(pkb2) }); p != nil {
						vlib.Report(t, "C02/panic/"+name+"/UnmarshalBinaryPublicKey/"+vlib.PanicClass(p), fmt.Sprintf("pk bit %d: %v\n%s", i, p, st))
						return
					}
					if err != nil {
						vlib.Class(sub, "pkbytes-refused")
						vlib.NonTrivial(sub, "", pkb2)
						return
					}
					expectReject(t, sub, name, fmt.Sprintf("pk-bitflip@%d", i), func(m, sg []byte) bool { return s.Verify(pk3, m, sg, opts) }, msg, sig, pkb2)
				}
			})
		})
	}
}

// TestC02Enumerate: every single-bit flip and every truncation length of one
// signature per scheme (thorough tier).
func TestC02Enumerate(t *testing.T) {
	defer vlib.Done()
	if !vlib.Thorough() {
		t.Skip("thorough only")
	}
	for _, s := range schemes.All() {
		name := s.Name()
		sub := "enumerate/" + name
		seed := make([]byte, s.SeedSize())
		vlib.ExpandInto(seed, uint64(vlib.Seed)*31+7)
		msg := make([]byte, 77)
		vlib.ExpandInto(msg, uint64(vlib.Seed)*31+8)
		pk, sk := s.DeriveKey(seed)
		sig := s.Sign(sk, msg, nil)
		vfy := func(m, sg []byte) bool { return s.Verify(pk, m, sg, nil) }
		n := 0
		for i := 0; i < 8*len(sig); i++ {
			if i%vlib.NShards != vlib.Shard {
				continue
			}
			o := append([]byte{}, sig...)
			o[i/8] ^= 1 << (i % 8)
			if !expectRejectD(t, sub, name, fmt.Sprintf("sig-bitflip@%d", i), vfy, msg, o) {
				return
			}
			n++
		}
		for l := 0; l < len(sig); l++ {
			if l%vlib.NShards != vlib.Shard {
				continue
			}
			if !expectRejectD(t, sub, name, fmt.Sprintf("sig-truncate→%d", l), vfy, msg, vlib.Clip(sig[:l])) {
				return
			}
		}
		for l := 1; l <= 16; l++ {
			if !expectRejectD(t, sub, name, fmt.Sprintf("sig-append+%d", l), vfy, msg, append(append([]byte{}, sig...), make([]byte, l)...)) {
				return
			}
		}
		if vlib.Shard == 0 {
			vlib.Exhaustive("C02 all single-bit flips and all truncation lengths of one signature: "+name, int64(9*len(sig)), "all shards together")
		}
	}
}

type directTB struct {
	t      *testing.T
	replay map[string]interface{}
	failed bool
}

func (d *directTB) Fatalf(format string, args ...any) {
	d.failed = true
	msg := fmt.Sprintf(format, args...)
	key := "unknown"
	if i := strings.Index(msg, "key="); i >= 0 {
		key = strings.Fields(msg[i+4:])[0]
	}
	vlib.ReportDirect(d.t, key, msg, d.replay)
}
func (d *directTB) Logf(format string, args ...any) { d.t.Logf(format, args...) }

func expectRejectD(t *testing.T, sub, scheme, alt string, v verifier, msg, sig []byte) bool {
	d := &directTB{t: t, replay: map[string]interface{}{"scheme": scheme, "alt": alt, "msg": fmt.Sprintf("%x", msg), "sig": fmt.Sprintf("%x", sig)}}
	ok := expectReject(d, sub, scheme, alt, v, msg, sig)
	return ok && !d.failed
}

// ---------------------------------------------------------------------------
// package-level Ed25519 / Ed448 variants and mode separation

type edVariant struct {
	name   string
	sign   func(seed, msg []byte, ctx string) []byte
	verify func(pk, msg, sig []byte, ctx string) bool
	pub    func(seed []byte) []byte
	ctxMin int
	ed     *edScalar
	seedSz int
}

func edVariants() []edVariant {
	pub25 := func(seed []byte) []byte {
		return append([]byte{}, ed25519.NewKeyFromSeed(seed).Public().(ed25519.PublicKey)...)
	}
	pub448 := func(seed []byte) []byte {
		return append([]byte{}, ed448.NewKeyFromSeed(seed).Public().(ed448.PublicKey)...)
	}
	e25 := &edScalar{32, 32, l25519}
	e448 := &edScalar{57, 57, l448}
	return []edVariant{
		{"Ed25519", func(seed, msg []byte, _ string) []byte { return ed25519.Sign(ed25519.NewKeyFromSeed(seed), msg) },
			func(pk, msg, sig []byte, _ string) bool { return ed25519.Verify(pk, msg, sig) }, pub25, -1, e25, 32},
		{"Ed25519ph", func(seed, msg []byte, ctx string) []byte {
			return ed25519.SignPh(ed25519.NewKeyFromSeed(seed), msg, ctx)
		},
			func(pk, msg, sig []byte, ctx string) bool { return ed25519.VerifyPh(pk, msg, sig, ctx) }, pub25, 0, e25, 32},
		{"Ed25519ctx", func(seed, msg []byte, ctx string) []byte {
			return ed25519.SignWithCtx(ed25519.NewKeyFromSeed(seed), msg, ctx)
		},
			func(pk, msg, sig []byte, ctx string) bool { return ed25519.VerifyWithCtx(pk, msg, sig, ctx) }, pub25, 1, e25, 32},
		{"Ed448", func(seed, msg []byte, ctx string) []byte { return ed448.Sign(ed448.NewKeyFromSeed(seed), msg, ctx) },
			func(pk, msg, sig []byte, ctx string) bool { return ed448.Verify(pk, msg, sig, ctx) }, pub448, 0, e448, 57},
		{"Ed448ph", func(seed, msg []byte, ctx string) []byte { return ed448.SignPh(ed448.NewKeyFromSeed(seed), msg, ctx) },
			func(pk, msg, sig []byte, ctx string) bool { return ed448.VerifyPh(pk, msg, sig, ctx) }, pub448, 0, e448, 57},
	}
}

func TestC02EdVariants(t *testing.T) {
	defer vlib.Done()
	vs := edVariants()
	for vi, v := range vs {
		v, vi := v, vi
		t.Run(v.name, func(t *testing.T) {
			sub := "edvariant/" + v.name
			vlib.Check(t, vlib.N(200, 2000), func(t *rapid.T) {
				seed := vlib.EdgeBytes(t, v.seedSz, "seed")
				msg := vlib.Msg(t, "msg")
				ctx := ""
				if v.ctxMin >= 0 {
					ctx = drawCtx(t, "ctx")
					if len(ctx) < v.ctxMin {
						ctx = "c"
					}
				}
				pk := v.pub(seed)
				vlib.Eval(sub)
				sig := v.sign(seed, msg, ctx)
				if !bytes.Equal(sig, v.sign(seed, msg, ctx)) {
					vlib.Report(t, "C02/determinism/"+v.name, "two signatures differ")
					return
				}
				if !v.verify(pk, msg, sig, ctx) {
					vlib.Report(t, "C02/completeness/"+v.name, fmt.Sprintf("honest signature rejected seed=%x ctx=%q msg=%s", seed, ctx, vlib.Hex(msg)))
					return
				}
				// VerifyAny with the matching options accepts
				if !verifyAny(v.name, pk, msg, sig, ctx) {
					vlib.Report(t, "C02/completeness/"+v.name+"/VerifyAny", "VerifyAny rejected an honest signature")
					return
				}
				idp := [][]byte{seed, []byte(ctx)}
				switch rapid.SampledFrom([]string{"sig", "sig", "mode", "mode", "ctx", "msg", "pklen"}).Draw(t, "what") {
				case "sig":
					alt, sig2 := alterSig(t, sig, v.ed)
					if bytes.Equal(sig2, sig) {
						return
					}
					expectReject(t, sub, v.name, alt, func(m, sg []byte) bool { return v.verify(pk, m, sg, ctx) }, msg, sig2, idp...)
				case "mode":
					// the same key, message and context under another variant of the same curve
					for wi, w := range vs {
						if wi == vi || w.seedSz != v.seedSz {
							continue
						}
						if len(ctx) < w.ctxMin {
							// e.g. Ed25519ctx needs a context; then VerifyWithCtx must return false by itself
						}
						if v.name == "Ed25519" || w.name == "Ed25519" {
							// pure Ed25519 has no context: compare with ctx "" on the other side too
						}
						w := w
						expectReject(t, sub, v.name, "mode→"+w.name, func(m, sg []byte) bool { return w.verify(pk, m, sg, ctx) }, msg, sig, idp...)
						if verifyAny(w.name, pk, msg, sig, ctx) {
							vlib.Report(t, "C02/accepts-altered/"+v.name+"/mode-VerifyAny", "VerifyAny under variant "+w.name+" accepted a "+v.name+" signature")
							return
						}
					}
					// the prehash relation: a signature over PH(msg) in a non-prehash variant is not a prehash-variant
					// signature over msg with the same context, and the other way round (only the dom flag separates them)
					{
						var ph []byte
						if v.seedSz == 32 {
							d := sha512.Sum512(msg)
							ph = d[:]
						} else {
							ph = make([]byte, 64)
							sha3.ShakeSum256(ph, msg)
						}
						vIsPh := strings.HasSuffix(v.name, "ph")
						for _, w := range vs {
							w := w
							if w.seedSz != v.seedSz || strings.HasSuffix(w.name, "ph") == vIsPh || len(ctx) < w.ctxMin || (w.ctxMin < 0 && ctx != "") {
								continue
							}
							if vIsPh {
								// v = ph over msg, presented to the non-ph variant w over PH(msg)
								expectReject(t, sub, v.name, "prehash→"+w.name, func(m, sg []byte) bool { return w.verify(pk, m, sg, ctx) }, ph, sig, idp...)
							} else {
								sigH := v.sign(seed, ph, ctx)
								expectReject(t, sub, v.name, "prehash→"+w.name, func(m, sg []byte) bool { return w.verify(pk, m, sg, ctx) }, msg, sigH, idp...)
							}
						}
					}
				case "ctx":
					if v.ctxMin < 0 {
						return
					}
					ctx2 := otherCtx(t, ctx, "ctx2")
					if ctx2 == ctx || len(ctx2) < v.ctxMin {
						return
					}
					expectReject(t, sub, v.name, "other-ctx", func(m, sg []byte) bool { return v.verify(pk, m, sg, ctx2) }, msg, sig, []byte(ctx2))
					{
						c255 := strings.Repeat("m", 254) + "x"
						s255 := v.sign(seed, msg, c255)
						for _, alt := range []string{strings.Repeat("m", 254) + "y", "n" + c255[1:], c255[:254], c255[:127] + "Z" + c255[128:]} {
							alt := alt
							expectReject(t, sub, v.name, "other-ctx-255", func(m, sg []byte) bool { return v.verify(pk, m, sg, alt) }, msg, s255, []byte(alt))
						}
						if !v.verify(pk, msg, s255, c255) {
							vlib.Report(t, "C02/completeness/"+v.name+"/ctx-255", "honest signature under a 255-byte context rejected")
							return
						}
					}
					long := strings.Repeat("L", 256+rapid.IntRange(0, 2).Draw(t, "over"))
					expectReject(t, sub, v.name, "ctx-too-long", func(m, sg []byte) bool { return v.verify(pk, m, sg, long) }, msg, sig, []byte(long))
					var sl []byte
					p, _ := vlib.Catch(func() { sl = v.sign(seed, msg, long) })
					if p == nil && v.verify(pk, msg, sl, long) {
						vlib.Report(t, "C02/ctx-too-long-accepted/"+v.name, "a 256+ byte context was signed and verified")
						return
					}
				case "msg":
					alt, msg2 := flipMsg(t, msg)
					expectReject(t, sub, v.name, alt, func(m, sg []byte) bool { return v.verify(pk, m, sg, ctx) }, msg2, sig, idp...)
				case "pklen":
					m := vlib.Mutate(t, pk, nil, "pk")
					if bytes.Equal(m.Out, pk) {
						return
					}
					expectReject(t, sub, v.name, "pk-"+m.Kind, func(mm, sg []byte) bool { return v.verify(m.Out, mm, sg, ctx) }, msg, sig, m.Out)
				}
			})
		})
	}
}

func verifyAny(variant string, pk, msg, sig []byte, ctx string) bool {
	switch variant {
	case "Ed25519":
		return ed25519.VerifyAny(pk, msg, sig, ed25519.SignerOptions{Hash: crypto.Hash(0), Scheme: ed25519.ED25519})
	case "Ed25519ph":
		return ed25519.VerifyAny(pk, msg, sig, ed25519.SignerOptions{Hash: crypto.SHA512, Context: ctx, Scheme: ed25519.ED25519Ph})
	case "Ed25519ctx":
		return ed25519.VerifyAny(pk, msg, sig, ed25519.SignerOptions{Hash: crypto.Hash(0), Context: ctx, Scheme: ed25519.ED25519Ctx})
	case "Ed448":
		return ed448.VerifyAny(pk, msg, sig, ed448.SignerOptions{Hash: crypto.Hash(0), Context: ctx, Scheme: ed448.ED448})
	case "Ed448ph":
		return ed448.VerifyAny(pk, msg, sig, ed448.SignerOptions{Hash: crypto.Hash(0), Context: ctx, Scheme: ed448.ED448Ph})
	}
	return false
}

// ---------------------------------------------------------------------------
// BLS, both key groups, with aggregation

func blsCase[K bls.KeyGroup](t *rapid.T, name string, k K) {
	sub := "bls/" + name
	keygen := func(label string) (*bls.PrivateKey[K], []byte) {
		ikm := vlib.Bytes(t, 32, 48, label+".ikm")
		salt := vlib.Bytes(t, 0, 32, label+".salt")
		info := vlib.Bytes(t, 0, 8, label+".info")
		sk, err := bls.KeyGen[K](ikm, salt, info)
		if err != nil {
			t.Fatalf("KeyGen: %v", err)
		}
		return sk, ikm
	}
	sk, ikm := keygen("k")
	pk := sk.PublicKey()
	msg := vlib.Msg(t, "msg")
	vlib.Eval(sub)
	sig := bls.Sign(sk, msg)
	wantLen := 96
	if name == "KeyG2SigG1" {
		wantLen = 48
	}
	if len(sig) != wantLen {
		vlib.Report(t, "C02/size/bls-"+name, fmt.Sprintf("signature %d bytes, expected %d", len(sig), wantLen))
		return
	}
	if !bytes.Equal(sig, bls.Sign(sk, msg)) {
		vlib.Report(t, "C02/determinism/bls-"+name, "two signatures differ")
		return
	}
	if !bls.Verify(pk, msg, sig) {
		vlib.Report(t, "C02/completeness/bls-"+name, fmt.Sprintf("honest signature rejected ikm=%x msg=%s", ikm, vlib.Hex(msg)))
		return
	}
	pkb, _ := pk.MarshalBinary()
	pk2 := new(bls.PublicKey[K])
	if err := pk2.UnmarshalBinary(pkb); err != nil || !bls.Verify(pk2, msg, sig) {
		vlib.Report(t, "C02/completeness/bls-"+name+"/unmarshalled-pk", fmt.Sprintf("err=%v", err))
		return
	}
	vfy := func(m, sg []byte) bool { return bls.Verify(pk, m, sg) }
	switch rapid.SampledFrom([]string{"sig", "sig", "msg", "key", "pkbytes", "identity-key", "identity-sig", "agg", "uncompressed", "cofactor"}).Draw(t, "what") {
	case "cofactor":
		// signature (or key) in G1 plus a point of the curve outside G1: on the curve, pairing-equivalent,
		// only the subgroup test tells it apart
		tag := uint64(rapid.IntRange(0, 1<<20).Draw(t, "cof"))
		if len(sig) == 48 {
			comp, unc := addCofactorPoint(sig, tag)
			if comp == nil {
				t.Fatalf("harness: cannot build signature + cofactor point")
			}
			expectReject(t, sub, "bls-"+name, "sig-plus-cofactor-point(compressed)", vfy, msg, comp, ikm)
			expectReject(t, sub, "bls-"+name, "sig-plus-cofactor-point(uncompressed)", vfy, msg, unc, ikm)
			expectReject(t, sub, "bls-"+name, "agg-sig-plus-cofactor-point", func(m, sg []byte) bool {
				return bls.VerifyAggregate([]*bls.PublicKey[K]{pk}, [][]byte{m}, sg)
			}, msg, comp, ikm)
		} else {
			for _, alt := range func() [][]byte { c, u := addCofactorPoint(pkb, tag); return [][]byte{c, u} }() {
				if alt == nil {
					t.Fatalf("harness: cannot build key + cofactor point")
				}
				pkA := new(bls.PublicKey[K])
				if err := pkA.UnmarshalBinary(alt); err != nil {
					vlib.Class(sub, "pk-plus-cofactor-point-refused-at-decode")
					vlib.NonTrivial(sub, "", alt)
					continue
				}
				if pkA.Validate() {
					vlib.Report(t, "C02/accepts-altered/bls-"+name+"/pk-plus-cofactor-point-validates", fmt.Sprintf("public key + point outside G1 decodes and validates: %x", alt))
					return
				}
				expectReject(t, sub, "bls-"+name, "pk-plus-cofactor-point", func(mm, sg []byte) bool { return bls.Verify(pkA, mm, sg) }, msg, sig, alt)
			}
		}
	case "uncompressed":
		// the uncompressed encoding of the same signature / key: every flag-bit combination other than
		// the honest one and every other single-bit flip of it must be refused as well
		unc := func(b []byte) []byte {
			if len(b) == 48 {
				var p bls12381.G1
				if p.SetBytes(b) != nil {
					return nil
				}
				return p.Bytes()
			}
			var p bls12381.G2
			if p.SetBytes(b) != nil {
				return nil
			}
			return p.Bytes()
		}
		su, pu := unc(sig), unc(pkb)
		if su == nil || pu == nil {
			t.Fatalf("harness: honest encodings do not decode")
		}
		if !bls.Verify(pk, msg, su) {
			vlib.Class(sub, "uncompressed-signature-not-accepted")
		} else {
			for f := 1; f < 8; f++ {
				alt := append([]byte{}, su...)
				alt[0] ^= byte(f) << 5
				expectReject(t, sub, "bls-"+name, fmt.Sprintf("sig-uncompressed-flags^%d", f), vfy, msg, alt, ikm)
			}
			alt := append([]byte{}, su...)
			pos := rapid.IntRange(0, len(alt)*8-1).Draw(t, "ubit")
			alt[pos/8] ^= 1 << (pos % 8)
			expectReject(t, sub, "bls-"+name, "sig-uncompressed-bitflip", vfy, msg, alt, ikm)
		}
		pkU := new(bls.PublicKey[K])
		if err := pkU.UnmarshalBinary(pu); err != nil || !bls.Verify(pkU, msg, sig) {
			vlib.Class(sub, "uncompressed-key-not-accepted")
		} else {
			for f := 1; f < 8; f++ {
				alt := append([]byte{}, pu...)
				alt[0] ^= byte(f) << 5
				pkA := new(bls.PublicKey[K])
				if err := pkA.UnmarshalBinary(alt); err != nil {
					vlib.Class(sub, "pk-uncompressed-flags-refused")
					continue
				}
				expectReject(t, sub, "bls-"+name, fmt.Sprintf("pk-uncompressed-flags^%d", f), func(mm, sg []byte) bool { return bls.Verify(pkA, mm, sg) }, msg, sig, alt)
			}
		}
	case "sig":
		alt, sig2 := alterSig(t, sig, nil)
		if bytes.Equal(sig2, sig) {
			return
		}
		expectReject(t, sub, "bls-"+name, alt, vfy, msg, sig2, ikm)
	case "msg":
		alt, msg2 := flipMsg(t, msg)
		expectReject(t, sub, "bls-"+name, alt, vfy, msg2, sig, ikm)
	case "key":
		sk2, ikm2 := keygen("k2")
		if sk2.Equal(sk) {
			return
		}
		pkO := sk2.PublicKey()
		expectReject(t, sub, "bls-"+name, "other-key", func(m, sg []byte) bool { return bls.Verify(pkO, m, sg) }, msg, sig, ikm2)
	case "pkbytes":
		m := vlib.Mutate(t, pkb, nil, "pk")
		if bytes.Equal(m.Out, pkb) {
			return
		}
		pk3 := new(bls.PublicKey[K])
		var err error
		if p, st := vlib.Catch(func() { err = pk3.UnmarshalBinary(m.Out) }); p != nil {
			vlib.Report(t, "C02/panic/bls-"+name+"/PublicKey.UnmarshalBinary/"+vlib.PanicClass(p), fmt.Sprintf("%s: %v\n%s", m, p, st))
			return
		}
		if err != nil {
			vlib.Class(sub, "pkbytes-refused")
			vlib.NonTrivial(sub, "", m.Out)
			return
		}
		if m.Kind != "append+" && len(m.Out) == len(pkb) {
			expectReject(t, sub, "bls-"+name, "pk-"+m.Kind, func(mm, sg []byte) bool { return bls.Verify(pk3, mm, sg) }, msg, sig, m.Out)
		} else {
			// a different-length encoding that still decodes (e.g. the uncompressed form) is not an alteration
			// named by the property; only count it
			vlib.Class(sub, "pk-otherlen-decoded")
		}
	case "identity-sig":
		// the point at infinity (compressed and uncompressed form) is no signature of anything
		idSig := make([]byte, len(sig))
		idSig[0] = 0xc0
		expectReject(t, sub, "bls-"+name, "sig-identity", vfy, msg, idSig, ikm)
		idSigU := make([]byte, 2*len(sig))
		idSigU[0] = 0x40
		expectReject(t, sub, "bls-"+name, "sig-identity-uncompressed", vfy, msg, idSigU, ikm)
		expectReject(t, sub, "bls-"+name, "agg-sig-identity", func(m, sg []byte) bool {
			return bls.VerifyAggregate([]*bls.PublicKey[K]{pk}, [][]byte{m}, sg)
		}, msg, idSig, ikm)
	case "identity-key":
		// the identity public key with the identity signature must not verify
		idPk := make([]byte, len(pkb))
		idPk[0] = 0xc0
		idSig := make([]byte, len(sig))
		idSig[0] = 0xc0
		// decoded into a fresh object or into the object that has just verified a signature (a key
		// object may be reused: nothing of the previous key may survive, e.g. a cached validation)
		pk3 := new(bls.PublicKey[K])
		reused := rapid.Bool().Draw(t, "reuseObject")
		if reused {
			pk3 = pk2
			vlib.Class(sub, "identity-key-into-used-object")
		}
		if err := pk3.UnmarshalBinary(idPk); err != nil {
			vlib.Class(sub, "identity-pk-refused-at-decode")
			return
		}
		if pk3.Validate() {
			vlib.Report(t, "C02/accepts-altered/bls-"+name+"/identity-key-validates", fmt.Sprintf("the identity public key passes Validate (decoded into a used object: %v)", reused))
			return
		}
		expectReject(t, sub, "bls-"+name, "identity-key", func(mm, sg []byte) bool { return bls.Verify(pk3, mm, sg) }, msg, idSig, ikm)
		expectReject(t, sub, "bls-"+name, "identity-key-agg", func(mm, sg []byte) bool {
			return bls.VerifyAggregate([]*bls.PublicKey[K]{pk3}, [][]byte{mm}, sg)
		}, msg, idSig, ikm)
	case "agg":
		n := rapid.IntRange(1, 4).Draw(t, "n")
		pubs := []*bls.PublicKey[K]{pk}
		msgs := [][]byte{msg}
		sigs := []bls.Signature{sig}
		for i := 1; i < n; i++ {
			ski, _ := keygen(fmt.Sprintf("ka%d", i))
			mi := append(vlib.Msg(t, "mi"), byte(i)) // distinct messages (basic scheme)
			pubs = append(pubs, ski.PublicKey())
			msgs = append(msgs, mi)
			sigs = append(sigs, bls.Sign(ski, mi))
		}
		agg, err := bls.Aggregate(k, sigs)
		if err != nil {
			vlib.Report(t, "C02/completeness/bls-"+name+"/Aggregate", fmt.Sprintf("err=%v", err))
			return
		}
		if !bls.VerifyAggregate(pubs, msgs, agg) {
			vlib.Report(t, "C02/completeness/bls-"+name+"/VerifyAggregate", fmt.Sprintf("honest aggregate of %d rejected", n))
			return
		}
		vlib.Class(sub, fmt.Sprintf("aggregate-n=%d", n))
		av := func(m, sg []byte) bool {
			ms := append([][]byte{m}, msgs[1:]...)
			return bls.VerifyAggregate(pubs, ms, sg)
		}
		if rapid.Bool().Draw(t, "aggAltSig") {
			alt, agg2 := alterSig(t, agg, nil)
			if !bytes.Equal(agg2, agg) {
				expectReject(t, sub, "bls-"+name, "agg-"+alt, av, msg, agg2, ikm)
			}
		} else {
			alt, msg2 := flipMsg(t, msg)
			expectReject(t, sub, "bls-"+name, "agg-"+alt, av, msg2, agg, ikm)
		}
		// lists of different lengths are documented to be refused ("the slices must have equal size"): extra,
		// never-signed messages or extra keys must not be ignored silently
		extraMsgs := append(append([][]byte{}, msgs...), []byte("never signed"))
		expectReject(t, sub, "bls-"+name, "agg-extra-message", func(m, sg []byte) bool {
			return bls.VerifyAggregate(pubs, extraMsgs, sg)
		}, msg, agg, ikm)
		extraPubs := append(append([]*bls.PublicKey[K]{}, pubs...), pubs[0])
		expectReject(t, sub, "bls-"+name, "agg-extra-key", func(m, sg []byte) bool {
			return bls.VerifyAggregate(extraPubs, msgs, sg)
		}, msg, agg, ikm)
		expectReject(t, sub, "bls-"+name, "agg-no-keys", func(m, sg []byte) bool {
			return bls.VerifyAggregate([]*bls.PublicKey[K]{}, [][]byte{}, sg)
		}, msg, agg, ikm)
		if n > 1 {
			// dropping one signer must fail
			expectReject(t, sub, "bls-"+name, "agg-drop-signer", func(m, sg []byte) bool {
				return bls.VerifyAggregate(pubs[:n-1], msgs[:n-1], sg)
			}, msg, agg, ikm)
		}
	}
}

// unpackPublicKey decodes enc into a new object of pk's type with its Unpack(*[N]byte) method and
// overwrites the array afterwards; ok is false for key types without such a method.
func unpackPublicKey(pk sign.PublicKey, enc []byte) (sign.PublicKey, bool) {
	pt := reflect.TypeOf(pk)
	if pt.Kind() != reflect.Ptr {
		return nil, false
	}
	obj := reflect.New(pt.Elem())
	m := obj.MethodByName("Unpack")
	if !m.IsValid() || m.Type().NumIn() != 1 || m.Type().NumOut() != 0 {
		return nil, false
	}
	at := m.Type().In(0)
	if at.Kind() != reflect.Ptr || at.Elem().Kind() != reflect.Array || at.Elem().Elem().Kind() != reflect.Uint8 || at.Elem().Len() != len(enc) {
		return nil, false
	}
	arr := reflect.New(at.Elem())
	reflect.Copy(arr.Elem(), reflect.ValueOf(enc))
	m.Call([]reflect.Value{arr})
	for i := 0; i < len(enc); i++ {
		arr.Elem().Index(i).SetUint(uint64(enc[i] ^ 0x5a))
	}
	out, ok := obj.Interface().(sign.PublicKey)
	return out, ok
}

// TestC02BLSFirstUse: the public key of a fresh private key requested by several goroutines at once
// (PublicKey() computes and caches it on first use): every caller gets the key, and the honest
// signature verifies under each copy.
func TestC02BLSFirstUse(t *testing.T) {
	defer vlib.Done()
	t.Run("KeyG1SigG2", func(t *testing.T) { blsFirstUse(t, "KeyG1SigG2", bls.G1{}) })
	t.Run("KeyG2SigG1", func(t *testing.T) { blsFirstUse(t, "KeyG2SigG1", bls.G2{}) })
}

func blsFirstUse[K bls.KeyGroup](t *testing.T, name string, k K) {
	sub := "bls-first-use/" + name
	vlib.Check(t, vlib.N(30, 300), func(t *rapid.T) {
		ikm := vlib.Bytes(t, 32, 48, "ikm")
		msg := vlib.Msg(t, "msg")
		workers := rapid.IntRange(2, 12).Draw(t, "workers")
		ref, err := bls.KeyGen[K](ikm, nil, nil)
		if err != nil {
			t.Fatalf("KeyGen: %v", err)
		}
		want, _ := ref.PublicKey().MarshalBinary()
		sig := bls.Sign(ref, msg)
		sk, _ := bls.KeyGen[K](ikm, nil, nil) // fresh object: its public key has not been computed yet
		vlib.Eval(sub)
		var wg sync.WaitGroup
		start := make(chan struct{})
		bad := make([]string, workers)
		for w := 0; w < workers; w++ {
			w := w
			wg.Add(1)
			go func() {
				defer wg.Done()
				<-start
				pk := sk.PublicKey()
				b, err := pk.MarshalBinary()
				switch {
				case err != nil || !bytes.Equal(b, want):
					bad[w] = fmt.Sprintf("PublicKey() gives %x (err %v), the key is %x", b, err, want)
				case !bls.Verify(pk, msg, sig):
					bad[w] = "honest signature rejected under the key returned by PublicKey()"
				}
			}()
		}
		close(start)
		wg.Wait()
		for w, b := range bad {
			if b != "" {
				vlib.Report(t, "C02/completeness/bls-"+name+"/concurrent-first-PublicKey", fmt.Sprintf("ikm=%x, %d goroutines, goroutine %d: %s", ikm, workers, w, b))
				return
			}
		}
		vlib.NonTrivial(sub, "concurrent-first-use", ikm, msg, []byte{byte(workers)})
	})
}

func TestC02BLS(t *testing.T) {
	defer vlib.Done()
	t.Run("KeyG1SigG2", func(t *testing.T) {
		vlib.Check(t, vlib.N(40, 300), func(t *rapid.T) { blsCase(t, "KeyG1SigG2", bls.G1{}) })
	})
	t.Run("KeyG2SigG1", func(t *testing.T) {
		vlib.Check(t, vlib.N(40, 300), func(t *rapid.T) { blsCase(t, "KeyG2SigG1", bls.G2{}) })
	})
}

// TestC02Volume: honest signatures always verify — a high-volume loop for the schemes whose signing
// is a rejection loop with rare corner branches (ML-DSA / Dilithium and the hybrids): every signature
// of a stream of messages under a fixed key must have the advertised size and verify.
func TestC02Volume(t *testing.T) {
	defer vlib.Done()
	var wg sync.WaitGroup
	for si, s := range schemes.All() {
		si, s := si, s
		name := s.Name()
		if !strings.Contains(name, "Dilithium") && !strings.Contains(name, "ML-DSA") {
			continue
		}
		wg.Add(1)
		go func() { // the schemes are independent: one goroutine each
			defer wg.Done()
			sub := "volume/" + name
			n := vlib.N(9000, 20000)
			seed := make([]byte, s.SeedSize())
			vlib.ExpandInto(seed, uint64(vlib.Seed)*1009+uint64(vlib.Shard)*31+uint64(si))
			pk, sk := s.DeriveKey(seed)
			msg := make([]byte, 16)
			for i := 0; i < n; i++ {
				vlib.ExpandInto(msg, uint64(vlib.Seed)<<40|uint64(vlib.Shard)<<32|uint64(i))
				sig := s.Sign(sk, msg, nil)
				if len(sig) != s.SignatureSize() || !s.Verify(pk, msg, sig, nil) {
					vlib.ReportDirect(t, "C02/completeness/"+name, fmt.Sprintf("honest signature rejected: seed=%x msg=%x", seed, msg),
						map[string]interface{}{"scheme": name, "seed": fmt.Sprintf("%x", seed), "msg": fmt.Sprintf("%x", msg)})
					break
				}
			}
			vlib.EvalN(sub, int64(n))
			vlib.NonTrivial(sub, "stream", seed)
			vlib.Sample(sub, "stream", fmt.Sprintf("scheme=%s seed=%x: %d messages signed and verified", name, seed, n))
		}()
	}
	wg.Wait()
}

// TestC02EdVolume: S + L (and S + k·L) must be rejected for EVERY signature, not only for most: a
// range check that looks at part of the scalar lets a small fraction through. A stream of signatures
// per Edwards variant, each altered by adding multiples of the order.
func TestC02EdVolume(t *testing.T) {
	defer vlib.Done()
	for _, v := range edVariants() {
		sub := "edvolume/" + v.name
		n := vlib.N(3000, 30000)
		seed := make([]byte, v.seedSz)
		vlib.ExpandInto(seed, uint64(vlib.Seed)*131+uint64(vlib.Shard)*17+uint64(len(v.name)))
		pk := v.pub(seed)
		ctx := ""
		if v.ctxMin >= 0 {
			ctx = "volume"
		}
		msg := make([]byte, 12)
		ks := []int64{1, 2, 3, 4, 8}
		for i := 0; i < n; i++ {
			vlib.ExpandInto(msg, uint64(vlib.Seed)<<40|uint64(vlib.Shard)<<32|uint64(i))
			sig := v.sign(seed, msg, ctx)
			k := ks[i%len(ks)]
			alt := addOrder(sig, v.ed, k)
			if alt == nil {
				alt = addOrder(sig, v.ed, 1)
			}
			vlib.Eval(sub)
			if v.verify(pk, msg, alt, ctx) {
				vlib.ReportDirect(t, "C02/accepts-altered/"+v.name+"/sig-S-plus-L", fmt.Sprintf("S+%d·L accepted: seed=%x msg=%x sig=%x", k, seed, msg, alt),
					map[string]interface{}{"variant": v.name, "seed": fmt.Sprintf("%x", seed), "msg": fmt.Sprintf("%x", msg), "sig": fmt.Sprintf("%x", alt)})
				break
			}
		}
		vlib.NonTrivial(sub, "stream", seed)
		vlib.Sample(sub, "stream", fmt.Sprintf("variant=%s seed=%x: %d signatures, S+kL (k in 1,2,3,4,8) rejected for each", v.name, seed, n))
	}
}
