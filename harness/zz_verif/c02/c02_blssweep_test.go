//go:build verif

package c02

import (
	"fmt"
	"testing"

	"github.com/cloudflare/circl/sign/bls"
	"github.com/cloudflare/circl/zz_verif/vlib"
)

// TestC02BLSBitSweep: every single-bit flip of one honest BLS signature and of one public key, in the
// compressed and in the uncompressed form, for both key groups (a sampled flip hits the three
// flag-adjacent bits of an inner limb with probability 3/768).
func TestC02BLSBitSweep(t *testing.T) {
	defer vlib.Done()
	blsSweep[bls.G1](t, "KeyG1SigG2")
	blsSweep[bls.G2](t, "KeyG2SigG1")
}

func blsSweep[K bls.KeyGroup](t *testing.T, name string) {
	sub := "bls-bit-sweep/" + name
	ikm := make([]byte, 32)
	vlib.ExpandInto(ikm, 0xB15+uint64(vlib.Seed))
	sk, err := bls.KeyGen[K](ikm, nil, nil)
	if err != nil {
		t.Fatalf("harness: KeyGen: %v", err)
	}
	pk := sk.PublicKey()
	msg := []byte("bit sweep message")
	sig := bls.Sign(sk, msg)
	pkb, _ := pk.MarshalBinary()
	forms := [][]byte{sig}
	if u := uncompressedForm(sig); u != nil && bls.Verify(pk, msg, u) {
		forms = append(forms, u)
	}
	n := 0
	for fi, base := range forms {
		for bit := 0; bit < 8*len(base); bit++ {
			if (bit+fi)%vlib.NShards != vlib.Shard {
				continue
			}
			alt := append([]byte{}, base...)
			alt[bit/8] ^= 1 << (bit % 8)
			if !expectRejectD(t, sub, "bls-"+name, fmt.Sprintf("sig-bitflip(sweep,form%d)@%d", fi, bit), func(m, sg []byte) bool { return bls.Verify(pk, m, sg) }, msg, alt) {
				return
			}
			n++
		}
	}
	pforms := [][]byte{pkb}
	if u := uncompressedForm(pkb); u != nil {
		pforms = append(pforms, u)
	}
	for fi, base := range pforms {
		for bit := 0; bit < 8*len(base); bit++ {
			if (bit+fi)%vlib.NShards != vlib.Shard {
				continue
			}
			alt := append([]byte{}, base...)
			alt[bit/8] ^= 1 << (bit % 8)
			pkA := new(bls.PublicKey[K])
			vlib.Eval(sub)
			if err := pkA.UnmarshalBinary(alt); err != nil {
				vlib.Class(sub, "pk-bitflip-refused-at-decode")
				n++
				continue
			}
			if !expectRejectD(t, sub, "bls-"+name, fmt.Sprintf("pk-bitflip(sweep,form%d)@%d", fi, bit), func(m, sg []byte) bool { return bls.Verify(pkA, m, sg) }, msg, sig) {
				return
			}
			n++
		}
	}
	vlib.Exhaustive(sub, int64(n), "all single-bit flips of one signature and one public key (compressed and uncompressed forms) of this shard")
}
