//go:build verif

// C10 — no byte string makes a parser, verifier, opener or decapsulator panic.
// Area: KEMs and HPKE. The machinery is in zz_verif/c10core.
package c10

import (
	"testing"

	core "github.com/cloudflare/circl/zz_verif/c10core"
)

type Entry = core.Entry

var registry []Entry

// Register adds entries (called from init functions of reg_*_test.go).
func Register(es ...Entry) { registry = append(registry, es...) }

func seedBytes(n int, tag uint64) []byte { return core.SeedBytes(n, tag) }
func mustB(b []byte, err error) []byte   { return core.MustB(b, err) }

func TestC10Registry(t *testing.T) { core.SelfTest(t, registry) }
func TestC10(t *testing.T)         { core.Run(t, registry) }
func TestC10Sweep(t *testing.T)    { core.Sweep(t, registry) }
func FuzzC10(f *testing.F)         { core.Fuzz(f, registry) }
