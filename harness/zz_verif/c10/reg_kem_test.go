//go:build verif

package c10

import (
	"github.com/cloudflare/circl/hpke"
	"github.com/cloudflare/circl/kem"
	"github.com/cloudflare/circl/kem/mlkem/mlkem1024"
	"github.com/cloudflare/circl/kem/mlkem/mlkem512"
	"github.com/cloudflare/circl/kem/mlkem/mlkem768"
	"github.com/cloudflare/circl/kem/schemes"
	"github.com/cloudflare/circl/kem/xwing"
	"github.com/cloudflare/circl/zz_verif/vlib"
)

func init() {
	all := append([]kem.Scheme{}, schemes.All()...)
	all = append(all, hpke.KEM_X25519_KYBER768_DRAFT00.Scheme(), hpke.KEM_XWING.Scheme())
	for _, s := range all {
		s := s
		name := "kem/" + s.Name()
		cost := 1
		if s.Name() == "FrodoKEM-640-SHAKE" {
			cost = 10
		}
		type kp struct {
			pk       kem.PublicKey
			sk       kem.PrivateKey
			pkb, skb []byte
			ct       []byte
		}
		var kps []kp
		for i := 0; i < 2; i++ {
			pk, sk := s.DeriveKeyPair(seedBytes(s.SeedSize(), uint64(i)))
			ct, _, err := s.EncapsulateDeterministically(pk, seedBytes(s.EncapsulationSeedSize(), uint64(10+i)))
			if err != nil {
				panic(err)
			}
			kps = append(kps, kp{pk, sk, mustB(pk.MarshalBinary()), mustB(sk.MarshalBinary()), ct})
		}
		Register(
			Entry{Name: name + ".UnmarshalBinaryPublicKey", Group: "kem", Cost: cost, NValid: 2,
				Call:  func(b []byte) { _, _ = s.UnmarshalBinaryPublicKey(b) },
				Valid: func(i int) []byte { return kps[i%2].pkb }},
			Entry{Name: name + ".UnmarshalBinaryPrivateKey", Group: "kem", Cost: cost, NValid: 2,
				Call:  func(b []byte) { _, _ = s.UnmarshalBinaryPrivateKey(b) },
				Valid: func(i int) []byte { return kps[i%2].skb }},
			Entry{Name: name + ".Decapsulate", Group: "kem", Cost: cost, NValid: 2,
				Call:  func(b []byte) { _, _ = s.Decapsulate(kps[0].sk, b) },
				Valid: func(i int) []byte { return kps[i%2].ct }},
		)
		// a private key that went through unmarshalling (different internal state, e.g. no cached public key)
		if sk2, err := s.UnmarshalBinaryPrivateKey(kps[0].skb); err == nil {
			Register(Entry{Name: name + ".Decapsulate-with-unmarshalled-sk", Group: "kem", Cost: cost, NValid: 2,
				Call:  func(b []byte) { _, _ = s.Decapsulate(sk2, b) },
				Valid: func(i int) []byte { return kps[i%2].ct }})
		}
		if as, ok := s.(kem.AuthScheme); ok && s.Name() != "HPKE_KEM_X25519_KYBER768_HKDF_SHA256" && s.Name() != "HPKE_KEM_XWING" {
			ct, _, err := as.AuthEncapsulateDeterministically(kps[0].pk, kps[1].sk, seedBytes(s.EncapsulationSeedSize(), 20))
			if err == nil {
				Register(Entry{Name: name + ".AuthDecapsulate", Group: "kem", Cost: cost,
					Call:  func(b []byte) { _, _ = as.AuthDecapsulate(kps[0].sk, b, kps[1].pk) },
					Valid: func(int) []byte { return ct }})
			}
		}
	}

	// HPKE receiver setup (all four modes) per KEM, context unmarshalling and Open
	psk, pskID, info := seedBytes(32, 30), seedBytes(8, 31), seedBytes(5, 32)
	for _, k := range []hpke.KEM{hpke.KEM_P256_HKDF_SHA256, hpke.KEM_P384_HKDF_SHA384, hpke.KEM_P521_HKDF_SHA512,
		hpke.KEM_X25519_HKDF_SHA256, hpke.KEM_X448_HKDF_SHA512, hpke.KEM_X25519_KYBER768_DRAFT00, hpke.KEM_XWING} {
		k := k
		s := k.Scheme()
		suite := hpke.NewSuite(k, hpke.KDF_HKDF_SHA256, hpke.AEAD_AES128GCM)
		pkR, skR := s.DeriveKeyPair(seedBytes(s.SeedSize(), 40))
		pkS, skS := s.DeriveKeyPair(seedBytes(s.SeedSize(), 41))
		sender, err := suite.NewSender(pkR, info)
		if err != nil {
			panic(err)
		}
		enc, sealer, err := sender.Setup(vlib.NewReader(42))
		if err != nil {
			panic(err)
		}
		name := "hpke/" + s.Name()
		newRecv := func() *hpke.Receiver {
			r, err := suite.NewReceiver(skR, info)
			if err != nil {
				panic(err)
			}
			return r
		}
		Register(
			Entry{Name: name + ".Receiver.Setup", Group: "hpke",
				Call:  func(b []byte) { _, _ = newRecv().Setup(b) },
				Valid: func(int) []byte { return enc }},
			Entry{Name: name + ".Receiver.SetupPSK", Group: "hpke",
				Call:  func(b []byte) { _, _ = newRecv().SetupPSK(b, psk, pskID) },
				Valid: func(int) []byte { return enc }},
		)
		if _, ok := s.(kem.AuthScheme); ok && k != hpke.KEM_X25519_KYBER768_DRAFT00 && k != hpke.KEM_XWING {
			encA, _, err := sender.SetupAuth(vlib.NewReader(43), skS)
			if err != nil {
				panic(err)
			}
			Register(
				Entry{Name: name + ".Receiver.SetupAuth", Group: "hpke",
					Call:  func(b []byte) { _, _ = newRecv().SetupAuth(b, pkS) },
					Valid: func(int) []byte { return encA }},
				Entry{Name: name + ".Receiver.SetupAuthPSK", Group: "hpke",
					Call:  func(b []byte) { _, _ = newRecv().SetupAuthPSK(b, psk, pskID, pkS) },
					Valid: func(int) []byte { return encA }},
			)
		}
		if k == hpke.KEM_X25519_HKDF_SHA256 {
			opener, err := newRecv().Setup(enc)
			if err != nil {
				panic(err)
			}
			ct, err := sealer.Seal([]byte("plaintext"), []byte("aad"))
			if err != nil {
				panic(err)
			}
			rawS := mustB(sealer.MarshalBinary())
			rawO := mustB(opener.MarshalBinary())
			// layout: role(1) kem(2) kdf(2) aead(2) then four uint8-length-prefixed fields
			lf := [][2]int{{7, 1}, {7 + 1 + 32, 1}, {7 + 1 + 32 + 1 + 16, 1}, {7 + 1 + 32 + 1 + 16 + 1 + 12, 1}}
			Register(
				Entry{Name: "hpke.UnmarshalSealer", Group: "hpke", LenFields: lf, IDFields: []int{1, 3, 5},
					Call: func(b []byte) {
						if s, err := hpke.UnmarshalSealer(b); err == nil && s != nil {
							_, _ = s.Seal([]byte("x"), nil)
							_ = s.Export([]byte("e"), 16)
						}
					},
					Valid: func(int) []byte { return rawS }},
				Entry{Name: "hpke.UnmarshalOpener", Group: "hpke", LenFields: lf, IDFields: []int{1, 3, 5},
					Call: func(b []byte) {
						if o, err := hpke.UnmarshalOpener(b); err == nil && o != nil {
							_, _ = o.Open(ct, []byte("aad"))
							_ = o.Export([]byte("e"), 16)
						}
					},
					Valid: func(int) []byte { return rawO }},
				Entry{Name: "hpke.Opener.Open", Group: "hpke",
					Call: func(b []byte) {
						o, err := hpke.UnmarshalOpener(rawO)
						if err != nil {
							panic(err)
						}
						_, _ = o.Open(b, []byte("aad"))
					},
					Valid: func(int) []byte { return ct }},
			)
		}
	}

	// package-level ML-KEM / X-Wing functions whose length precondition is documented (panic): exact length only
	{
		pk, sk := mlkem768.NewKeyFromSeed(seedBytes(mlkem768.KeySeedSize, 50))
		ct := make([]byte, mlkem768.CiphertextSize)
		ss := make([]byte, mlkem768.SharedKeySize)
		pk.EncapsulateTo(ct, ss, seedBytes(mlkem768.EncapsulationSeedSize, 51))
		pkb := make([]byte, mlkem768.PublicKeySize)
		pk.Pack(pkb)
		skb := make([]byte, mlkem768.PrivateKeySize)
		sk.Pack(skb)
		Register(
			Entry{Name: "mlkem768.PrivateKey.DecapsulateTo", Group: "kem", ExactLen: mlkem768.CiphertextSize,
				Call:  func(b []byte) { sk.DecapsulateTo(make([]byte, mlkem768.SharedKeySize), b) },
				Valid: func(int) []byte { return ct }},
			Entry{Name: "mlkem768.PublicKey.Unpack", Group: "kem",
				Call:  func(b []byte) { var p mlkem768.PublicKey; _ = p.Unpack(b) },
				Valid: func(int) []byte { return pkb }},
			Entry{Name: "mlkem768.PrivateKey.Unpack", Group: "kem",
				Call:  func(b []byte) { var p mlkem768.PrivateKey; _ = p.Unpack(b) },
				Valid: func(int) []byte { return skb }},
		)
	}
	{
		pk, sk := mlkem512.NewKeyFromSeed(seedBytes(mlkem512.KeySeedSize, 52))
		pkb := make([]byte, mlkem512.PublicKeySize)
		pk.Pack(pkb)
		skb := make([]byte, mlkem512.PrivateKeySize)
		sk.Pack(skb)
		Register(
			Entry{Name: "mlkem512.PublicKey.Unpack", Group: "kem",
				Call:  func(b []byte) { var p mlkem512.PublicKey; _ = p.Unpack(b) },
				Valid: func(int) []byte { return pkb }},
			Entry{Name: "mlkem512.PrivateKey.Unpack", Group: "kem",
				Call:  func(b []byte) { var p mlkem512.PrivateKey; _ = p.Unpack(b) },
				Valid: func(int) []byte { return skb }},
		)
	}
	{
		pk, sk := mlkem1024.NewKeyFromSeed(seedBytes(mlkem1024.KeySeedSize, 53))
		pkb := make([]byte, mlkem1024.PublicKeySize)
		pk.Pack(pkb)
		skb := make([]byte, mlkem1024.PrivateKeySize)
		sk.Pack(skb)
		Register(
			Entry{Name: "mlkem1024.PublicKey.Unpack", Group: "kem",
				Call:  func(b []byte) { var p mlkem1024.PublicKey; _ = p.Unpack(b) },
				Valid: func(int) []byte { return pkb }},
			Entry{Name: "mlkem1024.PrivateKey.Unpack", Group: "kem",
				Call:  func(b []byte) { var p mlkem1024.PrivateKey; _ = p.Unpack(b) },
				Valid: func(int) []byte { return skb }},
		)
	}
	{
		sk, pk := xwing.DeriveKeyPairPacked(seedBytes(xwing.SeedSize, 54))
		ss, ct, err := xwing.Encapsulate(pk, seedBytes(xwing.EncapsulationSeedSize, 55))
		_ = ss
		if err != nil {
			panic(err)
		}
		Register(Entry{Name: "xwing.Decapsulate", Group: "kem", ExactLen: xwing.CiphertextSize,
			Call:  func(b []byte) { _ = xwing.Decapsulate(b, sk) },
			Valid: func(int) []byte { return ct }})
	}
}
