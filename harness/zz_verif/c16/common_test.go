//go:build verif

// C16 — OPRF, DLEQ / Schnorr proofs and OT are complete and reject tampering.
package c16

import (
	"crypto"
	"crypto/elliptic"
	"encoding/hex"
	"encoding/json"
	"fmt"
	"math/big"
	"os"
	"path/filepath"
	"strings"
	"testing"

	"github.com/cloudflare/circl/group"
	"github.com/cloudflare/circl/oprf"
	"github.com/cloudflare/circl/zz_verif/vlib"
	"pgregory.net/rapid"
)

type suiteInfo struct {
	name  string
	suite oprf.Suite
	g     group.Group
	h     crypto.Hash
	order *big.Int
	le    bool // scalars little-endian (ristretto255)
	cost  int  // relative cost of one case (informative; P-521 dominates)
}

// cases picks the per-suite case count: quick counts are budgeted per suite so that the
// whole quick tier stays below ~60 s; the thorough tier runs `mult` times as many per shard.
func (si suiteInfo) cases(quick [4]int, mult int) int {
	for i := range allSuites {
		if allSuites[i].name == si.name {
			return vlib.N(quick[i], quick[i]*mult)
		}
	}
	return vlib.N(quick[0], quick[0]*mult)
}

func mustBig(s string) *big.Int {
	v, ok := new(big.Int).SetString(s, 10)
	if !ok {
		panic("bad constant")
	}
	return v
}

// group orders from independent sources: crypto/elliptic parameters and RFC 9496 §4 (ℓ).
var allSuites = []suiteInfo{
	{"ristretto255-SHA512", oprf.SuiteRistretto255, group.Ristretto255, crypto.SHA512,
		mustBig("7237005577332262213973186563042994240857116359379907606001950938285454250989"), true, 1},
	{"P256-SHA256", oprf.SuiteP256, group.P256, crypto.SHA256, elliptic.P256().Params().N, false, 1},
	{"P384-SHA384", oprf.SuiteP384, group.P384, crypto.SHA384, elliptic.P384().Params().N, false, 3},
	{"P521-SHA512", oprf.SuiteP521, group.P521, crypto.SHA512, elliptic.P521().Params().N, false, 6},
}

func (si suiteInfo) scalarLen() int { return int(si.g.Params().ScalarLength) }

// scalarFromBig builds the scalar v mod order through its canonical byte encoding.
func (si suiteInfo) scalarFromBig(v *big.Int) group.Scalar {
	r := new(big.Int).Mod(v, si.order)
	var b []byte
	if si.le {
		b = vlib.LE(r, si.scalarLen())
	} else {
		b = vlib.BE(r, si.scalarLen())
	}
	s := si.g.NewScalar()
	if err := s.UnmarshalBinary(b); err != nil {
		panic(fmt.Sprintf("harness: canonical scalar rejected: %v", err))
	}
	return s
}

func (si suiteInfo) bytesToBig(b []byte) *big.Int {
	if si.le {
		return vlib.FromLE(b)
	}
	return new(big.Int).SetBytes(b)
}

// residueOfEncoding decodes a scalar encoding with the group's own decoder and returns the
// residue it stands for. Whether that decoder accepts non-canonical encodings (it does:
// ristretto255 masks the top three bits and reduces, the NIST groups keep any bytes) is
// property C09's subject; C16 asks whether a proof that stands for DIFFERENT scalars is
// refused, so alterations that decode to the same residues are only counted as aliases.
func (si suiteInfo) residueOfEncoding(b []byte) (*big.Int, bool) {
	s := si.g.NewScalar()
	if err := s.UnmarshalBinary(b); err != nil {
		return nil, false
	}
	v := si.bytesToBig(serS(s))
	return v.Mod(v, si.order), true
}

// sameProofScalars tells whether two proof encodings (c ‖ s) decode to the same residues.
func (si suiteInfo) sameProofScalars(a, b []byte) bool {
	L := si.scalarLen()
	if len(a) != 2*L || len(b) != 2*L {
		return false
	}
	for _, off := range []int{0, L} {
		x, ok1 := si.residueOfEncoding(a[off : off+L])
		y, ok2 := si.residueOfEncoding(b[off : off+L])
		if !ok1 || !ok2 || x.Cmp(y) != 0 {
			return false
		}
	}
	return true
}

func (si suiteInfo) scalarToBig(s group.Scalar) *big.Int { return si.bytesToBig(serS(s)) }

func (si suiteInfo) bigToBytes(v *big.Int) []byte {
	if si.le {
		return vlib.LE(v, si.scalarLen())
	}
	return vlib.BE(v, si.scalarLen())
}

// drawScalar draws a scalar (edge-biased); nonZero excludes 0 mod order.
func (si suiteInfo) drawScalar(t *rapid.T, nonZero bool, label string) (group.Scalar, *big.Int) {
	v, _ := vlib.ScalarNear(t, si.order, si.order.BitLen(), label)
	v = new(big.Int).Mod(v, si.order)
	if nonZero && v.Sign() == 0 {
		v.SetInt64(1)
	}
	return si.scalarFromBig(v), v
}

// drawElement draws a non-identity element: generator, a small or random multiple of
// it, or a hashed element of unknown discrete logarithm.
func (si suiteInfo) drawElement(t *rapid.T, label string) group.Element {
	g := si.g
	switch rapid.IntRange(0, 5).Draw(t, label+".ekind") {
	case 0:
		return g.Generator()
	case 1:
		k := rapid.IntRange(2, 9).Draw(t, label+".small")
		return g.NewElement().MulGen(g.NewScalar().SetUint64(uint64(k)))
	case 2:
		s, _ := si.drawScalar(t, true, label+".mul")
		return g.NewElement().MulGen(s)
	default:
		for ctr := 0; ; ctr++ {
			b := vlib.Bytes(t, 1, 24, label+".h2e")
			e := g.HashToElement(append(b, byte(ctr)), []byte("C16-harness-element"))
			if !e.IsIdentity() {
				return e
			}
		}
	}
}

func copyElems(in []group.Element) []group.Element {
	out := make([]group.Element, len(in))
	for i := range in {
		out[i] = in[i].Copy()
	}
	return out
}

func hxs(b []byte) string { return vlib.Hex(b) }

func fixture(name string) string {
	return filepath.Join(vlib.Harness, "zz_verif", "c16", "testdata", name)
}

// ---------------------------------------------------------------------------
// oracle self-test: the reference against the official RFC 9497 vectors

type rfcVector struct {
	Identifier string `json:"identifier"`
	Mode       byte   `json:"mode"`
	PkSm       string `json:"pkSm"`
	SkSm       string `json:"skSm"`
	Seed       string `json:"seed"`
	KeyInfo    string `json:"keyInfo"`
	Vectors    []struct {
		Batch             int    `json:"Batch"`
		Blind             string `json:"Blind"`
		Info              string `json:"Info"`
		BlindedElement    string `json:"BlindedElement"`
		EvaluationElement string `json:"EvaluationElement"`
		Proof             struct {
			Proof string `json:"proof"`
			R     string `json:"r"`
		} `json:"Proof"`
		Input  string `json:"Input"`
		Output string `json:"Output"`
	} `json:"vectors"`
}

func unhexList(s string) [][]byte {
	var out [][]byte
	for _, p := range strings.Split(s, ",") {
		b, err := hex.DecodeString(p)
		if err != nil {
			panic(err)
		}
		out = append(out, b)
	}
	return out
}

func unhex(s string) []byte {
	b, err := hex.DecodeString(s)
	if err != nil {
		panic(err)
	}
	return b
}

func selftestFail(t *testing.T, format string, args ...any) {
	t.Helper()
	vlib.Selftest("ref-rfc9497", "FAILED")
	t.Fatalf("SELFTEST-FAIL "+format, args...)
}

// circlAgainstRFC runs circl's own oprf package on the official vectors (DeriveKey, public key and
// FullEvaluate, which are deterministic). The reference is written on circl's group API, so a
// reference that does not reproduce the vectors is either wrong itself or sits on a defective
// group layer; in the second case circl's oprf does not match RFC 9497 either, and that is what
// C16 states ("... and match RFC 9497"), not a harness error. Returns "" when circl matches.
func circlAgainstRFC(vs []rfcVector) (suite, detail string) {
	for _, v := range vs {
		var si *suiteInfo
		for i := range allSuites {
			if allSuites[i].name == v.Identifier {
				si = &allSuites[i]
			}
		}
		if si == nil {
			continue
		}
		pn, _ := vlib.Catch(func() {
			sk, err := oprf.DeriveKey(si.suite, v.Mode, unhex(v.Seed), unhex(v.KeyInfo))
			if err != nil {
				detail = fmt.Sprintf("mode %d: DeriveKey(seed=%s, info=%s): %v", v.Mode, v.Seed, v.KeyInfo, err)
				return
			}
			if skb, _ := sk.MarshalBinary(); hex.EncodeToString(skb) != v.SkSm {
				detail = fmt.Sprintf("mode %d: DeriveKey(seed=%s, info=%s) = %x, RFC 9497 skSm = %s", v.Mode, v.Seed, v.KeyInfo, skb, v.SkSm)
				return
			}
			if pkb, _ := sk.Public().MarshalBinary(); v.Mode != 0 && hex.EncodeToString(pkb) != v.PkSm {
				detail = fmt.Sprintf("mode %d: public key of skSm=%s is %x, RFC 9497 pkSm = %s", v.Mode, v.SkSm, pkb, v.PkSm)
				return
			}
			p := party{si: *si, mode: v.Mode, sk: sk, pk: sk.Public()}
			for vi, tv := range v.Vectors {
				var info []byte
				if v.Mode == 2 {
					info = unhex(tv.Info)
				}
				wantOut := unhexList(tv.Output)
				for i, in := range unhexList(tv.Input) {
					out, err := p.fullEvaluate(in, info)
					if err != nil || i >= len(wantOut) || hex.EncodeToString(out) != hex.EncodeToString(wantOut[i]) {
						detail = fmt.Sprintf("mode %d vector %d: FullEvaluate(skSm=%s, input=%x, info=%x) = %x (err %v), RFC 9497 Output = %s", v.Mode, vi, v.SkSm, in, info, out, err, tv.Output)
						return
					}
				}
			}
		})
		if pn != nil {
			detail = fmt.Sprintf("mode %d: panic %v", v.Mode, pn)
		}
		if detail != "" {
			return si.name, detail
		}
	}
	return "", ""
}

func TestC16RefSelftest(t *testing.T) {
	defer vlib.Done()
	data, err := os.ReadFile(fixture("rfc9497.json"))
	if err != nil {
		selftestFail(t, "cannot read vectors: %v", err)
	}
	var vs []rfcVector
	if err := json.Unmarshal(data, &vs); err != nil {
		selftestFail(t, "cannot parse vectors: %v", err)
	}
	// from here on a failure may be caused by circl's group layer, on which the reference is written: it is a
	// harness error only if circl's own oprf reproduces the official vectors
	vectorFail := func(t *testing.T, format string, args ...any) {
		t.Helper()
		if suite, detail := circlAgainstRFC(vs); suite != "" {
			vlib.Selftest("ref-rfc9497", "not reproduced; circl's oprf does not match the RFC 9497 vectors either")
			vlib.ReportDirect(t, "C16/oprf/"+suite+"/rfc9497-vectors", detail+" [the RFC 9497 reference built on circl's group API fails its self-test too: "+fmt.Sprintf(format, args...)+"]",
				map[string]interface{}{"suite": suite})
			t.FailNow()
		}
		selftestFail(t, "(circl's own oprf reproduces the RFC 9497 vectors, so the reference's protocol code is at fault) "+format, args...)
	}
	nsuites, nvec := 0, 0
	for _, v := range vs {
		var si *suiteInfo
		for i := range allSuites {
			if allSuites[i].name == v.Identifier {
				si = &allSuites[i]
			}
		}
		if si == nil {
			continue // decaf448: not provided by circl's oprf
		}
		nsuites++
		r := refSuite{id: si.name, g: si.g, h: si.h, mode: v.Mode}
		sk, err := r.deriveKey(unhex(v.Seed), unhex(v.KeyInfo))
		if err != nil || hex.EncodeToString(serS(sk)) != v.SkSm {
			vectorFail(t, "%s mode %d: DeriveKeyPair sk=%x want %s", v.Identifier, v.Mode, serS(sk), v.SkSm)
		}
		pk := si.g.NewElement().MulGen(sk)
		if v.Mode != 0 && hex.EncodeToString(ser(pk)) != v.PkSm {
			vectorFail(t, "%s mode %d: pk=%x want %s", v.Identifier, v.Mode, ser(pk), v.PkSm)
		}
		for vi, tv := range v.Vectors {
			nvec++
			inputs := unhexList(tv.Input)
			blinds := unhexList(tv.Blind)
			wantBl := unhexList(tv.BlindedElement)
			wantEv := unhexList(tv.EvaluationElement)
			wantOut := unhexList(tv.Output)
			var info []byte
			if v.Mode == 2 {
				info = unhex(tv.Info)
			}
			if len(inputs) != tv.Batch || len(blinds) != tv.Batch {
				vectorFail(t, "vector shape")
			}
			bs := make([]group.Scalar, tv.Batch)
			bl := make([]group.Element, tv.Batch)
			for i := range inputs {
				bs[i] = si.g.NewScalar()
				if err := bs[i].UnmarshalBinary(blinds[i]); err != nil {
					vectorFail(t, "blind decode: %v", err)
				}
				e, ok := r.blind(inputs[i], bs[i])
				if !ok || hex.EncodeToString(ser(e)) != hex.EncodeToString(wantBl[i]) {
					vectorFail(t, "%s mode %d vec %d: blinded[%d] mismatch", v.Identifier, v.Mode, vi, i)
				}
				bl[i] = e
			}
			var rr group.Scalar
			if v.Mode != 0 {
				rr = si.g.NewScalar()
				if err := rr.UnmarshalBinary(unhex(tv.Proof.R)); err != nil {
					vectorFail(t, "r decode: %v", err)
				}
			}
			ev, c, s, ok := r.blindEvaluate(sk, bl, info, rr)
			if !ok {
				vectorFail(t, "blindEvaluate failed")
			}
			for i := range ev {
				if hex.EncodeToString(ser(ev[i])) != hex.EncodeToString(wantEv[i]) {
					vectorFail(t, "%s mode %d vec %d: evaluation[%d] mismatch", v.Identifier, v.Mode, vi, i)
				}
			}
			if v.Mode != 0 {
				got := hex.EncodeToString(append(serS(c), serS(s)...))
				if got != tv.Proof.Proof {
					vectorFail(t, "%s mode %d vec %d: proof %s want %s", v.Identifier, v.Mode, vi, got, tv.Proof.Proof)
				}
				if !r.verifyEvaluation(pk, bl, ev, info, c, s) {
					vectorFail(t, "%s mode %d vec %d: reference verifier rejects the RFC proof", v.Identifier, v.Mode, vi)
				}
				// the reference verifier must reject a one-off challenge / response / element
				one := si.g.NewScalar().SetUint64(1)
				if r.verifyEvaluation(pk, bl, ev, info, si.g.NewScalar().Add(c, one), s) ||
					r.verifyEvaluation(pk, bl, ev, info, c, si.g.NewScalar().Add(s, one)) ||
					r.verifyEvaluation(si.g.NewElement().Add(pk, si.g.Generator()), bl, ev, info, c, s) {
					vectorFail(t, "%s mode %d vec %d: reference verifier accepts an altered proof", v.Identifier, v.Mode, vi)
				}
			}
			for i := range inputs {
				out := r.finalize(inputs[i], info, bs[i], ev[i])
				if hex.EncodeToString(out) != hex.EncodeToString(wantOut[i]) {
					vectorFail(t, "%s mode %d vec %d: output[%d] mismatch", v.Identifier, v.Mode, vi, i)
				}
				d, ok := r.evaluate(sk, inputs[i], info)
				if !ok || hex.EncodeToString(d) != hex.EncodeToString(wantOut[i]) {
					vectorFail(t, "%s mode %d vec %d: direct Evaluate[%d] mismatch", v.Identifier, v.Mode, vi, i)
				}
			}
		}
	}
	if nsuites != 12 || nvec != 32 {
		selftestFail(t, "expected 12 suite×mode entries / 32 vectors, got %d / %d", nsuites, nvec)
	}
	// group orders used by the generators: order·G = identity and (order-1)+1 wraps to zero
	for _, si := range allSuites {
		m1 := si.scalarFromBig(new(big.Int).Sub(si.order, big.NewInt(1)))
		z := si.g.NewScalar().Add(m1, si.g.NewScalar().SetUint64(1))
		if !z.IsZero() {
			selftestFail(t, "%s: (order-1)+1 is not zero in circl's scalar arithmetic (Scalar.UnmarshalBinary / Add / IsZero misbehave, outside C16, or the order constant of the harness is wrong)", si.name)
		}
	}
	vlib.Selftest("ref-rfc9497", "ok")
}

// ---------------------------------------------------------------------------
// operands unchanged: every scalar, element, big integer and byte slice handed to a prover,
// verifier, client or server is snapshotted (marshalled / copied) before the call and
// compared after it. A call may not write to its caller's arguments.

type opSnap struct {
	names  []string
	before [][]byte
	now    []func() []byte
}

func (s *opSnap) add(name string, f func() []byte) *opSnap {
	s.names = append(s.names, name)
	s.before = append(s.before, append([]byte{}, f()...))
	s.now = append(s.now, f)
	return s
}

func (s *opSnap) scalar(name string, x group.Scalar) *opSnap {
	if x == nil {
		return s
	}
	return s.add(name, func() []byte { return serS(x) })
}

func (s *opSnap) elem(name string, e group.Element) *opSnap {
	if e == nil {
		return s
	}
	return s.add(name, func() []byte { return ser(e) })
}

func (s *opSnap) elems(name string, es []group.Element) *opSnap {
	for i, e := range es {
		s.elem(fmt.Sprintf("%s[%d]", name, i), e)
	}
	return s
}

func (s *opSnap) scalars(name string, xs []group.Scalar) *opSnap {
	for i, x := range xs {
		s.scalar(fmt.Sprintf("%s[%d]", name, i), x)
	}
	return s
}

func (s *opSnap) bytes(name string, b []byte) *opSnap {
	return s.add(name, func() []byte { return b })
}

func (s *opSnap) bytesList(name string, bs [][]byte) *opSnap {
	for i := range bs {
		s.bytes(fmt.Sprintf("%s[%d]", name, i), bs[i])
	}
	return s
}

func (s *opSnap) big(name string, v *big.Int) *opSnap {
	if v == nil {
		return s
	}
	return s.add(name, func() []byte { return []byte(v.Text(16)) })
}

// changed returns a description of the first operand whose value differs from its snapshot.
func (s *opSnap) changed() string {
	for i, f := range s.now {
		if got := f(); string(got) != string(s.before[i]) {
			return fmt.Sprintf("%s: %x before the call, %x after", s.names[i], s.before[i], got)
		}
	}
	return ""
}

// checkOperands reports a changed operand under key; true means all operands are unchanged.
func checkOperands(t vlib.TB, s *opSnap, key, what string) bool {
	if d := s.changed(); d != "" {
		vlib.Report(t, key, what+": the call changed its caller's operand "+d)
		return false
	}
	return true
}

// operandViolations collects operand changes seen inside the verify wrappers (which have no
// access to the test object); every case function reports them through reportOperands in a
// deferred call. Cases run one at a time (vlib.Check serialises rapid).
var operandViolations []string

func noteOperands(s *opSnap, call string) {
	if d := s.changed(); d != "" {
		operandViolations = append(operandViolations, call+": the call changed its caller's operand "+d)
	}
}

// reportOperands is deferred by the case functions: defer reportOperands(t, key, desc).
func reportOperands(t vlib.TB, key string) {
	v := operandViolations
	operandViolations = nil
	if r := recover(); r != nil {
		panic(r) // the case already failed: keep that failure
	}
	if len(v) > 0 {
		vlib.Report(t, key, v[0])
	}
}
