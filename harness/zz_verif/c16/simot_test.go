//go:build verif

package c16

import (
	"bytes"
	"fmt"
	"testing"

	"github.com/cloudflare/circl/group"
	"github.com/cloudflare/circl/ot/simot"
	"github.com/cloudflare/circl/zz_verif/vlib"
	"pgregory.net/rapid"
)

var simotGroups = []struct {
	name  string
	g     group.Group
	quick int
}{
	{"P256", group.P256, 150},
	{"ristretto255", group.Ristretto255, 150},
	{"P384", group.P384, 50},
	{"P521", group.P521, 25},
}

var simotLens = []int{0, 1, 15, 16, 17, 32, 100, 1000}

// simotCase drives the four rounds exactly as ot/simot's own test does. The package draws
// its scalars and AES-GCM nonces from crypto/rand, so only relations that hold for every
// draw are asserted.
func simotCase(t *rapid.T, name string, g group.Group) {
	sub := "simot/" + name
	key := func(k string) string { return "C16/simot/" + name + "/" + k }
	vlib.Eval(sub)
	defer reportOperands(t, key("operand-changed"))
	choice := rapid.IntRange(0, 1).Draw(t, "choice")
	var n int
	if rapid.Bool().Draw(t, "edgeLen") {
		n = rapid.SampledFrom(simotLens).Draw(t, "len")
	} else {
		n = rapid.IntRange(0, 200).Draw(t, "len")
	}
	m0 := make([]byte, n)
	m1 := make([]byte, n)
	if n > 0 {
		vlib.FillRandom(t, m0, "m0")
		vlib.FillRandom(t, m1, "m1")
	}
	rel := rapid.SampledFrom([]string{"independent", "independent", "independent", "equal", "one-bit-apart"}).Draw(t, "rel")
	switch rel {
	case "equal":
		copy(m1, m0)
	case "one-bit-apart":
		copy(m1, m0)
		if n > 0 {
			b := rapid.IntRange(0, 8*n-1).Draw(t, "bit")
			m1[b/8] ^= 1 << (b % 8)
		}
	}
	index := rapid.IntRange(0, 1000).Draw(t, "index")
	vlib.Class(sub, fmt.Sprintf("choice=%d", choice))
	vlib.Class(sub, "len="+lenClass(n))
	vlib.Class(sub, "messages="+rel)
	desc := fmt.Sprintf("group=%s choice=%d len=%d m0=%s m1=%s index=%d", name, choice, n, hxs(m0), hxs(m1), index)
	want, other := m0, m1
	if choice == 1 {
		want, other = m1, m0
	}

	var sender simot.Sender
	var receiver simot.Receiver
	var e0, e1 []byte
	var err3 error
	if pn, st := vlib.Catch(func() {
		A := sender.InitSender(g, append([]byte{}, m0...), append([]byte{}, m1...), index)
		sn := new(opSnap).elem("A", A)
		B := receiver.Round1Receiver(g, choice, index, A)
		noteOperands(sn, "Round1Receiver")
		sn = new(opSnap).elem("B", B)
		e0, e1 = sender.Round2Sender(B)
		noteOperands(sn, "Round2Sender")
		sn = new(opSnap).bytes("e0", e0).bytes("e1", e1)
		err3 = receiver.Round3Receiver(e0, e1, choice)
		noteOperands(sn, "Round3Receiver")
	}); pn != nil {
		vlib.Report(t, key("panic/"+vlib.PanicClass(pn)), fmt.Sprintf("%s: %v\n%s", desc, pn, st))
		return
	}
	if len(e0) != len(e1) {
		vlib.Report(t, key("ciphertext-lengths-differ"), fmt.Sprintf("%s: |e0|=%d |e1|=%d", desc, len(e0), len(e1)))
		return
	}
	if err3 != nil {
		vlib.Report(t, key("honest-round3-error"), fmt.Sprintf("%s: %v", desc, err3))
		return
	}
	got := receiver.Returnmc()
	if !bytes.Equal(got, want) {
		vlib.Report(t, key("receiver-output"), fmt.Sprintf("%s: receiver got %s, m_choice = %s", desc, hxs(got), hxs(want)))
		return
	}
	s0, s1 := sender.Returnm0m1()
	if !bytes.Equal(s0, m0) || !bytes.Equal(s1, m1) {
		vlib.Report(t, key("sender-messages-changed"), desc)
		return
	}
	vlib.Sample(sub, "honest", desc+" → receiver output = m_choice")

	// the key the receiver derives meets the OTHER ciphertext: swap the ciphertexts
	var errSwap error
	if pn, st := vlib.Catch(func() { errSwap = receiver.Round3Receiver(e1, e0, choice) }); pn != nil {
		vlib.Report(t, key("panic/"+vlib.PanicClass(pn)), fmt.Sprintf("%s swapped: %v\n%s", desc, pn, st))
		return
	}
	if errSwap == nil {
		vlib.Report(t, key("other-ciphertext-decrypts/swapped"), fmt.Sprintf("%s: Round3Receiver(e1, e0, choice) returned no error, mc=%s", desc, hxs(receiver.Returnmc())))
		return
	}
	if !bytes.Equal(m0, m1) && bytes.Equal(receiver.Returnmc(), other) {
		vlib.Report(t, key("other-message-obtained/swapped"), desc)
		return
	}
	vlib.NonTrivial(sub, "swapped-ciphertexts-fail", []byte(name), e0, e1, []byte{byte(choice)})
	// the same through the selector: the receiver's key against e_{1-choice}
	var errFlip error
	if pn, st := vlib.Catch(func() { errFlip = receiver.Round3Receiver(e0, e1, 1-choice) }); pn != nil {
		vlib.Report(t, key("panic/"+vlib.PanicClass(pn)), fmt.Sprintf("%s flipped: %v\n%s", desc, pn, st))
		return
	}
	if errFlip == nil {
		vlib.Report(t, key("other-ciphertext-decrypts/flipped-selector"), fmt.Sprintf("%s: Round3Receiver(e0, e1, 1-choice) returned no error", desc))
		return
	}
	if !bytes.Equal(m0, m1) && bytes.Equal(receiver.Returnmc(), other) {
		vlib.Report(t, key("other-message-obtained/flipped-selector"), desc)
		return
	}
	vlib.NonTrivial(sub, "flipped-selector-fails", []byte(name), e0, e1, []byte{byte(choice), 1})
	// a fresh receiver that never ran the honest round must end without any message
	var r2 simot.Receiver
	var s2 simot.Sender
	var err2 error
	if pn, st := vlib.Catch(func() {
		A := s2.InitSender(g, append([]byte{}, m0...), append([]byte{}, m1...), index)
		B := r2.Round1Receiver(g, choice, index, A)
		f0, f1 := s2.Round2Sender(B)
		err2 = r2.Round3Receiver(f1, f0, choice)
	}); pn != nil {
		vlib.Report(t, key("panic/"+vlib.PanicClass(pn)), fmt.Sprintf("%s fresh swapped: %v\n%s", desc, pn, st))
		return
	}
	if err2 == nil || (n > 0 && bytes.Equal(r2.Returnmc(), other)) {
		vlib.Report(t, key("other-ciphertext-decrypts/fresh-receiver"), fmt.Sprintf("%s: err=%v mc=%s", desc, err2, hxs(r2.Returnmc())))
		return
	}
	// and the honest order still works afterwards (the failed attempts left the state usable)
	if err := receiver.Round3Receiver(e0, e1, choice); err != nil || !bytes.Equal(receiver.Returnmc(), want) {
		vlib.Report(t, key("round3-not-repeatable"), fmt.Sprintf("%s: err=%v", desc, err))
		return
	}

	// ---- object reuse: further transfers on the SAME Sender and Receiver objects (all choice
	// patterns over the cases); each must give the receiver exactly m_choice of that transfer,
	// as fresh objects do, and its key must fail on the other ciphertext
	nmore := rapid.IntRange(1, 3).Draw(t, "more")
	pattern := fmt.Sprintf("%d", choice)
	for r := 0; r < nmore; r++ {
		c2 := rapid.IntRange(0, 1).Draw(t, fmt.Sprintf("choice%d", r))
		pattern += fmt.Sprintf("%d", c2)
		l2 := rapid.SampledFrom([]int{0, 1, 16, 33, n}).Draw(t, fmt.Sprintf("len%d", r))
		a0, a1 := make([]byte, l2), make([]byte, l2)
		if l2 > 0 {
			vlib.FillRandom(t, a0, fmt.Sprintf("r%dm0", r))
			vlib.FillRandom(t, a1, fmt.Sprintf("r%dm1", r))
		}
		w2, o2 := a0, a1
		if c2 == 1 {
			w2, o2 = a1, a0
		}
		vlib.Eval(sub)
		var f0, f1 []byte
		var errH, errS error
		var gotH []byte
		rdesc := fmt.Sprintf("%s REUSED OBJECTS transfer %d (choices so far %s) len=%d m0=%s m1=%s", desc, r+2, pattern, l2, hxs(a0), hxs(a1))
		if pn, st := vlib.Catch(func() {
			A := sender.InitSender(g, append([]byte{}, a0...), append([]byte{}, a1...), index+r+1)
			B := receiver.Round1Receiver(g, c2, index+r+1, A)
			f0, f1 = sender.Round2Sender(B)
			errH = receiver.Round3Receiver(f0, f1, c2)
			gotH = append([]byte{}, receiver.Returnmc()...)
			errS = receiver.Round3Receiver(f1, f0, c2)
		}); pn != nil {
			vlib.Report(t, key("reuse/panic/"+vlib.PanicClass(pn)), fmt.Sprintf("%s: %v\n%s", rdesc, pn, st))
			return
		}
		if errH != nil || !bytes.Equal(gotH, w2) {
			vlib.Report(t, key("reuse/receiver-output"), fmt.Sprintf("%s: round 3 err=%v, receiver got %s, m_choice = %s", rdesc, errH, hxs(gotH), hxs(w2)))
			return
		}
		if errS == nil {
			vlib.Report(t, key("reuse/other-ciphertext-decrypts"), rdesc)
			return
		}
		_ = o2
		vlib.NonTrivial(sub, "reused-objects-transfer", []byte(name), f0, f1, []byte(pattern))
	}
	vlib.Class(sub, "reuse-choices="+pattern)
}

func TestC16SimOT(t *testing.T) {
	defer vlib.Done()
	for _, sg := range simotGroups {
		sg := sg
		t.Run(sg.name, func(t *testing.T) {
			vlib.Check(t, vlib.N(sg.quick, 4*sg.quick), func(t *rapid.T) { simotCase(t, sg.name, sg.g) })
		})
	}
}
