//go:build verif

// RFC 9497 protocol logic written from the RFC text (sections 2.2, 3.1, 3.2, 3.3).
// Per DESIGN §C16 this one oracle is written ON the circl `group` API (group
// arithmetic, hash_to_curve and hash_to_field are property C13/C15's job); what is
// independent here is everything the OPRF and DLEQ packages add on top: context
// strings, domain-separation tags, transcripts, composites, challenge, the POPRF
// tweak and the Finalize hash. It is validated against the official vectors
// (testdata/rfc9497.json) by TestC16RefSelftest.
package c16

import (
	"crypto"
	_ "crypto/sha256"
	_ "crypto/sha512"
	"errors"

	"github.com/cloudflare/circl/group"
)

type refSuite struct {
	id   string
	g    group.Group
	h    crypto.Hash
	mode byte
	ctx  []byte // if non-nil, replaces contextString (generic dleq.Params.DST)
}

func i2osp2(n int) []byte { return []byte{byte(n >> 8), byte(n)} }

func lp(b []byte) []byte { return append(i2osp2(len(b)), b...) }

func cat(parts ...[]byte) []byte {
	var o []byte
	for _, p := range parts {
		o = append(o, p...)
	}
	return o
}

// contextString = "OPRFV1-" || I2OSP(mode, 1) || "-" || identifier   (RFC 9497 §3.1)
func (r refSuite) contextString() []byte {
	if r.ctx != nil {
		return r.ctx
	}
	return cat([]byte("OPRFV1-"), []byte{r.mode}, []byte("-"), []byte(r.id))
}

func (r refSuite) hashToGroup(x []byte) group.Element {
	return r.g.HashToElement(x, cat([]byte("HashToGroup-"), r.contextString()))
}

func (r refSuite) hashToScalar(x []byte) group.Scalar {
	return r.g.HashToScalar(x, cat([]byte("HashToScalar-"), r.contextString()))
}

func ser(e group.Element) []byte {
	b, err := e.MarshalBinaryCompress()
	if err != nil {
		panic(err)
	}
	return b
}

func serS(s group.Scalar) []byte {
	b, err := s.MarshalBinary()
	if err != nil {
		panic(err)
	}
	return b
}

var errRefDerive = errors.New("ref: DeriveKeyPairError")

// DeriveKeyPair (§3.2.1)
func (r refSuite) deriveKey(seed, info []byte) (group.Scalar, error) {
	deriveInput := cat(seed, lp(info))
	dst := cat([]byte("DeriveKeyPair"), r.contextString())
	for counter := 0; counter <= 255; counter++ {
		sk := r.g.HashToScalar(cat(deriveInput, []byte{byte(counter)}), dst)
		if !sk.IsZero() {
			return sk, nil
		}
	}
	return nil, errRefDerive
}

// m = HashToScalar("Info" || I2OSP(len(info),2) || info)   (§3.3.3)
func (r refSuite) infoScalar(info []byte) group.Scalar {
	return r.hashToScalar(cat([]byte("Info"), lp(info)))
}

// Blind (§3.3.1): blinded = blind * HashToGroup(input)
func (r refSuite) blind(input []byte, blind group.Scalar) (group.Element, bool) {
	p := r.hashToGroup(input)
	if p.IsIdentity() {
		return nil, false
	}
	return r.g.NewElement().Mul(p, blind), true
}

// ComputeComposites (§2.2.2, the verifier's variant which does not use k)
func (r refSuite) composites(B group.Element, C, D []group.Element) (M, Z group.Element) {
	Bm := ser(B)
	seedDST := cat([]byte("Seed-"), r.contextString())
	hh := r.h.New()
	hh.Write(cat(lp(Bm), lp(seedDST)))
	seed := hh.Sum(nil)
	M, Z = r.g.Identity(), r.g.Identity()
	for i := range C {
		tr := cat(lp(seed), i2osp2(i), lp(ser(C[i])), lp(ser(D[i])), []byte("Composite"))
		di := r.hashToScalar(tr)
		M = r.g.NewElement().Add(r.g.NewElement().Mul(C[i], di), M)
		Z = r.g.NewElement().Add(r.g.NewElement().Mul(D[i], di), Z)
	}
	return M, Z
}

func (r refSuite) challenge(B, M, Z, t2, t3 group.Element) group.Scalar {
	tr := cat(lp(ser(B)), lp(ser(M)), lp(ser(Z)), lp(ser(t2)), lp(ser(t3)), []byte("Challenge"))
	return r.hashToScalar(tr)
}

// GenerateProof (§2.2.1) with explicit randomness rr. Z is computed as k*M
// (ComputeCompositesFast), exactly as the RFC's prover does.
func (r refSuite) generateProof(k group.Scalar, A, B group.Element, C, D []group.Element, rr group.Scalar) (c, s group.Scalar) {
	M, _ := r.composites(B, C, D)
	Z := r.g.NewElement().Mul(M, k)
	t2 := r.g.NewElement().Mul(A, rr)
	t3 := r.g.NewElement().Mul(M, rr)
	c = r.challenge(B, M, Z, t2, t3)
	s = r.g.NewScalar().Sub(rr, r.g.NewScalar().Mul(c, k))
	return c, s
}

// VerifyProof (§2.2.2)
func (r refSuite) verifyProof(A, B group.Element, C, D []group.Element, c, s group.Scalar) bool {
	M, Z := r.composites(B, C, D)
	t2 := r.g.NewElement().Add(r.g.NewElement().Mul(A, s), r.g.NewElement().Mul(B, c))
	t3 := r.g.NewElement().Add(r.g.NewElement().Mul(M, s), r.g.NewElement().Mul(Z, c))
	return r.challenge(B, M, Z, t2, t3).IsEqual(c)
}

// evalScalar returns the scalar the server multiplies blinded elements with:
// skS (OPRF, VOPRF) or (skS + m)^-1 (POPRF); ok=false for the InverseError case.
func (r refSuite) evalScalar(sk group.Scalar, info []byte) (mul, t group.Scalar, ok bool) {
	if r.mode != 2 {
		return sk, sk, true
	}
	t = r.g.NewScalar().Add(sk, r.infoScalar(info))
	if t.IsZero() {
		return nil, nil, false
	}
	return r.g.NewScalar().Inv(t), t, true
}

// BlindEvaluate (§3.3.1–3.3.3) with explicit proof randomness.
func (r refSuite) blindEvaluate(sk group.Scalar, blinded []group.Element, info []byte, rr group.Scalar) (ev []group.Element, c, s group.Scalar, ok bool) {
	mul, t, ok := r.evalScalar(sk, info)
	if !ok {
		return nil, nil, nil, false
	}
	ev = make([]group.Element, len(blinded))
	for i := range blinded {
		ev[i] = r.g.NewElement().Mul(blinded[i], mul)
	}
	G := r.g.Generator()
	switch r.mode {
	case 1:
		pk := r.g.NewElement().MulGen(sk)
		c, s = r.generateProof(sk, G, pk, blinded, ev, rr)
	case 2:
		tweaked := r.g.NewElement().MulGen(t)
		c, s = r.generateProof(t, G, tweaked, ev, blinded, rr)
	}
	return ev, c, s, true
}

// verifyEvaluation is the client-side proof check of Finalize (§3.3.2, §3.3.3).
func (r refSuite) verifyEvaluation(pk group.Element, blinded, ev []group.Element, info []byte, c, s group.Scalar) bool {
	G := r.g.Generator()
	switch r.mode {
	case 1:
		return r.verifyProof(G, pk, blinded, ev, c, s)
	case 2:
		tweaked := r.g.NewElement().Add(r.g.NewElement().MulGen(r.infoScalar(info)), pk)
		if tweaked.IsIdentity() {
			return false
		}
		return r.verifyProof(G, tweaked, ev, blinded, c, s)
	}
	return true
}

func (r refSuite) finalizeHash(input, info []byte, elem group.Element) []byte {
	hh := r.h.New()
	hh.Write(lp(input))
	if r.mode == 2 {
		hh.Write(lp(info))
	}
	hh.Write(lp(ser(elem)))
	hh.Write([]byte("Finalize"))
	return hh.Sum(nil)
}

// Finalize (client): N = blind^-1 * evaluatedElement
func (r refSuite) finalize(input, info []byte, blind group.Scalar, ev group.Element) []byte {
	n := r.g.NewElement().Mul(ev, r.g.NewScalar().Inv(blind))
	return r.finalizeHash(input, info, n)
}

// Evaluate (server, direct; §3.3.1–3.3.3)
func (r refSuite) evaluate(sk group.Scalar, input, info []byte) ([]byte, bool) {
	p := r.hashToGroup(input)
	if p.IsIdentity() {
		return nil, false
	}
	mul, _, ok := r.evalScalar(sk, info)
	if !ok {
		return nil, false
	}
	return r.finalizeHash(input, info, r.g.NewElement().Mul(p, mul)), true
}
