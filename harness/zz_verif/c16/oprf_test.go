//go:build verif

package c16

import (
	"bytes"
	"fmt"
	"math/big"
	"testing"

	"github.com/cloudflare/circl/group"
	"github.com/cloudflare/circl/oprf"
	"github.com/cloudflare/circl/zk/dleq"
	"github.com/cloudflare/circl/zz_verif/vlib"
	"pgregory.net/rapid"
)

var modeNames = []string{"base", "verifiable", "partial"}

// party wraps the three client/server flavours behind one interface. With persist set, ONE
// client object and ONE server object serve every call of the case (object reuse: anything a
// client or server remembers between calls must not change results); otherwise every call
// builds a fresh object. Clients for another public key are always fresh.
type party struct {
	si      suiteInfo
	mode    byte
	sk      *oprf.PrivateKey
	pk      *oprf.PublicKey
	persist bool
	c0      *oprf.Client
	c1      *oprf.VerifiableClient
	c2      *oprf.PartialObliviousClient
	s0      *oprf.Server
	s1      *oprf.VerifiableServer
	s2      *oprf.PartialObliviousServer
}

func newParty(si suiteInfo, mode byte, sk *oprf.PrivateKey, pk *oprf.PublicKey, persist bool) party {
	p := party{si: si, mode: mode, sk: sk, pk: pk, persist: persist}
	if persist {
		switch mode {
		case 0:
			c, s := oprf.NewClient(si.suite), oprf.NewServer(si.suite, sk)
			p.c0, p.s0 = &c, &s
		case 1:
			c, s := oprf.NewVerifiableClient(si.suite, pk), oprf.NewVerifiableServer(si.suite, sk)
			p.c1, p.s1 = &c, &s
		default:
			c, s := oprf.NewPartialObliviousClient(si.suite, pk), oprf.NewPartialObliviousServer(si.suite, sk)
			p.c2, p.s2 = &c, &s
		}
	}
	return p
}

func (p party) cl0() oprf.Client {
	if p.persist {
		return *p.c0
	}
	return oprf.NewClient(p.si.suite)
}

func (p party) cl1(pk *oprf.PublicKey) oprf.VerifiableClient {
	if p.persist && pk == p.pk {
		return *p.c1
	}
	return oprf.NewVerifiableClient(p.si.suite, pk)
}

func (p party) cl2(pk *oprf.PublicKey) oprf.PartialObliviousClient {
	if p.persist && pk == p.pk {
		return *p.c2
	}
	return oprf.NewPartialObliviousClient(p.si.suite, pk)
}

func (p party) sv0() oprf.Server {
	if p.persist {
		return *p.s0
	}
	return oprf.NewServer(p.si.suite, p.sk)
}

func (p party) sv1() oprf.VerifiableServer {
	if p.persist {
		return *p.s1
	}
	return oprf.NewVerifiableServer(p.si.suite, p.sk)
}

func (p party) sv2() oprf.PartialObliviousServer {
	if p.persist {
		return *p.s2
	}
	return oprf.NewPartialObliviousServer(p.si.suite, p.sk)
}

func (p party) blindDet(pk *oprf.PublicKey, inputs [][]byte, blinds []oprf.Blind) (fd *oprf.FinalizeData, req *oprf.EvaluationRequest, err error) {
	sn := new(opSnap).bytesList("inputs", inputs).scalars("blinds", blinds)
	defer func() { noteOperands(sn, "DeterministicBlind") }()
	switch p.mode {
	case 0:
		return p.cl0().DeterministicBlind(inputs, blinds)
	case 1:
		return p.cl1(pk).DeterministicBlind(inputs, blinds)
	default:
		return p.cl2(pk).DeterministicBlind(inputs, blinds)
	}
}

func (p party) blindRand(inputs [][]byte) (fd *oprf.FinalizeData, req *oprf.EvaluationRequest, err error) {
	sn := new(opSnap).bytesList("inputs", inputs)
	defer func() { noteOperands(sn, "Blind") }()
	switch p.mode {
	case 0:
		return p.cl0().Blind(inputs)
	case 1:
		return p.cl1(p.pk).Blind(inputs)
	default:
		return p.cl2(p.pk).Blind(inputs)
	}
}

func keyBytes(sk *oprf.PrivateKey) []byte {
	b, _ := sk.MarshalBinary()
	return b
}

func (p party) evaluate(req *oprf.EvaluationRequest, info []byte) (ev *oprf.Evaluation, err error) {
	sn := new(opSnap).elems("blinded", req.Elements).bytes("info", info).add("sk", func() []byte { return keyBytes(p.sk) })
	defer func() { noteOperands(sn, "Evaluate") }()
	switch p.mode {
	case 0:
		return p.sv0().Evaluate(req)
	case 1:
		return p.sv1().Evaluate(req)
	default:
		return p.sv2().Evaluate(req, info)
	}
}

// finalize with a client holding public key pk
func (p party) finalize(pk *oprf.PublicKey, fd *oprf.FinalizeData, ev *oprf.Evaluation, info []byte) (out [][]byte, err error) {
	sn := new(opSnap).elems("evaluated", ev.Elements).bytes("info", info)
	if pk != nil {
		sn.add("pk", func() []byte { b, _ := pk.MarshalBinary(); return b })
	}
	if ev.Proof != nil {
		sn.add("proof", func() []byte { b, _ := ev.Proof.MarshalBinary(); return b })
	}
	bl0 := scalarsBytes(fd.CopyBlinds())
	switch p.mode {
	case 0:
		out, err = p.cl0().Finalize(fd, ev)
	case 1:
		out, err = p.cl1(pk).Finalize(fd, ev)
	default:
		out, err = p.cl2(pk).Finalize(fd, ev, info)
	}
	// (not reached when Finalize panics: the caller's vlib.Catch sees the original panic)
	noteOperands(sn, "Finalize")
	if !bytes.Equal(bl0, scalarsBytes(fd.CopyBlinds())) {
		operandViolations = append(operandViolations, "Finalize: the call changed the blinds kept in its FinalizeData")
	}
	return out, err
}

func (p party) fullEvaluate(input, info []byte) (out []byte, err error) {
	sn := new(opSnap).bytes("input", input).bytes("info", info).add("sk", func() []byte { return keyBytes(p.sk) })
	defer func() { noteOperands(sn, "FullEvaluate") }()
	switch p.mode {
	case 0:
		return p.sv0().FullEvaluate(input)
	case 1:
		return p.sv1().FullEvaluate(input)
	default:
		return p.sv2().FullEvaluate(input, info)
	}
}

func (p party) verifyFinalize(input, info, out []byte) bool {
	sn := new(opSnap).bytes("input", input).bytes("info", info).bytes("output", out)
	defer func() { noteOperands(sn, "VerifyFinalize") }()
	switch p.mode {
	case 0:
		return p.sv0().VerifyFinalize(input, out)
	case 1:
		return p.sv1().VerifyFinalize(input, out)
	default:
		return p.sv2().VerifyFinalize(input, info, out)
	}
}

// boundaryLens are lengths at which a one- or two-byte length prefix changes shape.
var boundaryLens = []int{255, 256, 257}

var inputLens = []int{0, 1, 100, 1000}

func drawInput(t *rapid.T, label string) []byte {
	var n int
	switch rapid.IntRange(0, 7).Draw(t, label+".lk") {
	case 0:
		n = rapid.IntRange(0, 300).Draw(t, label+".len")
	case 1:
		n = rapid.SampledFrom(boundaryLens).Draw(t, label+".len")
		if rapid.IntRange(0, 12).Draw(t, label+".max") == 0 {
			n = 65535 // the longest input RFC 9497 allows
		}
	default:
		n = rapid.SampledFrom(inputLens).Draw(t, label+".len")
	}
	b := make([]byte, n)
	if n > 0 && rapid.IntRange(0, 5).Draw(t, label+".zero") != 0 {
		vlib.FillRandom(t, b, label)
	}
	return b
}

func drawInfo(t *rapid.T, label string) []byte {
	if rapid.IntRange(0, 40).Draw(t, label+".max") == 0 {
		b := make([]byte, 65535) // the longest info RFC 9497 allows
		vlib.FillRandom(t, b, label)
		return b
	}
	switch rapid.IntRange(0, 7).Draw(t, label+".ik") {
	case 0:
		return []byte{}
	case 1:
		return []byte("test info")
	case 2:
		return vlib.Bytes(t, 1, 3, label)
	case 5:
		return []byte{rapid.Byte().Draw(t, label+".b")}
	case 6:
		b := make([]byte, rapid.SampledFrom(boundaryLens).Draw(t, label+".bl"))
		vlib.FillRandom(t, b, label)
		return b
	case 3:
		return vlib.Bytes(t, 200, 300, label)
	default:
		return vlib.Bytes(t, 0, 40, label)
	}
}

func scalarsBytes(ss []oprf.Blind) []byte {
	var o []byte
	for _, s := range ss {
		o = append(o, serS(s)...)
	}
	return o
}

func elemsBytes(es []group.Element) []byte {
	var o []byte
	for _, e := range es {
		o = append(o, ser(e)...)
	}
	return o
}

func oprfCase(t *rapid.T, si suiteInfo, mode byte) {
	g := si.g
	mname := modeNames[mode]
	key := func(kind string) string { return "C16/oprf/" + si.name + "/" + mname + "/" + kind }
	sub := "oprf/" + si.name + "/" + mname
	ref := refSuite{id: si.name, g: g, h: si.h, mode: mode}
	vlib.Eval(sub)
	defer reportOperands(t, key("operand-changed"))

	// ---- server key
	var sk *oprf.PrivateKey
	var err error
	keyDesc := ""
	switch rapid.SampledFrom([]string{"derive", "derive", "random", "random", "edge"}).Draw(t, "keyKind") {
	case "derive":
		seed := vlib.EdgeBytes(t, 32, "seed")
		kinfo := drawInfo(t, "keyInfo") // lengths 0, 1, …, 255/256/257, 65535
		vlib.Class(sub, "keyinfolen="+lenClass(len(kinfo)))
		sk, err = oprf.DeriveKey(si.suite, mode, seed, kinfo)
		if err != nil {
			t.Fatalf("DeriveKey: %v", err)
		}
		want, rerr := ref.deriveKey(seed, kinfo)
		got, _ := sk.MarshalBinary()
		if rerr != nil || !bytes.Equal(got, serS(want)) {
			vlib.Report(t, key("DeriveKey-differs-from-RFC9497"), fmt.Sprintf("seed=%x info=%x circl=%x reference=%x", seed, kinfo, got, serS(want)))
			return
		}
		keyDesc = fmt.Sprintf("DeriveKey(seed=%x,info=%x)", seed, kinfo)
		vlib.Class(sub, "key=derived")
	case "random":
		rd := vlib.DrawReader(t, "keyrnd")
		sk, err = oprf.GenerateKey(si.suite, rd)
		if err != nil {
			t.Fatalf("GenerateKey: %v", err)
		}
		vlib.Class(sub, "key=random")
		keyDesc = "GenerateKey"
		if si.le {
			// group.Ristretto255.RandomScalar ignores its reader (crypto/rand inside): the key would
			// not be a function of the drawn values, so a uniformly drawn scalar is unmarshalled instead
			kb := make([]byte, 64)
			vlib.FillRandom(t, kb, "keyuni")
			kv := new(big.Int).SetBytes(kb)
			if kv.Mod(kv, si.order).Sign() == 0 {
				kv.SetInt64(1)
			}
			sk = new(oprf.PrivateKey)
			if err := sk.UnmarshalBinary(si.suite, si.bigToBytes(kv)); err != nil {
				t.Fatalf("PrivateKey.UnmarshalBinary of a canonical scalar: %v", err)
			}
			keyDesc = "UnmarshalBinary(uniform)"
		}
	default:
		// a key received in its wire format, with edge values (1, 2, order-1, 2^k, …)
		_, kv := si.drawScalar(t, true, "edgeKey")
		sk = new(oprf.PrivateKey)
		if err := sk.UnmarshalBinary(si.suite, si.bigToBytes(kv)); err != nil {
			t.Fatalf("PrivateKey.UnmarshalBinary of a canonical scalar: %v", err)
		}
		vlib.Class(sub, "key=unmarshalled-edge")
		keyDesc = "UnmarshalBinary"
	}
	skb, _ := sk.MarshalBinary()
	if si.bytesToBig(skb).Sign() == 0 {
		return // a zero key is outside the protocol (RFC 9497 keys are non-zero)
	}
	skRef := g.NewScalar()
	if err := skRef.UnmarshalBinary(skb); err != nil {
		t.Fatalf("harness: sk bytes: %v", err)
	}
	// object reuse: the key is decoded into a PrivateKey object that has already been used with
	// ANOTHER key (its public key was asked for, a server was built on it); everything below
	// must behave as with a fresh object
	if rapid.IntRange(0, 2).Draw(t, "reuseKeyObj") == 0 {
		_, ov := si.drawScalar(t, true, "oldKey")
		if ov.Cmp(new(big.Int).Mod(si.bytesToBig(skb), si.order)) == 0 {
			ov = new(big.Int).Add(ov, big.NewInt(1))
			if ov.Mod(ov, si.order).Sign() == 0 {
				ov.SetInt64(1)
			}
		}
		used := new(oprf.PrivateKey)
		if err := used.UnmarshalBinary(si.suite, si.bigToBytes(ov)); err != nil {
			t.Fatalf("PrivateKey.UnmarshalBinary of a canonical scalar: %v", err)
		}
		_ = used.Public()
		_ = oprf.NewVerifiableServer(si.suite, used).PublicKey()
		if err := used.UnmarshalBinary(si.suite, skb); err != nil {
			t.Fatalf("PrivateKey.UnmarshalBinary of a marshalled key: %v", err)
		}
		sk = used
		keyDesc += fmt.Sprintf(" decoded into a key object previously holding %x", si.bigToBytes(ov))
		vlib.Class(sub, "key-object-reused")
	}
	pk := sk.Public()
	pkb, _ := pk.MarshalBinary()
	pkRef := g.NewElement().MulGen(skRef)
	if !bytes.Equal(pkb, ser(pkRef)) {
		vlib.Report(t, key("public-key"), fmt.Sprintf("%s: pk=%x reference=%x", keyDesc, pkb, ser(pkRef)))
		return
	}
	// the client sometimes holds a key that went through the wire format
	clientPK := pk
	if rapid.Bool().Draw(t, "pkWire") {
		clientPK = new(oprf.PublicKey)
		if rapid.Bool().Draw(t, "reusePKObj") {
			// the PublicKey object held another key before
			os, _ := si.drawScalar(t, true, "oldPK")
			if err := clientPK.UnmarshalBinary(si.suite, ser(g.NewElement().MulGen(os))); err != nil {
				t.Fatalf("PublicKey.UnmarshalBinary of a valid element: %v", err)
			}
			_, _ = clientPK.MarshalBinary()
			vlib.Class(sub, "public-key-object-reused")
		}
		if err := clientPK.UnmarshalBinary(si.suite, pkb); err != nil {
			vlib.Report(t, key("public-key-roundtrip"), fmt.Sprintf("pk=%x err=%v", pkb, err))
			return
		}
	}
	persist := rapid.Bool().Draw(t, "persistObjects")
	if persist {
		vlib.Class(sub, "one-client-and-server-object-for-the-whole-case")
	}
	p := newParty(si, mode, sk, clientPK, persist)

	// ---- inputs, info, blinds
	n := rapid.SampledFrom([]int{1, 1, 2, 3, 4, 5}).Draw(t, "batch")
	vlib.Class(sub, fmt.Sprintf("batch=%d", n))
	inputs := make([][]byte, n)
	for i := range inputs {
		inputs[i] = drawInput(t, fmt.Sprintf("in%d", i))
		vlib.Class(sub, fmt.Sprintf("inputlen=%s", lenClass(len(inputs[i]))))
	}
	if n >= 2 && rapid.IntRange(0, 4).Draw(t, "dupInput") == 0 {
		inputs[1] = append([]byte{}, inputs[0]...)
		vlib.Class(sub, "duplicate-input")
	}
	var info []byte
	if mode == 2 {
		info = drawInfo(t, "info")
		vlib.Class(sub, "infolen="+lenClass(len(info)))
	}
	blinds1 := make([]oprf.Blind, n)
	blinds2 := make([]oprf.Blind, n)
	for i := 0; i < n; i++ {
		var v1 *big.Int
		blinds1[i], v1 = si.drawScalar(t, true, fmt.Sprintf("b1_%d", i))
		var v2 *big.Int
		blinds2[i], v2 = si.drawScalar(t, true, fmt.Sprintf("b2_%d", i))
		if v1.Cmp(v2) == 0 {
			v2 = new(big.Int).Add(v2, big.NewInt(1))
			if new(big.Int).Mod(v2, si.order).Sign() == 0 {
				v2.SetInt64(1)
			}
			blinds2[i] = si.scalarFromBig(v2)
		}
	}
	desc := fmt.Sprintf("suite=%s mode=%s key=%s sk=%x batch=%d inputs=%s info=%s blinds=%s", si.name, mname, keyDesc, skb, n, hxList(inputs), hxs(info), hxs(scalarsBytes(blinds1)))

	// ---- honest run with blind vector 1
	fd1, req1, err := p.blindDet(clientPK, inputs, copyScalars(blinds1))
	if err != nil {
		vlib.Report(t, key("blind-error"), fmt.Sprintf("%s: DeterministicBlind: %v", desc, err))
		return
	}
	refBlinded := make([]group.Element, n)
	for i := range inputs {
		e, ok := ref.blind(inputs[i], blinds1[i])
		if !ok {
			return // HashToGroup(input) = identity: probability 2^-250
		}
		refBlinded[i] = e
		if !bytes.Equal(ser(req1.Elements[i]), ser(e)) {
			vlib.Report(t, key("blinded-differs-from-RFC9497"), fmt.Sprintf("%s: blinded[%d]=%x reference=%x", desc, i, ser(req1.Elements[i]), ser(e)))
			return
		}
	}
	ev1, err := p.evaluate(req1, info)
	if err != nil {
		vlib.Report(t, key("evaluate-error"), fmt.Sprintf("%s: Evaluate: %v", desc, err))
		return
	}
	mul, _, ok := ref.evalScalar(skRef, info)
	if !ok {
		return
	}
	if len(ev1.Elements) != n {
		vlib.Report(t, key("evaluate-length"), fmt.Sprintf("%s: %d evaluated elements", desc, len(ev1.Elements)))
		return
	}
	for i := range ev1.Elements {
		want := g.NewElement().Mul(refBlinded[i], mul)
		if !bytes.Equal(ser(ev1.Elements[i]), ser(want)) {
			vlib.Report(t, key("evaluated-differs-from-RFC9497"), fmt.Sprintf("%s: evaluated[%d]=%x reference=%x", desc, i, ser(ev1.Elements[i]), ser(want)))
			return
		}
	}
	var pc, ps group.Scalar
	var proofBytes []byte
	if mode != 0 {
		if ev1.Proof == nil {
			vlib.Report(t, key("no-proof"), desc+": verifiable-mode Evaluate returned no proof")
			return
		}
		proofBytes, err = ev1.Proof.MarshalBinary()
		if err != nil || len(proofBytes) != 2*si.scalarLen() {
			vlib.Report(t, key("proof-marshal"), fmt.Sprintf("%s: err=%v len=%d", desc, err, len(proofBytes)))
			return
		}
		pc, ps = g.NewScalar(), g.NewScalar()
		if pc.UnmarshalBinary(proofBytes[:si.scalarLen()]) != nil || ps.UnmarshalBinary(proofBytes[si.scalarLen():]) != nil {
			t.Fatalf("harness: proof scalars do not decode")
		}
		// (R) the server's proof is valid by the RFC's VerifyProof
		if !ref.verifyEvaluation(pkRef, refBlinded, ev1.Elements, info, pc, ps) {
			vlib.Report(t, key("server-proof-rejected-by-RFC9497-verifier"), fmt.Sprintf("%s: proof=%x", desc, proofBytes))
			return
		}
	} else if ev1.Proof != nil {
		vlib.Class(sub, "base-mode-proof-non-nil")
	}
	out1, err := p.finalize(clientPK, fd1, ev1, info)
	if err != nil {
		vlib.Report(t, key("honest-finalize-error"), fmt.Sprintf("%s: Finalize of the honest evaluation: %v", desc, err))
		return
	}
	if len(out1) != n {
		vlib.Report(t, key("output-length"), fmt.Sprintf("%s: %d outputs", desc, len(out1)))
		return
	}
	for i := range inputs {
		// (R) reference Finalize and reference direct Evaluate
		want := ref.finalize(inputs[i], info, blinds1[i], ev1.Elements[i])
		direct, _ := ref.evaluate(skRef, inputs[i], info)
		if !bytes.Equal(out1[i], want) || !bytes.Equal(out1[i], direct) {
			vlib.Report(t, key("output-differs-from-RFC9497"), fmt.Sprintf("%s: output[%d]=%x reference Finalize=%x reference Evaluate=%x", desc, i, out1[i], want, direct))
			return
		}
		full, err := p.fullEvaluate(inputs[i], info)
		if err != nil || !bytes.Equal(full, out1[i]) {
			vlib.Report(t, key("output-differs-from-FullEvaluate"), fmt.Sprintf("%s: output[%d]=%x FullEvaluate=%x err=%v", desc, i, out1[i], full, err))
			return
		}
		if !p.verifyFinalize(inputs[i], info, out1[i]) {
			vlib.Report(t, key("VerifyFinalize-false"), fmt.Sprintf("%s: VerifyFinalize(input[%d], output) = false", desc, i))
			return
		}
	}
	// VerifyFinalize must not hold for an altered output / another input / another info
	{
		i := rapid.IntRange(0, n-1).Draw(t, "vfIdx")
		bad := append([]byte{}, out1[i]...)
		bit := rapid.IntRange(0, 8*len(bad)-1).Draw(t, "vfBit")
		bad[bit/8] ^= 1 << (bit % 8)
		if p.verifyFinalize(inputs[i], info, bad) {
			vlib.Report(t, key("VerifyFinalize-accepts-altered-output"), fmt.Sprintf("%s: bit %d of output[%d]", desc, bit, i))
			return
		}
		if p.verifyFinalize(append(append([]byte{}, inputs[i]...), 0x01), info, out1[i]) {
			vlib.Report(t, key("VerifyFinalize-accepts-other-input"), desc)
			return
		}
		if mode == 2 && p.verifyFinalize(inputs[i], append(append([]byte{}, info...), 0x01), out1[i]) {
			vlib.Report(t, key("VerifyFinalize-accepts-other-info"), desc)
			return
		}
	}

	// ---- (M) a different blind vector gives the same outputs
	fd2, req2, err := p.blindDet(clientPK, inputs, copyScalars(blinds2))
	if err != nil {
		vlib.Report(t, key("blind-error"), fmt.Sprintf("%s: DeterministicBlind(2): %v", desc, err))
		return
	}
	ev2, err := p.evaluate(req2, info)
	if err != nil {
		vlib.Report(t, key("evaluate-error"), fmt.Sprintf("%s: Evaluate(2): %v", desc, err))
		return
	}
	out2, err := p.finalize(clientPK, fd2, ev2, info)
	if err != nil {
		vlib.Report(t, key("honest-finalize-error"), fmt.Sprintf("%s: blinds2=%x: %v", desc, scalarsBytes(blinds2), err))
		return
	}
	for i := range out1 {
		if !bytes.Equal(out1[i], out2[i]) {
			vlib.Report(t, key("output-depends-on-blind"), fmt.Sprintf("%s: blinds2=%x output[%d] %x vs %x", desc, scalarsBytes(blinds2), i, out1[i], out2[i]))
			return
		}
	}
	vlib.NonTrivial(sub, "two-blind-vectors-agree", []byte(sub), skb, elemsBytes(req1.Elements), elemsBytes(req2.Elements), info)
	// library-drawn blinds (crypto/rand): the relation holds for every draw
	if rapid.IntRange(0, 3).Draw(t, "randBlind") == 0 {
		fd3, req3, err := p.blindRand(inputs)
		if err != nil {
			vlib.Report(t, key("blind-error"), fmt.Sprintf("%s: Blind: %v", desc, err))
			return
		}
		ev3, err := p.evaluate(req3, info)
		if err != nil {
			vlib.Report(t, key("evaluate-error"), fmt.Sprintf("%s: Evaluate(3): %v", desc, err))
			return
		}
		out3, err := p.finalize(clientPK, fd3, ev3, info)
		if err != nil {
			vlib.Report(t, key("honest-finalize-error"), fmt.Sprintf("%s: random blinds %x: %v", desc, scalarsBytes(fd3.CopyBlinds()), err))
			return
		}
		for i := range out1 {
			if !bytes.Equal(out1[i], out3[i]) {
				vlib.Report(t, key("output-depends-on-blind"), fmt.Sprintf("%s: random blinds %x output[%d] differs", desc, scalarsBytes(fd3.CopyBlinds()), i))
				return
			}
		}
		vlib.Class(sub, "library-random-blinds")
	}
	// duplicate inputs give duplicate outputs; distinct inputs distinct outputs
	for i := 1; i < n; i++ {
		if bytes.Equal(inputs[i], inputs[0]) != bytes.Equal(out1[i], out1[0]) {
			vlib.Report(t, key("batch-consistency"), fmt.Sprintf("%s: inputs[0]==inputs[%d] is %v but outputs equal is %v", desc, i, bytes.Equal(inputs[i], inputs[0]), bytes.Equal(out1[i], out1[0])))
			return
		}
	}
	vlib.Sample(sub, "honest", desc+" → outputs equal reference, FullEvaluate and a second blind vector")

	if rapid.Bool().Draw(t, "bufferReuse") && !bufferReuse(t, si, mode, sk, clientPK, skRef, ref, desc) {
		return
	}

	if mode == 0 {
		return
	}
	// (R) a proof generated by the reference prover is accepted by circl's client
	if rapid.IntRange(0, 2).Draw(t, "refProof") == 0 {
		rr, _ := si.drawScalar(t, true, "refR")
		_, c, s, _ := ref.blindEvaluate(skRef, refBlinded, info, rr)
		rp := new(dleq.Proof)
		if err := rp.UnmarshalBinary(g, append(serS(c), serS(s)...)); err != nil {
			t.Fatalf("harness: reference proof does not decode: %v", err)
		}
		if _, err := p.finalize(clientPK, fd1, &oprf.Evaluation{Elements: ev1.Elements, Proof: rp}, info); err != nil {
			vlib.Report(t, key("RFC9497-proof-rejected"), fmt.Sprintf("%s: reference proof r=%x proof=%x%x: %v", desc, serS(rr), serS(c), serS(s), err))
			return
		}
		vlib.Class(sub, "reference-proof-accepted")
	}

	// ---- alterations (verifiable modes): Finalize must return an error
	nalt := rapid.IntRange(2, 4).Draw(t, "nalt")
	for a := 0; a < nalt; a++ {
		alterOnce(t, p, ref, fmt.Sprintf("a%d", a), desc, clientPK, pkRef, skRef, inputs, info, blinds1, fd1, req1, ev1, refBlinded, proofBytes, out1)
	}

	// ---- a zero blind handed to DeterministicBlind (the API accepts any scalar; RFC 9497 draws
	// non-zero blinds): blinded[i] is then the identity. Whatever the client does with such a
	// run, an evaluation whose element i was replaced must still be refused — the proof has to
	// bind evaluation[i] also when blinded[i] is the identity. If the API refuses the zero blind
	// that is counted instead. Nothing is asserted about the honest run with a zero blind.
	if rapid.IntRange(0, 2).Draw(t, "zeroBlind") == 0 {
		zsub := "oprf-zero-blind/" + si.name + "/" + mname
		zi := rapid.IntRange(0, n-1).Draw(t, "zeroIdx")
		zb := copyScalars(blinds1)
		zb[zi] = g.NewScalar()
		var fdz *oprf.FinalizeData
		var reqz *oprf.EvaluationRequest
		var evz *oprf.Evaluation
		var zerr error
		if pn, _ := vlib.Catch(func() {
			fdz, reqz, zerr = p.blindDet(clientPK, inputs, zb)
			if zerr == nil {
				evz, zerr = p.evaluate(reqz, info)
			}
		}); pn != nil || zerr != nil {
			vlib.Class(zsub, "zero blind refused by the API")
			return
		}
		vlib.Eval(zsub)
		how := rapid.SampledFrom([]string{"generator", "random", "public-key", "other-eval"}).Draw(t, "zeroHow")
		var X group.Element
		switch how {
		case "generator":
			X = g.Generator()
		case "random":
			X = si.drawElement(t, "zeroX")
		case "public-key":
			X = pkRef.Copy()
		case "other-eval":
			X = ev1.Elements[(zi+1)%n].Copy()
		}
		if X.IsEqual(evz.Elements[zi]) {
			vlib.Class(zsub, "alteration-was-identity")
			return
		}
		vlib.Class(zsub, fmt.Sprintf("batch=%d", n))
		evA := &oprf.Evaluation{Elements: append([]oprf.Evaluated{}, evz.Elements...), Proof: evz.Proof}
		evA.Elements[zi] = X
		var ferr error
		pn, st := vlib.Catch(func() { _, ferr = p.finalize(clientPK, fdz, evA, info) })
		zdesc := fmt.Sprintf("%s ZERO BLIND at %d (blinded[%d]=%x), evaluation[%d] := %s (%x)", desc, zi, zi, ser(reqz.Elements[zi]), zi, how, ser(X))
		if pn != nil {
			vlib.Report(t, "C16/oprf-zero-blind/"+si.name+"/"+mname+"/panic/"+vlib.PanicClass(pn), fmt.Sprintf("%s: panic %v\n%s", zdesc, pn, st))
			return
		}
		if ferr == nil {
			vlib.Report(t, "C16/oprf-zero-blind/"+si.name+"/"+mname+"/accepted/eval-elem", zdesc+": Finalize returned no error")
			return
		}
		vlib.NonTrivial(zsub, "finalize=error", []byte(zdesc))
		vlib.Sample(zsub, "eval-elem", zdesc+fmt.Sprintf(" → %v", ferr))
	}
}

// bufferReuse: one client object and one server object; every []byte (and scalar) handed to
// them is overwritten IN PLACE by the caller after the call and handed in again with new
// contents. Results must be those of fresh objects, i.e. of the reference: a client or server
// may not remember a caller's buffer, nor anything derived from its former contents.
func bufferReuse(t *rapid.T, si suiteInfo, mode byte, sk *oprf.PrivateKey, pk *oprf.PublicKey, skRef group.Scalar, ref refSuite, desc string) bool {
	g := si.g
	mname := modeNames[mode]
	sub := "oprf-buffer-reuse/" + si.name + "/" + mname
	key := func(k string) string { return "C16/oprf-buffer-reuse/" + si.name + "/" + mname + "/" + k }
	pp := newParty(si, mode, sk, pk, true)
	vlib.Eval(sub)
	n := rapid.IntRange(1, 2).Draw(t, "brN")
	inputs := make([][]byte, n)
	blinds := make([]oprf.Blind, n)
	for i := range inputs {
		inputs[i] = vlib.Bytes(t, 1, 32, fmt.Sprintf("brIn%d", i))
		blinds[i], _ = si.drawScalar(t, true, fmt.Sprintf("brB%d", i))
	}
	var info []byte
	if mode == 2 {
		if rapid.IntRange(0, 5).Draw(t, "brInfoBoundary") == 0 {
			info = make([]byte, rapid.SampledFrom(boundaryLens).Draw(t, "brInfoLen"))
			vlib.FillRandom(t, info, "brInfo")
		} else {
			info = vlib.Bytes(t, 1, 24, "brInfo")
		}
	}
	want := func(i int) []byte {
		o, _ := ref.evaluate(skRef, inputs[i], info)
		return o
	}
	run := func(what string, req *oprf.EvaluationRequest, fd *oprf.FinalizeData) (*oprf.Evaluation, bool) {
		ev, err := pp.evaluate(req, info)
		if err != nil {
			vlib.Report(t, key(what+"/evaluate-error"), fmt.Sprintf("%s BUFFER REUSE %s inputs=%s info=%x: %v", desc, what, hxList(inputs), info, err))
			return nil, false
		}
		out, err := pp.finalize(pk, fd, ev, info)
		if err != nil {
			vlib.Report(t, key(what+"/finalize-error"), fmt.Sprintf("%s BUFFER REUSE %s inputs=%s info=%x: honest evaluation refused: %v", desc, what, hxList(inputs), info, err))
			return nil, false
		}
		for i := range inputs {
			full, ferr := pp.fullEvaluate(inputs[i], info)
			if !bytes.Equal(out[i], want(i)) || ferr != nil || !bytes.Equal(full, want(i)) {
				vlib.Report(t, key(what+"/output"), fmt.Sprintf("%s BUFFER REUSE %s inputs=%s info=%x: output[%d]=%x FullEvaluate=%x reference=%x", desc, what, hxList(inputs), info, i, out[i], full, want(i)))
				return nil, false
			}
		}
		return ev, true
	}
	fd1, req1, err := pp.blindDet(pk, inputs, blinds)
	if err != nil {
		vlib.Report(t, key("blind-error"), fmt.Sprintf("%s: %v", desc, err))
		return false
	}
	ev1, ok := run("first-run", req1, fd1)
	if !ok {
		return false
	}
	if mode == 2 {
		old := append([]byte{}, info...)
		// the caller rewrites its info buffer in place (same length, other contents)
		vlib.FillRandom(t, info, "brInfo2")
		if bytes.Equal(info, old) {
			info[0] ^= 1
		}
		vlib.Class(sub, "info-buffer-overwritten-in-place")
		if _, err := pp.finalize(pk, fd1, ev1, info); err == nil {
			vlib.Report(t, key("stale-info-accepted"), fmt.Sprintf("%s BUFFER REUSE: evaluation made for info=%x accepted by Finalize with info=%x (same buffer rewritten in place)", desc, old, info))
			return false
		}
		if _, ok := run("info-rewritten", req1, fd1); !ok {
			return false
		}
		copy(info, old)
		if _, ok := run("info-restored", req1, fd1); !ok {
			return false
		}
		vlib.NonTrivial(sub, "", []byte(desc), old, info, []byte("info"))
	}
	// the caller rewrites its input buffers and blind scalars in place and starts a new run
	for i := range inputs {
		vlib.FillRandom(t, inputs[i], fmt.Sprintf("brIn2_%d", i))
		nb, _ := si.drawScalar(t, true, fmt.Sprintf("brB2_%d", i))
		blinds[i].Set(nb)
	}
	vlib.Class(sub, "input-and-blind-buffers-overwritten-in-place")
	fd2, req2, err := pp.blindDet(pk, inputs, blinds)
	if err != nil {
		vlib.Report(t, key("blind-error"), fmt.Sprintf("%s: %v", desc, err))
		return false
	}
	for i := range inputs {
		e, ok := ref.blind(inputs[i], blinds[i])
		if !ok || !bytes.Equal(ser(e), ser(req2.Elements[i])) {
			vlib.Report(t, key("second-run/blinded"), fmt.Sprintf("%s BUFFER REUSE inputs=%s: blinded[%d]=%x reference=%x", desc, hxList(inputs), i, ser(req2.Elements[i]), ser(e)))
			return false
		}
	}
	if _, ok := run("second-run", req2, fd2); !ok {
		return false
	}
	vlib.NonTrivial(sub, "", []byte(desc), elemsBytes(req2.Elements), []byte("inputs"))
	vlib.Sample(sub, "reuse", fmt.Sprintf("%s BUFFER REUSE inputs=%s info=%x → as fresh objects", desc, hxList(inputs), info))
	_ = g
	return true
}

func lenClass(n int) string {
	switch {
	case n == 0:
		return "0"
	case n == 1:
		return "1"
	case n <= 99:
		return "2..99"
	case n == 100:
		return "100"
	case n >= 255 && n <= 257:
		return fmt.Sprintf("%d", n)
	case n < 1000:
		return "101..999"
	case n == 1000:
		return "1000"
	case n == 65535:
		return "65535"
	default:
		return ">1000"
	}
}

func hxList(l [][]byte) string {
	s := "["
	for i, b := range l {
		if i > 0 {
			s += ","
		}
		s += hxs(b)
	}
	return s + "]"
}

func copyScalars(in []oprf.Blind) []oprf.Blind {
	out := make([]oprf.Blind, len(in))
	for i := range in {
		out[i] = in[i].Copy()
	}
	return out
}

var alterKinds = []string{
	"eval-elem", "eval-elem", "eval-elem", "eval-swap", "eval-drop",
	"proof-c", "proof-c", "proof-s", "proof-s", "proof-swap-cs", "proof-replay", "proof-nil",
	"other-pk", "other-pk", "other-info", "other-info",
	"blinded-server-side", "blinded-client-side",
}

// alterOnce applies one single-component alteration and checks that Finalize fails.
func alterOnce(t *rapid.T, p party, ref refSuite, lbl, desc string, clientPK *oprf.PublicKey, pkRef group.Element, skRef group.Scalar,
	inputs [][]byte, info []byte, blinds []oprf.Blind, fd *oprf.FinalizeData, req *oprf.EvaluationRequest, ev *oprf.Evaluation,
	refBlinded []group.Element, proofBytes []byte, honestOut [][]byte,
) {
	si, g, mode := p.si, p.si.g, p.mode
	n := len(inputs)
	mname := modeNames[mode]
	sub := "oprf-alter/" + si.name + "/" + mname
	kind := rapid.SampledFrom(alterKinds).Draw(t, lbl+".kind")
	if kind == "other-info" && mode != 2 {
		kind = "eval-elem"
	}
	if (kind == "eval-swap" || kind == "eval-drop") && n < 2 {
		kind = "eval-elem"
	}
	L := si.scalarLen()
	evA := &oprf.Evaluation{Elements: append([]oprf.Evaluated{}, ev.Elements...), Proof: ev.Proof}
	pkA := clientPK
	pkRefA := pkRef
	infoA := info
	blindedA := refBlinded // what the client holds
	fdA := fd
	pbA := proofBytes
	detail := kind
	var restore func()
	switch kind {
	case "eval-elem":
		i := rapid.IntRange(0, n-1).Draw(t, lbl+".i")
		var e group.Element
		how := rapid.SampledFrom([]string{"random", "identity", "generator", "blinded", "neg", "double", "plusG", "other-eval", "honest-other-key"}).Draw(t, lbl+".how")
		switch how {
		case "random":
			e = si.drawElement(t, lbl+".e")
		case "identity":
			e = g.Identity()
		case "generator":
			e = g.Generator()
		case "blinded":
			e = refBlinded[i].Copy()
		case "neg":
			e = g.NewElement().Neg(ev.Elements[i])
		case "double":
			e = g.NewElement().Dbl(ev.Elements[i])
		case "plusG":
			e = g.NewElement().Add(ev.Elements[i], g.Generator())
		case "other-eval":
			e = ev.Elements[(i+1)%n].Copy()
		case "honest-other-key":
			// what a server with the key sk+1 would have answered
			k2 := g.NewScalar().Add(skRef, g.NewScalar().SetUint64(1))
			m2, _, ok := ref.evalScalar(k2, info)
			if !ok {
				m2 = k2
			}
			e = g.NewElement().Mul(refBlinded[i], m2)
		}
		evA.Elements[i] = e
		detail = fmt.Sprintf("evaluation[%d] := %s (%x)", i, how, ser(e))
		if e.IsEqual(ev.Elements[i]) {
			vlib.Class(sub, "alteration-was-identity")
			return
		}
	case "eval-swap":
		i := rapid.IntRange(0, n-2).Draw(t, lbl+".i")
		evA.Elements[i], evA.Elements[i+1] = evA.Elements[i+1], evA.Elements[i]
		detail = fmt.Sprintf("evaluation[%d] <-> evaluation[%d]", i, i+1)
		if evA.Elements[i].IsEqual(evA.Elements[i+1]) {
			vlib.Class(sub, "alteration-was-identity")
			return
		}
	case "eval-drop":
		evA.Elements = evA.Elements[:n-1]
		detail = "last evaluated element dropped"
	case "proof-c", "proof-s", "proof-swap-cs":
		pb := append([]byte{}, proofBytes...)
		off := 0
		if kind == "proof-s" {
			off = L
		}
		how := ""
		if kind == "proof-swap-cs" {
			copy(pb[:L], proofBytes[L:])
			copy(pb[L:], proofBytes[:L])
			how = "swap"
		} else {
			how = rapid.SampledFrom([]string{"bitflip", "bitflip", "plus1", "minus1", "zero", "one", "random", "negate", "alias"}).Draw(t, lbl+".how")
			old := si.bytesToBig(proofBytes[off : off+L])
			var nv *big.Int
			switch how {
			case "bitflip":
				b := rapid.IntRange(0, 8*L-1).Draw(t, lbl+".bit")
				pb[off+b/8] ^= 1 << (b % 8)
				how = fmt.Sprintf("bitflip@%d", b)
			case "plus1":
				nv = new(big.Int).Add(old, big.NewInt(1))
			case "minus1":
				nv = new(big.Int).Sub(old, big.NewInt(1))
			case "zero":
				nv = big.NewInt(0)
			case "one":
				nv = big.NewInt(1)
			case "negate":
				nv = new(big.Int).Neg(old)
			case "random":
				_, nv = si.drawScalar(t, false, lbl+".rs")
			case "alias":
				// another encoding of the same residue: residue + order when it fits the
				// encoding, else the top bit of the encoding set
				al := new(big.Int).Add(new(big.Int).Mod(old, si.order), si.order)
				if al.BitLen() <= 8*L {
					copy(pb[off:off+L], si.bigToBytes(al))
				} else if si.le {
					pb[off+L-1] |= 0x80
				} else {
					pb[off] |= 0x80
				}
			}
			if nv != nil {
				copy(pb[off:off+L], si.bigToBytes(nv.Mod(nv, si.order)))
			}
		}
		detail = fmt.Sprintf("%s %s: proof %x → %x", kind, how, proofBytes, pb)
		// the altered encoding must stand for different scalars (a non-canonical alias of the
		// same residues is an encoding question, property C09, and is only counted)
		if bytes.Equal(pb, proofBytes) {
			vlib.Class(sub, "alteration-was-identity")
			return
		}
		if si.sameProofScalars(pb, proofBytes) {
			// observed, not asserted
			res := "rejected"
			if np := new(dleq.Proof); np.UnmarshalBinary(g, pb) == nil {
				evA.Proof = np
				if _, err := p.finalize(pkA, fdA, evA, infoA); err == nil {
					res = "accepted"
				}
			}
			vlib.Class(sub, "noncanonical-alias-of-the-same-scalars "+res+" (C09's subject; not asserted)")
			return
		}
		np := new(dleq.Proof)
		if err := np.UnmarshalBinary(g, pb); err != nil {
			vlib.Eval(sub)
			vlib.Class(sub, "alter="+kind)
			vlib.Class(sub, "rejected-at-proof-unmarshal")
			vlib.NonTrivial(sub, "", []byte(desc), []byte(detail))
			return
		}
		evA.Proof = np
		pbA = pb
	case "proof-replay":
		// the proof of another honest evaluation under the same key (other blinds)
		bl := make([]oprf.Blind, n)
		for i := range bl {
			bl[i], _ = si.drawScalar(t, true, fmt.Sprintf("%s.rb%d", lbl, i))
		}
		_, req2, err := p.blindDet(clientPK, inputs, bl)
		if err != nil {
			return
		}
		same := true
		for i := range req2.Elements {
			same = same && req2.Elements[i].IsEqual(req.Elements[i])
		}
		if same {
			vlib.Class(sub, "alteration-was-identity")
			return
		}
		ev2, err := p.evaluate(req2, info)
		if err != nil {
			return
		}
		evA.Proof = ev2.Proof
		pbA, _ = ev2.Proof.MarshalBinary()
		detail = fmt.Sprintf("proof of another evaluation (same key, other blinds): %x", pbA)
	case "proof-nil":
		evA.Proof = nil
		pbA = nil
		detail = "Proof = nil"
	case "other-pk":
		how := rapid.SampledFrom([]string{"other-key", "plusG", "neg", "generator", "double"}).Draw(t, lbl+".how")
		var e group.Element
		switch how {
		case "other-key":
			s, _ := si.drawScalar(t, true, lbl+".ok")
			e = g.NewElement().MulGen(s)
		case "plusG":
			e = g.NewElement().Add(pkRef, g.Generator())
		case "neg":
			e = g.NewElement().Neg(pkRef)
		case "generator":
			e = g.Generator()
		case "double":
			e = g.NewElement().Dbl(pkRef)
		}
		if e.IsEqual(pkRef) {
			vlib.Class(sub, "alteration-was-identity")
			return
		}
		pkA = new(oprf.PublicKey)
		if err := pkA.UnmarshalBinary(si.suite, ser(e)); err != nil {
			t.Fatalf("harness: other public key does not decode: %v", err)
		}
		pkRefA = e
		detail = fmt.Sprintf("client public key := %s (%x)", how, ser(e))
	case "other-info":
		how := rapid.SampledFrom([]string{"append", "truncate", "bitflip", "empty", "random"}).Draw(t, lbl+".how")
		ni := append([]byte{}, info...)
		switch how {
		case "append":
			ni = append(ni, rapid.Byte().Draw(t, lbl+".b"))
		case "truncate":
			if len(ni) > 0 {
				ni = ni[:len(ni)-1]
			} else {
				ni = []byte{0}
			}
		case "bitflip":
			if len(ni) > 0 {
				b := rapid.IntRange(0, 8*len(ni)-1).Draw(t, lbl+".bit")
				ni[b/8] ^= 1 << (b % 8)
			} else {
				ni = []byte{0x80}
			}
		case "empty":
			if len(ni) == 0 {
				ni = []byte("x")
			} else {
				ni = []byte{}
			}
		case "random":
			ni = vlib.Bytes(t, 0, 40, lbl+".ni")
		}
		if bytes.Equal(ni, info) {
			vlib.Class(sub, "alteration-was-identity")
			return
		}
		infoA = ni
		detail = fmt.Sprintf("client info := %x (%s)", ni, how)
	case "blinded-server-side", "blinded-client-side":
		i := rapid.IntRange(0, n-1).Draw(t, lbl+".i")
		how := rapid.SampledFrom([]string{"random", "plusG", "neg", "double", "generator"}).Draw(t, lbl+".how")
		var e group.Element
		switch how {
		case "random":
			e = si.drawElement(t, lbl+".e")
		case "plusG":
			e = g.NewElement().Add(refBlinded[i], g.Generator())
		case "neg":
			e = g.NewElement().Neg(refBlinded[i])
		case "double":
			e = g.NewElement().Dbl(refBlinded[i])
		case "generator":
			e = g.Generator()
		}
		if e.IsEqual(refBlinded[i]) {
			vlib.Class(sub, "alteration-was-identity")
			return
		}
		if kind == "blinded-server-side" {
			// the server honestly evaluates a request whose element i was replaced in transit
			req2 := &oprf.EvaluationRequest{Elements: copyElems(refBlinded)}
			req2.Elements[i] = e
			ev2, err := p.evaluate(req2, info)
			if err != nil {
				return
			}
			evA = ev2
			pbA, _ = ev2.Proof.MarshalBinary()
			detail = fmt.Sprintf("server evaluated blinded[%d] := %s (%x)", i, how, ser(e))
		} else {
			// the client's record of what it sent differs from what the server evaluated
			old := req.Elements[i]
			req.Elements[i] = e
			restore = func() { req.Elements[i] = old }
			blindedA = copyElems(refBlinded)
			blindedA[i] = e
			detail = fmt.Sprintf("client-side blinded[%d] := %s (%x)", i, how, ser(e))
		}
	}
	vlib.Eval(sub)
	vlib.Class(sub, "alter="+kind)
	var out [][]byte
	var ferr error
	pn, st := vlib.Catch(func() { out, ferr = p.finalize(pkA, fdA, evA, infoA) })
	if restore != nil {
		restore()
	}
	key := func(k string) string { return "C16/oprf-alter/" + si.name + "/" + mname + "/" + k }
	if pn != nil {
		if kind == "proof-nil" {
			// a missing proof makes Finalize panic instead of returning an error; no output is
			// produced, so it is counted as a rejection here (panics are property C10's subject)
			vlib.Class(sub, "proof-nil→panic (counted as rejection)")
			vlib.NonTrivial(sub, "", []byte(desc), []byte(detail))
			return
		}
		vlib.Report(t, key("panic/"+vlib.PanicClass(pn)), fmt.Sprintf("%s ALTERATION %s: panic %v\n%s", desc, detail, pn, st))
		return
	}
	if ferr == nil {
		same := len(out) == len(honestOut)
		for i := 0; same && i < len(out); i++ {
			same = bytes.Equal(out[i], honestOut[i])
		}
		vlib.Report(t, key("accepted/"+kind), fmt.Sprintf("%s ALTERATION %s: Finalize returned no error (outputs equal honest ones: %v)", desc, detail, same))
		return
	}
	vlib.Class(sub, "finalize=error")
	vlib.NonTrivial(sub, "", []byte(desc), []byte(detail))
	vlib.Sample(sub, kind, fmt.Sprintf("%s ALTERATION %s → %v", desc, detail, ferr))
	// differential: the RFC verifier must reject it too (otherwise the alteration was not one)
	if pbA != nil && len(evA.Elements) == len(blindedA) && rapid.IntRange(0, 1).Draw(t, lbl+".refcheck") == 0 {
		c, s := g.NewScalar(), g.NewScalar()
		if c.UnmarshalBinary(pbA[:L]) == nil && s.UnmarshalBinary(pbA[L:]) == nil {
			if ref.verifyEvaluation(pkRefA, blindedA, evA.Elements, infoA, c, s) {
				vlib.Report(t, key("rejected-but-valid-by-RFC9497/"+kind), fmt.Sprintf("%s ALTERATION %s: circl error %v, reference verifier accepts", desc, detail, ferr))
				return
			}
			vlib.Class(sub, "reference-verifier-rejects-too")
		}
	}
}

// TestC16Lengths: the cheap entry points (DeriveKey, FullEvaluate) against the RFC 9497
// reference with every length-prefixed field at the boundaries of its one- and two-byte
// prefixes (0, 1, 255, 256, 257, 65535), in every suite and mode. The full protocol runs of
// TestC16OPRF draw the same lengths, but too rarely in the expensive suites.
func TestC16Lengths(t *testing.T) {
	defer vlib.Done()
	lens := []int{0, 1, 2, 31, 32, 33, 254, 255, 256, 257, 258, 511, 512, 513, 1000, 65534, 65535}
	drawLen := func(t *rapid.T, label string) []byte {
		n := rapid.SampledFrom(lens).Draw(t, label+".len")
		if n > 60000 && rapid.IntRange(0, 3).Draw(t, label+".rare") != 0 {
			n = rapid.SampledFrom([]int{255, 256, 257}).Draw(t, label+".len2")
		}
		b := make([]byte, n)
		if n > 0 {
			vlib.FillRandom(t, b, label)
		}
		return b
	}
	for _, si := range allSuites {
		for mode := byte(0); mode < 3; mode++ {
			si, mode := si, mode
			t.Run(si.name+"/"+modeNames[mode], func(t *testing.T) {
				sub := "oprf-lengths/" + si.name + "/" + modeNames[mode]
				key := func(k string) string { return "C16/oprf-lengths/" + si.name + "/" + modeNames[mode] + "/" + k }
				ref := refSuite{id: si.name, g: si.g, h: si.h, mode: mode}
				vlib.Check(t, vlib.N(40, 400), func(t *rapid.T) {
					vlib.Eval(sub)
					defer reportOperands(t, key("operand-changed"))
					seed := vlib.EdgeBytes(t, 32, "seed")
					kinfo := drawLen(t, "keyInfo")
					vlib.Class(sub, "keyinfolen="+lenClass(len(kinfo)))
					sk, err := oprf.DeriveKey(si.suite, mode, seed, kinfo)
					if err != nil {
						vlib.Report(t, key("DeriveKey-error"), fmt.Sprintf("seed=%x |info|=%d: %v", seed, len(kinfo), err))
						return
					}
					want, rerr := ref.deriveKey(seed, kinfo)
					got, _ := sk.MarshalBinary()
					if rerr != nil || !bytes.Equal(got, serS(want)) {
						vlib.Report(t, key("DeriveKey-differs-from-RFC9497"), fmt.Sprintf("seed=%x |info|=%d info=%s circl=%x reference=%x", seed, len(kinfo), hxs(kinfo), got, serS(want)))
						return
					}
					// a seed of another length is refused (the function is documented for 32-byte seeds)
					bad := vlib.Bytes(t, 0, 64, "badSeed")
					if len(bad) != 32 {
						if k2, err := oprf.DeriveKey(si.suite, mode, bad, kinfo); err == nil && k2 != nil {
							vlib.Class(sub, "seed of another length accepted (not asserted)")
						} else {
							vlib.Class(sub, "seed of another length refused")
						}
					}
					input := drawLen(t, "input")
					var info []byte
					if mode == 2 {
						info = drawLen(t, "info")
						vlib.Class(sub, "infolen="+lenClass(len(info)))
					}
					vlib.Class(sub, "inputlen="+lenClass(len(input)))
					p := newParty(si, mode, sk, sk.Public(), false)
					full, err := p.fullEvaluate(input, info)
					wantOut, ok := ref.evaluate(want, input, info)
					if !ok {
						return
					}
					if err != nil || !bytes.Equal(full, wantOut) {
						vlib.Report(t, key("FullEvaluate-differs-from-RFC9497"), fmt.Sprintf("sk=%x |input|=%d |info|=%d input=%s info=%s: FullEvaluate=%x err=%v reference=%x", got, len(input), len(info), hxs(input), hxs(info), full, err, wantOut))
						return
					}
					if !p.verifyFinalize(input, info, wantOut) {
						vlib.Report(t, key("VerifyFinalize-false"), fmt.Sprintf("sk=%x |input|=%d |info|=%d", got, len(input), len(info)))
						return
					}
					vlib.NonTrivial(sub, "", seed, kinfo, input, info)
					vlib.Sample(sub, "lengths", fmt.Sprintf("suite=%s mode=%s |keyInfo|=%d |input|=%d |info|=%d → DeriveKey and FullEvaluate equal the reference", si.name, modeNames[mode], len(kinfo), len(input), len(info)))
				})
			})
		}
	}
}

func TestC16OPRF(t *testing.T) {
	defer vlib.Done()
	for _, si := range allSuites {
		for mode := byte(0); mode < 3; mode++ {
			si, mode := si, mode
			t.Run(si.name+"/"+modeNames[mode], func(t *testing.T) {
				n := si.cases([4]int{70, 70, 20, 10}, 4)
				if mode == 0 {
					n = n * 2 / 3
				}
				vlib.Check(t, n, func(t *rapid.T) { oprfCase(t, si, mode) })
			})
		}
	}
}
