//go:build verif

package c16

import (
	"bufio"
	"bytes"
	"crypto"
	"fmt"
	"math/big"
	"os"
	"strings"
	"sync"
	"testing"

	"github.com/cloudflare/circl/group"
	"github.com/cloudflare/circl/zk/dl"
	"github.com/cloudflare/circl/zk/dleq"
	"github.com/cloudflare/circl/zk/qndleq"
	"github.com/cloudflare/circl/zz_verif/vlib"
	"golang.org/x/crypto/sha3"
	"pgregory.net/rapid"
)

// ---------------------------------------------------------------------------
// zk/dleq

var dleqHashes = []crypto.Hash{crypto.SHA256, crypto.SHA384, crypto.SHA512}

type dleqStmt struct {
	A, kA group.Element
	B, kB []group.Element
}

func (s dleqStmt) clone() dleqStmt {
	return dleqStmt{s.A.Copy(), s.kA.Copy(), copyElems(s.B), copyElems(s.kB)}
}

func (s dleqStmt) String() string {
	return fmt.Sprintf("A=%x kA=%x B=%x kB=%x", ser(s.A), ser(s.kA), elemsBytes(s.B), elemsBytes(s.kB))
}

func dleqVerify(par dleq.Params, st dleqStmt, pr *dleq.Proof) (ok bool, pn interface{}, stack string) {
	sn := new(opSnap).elem("A", st.A).elem("kA", st.kA).elems("B", st.B).elems("kB", st.kB).bytes("DST", par.DST)
	if pb, err := pr.MarshalBinary(); err == nil {
		sn.add("proof", func() []byte { b, _ := pr.MarshalBinary(); return b })
		_ = pb
	}
	defer func() {
		if pn == nil {
			noteOperands(sn, "dleq.Verify")
		}
	}()
	pn, stack = vlib.Catch(func() {
		v := dleq.Verifier{Params: par}
		if len(st.B) == 1 {
			ok = v.Verify(st.A, st.kA, st.B[0], st.kB[0], pr)
		} else {
			ok = v.VerifyBatch(st.A, st.kA, st.B, st.kB, pr)
		}
	})
	return
}

func dleqCase(t *rapid.T, si suiteInfo) {
	g := si.g
	L := si.scalarLen()
	sub := "dleq/" + si.name
	key := func(k string) string { return "C16/dleq/" + si.name + "/" + k }
	vlib.Eval(sub)
	defer reportOperands(t, key("operand-changed"))
	h := rapid.SampledFrom(dleqHashes).Draw(t, "hash")
	dst := vlib.Bytes(t, 0, 40, "dst")
	if rapid.IntRange(0, 5).Draw(t, "dstBoundary") == 0 {
		// lengths at which the two-byte prefix of "Seed-"‖DST and the one-byte DST length of
		// expand_message change shape
		dst = make([]byte, rapid.SampledFrom([]int{235, 242, 243, 250, 251, 252, 255, 256, 257, 300}).Draw(t, "dstLen"))
		vlib.FillRandom(t, dst, "dstB")
		vlib.Class(sub, fmt.Sprintf("dstlen=%d", len(dst)))
	}
	par := dleq.Params{G: g, H: h, DST: dst}
	ref := refSuite{g: g, h: h, ctx: append([]byte{}, dst...)}
	m := rapid.SampledFrom([]int{1, 1, 2, 3, 4}).Draw(t, "m")
	vlib.Class(sub, fmt.Sprintf("batch=%d", m))
	k1, k1v := si.drawScalar(t, false, "k1")
	switch {
	case k1v.Sign() == 0:
		vlib.Class(sub, "k=0 (kA, kB identity)")
	case k1v.Cmp(big.NewInt(1)) == 0:
		vlib.Class(sub, "k=1")
	}
	st := dleqStmt{A: si.drawElement(t, "A")}
	st.kA = g.NewElement().Mul(st.A, k1)
	for i := 0; i < m; i++ {
		b := si.drawElement(t, fmt.Sprintf("B%d", i))
		st.B = append(st.B, b)
		st.kB = append(st.kB, g.NewElement().Mul(b, k1))
	}
	// the prover's randomness is non-zero: with r = 0 and k = 0 the response s is 0 and the
	// proof does not involve A at all (RFC 9497 does not hash the fixed generator A)
	rr, _ := si.drawScalar(t, true, "rnd")
	desc := fmt.Sprintf("group=%s hash=%v dst=%x k=%x r=%x %s", si.name, h, dst, serS(k1), serS(rr), st)

	// ---- honest proof
	var proof *dleq.Proof
	var err error
	pv := dleq.Prover{Params: par}
	psn := new(opSnap).scalar("k", k1).scalar("rnd", rr).elem("A", st.A).elem("kA", st.kA).elems("B", st.B).elems("kB", st.kB).bytes("DST", par.DST)
	if m == 1 && rapid.Bool().Draw(t, "single") {
		proof, err = pv.ProveWithRandomness(k1, st.A, st.kA, st.B[0], st.kB[0], rr)
	} else {
		proof, err = pv.ProveBatchWithRandomness(k1, st.A, st.kA, st.B, st.kB, rr)
	}
	if err != nil {
		vlib.Report(t, key("prove-error"), fmt.Sprintf("%s: %v", desc, err))
		return
	}
	if !checkOperands(t, psn, key("operand-changed"), desc+" dleq.Prove") {
		return
	}
	// the same secret, randomness and statement objects give the same proof a second time
	if p2, err := pv.ProveBatchWithRandomness(k1, st.A, st.kA, st.B, st.kB, rr); err == nil {
		b1, _ := proof.MarshalBinary()
		b2, _ := p2.MarshalBinary()
		if !bytes.Equal(b1, b2) {
			vlib.Report(t, key("second-proof-with-the-same-objects-differs"), fmt.Sprintf("%s: %x then %x", desc, b1, b2))
			return
		}
	}
	pb, err := proof.MarshalBinary()
	if err != nil || len(pb) != 2*L {
		vlib.Report(t, key("proof-marshal"), fmt.Sprintf("%s: err=%v len=%d", desc, err, len(pb)))
		return
	}
	// (R) equals the RFC 9497 GenerateProof of the reference
	rc, rs := ref.generateProof(k1, st.A, st.kA, st.B, st.kB, rr)
	if want := append(serS(rc), serS(rs)...); !bytes.Equal(pb, want) {
		vlib.Report(t, key("proof-differs-from-RFC9497"), fmt.Sprintf("%s: proof=%x reference=%x", desc, pb, want))
		return
	}
	ok, pn, stk := dleqVerify(par, st, proof)
	if pn != nil || !ok {
		vlib.Report(t, key("honest-proof-rejected"), fmt.Sprintf("%s: proof=%x ok=%v panic=%v %s", desc, pb, ok, pn, stk))
		return
	}
	// through the wire format, and with library randomness
	p2 := new(dleq.Proof)
	if err := p2.UnmarshalBinary(g, pb); err != nil {
		vlib.Report(t, key("proof-roundtrip"), fmt.Sprintf("%s: %v", desc, err))
		return
	}
	if ok, _, _ := dleqVerify(par, st, p2); !ok {
		vlib.Report(t, key("honest-proof-rejected-after-roundtrip"), desc)
		return
	}
	if rapid.IntRange(0, 3).Draw(t, "libRnd") == 0 {
		p3, err := pv.ProveBatch(k1, st.A, st.kA, st.B, st.kB, vlib.DrawReader(t, "prnd"))
		if err != nil {
			vlib.Report(t, key("prove-error"), fmt.Sprintf("%s: %v", desc, err))
			return
		}
		if ok, _, _ := dleqVerify(par, st, p3); !ok {
			vlib.Report(t, key("honest-proof-rejected"), desc+" (ProveBatch with reader)")
			return
		}
	}
	vlib.Sample(sub, "honest", desc+fmt.Sprintf(" proof=%x → verifies, equals reference", pb))

	expectFalse := func(sub2, cls, what string, par2 dleq.Params, st2 dleqStmt, pbytes []byte, ref2 *refSuite) bool {
		vlib.Eval(sub2)
		vlib.Class(sub2, cls)
		pr := new(dleq.Proof)
		if err := pr.UnmarshalBinary(g, pbytes); err != nil {
			vlib.Class(sub2, "rejected-at-proof-unmarshal")
			vlib.NonTrivial(sub2, "", []byte(desc), []byte(what))
			return true
		}
		ok, pn, stk := dleqVerify(par2, st2, pr)
		if pn != nil {
			vlib.Report(t, "C16/"+sub2+"/panic/"+vlib.PanicClass(pn), fmt.Sprintf("%s CASE %s: panic %v\n%s", desc, what, pn, stk))
			return false
		}
		if ok {
			vlib.Report(t, "C16/"+sub2+"/verifies/"+strings.SplitN(cls, ":", 2)[0], fmt.Sprintf("%s CASE %s proof=%x: Verify = true", desc, what, pbytes))
			return false
		}
		vlib.NonTrivial(sub2, "", []byte(desc), []byte(what), pbytes)
		vlib.Sample(sub2, strings.SplitN(cls, ":", 2)[0], fmt.Sprintf("%s CASE %s proof=%x → false", desc, what, pbytes))
		if ref2 != nil {
			c, s := g.NewScalar(), g.NewScalar()
			if c.UnmarshalBinary(pbytes[:L]) == nil && s.UnmarshalBinary(pbytes[L:2*L]) == nil && len(st2.B) == len(st2.kB) {
				if ref2.verifyProof(st2.A, st2.kA, st2.B, st2.kB, c, s) {
					vlib.Report(t, "C16/"+sub2+"/rejected-but-valid-by-RFC9497", fmt.Sprintf("%s CASE %s proof=%x", desc, what, pbytes))
					return false
				}
			}
		}
		return true
	}

	// ---- alterations of a true statement / honest proof
	asub := "dleq-alter/" + si.name
	nalt := rapid.IntRange(2, 4).Draw(t, "nalt")
	for a := 0; a < nalt; a++ {
		lbl := fmt.Sprintf("a%d", a)
		kind := rapid.SampledFrom([]string{"A", "kA", "B", "kB", "swapB", "swapkB", "drop", "append", "dst", "hash", "c", "s", "swap-cs"}).Draw(t, lbl+".kind")
		if (kind == "swapB" || kind == "swapkB" || kind == "drop") && m < 2 {
			kind = "kB"
		}
		st2 := st.clone()
		par2 := par
		ref2 := ref
		pb2 := append([]byte{}, pb...)
		what := kind
		other := func(e group.Element) group.Element {
			switch rapid.SampledFrom([]string{"random", "plusG", "neg", "double", "identity"}).Draw(t, lbl+".how") {
			case "random":
				return si.drawElement(t, lbl+".e")
			case "plusG":
				return g.NewElement().Add(e, g.Generator())
			case "neg":
				return g.NewElement().Neg(e)
			case "double":
				return g.NewElement().Dbl(e)
			}
			return g.Identity()
		}
		ident := false
		switch kind {
		case "A":
			st2.A = other(st.A)
			ident = st2.A.IsEqual(st.A) || si.bytesToBig(pb[L:]).Sign() == 0
		case "kA":
			st2.kA = other(st.kA)
			ident = st2.kA.IsEqual(st.kA)
		case "B", "kB":
			i := rapid.IntRange(0, m-1).Draw(t, lbl+".i")
			if kind == "B" {
				st2.B[i] = other(st.B[i])
				ident = st2.B[i].IsEqual(st.B[i])
			} else {
				st2.kB[i] = other(st.kB[i])
				ident = st2.kB[i].IsEqual(st.kB[i])
			}
			what = fmt.Sprintf("%s[%d]", kind, i)
		case "swapB":
			st2.B[0], st2.B[1] = st2.B[1], st2.B[0]
			ident = st.B[0].IsEqual(st.B[1])
		case "swapkB":
			st2.kB[0], st2.kB[1] = st2.kB[1], st2.kB[0]
			ident = st.kB[0].IsEqual(st.kB[1])
		case "drop":
			st2.B, st2.kB = st2.B[:m-1], st2.kB[:m-1]
		case "append":
			// one more true pair: the batch differs from the proven one
			b := si.drawElement(t, lbl+".nb")
			st2.B = append(st2.B, b)
			st2.kB = append(st2.kB, g.NewElement().Mul(b, k1))
		case "dst":
			nd := append([]byte{}, dst...)
			if len(nd) > 0 && rapid.Bool().Draw(t, lbl+".flip") {
				b := rapid.IntRange(0, 8*len(nd)-1).Draw(t, lbl+".bit")
				nd[b/8] ^= 1 << (b % 8)
			} else {
				nd = append(nd, rapid.Byte().Draw(t, lbl+".b"))
			}
			par2.DST = nd
			ref2.ctx = nd
		case "hash":
			nh := rapid.SampledFrom(dleqHashes).Draw(t, lbl+".nh")
			ident = nh == h
			par2.H = nh
			ref2.h = nh
		case "c", "s", "swap-cs":
			off := 0
			if kind == "s" {
				off = L
			}
			if kind == "swap-cs" {
				copy(pb2[:L], pb[L:])
				copy(pb2[L:], pb[:L])
			} else {
				how := rapid.SampledFrom([]string{"bitflip", "bitflip", "plus1", "minus1", "zero", "negate", "random"}).Draw(t, lbl+".how")
				old := si.bytesToBig(pb[off : off+L])
				var nv *big.Int
				switch how {
				case "bitflip":
					b := rapid.IntRange(0, 8*L-1).Draw(t, lbl+".bit")
					pb2[off+b/8] ^= 1 << (b % 8)
				case "plus1":
					nv = new(big.Int).Add(old, big.NewInt(1))
				case "minus1":
					nv = new(big.Int).Sub(old, big.NewInt(1))
				case "zero":
					nv = big.NewInt(0)
				case "negate":
					nv = new(big.Int).Neg(old)
				case "random":
					_, nv = si.drawScalar(t, false, lbl+".rs")
				}
				if nv != nil {
					copy(pb2[off:off+L], si.bigToBytes(nv.Mod(nv, si.order)))
				}
				what = kind + " " + how
			}
			ident = bytes.Equal(pb2, pb)
			if !ident && si.sameProofScalars(pb2, pb) {
				vlib.Class(asub, "noncanonical-alias-of-the-same-scalars (C09; not asserted)")
				continue
			}
		}
		if ident {
			vlib.Class(asub, "alteration-was-identity")
			continue
		}
		if !expectFalse(asub, "alter="+kind, "ALTERED "+what+" → "+st2.String()+fmt.Sprintf(" dst=%x hash=%v", par2.DST, par2.H), par2, st2, pb2, &ref2) {
			return
		}
	}

	// ---- a statement that is false by construction: kA = k1·A, kB[j] = k2·B[j], k2 ≢ k1
	fsub := "dleq-false/" + si.name
	j := rapid.IntRange(0, m-1).Draw(t, "falseIdx")
	k2, k2v := si.drawScalar(t, false, "k2")
	if k2v.Cmp(k1v) == 0 {
		k2v = new(big.Int).Add(k2v, big.NewInt(1))
		k2v.Mod(k2v, si.order)
		k2 = si.scalarFromBig(k2v)
	}
	fs := st.clone()
	fs.kB[j] = g.NewElement().Mul(st.B[j], k2)
	if fs.kB[j].IsEqual(st.kB[j]) || st.A.IsIdentity() || st.B[j].IsIdentity() {
		t.Fatalf("harness: false statement is not false (k1=%x k2=%x)", serS(k1), serS(k2))
	}
	if k1v.Sign() == 0 || k2v.Sign() == 0 {
		vlib.Class(fsub, "identity-in-statement")
	}
	fdesc := fmt.Sprintf("FALSE STATEMENT kB[%d]=k2·B[%d], k2=%x: %s", j, j, serS(k2), fs)
	type cand struct {
		cls string
		pb  []byte
	}
	var cands []cand
	addProof := func(cls string, k group.Scalar) {
		pr, err := pv.ProveBatchWithRandomness(k, fs.A, fs.kA, fs.B, fs.kB, rr)
		if err != nil {
			return
		}
		b, _ := pr.MarshalBinary()
		cands = append(cands, cand{cls, b})
	}
	addProof("prover-run-with-k1", k1)
	addProof("prover-run-with-k2", k2)
	cands = append(cands, cand{"proof-of-the-true-statement", pb})
	scl := func(v *big.Int) []byte { return si.bigToBytes(new(big.Int).Mod(v, si.order)) }
	_, rndv := si.drawScalar(t, false, "dgS")
	one, zero := big.NewInt(1), big.NewInt(0)
	nm1 := new(big.Int).Sub(si.order, one)
	cands = append(cands,
		cand{"degenerate:c=0,s=0", append(scl(zero), scl(zero)...)},
		cand{"degenerate:c=0,s=random", append(scl(zero), scl(rndv)...)},
		cand{"degenerate:c=random,s=0", append(scl(rndv), scl(zero)...)},
		cand{"degenerate:c=1,s=0", append(scl(one), scl(zero)...)},
		cand{"degenerate:c=1,s=-k1", append(scl(one), scl(new(big.Int).Neg(k1v))...)},
		cand{"degenerate:c=-1,s=-1", append(scl(nm1), scl(nm1)...)},
		cand{"degenerate:all-0xff", bytes.Repeat([]byte{0xff}, 2*L)},
	)
	// one step of the simulator: pick (c', s), let the verifier's own equations define the
	// commitments, and present the challenge they hash to
	{
		cp, _ := si.drawScalar(t, false, "simC")
		sp, _ := si.drawScalar(t, false, "simS")
		M, Z := ref.composites(fs.kA, fs.B, fs.kB)
		t2 := g.NewElement().Add(g.NewElement().Mul(fs.A, sp), g.NewElement().Mul(fs.kA, cp))
		t3 := g.NewElement().Add(g.NewElement().Mul(M, sp), g.NewElement().Mul(Z, cp))
		c2 := ref.challenge(fs.kA, M, Z, t2, t3)
		cands = append(cands, cand{"degenerate:simulator-one-step", append(serS(c2), serS(sp)...)})
	}
	// every candidate in the thorough tier, a drawn subset in the quick tier
	for ci, c := range cands {
		if !vlib.Thorough() && ci >= 3 && rapid.IntRange(0, 2).Draw(t, fmt.Sprintf("cand%d", ci)) != 0 {
			continue
		}
		if !expectFalse(fsub, c.cls, fdesc+" PROOF "+c.cls, par, fs, c.pb, &ref) {
			return
		}
	}

	// ---- false statements built from the identity: B_j = identity, kB_j = X ≠ identity, at
	// every position j (k·identity = identity ≠ X for every k, so the statement is false, not
	// a matter of convention). Candidate proofs: the honest proof of the statement with X
	// replaced by the identity, the honest proof of the batch without that pair, the honest
	// proof of the original statement, zeros. Oracle: never true.
	isub := "dleq-false-identity/" + si.name
	proveBytes := func(B, kB []group.Element) []byte {
		var out []byte
		vlib.Catch(func() {
			pr, err := pv.ProveBatchWithRandomness(k1, st.A, st.kA, B, kB, rr)
			if err == nil {
				out, _ = pr.MarshalBinary()
			}
		})
		return out
	}
	for j := 0; j < m; j++ {
		var X group.Element
		how := rapid.SampledFrom([]string{"random", "generator", "kB_j", "kA"}).Draw(t, fmt.Sprintf("idX%d", j))
		switch how {
		case "random":
			X = si.drawElement(t, fmt.Sprintf("idXe%d", j))
		case "generator":
			X = g.Generator()
		case "kB_j":
			X = st.kB[j].Copy()
		case "kA":
			X = st.kA.Copy()
		}
		if X.IsIdentity() {
			vlib.Class(isub, "skipped: X = identity (k = 0)")
			continue
		}
		is := st.clone()
		is.B[j] = g.Identity()
		is.kB[j] = X
		vlib.Class(isub, fmt.Sprintf("batch=%d", m))
		idesc := fmt.Sprintf("FALSE STATEMENT B[%d]=identity, kB[%d]=%x (%s): %s", j, j, ser(X), how, is)
		tB, tkB := copyElems(is.B), copyElems(is.kB)
		tkB[j] = g.Identity()
		ics := []cand{
			{"proof-of-the-statement-with-X-replaced-by-identity", proveBytes(tB, tkB)},
			{"proof-of-the-batch-without-that-pair", proveBytes(append(copyElems(is.B[:j]), is.B[j+1:]...), append(copyElems(is.kB[:j]), is.kB[j+1:]...))},
			{"prover-run-on-the-false-statement", proveBytes(is.B, is.kB)},
			{"proof-of-the-original-statement", pb},
			{"degenerate:c=0,s=0", make([]byte, 2*L)},
		}
		for ci, c := range ics {
			if ci >= 3 && !vlib.Thorough() {
				break // the last two candidates run in the thorough tier only
			}
			if c.pb == nil {
				vlib.Class(isub, "prover-refused:"+c.cls)
				continue
			}
			if !expectFalse(isub, c.cls, idesc+" PROOF "+c.cls, par, is, c.pb, &ref) {
				return
			}
		}
	}
}

// TestC16DLEQLargeBatch: batches whose size crosses the one-byte boundary of the two-byte
// index I2OSP(i, 2) in the composite transcript (255, 256, 257, 258 and one larger), proof
// compared byte for byte with the RFC 9497 reference; in the two cheapest groups only (a
// batch of 257 costs about 2 000 scalar multiplications).
func TestC16DLEQLargeBatch(t *testing.T) {
	defer vlib.Done()
	for gi, si := range allSuites[:2] {
		si := si
		n := vlib.N(3, 12)
		if gi == 1 {
			n = vlib.N(1, 6)
		}
		t.Run(si.name, func(t *testing.T) {
			g := si.g
			sub := "dleq-large-batch/" + si.name
			key := func(k string) string { return "C16/dleq-large-batch/" + si.name + "/" + k }
			vlib.Check(t, n, func(t *rapid.T) {
				vlib.Eval(sub)
				defer reportOperands(t, key("operand-changed"))
				// every case crosses the boundary: a batch of 257 or more, or its prefix of 255 / 256
				// pairs in a quarter of the cases
				m := rapid.SampledFrom([]int{257, 257, 258, 300, 513}).Draw(t, "m")
				if rapid.IntRange(0, 3).Draw(t, "below") == 0 {
					m = rapid.SampledFrom([]int{255, 256}).Draw(t, "mBelow")
				}
				vlib.Class(sub, fmt.Sprintf("batch=%d", m))
				h := rapid.SampledFrom(dleqHashes).Draw(t, "hash")
				dst := vlib.Bytes(t, 0, 20, "dst")
				par := dleq.Params{G: g, H: h, DST: dst}
				ref := refSuite{g: g, h: h, ctx: append([]byte{}, dst...)}
				k, _ := si.drawScalar(t, true, "k")
				rr, _ := si.drawScalar(t, true, "rnd")
				A := g.Generator()
				kA := g.NewElement().MulGen(k)
				seed := rapid.Uint64().Draw(t, "elems")
				B := make([]group.Element, m)
				kB := make([]group.Element, m)
				for i := range B {
					var sb [16]byte
					vlib.ExpandInto(sb[:], seed+uint64(i))
					B[i] = g.NewElement().MulGen(si.scalarFromBig(new(big.Int).SetBytes(sb[:])))
					kB[i] = g.NewElement().Mul(B[i], k)
				}
				desc := fmt.Sprintf("group=%s hash=%v dst=%x k=%x r=%x batch=%d (B[i] = expand(%d+i)·G)", si.name, h, dst, serS(k), serS(rr), m, seed)
				psn := new(opSnap).scalar("k", k).scalar("rnd", rr).elem("A", A).elem("kA", kA)
				proof, err := dleq.Prover{Params: par}.ProveBatchWithRandomness(k, A, kA, B, kB, rr)
				if err != nil {
					vlib.Report(t, key("prove-error"), fmt.Sprintf("%s: %v", desc, err))
					return
				}
				if !checkOperands(t, psn, key("operand-changed"), desc+" dleq.ProveBatch") {
					return
				}
				pb, _ := proof.MarshalBinary()
				rc, rs := ref.generateProof(k, A, kA, B, kB, rr)
				if want := append(serS(rc), serS(rs)...); !bytes.Equal(pb, want) {
					vlib.Report(t, key("proof-differs-from-RFC9497"), fmt.Sprintf("%s: proof=%x reference=%x", desc, pb, want))
					return
				}
				if !(dleq.Verifier{Params: par}).VerifyBatch(A, kA, B, kB, proof) {
					vlib.Report(t, key("honest-proof-rejected"), desc)
					return
				}
				// one element beyond index 255 replaced ⇒ false
				j := rapid.IntRange(0, m-1).Draw(t, "alterIdx")
				kB2 := copyElems(kB)
				kB2[j] = g.NewElement().Add(kB[j], g.Generator())
				if (dleq.Verifier{Params: par}).VerifyBatch(A, kA, B, kB2, proof) {
					vlib.Report(t, key("verifies/alter=kB"), fmt.Sprintf("%s: kB[%d] replaced", desc, j))
					return
				}
				vlib.NonTrivial(sub, "", []byte(desc), pb)
				vlib.Sample(sub, "large-batch", desc+fmt.Sprintf(" proof=%x → equals reference, verifies, kB[%d] altered ⇒ false", pb, j))
			})
		})
	}
}

func TestC16DLEQ(t *testing.T) {
	defer vlib.Done()
	for _, si := range allSuites {
		si := si
		t.Run(si.name, func(t *testing.T) {
			vlib.Check(t, si.cases([4]int{100, 100, 20, 9}, 4), func(t *rapid.T) { dleqCase(t, si) })
		})
	}
}

// ---------------------------------------------------------------------------
// zk/dl (Schnorr proof of knowledge, RFC 8235 style)

func dlCase(t *rapid.T, si suiteInfo) {
	g := si.g
	sub := "dl/" + si.name
	asub := "dl-alter/" + si.name
	key := func(k string) string { return "C16/dl/" + si.name + "/" + k }
	vlib.Eval(sub)
	G := si.drawElement(t, "G")
	k, kv := si.drawScalar(t, true, "k")
	kG := g.NewElement().Mul(G, k)
	uid := vlib.Bytes(t, 0, 24, "uid")
	oi := vlib.Bytes(t, 0, 24, "other")
	rdSeed := rapid.Uint64().Draw(t, "rnd.rdseed")
	rd := vlib.NewReader(rdSeed)
	desc := fmt.Sprintf("group=%s G=%x k=%x kG=%x userID=%x otherInfo=%x", si.name, ser(G), serS(k), ser(kG), uid, oi)
	defer reportOperands(t, key("operand-changed"))
	var pr dl.Proof
	psn := new(opSnap).elem("G", G).elem("kG", kG).scalar("k", k).bytes("userID", uid).bytes("otherInfo", oi)
	if pn, st := vlib.Catch(func() { pr = dl.Prove(g, G, kG, k, uid, oi, rd) }); pn != nil {
		vlib.Report(t, key("prove-panic/"+vlib.PanicClass(pn)), fmt.Sprintf("%s: %v\n%s", desc, pn, st))
		return
	}
	if !checkOperands(t, psn, key("operand-changed"), desc+" dl.Prove") {
		return
	}
	verify := func(G2, kG2 group.Element, p2 dl.Proof, u2, o2 []byte) (ok bool, pn interface{}, st string) {
		sn := new(opSnap).elem("G", G2).elem("kG", kG2).elem("proof.V", p2.V).scalar("proof.R", p2.R).bytes("userID", u2).bytes("otherInfo", o2)
		pn, st = vlib.Catch(func() { ok = dl.Verify(g, G2, kG2, p2, u2, o2) })
		if pn == nil {
			noteOperands(sn, "dl.Verify")
		}
		return
	}
	if ok, pn, st := verify(G, kG, pr, uid, oi); pn != nil || !ok {
		vlib.Report(t, key("honest-proof-rejected"), fmt.Sprintf("%s: ok=%v panic=%v %s", desc, ok, pn, st))
		return
	}
	// the same secret object proves again (another nonce): the second proof must verify too
	{
		var pr2 dl.Proof
		if pn, _ := vlib.Catch(func() { pr2 = dl.Prove(g, G, kG, k, uid, oi, vlib.DrawReader(t, "rndAgain")) }); pn == nil {
			if ok, pn, st := verify(G, kG, pr2, uid, oi); pn != nil || !ok {
				vlib.Report(t, key("second-proof-with-the-same-secret-rejected"), fmt.Sprintf("%s: V=%x R=%x ok=%v panic=%v %s", desc, ser(pr2.V), serS(pr2.R), ok, pn, st))
				return
			}
		}
	}
	// independent re-computation of the verification equation V = R·G + c·kG needs the
	// challenge, whose transcript format is circl's own; the metamorphic checks below do not.
	pdesc := fmt.Sprintf("%s V=%x R=%x", desc, ser(pr.V), serS(pr.R))
	vlib.Sample(sub, "honest", pdesc+" → verifies")

	expectFalse := func(sub2, cls, what string, G2, kG2 group.Element, p2 dl.Proof, u2, o2 []byte) bool {
		vlib.Eval(sub2)
		vlib.Class(sub2, cls)
		ok, pn, st := verify(G2, kG2, p2, u2, o2)
		if pn != nil {
			vlib.Report(t, "C16/"+sub2+"/panic/"+vlib.PanicClass(pn), fmt.Sprintf("%s CASE %s: panic %v\n%s", pdesc, what, pn, st))
			return false
		}
		if ok {
			vlib.Report(t, "C16/"+sub2+"/verifies/"+strings.SplitN(cls, ":", 2)[0], fmt.Sprintf("%s CASE %s (G=%x kG=%x V=%x R=%x userID=%x otherInfo=%x): Verify = true", pdesc, what, ser(G2), ser(kG2), ser(p2.V), serS(p2.R), u2, o2))
			return false
		}
		vlib.NonTrivial(sub2, "", []byte(pdesc), []byte(what), ser(G2), ser(kG2), ser(p2.V), serS(p2.R), u2, o2)
		vlib.Sample(sub2, strings.SplitN(cls, ":", 2)[0], fmt.Sprintf("%s CASE %s → false", pdesc, what))
		return true
	}
	alterBytes := func(b []byte, lbl string) ([]byte, string) {
		nb := append([]byte{}, b...)
		how := rapid.SampledFrom([]string{"append", "truncate", "bitflip", "empty", "random"}).Draw(t, lbl+".how")
		switch how {
		case "append":
			nb = append(nb, rapid.Byte().Draw(t, lbl+".b"))
		case "truncate":
			if len(nb) > 0 {
				nb = nb[:len(nb)-1]
			} else {
				nb = []byte{0}
			}
		case "bitflip":
			if len(nb) > 0 {
				i := rapid.IntRange(0, 8*len(nb)-1).Draw(t, lbl+".bit")
				nb[i/8] ^= 1 << (i % 8)
			} else {
				nb = []byte{1}
			}
		case "empty":
			if len(nb) == 0 {
				nb = []byte("x")
			} else {
				nb = []byte{}
			}
		case "random":
			nb = vlib.Bytes(t, 0, 24, lbl+".nb")
		}
		return nb, how
	}
	otherElem := func(e group.Element, lbl string) group.Element {
		switch rapid.SampledFrom([]string{"random", "plusG", "neg", "double", "identity"}).Draw(t, lbl+".how") {
		case "random":
			return si.drawElement(t, lbl+".e")
		case "plusG":
			return g.NewElement().Add(e, g.Generator())
		case "neg":
			return g.NewElement().Neg(e)
		case "double":
			return g.NewElement().Dbl(e)
		}
		return g.Identity()
	}
	nalt := rapid.IntRange(3, 5).Draw(t, "nalt")
	for a := 0; a < nalt; a++ {
		lbl := fmt.Sprintf("a%d", a)
		kind := rapid.SampledFrom([]string{"V", "R", "R", "V+dG,R+d", "userID", "userID", "otherInfo", "otherInfo", "boundary", "swap-labels", "G", "kG"}).Draw(t, lbl+".kind")
		G2, kG2, p2, u2, o2 := G, kG, dl.Proof{V: pr.V.Copy(), R: pr.R.Copy()}, uid, oi
		what := kind
		ident := false
		switch kind {
		case "V":
			p2.V = otherElem(pr.V, lbl)
			ident = p2.V.IsEqual(pr.V)
		case "R":
			how := rapid.SampledFrom([]string{"plus1", "minus1", "zero", "negate", "random", "bitflip"}).Draw(t, lbl+".how")
			old := si.scalarToBig(pr.R)
			var nv *big.Int
			switch how {
			case "plus1":
				nv = new(big.Int).Add(old, big.NewInt(1))
			case "minus1":
				nv = new(big.Int).Sub(old, big.NewInt(1))
			case "zero":
				nv = big.NewInt(0)
			case "negate":
				nv = new(big.Int).Neg(old)
			case "random":
				_, nv = si.drawScalar(t, false, lbl+".rs")
			case "bitflip":
				nv = new(big.Int).Set(old)
				b := rapid.IntRange(0, si.order.BitLen()-2).Draw(t, lbl+".bit")
				nv.SetBit(nv, b, nv.Bit(b)^1)
			}
			nv.Mod(nv, si.order)
			ident = nv.Cmp(new(big.Int).Mod(old, si.order)) == 0
			p2.R = si.scalarFromBig(nv)
			what = "R " + how
		case "V+dG,R+d":
			// the one coordinated change that keeps V = R·G + c·kG true for an unchanged c: it
			// must be refused because the challenge binds the commitment V
			d, dv := si.drawScalar(t, true, lbl+".d")
			p2.V = g.NewElement().Add(pr.V, g.NewElement().Mul(G, d))
			p2.R = g.NewScalar().Add(pr.R, d)
			what = fmt.Sprintf("V+dG,R+d d=%v", dv)
			ident = p2.V.IsEqual(pr.V)
		case "userID":
			var how string
			u2, how = alterBytes(uid, lbl)
			ident = bytes.Equal(u2, uid)
			what = "userID " + how
		case "otherInfo":
			var how string
			o2, how = alterBytes(oi, lbl)
			ident = bytes.Equal(o2, oi)
			what = "otherInfo " + how
		case "boundary":
			// move the boundary between userID and otherInfo: same concatenation, other split
			all := append(append([]byte{}, uid...), oi...)
			cut := rapid.IntRange(0, len(all)).Draw(t, lbl+".cut")
			u2, o2 = all[:cut], all[cut:]
			ident = cut == len(uid)
		case "swap-labels":
			u2, o2 = oi, uid
			ident = bytes.Equal(uid, oi)
		case "G":
			G2 = otherElem(G, lbl)
			ident = G2.IsEqual(G)
		case "kG":
			kG2 = otherElem(kG, lbl)
			ident = kG2.IsEqual(kG)
		}
		if ident {
			vlib.Class(asub, "alteration-was-identity")
			continue
		}
		if !expectFalse(asub, "alter="+kind, "ALTERED "+what, G2, kG2, p2, u2, o2) {
			return
		}
	}
	// ---- re-solving the verification equation V = R·G + c·A for ONE transcript element while
	// the challenge c of the honest proof is kept: such a proof verifies exactly when that
	// element is not bound by the challenge. c is recovered black-box: the prover's nonce v is
	// re-drawn from the same deterministic reader (checked: v·G = V), then c = (v − R)/k
	// (checked: R·G + c·A = V). If the recovery does not check out the candidates are skipped
	// (the white-box overlay in zk/dl builds them with the package's own challenge function).
	rsub := "dl-resolve/" + si.name
	recovered := false
	var cS group.Scalar
	if pnv, _ := vlib.Catch(func() {
		v := g.RandomNonZeroScalar(vlib.NewReader(rdSeed))
		if g.NewElement().Mul(G, v).IsEqual(pr.V) {
			cS = g.NewScalar().Mul(g.NewScalar().Sub(v, pr.R), g.NewScalar().Inv(k))
			chk := g.NewElement().Add(g.NewElement().Mul(G, pr.R), g.NewElement().Mul(kG, cS))
			recovered = chk.IsEqual(pr.V) && !cS.IsZero()
		}
	}); pnv != nil {
		recovered = false
	}
	if recovered {
		vlib.Class(rsub, "challenge-recovered-from-honest-proof")
		rp, _ := si.drawScalar(t, true, "rsR")
		dl2, _ := si.drawScalar(t, true, "rsD")
		cInv := g.NewScalar().Inv(cS)
		// A' = c^-1·(V − R'·G): statement element chosen after the challenge
		a1 := g.NewElement().Mul(g.NewElement().Add(pr.V, g.NewElement().Neg(g.NewElement().Mul(G, rp))), cInv)
		// A' = A + δ·G with R' = R − c·δ
		a2 := g.NewElement().Add(kG, g.NewElement().Mul(G, dl2))
		r2 := g.NewScalar().Sub(pr.R, g.NewScalar().Mul(cS, dl2))
		// G' = R'^-1·(V − c·A)
		g3 := g.NewElement().Mul(g.NewElement().Add(pr.V, g.NewElement().Neg(g.NewElement().Mul(kG, cS))), g.NewScalar().Inv(rp))
		type rc struct {
			cls    string
			G2, A2 group.Element
			p      dl.Proof
		}
		for _, c := range []rc{
			{"resolve-A:A'=(V-R'G)/c", G, a1, dl.Proof{V: pr.V.Copy(), R: rp}},
			{"resolve-A:A'=A+dG,R'=R-cd", G, a2, dl.Proof{V: pr.V.Copy(), R: r2}},
			{"resolve-G:G'=(V-cA)/R'", g3, kG, dl.Proof{V: pr.V.Copy(), R: rp}},
		} {
			if c.A2.IsEqual(kG) && c.G2.IsEqual(G) {
				vlib.Class(rsub, "alteration-was-identity")
				continue
			}
			if c.A2.IsIdentity() || c.G2.IsIdentity() {
				vlib.Class(rsub, "skipped: degenerate solution")
				continue
			}
			if !expectFalse(rsub, c.cls, "RE-SOLVED "+c.cls, c.G2, c.A2, c.p, uid, oi) {
				return
			}
		}
	} else {
		vlib.Class(rsub, "challenge-not-recovered (candidates skipped)")
	}

	// proofs assembled from public / degenerate values only (no witness): a Schnorr proof of
	// knowledge for (G, kG) with G, kG ≠ identity must not verify
	if kG.IsIdentity() || G.IsIdentity() {
		return
	}
	_ = kv
	dsub := "dl-degenerate/" + si.name
	zeroS, oneS := g.NewScalar(), g.NewScalar().SetUint64(1)
	rs, _ := si.drawScalar(t, false, "dgR")
	cands := []struct {
		cls string
		p   dl.Proof
	}{
		{"degenerate:V=identity,R=0", dl.Proof{V: g.Identity(), R: zeroS}},
		{"degenerate:V=identity,R=random", dl.Proof{V: g.Identity(), R: rs}},
		{"degenerate:V=kG,R=0", dl.Proof{V: kG.Copy(), R: zeroS}},
		{"degenerate:V=G,R=1", dl.Proof{V: G.Copy(), R: oneS}},
		{"degenerate:V=G+kG,R=1", dl.Proof{V: g.NewElement().Add(G, kG), R: oneS}},
		{"degenerate:V=R·G", dl.Proof{V: g.NewElement().Mul(G, rs), R: rs}},
		{"degenerate:V=honest,R=0", dl.Proof{V: pr.V.Copy(), R: zeroS}},
	}
	// a proof for another user / context replayed here
	if len(uid) > 0 || len(oi) > 0 {
		other := dl.Prove(g, G, kG, k, append([]byte("x"), uid...), oi, vlib.DrawReader(t, "rnd2"))
		cands = append(cands, struct {
			cls string
			p   dl.Proof
		}{"replay:proof-for-other-userID", other})
	}
	for ci, c := range cands {
		if !vlib.Thorough() && rapid.IntRange(0, 1).Draw(t, fmt.Sprintf("cand%d", ci)) != 0 {
			continue
		}
		if !expectFalse(dsub, c.cls, "PROOF "+c.cls, G, kG, c.p, uid, oi) {
			return
		}
	}
}

func TestC16DL(t *testing.T) {
	defer vlib.Done()
	for _, si := range allSuites {
		si := si
		t.Run(si.name, func(t *testing.T) {
			vlib.Check(t, si.cases([4]int{200, 200, 60, 30}, 4), func(t *rapid.T) { dlCase(t, si) })
		})
	}
}

// ---------------------------------------------------------------------------
// zk/qndleq

// verifierSecParam is the statistical security parameter the verifying side of these
// checks expects (the package's own tests and benchmarks use 128; nothing else in circl
// calls zk/qndleq).
const verifierSecParam = 128

type safePrime struct {
	bits int
	p, q *big.Int // p = 2q+1
}

var (
	poolOnce sync.Once
	pool     []safePrime
	poolErr  error
)

func loadPool() {
	f, err := os.Open(fixture("safeprimes.txt"))
	if err != nil {
		poolErr = err
		return
	}
	defer f.Close()
	sc := bufio.NewScanner(f)
	for sc.Scan() {
		line := strings.TrimSpace(sc.Text())
		if line == "" || strings.HasPrefix(line, "#") {
			continue
		}
		var bits int
		var hexp string
		if _, err := fmt.Sscanf(line, "%d %s", &bits, &hexp); err != nil {
			poolErr = fmt.Errorf("bad line %q", line)
			return
		}
		p, ok := new(big.Int).SetString(hexp, 16)
		if !ok {
			poolErr = fmt.Errorf("bad hex %q", hexp)
			return
		}
		q := new(big.Int).Rsh(p, 1)
		if p.BitLen() != bits || !p.ProbablyPrime(24) || !q.ProbablyPrime(24) {
			poolErr = fmt.Errorf("%s is not a %d-bit safe prime", hexp, bits)
			return
		}
		pool = append(pool, safePrime{bits, p, q})
	}
	if len(pool) < 4 {
		poolErr = fmt.Errorf("pool too small: %d", len(pool))
	}
}

func TestC16PoolSelftest(t *testing.T) {
	defer vlib.Done()
	poolOnce.Do(loadPool)
	if poolErr != nil {
		vlib.Selftest("safe-prime-pool", "FAILED")
		t.Fatalf("SELFTEST-FAIL safe prime pool: %v", poolErr)
	}
	vlib.Selftest("safe-prime-pool", "ok")
}

func qnProofString(p *qndleq.Proof) string {
	return fmt.Sprintf("Proof{Z:%v C:%v SecParam:%d}", p.Z, p.C, p.SecParam)
}

func qnVerify(p *qndleq.Proof, g, gx, h, hx, N *big.Int) (ok bool, pn interface{}, st string) {
	sn := new(opSnap).big("g", g).big("gx", gx).big("h", h).big("hx", hx).big("N", N).big("proof.Z", p.Z).big("proof.C", p.C)
	defer func() {
		if pn == nil {
			noteOperands(sn, "qndleq.Proof.Verify")
		}
	}()
	pn, st = vlib.Catch(func() { ok = p.Verify(g, gx, h, hx, N) })
	return
}

func drawSquare(t *rapid.T, N *big.Int, label string) *big.Int {
	one := big.NewInt(1)
	for ctr := 0; ; ctr++ {
		b := make([]byte, (N.BitLen()+7)/8+8)
		vlib.FillRandom(t, b, fmt.Sprintf("%s.%d", label, ctr))
		y := new(big.Int).SetBytes(b)
		y.Mod(y, N)
		x := new(big.Int).Mul(y, y)
		x.Mod(x, N)
		if new(big.Int).GCD(nil, nil, x, N).Cmp(one) == 0 && x.Cmp(one) != 0 {
			return x
		}
	}
}

func drawExp(t *rapid.T, N *big.Int, label string) *big.Int {
	switch rapid.IntRange(0, 7).Draw(t, label+".xk") {
	case 0:
		return big.NewInt(int64(rapid.IntRange(0, 3).Draw(t, label+".small")))
	case 1:
		return new(big.Int).Sub(N, big.NewInt(int64(rapid.IntRange(1, 3).Draw(t, label+".nm"))))
	default:
		b := make([]byte, (N.BitLen()+7)/8)
		vlib.FillRandom(t, b, label)
		x := new(big.Int).SetBytes(b)
		return x.Mod(x, N)
	}
}

func qndleqCase(t *rapid.T) {
	sub := "qndleq"
	key := func(k string) string { return "C16/qndleq/" + k }
	vlib.Eval(sub)
	one := big.NewInt(1)
	i := rapid.IntRange(0, len(pool)-1).Draw(t, "p")
	j := rapid.IntRange(0, len(pool)-2).Draw(t, "q")
	if j >= i {
		j++
	}
	P, Q := pool[i], pool[j]
	N := new(big.Int).Mul(P.p, Q.p)
	vlib.Class(sub, fmt.Sprintf("N=%d bits", N.BitLen()))
	g := drawSquare(t, N, "g")
	h := drawSquare(t, N, "h")
	x := drawExp(t, N, "x")
	// the secret exponent is any integer: the API does not ask for a reduced one (nobody but
	// the key generator knows the group order), so values ≥ N, far beyond N and negative ones
	// are part of the domain; gx and hx are computed here with math/big
	switch rapid.IntRange(0, 9).Draw(t, "xDomain") {
	case 0:
		x = new(big.Int).Add(N, big.NewInt(int64(rapid.IntRange(0, 5).Draw(t, "xPlus"))))
		vlib.Class(sub, "x in [N, N+5]")
	case 1:
		k := big.NewInt(int64(rapid.IntRange(2, 9).Draw(t, "xMul")))
		x = k.Mul(k, N).Add(k, x)
		vlib.Class(sub, "x = k·N + x0")
	case 2:
		b := make([]byte, (N.BitLen()+7)/8+48)
		vlib.FillRandom(t, b, "xBig")
		x = new(big.Int).SetBytes(b)
		vlib.Class(sub, "x 384 bits longer than N")
	case 3:
		x = new(big.Int).Neg(x)
		vlib.Class(sub, "x negative")
	default:
		vlib.Class(sub, "x in [0, N)")
	}
	gx := new(big.Int).Exp(g, x, N)
	hx := new(big.Int).Exp(h, x, N)
	sp := uint(verifierSecParam)
	if rapid.IntRange(0, 3).Draw(t, "spk") == 0 {
		sp = uint(rapid.SampledFrom([]int{128, 129, 136, 160, 192, 256}).Draw(t, "sp"))
	}
	desc := fmt.Sprintf("N=%v (p=%v q=%v) g=%v h=%v x=%v secParam=%d", N, P.p, Q.p, g, h, x, sp)
	defer reportOperands(t, key("operand-changed"))
	psn := new(opSnap).big("x", x).big("g", g).big("gx", gx).big("h", h).big("hx", hx).big("N", N)
	proof, err := qndleq.Prove(vlib.DrawReader(t, "rnd"), x, g, gx, h, hx, N, sp)
	if err == nil && !checkOperands(t, psn, key("operand-changed"), "qndleq.Prove") {
		return
	}
	if err != nil {
		vlib.Report(t, key("prove-error"), fmt.Sprintf("%s: %v", desc, err))
		return
	}
	if ok, pn, st := qnVerify(proof, g, gx, h, hx, N); pn != nil || !ok {
		vlib.Report(t, key("honest-proof-rejected"), fmt.Sprintf("%s %s: ok=%v panic=%v %s", desc, qnProofString(proof), ok, pn, st))
		return
	}
	if proof.SecParam != sp {
		vlib.Report(t, key("honest-proof-secparam"), fmt.Sprintf("%s: proof carries SecParam %d", desc, proof.SecParam))
		return
	}
	vlib.Sample(sub, "honest", desc+" "+qnProofString(proof)+" → verifies")
	cpy := func(p *qndleq.Proof) *qndleq.Proof {
		return &qndleq.Proof{Z: new(big.Int).Set(p.Z), C: new(big.Int).Set(p.C), SecParam: p.SecParam}
	}

	// ---- alterations of the honest proof / true statement
	asub := "qndleq-alter"
	nalt := rapid.IntRange(3, 5).Draw(t, "nalt")
	for a := 0; a < nalt; a++ {
		lbl := fmt.Sprintf("a%d", a)
		kind := rapid.SampledFrom([]string{"Z", "Z", "C", "C", "SecParam", "g", "gx", "h", "hx", "swap-gh", "N", "other-representative"}).Draw(t, lbl+".kind")
		p2 := cpy(proof)
		g2, gx2, h2, hx2, N2 := g, gx, h, hx, N
		what := kind
		ident := false
		otherVal := func(v *big.Int) *big.Int {
			switch rapid.SampledFrom([]string{"times-square", "plus1", "inverse", "square", "one", "negated-integer"}).Draw(t, lbl+".how") {
			case "negated-integer":
				// the integer -v: as a residue it is N-v, a different element (and -1 is not a square
				// modulo a product of two safe primes, so the altered statement is false)
				return new(big.Int).Neg(v)
			case "times-square":
				r := new(big.Int).Mul(v, drawSquare(t, N, lbl+".sq"))
				return r.Mod(r, N)
			case "plus1":
				r := new(big.Int).Add(v, one)
				return r.Mod(r, N)
			case "inverse":
				return new(big.Int).ModInverse(v, N)
			case "square":
				r := new(big.Int).Mul(v, v)
				return r.Mod(r, N)
			}
			return big.NewInt(1)
		}
		switch kind {
		case "Z":
			how := rapid.SampledFrom([]string{"plus1", "minus1", "zero", "negate", "bitflip", "plus-order"}).Draw(t, lbl+".how")
			switch how {
			case "plus1":
				p2.Z.Add(p2.Z, one)
			case "minus1":
				p2.Z.Sub(p2.Z, one)
			case "zero":
				p2.Z.SetInt64(0)
			case "negate":
				p2.Z.Neg(p2.Z)
			case "bitflip":
				b := rapid.IntRange(0, proof.Z.BitLen()).Draw(t, lbl+".bit")
				p2.Z.SetBit(p2.Z, b, p2.Z.Bit(b)^1)
			case "plus-order":
				// Z + p'q' is the same exponent on Qn: the verifier's equations cannot tell;
				// this is counted, not asserted (the group order is secret in the application)
				p2.Z.Add(p2.Z, new(big.Int).Mul(P.q, Q.q))
				if ok, _, _ := qnVerify(p2, g, gx, h, hx, N); ok {
					vlib.Class(asub, "Z+ord(Qn) accepted (same exponent; not asserted)")
				}
				continue
			}
			what = "Z " + how
			ident = p2.Z.Cmp(proof.Z) == 0
			// a change of Z by a multiple of the orders of g and h is the same exponent
			d := new(big.Int).Sub(p2.Z, proof.Z)
			d.Abs(d)
			if new(big.Int).Exp(g, d, N).Cmp(one) == 0 && new(big.Int).Exp(h, d, N).Cmp(one) == 0 {
				ident = true
			}
		case "C":
			how := rapid.SampledFrom([]string{"plus1", "minus1", "zero", "negate", "bitflip"}).Draw(t, lbl+".how")
			switch how {
			case "plus1":
				p2.C.Add(p2.C, one)
			case "minus1":
				p2.C.Sub(p2.C, one)
			case "zero":
				p2.C.SetInt64(0)
			case "negate":
				p2.C.Neg(p2.C)
			case "bitflip":
				b := rapid.IntRange(0, int(sp)).Draw(t, lbl+".bit")
				p2.C.SetBit(p2.C, b, p2.C.Bit(b)^1)
			}
			what = "C " + how
			ident = p2.C.Cmp(proof.C) == 0
		case "SecParam":
			// only a change of the challenge's byte length is an alteration of the proof's
			// meaning: ceil(SecParam/8) is all the verifier uses
			nsp := uint(rapid.SampledFrom([]int{0, 8, 64, 120, 136, 256, 1024}).Draw(t, lbl+".nsp"))
			if rapid.Bool().Draw(t, lbl+".extreme") {
				nsp = rapid.SampledFrom(extremeSecParams()).Draw(t, lbl+".xsp")
			}
			p2.SecParam = nsp
			ident = (nsp+7)/8 == (sp+7)/8
			what = fmt.Sprintf("SecParam %d", nsp)
		case "g":
			g2 = otherVal(g)
			ident = g2.Cmp(g) == 0
		case "gx":
			gx2 = otherVal(gx)
			ident = gx2.Cmp(gx) == 0
		case "h":
			h2 = otherVal(h)
			ident = h2.Cmp(h) == 0
		case "hx":
			hx2 = otherVal(hx)
			ident = hx2.Cmp(hx) == 0
		case "other-representative":
			// another integer of the same residue class (v+N, v-N, v+N·2^k, wider than the modulus or not):
			// the statement is the same, so either verdict is fine — the call must return
			vals := []*big.Int{g, gx, h, hx}
			wi := rapid.IntRange(0, 3).Draw(t, lbl+".which")
			how := rapid.SampledFrom([]string{"plus-N", "minus-N", "plus-N-shifted", "plus-2N"}).Draw(t, lbl+".how")
			v := new(big.Int).Set(vals[wi])
			switch how {
			case "plus-N":
				v.Add(v, N)
			case "minus-N":
				v.Sub(v, N)
			case "plus-2N":
				v.Add(v, new(big.Int).Lsh(N, 1))
			default:
				v.Add(v, new(big.Int).Lsh(N, uint(rapid.IntRange(1, 70).Draw(t, lbl+".shift"))))
			}
			vals[wi] = v
			vlib.Eval(asub)
			vlib.Class(asub, "alter="+kind)
			ok, pn, st := qnVerify(p2, vals[0], vals[1], vals[2], vals[3], N)
			if pn != nil {
				vlib.Report(t, key("alter/panic/"+vlib.PanicClass(pn)), fmt.Sprintf("%s: statement element %d replaced by the representative %s (%v) of its class: panic %v\n%s", desc, wi, how, v, pn, st))
				return
			}
			vlib.Class(asub, fmt.Sprintf("other-representative verdict=%v (same statement; not asserted)", ok))
			continue
		case "swap-gh":
			g2, gx2, h2, hx2 = h, hx, g, gx
			ident = g.Cmp(h) == 0
		case "N":
			k := rapid.IntRange(0, len(pool)-1).Draw(t, lbl+".np")
			N2 = new(big.Int).Mul(P.p, pool[k].p)
			ident = N2.Cmp(N) == 0
			if N2.BitLen() < N.BitLen() {
				// FillBytes of the (larger) statement values would not fit: out of the API's domain
				ident = true
			}
		}
		if ident {
			vlib.Class(asub, "alteration-was-identity")
			continue
		}
		vlib.Eval(asub)
		vlib.Class(asub, "alter="+kind)
		ok, pn, st := qnVerify(p2, g2, gx2, h2, hx2, N2)
		adesc := fmt.Sprintf("%s honest %s ALTERED %s → %s g=%v gx=%v h=%v hx=%v N=%v", desc, qnProofString(proof), what, qnProofString(p2), g2, gx2, h2, hx2, N2)
		if pn != nil {
			vlib.Report(t, key("alter/panic/"+vlib.PanicClass(pn)), fmt.Sprintf("%s: panic %v\n%s", adesc, pn, st))
			return
		}
		if ok {
			vlib.Report(t, key("altered-proof-verifies/"+kind), adesc+": Verify = true")
			return
		}
		vlib.NonTrivial(asub, "", []byte(adesc))
		vlib.Sample(asub, kind, adesc+" → false")
	}

	if !qnNonUnitStatements(t, P, Q, N, g, gx, h, hx, proof, desc) {
		return
	}

	// ---- a statement false by construction: gx = g^x1, hx = h^x2 with x1 ≢ x2 modulo both
	// p' and q', g and h of full order p'q'
	fsub := "qndleq-false"
	full := func(v *big.Int) bool {
		return new(big.Int).Exp(v, P.q, N).Cmp(one) != 0 && new(big.Int).Exp(v, Q.q, N).Cmp(one) != 0
	}
	if !full(g) || !full(h) {
		vlib.Class(fsub, "skipped: g or h not of full order")
		return
	}
	x2 := drawExp(t, N, "x2")
	d := new(big.Int).Sub(x, x2)
	for new(big.Int).Mod(d, P.q).Sign() == 0 || new(big.Int).Mod(d, Q.q).Sign() == 0 {
		x2.Add(x2, one)
		d.Sub(x, x2)
	}
	fhx := new(big.Int).Exp(h, x2, N)
	if fhx.Cmp(hx) == 0 {
		t.Fatalf("harness: false statement is not false")
	}
	if x.Sign() == 0 || x2.Sign() == 0 {
		vlib.Class(fsub, "identity-in-statement")
	}
	fdesc := fmt.Sprintf("FALSE STATEMENT N=%v (p=%v q=%v) g=%v gx=g^%v=%v h=%v hx=h^%v=%v", N, P.p, Q.p, g, x, gx, h, x2, fhx)
	type cand struct {
		cls string
		p   *qndleq.Proof
	}
	var cands []cand
	bi := func(v int64) *big.Int { return big.NewInt(v) }
	rz := drawExp(t, N, "dgZ")
	rcb := make([]byte, 16)
	vlib.FillRandom(t, rcb, "dgC")
	rc := new(big.Int).SetBytes(rcb)
	for _, spv := range []uint{verifierSecParam, 256} {
		for _, x := range []*big.Int{x, x2} {
			if p, err := qndleq.Prove(vlib.DrawReader(t, "frnd"), x, g, gx, h, fhx, N, spv); err == nil {
				cands = append(cands, cand{"prover-run-on-false-statement", p})
			}
		}
		cands = append(cands,
			cand{"degenerate:Z=0,C=0", &qndleq.Proof{Z: bi(0), C: bi(0), SecParam: spv}},
			cand{"degenerate:Z=7,C=0", &qndleq.Proof{Z: bi(7), C: bi(0), SecParam: spv}},
			cand{"degenerate:Z=random,C=0", &qndleq.Proof{Z: rz, C: bi(0), SecParam: spv}},
			cand{"degenerate:Z=x1,C=1", &qndleq.Proof{Z: x, C: bi(1), SecParam: spv}},
			cand{"degenerate:Z=x2,C=1", &qndleq.Proof{Z: x2, C: bi(1), SecParam: spv}},
			cand{"degenerate:Z=random,C=random", &qndleq.Proof{Z: rz, C: rc, SecParam: spv}},
			cand{"degenerate:Z=0,C=random", &qndleq.Proof{Z: bi(0), C: rc, SecParam: spv}},
			cand{"degenerate:Z=-1,C=0", &qndleq.Proof{Z: bi(-1), C: bi(0), SecParam: spv}},
			cand{"degenerate:Z=7,C=-1", &qndleq.Proof{Z: bi(7), C: bi(-1), SecParam: spv}},
		)
	}
	pt := cpy(proof)
	cands = append(cands, cand{"proof-of-the-true-statement", pt})
	// prover-chosen parameter below the verifier's: empty challenge, and one-byte challenges
	// found by trying a few Z (expected 256 attempts)
	cands = append(cands,
		cand{"prover-chosen-secparam:Z=7,C=0,SecParam=0", &qndleq.Proof{Z: bi(7), C: bi(0), SecParam: 0}},
		cand{"prover-chosen-secparam:Z=0,C=0,SecParam=0", &qndleq.Proof{Z: bi(0), C: bi(0), SecParam: 0}},
		cand{"prover-chosen-secparam:Z=random,C=0,SecParam=0", &qndleq.Proof{Z: rz, C: bi(0), SecParam: 0}},
	)
	// extreme values of SecParam (every one ≥ the verifier's 128, so a hit is NOT the known
	// prover-chosen-secparam finding)
	for xi, spv := range extremeSecParams() {
		if spv < verifierSecParam {
			continue
		}
		// every value in the thorough tier, a drawn third of them per case in the quick tier
		if !vlib.Thorough() && rapid.IntRange(0, 2).Draw(t, fmt.Sprintf("xsp%d", xi)) != 0 {
			continue
		}
		cands = append(cands,
			cand{"extreme-secparam:Z=7,C=0", &qndleq.Proof{Z: bi(7), C: bi(0), SecParam: spv}},
			cand{"extreme-secparam:Z=random,C=random", &qndleq.Proof{Z: rz, C: rc, SecParam: spv}},
		)
	}
	if rapid.IntRange(0, 3).Draw(t, "grind") == 0 {
		spv := uint(rapid.SampledFrom([]int{1, 8}).Draw(t, "grindSP"))
		for z := int64(0); z < 1200; z++ {
			p := &qndleq.Proof{Z: bi(z), C: bi(0), SecParam: spv}
			if ok, _, _ := qnVerify(p, g, gx, h, fhx, N); ok {
				cands = append(cands, cand{fmt.Sprintf("prover-chosen-secparam:one-byte-challenge-ground,SecParam=%d", spv), p})
				break
			}
		}
	}
	for _, c := range cands {
		vlib.Eval(fsub)
		cls := strings.SplitN(c.cls, ":", 2)[0]
		vlib.Class(fsub, c.cls)
		ok, pn, st := qnVerify(c.p, g, gx, h, fhx, N)
		cdesc := fmt.Sprintf("%s PROOF %s %s", fdesc, c.cls, qnProofString(c.p))
		if pn != nil {
			vlib.Report(t, key("false/panic/"+vlib.PanicClass(pn)), fmt.Sprintf("%s: panic %v\n%s", cdesc, pn, st))
			return
		}
		if ok {
			// the finding key is decided by the forged proof itself, not by the generator: any
			// accepted proof whose parameter is below the verifier's is the known design defect;
			// everything else is a different forgery
			k := "false-statement-verifies/" + cls
			if c.p.SecParam < verifierSecParam {
				k = "false-statement-verifies/prover-chosen-secparam"
			} else if cls == "prover-chosen-secparam" {
				k = "false-statement-verifies/other"
			}
			if vlib.Report(t, key(k), cdesc+": Verify = true for a false statement") {
				vlib.Class(fsub, "FORGED (known): "+c.cls)
				vlib.NonTrivial(fsub, "", []byte(cdesc))
				continue
			}
			return
		}
		vlib.NonTrivial(fsub, "", []byte(cdesc))
		vlib.Sample(fsub, cls, cdesc+" → false")
	}
}

// extremeSecParams are boundary values of the one machine-integer field the verifier reads:
// the top of the uint range (where SecParam+7 wraps), the neighbourhood of the package's upper
// bound 1<<12, and powers of two ± 1. Values whose challenge would be 2^29..2^48 bytes long are
// left out on purpose: on a tree without any upper bound the verifier would really try to
// allocate that much, which would take the machine down rather than fail a test.
func extremeSecParams() []uint {
	m := ^uint(0)
	out := []uint{m, m - 1, m - 2, m - 3, m - 4, m - 5, m - 6, m - 7, m - 8, m - 15, m - 16, m/2 + 1, m / 2, m/2 + 2}
	for _, k := range []uint{7, 8, 10, 12, 13, 16, 20, 52, 60, 62} {
		out = append(out, 1<<k-1, 1<<k, 1<<k+1)
	}
	return out
}

// qnChallengeReplica is a black-box replica of zk/qndleq's challenge (no specification exists;
// the format is read off an honest proof and CALIBRATED per case: it is only used when it
// reproduces the C of the honest proof, otherwise the candidate that needs it is skipped).
// SHAKE256(g ‖ h ‖ gx ‖ hx ‖ gP ‖ hP, each as |N|-byte big-endian), first ceil(secParam/8) bytes.
func qnChallengeReplica(g, gx, h, hx, gP, hP, N *big.Int, secParam uint) (c *big.Int, ok bool) {
	n := (N.BitLen() + 7) / 8
	H := sha3.NewShake256()
	for _, v := range []*big.Int{g, h, gx, hx, gP, hP} {
		if v.Sign() < 0 || (v.BitLen()+7)/8 > n {
			return nil, false
		}
		H.Write(v.FillBytes(make([]byte, n)))
	}
	out := make([]byte, (secParam+7)/8)
	H.Read(out)
	return new(big.Int).SetBytes(out), true
}

// qnNonUnitStatements: statements in which gx and hx are BOTH non-units modulo N (0, N, p, q,
// k·p with the known factorisation) while g and h are honest squares. They are false by
// construction, not by convention: every power of a unit is a unit, so no x has g^x = gx.
// (1) altered-statement relation: the honest proof with gx, hx both replaced ⇒ false;
// (2) candidate proofs: the proof of the neighbouring true statement, arbitrary (Z, C) incl.
// zeros, and C recomputed as the hash of the statement with the commitments a verifier that
// mishandles the missing inverse would use (0 and 0; g^Z and h^Z). Oracle: never true.
func qnNonUnitStatements(t *rapid.T, P, Q safePrime, N, g, gx, h, hx *big.Int, proof *qndleq.Proof, desc string) bool {
	sub := "qndleq-nonunit"
	one := big.NewInt(1)
	nonUnit := func(lbl string) (*big.Int, string) {
		kind := rapid.SampledFrom([]string{"0", "N", "p", "q", "k·p", "k·q"}).Draw(t, lbl+".kind")
		switch kind {
		case "0":
			return big.NewInt(0), kind
		case "N":
			return new(big.Int).Set(N), kind
		case "p":
			return new(big.Int).Set(P.p), kind
		case "q":
			return new(big.Int).Set(Q.p), kind
		}
		k := big.NewInt(int64(rapid.IntRange(2, 1000).Draw(t, lbl+".k")))
		if rapid.Bool().Draw(t, lbl+".big") {
			k = drawExp(t, N, lbl+".kb")
		}
		f, o := P.p, Q.p
		if kind == "k·q" {
			f, o = Q.p, P.p
		}
		k.Mod(k, o) // k·f < N
		if k.Sign() == 0 {
			k.SetInt64(3)
		}
		return k.Mul(k, f), kind
	}
	// calibrate the challenge replica on the honest proof: gP = g^Z·gx^-C, hP = h^Z·hx^-C
	calibrated := false
	{
		inv := func(b *big.Int) *big.Int { return new(big.Int).ModInverse(new(big.Int).Exp(b, proof.C, N), N) }
		if ig, ih := inv(gx), inv(hx); ig != nil && ih != nil {
			gP := new(big.Int).Exp(g, proof.Z, N)
			gP.Mul(gP, ig).Mod(gP, N)
			hP := new(big.Int).Exp(h, proof.Z, N)
			hP.Mul(hP, ih).Mod(hP, N)
			if c, ok := qnChallengeReplica(g, gx, h, hx, gP, hP, N, proof.SecParam); ok && c.Cmp(proof.C) == 0 {
				calibrated = true
			}
		}
		if calibrated {
			vlib.Class(sub, "challenge-replica-calibrated-on-honest-proof")
		} else {
			vlib.Class(sub, "challenge-replica-does-not-match (recomputed-C candidates skipped)")
		}
	}
	var ngx, nhx *big.Int
	var kg, kh string
	if rapid.Bool().Draw(t, "nuSame") {
		ngx, kg = nonUnit("nu")
		nhx, kh = new(big.Int).Set(ngx), kg
		if kg != "0" && kg != "N" && rapid.Bool().Draw(t, "nu3") {
			nhx.Mul(nhx, big.NewInt(3)).Mod(nhx, N) // p and 3p
			kh = "3·" + kg
		}
	} else {
		ngx, kg = nonUnit("nug")
		nhx, kh = nonUnit("nuh")
	}
	if new(big.Int).GCD(nil, nil, ngx, N).Cmp(one) == 0 && ngx.Sign() != 0 || new(big.Int).GCD(nil, nil, nhx, N).Cmp(one) == 0 && nhx.Sign() != 0 {
		t.Fatalf("harness: non-unit generator produced a unit")
	}
	vlib.Class(sub, "gx="+kg+",hx="+kh)
	sdesc := fmt.Sprintf("FALSE STATEMENT (gx, hx both non-units) N=%v (p=%v q=%v) g=%v h=%v gx=%v [%s] hx=%v [%s]", N, P.p, Q.p, g, h, ngx, kg, nhx, kh)
	type cand struct {
		cls string
		p   *qndleq.Proof
	}
	bi := func(v int64) *big.Int { return big.NewInt(v) }
	rz := drawExp(t, N, "nuZ")
	rcb := make([]byte, 16)
	vlib.FillRandom(t, rcb, "nuC")
	rc := new(big.Int).SetBytes(rcb)
	cands := []cand{
		{"altered-statement:honest-proof,gx-and-hx-replaced", &qndleq.Proof{Z: new(big.Int).Set(proof.Z), C: new(big.Int).Set(proof.C), SecParam: proof.SecParam}},
	}
	for _, spv := range []uint{verifierSecParam, 256} {
		cands = append(cands,
			cand{"degenerate:Z=0,C=0", &qndleq.Proof{Z: bi(0), C: bi(0), SecParam: spv}},
			cand{"degenerate:Z=random,C=0", &qndleq.Proof{Z: rz, C: bi(0), SecParam: spv}},
			cand{"degenerate:Z=0,C=1", &qndleq.Proof{Z: bi(0), C: bi(1), SecParam: spv}},
			cand{"degenerate:Z=random,C=random", &qndleq.Proof{Z: rz, C: rc, SecParam: spv}},
		)
		if calibrated {
			zero := bi(0)
			for _, z := range []*big.Int{bi(0), bi(7), rz} {
				if c, ok := qnChallengeReplica(g, ngx, h, nhx, zero, zero, N, spv); ok {
					cands = append(cands, cand{"recomputed-C:commitments=0,0", &qndleq.Proof{Z: z, C: c, SecParam: spv}})
				}
				gz, hz := new(big.Int).Exp(g, z, N), new(big.Int).Exp(h, z, N)
				if c, ok := qnChallengeReplica(g, ngx, h, nhx, gz, hz, N, spv); ok {
					cands = append(cands, cand{"recomputed-C:commitments=g^Z,h^Z", &qndleq.Proof{Z: z, C: c, SecParam: spv}})
				}
				if c, ok := qnChallengeReplica(g, ngx, h, nhx, one, one, N, spv); ok {
					cands = append(cands, cand{"recomputed-C:commitments=1,1", &qndleq.Proof{Z: z, C: c, SecParam: spv}})
				}
			}
		}
	}
	for xi, spv := range extremeSecParams() {
		if spv >= verifierSecParam && (vlib.Thorough() || rapid.IntRange(0, 2).Draw(t, fmt.Sprintf("nuxsp%d", xi)) == 0) {
			cands = append(cands, cand{"extreme-secparam:Z=random,C=0", &qndleq.Proof{Z: rz, C: bi(0), SecParam: spv}})
		}
	}
	for _, c := range cands {
		vlib.Eval(sub)
		cls := strings.SplitN(c.cls, ":", 2)[0]
		vlib.Class(sub, c.cls)
		ok, pn, st := qnVerify(c.p, g, ngx, h, nhx, N)
		cdesc := fmt.Sprintf("%s PROOF %s %s", sdesc, c.cls, qnProofString(c.p))
		if pn != nil {
			vlib.Report(t, "C16/qndleq/nonunit/panic/"+vlib.PanicClass(pn), fmt.Sprintf("%s: panic %v\n%s", cdesc, pn, st))
			return false
		}
		if ok {
			vlib.Report(t, "C16/qndleq/false-statement-verifies/nonunit-statement/"+cls, cdesc+": Verify = true although gx and hx are not units (no power of g equals gx)")
			return false
		}
		vlib.NonTrivial(sub, "", []byte(cdesc))
		vlib.Sample(sub, cls, cdesc+" → false")
	}
	// non-unit BASES with negative, zero and positive responses: big.Int.Exp returns nil for a negative
	// exponent of a non-invertible base, and an honest Z can be negative (Z = C·x + r with x < 0); whatever the
	// statement, Verify must answer, not panic
	{
		ng, kb := nonUnit("nub")
		for _, z := range []*big.Int{bi(-1), new(big.Int).Neg(rz), bi(0), rz} {
			for _, bases := range [][2]*big.Int{{ng, h}, {g, ng}, {ng, ng}} {
				vlib.Eval(sub)
				p := &qndleq.Proof{Z: z, C: rc, SecParam: verifierSecParam}
				_, pn, st := qnVerify(p, bases[0], gx, bases[1], hx, N)
				if pn != nil {
					vlib.Report(t, "C16/qndleq/nonunit/panic/"+vlib.PanicClass(pn), fmt.Sprintf("N=%v g=%v h=%v (non-unit base %s) gx=%v hx=%v PROOF %s: panic %v\n%s", N, bases[0], bases[1], kb, gx, hx, qnProofString(p), pn, st))
					return false
				}
				vlib.Class(sub, "non-unit-base:Z-sign="+fmt.Sprint(z.Sign()))
			}
		}
	}
	_ = desc
	return true
}

func TestC16QNDLEQ(t *testing.T) {
	defer vlib.Done()
	poolOnce.Do(loadPool)
	if poolErr != nil {
		t.Fatalf("SELFTEST-FAIL safe prime pool: %v", poolErr)
	}
	vlib.Check(t, vlib.N(350, 1400), func(t *rapid.T) { qndleqCase(t) })
}
