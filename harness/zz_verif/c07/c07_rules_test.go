//go:build verif

package c07

import (
	"bytes"
	"fmt"
	"math/big"
	"testing"

	"github.com/cloudflare/circl/hpke"
	"github.com/cloudflare/circl/kem"
	rhpke "github.com/cloudflare/circl/zz_verif/ref/hpke"
	"github.com/cloudflare/circl/zz_verif/vlib"
	"pgregory.net/rapid"
)

// ---------------------------------------------------------------------------
// PSK-input rules (RFC 9180 section 5.1, VerifyPSKInputs)
//
// Asserted: with nil = absent (circl's API convention, which coincides with the RFC's
// "default value" on these inputs) and a non-empty slice = present:
//   PSK modes:  (nil, nil) -> error;  (nil, set) / (set, nil) -> error;  (set, set) -> success.
// Not asserted (verdict only counted): every combination that contains an empty but non-nil
// slice — the RFC reads it as "absent", circl's API as "present", the property does not choose.
// Base/auth modes cannot be handed a PSK through the API, except by re-using a Sender/Receiver
// object on which a PSK mode was set up before: that call must either fail or produce the
// RFC's base/auth-mode output (the left-over PSK must not leak into the key schedule).

var pskClasses = []string{"nil", "empty", "set"}

func pskValue(class string, set []byte) []byte {
	switch class {
	case "nil":
		return nil
	case "empty":
		return []byte{}
	}
	return set
}

func pskTable(c *hcase, rep reporter) bool {
	const sub = "psk-rules"
	k := rhpke.KEMByID(c.S.KEM)
	sch := hpke.KEM(c.S.KEM).Scheme()
	cs := circlSuite(c.S)
	pkR, skR := sch.DeriveKeyPair(c.IkmR)
	_, rpkR, _ := k.DeriveKeyPair(c.IkmR)
	var pkS kem.PublicKey
	var skS kem.PrivateKey
	var rskS []byte
	modes := []int{rhpke.ModePSK}
	if k.Auth {
		modes = append(modes, rhpke.ModeAuthPSK)
		pkS, skS = sch.DeriveKeyPair(c.IkmS)
		rskS, _, _ = k.DeriveKeyPair(c.IkmS)
	}
	for _, mode := range modes {
		// a valid encapsulation for the receiver-side rows
		renc, rS, err := rhpke.SetupS(c.S, mode, rpkR, c.Info, c.Psk, c.PskID, rskS, c.IkmE)
		if err != nil {
			panic(err)
		}
		for _, a := range pskClasses {
			for _, b := range pskClasses {
				psk, id := pskValue(a, c.Psk), pskValue(b, c.PskID)
				for _, side := range []string{"sender", "receiver"} {
					vlib.Eval(sub)
					var ctx hpke.Context
					var err error
					p, st := vlib.Catch(func() {
						if side == "sender" {
							var sl hpke.Sealer
							_, sl, err = senderSetup(cs, mode, pkR, c.Info, psk, id, skS, c.IkmE)
							if err == nil {
								ctx = sl
							}
						} else {
							var op hpke.Opener
							op, err = receiverSetup(cs, mode, skR, renc, c.Info, psk, id, pkS)
							if err == nil {
								ctx = op
							}
						}
					})
					cell := fmt.Sprintf("%s/%s-%s", modeName[mode], a, b)
					if p != nil {
						if !rep("C07/psk-rules/"+cell+"/panic", fmt.Sprintf("%s Setup panics: %v\n%s; case %s", side, p, st, c)) {
							return false
						}
						continue
					}
					verdict := "accepted"
					if err != nil {
						verdict = "rejected"
					}
					if a == "empty" || b == "empty" {
						vlib.Class(sub, fmt.Sprintf("unasserted:%s:psk=%s,psk_id=%s:%s", modeName[mode], a, b, verdict))
						continue
					}
					want := a == "set" && b == "set"
					if want && err != nil && len(psk) < 32 {
						vlib.Class(sub, "unasserted:short-psk:rejected") // see evalCase
						continue
					}
					if (err == nil) != want {
						detail := fmt.Sprintf("%s.Setup%s(psk=%s, psk_id=%s) %s (err=%v); RFC 9180 VerifyPSKInputs says %v; suite %v info=%s",
							side, map[int]string{1: "PSK", 3: "AuthPSK"}[mode], hx(psk), hx(id), verdict, err, rhpke.VerifyPSKInputs(mode, psk, id), c.S, hx(c.Info))
						if !rep("C07/psk-rules/"+cell, detail) {
							return false
						}
						continue
					}
					if want {
						role := byte(0)
						if side == "receiver" {
							role = 1
						}
						if !compareCtx(rep, "C07/psk-rules/"+cell+"/key-schedule", mb(ctx), role, rS, c) {
							return false
						}
					}
					vlib.Class(sub, fmt.Sprintf("asserted:%s:psk=%s,psk_id=%s:%s", modeName[mode], a, b, verdict))
					vlib.NonTrivial(sub, "", append(c.hashParts(), []byte(cell+side))...)
				}
			}
		}
		// re-used objects: PSK mode first, then the corresponding mode without PSK
		plain := rhpke.ModeBase
		if mode == rhpke.ModeAuthPSK {
			plain = rhpke.ModeAuth
		}
		_, rPlain, err := rhpke.SetupS(c.S, plain, rpkR, c.Info, nil, nil, rskS, c.IkmE)
		if err != nil {
			panic(err)
		}
		for _, side := range []string{"sender", "receiver"} {
			vlib.Eval(sub)
			var ctx hpke.Context
			var err error
			p, st := vlib.Catch(func() {
				if side == "sender" {
					snd, _ := cs.NewSender(pkR, c.Info)
					var sl hpke.Sealer
					if mode == rhpke.ModePSK {
						if _, _, e := snd.SetupPSK(bytes.NewReader(c.IkmE), c.Psk, c.PskID); e != nil {
							panic(e)
						}
						_, sl, err = snd.Setup(bytes.NewReader(c.IkmE))
					} else {
						if _, _, e := snd.SetupAuthPSK(bytes.NewReader(c.IkmE), skS, c.Psk, c.PskID); e != nil {
							panic(e)
						}
						_, sl, err = snd.SetupAuth(bytes.NewReader(c.IkmE), skS)
					}
					if err == nil {
						ctx = sl
					}
				} else {
					rcv, _ := cs.NewReceiver(skR, c.Info)
					var op hpke.Opener
					if mode == rhpke.ModePSK {
						if _, e := rcv.SetupPSK(renc, c.Psk, c.PskID); e != nil {
							panic(e)
						}
						op, err = rcv.Setup(renc)
					} else {
						if _, e := rcv.SetupAuthPSK(renc, c.Psk, c.PskID, pkS); e != nil {
							panic(e)
						}
						op, err = rcv.SetupAuth(renc, pkS)
					}
					if err == nil {
						ctx = op
					}
				}
			})
			cell := modeName[plain] + "/leftover-psk"
			if p != nil {
				if !rep("C07/psk-rules/"+cell+"/panic", fmt.Sprintf("%s: %v\n%s; case %s", side, p, st, c)) {
					return false
				}
				continue
			}
			if err != nil {
				vlib.Class(sub, "leftover-psk:"+modeName[plain]+":rejected")
				vlib.NonTrivial(sub, "", append(c.hashParts(), []byte(cell+side))...)
				continue
			}
			f, perr := parseCtx(mb(ctx))
			if perr != nil || !bytes.Equal(f.key, rPlain.Key) || !bytes.Equal(f.bn, rPlain.BaseNonce) || !bytes.Equal(f.exp, rPlain.ExporterSecret) {
				detail := fmt.Sprintf("%s: Setup%s after Setup%s on the same object succeeds, but the %s-mode context is not the RFC's (the PSK of the earlier call went into the key schedule: VerifyPSKInputs must refuse a PSK in this mode); key %x want %x; case %s",
					side, map[int]string{0: "", 2: "Auth"}[plain], map[int]string{1: "PSK", 3: "AuthPSK"}[mode], modeName[plain], f.key, rPlain.Key, c)
				if !rep("C07/psk-rules/"+cell, detail) {
					return false
				}
				continue
			}
			vlib.Class(sub, "leftover-psk:"+modeName[plain]+":accepted-with-RFC-output")
			vlib.NonTrivial(sub, "", append(c.hashParts(), []byte(cell+side))...)
		}
	}
	return true
}

// TestC07PSKRules: the table over drawn suites and inputs.
func TestC07PSKRules(t *testing.T) {
	defer vlib.Done()
	selftest(t)
	vlib.Check(t, vlib.N(40, 600), func(t *rapid.T) {
		id := rapid.SampledFrom([]uint16{rhpke.KEMP256, rhpke.KEMX25519, rhpke.KEMP256, rhpke.KEMX25519, rhpke.KEMP384, rhpke.KEMP521, rhpke.KEMX448, rhpke.KEMXyber, rhpke.KEMXWing}).Draw(t, "kem")
		c := drawCase(t, id)
		c.Mode = rhpke.ModePSK
		c.Psk, c.PskID = drawNonEmpty(t, "psk"), drawNonEmpty(t, "psk_id")
		if c.IkmS == nil {
			c.IkmS = vlib.EdgeBytes(t, len(c.IkmR), "ikmS")
		}
		fixOther(c)
		pskTable(c, func(key, detail string) bool { return vlib.Report(t, key, detail) })
	})
}

// TestC07PSKRulesAllKEMs: the table once per KEM x KDF x AEAD (deterministic inputs).
func TestC07PSKRulesAllKEMs(t *testing.T) {
	defer vlib.Done()
	selftest(t)
	idx := 0
	for _, id := range rhpke.KEMIDs() {
		for _, kdf := range kdfIDs {
			for _, aead := range aeadIDs {
				idx++
				if idx%vlib.NShards != vlib.Shard {
					continue
				}
				if !vlib.Thorough() && (int(kdf)+int(aead))%3 != int(id)%3 {
					continue // quick: one third of the suites (every KEM, KDF and AEAD still occurs)
				}
				c := sweepCase(rhpke.Suite{KEM: id, KDF: kdf, AEAD: aead}, rhpke.ModeAuthPSK, 7)
				c.Mode = rhpke.ModePSK
				if !pskTable(c, func(key, detail string) bool { return vlib.ReportDirect(t, key, detail, c.replay()) }) {
					return
				}
			}
		}
	}
}

// ---------------------------------------------------------------------------
// official vectors replayed on circl directly (no reference involved)

type circlImpl struct{}

func (circlImpl) Derive(id uint16, ikm []byte) (sk, pk []byte, err error) {
	p, s := hpke.KEM(id).Scheme().DeriveKeyPair(ikm)
	return mb(s), mb(p), nil
}

func (circlImpl) Public(id uint16, sk []byte) ([]byte, error) {
	s, err := hpke.KEM(id).Scheme().UnmarshalBinaryPrivateKey(sk)
	if err != nil {
		return nil, err
	}
	return mb(s.Public()), nil
}

func (circlImpl) Setup(s rhpke.Suite, mode int, skR, pkR, info, psk, pskID, eseed []byte) (*rhpke.Pair, error) {
	sch := hpke.KEM(s.KEM).Scheme()
	cs := circlSuite(s)
	pk, err := sch.UnmarshalBinaryPublicKey(pkR)
	if err != nil {
		return nil, err
	}
	sk, err := sch.UnmarshalBinaryPrivateKey(skR)
	if err != nil {
		return nil, err
	}
	enc, sl, err := senderSetup(cs, mode, pk, info, psk, pskID, nil, eseed)
	if err != nil {
		return nil, err
	}
	op, err := receiverSetup(cs, mode, sk, enc, info, psk, pskID, nil)
	if err != nil {
		return nil, err
	}
	f, err := parseCtx(mb(sl))
	if err != nil {
		return nil, err
	}
	return &rhpke.Pair{Enc: enc, Key: f.key, BaseNonce: f.bn, ExporterSecret: f.exp,
		Seal:    func(aad, pt []byte) ([]byte, error) { return sl.Seal(pt, aad) },
		Open:    func(aad, ct []byte) ([]byte, error) { return op.Open(ct, aad) },
		ExportS: func(ctx []byte, L int) []byte { return sl.Export(ctx, uint(L)) },
		ExportR: func(ctx []byte, L int) []byte { return op.Export(ctx, uint(L)) },
	}, nil
}

func (circlImpl) SetupR(s rhpke.Suite, skR, enc, info []byte) (func(aad, ct []byte) ([]byte, error), func(ctx []byte, L int) []byte, error) {
	sk, err := hpke.KEM(s.KEM).Scheme().UnmarshalBinaryPrivateKey(skR)
	if err != nil {
		return nil, nil, err
	}
	op, err := receiverSetup(circlSuite(s), rhpke.ModeBase, sk, enc, info, nil, nil, nil)
	if err != nil {
		return nil, nil, err
	}
	return func(aad, ct []byte) ([]byte, error) { return op.Open(ct, aad) }, func(ctx []byte, L int) []byte { return op.Export(ctx, uint(L)) }, nil
}

func TestC07KAT(t *testing.T) {
	defer vlib.Done()
	selftest(t)
	if vlib.Shard != 0 {
		return
	}
	const sub = "kat"
	for _, file := range []string{"rfc9180.json", "hpke-pq.json", "hybrid-x25119-kyber768-test-vectors.json", "go126_interop.json"} {
		vs, err := rhpke.LoadVectors(vlib.Harness, file)
		if err != nil {
			t.Fatalf("SELFTEST-FAIL cannot load %s: %v", file, err)
		}
		n := 0
		for i := range vs {
			v := vs[i]
			if !hpke.KEM(v.KEM).IsValid() || !hpke.KDF(v.KDF).IsValid() || !hpke.AEAD(v.AEAD).IsValid() {
				continue // export-only AEAD, SHAKE KDFs, ML-KEM-only KEMs: not offered by circl
			}
			if file == "hpke-pq.json" {
				v.IkmR = "" // draft-ietf-hpke-pq derives the key pair differently; circl documents the X-Wing draft's rule
			}
			vlib.Eval(sub)
			var cerr error
			p, st := vlib.Catch(func() {
				if file == "go126_interop.json" {
					cerr = rhpke.CheckRecvVector(&v, circlImpl{})
				} else {
					cerr = rhpke.CheckVector(&v, circlImpl{})
				}
			})
			if p != nil {
				cerr = fmt.Errorf("panic: %v\n%s", p, st)
			}
			if cerr != nil {
				if !vlib.ReportDirect(t, fmt.Sprintf("C07/kat/%s/%s", file, kemName(v.KEM)), fmt.Sprintf("vector %d (kem %#x kdf %d aead %d mode %d): %v", i, v.KEM, v.KDF, v.AEAD, v.Mode, cerr),
					map[string]interface{}{"file": file, "index": i}) {
					return
				}
				continue
			}
			n++
			vlib.NonTrivial(sub, "vector-ok:"+file, []byte(file), []byte{byte(i), byte(i >> 8)})
		}
		if n == 0 {
			t.Fatalf("SELFTEST-FAIL no usable vector in %s", file)
		}
	}
}

// ---------------------------------------------------------------------------
// RFC 9180 section 7.1.4: for X25519 and X448 "recipients MUST check whether the Diffie-Hellman shared secret
// is the all-zero value and abort if so" (and senders likewise for pkR).

func lowOrderPoints(size int) [][]byte {
	var p *big.Int
	if size == 32 {
		p = new(big.Int).Sub(new(big.Int).Lsh(big.NewInt(1), 255), big.NewInt(19))
	} else {
		p = new(big.Int).Sub(new(big.Int).Lsh(big.NewInt(1), 448), new(big.Int).Lsh(big.NewInt(1), 224))
		p.Sub(p, big.NewInt(1))
	}
	var out [][]byte
	for _, v := range []*big.Int{big.NewInt(0), big.NewInt(1), new(big.Int).Sub(p, big.NewInt(1)), p, new(big.Int).Add(p, big.NewInt(1))} {
		out = append(out, vlib.LE(v, size))
	}
	if size == 32 {
		// the two points of order 8 (RFC 7748 / curve25519 literature)
		out = append(out, rhpke.H("e0eb7a7c3b41b8ae1656e3faf19fc46ada098deb9c32b1fd866205165f49b800"),
			rhpke.H("5f9c95bca3508c24b1d0b1559c83ef5b04445cc4581c8e86d8224eddd09f1157"))
	}
	return out
}

func TestC07DHValidation(t *testing.T) {
	defer vlib.Done()
	selftest(t)
	if vlib.Shard != 0 {
		return
	}
	const sub = "dh-validation"
	for _, id := range []uint16{rhpke.KEMX25519, rhpke.KEMX448} {
		k := rhpke.KEMByID(id)
		sch := hpke.KEM(id).Scheme()
		ikm := make([]byte, k.Nsk)
		vlib.ExpandInto(ikm, uint64(vlib.Seed)*991+uint64(id))
		pkR, skR := sch.DeriveKeyPair(ikm)
		rskR, _, _ := k.DeriveKeyPair(ikm)
		for i, pt := range lowOrderPoints(k.Npk) {
			for _, mode := range []int{rhpke.ModeBase, rhpke.ModeAuth} {
				s := rhpke.Suite{KEM: id, KDF: kdfIDs[i%3], AEAD: aeadIDs[i%3]}
				cs := circlSuite(s)
				// the reference must refuse (self-consistency of the oracle)
				if _, err := rhpke.SetupR(s, rhpke.ModeBase, pt, rskR, nil, nil, nil, nil); err == nil {
					t.Fatalf("SELFTEST-FAIL reference accepts low-order point %x", pt)
				}
				// receiver: enc is a low-order point
				vlib.Eval(sub)
				_, err := receiverSetup(cs, mode, skR, pt, nil, nil, nil, pkR)
				if err == nil {
					if !vlib.ReportDirect(t, "C07/dh-validation/"+kemName(id)+"/receiver", fmt.Sprintf("Receiver.Setup(%s) accepts enc = low-order point %x (all-zero DH output)", modeName[mode], pt),
						map[string]interface{}{"enc": fmt.Sprintf("%x", pt), "mode": mode}) {
						return
					}
				} else {
					vlib.NonTrivial(sub, "receiver-rejects-low-order-enc", pt, []byte{byte(mode), 0})
				}
				// sender: pkR is a low-order point
				lo, err := sch.UnmarshalBinaryPublicKey(pt)
				if err != nil {
					vlib.Class(sub, "low-order-pk-refused-at-unmarshal")
					continue
				}
				vlib.Eval(sub)
				_, _, err = senderSetup(cs, mode, lo, nil, nil, nil, skR, ikm)
				if err == nil {
					if !vlib.ReportDirect(t, "C07/dh-validation/"+kemName(id)+"/sender", fmt.Sprintf("Sender.Setup(%s) accepts pkR = low-order point %x", modeName[mode], pt),
						map[string]interface{}{"pkR": fmt.Sprintf("%x", pt), "mode": mode}) {
						return
					}
				} else {
					vlib.NonTrivial(sub, "sender-rejects-low-order-pkR", pt, []byte{byte(mode), 1})
				}
				// auth receiver: pkS is a low-order point (enc honest)
				if mode == rhpke.ModeAuth {
					vlib.Eval(sub)
					enc, _, err := senderSetup(cs, rhpke.ModeBase, pkR, nil, nil, nil, nil, ikm)
					if err != nil {
						t.Fatalf("honest setup: %v", err)
					}
					_, err = receiverSetup(cs, rhpke.ModeAuth, skR, enc, nil, nil, nil, lo)
					if err == nil {
						if !vlib.ReportDirect(t, "C07/dh-validation/"+kemName(id)+"/receiver-pkS", fmt.Sprintf("Receiver.SetupAuth accepts pkS = low-order point %x", pt),
							map[string]interface{}{"pkS": fmt.Sprintf("%x", pt)}) {
							return
						}
					} else {
						vlib.NonTrivial(sub, "receiver-rejects-low-order-pkS", pt, []byte{2})
					}
				}
			}
		}
	}
}

// ---------------------------------------------------------------------------
// The nil-reader path (Setup*(nil, …) takes the encapsulation randomness from crypto/rand) and the other nil / empty
// argument forms: nil info, nil plaintext, nil aad, nil exporter context, export lengths 0 and 255*Nh. The sender's
// values are random here, so the oracle is the REFERENCE receiver: enc is fed to rhpke.SetupR and its key, base nonce and
// exporter secret must be what the circl sender marshals; the circl receiver must agree as well, open what the sender
// seals and export the same values.
func TestC07NilForms(t *testing.T) {
	defer vlib.Done()
	selftest(t)
	const sub = "nil-forms"
	idx := 0
	for ki, id := range rhpke.KEMIDs() {
		k := rhpke.KEMByID(id)
		sch := hpke.KEM(id).Scheme()
		for mode := 0; mode < 4; mode++ {
			if isAuth(mode) && !k.Auth {
				continue
			}
			for rep := 0; rep < vlib.N(1, 3); rep++ {
				idx++
				if idx%vlib.NShards != vlib.Shard {
					continue
				}
				s := rhpke.Suite{KEM: id, KDF: kdfIDs[(ki+mode+rep)%3], AEAD: aeadIDs[(ki+2*mode+rep)%3]}
				cs := circlSuite(s)
				c := sweepCase(s, mode, 31+rep)
				c.Info = nil
				pkR, skR := sch.DeriveKeyPair(c.IkmR)
				rskR, _, _ := k.DeriveKeyPair(c.IkmR)
				var pkS kem.PublicKey
				var skS kem.PrivateKey
				var rpkS []byte
				if isAuth(mode) {
					pkS, skS = sch.DeriveKeyPair(c.IkmS)
					_, rpkS, _ = k.DeriveKeyPair(c.IkmS)
				}
				cell := kemName(id) + "/" + modeName[mode]
				replay := map[string]interface{}{"case": c.String()}
				report := func(key, detail string) bool { return vlib.ReportDirect(t, key, detail+"; "+c.String(), replay) }
				vlib.Eval(sub)
				var encs [2][]byte
				var sl hpke.Sealer
				var err error
				for i := range encs {
					p, st := vlib.Catch(func() { encs[i], sl, err = senderSetupRd(cs, mode, pkR, nil, c.Psk, c.PskID, skS, nil) })
					if p != nil {
						err = fmt.Errorf("panic: %v\n%s", p, st)
					}
					if err != nil {
						break
					}
				}
				if err != nil {
					if !report("C07/nil-reader/"+cell+"/error", fmt.Sprintf("Setup with a nil reader (crypto/rand) fails: %v", err)) {
						return
					}
					continue
				}
				if bytes.Equal(encs[0], encs[1]) {
					if !report("C07/nil-reader/"+cell+"/not-random", fmt.Sprintf("two Setup calls with a nil reader give the same enc %s", vlib.Hex(encs[0]))) {
						return
					}
					continue
				}
				enc := take(encs[1])
				rR, rerr := rhpke.SetupR(s, mode, enc, rskR, nil, c.Psk, c.PskID, rpkS)
				if rerr != nil {
					if !report("C07/nil-reader/"+cell+"/reference-receiver", fmt.Sprintf("the reference receiver refuses enc: %v", rerr)) {
						return
					}
					continue
				}
				if !compareCtx(report, "C07/nil-reader/"+cell+"/sender", mb(sl), 0, rR, c) {
					return
				}
				op, err := receiverSetup(cs, mode, skR, enc, nil, c.Psk, c.PskID, pkS)
				if err != nil {
					if !report("C07/nil-reader/"+cell+"/receiver-error", err.Error()) {
						return
					}
					continue
				}
				if !compareCtx(report, "C07/nil-reader/"+cell+"/receiver", mb(op), 1, rR, c) {
					return
				}
				// nil / empty message forms
				ok := true
				for j, m := range [][2][]byte{{nil, nil}, {[]byte{}, nil}, {nil, []byte{}}, {[]byte("pt"), nil}, {nil, []byte("aad")}} {
					ct, err := sl.Seal(m[0], m[1])
					ct = take(ct)
					if err != nil || len(ct) != len(m[0])+16 {
						ok = report("C07/nil-forms/seal", fmt.Sprintf("message %d (pt %s aad %s): err=%v len=%d", j, hx(m[0]), hx(m[1]), err, len(ct)))
						break
					}
					pt, err := rR.Open(m[1], ct)
					if err != nil || !bytes.Equal(pt, m[0]) {
						ok = report("C07/nil-forms/reference-opens", fmt.Sprintf("message %d (pt %s aad %s): err=%v", j, hx(m[0]), hx(m[1]), err))
						break
					}
					pt, err = op.Open(ct, m[1])
					if err != nil || !bytes.Equal(pt, m[0]) {
						ok = report("C07/nil-forms/open", fmt.Sprintf("message %d (pt %s aad %s): err=%v", j, hx(m[0]), hx(m[1]), err))
						break
					}
				}
				if !ok {
					return
				}
				nh := rhpke.Nh(s.KDF)
				for _, e := range []expReq{{nil, 0}, {[]byte{}, 0}, {nil, 1}, {nil, nh}, {[]byte{}, 255 * nh}, {nil, 255*nh - 1}, {[]byte("ctx"), 255 * nh}} {
					want := rR.Export(e.Ctx, e.L)
					for side, cx := range []hpke.Context{sl, op} {
						var got []byte
						if p, st := vlib.Catch(func() { got = take(cx.Export(e.Ctx, uint(e.L))) }); p != nil {
							ok = report("C07/nil-forms/export-panic", fmt.Sprintf("Export(%s, %d) with 255*Nh = %d panics: %v\n%s", hx(e.Ctx), e.L, 255*nh, p, st))
						} else if !bytes.Equal(got, want) || len(got) != e.L {
							ok = report("C07/nil-forms/export", fmt.Sprintf("Export(%s, %d) on side %d: %s, RFC 9180 %s", hx(e.Ctx), e.L, side, vlib.Hex(got), vlib.Hex(want)))
						}
						if !ok {
							return
						}
					}
				}
				vlib.Class(sub, "mode="+modeName[mode])
				vlib.NonTrivial(sub, "", []byte(cell), []byte{byte(s.KDF), byte(s.AEAD), byte(rep)})
			}
		}
	}
	if vlib.Shard == 0 {
		vlib.Exhaustive("C07 KEM x mode cells with a nil reader", 5*4+2*2, "every applicable cell; all shards together")
	}
}

// ---------------------------------------------------------------------------
// Length sweep against the reference: plaintext / aad lengths around every power-of-two boundary and around those
// boundaries minus the tag length (every length in 2^16-17 .. 2^16+1 and 2^17-17 .. 2^17+1), one suite per AEAD; every
// ciphertext equals the reference's, circl opens the reference's ciphertext and the reference opens circl's.
func TestC07Lengths(t *testing.T) {
	defer vlib.Done()
	selftest(t)
	if vlib.Shard != 0 {
		return
	}
	const sub = "length-sweep"
	lens := []int{0, 1, 15, 16, 17, 31, 32, 33, 255, 256, 257, 4095, 4096, 4097}
	for n := 1<<16 - 17; n <= 1<<16+1; n++ {
		lens = append(lens, n)
	}
	for n := 1<<17 - 17; n <= 1<<17+1; n++ {
		lens = append(lens, n)
	}
	buf := make([]byte, 1<<17+64)
	vlib.ExpandInto(buf, uint64(vlib.Seed)*911+3)
	for ai, aeadID := range aeadIDs {
		s := rhpke.Suite{KEM: []uint16{rhpke.KEMX25519, rhpke.KEMP256, rhpke.KEMXWing}[ai], KDF: kdfIDs[ai], AEAD: aeadID}
		c := sweepCase(s, ai%2, 41) // base, psk, base
		k := rhpke.KEMByID(s.KEM)
		sch := hpke.KEM(s.KEM).Scheme()
		cs := circlSuite(s)
		pkR, skR := sch.DeriveKeyPair(c.IkmR)
		rskR, rpkR, _ := k.DeriveKeyPair(c.IkmR)
		enc, sl, err := senderSetup(cs, c.Mode, pkR, c.Info, c.Psk, c.PskID, nil, c.IkmE)
		if err != nil {
			t.Fatalf("sender setup: %v", err)
		}
		op, err := receiverSetup(cs, c.Mode, skR, enc, c.Info, c.Psk, c.PskID, nil)
		if err != nil {
			t.Fatalf("receiver setup: %v", err)
		}
		_, rS, err := rhpke.SetupS(s, c.Mode, rpkR, c.Info, c.Psk, c.PskID, nil, c.IkmE)
		if err != nil {
			t.Fatalf("reference setup: %v", err)
		}
		rR, err := rhpke.SetupR(s, c.Mode, enc, rskR, c.Info, c.Psk, c.PskID, nil)
		if err != nil {
			t.Fatalf("reference receiver: %v", err)
		}
		for i, n := range lens {
			aadLen := lens[(i*7+3)%len(lens)]
			if i%3 != 0 && aadLen > 300 {
				aadLen %= 300
			}
			pt, aad := buf[:n], buf[len(buf)-aadLen:]
			vlib.Eval(sub)
			replay := map[string]interface{}{"aead": aeadID, "ptlen": n, "aadlen": aadLen, "index": i, "case": c.String()}
			where := fmt.Sprintf("AEAD %d, message %d, plaintext %d bytes, aad %d bytes", aeadID, i, n, aadLen)
			ct, err := sl.Seal(pt, aad)
			want, _ := rS.Seal(aad, pt)
			if err != nil || !bytes.Equal(ct, want) {
				vlib.ReportDirect(t, fmt.Sprintf("C07/length-sweep/aead%d/ciphertext", aeadID), fmt.Sprintf("%s: err=%v, ciphertext differs from RFC 9180 (%d vs %d bytes)", where, err, len(ct), len(want)), replay)
				return
			}
			got, err := op.Open(want, aad)
			if err != nil || !bytes.Equal(got, pt) {
				vlib.ReportDirect(t, "C07/length-sweep/open", fmt.Sprintf("%s: the receiver does not open the in-order ciphertext (%d bytes): %v", where, len(want), err), replay)
				return
			}
			got, err = rR.Open(aad, ct)
			if err != nil || !bytes.Equal(got, pt) {
				vlib.ReportDirect(t, "C07/length-sweep/reference-opens", fmt.Sprintf("%s: %v", where, err), replay)
				return
			}
			vlib.NonTrivial(sub, "", []byte{byte(aeadID), byte(i)})
		}
	}
}
