//go:build verif

// C07 — HPKE produces exactly the RFC 9180 outputs for every suite, mode and input.
//
// Oracle: zz_verif/ref/hpke (package rhpke), an independent implementation written from
// the RFC text and validated at process start against the official RFC 9180 vectors of
// the Go 1.26 tree, the HPKE-PQ X-Wing vector, the X25519Kyber768Draft00 vectors, the
// X-Wing specification vectors and RFC 7748.
package c07

import (
	"bytes"
	"encoding/binary"
	"encoding/hex"
	"errors"
	"fmt"
	"io"
	"math/big"
	"sync"
	"testing"

	"github.com/cloudflare/circl/hpke"
	"github.com/cloudflare/circl/kem"
	rhpke "github.com/cloudflare/circl/zz_verif/ref/hpke"
	"github.com/cloudflare/circl/zz_verif/vlib"
	"pgregory.net/rapid"
)

// ---------------------------------------------------------------------------
// oracle self-test

var (
	stOnce sync.Once
	stErr  error
)

func selftest(t *testing.T) {
	t.Helper()
	stOnce.Do(func() {
		info, err := rhpke.SelfTest(vlib.Harness, vlib.Thorough() && vlib.Shard == 0)
		stErr = err
		if err == nil {
			vlib.Selftest("ref/hpke", "ok: "+info)
		} else {
			vlib.Selftest("ref/hpke", "FAILED: "+err.Error())
		}
	})
	if stErr != nil {
		vlib.Done()
		t.Fatalf("SELFTEST-FAIL ref/hpke: %v", stErr)
	}
}

// ---------------------------------------------------------------------------
// plumbing

var (
	kdfIDs   = []uint16{rhpke.KDFSHA256, rhpke.KDFSHA384, rhpke.KDFSHA512}
	aeadIDs  = []uint16{rhpke.AEADAES128, rhpke.AEADAES256, rhpke.AEADChaCha}
	modeName = []string{"base", "psk", "auth", "authpsk"}
)

func kemName(id uint16) string { return fmt.Sprintf("kem%04x", id) }

func isPSK(mode int) bool  { return mode == rhpke.ModePSK || mode == rhpke.ModeAuthPSK }
func isAuth(mode int) bool { return mode == rhpke.ModeAuth || mode == rhpke.ModeAuthPSK }

func circlSuite(s rhpke.Suite) hpke.Suite {
	return hpke.NewSuite(hpke.KEM(s.KEM), hpke.KDF(s.KDF), hpke.AEAD(s.AEAD))
}

// reporter receives an oracle mismatch; it returns true when the search may go on
// (known finding) and false when the case must be abandoned (new violation recorded).
type reporter func(key, detail string) bool

// ctxFields is the documented serialisation of a context (hpke/marshal.go):
// role(1) kem(2) kdf(2) aead(2) exporter_secret<0..255> key<0..255> base_nonce<0..255> seq<0..255>.
type ctxFields struct {
	role           byte
	kem, kdf, aead uint16
	exp, key, bn   []byte
	seq            []byte
}

func (f *ctxFields) marshal() []byte {
	b := []byte{f.role}
	b = binary.BigEndian.AppendUint16(b, f.kem)
	b = binary.BigEndian.AppendUint16(b, f.kdf)
	b = binary.BigEndian.AppendUint16(b, f.aead)
	for _, p := range [][]byte{f.exp, f.key, f.bn, f.seq} {
		b = append(b, byte(len(p)))
		b = append(b, p...)
	}
	return b
}

// structuredSeqs are the sequence numbers at which restored contexts are continued: around every byte boundary, around
// 2^32 and 2^64, the top bit and the end of the 96-bit range.
func structuredSeqs() []*big.Int {
	one := big.NewInt(1)
	pow := func(k uint) *big.Int { return new(big.Int).Lsh(one, k) }
	out := []*big.Int{big.NewInt(0), one}
	for k := uint(8); k < 96; k += 8 {
		out = append(out, new(big.Int).Sub(pow(k), one), pow(k))
	}
	for _, k := range []uint{32, 64} {
		for d := int64(-3); d <= 3; d++ {
			out = append(out, new(big.Int).Add(pow(k), big.NewInt(d)))
		}
	}
	out = append(out, pow(95), new(big.Int).Add(pow(95), one))
	for d := int64(1); d <= 4; d++ {
		out = append(out, new(big.Int).Sub(pow(96), big.NewInt(d)))
	}
	return out
}

func parseCtx(raw []byte) (*ctxFields, error) {
	if len(raw) < 7 {
		return nil, errors.New("short context")
	}
	f := &ctxFields{role: raw[0], kem: binary.BigEndian.Uint16(raw[1:]), kdf: binary.BigEndian.Uint16(raw[3:]), aead: binary.BigEndian.Uint16(raw[5:])}
	rest := raw[7:]
	for _, dst := range []*[]byte{&f.exp, &f.key, &f.bn, &f.seq} {
		if len(rest) < 1 || len(rest) < 1+int(rest[0]) {
			return nil, errors.New("truncated context")
		}
		*dst = append([]byte{}, rest[1:1+int(rest[0])]...)
		rest = rest[1+int(rest[0]):]
	}
	if len(rest) != 0 {
		return nil, errors.New("trailing bytes in context")
	}
	return f, nil
}

func hx(b []byte) string {
	if b == nil {
		return "nil"
	}
	return "\"" + vlib.Hex(b) + "\""
}

type expReq struct {
	Ctx []byte
	L   int
}

type hcase struct {
	S                rhpke.Suite
	Mode             int
	IkmR, IkmS, IkmE []byte
	IkmO             []byte // another key pair (wrong skR / wrong pkS)
	Info, Psk, PskID []byte
	Msgs             [][2][]byte // (pt, aad)
	Exps             []expReq
	Negs             []string
	NegSel           byte   // selects how a parameter is altered / which other mode is used
	EncBit           int    // bit of enc flipped by the "enc" negative relation (reduced mod 8*len(enc))
	Seq              []byte // 12-byte sequence number at which restored copies of both contexts continue
	Rd               string // how the io.Reader hands out the encapsulation randomness: whole, one, half, chunks
	RdSeed           uint64
	Src              string
}

func (c *hcase) String() string {
	s := fmt.Sprintf("kem=%#04x kdf=%d aead=%d mode=%s ikmR=%x ikmS=%x ikmE=%x ikmO=%x info=%s psk=%s psk_id=%s negs=%v negsel=%d",
		c.S.KEM, c.S.KDF, c.S.AEAD, modeName[c.Mode], c.IkmR, c.IkmS, c.IkmE, c.IkmO, hx(c.Info), hx(c.Psk), hx(c.PskID), c.Negs, c.NegSel)
	s += fmt.Sprintf(" encbit=%d reader=%s/%d restored-seq=%x", c.EncBit, c.Rd, c.RdSeed, c.Seq)
	for _, m := range c.Msgs {
		s += fmt.Sprintf(" msg(pt=%d B, aad=%d B)", len(m[0]), len(m[1]))
	}
	for _, e := range c.Exps {
		s += fmt.Sprintf(" export(ctx=%d B, L=%d)", len(e.Ctx), e.L)
	}
	return s
}

func (c *hcase) replay() map[string]interface{} {
	return map[string]interface{}{"case": c.String(), "ikmR": hex.EncodeToString(c.IkmR), "ikmE": hex.EncodeToString(c.IkmE),
		"info": hex.EncodeToString(c.Info), "psk": hex.EncodeToString(c.Psk), "psk_id": hex.EncodeToString(c.PskID)}
}

func (c *hcase) hashParts() [][]byte {
	p := [][]byte{{byte(c.S.KEM >> 8), byte(c.S.KEM), byte(c.S.KDF), byte(c.S.AEAD), byte(c.Mode), c.NegSel, byte(c.EncBit), byte(c.EncBit >> 8), byte(c.RdSeed)}, []byte(c.Rd), c.Seq, c.IkmR, c.IkmS, c.IkmE, c.IkmO, c.Info, c.Psk, c.PskID}
	for _, n := range c.Negs {
		p = append(p, []byte(n))
	}
	for _, m := range c.Msgs {
		p = append(p, m[0], m[1])
	}
	for _, e := range c.Exps {
		p = append(p, e.Ctx, []byte{byte(e.L >> 8), byte(e.L)})
	}
	return p
}

func mb(v interface{ MarshalBinary() ([]byte, error) }) []byte {
	b, err := v.MarshalBinary()
	if err != nil {
		panic(fmt.Sprintf("MarshalBinary: %v", err))
	}
	return take(b)
}

// take is what a caller may do with any byte slice the API returns: keep a private copy and overwrite the returned
// slice in place (wiping secrets, re-using the memory). The objects that produced the slice must keep behaving like the
// reference afterwards, i.e. returned slices must not alias internal state.
func take(b []byte) []byte {
	if b == nil {
		return nil
	}
	c := append([]byte{}, b...)
	for i := range b {
		b[i] ^= 0xa5
	}
	return c
}

// shortReader is an io.Reader over data that returns short reads (n < len(p), nil error), as the io.Reader
// contract allows (pipes, network sources, iotest.OneByteReader / HalfReader): one byte per call, half of the
// request, or pseudo-random chunk sizes. The randomness consumed by Setup must not depend on the chunking.
type shortReader struct {
	data  []byte
	style string
	seed  uint64
	calls uint64
}

func (r *shortReader) Read(p []byte) (int, error) {
	if len(p) == 0 {
		return 0, nil
	}
	if len(r.data) == 0 {
		return 0, io.EOF
	}
	n := len(p)
	switch r.style {
	case "one":
		n = 1
	case "half":
		n = (len(p) + 1) / 2
	case "chunks":
		r.calls++
		n = 1 + int(vlib.Hash64([]byte{byte(r.seed), byte(r.seed >> 8), byte(r.calls), byte(r.calls >> 8)})%uint64(len(p)))
	}
	if n > len(r.data) {
		n = len(r.data)
	}
	copy(p, r.data[:n])
	r.data = r.data[n:]
	return n, nil
}

func newReader(eseed []byte, style string, seed uint64) io.Reader {
	if style == "" || style == "whole" {
		return bytes.NewReader(eseed)
	}
	return &shortReader{data: append([]byte{}, eseed...), style: style, seed: seed}
}

// senderSetup runs the Setup function of the mode on a fresh circl Sender.
func senderSetup(cs hpke.Suite, mode int, pkR kem.PublicKey, info, psk, pskID []byte, skS kem.PrivateKey, eseed []byte) (enc []byte, sl hpke.Sealer, err error) {
	return senderSetupRd(cs, mode, pkR, info, psk, pskID, skS, bytes.NewReader(eseed))
}

// senderSetupRd is senderSetup with the randomness coming from rd.
func senderSetupRd(cs hpke.Suite, mode int, pkR kem.PublicKey, info, psk, pskID []byte, skS kem.PrivateKey, rd io.Reader) (enc []byte, sl hpke.Sealer, err error) {
	snd, err := cs.NewSender(pkR, info)
	if err != nil {
		return nil, nil, err
	}
	switch mode {
	case rhpke.ModeBase:
		return snd.Setup(rd)
	case rhpke.ModePSK:
		return snd.SetupPSK(rd, psk, pskID)
	case rhpke.ModeAuth:
		return snd.SetupAuth(rd, skS)
	default:
		return snd.SetupAuthPSK(rd, skS, psk, pskID)
	}
}

// receiverSetup runs the Setup function of the mode on a fresh circl Receiver.
func receiverSetup(cs hpke.Suite, mode int, skR kem.PrivateKey, enc, info, psk, pskID []byte, pkS kem.PublicKey) (hpke.Opener, error) {
	rcv, err := cs.NewReceiver(skR, info)
	if err != nil {
		return nil, err
	}
	switch mode {
	case rhpke.ModeBase:
		return rcv.Setup(enc)
	case rhpke.ModePSK:
		return rcv.SetupPSK(enc, psk, pskID)
	case rhpke.ModeAuth:
		return rcv.SetupAuth(enc, pkS)
	default:
		return rcv.SetupAuthPSK(enc, psk, pskID, pkS)
	}
}

// compareCtx compares the marshalled circl context with the reference context.
func compareCtx(rep reporter, prefix string, raw []byte, role byte, want *rhpke.Context, c *hcase) bool {
	f, err := parseCtx(raw)
	if err != nil {
		return rep(prefix+"/marshal-layout", fmt.Sprintf("%v: %s; case %s", err, vlib.Hex(raw), c))
	}
	if f.role != role || f.kem != c.S.KEM || f.kdf != c.S.KDF || f.aead != c.S.AEAD {
		return rep(prefix+"/marshal-header", fmt.Sprintf("role %d kem %#x kdf %d aead %d; case %s", f.role, f.kem, f.kdf, f.aead, c))
	}
	if !bytes.Equal(f.key, want.Key) {
		return rep(prefix+"/key", fmt.Sprintf("circl %x, RFC 9180 %x; case %s", f.key, want.Key, c))
	}
	if !bytes.Equal(f.bn, want.BaseNonce) {
		return rep(prefix+"/base_nonce", fmt.Sprintf("circl %x, RFC 9180 %x; case %s", f.bn, want.BaseNonce, c))
	}
	if !bytes.Equal(f.exp, want.ExporterSecret) {
		return rep(prefix+"/exporter_secret", fmt.Sprintf("circl %x, RFC 9180 %x; case %s", f.exp, want.ExporterSecret, c))
	}
	if len(f.seq) != len(want.BaseNonce) || !bytes.Equal(f.seq, make([]byte, len(f.seq))) {
		return rep(prefix+"/initial-seq", fmt.Sprintf("seq %x; case %s", f.seq, c))
	}
	return true
}

// alter returns a byte string different from b (sel picks the alteration).
func alter(b []byte, sel byte) []byte {
	o := append([]byte{}, b...)
	switch {
	case len(o) == 0:
		return []byte{sel | 1}
	case sel%3 == 0:
		return append(o, sel)
	case sel%3 == 1:
		o[int(sel)%len(o)] ^= 1 << (sel % 8)
		return o
	default:
		if len(o) > 1 {
			return o[:len(o)-1]
		}
		o[0] ^= 0x80
		return o
	}
}

const negExportLen = 32

var negExportCtx = []byte("C07 negative relation")

// evalCase evaluates one case completely. It returns false if a new violation was recorded.
func evalCase(c *hcase, rep reporter) bool {
	k := rhpke.KEMByID(c.S.KEM)
	kn := kemName(c.S.KEM)
	sub := "grid/" + kn
	sch := hpke.KEM(c.S.KEM).Scheme()
	cs := circlSuite(c.S)
	vlib.Eval(sub)
	vlib.Class(sub, "mode="+modeName[c.Mode])
	vlib.Class(sub, fmt.Sprintf("kdf=%d", c.S.KDF))
	vlib.Class(sub, fmt.Sprintf("aead=%d", c.S.AEAD))
	vlib.Class(sub, "src="+c.Src)

	// ---- key pairs: DeriveKeyPair of the RFC (and of the two drafts)
	pkR, skR := sch.DeriveKeyPair(c.IkmR)
	rskR, rpkR, err := k.DeriveKeyPair(c.IkmR)
	if err != nil {
		panic(fmt.Sprintf("reference DeriveKeyPair: %v", err))
	}
	if !bytes.Equal(mb(pkR), rpkR) {
		return rep("C07/derive-key-pair/"+kn+"/pk", fmt.Sprintf("ikm %x: circl pk %s, RFC 9180 %s", c.IkmR, vlib.Hex(mb(pkR)), vlib.Hex(rpkR)))
	}
	if !bytes.Equal(clampX(c.S.KEM, mb(skR)), clampX(c.S.KEM, rskR)) {
		return rep("C07/derive-key-pair/"+kn+"/sk", fmt.Sprintf("ikm %x: circl sk %s, RFC 9180 %s", c.IkmR, vlib.Hex(mb(skR)), vlib.Hex(rskR)))
	}
	pkO, skO := sch.DeriveKeyPair(c.IkmO)
	rskO, rpkO, _ := k.DeriveKeyPair(c.IkmO)
	var pkS kem.PublicKey
	var skS kem.PrivateKey
	var rskS, rpkS []byte
	if isAuth(c.Mode) {
		pkS, skS = sch.DeriveKeyPair(c.IkmS)
		rskS, rpkS, _ = k.DeriveKeyPair(c.IkmS)
		if !bytes.Equal(mb(pkS), rpkS) || !bytes.Equal(clampX(c.S.KEM, mb(skS)), clampX(c.S.KEM, rskS)) {
			return rep("C07/derive-key-pair/"+kn+"/pk", fmt.Sprintf("ikm %x: circl pk %s, RFC 9180 %s", c.IkmS, vlib.Hex(mb(pkS)), vlib.Hex(rpkS)))
		}
	}

	// ---- auth modes on a KEM without AuthEncap: the RFC defines no such mode
	if isAuth(c.Mode) && !k.Auth {
		var sl hpke.Sealer
		var err error
		p, _ := vlib.Catch(func() { _, sl, err = senderSetup(cs, c.Mode, pkR, c.Info, c.Psk, c.PskID, skS, c.IkmE) })
		switch {
		case p != nil:
			vlib.Class(sub, "auth-mode-on-non-auth-KEM:sender-panics")
		case errors.Is(err, hpke.ErrInvalidAuthKEM):
			vlib.Class(sub, "auth-mode-on-non-auth-KEM:ErrInvalidAuthKEM")
		case err != nil:
			vlib.Class(sub, "auth-mode-on-non-auth-KEM:other-error")
		default:
			_ = sl
			return rep("C07/auth-mode-on-non-auth-kem/"+kn, fmt.Sprintf("Setup of an auth mode succeeded for a KEM without AuthEncap; case %s", c))
		}
		return true
	}

	// ---- sender
	renc, rS, err := rhpke.SetupS(c.S, c.Mode, rpkR, c.Info, c.Psk, c.PskID, rskS, c.IkmE)
	if err != nil {
		panic(fmt.Sprintf("reference SetupS failed on a valid case: %v (%s)", err, c))
	}
	vlib.Class(sub, "reader="+map[bool]string{true: "whole", false: c.Rd}[c.Rd == ""])
	enc, sealer, err := senderSetupRd(cs, c.Mode, pkR, c.Info, c.Psk, c.PskID, skS, newReader(c.IkmE, c.Rd, c.RdSeed))
	if err != nil && isPSK(c.Mode) && len(c.Psk) < 32 {
		// RFC 9180 section 5.1.2 wants a PSK of at least 32 bytes of entropy; the pseudo-code does not enforce a
		// length and neither does circl, but an implementation that refuses a shorter PSK is not wrong: only counted.
		vlib.Class(sub, "short-psk:rejected")
		return true
	}
	if err != nil {
		return rep("C07/setup/"+kn+"/"+modeName[c.Mode]+"/sender-error", fmt.Sprintf("%v; case %s", err, c))
	}
	if isPSK(c.Mode) && len(c.Psk) < 32 {
		vlib.Class(sub, "short-psk:accepted")
	}
	enc = take(enc)
	if !bytes.Equal(enc, renc) {
		return rep("C07/enc/"+kn+"/"+modeName[c.Mode], fmt.Sprintf("circl %s, RFC 9180 %s; case %s", vlib.Hex(enc), vlib.Hex(renc), c))
	}
	if !compareCtx(rep, "C07/key-schedule/"+modeName[c.Mode]+"/sender", mb(sealer), 0, rS, c) {
		return false
	}
	// ---- receivers: circl on circl's enc, reference on circl's enc, circl on the reference's enc
	rR, err := rhpke.SetupR(c.S, c.Mode, enc, rskR, c.Info, c.Psk, c.PskID, rpkS)
	if err != nil {
		return rep("C07/cross/"+kn+"/"+modeName[c.Mode]+"/reference-receiver-setup", fmt.Sprintf("%v; case %s", err, c))
	}
	opener, err := receiverSetup(cs, c.Mode, skR, enc, c.Info, c.Psk, c.PskID, pkS)
	if err != nil {
		return rep("C07/setup/"+kn+"/"+modeName[c.Mode]+"/receiver-error", fmt.Sprintf("%v; case %s", err, c))
	}
	if !compareCtx(rep, "C07/key-schedule/"+modeName[c.Mode]+"/receiver", mb(opener), 1, rR, c) {
		return false
	}
	// a second circl receiver, fed with what the reference sender produced
	rS2enc, rS2, _ := rhpke.SetupS(c.S, c.Mode, rpkR, c.Info, c.Psk, c.PskID, rskS, c.IkmE)
	opener2, err := receiverSetup(cs, c.Mode, skR, rS2enc, c.Info, c.Psk, c.PskID, pkS)
	if err != nil {
		return rep("C07/cross/"+kn+"/"+modeName[c.Mode]+"/circl-receiver-setup", fmt.Sprintf("%v; case %s", err, c))
	}

	// ---- messages
	var firstCT, firstAAD []byte
	for i, m := range c.Msgs {
		pt, aad := m[0], m[1]
		vlib.Class(sub, fmt.Sprintf("ptlen=%s", lenClass(len(pt))))
		ct, err := sealer.Seal(pt, aad)
		ct = take(ct)
		if err != nil {
			return rep("C07/seal/error", fmt.Sprintf("message %d: %v; case %s", i, err, c))
		}
		want, _ := rS.Seal(aad, pt)
		if !bytes.Equal(ct, want) {
			return rep(fmt.Sprintf("C07/seal/aead%d/ciphertext", c.S.AEAD), fmt.Sprintf("message %d: circl %s, RFC 9180 %s; case %s", i, vlib.Hex(ct), vlib.Hex(want), c))
		}
		got, err := opener.Open(ct, aad)
		got = take(got)
		if err != nil || !bytes.Equal(got, pt) {
			return rep("C07/open/roundtrip", fmt.Sprintf("message %d: err=%v; case %s", i, err, c))
		}
		got, err = rR.Open(aad, ct)
		if err != nil || !bytes.Equal(got, pt) {
			return rep("C07/cross/reference-opens-circl", fmt.Sprintf("message %d: err=%v; case %s", i, err, c))
		}
		ct2, _ := rS2.Seal(aad, pt)
		got, err = opener2.Open(ct2, aad)
		got = take(got)
		if err != nil || !bytes.Equal(got, pt) {
			return rep("C07/cross/circl-opens-reference", fmt.Sprintf("message %d: err=%v; case %s", i, err, c))
		}
		if i == 0 {
			firstCT, firstAAD = ct, aad
		}
	}
	// ---- exports
	for i, e := range c.Exps {
		vlib.Class(sub, "exportL="+exportClass(e.L, c.S.KDF))
		want := rS.Export(e.Ctx, e.L)
		for side, cx := range []hpke.Context{sealer, opener, opener2} {
			got := take(cx.Export(e.Ctx, uint(e.L)))
			if !bytes.Equal(got, want) {
				return rep("C07/export/value", fmt.Sprintf("export %d (ctx %s, L=%d) on %s: circl %s, RFC 9180 %s; case %s", i, hx(e.Ctx), e.L,
					[]string{"sealer", "opener", "opener(ref enc)"}[side], vlib.Hex(got), vlib.Hex(want), c))
			}
		}
	}
	// ---- restored contexts: copies of both contexts continued at a structured sequence number through the documented
	// serialisation; every ciphertext must be AEAD.Seal(key, base_nonce XOR I2OSP(seq, Nn), pt, aad) as the reference computes it
	if c.Seq != nil {
		fS, e1 := parseCtx(mb(sealer))
		fO, e2 := parseCtx(mb(opener))
		if e1 != nil || e2 != nil {
			return rep("C07/restored/marshal-layout", fmt.Sprintf("%v %v; case %s", e1, e2, c))
		}
		fS.seq, fO.seq = append([]byte{}, c.Seq...), append([]byte{}, c.Seq...)
		sl2, e1 := hpke.UnmarshalSealer(fS.marshal())
		op2, e2 := hpke.UnmarshalOpener(fO.marshal())
		if e1 != nil || e2 != nil {
			return rep("C07/restored/unmarshal-error", fmt.Sprintf("%v %v; case %s", e1, e2, c))
		}
		rS3, rR3 := *rS, *rR
		rS3.Seq, rR3.Seq = new(big.Int).SetBytes(c.Seq), new(big.Int).SetBytes(c.Seq)
		vlib.Class(sub, "restored-seq="+seqClass(rS3.Seq))
		for i := 0; i < 3; i++ {
			pt, aad := []byte(fmt.Sprintf("restored %d", i)), []byte{byte(i)}
			if i < len(c.Msgs) {
				pt, aad = c.Msgs[i][0], c.Msgs[i][1]
			}
			want, werr := rS3.Seal(aad, pt)
			ct, err := sl2.Seal(pt, aad)
			ct = take(ct)
			if (err == nil) != (werr == nil) {
				return rep("C07/restored/seal-verdict", fmt.Sprintf("message %d after restoring at seq %x: circl err=%v, RFC 9180 err=%v; case %s", i, c.Seq, err, werr, c))
			}
			if err != nil {
				vlib.Class(sub, "restored:message-limit-reached")
				break
			}
			if !bytes.Equal(ct, want) {
				return rep(fmt.Sprintf("C07/restored/aead%d/ciphertext", c.S.AEAD), fmt.Sprintf("message %d after restoring at seq %x: circl %s, RFC 9180 (nonce = base_nonce XOR I2OSP(seq, Nn)) %s; case %s", i, c.Seq, vlib.Hex(ct), vlib.Hex(want), c))
			}
			got, err := op2.Open(ct, aad)
			if err != nil || !bytes.Equal(got, pt) {
				return rep("C07/restored/open", fmt.Sprintf("message %d after restoring at seq %x: err=%v; case %s", i, c.Seq, err, c))
			}
			got, err = rR3.Open(aad, ct)
			if err != nil || !bytes.Equal(got, pt) {
				return rep("C07/restored/reference-opens", fmt.Sprintf("message %d after restoring at seq %x: err=%v; case %s", i, c.Seq, err, c))
			}
		}
	}
	honestExport := take(sealer.Export(negExportCtx, negExportLen))
	if !bytes.Equal(honestExport, rS.Export(negExportCtx, negExportLen)) {
		return rep("C07/export/value", fmt.Sprintf("fixed export differs; case %s", c))
	}

	// ---- negative relations: a receiver that differs in exactly one parameter
	if firstCT == nil {
		var err error
		firstAAD = []byte("aad")
		firstCT, err = sealer.Seal([]byte("C07"), firstAAD)
		if err != nil {
			return rep("C07/seal/error", fmt.Sprintf("%v; case %s", err, c))
		}
	}
	for _, neg := range c.Negs {
		nMode, nSkR, nrSkR := c.Mode, skR, rskR
		nInfo, nPsk, nPskID := c.Info, c.Psk, c.PskID
		nPkS, nrPkS := pkS, rpkS
		nEnc := enc
		switch neg {
		case "skR":
			nSkR, nrSkR = skO, rskO
		case "info":
			nInfo = alter(c.Info, c.NegSel)
		case "psk":
			nPsk = alter(c.Psk, c.NegSel)
		case "psk_id":
			nPskID = alter(c.PskID, c.NegSel)
		case "pkS":
			nPkS, nrPkS = pkO, rpkO
		case "enc":
			// one flipped bit of the encapsulated key; what the receiver must derive from it (an error, or the
			// key schedule of another shared secret) is decided by the reference, not by a rule of thumb
			nEnc = append([]byte{}, enc...)
			b := ((c.EncBit % (8 * len(nEnc))) + 8*len(nEnc)) % (8 * len(nEnc))
			nEnc[b/8] ^= 1 << (b % 8)
		case "mode":
			var cand []int
			switch c.Mode {
			case rhpke.ModeBase:
				cand = []int{rhpke.ModePSK, rhpke.ModeAuth}
			case rhpke.ModePSK:
				cand = []int{rhpke.ModeBase, rhpke.ModeAuthPSK}
			case rhpke.ModeAuth:
				cand = []int{rhpke.ModeBase, rhpke.ModeAuthPSK}
			default:
				cand = []int{rhpke.ModePSK, rhpke.ModeAuth}
			}
			nMode = cand[int(c.NegSel)%2]
			if isAuth(nMode) && !k.Auth {
				nMode = cand[0]
			}
			// parameters the other mode needs and the sender's mode does not have
			if isAuth(nMode) && nPkS == nil {
				nPkS, nrPkS = pkO, rpkO
			}
			if isPSK(nMode) && len(nPsk) == 0 {
				nPsk, nPskID = bytes.Repeat([]byte{0x5a}, 32), []byte("C07 psk id")
			}
			if !isPSK(nMode) {
				nPsk, nPskID = nil, nil
			}
			if !isAuth(nMode) {
				nPkS, nrPkS = nil, nil
			}
		default:
			panic("unknown negative " + neg)
		}
		vlib.Class(sub, "neg="+neg)
		desc := fmt.Sprintf("receiver differs in %s", neg)
		if neg == "mode" {
			desc += "=" + modeName[nMode]
		}
		bad, err := receiverSetup(cs, nMode, nSkR, nEnc, nInfo, nPsk, nPskID, nPkS)
		rbad, rerr := rhpke.SetupR(c.S, nMode, nEnc, nrSkR, nInfo, nPsk, nPskID, nrPkS)
		if (err == nil) != (rerr == nil) {
			return rep("C07/negative/"+neg+"/setup-verdict", fmt.Sprintf("%s: circl err=%v, reference err=%v; case %s", desc, err, rerr, c))
		}
		if err != nil {
			vlib.Class(sub, "neg-setup-error")
			vlib.NonTrivial(sub, "negative:"+neg, append(c.hashParts(), []byte(neg))...)
			continue
		}
		// the mismatched receiver still computes what the RFC says for its own inputs
		if !compareCtx(rep, "C07/negative/"+neg+"/key-schedule", mb(bad), 1, rbad, c) {
			return false
		}
		if pt, err := bad.Open(firstCT, firstAAD); err == nil {
			return rep("C07/negative/"+neg+"/opens", fmt.Sprintf("%s but opened the sender's first ciphertext (pt %x); case %s", desc, pt, c))
		}
		if bytes.Equal(bad.Export(negExportCtx, negExportLen), honestExport) {
			return rep("C07/negative/"+neg+"/same-export", fmt.Sprintf("%s but exports the sender's value; case %s", desc, c))
		}
		vlib.NonTrivial(sub, "negative:"+neg, append(c.hashParts(), []byte(neg))...)
	}
	if c.Mode != rhpke.ModeBase {
		vlib.NonTrivial(sub, "mode-not-base", c.hashParts()...)
	}
	vlib.Sample(sub, modeName[c.Mode], c.String())
	return true
}

// clampX normalises a serialised X25519 / X448 private key (RFC 9180 section 7.1.2 lets SerializePrivateKey clamp;
// the RFC's own vectors list the unclamped DeriveKeyPair output): both spellings of one key compare equal here.
func clampX(kemID uint16, sk []byte) []byte {
	o := append([]byte{}, sk...)
	switch kemID {
	case rhpke.KEMX25519, rhpke.KEMXyber:
		if len(o) >= 32 {
			o[0] &= 248
			o[31] &= 127
			o[31] |= 64
		}
	case rhpke.KEMX448:
		if len(o) >= 56 {
			o[0] &= 252
			o[55] |= 128
		}
	}
	return o
}

func seqClass(v *big.Int) string {
	n := v.BitLen()
	switch {
	case n <= 1:
		return "0..1"
	case n <= 32:
		return "<2^32"
	case n == 33:
		return "2^32.."
	case n <= 64:
		return "<2^64"
	case n == 65:
		return "2^64.."
	case n <= 95:
		return "<2^95"
	}
	return ">=2^95"
}

func lenClass(n int) string {
	switch {
	case n == 0, n == 1, n == 15, n == 16, n == 17, n == 1000:
		return fmt.Sprint(n)
	}
	return "other"
}

func exportClass(L int, kdf uint16) string {
	nh := rhpke.Nh(kdf)
	switch {
	case L == 0:
		return "0"
	case L == 1:
		return "1"
	case L == nh:
		return "Nh"
	case L == 255*nh:
		return "255*Nh"
	}
	return "other"
}

// ---------------------------------------------------------------------------
// generators

func drawOpt(t *rapid.T, label string) []byte {
	switch rapid.SampledFrom([]string{"nil", "empty", "short", "short", "long"}).Draw(t, label+".class") {
	case "nil":
		return nil
	case "empty":
		return []byte{}
	case "short":
		return vlib.Bytes(t, 1, 40, label)
	}
	b := make([]byte, rapid.SampledFrom([]int{255, 256, 1000}).Draw(t, label+".len"))
	vlib.FillRandom(t, b, label)
	return b
}

func drawNonEmpty(t *rapid.T, label string) []byte {
	n := rapid.SampledFrom([]int{1, 16, 32, 33, 64, 300}).Draw(t, label+".len")
	return vlib.EdgeBytes(t, n, label)
}

var msgLens = []int{0, 1, 15, 16, 17, 1000}

func drawCase(t *rapid.T, kemID uint16) *hcase {
	sch := hpke.KEM(kemID).Scheme()
	c := &hcase{Src: "rapid"}
	c.S = rhpke.Suite{KEM: kemID, KDF: rapid.SampledFrom(kdfIDs).Draw(t, "kdf"), AEAD: rapid.SampledFrom(aeadIDs).Draw(t, "aead")}
	c.Mode = rapid.IntRange(0, 3).Draw(t, "mode")
	c.IkmR = vlib.EdgeBytes(t, sch.SeedSize(), "ikmR")
	c.IkmE = vlib.EdgeBytes(t, sch.EncapsulationSeedSize(), "ikmE")
	c.IkmO = vlib.EdgeBytes(t, sch.SeedSize(), "ikmO")
	if isAuth(c.Mode) {
		c.IkmS = vlib.EdgeBytes(t, sch.SeedSize(), "ikmS")
	}
	c.Info = drawOpt(t, "info")
	if isPSK(c.Mode) {
		c.Psk = drawNonEmpty(t, "psk")
		c.PskID = drawNonEmpty(t, "psk_id")
	}
	nm := rapid.IntRange(1, 3).Draw(t, "nmsg")
	for i := 0; i < nm; i++ {
		var m [2][]byte
		for j := 0; j < 2; j++ {
			n := rapid.SampledFrom(msgLens).Draw(t, "len")
			if rapid.IntRange(0, 4).Draw(t, "rndlen") == 0 {
				n = rapid.IntRange(0, 300).Draw(t, "len2")
			}
			m[j] = make([]byte, n)
			if n > 0 {
				vlib.FillRandom(t, m[j], "m")
			}
		}
		c.Msgs = append(c.Msgs, m)
	}
	nh := rhpke.Nh(c.S.KDF)
	ne := rapid.IntRange(1, 3).Draw(t, "nexp")
	for i := 0; i < ne; i++ {
		L := rapid.SampledFrom([]int{0, 1, nh, 255 * nh, -1, -1}).Draw(t, "L")
		if L < 0 {
			L = rapid.IntRange(2, 255*nh-1).Draw(t, "L2")
		}
		c.Exps = append(c.Exps, expReq{Ctx: drawOpt(t, "expctx"), L: L})
	}
	avail := negKinds(c.Mode)
	c.Negs = []string{rapid.SampledFrom(avail).Draw(t, "neg")}
	if rapid.Bool().Draw(t, "twoNegs") {
		c.Negs = append(c.Negs, rapid.SampledFrom(avail).Draw(t, "neg2"))
	}
	c.NegSel = rapid.Byte().Draw(t, "negsel")
	nenc := 8 * rhpke.KEMByID(kemID).Nenc
	switch rapid.IntRange(0, 3).Draw(t, "encbitKind") {
	case 0:
		c.EncBit = nenc - 1 // top bit of the last byte
	case 1:
		c.EncBit = rapid.SampledFrom([]int{0, 7, 8, 255, 256, nenc - 8, nenc - 256, nenc - 249}).Draw(t, "encbitEdge")
		if c.EncBit < 0 {
			c.EncBit = 0
		}
	default:
		c.EncBit = rapid.IntRange(0, nenc-1).Draw(t, "encbit")
	}
	if rapid.IntRange(0, 3).Draw(t, "seqKind") == 0 {
		c.Seq = make([]byte, 12)
		vlib.FillRandom(t, c.Seq, "seq")
		if bytes.Equal(c.Seq, bytes.Repeat([]byte{0xff}, 12)) {
			c.Seq[11] = 0xfe
		}
	} else {
		c.Seq = rapid.SampledFrom(structuredSeqs()).Draw(t, "seq").FillBytes(make([]byte, 12))
	}
	c.Rd = rapid.SampledFrom([]string{"whole", "one", "half", "chunks"}).Draw(t, "reader")
	c.RdSeed = uint64(rapid.Uint16().Draw(t, "readerSeed"))
	fixOther(c)
	return c
}

func negKinds(mode int) []string {
	k := []string{"skR", "info", "mode", "enc"}
	if isPSK(mode) {
		k = append(k, "psk", "psk_id")
	}
	if isAuth(mode) {
		k = append(k, "pkS")
	}
	return k
}

// fixOther makes sure that the "other" key pair differs from the receiver's and the sender's.
func fixOther(c *hcase) {
	for bytes.Equal(c.IkmO, c.IkmR) || bytes.Equal(c.IkmO, c.IkmS) {
		c.IkmO[0]++
	}
}

// sweepCase builds the deterministic case number j of one suite x mode cell.
func sweepCase(s rhpke.Suite, mode int, j int) *hcase {
	sch := hpke.KEM(s.KEM).Scheme()
	c := &hcase{S: s, Mode: mode, Src: "sweep"}
	base := uint64(vlib.Seed)<<40 ^ uint64(s.KEM)<<24 ^ uint64(s.KDF)<<20 ^ uint64(s.AEAD)<<16 ^ uint64(mode)<<12 ^ uint64(j)
	n := uint64(0)
	fill := func(sz int) []byte {
		b := make([]byte, sz)
		n++
		vlib.ExpandInto(b, base*131+n)
		return b
	}
	c.IkmR, c.IkmE, c.IkmO = fill(sch.SeedSize()), fill(sch.EncapsulationSeedSize()), fill(sch.SeedSize())
	if isAuth(mode) {
		c.IkmS = fill(sch.SeedSize())
	}
	sel := fill(8)
	switch sel[0] % 4 {
	case 0:
		c.Info = nil
	case 1:
		c.Info = []byte{}
	case 2:
		c.Info = fill(1 + int(sel[1])%40)
	default:
		c.Info = fill(1000)
	}
	if isPSK(mode) {
		c.Psk = fill([]int{1, 32, 64, 300}[sel[2]%4])
		c.PskID = fill([]int{1, 16, 300}[sel[3]%3])
	}
	for _, l := range [][2]int{{msgLens[int(sel[4])%6], msgLens[int(sel[5])%6]}, {msgLens[(int(sel[4])+j+1)%6], 0}} {
		c.Msgs = append(c.Msgs, [2][]byte{fill(l[0]), fill(l[1])})
	}
	nh := rhpke.Nh(s.KDF)
	c.Exps = []expReq{{Ctx: fill(int(sel[6]) % 64), L: []int{0, 1, nh, 255 * nh}[(int(sel[7])+j)%4]}, {Ctx: nil, L: nh}}
	c.Negs = negKinds(mode)
	c.NegSel = sel[1]
	c.EncBit = 8*rhpke.KEMByID(s.KEM).Nenc - 1 - (int(sel[2])%3)*(int(sel[3])+1)
	c.Rd = []string{"whole", "one", "half", "chunks"}[(int(sel[5])+j+mode)%4]
	c.RdSeed = uint64(sel[6])
	sq := structuredSeqs()
	c.Seq = sq[(int(sel[7])*7+int(s.AEAD)*13+mode*5+j)%len(sq)].FillBytes(make([]byte, 12))
	fixOther(c)
	return c
}

// ---------------------------------------------------------------------------
// tests

var kemCost = map[uint16]int{rhpke.KEMP256: 1, rhpke.KEMP384: 3, rhpke.KEMP521: 5, rhpke.KEMX25519: 1, rhpke.KEMX448: 6, rhpke.KEMXyber: 3, rhpke.KEMXWing: 3}

// TestC07Grid: rapid search over (kdf, aead, mode, keys, info, psk, psk_id, messages, exports, negative relation) per KEM.
func TestC07Grid(t *testing.T) {
	defer vlib.Done()
	selftest(t)
	for _, id := range rhpke.KEMIDs() {
		id := id
		t.Run(kemName(id), func(t *testing.T) {
			n := vlib.N(400, 3000) / kemCost[id]
			vlib.Check(t, n, func(t *rapid.T) {
				c := drawCase(t, id)
				evalCase(c, func(key, detail string) bool { return vlib.Report(t, key, detail) })
			})
		})
	}
}

// TestC07Cells: every KEM x KDF x AEAD x mode cell (252) with deterministic pseudo-random inputs and all
// negative relations that apply to the mode.
func TestC07Cells(t *testing.T) {
	defer vlib.Done()
	selftest(t)
	per := vlib.N(1, 4)
	idx := 0
	for _, id := range rhpke.KEMIDs() {
		for _, kdf := range kdfIDs {
			for _, aead := range aeadIDs {
				for mode := 0; mode < 4; mode++ {
					for j := 0; j < per; j++ {
						idx++
						if idx%vlib.NShards != vlib.Shard {
							continue
						}
						c := sweepCase(rhpke.Suite{KEM: id, KDF: kdf, AEAD: aead}, mode, j)
						ok := evalCase(c, func(key, detail string) bool { return vlib.ReportDirect(t, key, detail, c.replay()) })
						if !ok {
							return
						}
					}
				}
			}
		}
	}
	if vlib.Shard == 0 {
		vlib.Exhaustive("C07 KEM x KDF x AEAD x mode cells", 252, fmt.Sprintf("%d pseudo-random case(s) per cell, all applicable negative relations; all shards together", per))
	}
}

// TestC07Alt: a reduced grid for the KEMs whose arithmetic is circl's own (X25519, X448, and the Kyber / ML-KEM
// polynomial code of the two hybrids; the NIST curves are crypto/ecdh) run under the other arithmetic back-ends
// (binary c07alt: purego build, GODEBUG cpu.avx2 / cpu.bmi2 / cpu.adx off). The RFC values do not depend on the
// back-end; the reference is the same.
func TestC07Alt(t *testing.T) {
	defer vlib.Done()
	if vlib.Config == "default" {
		t.Skip("the default configuration is covered by TestC07Grid")
	}
	selftest(t)
	for _, id := range []uint16{rhpke.KEMX25519, rhpke.KEMX448, rhpke.KEMXyber, rhpke.KEMXWing, rhpke.KEMP256} {
		id := id
		t.Run(kemName(id), func(t *testing.T) {
			n := vlib.N(60, 600) / kemCost[id]
			vlib.Check(t, n, func(t *rapid.T) {
				c := drawCase(t, id)
				c.Src = "rapid/" + vlib.Config
				evalCase(c, func(key, detail string) bool { return vlib.Report(t, key, detail) })
			})
		})
	}
}
