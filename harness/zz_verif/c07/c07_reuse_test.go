//go:build verif

package c07

import (
	"bytes"
	"fmt"
	"testing"

	"github.com/cloudflare/circl/hpke"
	"github.com/cloudflare/circl/kem"
	rhpke "github.com/cloudflare/circl/zz_verif/ref/hpke"
	"github.com/cloudflare/circl/zz_verif/vlib"
	"pgregory.net/rapid"
)

// ---------------------------------------------------------------------------
// Re-used objects: a sequence of different Setup* calls on ONE Sender and ONE Receiver.
//
// Every call is one (mode, inputs) tuple of the property's domain, so each must give the RFC's outputs for its own
// inputs no matter what was set up on the object before. The only tolerated deviation: a call of a mode without PSK
// on an object that still holds the PSK of an earlier call may fail (that is RFC 9180 VerifyPSKInputs "PSK input
// provided when not needed" applied to the object's state) — it must not succeed with other values.

type reuseStep struct {
	Mode       int
	IkmE       []byte
	Psk, PskID []byte
	AltS       bool // use the second sender key pair
	Rd         string
}

type reuseCase struct {
	S                 rhpke.Suite
	IkmR, IkmS, IkmS2 []byte
	Info              []byte
	Steps             []reuseStep
	// Arena: every []byte argument of every step (enc, psk, psk_id, pt, aad, ct) lives in one caller-owned arena; the
	// regions are overwritten in place after each call and the same backing arrays are handed to the same objects
	// again with the next step's contents (a caller re-using its receive / key buffers).
	Arena bool
}

// arena is one caller-owned buffer carved into named regions separated by guard bytes. Slices handed out keep the
// capacity up to the end of the arena, so a callee that appends to an argument clobbers the neighbours and is noticed.
type arena struct {
	buf  []byte
	off  map[string]int
	size map[string]int
	snap []byte
}

func newArena(sizes map[string]int, order []string) *arena {
	a := &arena{off: map[string]int{}, size: sizes}
	n := 8
	for _, name := range order {
		a.off[name] = n
		n += sizes[name] + 8
	}
	a.buf = bytes.Repeat([]byte{0xa5}, n)
	return a
}

// set writes data into its region and returns the arena slice holding it (nil stays nil).
func (a *arena) set(name string, data []byte) []byte {
	if data == nil {
		return nil
	}
	if len(data) > a.size[name] {
		panic("arena region too small: " + name)
	}
	o := a.off[name]
	copy(a.buf[o:], data)
	return a.buf[o : o+len(data)]
}

func (a *arena) snapshot()    { a.snap = append(a.snap[:0], a.buf...) }
func (a *arena) intact() bool { return bytes.Equal(a.snap, a.buf) }

// scribble overwrites every byte of the arena (what a caller does when it re-uses or wipes its buffers).
func (a *arena) scribble(salt byte) {
	for i := range a.buf {
		a.buf[i] = a.buf[i]*3 + salt + byte(i)
	}
}

func (c *reuseCase) String() string {
	s := fmt.Sprintf("kem=%#04x kdf=%d aead=%d ikmR=%x ikmS=%x ikmS2=%x info=%s arena=%v steps:", c.S.KEM, c.S.KDF, c.S.AEAD, c.IkmR, c.IkmS, c.IkmS2, hx(c.Info), c.Arena)
	for _, st := range c.Steps {
		s += fmt.Sprintf(" [%s ikmE=%x psk=%s psk_id=%s altS=%v reader=%s]", modeName[st.Mode], st.IkmE, hx(st.Psk), hx(st.PskID), st.AltS, st.Rd)
	}
	return s
}

func (c *reuseCase) hashParts() [][]byte {
	p := [][]byte{{byte(c.S.KEM >> 8), byte(c.S.KEM), byte(c.S.KDF), byte(c.S.AEAD), map[bool]byte{true: 1}[c.Arena]}, c.IkmR, c.IkmS, c.IkmS2, c.Info}
	for _, st := range c.Steps {
		p = append(p, []byte{byte(st.Mode), map[bool]byte{true: 1}[st.AltS]}, st.IkmE, st.Psk, st.PskID, []byte(st.Rd))
	}
	return p
}

func evalReuse(c *reuseCase, rep reporter) bool {
	const sub = "reuse"
	k := rhpke.KEMByID(c.S.KEM)
	kn := kemName(c.S.KEM)
	sch := hpke.KEM(c.S.KEM).Scheme()
	cs := circlSuite(c.S)
	vlib.Eval(sub)
	pkR, skR := sch.DeriveKeyPair(c.IkmR)
	rskR, rpkR, _ := k.DeriveKeyPair(c.IkmR)
	var pkS, skS [2]interface{}
	var rskS, rpkS [2][]byte
	if k.Auth {
		for i, ikm := range [][]byte{c.IkmS, c.IkmS2} {
			p, s := sch.DeriveKeyPair(ikm)
			pkS[i], skS[i] = p, s
			rskS[i], rpkS[i], _ = k.DeriveKeyPair(ikm)
		}
	}
	snd, err := cs.NewSender(pkR, c.Info)
	if err != nil {
		return rep("C07/reuse/new-sender", err.Error())
	}
	rcv, err := cs.NewReceiver(skR, c.Info)
	if err != nil {
		return rep("C07/reuse/new-receiver", err.Error())
	}
	prev := "fresh"
	pskLeft := false
	var ar *arena
	if c.Arena {
		vlib.Class(sub, "caller-buffers=one-arena-reused-in-place")
		ar = newArena(map[string]int{"enc": k.Nenc, "psk": 400, "id": 400, "pt": 64, "aad": 16, "ct": 96}, []string{"psk", "enc", "id", "aad", "pt", "ct"})
	} else {
		vlib.Class(sub, "caller-buffers=fresh-slices")
	}
	distinctModes := map[int]bool{}
	for i, st := range c.Steps {
		if isAuth(st.Mode) && !k.Auth {
			continue
		}
		distinctModes[st.Mode] = true
		which := 0
		if st.AltS {
			which = 1
		}
		var cSkS kem.PrivateKey
		var cPkS kem.PublicKey
		if isAuth(st.Mode) {
			cSkS, cPkS = skS[which].(kem.PrivateKey), pkS[which].(kem.PublicKey)
		}
		renc, rS, err := rhpke.SetupS(c.S, st.Mode, rpkR, c.Info, st.Psk, st.PskID, rskS[which], st.IkmE)
		if err != nil {
			panic(fmt.Sprintf("reference SetupS: %v (%s)", err, c))
		}
		rR, err := rhpke.SetupR(c.S, st.Mode, renc, rskR, c.Info, st.Psk, st.PskID, rpkS[which])
		if err != nil {
			panic(fmt.Sprintf("reference SetupR: %v (%s)", err, c))
		}
		trans := prev + "-then-" + modeName[st.Mode]
		vlib.Class(sub, "transition="+trans)
		mayFail := pskLeft && !isPSK(st.Mode)
		encIn, pskIn, idIn := renc, st.Psk, st.PskID
		if ar != nil {
			encIn, pskIn, idIn = ar.set("enc", renc), ar.set("psk", st.Psk), ar.set("id", st.PskID)
			ar.snapshot()
		}
		// ---- the one Sender
		var enc []byte
		var sl hpke.Sealer
		rd := newReader(st.IkmE, st.Rd, uint64(i)+7)
		p, stk := vlib.Catch(func() {
			switch st.Mode {
			case rhpke.ModeBase:
				enc, sl, err = snd.Setup(rd)
			case rhpke.ModePSK:
				enc, sl, err = snd.SetupPSK(rd, pskIn, idIn)
			case rhpke.ModeAuth:
				enc, sl, err = snd.SetupAuth(rd, cSkS)
			default:
				enc, sl, err = snd.SetupAuthPSK(rd, cSkS, pskIn, idIn)
			}
		})
		switch {
		case p != nil:
			return rep("C07/reuse/sender/"+trans+"/panic", fmt.Sprintf("step %d: %v\n%s; case %s", i, p, stk, c))
		case err != nil && mayFail:
			vlib.Class(sub, "leftover-psk:sender-rejects")
			sl = nil
		case err != nil:
			return rep("C07/reuse/sender/"+trans+"/error", fmt.Sprintf("step %d on a re-used Sender (%s, %s): %v; case %s", i, kn, trans, err, c))
		default:
			enc = take(enc)
			if !bytes.Equal(enc, renc) {
				return rep("C07/reuse/sender/"+trans+"/enc", fmt.Sprintf("step %d on a re-used Sender (%s): enc %s, RFC 9180 %s; case %s", i, kn, vlib.Hex(enc), vlib.Hex(renc), c))
			}
			hc := &hcase{S: c.S, Mode: st.Mode}
			if !compareCtx(rep, "C07/reuse/sender/"+trans, mb(sl), 0, rS, hc) {
				vlib.Sample(sub, "mismatch", c.String())
				return false
			}
		}
		if ar != nil && !ar.intact() {
			return rep("C07/reuse/sender/caller-buffer-modified", fmt.Sprintf("step %d: Sender.Setup* wrote into its arguments or beyond them; case %s", i, c))
		}
		// ---- the one Receiver (fed with the reference's enc, so that it is evaluated even if the sender failed)
		var op hpke.Opener
		p, stk = vlib.Catch(func() {
			switch st.Mode {
			case rhpke.ModeBase:
				op, err = rcv.Setup(encIn)
			case rhpke.ModePSK:
				op, err = rcv.SetupPSK(encIn, pskIn, idIn)
			case rhpke.ModeAuth:
				op, err = rcv.SetupAuth(encIn, cPkS)
			default:
				op, err = rcv.SetupAuthPSK(encIn, pskIn, idIn, cPkS)
			}
		})
		switch {
		case p != nil:
			return rep("C07/reuse/receiver/"+trans+"/panic", fmt.Sprintf("step %d: %v\n%s; case %s", i, p, stk, c))
		case err != nil && mayFail:
			vlib.Class(sub, "leftover-psk:receiver-rejects")
			op = nil
		case err != nil:
			return rep("C07/reuse/receiver/"+trans+"/error", fmt.Sprintf("step %d on a re-used Receiver (%s, %s): %v; case %s", i, kn, trans, err, c))
		default:
			hc := &hcase{S: c.S, Mode: st.Mode}
			if !compareCtx(rep, "C07/reuse/receiver/"+trans, mb(op), 1, rR, hc) {
				vlib.Sample(sub, "mismatch", c.String())
				return false
			}
		}
		if ar != nil {
			if !ar.intact() {
				return rep("C07/reuse/receiver/caller-buffer-modified", fmt.Sprintf("step %d: Receiver.Setup* wrote into its arguments or beyond them; case %s", i, c))
			}
			// the caller wipes / re-uses its buffers: the contexts already handed out must not change
			ar.scribble(byte(i))
			hc := &hcase{S: c.S, Mode: st.Mode}
			if sl != nil && !compareCtx(rep, "C07/reuse/sender/"+trans+"/after-buffer-overwrite", mb(sl), 0, rS, hc) {
				return false
			}
			if op != nil && !compareCtx(rep, "C07/reuse/receiver/"+trans+"/after-buffer-overwrite", mb(op), 1, rR, hc) {
				return false
			}
			if sl != nil && op != nil {
				msg := append([]byte("re-used caller buffers "), byte(i))
				ptIn, aadIn := ar.set("pt", msg), ar.set("aad", []byte{byte(i), 0x55})
				ar.snapshot()
				ct, err := sl.Seal(ptIn, aadIn)
				ct = take(ct)
				if err != nil {
					return rep("C07/reuse/seal-error", fmt.Sprintf("%v; case %s", err, c))
				}
				want, _ := rS.Seal([]byte{byte(i), 0x55}, msg)
				if !bytes.Equal(ct, want) {
					return rep("C07/reuse/"+trans+"/ciphertext", fmt.Sprintf("step %d: ciphertext %x, RFC 9180 %x; case %s", i, ct, want, c))
				}
				if !ar.intact() {
					return rep("C07/reuse/sender/caller-buffer-modified", fmt.Sprintf("step %d: Seal wrote into its arguments or beyond them; case %s", i, c))
				}
				ctIn := ar.set("ct", ct)
				ar.set("pt", bytes.Repeat([]byte{0}, len(msg))) // the plaintext buffer is wiped before the ciphertext is opened
				ar.snapshot()
				pt, err := op.Open(ctIn, aadIn)
				pt = take(pt)
				if err != nil || !bytes.Equal(pt, msg) {
					return rep("C07/reuse/"+trans+"/roundtrip", fmt.Sprintf("step %d: the re-used Receiver does not open what the re-used Sender sealed: %v; case %s", i, err, c))
				}
				if !ar.intact() {
					return rep("C07/reuse/receiver/caller-buffer-modified", fmt.Sprintf("step %d: Open wrote into its arguments or beyond them; case %s", i, c))
				}
				ar.scribble(byte(i) + 77)
				if !bytes.Equal(pt, msg) {
					vlib.Class(sub, "opened-plaintext-aliases-caller-buffer") // allowed, only counted
				}
			}
		}
		if sl != nil && op != nil {
			ct, err := sl.Seal([]byte("re-used objects"), []byte{byte(i)})
			if err != nil {
				return rep("C07/reuse/seal-error", fmt.Sprintf("%v; case %s", err, c))
			}
			if pt, err := op.Open(ct, []byte{byte(i)}); err != nil || string(pt) != "re-used objects" {
				return rep("C07/reuse/"+trans+"/roundtrip", fmt.Sprintf("step %d: the re-used Receiver does not open what the re-used Sender sealed: %v; case %s", i, err, c))
			}
			if !bytes.Equal(sl.Export(negExportCtx, negExportLen), op.Export(negExportCtx, negExportLen)) {
				return rep("C07/reuse/"+trans+"/export", fmt.Sprintf("step %d: exports differ; case %s", i, c))
			}
		}
		if isPSK(st.Mode) {
			pskLeft = true
		}
		prev = modeName[st.Mode]
	}
	if len(distinctModes) > 1 {
		vlib.NonTrivial(sub, "sequence-with-different-modes", c.hashParts()...)
		vlib.Sample(sub, "sequence", c.String())
	}
	return true
}

var readerStyles = []string{"whole", "one", "half", "chunks"}

// TestC07Reuse: drawn sequences of 2..5 Setup* calls on one Sender and one Receiver.
func TestC07Reuse(t *testing.T) {
	defer vlib.Done()
	selftest(t)
	vlib.Check(t, vlib.N(120, 1500), func(t *rapid.T) {
		id := rapid.SampledFrom([]uint16{rhpke.KEMP256, rhpke.KEMX25519, rhpke.KEMP256, rhpke.KEMX25519, rhpke.KEMP256, rhpke.KEMX25519,
			rhpke.KEMP384, rhpke.KEMP521, rhpke.KEMX448, rhpke.KEMXyber, rhpke.KEMXWing}).Draw(t, "kem")
		sch := hpke.KEM(id).Scheme()
		c := &reuseCase{S: rhpke.Suite{KEM: id, KDF: rapid.SampledFrom(kdfIDs).Draw(t, "kdf"), AEAD: rapid.SampledFrom(aeadIDs).Draw(t, "aead")}}
		c.IkmR = vlib.EdgeBytes(t, sch.SeedSize(), "ikmR")
		c.IkmS = vlib.EdgeBytes(t, sch.SeedSize(), "ikmS")
		c.IkmS2 = vlib.EdgeBytes(t, sch.SeedSize(), "ikmS2")
		c.Info = drawOpt(t, "info")
		c.Arena = rapid.IntRange(0, 3).Draw(t, "arena") != 0
		n := rapid.IntRange(2, 5).Draw(t, "nsteps")
		for i := 0; i < n; i++ {
			st := reuseStep{Mode: rapid.IntRange(0, 3).Draw(t, "mode"), IkmE: vlib.EdgeBytes(t, sch.EncapsulationSeedSize(), "ikmE"),
				AltS: rapid.Bool().Draw(t, "altS"), Rd: rapid.SampledFrom(readerStyles).Draw(t, "reader")}
			if isPSK(st.Mode) {
				st.Psk = vlib.EdgeBytes(t, rapid.SampledFrom([]int{32, 33, 64}).Draw(t, "psklen"), "psk")
				st.PskID = drawNonEmpty(t, "psk_id")
			}
			c.Steps = append(c.Steps, st)
		}
		evalReuse(c, func(key, detail string) bool { return vlib.Report(t, key, detail) })
	})
}

// TestC07ReuseAllOrders: every ordered pair of modes (16; 4 for the KEMs without auth modes) on one Sender and one
// Receiver, for every KEM, with deterministic inputs.
func TestC07ReuseAllOrders(t *testing.T) {
	defer vlib.Done()
	selftest(t)
	idx := 0
	for ki, id := range rhpke.KEMIDs() {
		for m1 := 0; m1 < 4; m1++ {
			for m2 := 0; m2 < 4; m2++ {
				idx++
				if idx%vlib.NShards != vlib.Shard {
					continue
				}
				if !rhpke.KEMByID(id).Auth && (isAuth(m1) || isAuth(m2)) {
					continue
				}
				s := rhpke.Suite{KEM: id, KDF: kdfIDs[(ki+m1)%3], AEAD: aeadIDs[(ki+m2)%3]}
				a, b := sweepCase(s, m1, 11), sweepCase(s, m2, 12)
				c := &reuseCase{S: s, IkmR: a.IkmR, IkmS: a.IkmO, IkmS2: b.IkmO, Info: a.Info, Arena: (ki+m1+m2)%3 != 0}
				for j, h := range []*hcase{a, b} {
					st := reuseStep{Mode: h.Mode, IkmE: h.IkmE, AltS: j == 1 && (m1+m2)%2 == 1, Rd: readerStyles[(m1+2*m2+j)%4]}
					if isPSK(h.Mode) {
						st.Psk, st.PskID = append(h.Psk, bytes.Repeat([]byte{byte(j)}, 32)...), h.PskID
					}
					c.Steps = append(c.Steps, st)
				}
				if !evalReuse(c, func(key, detail string) bool {
					return vlib.ReportDirect(t, key, detail, map[string]interface{}{"case": c.String()})
				}) {
					return
				}
			}
		}
	}
	if vlib.Shard == 0 {
		vlib.Exhaustive("C07 ordered pairs of modes on one Sender/Receiver object, per KEM", 5*16+2*4, "deterministic inputs; all shards together")
	}
}

// ---------------------------------------------------------------------------
// Alterations of enc: single-bit flips of honest encapsulated keys. What the receiver must do with enc' (refuse it, or
// derive the key schedule of another shared secret) is taken from the reference run on enc'; in addition a receiver
// set up with enc' != enc must not open the sender's ciphertext nor export the sender's value.

func encBitSet(id uint16, nbits int) []int {
	var idx []int
	add := func(lo, hi int) {
		for i := lo; i < hi; i++ {
			if i >= 0 && i < nbits {
				idx = append(idx, i)
			}
		}
	}
	full := vlib.Thorough()
	switch id {
	case rhpke.KEMP256, rhpke.KEMP384, rhpke.KEMP521, rhpke.KEMX25519:
		full = true
	}
	if full {
		add(0, nbits)
		return idx
	}
	// quick tier, expensive KEMs: first and last two bytes, the whole raw X25519 share of the hybrids, and a
	// pseudo-random sample of the rest
	add(0, 16)
	add(nbits-16, nbits)
	switch id {
	case rhpke.KEMXyber:
		add(16, 256)
	case rhpke.KEMXWing:
		add(nbits-256, nbits-16)
	}
	rb := make([]byte, 2*48)
	vlib.ExpandInto(rb, uint64(vlib.Seed)*4099+uint64(id))
	for i := 0; i < 48; i++ {
		idx = append(idx, (int(rb[2*i])<<8|int(rb[2*i+1]))%nbits)
	}
	return idx
}

func TestC07EncBits(t *testing.T) {
	defer vlib.Done()
	selftest(t)
	for ki, id := range rhpke.KEMIDs() {
		k := rhpke.KEMByID(id)
		kn := kemName(id)
		sub := "enc-bits/" + kn
		mode := rhpke.ModeBase
		if k.Auth && ki%2 == 1 {
			mode = rhpke.ModeAuth
		}
		s := rhpke.Suite{KEM: id, KDF: kdfIDs[ki%3], AEAD: aeadIDs[(ki+1)%3]}
		c := sweepCase(s, mode, 21)
		sch := hpke.KEM(id).Scheme()
		cs := circlSuite(s)
		_, skR := sch.DeriveKeyPair(c.IkmR)
		rskR, rpkR, _ := k.DeriveKeyPair(c.IkmR)
		var pkS kem.PublicKey
		var rskS, rpkS []byte
		if isAuth(mode) {
			pkS, _ = sch.DeriveKeyPair(c.IkmS)
			rskS, rpkS, _ = k.DeriveKeyPair(c.IkmS)
		}
		enc, rS, err := rhpke.SetupS(s, mode, rpkR, c.Info, nil, nil, rskS, c.IkmE)
		if err != nil {
			t.Fatalf("reference SetupS: %v", err)
		}
		aad := []byte("enc bits")
		ct, _ := rS.Seal(aad, []byte("C07"))
		honest := rS.Export(negExportCtx, negExportLen)
		nbits := 8 * len(enc)
		bits := encBitSet(id, nbits)
		if len(bits) == nbits && vlib.Shard == 0 {
			vlib.Exhaustive("C07 single-bit flips of one honest enc: "+kn, int64(nbits), "all shards together")
		}
		for n, b := range bits {
			if n%vlib.NShards != vlib.Shard {
				continue
			}
			vlib.Eval(sub)
			enc2 := append([]byte{}, enc...)
			enc2[b/8] ^= 1 << (b % 8)
			var op hpke.Opener
			var err error
			replay := map[string]interface{}{"kem": kn, "bit": b, "enc": fmt.Sprintf("%x", enc), "case": c.String()}
			if p, st := vlib.Catch(func() { op, err = receiverSetup(cs, mode, skR, enc2, c.Info, nil, nil, pkS) }); p != nil {
				if !vlib.ReportDirect(t, "C07/enc-alteration/"+kn+"/panic", fmt.Sprintf("bit %d: %v\n%s", b, p, st), replay) {
					return
				}
				continue
			}
			rR, rerr := rhpke.SetupR(s, mode, enc2, rskR, c.Info, nil, nil, rpkS)
			if (err == nil) != (rerr == nil) {
				if !vlib.ReportDirect(t, "C07/enc-alteration/"+kn+"/setup-verdict", fmt.Sprintf("enc with bit %d flipped: circl err=%v, reference err=%v", b, err, rerr), replay) {
					return
				}
				continue
			}
			if err != nil {
				vlib.Class(sub, "refused")
				vlib.NonTrivial(sub, "", []byte(kn), []byte{byte(b), byte(b >> 8)})
				continue
			}
			ok := compareCtx(func(key, detail string) bool {
				return vlib.ReportDirect(t, key, fmt.Sprintf("enc with bit %d flipped: %s", b, detail), replay)
			},
				"C07/enc-alteration/"+kn, mb(op), 1, rR, c)
			if !ok {
				return
			}
			if pt, err := op.Open(ct, aad); err == nil {
				if !vlib.ReportDirect(t, "C07/enc-alteration/"+kn+"/opens", fmt.Sprintf("a receiver set up with enc' (bit %d flipped) opens the sender's ciphertext: %x", b, pt), replay) {
					return
				}
				continue
			}
			if bytes.Equal(op.Export(negExportCtx, negExportLen), honest) {
				if !vlib.ReportDirect(t, "C07/enc-alteration/"+kn+"/same-export", fmt.Sprintf("a receiver set up with enc' (bit %d flipped) exports the sender's value", b), replay) {
					return
				}
				continue
			}
			vlib.Class(sub, "other-secret")
			if b == nbits-1 {
				vlib.Class(sub, "top-bit-of-last-byte:other-secret")
			}
			vlib.NonTrivial(sub, "", []byte(kn), []byte{byte(b), byte(b >> 8)})
		}
	}
}
