//go:build verif

package c11

import (
	"fmt"
	"reflect"
	"testing"

	"github.com/cloudflare/circl/hpke"
	"github.com/cloudflare/circl/kem"
	kemschemes "github.com/cloudflare/circl/kem/schemes"
	"github.com/cloudflare/circl/zz_verif/vlib"
	"pgregory.net/rapid"
)

// decodeInPlace calls the in-place decoder of a key object (Unpack([]byte) [error] or
// UnmarshalBinary([]byte) error), found by reflection; ok is false when the type has none.
func decodeInPlace(obj any, b []byte) (ok bool, err error) {
	v := reflect.ValueOf(obj)
	for _, name := range []string{"Unpack", "UnmarshalBinary"} {
		m := v.MethodByName(name)
		if !m.IsValid() || m.Type().NumIn() != 1 || m.Type().In(0) != reflect.TypeOf([]byte(nil)) {
			continue
		}
		defer func() {
			if r := recover(); r != nil {
				ok, err = true, fmt.Errorf("panic: %v", r)
			}
		}()
		out := m.Call([]reflect.Value{reflect.ValueOf(append([]byte{}, b...))})
		if len(out) == 1 && !out[0].IsNil() {
			return true, out[0].Interface().(error)
		}
		return true, nil
	}
	return false, nil
}

func allKEMs() []kem.Scheme {
	l := append([]kem.Scheme{}, kemschemes.All()...)
	for _, k := range []hpke.KEM{hpke.KEM_P256_HKDF_SHA256, hpke.KEM_P384_HKDF_SHA384, hpke.KEM_P521_HKDF_SHA512, hpke.KEM_X25519_HKDF_SHA256, hpke.KEM_X448_HKDF_SHA512, hpke.KEM_X25519_KYBER768_DRAFT00, hpke.KEM_XWING} {
		l = append(l, k.Scheme())
	}
	return l
}

// TestC11SeqKEMPair: the two halves of a derived KEM key pair (and sk.Public()) are independent
// objects: decoding another key into one of them in place does not change what the other does.
func TestC11SeqKEMPair(t *testing.T) {
	defer vlib.Done()
	for _, s := range allKEMs() {
		s := s
		if s.Name() == "FrodoKEM-640-SHAKE" && vlib.Tier != "thorough" && vlib.Shard%2 == 1 {
			continue
		}
		sub := "keypair/kem/" + s.Name()
		t.Run(s.Name(), func(t *testing.T) { kemPair(t, s, sub) })
	}
}

func kemPair(t *testing.T, s kem.Scheme, sub string) {
	{
		vlib.Check(t, vlib.N(8, 60), func(t *rapid.T) {
			seedA := vlib.EdgeBytes(t, s.SeedSize(), "a")
			seedB := vlib.EdgeBytes(t, s.SeedSize(), "b")
			if string(seedA) == string(seedB) {
				seedB[0] ^= 1
				seedB[len(seedB)-1] ^= 1
			}
			eseed := vlib.EdgeBytes(t, s.EncapsulationSeedSize(), "e")
			// expectations from an independent pair derived from the same seed
			pkR, skR := s.DeriveKeyPair(seedA)
			ctR, ssR, err := s.EncapsulateDeterministically(pkR, eseed)
			if err != nil {
				t.Fatalf("harness: encapsulate: %v", err)
			}
			pkRb, skRb := mb(pkR.MarshalBinary()), mb(skR.MarshalBinary())
			pkB, skB := s.DeriveKeyPair(seedB)
			pkBb, skBb := mb(pkB.MarshalBinary()), mb(skB.MarshalBinary())

			// the caller's seed buffer is overwritten right after the derivation: the key pair must not point into it
			seedBuf := append([]byte{}, seedA...)
			pkA, skA := s.DeriveKeyPair(seedBuf)
			for i := range seedBuf {
				seedBuf[i] = ^seedBuf[i]
			}
			if rapid.Bool().Draw(t, "useBefore") {
				_, _ = s.Decapsulate(skA, ctR)
				_, _, _ = s.EncapsulateDeterministically(pkA, eseed)
			}
			vlib.Eval(sub)
			kind := rapid.SampledFrom([]string{"into-pk", "into-sk.Public()", "into-sk"}).Draw(t, "kind")
			switch kind {
			case "into-pk", "into-sk.Public()":
				var obj any = pkA
				if kind == "into-sk.Public()" {
					obj = skA.Public()
				}
				ok, err := decodeInPlace(obj, pkBb)
				if !ok {
					vlib.Class(sub, "no-in-place-decoder")
					return
				}
				if err != nil {
					t.Fatalf("harness: valid public key refused: %v", err)
				}
				ss, err := s.Decapsulate(skA, ctR)
				got := fmt.Sprintf("ss=%x err=%v sk=%x pub=%x", ss, err, mb(skA.MarshalBinary()), mb(skA.Public().MarshalBinary()))
				want := fmt.Sprintf("ss=%x err=%v sk=%x pub=%x", ssR, error(nil), skRb, pkRb)
				if kind == "into-sk.Public()" {
					// only a second call of Public() is asserted to be unaffected when the first result was overwritten
					got = fmt.Sprintf("ss=%x err=%v sk=%x pub=%x", ss, err, mb(skA.MarshalBinary()), mb(skA.Public().MarshalBinary()))
				}
				if got != want {
					vlib.Report(t, "C11/keypair/kem/"+s.Name()+"/private-key-changed-by-decoding-into-its-public-key",
						fmt.Sprintf("seedA=%x seedB=%x eseed=%x: after decoding pk(B) %s the private key of A observes\n %.300s\nexpected\n %.300s", seedA, seedB, eseed, kind, got, want))
					return
				}
				// and the decoded object now is B
				if g := fmt.Sprintf("%x", mb(obj.(kem.PublicKey).MarshalBinary())); g != fmt.Sprintf("%x", pkBb) {
					vlib.Report(t, "C11/keypair/kem/"+s.Name()+"/decode-into-used-public-key",
						fmt.Sprintf("seedA=%x seedB=%x: pk(A) after decoding pk(B) into it marshals to %.120s, expected %.120x", seedA, seedB, g, pkBb))
					return
				}
			case "into-sk":
				ok, err := decodeInPlace(skA, skBb)
				if !ok {
					vlib.Class(sub, "no-in-place-decoder")
					return
				}
				if err != nil {
					t.Fatalf("harness: valid private key refused: %v", err)
				}
				ct, ss, err := s.EncapsulateDeterministically(pkA, eseed)
				got := fmt.Sprintf("ct=%x ss=%x err=%v pub=%x", vlib.Hash64(ct), ss, err, mb(pkA.MarshalBinary()))
				want := fmt.Sprintf("ct=%x ss=%x err=%v pub=%x", vlib.Hash64(ctR), ssR, error(nil), pkRb)
				if got != want {
					vlib.Report(t, "C11/keypair/kem/"+s.Name()+"/public-key-changed-by-decoding-into-its-private-key",
						fmt.Sprintf("seedA=%x seedB=%x eseed=%x: after decoding sk(B) into sk(A) the public key of A observes\n %.300s\nexpected\n %.300s", seedA, seedB, eseed, got, want))
					return
				}
				// sk now behaves as B
				ctB, ssB, _ := s.EncapsulateDeterministically(pkB, eseed)
				ss2, err2 := s.Decapsulate(skA, ctB)
				if err2 != nil || string(ss2) != string(ssB) || fmt.Sprintf("%x", mb(skA.MarshalBinary())) != fmt.Sprintf("%x", skBb) {
					vlib.Report(t, "C11/keypair/kem/"+s.Name()+"/decode-into-used-private-key",
						fmt.Sprintf("seedA=%x seedB=%x eseed=%x: sk(A) after decoding sk(B) into it: decapsulation err=%v, secret ok=%v, marshal ok=%v", seedA, seedB, eseed, err2, string(ss2) == string(ssB), fmt.Sprintf("%x", mb(skA.MarshalBinary())) == fmt.Sprintf("%x", skBb)))
					return
				}
			}
			vlib.NonTrivial(sub, "decode-"+kind, seedA, seedB, eseed)
			vlib.Sample(sub, kind, fmt.Sprintf("%s: pair from seed %x…, decode key of seed %x… %s, then use the other half", s.Name(), seedA[:4], seedB[:4], kind))
		})
	}
}
