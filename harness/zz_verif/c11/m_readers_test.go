//go:build verif

package c11

import (
	"crypto"
	"fmt"
	"io"
	"testing"

	"github.com/cloudflare/circl/abe/cpabe/tkn20"
	"github.com/cloudflare/circl/blindsign/blindrsa"
	"github.com/cloudflare/circl/dh/sidh"
	blsff "github.com/cloudflare/circl/ecc/bls12381/ff"
	"github.com/cloudflare/circl/group"
	"github.com/cloudflare/circl/hpke"
	"github.com/cloudflare/circl/kem/kyber/kyber1024"
	"github.com/cloudflare/circl/kem/kyber/kyber512"
	"github.com/cloudflare/circl/kem/kyber/kyber768"
	"github.com/cloudflare/circl/kem/mlkem/mlkem1024"
	"github.com/cloudflare/circl/kem/mlkem/mlkem512"
	"github.com/cloudflare/circl/kem/mlkem/mlkem768"
	"github.com/cloudflare/circl/kem/sike/sikep434"
	"github.com/cloudflare/circl/kem/xwing"
	"github.com/cloudflare/circl/oprf"
	pke1024 "github.com/cloudflare/circl/pke/kyber/kyber1024"
	pke512 "github.com/cloudflare/circl/pke/kyber/kyber512"
	pke768 "github.com/cloudflare/circl/pke/kyber/kyber768"
	"github.com/cloudflare/circl/secretsharing"
	"github.com/cloudflare/circl/sign/dilithium/mode2"
	"github.com/cloudflare/circl/sign/dilithium/mode3"
	"github.com/cloudflare/circl/sign/dilithium/mode5"
	"github.com/cloudflare/circl/sign/ed25519"
	"github.com/cloudflare/circl/sign/ed448"
	"github.com/cloudflare/circl/sign/eddilithium2"
	"github.com/cloudflare/circl/sign/eddilithium3"
	"github.com/cloudflare/circl/sign/mldsa/mldsa44"
	"github.com/cloudflare/circl/sign/mldsa/mldsa65"
	"github.com/cloudflare/circl/sign/mldsa/mldsa87"
	"github.com/cloudflare/circl/vdaf/prio3/arith/fp128"
	"github.com/cloudflare/circl/vdaf/prio3/arith/fp64"
	"github.com/cloudflare/circl/zk/dl"
	"github.com/cloudflare/circl/zk/dleq"
	"github.com/cloudflare/circl/zz_verif/vlib"
	"pgregory.net/rapid"
)

// chunkReader delivers the bytes of an underlying stream in pieces: every Read returns
// between 1 and len(p) bytes and a nil error, as io.Reader allows (pipes, network
// connections, iotest.OneByteReader / HalfReader behave like this).
type chunkReader struct {
	src   io.Reader
	mode  string // whole | one | half | pattern
	pat   []byte
	calls int
	short int // number of reads that returned fewer bytes than asked for
}

func (c *chunkReader) Read(p []byte) (int, error) {
	if len(p) == 0 {
		return 0, nil
	}
	n := len(p)
	switch c.mode {
	case "one":
		n = 1
	case "half":
		n = (len(p) + 1) / 2
	case "pattern":
		n = 1 + int(c.pat[c.calls%len(c.pat)])%len(p)
	}
	c.calls++
	if n < len(p) {
		c.short++
	}
	return io.ReadFull(c.src, p[:n])
}

type readerAPI struct {
	name string
	cost int
	f    func(r io.Reader) string
}

func hm(b []byte, err error) string {
	if err != nil {
		return "marshal-error:" + err.Error()
	}
	return fmt.Sprintf("%x", vlib.Hash64(b)) + fmt.Sprintf("/%d/%x", len(b), b[:min(8, len(b))])
}

type marshaler interface{ MarshalBinary() ([]byte, error) }

func pair(pk, sk marshaler, err error) string {
	if err != nil {
		return "error:" + err.Error()
	}
	return hm(pk.MarshalBinary()) + " " + hm(sk.MarshalBinary())
}

func readerAPIs() []readerAPI {
	var l []readerAPI
	add := func(name string, cost int, f func(r io.Reader) string) { l = append(l, readerAPI{name, cost, f}) }
	add("ed25519.GenerateKey", 1, func(r io.Reader) string {
		pk, sk, err := ed25519.GenerateKey(r)
		return fmt.Sprintf("%x %x %v", pk, sk, err)
	})
	add("ed448.GenerateKey", 1, func(r io.Reader) string {
		pk, sk, err := ed448.GenerateKey(r)
		return fmt.Sprintf("%x %x %v", pk, sk, err)
	})
	add("eddilithium2.GenerateKey", 1, func(r io.Reader) string { pk, sk, err := eddilithium2.GenerateKey(r); return pair(pk, sk, err) })
	add("eddilithium3.GenerateKey", 1, func(r io.Reader) string { pk, sk, err := eddilithium3.GenerateKey(r); return pair(pk, sk, err) })
	add("mode2.GenerateKey", 1, func(r io.Reader) string { pk, sk, err := mode2.GenerateKey(r); return pair(pk, sk, err) })
	add("mode3.GenerateKey", 1, func(r io.Reader) string { pk, sk, err := mode3.GenerateKey(r); return pair(pk, sk, err) })
	add("mode5.GenerateKey", 1, func(r io.Reader) string { pk, sk, err := mode5.GenerateKey(r); return pair(pk, sk, err) })
	add("mldsa44.GenerateKey+Sign", 1, func(r io.Reader) string {
		pk, sk, err := mldsa44.GenerateKey(r)
		if err != nil {
			return "error:" + err.Error()
		}
		sig, err := sk.Sign(r, []byte("msg"), crypto.Hash(0))
		return pair(pk, sk, nil) + " " + hm(sig, err)
	})
	add("mldsa65.GenerateKey+Sign", 1, func(r io.Reader) string {
		pk, sk, err := mldsa65.GenerateKey(r)
		if err != nil {
			return "error:" + err.Error()
		}
		sig, err := sk.Sign(r, []byte("msg"), crypto.Hash(0))
		return pair(pk, sk, nil) + " " + hm(sig, err)
	})
	add("mldsa87.GenerateKey+Sign", 1, func(r io.Reader) string {
		pk, sk, err := mldsa87.GenerateKey(r)
		if err != nil {
			return "error:" + err.Error()
		}
		sig, err := sk.Sign(r, []byte("msg"), crypto.Hash(0))
		return pair(pk, sk, nil) + " " + hm(sig, err)
	})
	add("mlkem512.GenerateKeyPair", 1, func(r io.Reader) string { pk, sk, err := mlkem512.GenerateKeyPair(r); return pair(pk, sk, err) })
	add("mlkem768.GenerateKeyPair", 1, func(r io.Reader) string { pk, sk, err := mlkem768.GenerateKeyPair(r); return pair(pk, sk, err) })
	add("mlkem1024.GenerateKeyPair", 1, func(r io.Reader) string { pk, sk, err := mlkem1024.GenerateKeyPair(r); return pair(pk, sk, err) })
	add("kyber512.GenerateKeyPair", 1, func(r io.Reader) string { pk, sk, err := kyber512.GenerateKeyPair(r); return pair(pk, sk, err) })
	add("kyber768.GenerateKeyPair", 1, func(r io.Reader) string { pk, sk, err := kyber768.GenerateKeyPair(r); return pair(pk, sk, err) })
	add("kyber1024.GenerateKeyPair", 1, func(r io.Reader) string { pk, sk, err := kyber1024.GenerateKeyPair(r); return pair(pk, sk, err) })
	add("xwing.GenerateKeyPair", 1, func(r io.Reader) string { sk, pk, err := xwing.GenerateKeyPair(r); return pair(pk, sk, err) })
	add("xwing.GenerateKeyPairPacked", 1, func(r io.Reader) string {
		sk, pk, err := xwing.GenerateKeyPairPacked(r)
		return fmt.Sprintf("%x %x %v", vlib.Hash64(sk), vlib.Hash64(pk), err)
	})
	add("sikep434.GenerateKeyPair", 8, func(r io.Reader) string { pk, sk, err := sikep434.GenerateKeyPair(r); return pair(pk, sk, err) })
	pkePack := func(pk interface{ Pack([]byte) }, n int) string {
		b := make([]byte, n)
		pk.Pack(b)
		return fmt.Sprintf("%x", vlib.Hash64(b))
	}
	add("pke/kyber512.GenerateKey", 1, func(r io.Reader) string {
		pk, sk, err := pke512.GenerateKey(r)
		if err != nil {
			return "error:" + err.Error()
		}
		return pkePack(pk, pke512.PublicKeySize) + pkePack(sk, pke512.PrivateKeySize)
	})
	add("pke/kyber768.GenerateKey", 1, func(r io.Reader) string {
		pk, sk, err := pke768.GenerateKey(r)
		if err != nil {
			return "error:" + err.Error()
		}
		return pkePack(pk, pke768.PublicKeySize) + pkePack(sk, pke768.PrivateKeySize)
	})
	add("pke/kyber1024.GenerateKey", 1, func(r io.Reader) string {
		pk, sk, err := pke1024.GenerateKey(r)
		if err != nil {
			return "error:" + err.Error()
		}
		return pkePack(pk, pke1024.PublicKeySize) + pkePack(sk, pke1024.PrivateKeySize)
	})
	for _, g := range []group.Group{group.P256, group.P384, group.P521} {
		g := g
		add("group."+fmt.Sprint(g)+".Random*", 1, func(r io.Reader) string {
			return hm(g.RandomElement(r).MarshalBinary()) + hm(g.RandomScalar(r).MarshalBinary()) + hm(g.RandomNonZeroScalar(r).MarshalBinary())
		})
		add("secretsharing."+fmt.Sprint(g), 1, func(r io.Reader) string {
			ss := secretsharing.New(r, 2, g.NewScalar().SetUint64(7))
			out := ""
			for _, sh := range ss.Share(3) {
				out += hm(sh.Value.MarshalBinary())
			}
			return out
		})
		add("zk/dl+dleq."+fmt.Sprint(g), 2, func(r io.Reader) string {
			k := g.NewScalar().SetUint64(11)
			kG := g.NewElement().MulGen(k)
			p := dl.Prove(g, g.Generator(), kG, k, []byte("id"), []byte("info"), r)
			b := g.HashToElement([]byte("b"), nil)
			kb := g.NewElement().Mul(b, k)
			pr, err := dleq.Prover{Params: dleq.Params{G: g, H: crypto.SHA256, DST: []byte("dst")}}.Prove(k, g.Generator(), kG, b, kb, r)
			if err != nil {
				return "error:" + err.Error()
			}
			return hm(p.V.MarshalBinary()) + hm(p.R.MarshalBinary()) + hm(pr.MarshalBinary())
		})
	}
	add("group.ristretto255.RandomElement", 1, func(r io.Reader) string { return hm(group.Ristretto255.RandomElement(r).MarshalBinary()) })
	for _, su := range []oprf.Suite{oprf.SuiteP256, oprf.SuiteP384, oprf.SuiteP521} {
		su := su
		add("oprf.GenerateKey/"+su.Identifier(), 1, func(r io.Reader) string {
			k, err := oprf.GenerateKey(su, r)
			if err != nil {
				return "error:" + err.Error()
			}
			return hm(k.MarshalBinary())
		})
	}
	add("sidh.Generate", 1, func(r io.Reader) string {
		out := ""
		for _, v := range []sidh.KeyVariant{sidh.KeyVariantSidhA, sidh.KeyVariantSidhB, sidh.KeyVariantSike} {
			prv := sidh.NewPrivateKey(sidh.Fp434, v)
			if err := prv.Generate(r); err != nil {
				return "error:" + err.Error()
			}
			b := make([]byte, prv.Size())
			prv.Export(b)
			out += fmt.Sprintf("%x ", b)
		}
		return out
	})
	add("bls12381/ff.Random", 1, func(r io.Reader) string {
		var a blsff.Fp
		var s blsff.Scalar
		e1 := a.Random(r)
		e2 := s.Random(r)
		return fmt.Sprintf("%v %v %v %v", a, s, e1, e2)
	})
	add("prio3/fp64.Random", 1, func(r io.Reader) string {
		var a fp64.Fp
		err := a.Random(r)
		v := make(fp64.Vec, 5)
		err2 := v.Random(r)
		return hm(a.MarshalBinary()) + hm(v.MarshalBinary()) + fmt.Sprint(err, err2)
	})
	add("prio3/fp128.Random", 1, func(r io.Reader) string {
		var a fp128.Fp
		err := a.Random(r)
		v := make(fp128.Vec, 5)
		err2 := v.Random(r)
		return hm(a.MarshalBinary()) + hm(v.MarshalBinary()) + fmt.Sprint(err, err2)
	})
	for _, k := range []hpke.KEM{hpke.KEM_P256_HKDF_SHA256, hpke.KEM_P384_HKDF_SHA384, hpke.KEM_P521_HKDF_SHA512, hpke.KEM_X25519_HKDF_SHA256, hpke.KEM_X448_HKDF_SHA512, hpke.KEM_X25519_KYBER768_DRAFT00, hpke.KEM_XWING} {
		k := k
		add("hpke.Sender.Setup/"+k.Scheme().Name(), 1, func(r io.Reader) string {
			pk, _ := k.Scheme().DeriveKeyPair(sd(k.Scheme().SeedSize(), 14000))
			snd, err := hpke.NewSuite(k, hpke.KDF_HKDF_SHA256, hpke.AEAD_AES128GCM).NewSender(pk, []byte("info"))
			if err != nil {
				return "error:" + err.Error()
			}
			enc, sealer, err := snd.Setup(r)
			if err != nil {
				return "error:" + err.Error()
			}
			return hm(enc, nil) + fmt.Sprintf("%x", sealer.Export([]byte("x"), 16))
		})
	}
	keys := loadRSAKeys()
	add("blindrsa.Prepare+Blind", 2, func(r io.Reader) string {
		c, err := blindrsa.NewClient(blindrsa.SHA384PSSRandomized, &keys[0].PublicKey)
		if err != nil {
			return "error:" + err.Error()
		}
		m, err := c.Prepare(r, []byte("message"))
		if err != nil {
			return "error:" + err.Error()
		}
		b, _, err := c.Blind(r, m)
		return hm(m, nil) + hm(b, err)
	})
	add("tkn20.Setup+KeyGen+Encrypt", 30, func(r io.Reader) string {
		pk, msk, err := tkn20.Setup(r)
		if err != nil {
			return "error:" + err.Error()
		}
		var at tkn20.Attributes
		at.FromMap(map[string]string{"a": "1"})
		key, err := msk.KeyGen(r, at)
		if err != nil {
			return "error:" + err.Error()
		}
		var pol tkn20.Policy
		if err := pol.FromString("a: 1"); err != nil {
			return "error:" + err.Error()
		}
		ct, err := pk.Encrypt(r, pol, []byte("m"))
		return hm(pk.MarshalBinary()) + hm(key.MarshalBinary()) + hm(ct, err)
	})
	return l
}

// TestC11SeqReaders: what an API computes from an io.Reader depends on the BYTES the reader
// delivers, not on how many of them each Read call returns.
func TestC11SeqReaders(t *testing.T) {
	defer vlib.Done()
	for _, a := range readerAPIs() {
		a := a
		sub := "readers/" + a.name
		n := max(2, vlib.N(6, 30)/a.cost)
		t.Run(a.name, func(t *testing.T) {
			vlib.Check(t, n, func(t *rapid.T) {
				seed := rapid.Uint64().Draw(t, "stream")
				mode := rapid.SampledFrom([]string{"one", "half", "pattern", "pattern"}).Draw(t, "mode")
				pat := rapid.SliceOfN(rapid.Byte(), 1, 6).Draw(t, "pattern")
				vlib.Eval(sub)
				var want, got string
				if p, st := vlib.Catch(func() { want = a.f(&chunkReader{src: vlib.NewReader(seed), mode: "whole"}) }); p != nil {
					vlib.Report(t, "C11/readers/"+a.name+"/panic/"+vlib.PanicClass(p), fmt.Sprintf("stream %d delivered whole: %v\n%s", seed, p, st))
					return
				}
				cr := &chunkReader{src: vlib.NewReader(seed), mode: mode, pat: pat}
				if p, st := vlib.Catch(func() { got = a.f(cr) }); p != nil {
					vlib.Report(t, "C11/readers/"+a.name+"/panic/"+vlib.PanicClass(p), fmt.Sprintf("stream %d delivered in mode %s %v: %v\n%s", seed, mode, pat, p, st))
					return
				}
				if cr.calls == 0 {
					vlib.Class(sub, "reader-not-used")
					return
				}
				if got != want {
					vlib.Report(t, "C11/readers/"+a.name+"/depends-on-read-sizes",
						fmt.Sprintf("stream %d: the same bytes delivered whole give\n %.200s\ndelivered in pieces (mode %s, pattern %v, %d reads of which %d short)\n %.200s", seed, want, mode, pat, cr.calls, cr.short, got))
					return
				}
				if cr.short > 0 {
					vlib.NonTrivial(sub, "mode="+mode, []byte(a.name), u64b(seed), pat)
					vlib.Sample(sub, mode, fmt.Sprintf("%s: stream %d in mode %s: %d reads, %d short, same result", a.name, seed, mode, cr.calls, cr.short))
				} else {
					vlib.Class(sub, "no-short-read-happened")
				}
			})
		})
	}
}
