//go:build verif

package c11

import (
	"bytes"
	"fmt"
	"testing"

	"github.com/cloudflare/circl/dh/csidh"
	"github.com/cloudflare/circl/zz_verif/vlib"
)

// TestC11SeqCSIDHOperands: DeriveSecret, Validate and GeneratePublicKey read their key operands only —
// the peer's public key object is the same afterwards and a second derivation gives the same secret.
func TestC11SeqCSIDHOperands(t *testing.T) {
	defer vlib.Done()
	sub := "seq/csidh-operands"
	n := 1
	if vlib.Thorough() {
		n = 4
	}
	for i := 0; i < n; i++ {
		tag := uint64(vlib.Seed)*31 + uint64(vlib.Shard)*7 + uint64(i)
		var skA, skB csidh.PrivateKey
		var pkA, pkB csidh.PublicKey
		rng := vlib.NewReader(17000 + tag)
		if csidh.GeneratePrivateKey(&skA, rng) != nil || csidh.GeneratePrivateKey(&skB, rng) != nil {
			t.Fatalf("harness: GeneratePrivateKey")
		}
		csidh.GeneratePublicKey(&pkA, &skA, rng)
		csidh.GeneratePublicKey(&pkB, &skB, rng)
		exp := func(p *csidh.PublicKey) []byte { b := make([]byte, csidh.PublicKeySize); p.Export(b); return b }
		expS := func(p *csidh.PrivateKey) []byte { b := make([]byte, csidh.PrivateKeySize); p.Export(b); return b }
		pkB0, skA0 := exp(&pkB), expS(&skA)
		vlib.Eval(sub)
		var s1, s2, s3 [64]byte
		ok1 := csidh.DeriveSecret(&s1, &pkB, &skA, rng)
		if !bytes.Equal(exp(&pkB), pkB0) || !bytes.Equal(expS(&skA), skA0) {
			vlib.ReportDirect(t, "C11/seq/csidh/DeriveSecret/operand-changed", fmt.Sprintf("after DeriveSecret(out, pub, prv) the public key operand exports %x…, before %x… (private key unchanged: %v)", exp(&pkB)[:12], pkB0[:12], bytes.Equal(expS(&skA), skA0)),
				map[string]interface{}{"tag": tag})
			continue
		}
		ok2 := csidh.DeriveSecret(&s2, &pkB, &skA, rng)
		ok3 := csidh.DeriveSecret(&s3, &pkA, &skB, rng)
		if !ok1 || !ok2 || !ok3 || s1 != s2 || s1 != s3 {
			vlib.ReportDirect(t, "C11/seq/csidh/DeriveSecret/repeat-differs", fmt.Sprintf("ok=%v,%v,%v; first %x… second %x… other side %x…", ok1, ok2, ok3, s1[:8], s2[:8], s3[:8]), map[string]interface{}{"tag": tag})
			continue
		}
		if !csidh.Validate(&pkB, rng) || !bytes.Equal(exp(&pkB), pkB0) {
			vlib.ReportDirect(t, "C11/seq/csidh/Validate/operand-changed", "Validate changed or refused a valid public key", map[string]interface{}{"tag": tag})
			continue
		}
		vlib.NonTrivial(sub, "", pkB0, skA0)
		vlib.Sample(sub, "operands", fmt.Sprintf("keys from stream %d: DeriveSecret twice and from the other side agree, operands unchanged", 17000+tag))
	}
}
