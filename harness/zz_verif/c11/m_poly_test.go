//go:build verif

package c11

import (
	"fmt"
	"math/big"
	"testing"

	"github.com/cloudflare/circl/ecc/p384"
	"github.com/cloudflare/circl/group"
	"github.com/cloudflare/circl/math/polynomial"
	"github.com/cloudflare/circl/secretsharing"
	"github.com/cloudflare/circl/zz_verif/vlib"
	"pgregory.net/rapid"
)

func sclHex(s group.Scalar) string { return hx(s.MarshalBinary()) }

// TestC11SeqPolynomial: polynomials and secret-sharing objects do not share
// storage with the values they were built from or hand out, and no call
// modifies its operands.
func TestC11SeqPolynomial(t *testing.T) {
	defer vlib.Done()
	groups := []group.Group{group.P256, group.Ristretto255, group.P384}
	sub := "seq/polynomial+secretsharing"
	vlib.Check(t, vlib.N(150, 1200), func(t *rapid.T) {
		g := rapid.SampledFrom(groups).Draw(t, "g")
		deg := rapid.IntRange(0, 5).Draw(t, "deg")
		draw := func(label string) group.Scalar {
			switch rapid.IntRange(0, 3).Draw(t, label+".k") {
			case 0:
				return g.NewScalar()
			case 1:
				return g.NewScalar().SetUint64(uint64(rapid.IntRange(1, 9).Draw(t, label+".small")))
			default:
				return g.HashToScalar(vlib.Bytes(t, 1, 8, label), []byte("c11"))
			}
		}
		cs := make([]group.Scalar, deg+1)
		for i := range cs {
			cs[i] = draw(fmt.Sprintf("c%d", i))
		}
		x := draw("x")
		p := polynomial.New(cs)
		want := sclHex(p.Evaluate(x))
		xBefore := sclHex(x)
		hist := fmt.Sprintf("group=%v deg=%d", g, deg)
		vlib.Eval(sub)
		// mutate the slice the polynomial was built from
		i := rapid.IntRange(0, deg).Draw(t, "i")
		cs[i].Add(cs[i], g.NewScalar().SetUint64(7))
		// mutate a returned coefficient and a returned evaluation
		c := p.Coefficient(uint(i))
		c.Neg(c).Add(c, g.NewScalar().SetUint64(3))
		ev := p.Evaluate(x)
		ev.Add(ev, ev)
		if got := sclHex(p.Evaluate(x)); got != want {
			vlib.Report(t, "C11/seq/polynomial/shares-storage", fmt.Sprintf("%s: Evaluate changed from %s to %s after modifying the input slice / a returned coefficient", hist, want, got))
			return
		}
		if sclHex(x) != xBefore {
			vlib.Report(t, "C11/seq/polynomial/Evaluate-modifies-operand", hist)
			return
		}
		// secret sharing: n shares, modify returned shares, share again
		tt := uint(rapid.IntRange(0, 4).Draw(t, "t"))
		n := tt + 1 + uint(rapid.IntRange(0, 3).Draw(t, "extra"))
		secret := draw("secret")
		secretHex := sclHex(secret)
		ss := secretsharing.New(vlib.DrawReader(t, "rnd"), tt, secret)
		shares := ss.Share(n)
		var snap []string
		for _, s := range shares {
			snap = append(snap, sclHex(s.ID)+"/"+sclHex(s.Value))
		}
		com := ss.CommitSecret()
		rec, err := secretsharing.Recover(tt, shares)
		if err != nil || sclHex(rec) != secretHex {
			t.Fatalf("harness: honest recovery failed: %v", err)
		}
		for k, s := range shares {
			if got := sclHex(s.ID) + "/" + sclHex(s.Value); got != snap[k] {
				vlib.Report(t, "C11/seq/secretsharing/Recover-modifies-shares", fmt.Sprintf("%s t=%d n=%d: share %d changed from %s to %s", hist, tt, n, k, snap[k], got))
				return
			}
			if !secretsharing.Verify(tt, s, com) {
				t.Fatalf("harness: honest share does not verify")
			}
			if got := sclHex(s.ID) + "/" + sclHex(s.Value); got != snap[k] {
				vlib.Report(t, "C11/seq/secretsharing/Verify-modifies-share", hist)
				return
			}
		}
		// modify what was handed out, then ask again
		shares[0].Value.Add(shares[0].Value, g.NewScalar().SetUint64(1))
		shares[0].ID.Add(shares[0].ID, g.NewScalar().SetUint64(1))
		rec.Add(rec, rec)
		secret.Add(secret, g.NewScalar().SetUint64(1))
		again := ss.Share(n)
		for k, s := range again {
			if got := sclHex(s.ID) + "/" + sclHex(s.Value); got != snap[k] {
				vlib.Report(t, "C11/seq/secretsharing/shares-storage", fmt.Sprintf("%s t=%d n=%d: share %d of a second Share() call is %s, first call gave %s", hist, tt, n, k, got, snap[k]))
				return
			}
		}
		vlib.NonTrivial(sub, "mutate-returned-objects", []byte(hist), []byte(want), []byte(secretHex))
		vlib.Sample(sub, "case", fmt.Sprintf("%s t=%d n=%d i=%d", hist, tt, n, i))
	})
}

// TestC11SeqP384: the elliptic.Curve style API of ecc/p384 never modifies the
// big integers and scalars it is given, also when they alias each other.
func TestC11SeqP384(t *testing.T) {
	defer vlib.Done()
	c := p384.P384()
	sub := "seq/p384"
	vlib.Check(t, vlib.N(150, 1000), func(t *rapid.T) {
		k1 := vlib.Bytes(t, 0, 48, "k1")
		k2 := vlib.Bytes(t, 0, 48, "k2")
		x1, y1 := c.ScalarBaseMult(k1)
		x2, y2 := c.ScalarBaseMult(k2)
		snap := func() string {
			return x1.Text(16) + "," + y1.Text(16) + "," + x2.Text(16) + "," + y2.Text(16) + fmt.Sprintf(",%x,%x", k1, k2)
		}
		before := snap()
		gx, gy := c.Params().Gx.Text(16), c.Params().Gy.Text(16)
		vlib.Eval(sub)
		var rx, ry *big.Int
		opn := rapid.SampledFrom([]string{"Add", "AddSelf", "Double", "ScalarMult", "CombinedMult", "AddGenerator", "IsOnCurve"}).Draw(t, "op")
		switch opn {
		case "Add":
			rx, ry = c.Add(x1, y1, x2, y2)
		case "AddSelf":
			rx, ry = c.Add(x1, y1, x1, y1)
		case "Double":
			rx, ry = c.Double(x1, y1)
		case "ScalarMult":
			rx, ry = c.ScalarMult(x1, y1, k2)
		case "CombinedMult":
			rx, ry = c.CombinedMult(x1, y1, k1, k2)
		case "AddGenerator":
			rx, ry = c.Add(c.Params().Gx, c.Params().Gy, x1, y1)
		case "IsOnCurve":
			_ = c.IsOnCurve(x1, y1)
		}
		if rx != nil {
			// modifying the result must not touch the operands or the curve parameters
			rx.Add(rx, big.NewInt(1))
			ry.Neg(ry)
		}
		if after := snap(); after != before {
			vlib.Report(t, "C11/seq/p384/"+opn+"/modifies-operands", fmt.Sprintf("before %s\nafter  %s", before, after))
			return
		}
		if c.Params().Gx.Text(16) != gx || c.Params().Gy.Text(16) != gy {
			vlib.Report(t, "C11/seq/p384/"+opn+"/modifies-curve-parameters", "generator coordinates changed")
			return
		}
		vlib.NonTrivial(sub, "op="+opn, k1, k2, []byte(opn))
		vlib.Sample(sub, opn, fmt.Sprintf("%s k1=%x k2=%x", opn, k1, k2))
	})
}
