//go:build verif

package c11

import (
	"fmt"
	"math/big"
	"testing"

	"github.com/cloudflare/circl/group"
	"github.com/cloudflare/circl/zz_verif/vlib"
	"pgregory.net/rapid"
)

func groupMachine(name string, g group.Group) *machine {
	E := func(o any) group.Element { return o.(group.Element) }
	S := func(o any) group.Scalar { return o.(group.Scalar) }
	encE := func(o any) []byte {
		b, err := E(o).MarshalBinary()
		if err != nil {
			panic(err)
		}
		return b
	}
	encS := func(o any) []byte {
		b, err := S(o).MarshalBinary()
		if err != nil {
			panic(err)
		}
		return b
	}
	isZero := func(b []byte) bool {
		for _, x := range b {
			if x != 0 {
				return false
			}
		}
		return true
	}
	m := &machine{name: "group-" + name, kinds: map[string]*kind{
		"elt": {name: "elt", fresh: func() any { return g.NewElement() }, enc: encE,
			dec: func(d any, b []byte) error { return E(d).UnmarshalBinary(b) },
			ctors: map[string]func() any{
				"Generator":     func() any { return g.Generator() },
				"Identity":      func() any { return g.Identity() },
				"NewElement":    func() any { return g.NewElement() },
				"HashToElement": func() any { return g.HashToElement([]byte("msg"), []byte("dst")) },
			}},
		"scl": {name: "scl", fresh: func() any { return g.NewScalar() }, enc: encS,
			dec: func(d any, b []byte) error { return S(d).UnmarshalBinary(b) },
			ctors: map[string]func() any{
				"NewScalar":    func() any { return g.NewScalar() },
				"One":          func() any { return g.NewScalar().SetUint64(1) },
				"HashToScalar": func() any { return g.HashToScalar([]byte("msg"), []byte("dst")) },
				"MinusOne":     func() any { return g.NewScalar().Neg(g.NewScalar().SetUint64(1)) },
			}},
	}}
	b2s := func(b bool) string { return fmt.Sprint(b) }
	m.ops = []op{
		{name: "E.Set", recv: "elt", args: []string{"elt"}, apply: func(r any, a []any, _ []int) (any, string) { return E(r).Set(E(a[0])), "" }},
		{name: "E.Copy", recv: "elt", usesRecv: true, resKind: "elt", apply: func(r any, _ []any, _ []int) (any, string) { return E(r).Copy(), "" }},
		{name: "E.Add", recv: "elt", args: []string{"elt", "elt"}, apply: func(r any, a []any, _ []int) (any, string) { return E(r).Add(E(a[0]), E(a[1])), "" }},
		{name: "E.Dbl", recv: "elt", args: []string{"elt"}, apply: func(r any, a []any, _ []int) (any, string) { return E(r).Dbl(E(a[0])), "" }},
		{name: "E.Neg", recv: "elt", args: []string{"elt"}, apply: func(r any, a []any, _ []int) (any, string) { return E(r).Neg(E(a[0])), "" }},
		{name: "E.Mul", recv: "elt", args: []string{"elt", "scl"}, apply: func(r any, a []any, _ []int) (any, string) { return E(r).Mul(E(a[0]), S(a[1])), "" }},
		{name: "E.MulGen", recv: "elt", args: []string{"scl"}, apply: func(r any, a []any, _ []int) (any, string) { return E(r).MulGen(S(a[0])), "" }},
		{name: "E.CMov", recv: "elt", args: []string{"elt"}, nints: 1, intMax: 1, usesRecv: true, apply: func(r any, a []any, i []int) (any, string) { return E(r).CMov(i[0], E(a[0])), "" }},
		{name: "E.CSelect", recv: "elt", args: []string{"elt", "elt"}, nints: 1, intMax: 1, apply: func(r any, a []any, i []int) (any, string) { return E(r).CSelect(i[0], E(a[0]), E(a[1])), "" }},
		{name: "E.IsEqual", recv: "elt", args: []string{"elt"}, usesRecv: true, apply: func(r any, a []any, _ []int) (any, string) { return E(r), b2s(E(r).IsEqual(E(a[0]))) }},
		{name: "E.IsIdentity", recv: "elt", usesRecv: true, apply: func(r any, _ []any, _ []int) (any, string) { return E(r), b2s(E(r).IsIdentity()) }},
		{name: "E.MarshalCompress+Unmarshal", recv: "elt", args: []string{"elt"}, apply: func(r any, a []any, _ []int) (any, string) {
			b, err := E(a[0]).MarshalBinaryCompress()
			if err != nil {
				panic(err)
			}
			if err := E(r).UnmarshalBinary(b); err != nil {
				panic(err)
			}
			return E(r), fmt.Sprintf("%x", b)
		}},
		{name: "S.Set", recv: "scl", args: []string{"scl"}, apply: func(r any, a []any, _ []int) (any, string) { return S(r).Set(S(a[0])), "" }},
		{name: "S.Copy", recv: "scl", usesRecv: true, resKind: "scl", apply: func(r any, _ []any, _ []int) (any, string) { return S(r).Copy(), "" }},
		{name: "S.Add", recv: "scl", args: []string{"scl", "scl"}, apply: func(r any, a []any, _ []int) (any, string) { return S(r).Add(S(a[0]), S(a[1])), "" }},
		{name: "S.Sub", recv: "scl", args: []string{"scl", "scl"}, apply: func(r any, a []any, _ []int) (any, string) { return S(r).Sub(S(a[0]), S(a[1])), "" }},
		{name: "S.Mul", recv: "scl", args: []string{"scl", "scl"}, apply: func(r any, a []any, _ []int) (any, string) { return S(r).Mul(S(a[0]), S(a[1])), "" }},
		{name: "S.Neg", recv: "scl", args: []string{"scl"}, apply: func(r any, a []any, _ []int) (any, string) { return S(r).Neg(S(a[0])), "" }},
		{name: "S.Inv", recv: "scl", args: []string{"scl"},
			guard: func(_ []byte, am [][]byte, _ []int) bool { return !isZero(am[0]) },
			apply: func(r any, a []any, _ []int) (any, string) { return S(r).Inv(S(a[0])), "" }},
		{name: "S.SetUint64", recv: "scl", nints: 1, intMax: 1000, apply: func(r any, _ []any, i []int) (any, string) { return S(r).SetUint64(uint64(i[0])), "" }},
		{name: "S.SetBigInt", recv: "scl", nints: 1, intMax: 1000, apply: func(r any, _ []any, i []int) (any, string) {
			v := new(big.Int).Lsh(big.NewInt(int64(i[0])+1), uint(i[0]))
			w := new(big.Int).Set(v)
			S(r).SetBigInt(v)
			return S(r), b2s(v.Cmp(w) == 0) // the argument must not be modified
		}},
		{name: "S.CMov", recv: "scl", args: []string{"scl"}, nints: 1, intMax: 1, usesRecv: true, apply: func(r any, a []any, i []int) (any, string) { return S(r).CMov(i[0], S(a[0])), "" }},
		{name: "S.CSelect", recv: "scl", args: []string{"scl", "scl"}, nints: 1, intMax: 1, apply: func(r any, a []any, i []int) (any, string) { return S(r).CSelect(i[0], S(a[0]), S(a[1])), "" }},
		{name: "S.IsEqual", recv: "scl", args: []string{"scl"}, usesRecv: true, apply: func(r any, a []any, _ []int) (any, string) { return S(r), b2s(S(r).IsEqual(S(a[0]))) }},
		{name: "S.IsZero", recv: "scl", usesRecv: true, apply: func(r any, _ []any, _ []int) (any, string) { return S(r), b2s(S(r).IsZero()) }},
	}
	return m
}

func TestC11SeqGroup(t *testing.T) {
	defer vlib.Done()
	for _, gg := range []struct {
		name string
		g    group.Group
		div  int
	}{{"P256", group.P256, 1}, {"P384", group.P384, 2}, {"P521", group.P521, 4}, {"Ristretto255", group.Ristretto255, 1}} {
		m := groupMachine(gg.name, gg.g)
		snaps := m.takeSnapshots()
		t.Run(gg.name, func(t *testing.T) {
			vlib.Check(t, vlib.N(600, 2400)/gg.div, func(t *rapid.T) { m.run(t, snaps) })
			m.decodeSweep(t)
			m.pairSweep(t)
		})
	}
}
