//go:build verif

package c11

import (
	"crypto"
	_ "crypto/sha256"
	_ "crypto/sha512"
	"fmt"
	"math/big"

	"github.com/cloudflare/circl/abe/cpabe/tkn20"
	"github.com/cloudflare/circl/blindsign/blindrsa"
	"github.com/cloudflare/circl/cipher/ascon"
	"github.com/cloudflare/circl/dh/curve4q"
	"github.com/cloudflare/circl/dh/x25519"
	"github.com/cloudflare/circl/dh/x448"
	"github.com/cloudflare/circl/ecc/bls12381"
	"github.com/cloudflare/circl/ecc/fourq"
	"github.com/cloudflare/circl/ecc/goldilocks"
	"github.com/cloudflare/circl/ecc/p384"
	"github.com/cloudflare/circl/expander"
	"github.com/cloudflare/circl/group"
	"github.com/cloudflare/circl/secretsharing"
	"github.com/cloudflare/circl/sign/ed25519"
	"github.com/cloudflare/circl/sign/ed448"
	"github.com/cloudflare/circl/xof"
	"github.com/cloudflare/circl/xof/k12"
	"github.com/cloudflare/circl/zz_verif/vlib"
)

// eccKinds: plans without any shared object at all — several goroutines inside the SAME
// package-level routine at once (precomputed tables, package-level scratch space and lazily
// initialised constants are the only things they share). Each plan has few operations so
// that many goroutines are in one routine simultaneously; every result is compared with
// the value the call returns when run alone.
func eccKinds() []concKind {
	var ks []concKind
	bi := func(x, y *big.Int) string { return x.Text(16) + "," + y.Text(16) }

	ks = append(ks, concKind{name: "ecc/p384", cost: 1, build: func(trial uint64) concPlan {
		k1, k2, k3 := sd(48, 12000+trial), sd(48, 12100+trial), sd(47, 12200+trial)
		c := p384.P384()
		qx, qy := c.ScalarBaseMult(sd(48, 12300+trial))
		mk := func() []func() string {
			return []func() string{
				func() string { return bi(c.CombinedMult(qx, qy, k1, k2)) },
				func() string { return bi(c.CombinedMult(qx, qy, k2, k3)) },
				func() string { return bi(c.CombinedMult(qx, qy, k1, k1)) },
				func() string { return bi(c.ScalarMult(qx, qy, k1)) },
				func() string { return bi(c.ScalarBaseMult(k2)) },
				func() string { x, y := c.Add(qx, qy, c.Params().Gx, c.Params().Gy); return bi(c.Double(x, y)) },
			}
		}
		return concPlan{ops: mk(), want: wants(mk()), desc: []string{"CombinedMult(Q,k1,k2)", "CombinedMult(Q,k2,k3)", "CombinedMult(Q,k1,k1)", "ScalarMult", "ScalarBaseMult", "Add+Double"}}
	}})

	for _, g := range []group.Group{group.P256, group.P384, group.P521, group.Ristretto255} {
		g := g
		ks = append(ks, concKind{name: "ecc/group-" + fmt.Sprint(g), cost: 1, build: func(trial uint64) concPlan {
			sb := mb(g.HashToScalar(sd(16, 12400+trial), []byte("c11")).MarshalBinary())
			eb := mb(g.HashToElement(sd(16, 12500+trial), []byte("c11")).MarshalBinary())
			mk := func() []func() string {
				sc := func() group.Scalar { s := g.NewScalar(); _ = s.UnmarshalBinary(sb); return s }
				el := func() group.Element { e := g.NewElement(); _ = e.UnmarshalBinary(eb); return e }
				return []func() string{
					func() string { return hx(g.NewElement().Mul(el(), sc()).MarshalBinary()) },
					func() string { return hx(g.NewElement().MulGen(sc()).MarshalBinaryCompress()) },
					func() string { return hx(g.HashToElement(sb, []byte("dst-conc")).MarshalBinary()) },
					func() string { return hx(g.HashToScalar(eb, []byte("dst-conc")).MarshalBinary()) },
					func() string { e := el(); e.Add(e, g.Generator()); e.Dbl(e); e.Neg(e); return hx(e.MarshalBinary()) },
					func() string { s := sc(); s.Inv(s); s.Mul(s, sc()); return hx(s.MarshalBinary()) },
					func() string { return fmt.Sprint(el().IsEqual(el()), el().IsIdentity(), g.Identity().IsIdentity()) },
				}
			}
			return concPlan{ops: mk(), want: wants(mk()), desc: []string{"Mul", "MulGen", "HashToElement", "HashToScalar", "Add+Dbl+Neg", "Scalar.Inv+Mul", "IsEqual+IsIdentity"}}
		}})
	}

	ks = append(ks, concKind{name: "ecc/bls12381", cost: 3, build: func(trial uint64) concPlan {
		in := sd(24, 12600+trial)
		mk := func() []func() string {
			var p bls12381.G1
			var q bls12381.G2
			p.Hash(in, []byte("g1"))
			q.Hash(in, []byte("g2"))
			var k bls12381.Scalar
			k.SetBytes(sd(32, 12700+trial))
			return []func() string{
				func() string { return hx(bls12381.Pair(&p, &q).MarshalBinary())[:64] },
				func() string {
					return hx(bls12381.ProdPairFrac([]*bls12381.G1{&p, bls12381.G1Generator()}, []*bls12381.G2{&q, bls12381.G2Generator()}, []int{1, -1}).MarshalBinary())[:64]
				},
				func() string {
					var r bls12381.G1
					r.Hash(in, []byte("g1-b"))
					return fmt.Sprintf("%x", r.BytesCompressed())
				},
				func() string {
					var r bls12381.G2
					r.Hash(in, []byte("g2-b"))
					return fmt.Sprintf("%x", r.BytesCompressed())
				},
				func() string { var r bls12381.G1; r.ScalarMult(&k, &p); return fmt.Sprintf("%x", r.BytesCompressed()) },
				func() string { var r bls12381.G2; r.ScalarMult(&k, &q); return fmt.Sprintf("%x", r.BytesCompressed()) },
				func() string {
					var r bls12381.G1
					err := r.SetBytes(p.BytesCompressed())
					return fmt.Sprint(err, r.IsOnG1(), r.IsEqual(&p))
				},
			}
		}
		return concPlan{ops: mk(), want: wants(mk()), desc: []string{"Pair", "ProdPairFrac", "G1.Hash", "G2.Hash", "G1.ScalarMult", "G2.ScalarMult", "G1.SetBytes+IsOnG1"}}
	}})

	ks = append(ks, concKind{name: "ecc/edwards", cost: 1, build: func(trial uint64) concPlan {
		k32a, k32b := sd(32, 12800+trial), sd(32, 12900+trial)
		mk := func() []func() string {
			var c goldilocks.Curve
			var ka, kb goldilocks.Scalar
			ka.FromBytes(sd(56, 13000+trial))
			kb.FromBytes(sd(56, 13100+trial))
			q := c.ScalarBaseMult(&kb)
			var fk [32]byte
			copy(fk[:], k32a)
			var fq fourq.Point
			var fk2 [32]byte
			copy(fk2[:], k32b)
			fq.ScalarBaseMult(&fk2)
			return []func() string{
				func() string { return hx(c.ScalarBaseMult(&ka).MarshalBinary()) },
				func() string { return hx(c.ScalarMult(&ka, q).MarshalBinary()) },
				func() string { return hx(c.CombinedMult(&ka, &kb, q).MarshalBinary()) },
				func() string {
					var p fourq.Point
					p.ScalarBaseMult(&fk)
					var o [32]byte
					p.Marshal(&o)
					return fmt.Sprintf("%x", o)
				},
				func() string {
					var p fourq.Point
					p.ScalarMult(&fk, &fq)
					var o [32]byte
					p.Marshal(&o)
					return fmt.Sprintf("%x", o)
				},
				func() string {
					var pk, sk, sh curve4q.Key
					copy(sk[:], k32a)
					curve4q.KeyGen(&pk, &sk)
					var sk2, pk2 curve4q.Key
					copy(sk2[:], k32b)
					curve4q.KeyGen(&pk2, &sk2)
					ok := curve4q.Shared(&sh, &sk, &pk2)
					return fmt.Sprintf("%x %x %v", pk, sh, ok)
				},
			}
		}
		return concPlan{ops: mk(), want: wants(mk()), desc: []string{"goldilocks.ScalarBaseMult", "goldilocks.ScalarMult", "goldilocks.CombinedMult", "fourq.ScalarBaseMult", "fourq.ScalarMult", "curve4q.KeyGen+Shared"}}
	}})

	ks = append(ks, concKind{name: "dh+hash", cost: 1, build: func(trial uint64) concPlan {
		a, b := sd(56, 13200+trial), sd(56, 13300+trial)
		msg := sd(int(9000+trial%9000), 13400+trial)
		key := sd(16, 13500+trial)
		mk := func() []func() string {
			return []func() string{
				func() string {
					var pk, sk, pk2, sk2, sh x25519.Key
					copy(sk[:], a)
					copy(sk2[:], b)
					x25519.KeyGen(&pk, &sk)
					x25519.KeyGen(&pk2, &sk2)
					ok := x25519.Shared(&sh, &sk, &pk2)
					return fmt.Sprintf("%x %x %v", pk, sh, ok)
				},
				func() string {
					var pk, sk, pk2, sk2, sh x448.Key
					copy(sk[:], a)
					copy(sk2[:], b)
					x448.KeyGen(&pk, &sk)
					x448.KeyGen(&pk2, &sk2)
					ok := x448.Shared(&sh, &sk, &pk2)
					return fmt.Sprintf("%x %x %v", pk, sh, ok)
				},
				func() string {
					o := make([]byte, 48)
					k12.Draft10Sum(o, msg, a)
					return fmt.Sprintf("%x", o)
				},
				func() string {
					o := make([]byte, 48)
					for _, id := range []xof.ID{xof.SHAKE128, xof.SHAKE256, xof.BLAKE2XB, xof.BLAKE2XS, xof.K12D10} {
						x := id.New()
						_, _ = x.Write(msg[:1000])
						y := x.Clone()
						_, _ = y.Write(msg[1000:1500])
						_, _ = y.Read(o)
					}
					return fmt.Sprintf("%x", o)
				},
				func() string {
					e1 := expander.NewExpanderMD(crypto.SHA256, []byte("dst-md"))
					e2 := expander.NewExpanderXOF(xof.SHAKE128, 128, []byte("dst-xof"))
					return fmt.Sprintf("%x %x", e1.Expand(a, 80), e2.Expand(a, 80))
				},
				func() string {
					c, err := ascon.New(key, ascon.Ascon128a)
					if err != nil {
						return "error"
					}
					ct := c.Seal(nil, b[:16], msg[:100], a)
					pt, err := c.Open(nil, b[:16], ct, a)
					return fmt.Sprintf("%x %v %v", ct, err, string(pt) == string(msg[:100]))
				},
			}
		}
		return concPlan{ops: mk(), want: wants(mk()), desc: []string{"x25519", "x448", "k12.Draft10Sum", "xof.*", "expander", "ascon"}}
	}})

	// blind RSA: one Client / Signer / Verifier object shared by all goroutines
	keys := loadRSAKeys()
	for _, v := range []blindrsa.Variant{blindrsa.SHA384PSSRandomized, blindrsa.SHA384PSSZeroRandomized, blindrsa.SHA384PSSDeterministic, blindrsa.SHA384PSSZeroDeterministic} {
		v := v
		ks = append(ks, concKind{name: "blindrsa/" + v.String(), cost: 4, build: func(trial uint64) concPlan {
			sk := keys[int(trial)%len(keys)]
			client, err := blindrsa.NewClient(v, &sk.PublicKey)
			if err != nil {
				panic(err)
			}
			signer := blindrsa.NewSigner(sk)
			// each operation runs the whole protocol for its own message on the shared objects and
			// reports whether the outcome is a valid signature (the blinding is random, so the
			// signature bytes are not compared for the randomized variants)
			op := func(i int) func() string {
				return func() string {
					rd := vlib.NewReader(13700 + trial*8 + uint64(i))
					msg, err := client.Prepare(rd, sd(int(20+(trial*977+uint64(i)*4099)%60000), 13600+trial*8+uint64(i)))
					if err != nil {
						return "prepare-error:" + err.Error()
					}
					in, st, err := client.Blind(rd, msg)
					if err != nil {
						return "blind-error:" + err.Error()
					}
					bs, err := signer.BlindSign(in)
					if err != nil {
						return "blindsign-error:" + err.Error()
					}
					sig, err := client.Finalize(st, bs)
					if err != nil {
						return "finalize-error:" + err.Error()
					}
					if err := client.Verify(msg, sig); err != nil {
						return "verify-error:" + err.Error()
					}
					return "ok"
				}
			}
			ops := []func() string{op(0), op(1), op(2), op(3)}
			return concPlan{ops: ops, want: []string{"ok", "ok", "ok", "ok"}, desc: []string{"Blind+BlindSign+Finalize+Verify", "same", "same", "same"}}
		}})
	}
	return ks
}

// sharedKinds: more shared-object plans (secret sharing, CP-ABE keys).
func sharedKinds() []concKind {
	var ks []concKind
	for _, g := range []group.Group{group.P256, group.Ristretto255} {
		g := g
		ks = append(ks, concKind{name: "secretsharing/" + fmt.Sprint(g), cost: 1, build: func(trial uint64) concPlan {
			mkSS := func() secretsharing.SecretSharing {
				return secretsharing.New(vlib.NewReader(15000+trial), 3, g.NewScalar().SetUint64(77+trial))
			}
			shared := mkSS()
			build := func(ss secretsharing.SecretSharing) []func() string {
				id := func(i uint64) group.Scalar { return g.NewScalar().SetUint64(i) }
				sh := func(i uint64) func() string {
					return func() string { s := ss.ShareWithID(id(i)); return hx(s.Value.MarshalBinary()) }
				}
				return []func() string{sh(1), sh(2), sh(3), sh(4), sh(5),
					func() string {
						out := ""
						for _, s := range ss.Share(4) {
							out += hx(s.Value.MarshalBinary())[:16]
						}
						return out
					},
					func() string {
						out := ""
						for _, c := range ss.CommitSecret() {
							out += hx(c.MarshalBinaryCompress())[:16]
						}
						return out
					},
					func() string {
						s := ss.ShareWithID(id(9))
						return fmt.Sprint(secretsharing.Verify(3, s, ss.CommitSecret()))
					},
				}
			}
			// group.Ristretto255.RandomScalar ignores its reader, so an independent copy of the same polynomial
			// cannot be built: the expectation is what the same (read-only) operations return on the shared
			// object before the goroutines start
			return concPlan{ops: build(shared), want: wants(build(shared)), desc: []string{"ShareWithID(1)", "ShareWithID(2)", "ShareWithID(3)", "ShareWithID(4)", "ShareWithID(5)", "Share(4)", "CommitSecret", "Verify"}}
		}})
	}
	ks = append(ks, concKind{name: "tkn20", cost: 12, build: func(trial uint64) concPlan {
		pk, msk, err := tkn20.Setup(vlib.NewReader(15100 + trial))
		if err != nil {
			panic(err)
		}
		mkAttrs := func(m map[string]string) tkn20.Attributes { var a tkn20.Attributes; a.FromMap(m); return a }
		mkPol := func(s string) tkn20.Policy {
			var p tkn20.Policy
			if err := p.FromString(s); err != nil {
				panic(err)
			}
			return p
		}
		// every operation runs Encrypt and KeyGen on the shared keys with its own policy / attributes and
		// reports whether the result decrypts (the randomness differs per call, so bytes are not compared)
		op := func(i int) func() string {
			return func() string {
				pol := mkPol(fmt.Sprintf("(a: %d and b: x) or c: %d", i, i))
				good := mkAttrs(map[string]string{"a": fmt.Sprint(i), "b": "x", "c": "no"})
				bad := mkAttrs(map[string]string{"a": fmt.Sprint(i + 1), "b": "x", "c": "no"})
				msg := sd(40, 15200+trial*16+uint64(i))
				ct, err := pk.Encrypt(vlib.NewReader(15300+trial*16+uint64(i)), pol, msg)
				if err != nil {
					return "encrypt-error:" + err.Error()
				}
				kg, err := msk.KeyGen(vlib.NewReader(15400+trial*16+uint64(i)), good)
				if err != nil {
					return "keygen-error:" + err.Error()
				}
				kb, err := msk.KeyGen(vlib.NewReader(15500+trial*16+uint64(i)), bad)
				if err != nil {
					return "keygen-error:" + err.Error()
				}
				pt, err := kg.Decrypt(ct)
				if err != nil || string(pt) != string(msg) {
					return fmt.Sprintf("satisfying key does not decrypt: %v", err)
				}
				if _, err := kb.Decrypt(ct); err == nil {
					return "non-satisfying key decrypts"
				}
				return fmt.Sprint("ok ", good.CouldDecrypt(ct), bad.CouldDecrypt(ct))
			}
		}
		ops := []func() string{op(0), op(1), op(2), op(3)}
		return concPlan{ops: ops, want: []string{"ok true false", "ok true false", "ok true false", "ok true false"}, desc: []string{"Encrypt+KeyGen+Decrypt", "same", "same", "same"}}
	}})
	return ks
}

// edVariantKinds: the EdDSA variants (pure, ctx, ph) of one key used at the same time with contexts
// of different length — they share the package's domain-separation code.
func edVariantKinds() []concKind {
	var ks []concKind
	ks = append(ks, concKind{name: "sign/ed25519-variants", cost: 1, build: func(trial uint64) concPlan {
		sk := ed25519.NewKeyFromSeed(sd(32, 16000+trial))
		pk := sk.Public().(ed25519.PublicKey)
		msg := sd(int(20+trial%50), 16100+trial)
		ctxs := []string{"a", string(sd(17, 16200+trial)), string(sd(255, 16300+trial)), ""}
		mk := func() []func() string {
			var ops []func() string
			ops = append(ops, func() string { s := ed25519.Sign(sk, msg); return fmt.Sprintf("%x %v", s, ed25519.Verify(pk, msg, s)) })
			for _, c := range ctxs {
				c := c
				if c != "" {
					ops = append(ops, func() string {
						s := ed25519.SignWithCtx(sk, msg, c)
						return fmt.Sprintf("%x %v %v", s, ed25519.VerifyWithCtx(pk, msg, s, c), ed25519.VerifyPh(pk, msg, s, c))
					})
				}
				ops = append(ops, func() string {
					s := ed25519.SignPh(sk, msg, c)
					return fmt.Sprintf("%x %v %v", s, ed25519.VerifyPh(pk, msg, s, c), ed25519.Verify(pk, msg, s))
				})
			}
			return ops
		}
		return concPlan{ops: mk(), want: wants(mk())}
	}})
	ks = append(ks, concKind{name: "sign/ed448-variants", cost: 2, build: func(trial uint64) concPlan {
		sk := ed448.NewKeyFromSeed(sd(57, 16400+trial))
		pk := sk.Public().(ed448.PublicKey)
		msg := sd(int(20+trial%50), 16500+trial)
		ctxs := []string{"", "a", string(sd(17, 16600+trial)), string(sd(255, 16700+trial))}
		mk := func() []func() string {
			var ops []func() string
			for _, c := range ctxs {
				c := c
				ops = append(ops, func() string {
					s := ed448.Sign(sk, msg, c)
					return fmt.Sprintf("%x %v %v", s, ed448.Verify(pk, msg, s, c), ed448.VerifyPh(pk, msg, s, c))
				}, func() string {
					s := ed448.SignPh(sk, msg, c)
					return fmt.Sprintf("%x %v %v", s, ed448.VerifyPh(pk, msg, s, c), ed448.Verify(pk, msg, s, c))
				})
			}
			return ops
		}
		return concPlan{ops: mk(), want: wants(mk())}
	}})
	return ks
}
