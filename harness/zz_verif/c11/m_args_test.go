//go:build verif

package c11

import (
	"bytes"
	"crypto"
	"fmt"
	"testing"

	"github.com/cloudflare/circl/cipher/ascon"
	"github.com/cloudflare/circl/expander"
	"github.com/cloudflare/circl/group"
	"github.com/cloudflare/circl/hpke"
	"github.com/cloudflare/circl/kem/mlkem/mlkem768"
	"github.com/cloudflare/circl/sign/ed25519"
	"github.com/cloudflare/circl/sign/ed448"
	"github.com/cloudflare/circl/xof"
	"github.com/cloudflare/circl/zz_verif/vlib"
	"pgregory.net/rapid"
)

// arena hands out byte-slice arguments that are carved out of ONE buffer, next to each other and
// with spare capacity behind them (as when a caller slices a packet "tag‖msg‖…"). A call must read
// its arguments only: afterwards the whole arena must be unchanged, and the result must equal the
// result of the same call on private exact-capacity copies.
type arena struct {
	buf  []byte
	orig []byte
	off  int
}

func newArena(t *rapid.T, n int) *arena {
	a := &arena{buf: make([]byte, n)}
	vlib.FillRandom(t, a.buf, "arena")
	return a
}

func (a *arena) take(content []byte) []byte {
	copy(a.buf[a.off:], content)
	s := a.buf[a.off : a.off+len(content)] // cap extends to the end of the arena
	a.off += len(content)
	return s
}

func (a *arena) freeze()      { a.orig = append([]byte{}, a.buf...) }
func (a *arena) intact() bool { return bytes.Equal(a.buf, a.orig) }

// TestC11SeqArgs: results depend only on the explicit arguments and arguments are not written.
func TestC11SeqArgs(t *testing.T) {
	defer vlib.Done()
	type call struct {
		name string
		// run gets its byte arguments through get (content → slice) and returns an observation
		run func(get func([]byte) []byte, t *rapid.T) string
	}
	groups := []group.Group{group.P256, group.P384, group.P521, group.Ristretto255}
	calls := []call{}
	for _, g := range groups {
		g := g
		calls = append(calls,
			call{fmt.Sprintf("group.%v.HashToElement", g), func(get func([]byte) []byte, t *rapid.T) string {
				dst := get(vlib.Bytes(t, 0, 40, "dst"))
				msg := get(vlib.Bytes(t, 0, 40, "msg"))
				return hx(g.HashToElement(msg, dst).MarshalBinary())
			}},
			call{fmt.Sprintf("group.%v.HashToScalar", g), func(get func([]byte) []byte, t *rapid.T) string {
				dst := get(vlib.Bytes(t, 0, 300, "dst"))
				msg := get(vlib.Bytes(t, 0, 40, "msg"))
				return hx(g.HashToScalar(msg, dst).MarshalBinary())
			}},
		)
	}
	calls = append(calls,
		call{"expander.MD.Expand", func(get func([]byte) []byte, t *rapid.T) string {
			dst := get(vlib.Bytes(t, 0, 300, "dst"))
			msg := get(vlib.Bytes(t, 0, 40, "msg"))
			e := expander.NewExpanderMD(crypto.SHA256, dst)
			return fmt.Sprintf("%x%x", e.Expand(msg, 48), e.Expand(msg, 20))
		}},
		call{"expander.XOF.Expand", func(get func([]byte) []byte, t *rapid.T) string {
			dst := get(vlib.Bytes(t, 0, 300, "dst"))
			msg := get(vlib.Bytes(t, 0, 40, "msg"))
			e := expander.NewExpanderXOF(xof.SHAKE128, 128, dst)
			return fmt.Sprintf("%x%x", e.Expand(msg, 48), e.Expand(msg, 20))
		}},
		call{"ed25519.Sign+SignPh+Verify", func(get func([]byte) []byte, t *rapid.T) string {
			seed := get(vlib.Bytes(t, 32, 32, "seed"))
			msg := get(vlib.Bytes(t, 0, 50, "msg"))
			sk := ed25519.NewKeyFromSeed(seed)
			sig := ed25519.Sign(sk, msg)
			sig2 := ed25519.SignPh(sk, msg, "ctx")
			pk := get(sk.Public().(ed25519.PublicKey))
			sigA := get(sig)
			return fmt.Sprintf("%x%x%v", sig, sig2, ed25519.Verify(pk, msg, sigA))
		}},
		call{"ed448.Sign+Verify", func(get func([]byte) []byte, t *rapid.T) string {
			seed := get(vlib.Bytes(t, 57, 57, "seed"))
			msg := get(vlib.Bytes(t, 0, 50, "msg"))
			sk := ed448.NewKeyFromSeed(seed)
			sig := ed448.Sign(sk, msg, "c")
			pk := get(sk.Public().(ed448.PublicKey))
			sigA := get(sig)
			return fmt.Sprintf("%x%v", sig, ed448.Verify(pk, msg, sigA, "c"))
		}},
		call{"mlkem768.Scheme", func(get func([]byte) []byte, t *rapid.T) string {
			s := mlkem768.Scheme()
			seed := get(vlib.Bytes(t, s.SeedSize(), s.SeedSize(), "seed"))
			eseed := get(vlib.Bytes(t, s.EncapsulationSeedSize(), s.EncapsulationSeedSize(), "eseed"))
			pk, sk := s.DeriveKeyPair(seed)
			ct, ss, err := s.EncapsulateDeterministically(pk, eseed)
			if err != nil {
				return err.Error()
			}
			ctA := get(ct)
			pkA := get(mb(pk.MarshalBinary()))
			pk2, _ := s.UnmarshalBinaryPublicKey(pkA)
			ss2, _ := s.Decapsulate(sk, ctA)
			return fmt.Sprintf("%x%x%x%v", ct[:16], ss, ss2, pk2.Equal(pk))
		}},
		call{"hpke.Seal+Open", func(get func([]byte) []byte, t *rapid.T) string {
			k := hpke.KEM_X25519_HKDF_SHA256
			s := k.Scheme()
			suite := hpke.NewSuite(k, hpke.KDF_HKDF_SHA256, hpke.AEAD_AES128GCM)
			info := get(vlib.Bytes(t, 0, 20, "info"))
			pt := get(vlib.Bytes(t, 0, 40, "pt"))
			aad := get(vlib.Bytes(t, 0, 20, "aad"))
			pk, sk := s.DeriveKeyPair(get(vlib.Bytes(t, 32, 32, "seed")))
			snd, _ := suite.NewSender(pk, info)
			enc, sealer, err := snd.Setup(vlib.DrawReader(t, "rnd"))
			if err != nil {
				return err.Error()
			}
			ct, _ := sealer.Seal(pt, aad)
			encA, ctA := get(enc), get(ct)
			rcv, _ := suite.NewReceiver(sk, info)
			op, err := rcv.Setup(encA)
			if err != nil {
				return err.Error()
			}
			pt2, err := op.Open(ctA, aad)
			return fmt.Sprintf("%x%x%x%v%x", enc, ct, pt2, err, sealer.Export(aad, 16))
		}},
		call{"ascon.Seal+Open", func(get func([]byte) []byte, t *rapid.T) string {
			key := get(vlib.Bytes(t, 16, 16, "key"))
			nonce := get(vlib.Bytes(t, 16, 16, "nonce"))
			pt := get(vlib.Bytes(t, 0, 40, "pt"))
			ad := get(vlib.Bytes(t, 0, 20, "ad"))
			c, err := ascon.New(key, ascon.Ascon128)
			if err != nil {
				return err.Error()
			}
			ct := c.Seal(nil, nonce, pt, ad)
			ctA := get(ct)
			pt2, err := c.Open(nil, nonce, ctA, ad)
			return fmt.Sprintf("%x%x%v", ct, pt2, err)
		}},
	)
	sub := "seq/args"
	vlib.Check(t, vlib.N(400, 4000), func(t *rapid.T) {
		c := calls[rapid.IntRange(0, len(calls)-1).Draw(t, "call")]
		// the same drawn contents are needed twice: record them in the first pass
		var contents [][]byte
		a := newArena(t, 4096)
		a.freeze()
		first := true
		var got string
		getArena := func(b []byte) []byte {
			contents = append(contents, append([]byte{}, b...))
			s := a.take(b)
			a.freeze()
			_ = first
			return s
		}
		if p, st := vlib.Catch(func() { got = c.run(getArena, t) }); p != nil {
			vlib.Report(t, "C11/args/"+c.name+"/panic", fmt.Sprintf("%v\n%s", p, st))
			return
		}
		vlib.Eval(sub)
		if !a.intact() {
			i := 0
			for i < len(a.buf) && a.buf[i] == a.orig[i] {
				i++
			}
			vlib.Report(t, "C11/args/"+c.name+"/writes-to-caller-memory", fmt.Sprintf("the call changed byte %d of the buffer its arguments were sliced from (%d bytes of arguments)", i, a.off))
			return
		}
		vlib.NonTrivial(sub, "call="+c.name, []byte(c.name), bytes.Join(contents, []byte{0}))
		vlib.Sample(sub, c.name, fmt.Sprintf("%s with %d byte arguments carved from one 4096-byte arena → %.60s", c.name, len(contents), got))
	})
}
