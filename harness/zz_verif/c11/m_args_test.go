//go:build verif

package c11

import (
	"bytes"
	"crypto"
	"fmt"
	"testing"

	"github.com/cloudflare/circl/blindsign/blindrsa"
	"github.com/cloudflare/circl/blindsign/blindrsa/partiallyblindrsa"
	"github.com/cloudflare/circl/cipher/ascon"
	"github.com/cloudflare/circl/dh/curve4q"
	"github.com/cloudflare/circl/dh/x25519"
	"github.com/cloudflare/circl/dh/x448"
	"github.com/cloudflare/circl/ecc/fourq"
	"github.com/cloudflare/circl/expander"
	"github.com/cloudflare/circl/group"
	"github.com/cloudflare/circl/hpke"
	"github.com/cloudflare/circl/kem/mlkem/mlkem768"
	"github.com/cloudflare/circl/oprf"
	"github.com/cloudflare/circl/sign"
	"github.com/cloudflare/circl/sign/bls"
	"github.com/cloudflare/circl/sign/ed25519"
	"github.com/cloudflare/circl/sign/ed448"
	signschemes "github.com/cloudflare/circl/sign/schemes"
	"github.com/cloudflare/circl/xof"
	"github.com/cloudflare/circl/xof/k12"
	"github.com/cloudflare/circl/zz_verif/vlib"
	"pgregory.net/rapid"
)

// arena hands out byte-slice arguments that are carved out of ONE buffer, next to each other and
// with spare capacity behind them (as when a caller slices a packet "tag‖msg‖…"). A call must read
// its arguments only: afterwards the whole arena must be unchanged, and the result must equal the
// result of the same call on private exact-capacity copies.
type arena struct {
	buf     []byte
	orig    []byte
	off     int
	damaged bool
	// arguments that did not fit and were handed out as separate allocations
	overflowed int
}

func newArena(t *rapid.T, n int) *arena {
	a := &arena{buf: make([]byte, n)}
	vlib.FillRandom(t, a.buf, "arena")
	return a
}

func (a *arena) take(content []byte) []byte {
	if a.orig == nil {
		a.freeze()
	}
	if !bytes.Equal(a.buf, a.orig) {
		a.damaged = true // a previous call wrote outside what it was allowed to: remember it before handing out more
	}
	if a.off+len(content) > len(a.buf) {
		// the arena is full (doubled FrodoKEM encodings): this argument gets a buffer of its own
		a.overflowed++
		return append([]byte{}, content...)
	}
	copy(a.buf[a.off:], content)
	copy(a.orig[a.off:], content)          // only the bytes handed out now change in the snapshot: earlier damage stays visible
	s := a.buf[a.off : a.off+len(content)] // cap extends to the end of the arena
	a.off += len(content) + 8              // guard bytes between arguments: an append to s lands there
	return s
}

func (a *arena) freeze()      { a.orig = append([]byte{}, a.buf...) }
func (a *arena) intact() bool { return !a.damaged && bytes.Equal(a.buf, a.orig) }

// TestC11SeqArgs: results depend only on the explicit arguments and arguments are not written.
func TestC11SeqArgs(t *testing.T) {
	defer vlib.Done()
	type call struct {
		name string
		// run gets its byte arguments through get (content → slice) and returns an observation
		run func(get func([]byte) []byte, t *rapid.T) string
	}
	groups := []group.Group{group.P256, group.P384, group.P521, group.Ristretto255}
	calls := []call{}
	for _, g := range groups {
		g := g
		calls = append(calls,
			call{fmt.Sprintf("group.%v.HashToElement", g), func(get func([]byte) []byte, t *rapid.T) string {
				dst := get(vlib.Bytes(t, 0, 40, "dst"))
				msg := get(vlib.Bytes(t, 0, 40, "msg"))
				return hx(g.HashToElement(msg, dst).MarshalBinary())
			}},
			call{fmt.Sprintf("group.%v.HashToScalar", g), func(get func([]byte) []byte, t *rapid.T) string {
				dst := get(vlib.Bytes(t, 0, 300, "dst"))
				msg := get(vlib.Bytes(t, 0, 40, "msg"))
				return hx(g.HashToScalar(msg, dst).MarshalBinary())
			}},
		)
	}
	calls = append(calls,
		call{"expander.MD.Expand", func(get func([]byte) []byte, t *rapid.T) string {
			dst := get(vlib.Bytes(t, 0, 300, "dst"))
			msg := get(vlib.Bytes(t, 0, 40, "msg"))
			e := expander.NewExpanderMD(crypto.SHA256, dst)
			return fmt.Sprintf("%x%x", e.Expand(msg, 48), e.Expand(msg, 20))
		}},
		call{"expander.XOF.Expand", func(get func([]byte) []byte, t *rapid.T) string {
			dst := get(vlib.Bytes(t, 0, 300, "dst"))
			msg := get(vlib.Bytes(t, 0, 40, "msg"))
			e := expander.NewExpanderXOF(xof.SHAKE128, 128, dst)
			return fmt.Sprintf("%x%x", e.Expand(msg, 48), e.Expand(msg, 20))
		}},
		call{"ed25519.Sign+SignPh+Verify", func(get func([]byte) []byte, t *rapid.T) string {
			seed := get(vlib.Bytes(t, 32, 32, "seed"))
			msg := get(vlib.Bytes(t, 0, 50, "msg"))
			sk := ed25519.NewKeyFromSeed(seed)
			sig := ed25519.Sign(sk, msg)
			sig2 := ed25519.SignPh(sk, msg, "ctx")
			pk := get(sk.Public().(ed25519.PublicKey))
			sigA := get(sig)
			return fmt.Sprintf("%x%x%v", sig, sig2, ed25519.Verify(pk, msg, sigA))
		}},
		call{"ed448.Sign+Verify", func(get func([]byte) []byte, t *rapid.T) string {
			seed := get(vlib.Bytes(t, 57, 57, "seed"))
			msg := get(vlib.Bytes(t, 0, 50, "msg"))
			sk := ed448.NewKeyFromSeed(seed)
			sig := ed448.Sign(sk, msg, "c")
			pk := get(sk.Public().(ed448.PublicKey))
			sigA := get(sig)
			return fmt.Sprintf("%x%v", sig, ed448.Verify(pk, msg, sigA, "c"))
		}},
		call{"mlkem768.Scheme", func(get func([]byte) []byte, t *rapid.T) string {
			s := mlkem768.Scheme()
			seed := get(vlib.Bytes(t, s.SeedSize(), s.SeedSize(), "seed"))
			eseed := get(vlib.Bytes(t, s.EncapsulationSeedSize(), s.EncapsulationSeedSize(), "eseed"))
			pk, sk := s.DeriveKeyPair(seed)
			ct, ss, err := s.EncapsulateDeterministically(pk, eseed)
			if err != nil {
				return err.Error()
			}
			ctA := get(ct)
			pkA := get(mb(pk.MarshalBinary()))
			pk2, _ := s.UnmarshalBinaryPublicKey(pkA)
			ss2, _ := s.Decapsulate(sk, ctA)
			return fmt.Sprintf("%x%x%x%v", ct[:16], ss, ss2, pk2.Equal(pk))
		}},
		call{"hpke.Seal+Open", func(get func([]byte) []byte, t *rapid.T) string {
			k := hpke.KEM_X25519_HKDF_SHA256
			s := k.Scheme()
			suite := hpke.NewSuite(k, hpke.KDF_HKDF_SHA256, hpke.AEAD_AES128GCM)
			info := get(vlib.Bytes(t, 0, 20, "info"))
			pt := get(vlib.Bytes(t, 0, 40, "pt"))
			aad := get(vlib.Bytes(t, 0, 20, "aad"))
			pk, sk := s.DeriveKeyPair(get(vlib.Bytes(t, 32, 32, "seed")))
			snd, _ := suite.NewSender(pk, info)
			enc, sealer, err := snd.Setup(vlib.DrawReader(t, "rnd"))
			if err != nil {
				return err.Error()
			}
			ct, _ := sealer.Seal(pt, aad)
			encA, ctA := get(enc), get(ct)
			rcv, _ := suite.NewReceiver(sk, info)
			op, err := rcv.Setup(encA)
			if err != nil {
				return err.Error()
			}
			pt2, err := op.Open(ctA, aad)
			return fmt.Sprintf("%x%x%x%v%x", enc, ct, pt2, err, sealer.Export(aad, 16))
		}},
		call{"ascon.Seal+Open", func(get func([]byte) []byte, t *rapid.T) string {
			key := get(vlib.Bytes(t, 16, 16, "key"))
			nonce := get(vlib.Bytes(t, 16, 16, "nonce"))
			pt := get(vlib.Bytes(t, 0, 40, "pt"))
			ad := get(vlib.Bytes(t, 0, 20, "ad"))
			c, err := ascon.New(key, ascon.Ascon128)
			if err != nil {
				return err.Error()
			}
			ct := c.Seal(nil, nonce, pt, ad)
			ctA := get(ct)
			pt2, err := c.Open(nil, nonce, ctA, ad)
			return fmt.Sprintf("%x%x%v", ct, pt2, err)
		}},
	)
	// every signature and KEM scheme through the generic API
	for _, sc := range signschemes.All() {
		sc := sc
		calls = append(calls, call{"sign/" + sc.Name(), func(get func([]byte) []byte, t *rapid.T) string {
			seed := get(vlib.Bytes(t, sc.SeedSize(), sc.SeedSize(), "seed"))
			msg := get(vlib.Bytes(t, 0, 40, "msg"))
			var opts *sign.SignatureOpts
			if sc.SupportsContext() {
				opts = &sign.SignatureOpts{Context: string(vlib.Bytes(t, 0, 20, "ctx"))}
			}
			pk, sk := sc.DeriveKey(seed)
			sig := sc.Sign(sk, msg, opts)
			sigA := get(sig)
			pkb := get(mb(pk.MarshalBinary()))
			pk2, err := sc.UnmarshalBinaryPublicKey(pkb)
			if err != nil {
				return err.Error()
			}
			out := fmt.Sprintf("%x %v", vlib.Hash64(sig), sc.Verify(pk2, msg, sigA, opts))
			// refused inputs are operands too: an altered signature / key must be left as it was handed in
			badSig := get(vlib.Mutate(t, sig, nil, "badsig").Out)
			badPk := get(vlib.Mutate(t, mb(pk.MarshalBinary()), nil, "badpk").Out)
			out += fmt.Sprint(sc.Verify(pk2, msg, badSig, opts))
			if pk3, err := sc.UnmarshalBinaryPublicKey(badPk); err == nil {
				out += fmt.Sprint(sc.Verify(pk3, msg, sigA, opts))
			}
			return out
		}})
	}
	for _, ks := range allKEMs() {
		ks := ks
		calls = append(calls, call{"kem/" + ks.Name(), func(get func([]byte) []byte, t *rapid.T) string {
			seed := get(vlib.Bytes(t, ks.SeedSize(), ks.SeedSize(), "seed"))
			eseed := get(vlib.Bytes(t, ks.EncapsulationSeedSize(), ks.EncapsulationSeedSize(), "eseed"))
			pk, sk := ks.DeriveKeyPair(seed)
			ct, ss, err := ks.EncapsulateDeterministically(pk, eseed)
			if err != nil {
				return err.Error()
			}
			ctA := get(ct)
			ss2, err := ks.Decapsulate(sk, ctA)
			skb := get(mb(sk.MarshalBinary()))
			sk2, err2 := ks.UnmarshalBinaryPrivateKey(skb)
			if err2 != nil {
				return err2.Error()
			}
			ss3, _ := ks.Decapsulate(sk2, ctA)
			badCt := get(vlib.Mutate(t, ct, nil, "badct").Out)
			ss4, err4 := ks.Decapsulate(sk2, badCt)
			badPk := get(vlib.Mutate(t, mb(pk.MarshalBinary()), nil, "badpk").Out)
			_, err5 := ks.UnmarshalBinaryPublicKey(badPk)
			return fmt.Sprintf("%x %x %x %v %x %v %v", ss, ss2, ss3, err, ss4, err4 == nil, err5 == nil)
		}})
	}
	rsaKeys := loadRSAKeys()
	calls = append(calls,
		call{"partiallyblindrsa", func(get func([]byte) []byte, t *rapid.T) string {
			// client side only (the pool has no safe-prime key for a Signer): Blind and Verify derive the
			// per-metadata public key from the caller's metadata
			key := rsaKeys[0]
			v := partiallyblindrsa.NewVerifier(&key.PublicKey, crypto.SHA384)
			msg := get(vlib.Bytes(t, 0, 40, "msg"))
			md := get(vlib.Bytes(t, 0, 40, "metadata"))
			bm, _, err := v.Blind(vlib.DrawReader(t, "rd"), msg, md)
			if err != nil {
				return err.Error()
			}
			sig := get(make([]byte, (key.N.BitLen()+7)/8))
			return fmt.Sprintf("%d %v", len(bm), v.Verify(msg, md, sig) != nil)
		}},
		call{"blindrsa", func(get func([]byte) []byte, t *rapid.T) string {
			key := rsaKeys[0]
			c, err := blindrsa.NewClient(blindrsa.SHA384PSSRandomized, &key.PublicKey)
			if err != nil {
				return err.Error()
			}
			msg := get(vlib.Bytes(t, 0, 40, "msg"))
			rd := vlib.DrawReader(t, "rd")
			pm, err := c.Prepare(rd, msg)
			if err != nil {
				return err.Error()
			}
			pmA := get(pm)
			bm, st, err := c.Blind(rd, pmA)
			if err != nil {
				return err.Error()
			}
			bs, err := blindrsa.NewSigner(key).BlindSign(get(bm))
			if err != nil {
				return err.Error()
			}
			sig, err := c.Finalize(st, get(bs))
			if err != nil {
				return err.Error()
			}
			return fmt.Sprint(c.Verify(pmA, get(sig)))
		}},
		call{"oprf.POPRF", func(get func([]byte) []byte, t *rapid.T) string {
			su := oprf.SuiteP256
			sk, err := oprf.DeriveKey(su, oprf.PartialObliviousMode, get(vlib.Bytes(t, 32, 32, "seed")), get(vlib.Bytes(t, 0, 20, "kinfo")))
			if err != nil {
				return err.Error()
			}
			srv := oprf.NewPartialObliviousServer(su, sk)
			cl := oprf.NewPartialObliviousClient(su, srv.PublicKey())
			in := get(vlib.Bytes(t, 1, 30, "input"))
			info := get(vlib.Bytes(t, 0, 30, "info"))
			fd, req, err := cl.Blind([][]byte{in})
			if err != nil {
				return err.Error()
			}
			ev, err := srv.Evaluate(req, info)
			if err != nil {
				return err.Error()
			}
			out, err := cl.Finalize(fd, ev, info)
			if err != nil {
				return err.Error()
			}
			full, _ := srv.FullEvaluate(in, info)
			return fmt.Sprint(bytes.Equal(out[0], full), srv.VerifyFinalize(in, info, get(out[0])))
		}},
		call{"bls", func(get func([]byte) []byte, t *rapid.T) string {
			sk, err := bls.KeyGen[bls.G1](get(vlib.Bytes(t, 32, 40, "ikm")), get(vlib.Bytes(t, 0, 20, "salt")), get(vlib.Bytes(t, 0, 20, "info")))
			if err != nil {
				return err.Error()
			}
			msg := get(vlib.Bytes(t, 0, 40, "msg"))
			sig := bls.Sign(sk, msg)
			return fmt.Sprintf("%x %v", vlib.Hash64(sig), bls.Verify(sk.PublicKey(), msg, get(sig)))
		}},
		call{"k12+xof", func(get func([]byte) []byte, t *rapid.T) string {
			msg := get(vlib.Bytes(t, 0, 300, "msg"))
			cst := get(vlib.Bytes(t, 0, 40, "custom"))
			o := make([]byte, 32)
			k12.Draft10Sum(o, msg, cst)
			out := fmt.Sprintf("%x", o)
			for _, id := range []xof.ID{xof.SHAKE128, xof.SHAKE256, xof.BLAKE2XB, xof.BLAKE2XS, xof.K12D10} {
				x := id.New()
				_, _ = x.Write(msg)
				_, _ = x.Read(o)
				out += fmt.Sprintf("%x", o[:8])
			}
			return out
		}},
	)
	calls = append(calls,
		call{"fourq.Unmarshal+curve4q.Shared", func(get func([]byte) []byte, t *rapid.T) string {
			var k [32]byte
			copy(k[:], vlib.Bytes(t, 32, 32, "k"))
			var P fourq.Point
			P.ScalarBaseMult(&k)
			var enc [32]byte
			P.Marshal(&enc)
			// structured refusals: sign bit, a coordinate component equal to p or with its top bit set
			switch rapid.IntRange(0, 5).Draw(t, "hostile") {
			case 1:
				enc[31] |= 0x80
				enc[15] |= 0x80
			case 2:
				enc[31] |= 0x80
				for i := 0; i < 15; i++ {
					enc[i] = 0xff
				}
				enc[15] = 0x7f
			case 3:
				for i := 16; i < 31; i++ {
					enc[i] = 0xff
				}
				enc[31] = 0xff
			case 4:
				enc[rapid.IntRange(0, 31).Draw(t, "fb")] ^= 1 << rapid.IntRange(0, 7).Draw(t, "fbit")
				enc[31] |= 0x80
			case 5:
				vlib.FillRandom(t, enc[:], "frnd")
			}
			in := (*[32]byte)(get(enc[:]))
			var Q fourq.Point
			ok := Q.Unmarshal(in)
			var sh, sk curve4q.Key
			copy(sk[:], k[:])
			pub := (*curve4q.Key)(get(enc[:]))
			ok2 := curve4q.Shared(&sh, &sk, pub)
			return fmt.Sprint(ok, ok2, sh[:4])
		}},
		call{"x25519+x448.Shared", func(get func([]byte) []byte, t *rapid.T) string {
			u := vlib.Bytes(t, 56, 56, "u")
			if rapid.Bool().Draw(t, "noncanonical") {
				for i := range u {
					u[i] = 0xff
				}
				u[0] = byte(rapid.SampledFrom([]int{0xec, 0xed, 0xee, 0xff, 0xfe}).Draw(t, "u0"))
			}
			sk := vlib.Bytes(t, 56, 56, "sk")
			var s1, k1 x25519.Key
			copy(k1[:], sk)
			p1 := (*x25519.Key)(get(u[:32]))
			ok1 := x25519.Shared(&s1, (*x25519.Key)(get(k1[:])), p1)
			var s2, k2 x448.Key
			copy(k2[:], sk)
			p2 := (*x448.Key)(get(u))
			ok2 := x448.Shared(&s2, (*x448.Key)(get(k2[:])), p2)
			return fmt.Sprintf("%v %x %v %x", ok1, s1[:4], ok2, s2[:4])
		}},
	)
	sub := "seq/args"
	for _, c := range calls {
		c := c
		t.Run(c.name, func(t *testing.T) {
			vlib.Check(t, vlib.N(6, 60), func(t *rapid.T) {
				// the same drawn contents are needed twice: record them in the first pass
				var contents [][]byte
				a := newArena(t, 1<<18)
				a.freeze()
				first := true
				var got string
				getArena := func(b []byte) []byte {
					contents = append(contents, append([]byte{}, b...))
					s := a.take(b)
					_ = first
					return s
				}
				if p, st := vlib.Catch(func() { got = c.run(getArena, t) }); p != nil {
					vlib.Report(t, "C11/args/"+c.name+"/panic", fmt.Sprintf("%v\n%s", p, st))
					return
				}
				vlib.Eval(sub)
				if !a.intact() {
					i := 0
					for i < len(a.buf) && a.buf[i] == a.orig[i] {
						i++
					}
					vlib.Report(t, "C11/args/"+c.name+"/writes-to-caller-memory", fmt.Sprintf("the call changed byte %d of the buffer its arguments were sliced from (%d bytes of arguments)", i, a.off))
					return
				}
				vlib.NonTrivial(sub, "call="+c.name, []byte(c.name), bytes.Join(contents, []byte{0}))
				vlib.Sample(sub, c.name, fmt.Sprintf("%s with %d byte arguments carved from one 64 KiB arena → %.60s", c.name, len(contents), got))
			})
		})
	}
}
