//go:build verif

package c11

import (
	"fmt"
	"math/big"
	"reflect"
	"sort"
	"strings"
	"testing"

	"github.com/cloudflare/circl/ecc/bls12381"
	blsff "github.com/cloudflare/circl/ecc/bls12381/ff"
	"github.com/cloudflare/circl/ecc/fourq"
	"github.com/cloudflare/circl/ecc/goldilocks"
	"github.com/cloudflare/circl/group"
	"github.com/cloudflare/circl/hpke"
	kemschemes "github.com/cloudflare/circl/kem/schemes"
	signschemes "github.com/cloudflare/circl/sign/schemes"
	"github.com/cloudflare/circl/vdaf/prio3/arith/fp128"
	"github.com/cloudflare/circl/vdaf/prio3/arith/fp64"
	"github.com/cloudflare/circl/vdaf/prio3/count"
	"github.com/cloudflare/circl/zz_verif/vlib"
)

var bigIntPtr = reflect.TypeOf((*big.Int)(nil))

// dump prints everything reachable from v (through pointers, interfaces, slices, unexported fields).
func dump(v reflect.Value, depth int, sb *strings.Builder) {
	if depth > 8 {
		sb.WriteString("…")
		return
	}
	if v.IsValid() && v.Type() == bigIntPtr {
		if v.IsNil() {
			sb.WriteString("big:nil")
		} else if v.CanInterface() {
			sb.WriteString("big:" + v.Interface().(*big.Int).Text(16))
		} else {
			dump(v.Elem(), depth+1, sb)
		}
		return
	}
	switch v.Kind() {
	case reflect.Invalid:
		sb.WriteString("nil")
	case reflect.Ptr, reflect.Interface:
		if v.IsNil() {
			sb.WriteString("nil")
			return
		}
		sb.WriteString("&")
		dump(v.Elem(), depth+1, sb)
	case reflect.Struct:
		sb.WriteString(v.Type().Name() + "{")
		for i := 0; i < v.NumField(); i++ {
			sb.WriteString(v.Type().Field(i).Name + ":")
			dump(v.Field(i), depth+1, sb)
			sb.WriteString(" ")
		}
		sb.WriteString("}")
	case reflect.Slice, reflect.Array:
		sb.WriteString("[")
		for i := 0; i < v.Len(); i++ {
			dump(v.Index(i), depth+1, sb)
			sb.WriteString(",")
		}
		sb.WriteString("]")
	case reflect.Map:
		keys := []string{}
		for _, k := range v.MapKeys() {
			var kb, vb strings.Builder
			dump(k, depth+1, &kb)
			dump(v.MapIndex(k), depth+1, &vb)
			keys = append(keys, kb.String()+"=>"+vb.String())
		}
		sort.Strings(keys)
		sb.WriteString("map[" + strings.Join(keys, ";") + "]")
	case reflect.Bool:
		fmt.Fprint(sb, v.Bool())
	case reflect.Int, reflect.Int8, reflect.Int16, reflect.Int32, reflect.Int64:
		fmt.Fprint(sb, v.Int())
	case reflect.Uint, reflect.Uint8, reflect.Uint16, reflect.Uint32, reflect.Uint64, reflect.Uintptr:
		fmt.Fprintf(sb, "%x", v.Uint())
	case reflect.String:
		sb.WriteString(v.String())
	case reflect.Func, reflect.Chan, reflect.UnsafePointer:
		sb.WriteString(v.Kind().String())
	default:
		fmt.Fprintf(sb, "<%s>", v.Kind())
	}
}

func dumpAny(x any) string {
	var sb strings.Builder
	dump(reflect.ValueOf(x), 0, &sb)
	return sb.String()
}

// scribble changes everything a caller CAN change through the value it was handed: exported
// fields, elements of slices/arrays/maps reachable through pointers, and big.Int values (through
// their methods). Returns the number of places changed.
func scribble(v reflect.Value, depth int) int {
	if !v.IsValid() || depth > 8 {
		return 0
	}
	if v.Type() == bigIntPtr {
		if v.IsNil() || !v.CanInterface() {
			return 0
		}
		b := v.Interface().(*big.Int)
		b.Add(b, big.NewInt(1))
		b.Lsh(b, 3)
		return 1
	}
	n := 0
	switch v.Kind() {
	case reflect.Ptr, reflect.Interface:
		if !v.IsNil() {
			n += scribble(v.Elem(), depth+1)
		}
	case reflect.Struct:
		for i := 0; i < v.NumField(); i++ {
			if v.Type().Field(i).PkgPath == "" { // exported
				n += scribble(v.Field(i), depth+1)
			}
		}
	case reflect.Slice, reflect.Array:
		for i := 0; i < v.Len(); i++ {
			n += scribble(v.Index(i), depth+1)
		}
	case reflect.Map:
		for _, k := range v.MapKeys() {
			n += scribble(v.MapIndex(k), depth+1)
		}
	case reflect.Bool:
		if v.CanSet() {
			v.SetBool(!v.Bool())
			n++
		}
	case reflect.Int, reflect.Int8, reflect.Int16, reflect.Int32, reflect.Int64:
		if v.CanSet() {
			v.SetInt(v.Int() ^ 0x55)
			n++
		}
	case reflect.Uint, reflect.Uint8, reflect.Uint16, reflect.Uint32, reflect.Uint64:
		if v.CanSet() {
			v.SetUint(v.Uint() ^ 0x55)
			n++
		}
	case reflect.String:
		if v.CanSet() {
			v.SetString(v.String() + "!")
			n++
		}
	}
	// slices of interfaces (scheme lists): a caller can also replace the elements
	if v.Kind() == reflect.Slice && v.Len() > 0 && v.Index(0).Kind() == reflect.Interface && v.Index(0).CanSet() {
		v.Index(0).Set(reflect.Zero(v.Index(0).Type()))
		n++
	}
	return n
}

type accessor struct {
	name string
	get  func() any
}

func accessors() []accessor {
	l := []accessor{
		{"fourq.Params", func() any { return fourq.Params() }},
		{"goldilocks.Curve.Order", func() any { o := goldilocks.Curve{}.Order(); return &o }},
		{"goldilocks.Curve.Generator", func() any { return goldilocks.Curve{}.Generator() }},
		{"goldilocks.Curve.Identity", func() any { return goldilocks.Curve{}.Identity() }},
		{"bls12381.Order", func() any { return bls12381.Order() }},
		{"bls12381/ff.FpOrder", func() any { return blsff.FpOrder() }},
		{"bls12381/ff.ScalarOrder", func() any { return blsff.ScalarOrder() }},
		{"bls12381.G1Generator", func() any { return bls12381.G1Generator() }},
		{"bls12381.G2Generator", func() any { return bls12381.G2Generator() }},
		{"prio3/fp64.Order", func() any { return fp64.Fp{}.Order() }},
		{"prio3/fp128.Order", func() any { return fp128.Fp{}.Order() }},
		{"kem/schemes.All", func() any { return kemschemes.All() }},
		{"sign/schemes.All", func() any { return signschemes.All() }},
		{"prio3/count.Params", func() any {
			c, err := count.New(2, []byte("ctx"))
			if err != nil {
				panic(err)
			}
			p := c.Params()
			return &p
		}},
		{"hpke.Suite.Params", func() any {
			k, d, a := hpke.NewSuite(hpke.KEM_X25519_HKDF_SHA256, hpke.KDF_HKDF_SHA256, hpke.AEAD_AES128GCM).Params()
			return &[3]uint16{uint16(k), uint16(d), uint16(a)}
		}},
	}
	for _, g := range []group.Group{group.P256, group.P384, group.P521, group.Ristretto255} {
		g := g
		l = append(l,
			accessor{"group." + fmt.Sprint(g) + ".Params", func() any { return g.Params() }},
			accessor{"group." + fmt.Sprint(g) + ".Generator", func() any { return g.Generator() }},
			accessor{"group." + fmt.Sprint(g) + ".Identity", func() any { return g.Identity() }},
			accessor{"group." + fmt.Sprint(g) + ".NewScalar", func() any { return g.NewScalar() }},
		)
	}
	return l
}

// TestC11SeqAccessors: whatever a caller does to the value an accessor returned — through exported
// fields, element writes or big.Int methods — a later call of the accessor returns the original value.
func TestC11SeqAccessors(t *testing.T) {
	defer vlib.Done()
	for _, a := range accessors() {
		sub := "accessors/" + a.name
		vlib.Eval(sub)
		first := a.get()
		want := dumpAny(first)
		other := a.get() // a second result taken BEFORE the first one is scribbled on
		n := scribble(reflect.ValueOf(first), 0)
		if got := dumpAny(other); got != want {
			vlib.ReportDirect(t, "C11/accessors/"+a.name+"/results-share-storage",
				fmt.Sprintf("two results of %s: writing through the first changed the second\n before %.300s\n after  %.300s", a.name, want, got),
				map[string]interface{}{"accessor": a.name})
			continue
		}
		if got := dumpAny(a.get()); got != want {
			vlib.ReportDirect(t, "C11/accessors/"+a.name+"/later-call-changed",
				fmt.Sprintf("%s returns a different value after a previous result was modified (%d places written)\n before %.300s\n after  %.300s", a.name, n, want, got),
				map[string]interface{}{"accessor": a.name})
			continue
		}
		if n > 0 {
			vlib.NonTrivial(sub, "scribbled", []byte(a.name))
			vlib.Sample(sub, "scribble", fmt.Sprintf("%s: %d places of the returned value overwritten, later calls unchanged", a.name, n))
		} else {
			vlib.Class(sub, "nothing-writable")
		}
	}
}
