//go:build verif

package c11

import (
	"bytes"
	"fmt"
	"testing"

	"github.com/cloudflare/circl/group"
	"github.com/cloudflare/circl/oprf"
	"github.com/cloudflare/circl/zz_verif/vlib"
	"pgregory.net/rapid"
)

func elemsHex(es []group.Element) string {
	out := ""
	for _, e := range es {
		out += fmt.Sprintf("%x,", mb(e.MarshalBinaryCompress()))
	}
	return out
}

// TestC11SeqOPRF: in the three OPRF modes every protocol call leaves its operands as they were and hands
// back objects of its own: the evaluation request after Evaluate is the one the client made, a second
// Evaluate of the same request gives the same evaluation and does not change the first, the finalize data
// can be finalized again with the same result, and the outputs are the PRF values FullEvaluate gives.
func TestC11SeqOPRF(t *testing.T) {
	defer vlib.Done()
	for _, su := range []oprf.Suite{oprf.SuiteRistretto255, oprf.SuiteP256, oprf.SuiteP384, oprf.SuiteP521} {
		for _, mode := range []oprf.Mode{oprf.BaseMode, oprf.VerifiableMode, oprf.PartialObliviousMode} {
			su, mode := su, mode
			name := fmt.Sprintf("%s/mode%d", su.Identifier(), mode)
			sub := "oprf-operands/" + name
			t.Run(name, func(t *testing.T) {
				vlib.Check(t, vlib.N(10, 60), func(t *rapid.T) {
					seed := vlib.Bytes(t, 32, 32, "seed")
					n := rapid.IntRange(1, 3).Draw(t, "n")
					inputs := make([][]byte, n)
					for i := range inputs {
						inputs[i] = vlib.Bytes(t, 1, 24, "in")
					}
					info := vlib.Bytes(t, 0, 16, "info")
					sk, err := oprf.DeriveKey(su, mode, seed, []byte("c11"))
					if err != nil {
						t.Fatalf("harness: DeriveKey: %v", err)
					}
					vlib.Eval(sub)
					skb := mb(sk.MarshalBinary())
					var blindF func([][]byte) (*oprf.FinalizeData, *oprf.EvaluationRequest, error)
					var eval func(*oprf.EvaluationRequest) (*oprf.Evaluation, error)
					var fin func(*oprf.FinalizeData, *oprf.Evaluation) ([][]byte, error)
					var full func([]byte) ([]byte, error)
					switch mode {
					case oprf.BaseMode:
						c, s := oprf.NewClient(su), oprf.NewServer(su, sk)
						blindF, eval, fin, full = c.Blind, s.Evaluate, c.Finalize, s.FullEvaluate
					case oprf.VerifiableMode:
						s := oprf.NewVerifiableServer(su, sk)
						c := oprf.NewVerifiableClient(su, s.PublicKey())
						blindF, eval, fin, full = c.Blind, s.Evaluate, c.Finalize, s.FullEvaluate
					default:
						s := oprf.NewPartialObliviousServer(su, sk)
						c := oprf.NewPartialObliviousClient(su, s.PublicKey())
						blindF = c.Blind
						eval = func(r *oprf.EvaluationRequest) (*oprf.Evaluation, error) { return s.Evaluate(r, info) }
						fin = func(f *oprf.FinalizeData, e *oprf.Evaluation) ([][]byte, error) { return c.Finalize(f, e, info) }
						full = func(in []byte) ([]byte, error) { return s.FullEvaluate(in, info) }
					}
					inCopy := make([][]byte, n)
					for i := range inputs {
						inCopy[i] = append([]byte{}, inputs[i]...)
					}
					fd, req, err := blindF(inputs)
					if err != nil {
						t.Fatalf("harness: Blind: %v", err)
					}
					req0 := elemsHex(req.Elements)
					ev1, err := eval(req)
					if err != nil {
						t.Fatalf("harness: Evaluate: %v", err)
					}
					bad := func(what, detail string) {
						vlib.Report(t, "C11/oprf/"+name+"/"+what, fmt.Sprintf("seed %x inputs %x info %x: %s", seed, inCopy, info, detail))
					}
					if got := elemsHex(req.Elements); got != req0 {
						bad("Evaluate-changed-the-request", fmt.Sprintf("request elements before %s after %s", req0, got))
						return
					}
					ev1Hex := elemsHex(ev1.Elements)
					ev2, err := eval(req)
					if err != nil {
						bad("second-Evaluate-of-the-same-request-fails", err.Error())
						return
					}
					if got := elemsHex(ev2.Elements); got != ev1Hex {
						bad("second-Evaluate-of-the-same-request-differs", fmt.Sprintf("first %s second %s", ev1Hex, got))
						return
					}
					if got := elemsHex(ev1.Elements); got != ev1Hex {
						bad("earlier-Evaluation-changed-by-a-later-Evaluate", fmt.Sprintf("before %s after %s", ev1Hex, got))
						return
					}
					out1, err := fin(fd, ev1)
					if err != nil {
						bad("Finalize-fails", err.Error())
						return
					}
					if got := elemsHex(ev1.Elements); got != ev1Hex || elemsHex(req.Elements) != req0 {
						bad("Finalize-changed-its-operands", fmt.Sprintf("evaluation before %s after %s; request before %s after %s", ev1Hex, got, req0, elemsHex(req.Elements)))
						return
					}
					out2, err := fin(fd, ev2)
					if err != nil {
						bad("second-Finalize-fails", err.Error())
						return
					}
					for i := range inputs {
						want, err := full(inCopy[i])
						if err != nil {
							t.Fatalf("harness: FullEvaluate: %v", err)
						}
						if !bytes.Equal(out1[i], want) || !bytes.Equal(out2[i], want) {
							bad("output-is-not-the-PRF-value", fmt.Sprintf("input %d: first Finalize %x, second %x, FullEvaluate %x", i, out1[i], out2[i], want))
							return
						}
						if !bytes.Equal(inputs[i], inCopy[i]) {
							bad("input-changed", fmt.Sprintf("input %d", i))
							return
						}
					}
					if !bytes.Equal(mb(sk.MarshalBinary()), skb) {
						bad("private-key-changed", "")
						return
					}
					vlib.NonTrivial(sub, "blind-evaluate-twice-finalize-twice", seed, info, inCopy[0], []byte{byte(n)})
					vlib.Sample(sub, "case", fmt.Sprintf("%s n=%d seed=%x info=%x", name, n, seed[:4], info))
				})
			})
		}
	}
}
