//go:build verif

package c11

import (
	"fmt"
	"testing"

	"github.com/cloudflare/circl/ecc/bls12381"
	"github.com/cloudflare/circl/ecc/fourq"
	"github.com/cloudflare/circl/ecc/goldilocks"
	"github.com/cloudflare/circl/zz_verif/vlib"
	"pgregory.net/rapid"
)

func b2s(b bool) string { return fmt.Sprint(b) }

// ---------------------------------------------------------------------------
// ecc/goldilocks

func goldilocksMachine() *machine {
	var c goldilocks.Curve
	P := func(o any) *goldilocks.Point { return o.(*goldilocks.Point) }
	S := func(o any) *goldilocks.Scalar { return o.(*goldilocks.Scalar) }
	fixedK := func(n byte) *goldilocks.Scalar {
		var k goldilocks.Scalar
		for i := range k {
			k[i] = n + byte(i)*3
		}
		k.Red()
		return &k
	}
	m := &machine{name: "goldilocks", kinds: map[string]*kind{
		"pt": {name: "pt", fresh: func() any { return c.Identity() },
			enc: func(o any) []byte {
				b, err := P(o).MarshalBinary()
				if err != nil {
					panic(err)
				}
				return b
			},
			dec: func(d any, b []byte) error { return P(d).UnmarshalBinary(b) },
			ctors: map[string]func() any{
				"Generator": func() any { return c.Generator() },
				"Identity":  func() any { return c.Identity() },
				"kG":        func() any { return c.ScalarBaseMult(fixedK(7)) },
			}},
		"sc": {name: "sc", fresh: func() any { return &goldilocks.Scalar{} },
			enc: func(o any) []byte { t := *S(o); t.Red(); return append([]byte{}, t[:]...) },
			dec: func(d any, b []byte) error { S(d).FromBytes(b); return nil },
			ctors: map[string]func() any{
				"Order": func() any { o := c.Order(); return &o },
				"Zero":  func() any { return &goldilocks.Scalar{} },
				"k":     func() any { return fixedK(99) },
				"One":   func() any { var s goldilocks.Scalar; s[0] = 1; return &s },
			}},
	}}
	m.ops = []op{
		{name: "Curve.Add", args: []string{"pt", "pt"}, resKind: "pt", apply: func(_ any, a []any, _ []int) (any, string) { return c.Add(P(a[0]), P(a[1])), "" }},
		{name: "Curve.Double", args: []string{"pt"}, resKind: "pt", apply: func(_ any, a []any, _ []int) (any, string) { return c.Double(P(a[0])), "" }},
		{name: "Curve.ScalarMult", args: []string{"sc", "pt"}, resKind: "pt", apply: func(_ any, a []any, _ []int) (any, string) { return c.ScalarMult(S(a[0]), P(a[1])), "" }},
		{name: "Curve.ScalarBaseMult", args: []string{"sc"}, resKind: "pt", apply: func(_ any, a []any, _ []int) (any, string) { return c.ScalarBaseMult(S(a[0])), "" }},
		{name: "Curve.CombinedMult", args: []string{"sc", "sc", "pt"}, resKind: "pt", apply: func(_ any, a []any, _ []int) (any, string) { return c.CombinedMult(S(a[0]), S(a[1]), P(a[2])), "" }},
		{name: "Curve.IsOnCurve", args: []string{"pt"}, apply: func(_ any, a []any, _ []int) (any, string) { return nil, b2s(c.IsOnCurve(P(a[0]))) }},
		{name: "P.Add", recv: "pt", usesRecv: true, args: []string{"pt"}, apply: func(r any, a []any, _ []int) (any, string) { P(r).Add(P(a[0])); return r, "" }},
		{name: "P.Double", recv: "pt", usesRecv: true, apply: func(r any, _ []any, _ []int) (any, string) { P(r).Double(); return r, "" }},
		{name: "P.Neg", recv: "pt", usesRecv: true, apply: func(r any, _ []any, _ []int) (any, string) { P(r).Neg(); return r, "" }},
		{name: "P.IsEqual", recv: "pt", usesRecv: true, args: []string{"pt"}, apply: func(r any, a []any, _ []int) (any, string) { return r, b2s(P(r).IsEqual(P(a[0]))) }},
		{name: "P.IsIdentity", recv: "pt", usesRecv: true, apply: func(r any, _ []any, _ []int) (any, string) { return r, b2s(P(r).IsIdentity()) }},
		{name: "P.ToAffine", recv: "pt", usesRecv: true, apply: func(r any, _ []any, _ []int) (any, string) {
			x, y := P(r).ToAffine()
			return r, fmt.Sprintf("%x,%x", x, y)
		}},
		{name: "S.Add", recv: "sc", args: []string{"sc", "sc"}, apply: func(r any, a []any, _ []int) (any, string) { S(r).Add(S(a[0]), S(a[1])); return r, "" }},
		{name: "S.Sub", recv: "sc", args: []string{"sc", "sc"}, apply: func(r any, a []any, _ []int) (any, string) { S(r).Sub(S(a[0]), S(a[1])); return r, "" }},
		{name: "S.Mul", recv: "sc", args: []string{"sc", "sc"}, apply: func(r any, a []any, _ []int) (any, string) { S(r).Mul(S(a[0]), S(a[1])); return r, "" }},
		{name: "S.Neg", recv: "sc", usesRecv: true, apply: func(r any, _ []any, _ []int) (any, string) { S(r).Neg(); return r, "" }},
		{name: "S.Red", recv: "sc", usesRecv: true, apply: func(r any, _ []any, _ []int) (any, string) { S(r).Red(); return r, "" }},
		{name: "S.IsZero", recv: "sc", usesRecv: true, apply: func(r any, _ []any, _ []int) (any, string) { return r, b2s(S(r).IsZero()) }},
		// decoding byte strings of EVERY length (shorter and longer than a scalar) into a used object
		{name: "S.FromBytes/any-length", recv: "sc", args: []string{"sc"}, nints: 1, intMax: 116, apply: func(r any, a []any, n []int) (any, string) {
			src := *S(a[0])
			src.Red() // the model of an object is its reduced value: the bytes fed must be a function of that
			lens := []int{0, 1, 7, 8, 9, 31, 32, 33, 47, 48, 49, 50, 51, 52, 53, 54, 55, 56, 57, 58, 63, 64, 65, 111, 112, 113, 114, 115}
			buf := make([]byte, lens[n[0]%len(lens)])
			for i := range buf {
				buf[i] = src[i%len(src)] ^ byte(i/len(src))
			}
			S(r).FromBytes(buf)
			return r, ""
		}},
	}
	return m
}

// ---------------------------------------------------------------------------
// ecc/bls12381

func blsMachine() *machine {
	G1 := func(o any) *bls12381.G1 { return o.(*bls12381.G1) }
	G2 := func(o any) *bls12381.G2 { return o.(*bls12381.G2) }
	S := func(o any) *bls12381.Scalar { return o.(*bls12381.Scalar) }
	sc := func(n uint64) *bls12381.Scalar { s := new(bls12381.Scalar); s.SetUint64(n); return s }
	m := &machine{name: "bls12381", kinds: map[string]*kind{
		"g1": {name: "g1", fresh: func() any { g := new(bls12381.G1); g.SetIdentity(); return g },
			enc: func(o any) []byte { return G1(o).BytesCompressed() },
			dec: func(d any, b []byte) error { return G1(d).SetBytes(b) },
			ctors: map[string]func() any{
				"G1Generator": func() any { return bls12381.G1Generator() },
				"Identity":    func() any { g := new(bls12381.G1); g.SetIdentity(); return g },
				"Hash":        func() any { g := new(bls12381.G1); g.Hash([]byte("m"), []byte("d")); return g },
			}},
		"g2": {name: "g2", fresh: func() any { g := new(bls12381.G2); g.SetIdentity(); return g },
			enc: func(o any) []byte { return G2(o).BytesCompressed() },
			dec: func(d any, b []byte) error { return G2(d).SetBytes(b) },
			ctors: map[string]func() any{
				"G2Generator": func() any { return bls12381.G2Generator() },
				"Identity":    func() any { g := new(bls12381.G2); g.SetIdentity(); return g },
			}},
		"sc": {name: "sc", fresh: func() any { return new(bls12381.Scalar) },
			enc: func(o any) []byte {
				b, err := S(o).MarshalBinary()
				if err != nil {
					panic(err)
				}
				return b
			},
			dec: func(d any, b []byte) error { return S(d).UnmarshalBinary(b) },
			ctors: map[string]func() any{
				"Zero":    func() any { return new(bls12381.Scalar) },
				"One":     func() any { return sc(1) },
				"Big":     func() any { s := sc(0xfedcba9876543210); s.Sqr(s); s.Sqr(s); return s },
				"Order-1": func() any { s := sc(1); s.Neg(); return s },
			}},
	}}
	m.ops = []op{
		{name: "G1.Add", recv: "g1", args: []string{"g1", "g1"}, apply: func(r any, a []any, _ []int) (any, string) { G1(r).Add(G1(a[0]), G1(a[1])); return r, "" }},
		{name: "G1.Double", recv: "g1", usesRecv: true, apply: func(r any, _ []any, _ []int) (any, string) { G1(r).Double(); return r, "" }},
		{name: "G1.Neg", recv: "g1", usesRecv: true, apply: func(r any, _ []any, _ []int) (any, string) { G1(r).Neg(); return r, "" }},
		{name: "G1.ScalarMult", recv: "g1", args: []string{"sc", "g1"}, apply: func(r any, a []any, _ []int) (any, string) { G1(r).ScalarMult(S(a[0]), G1(a[1])); return r, "" }},
		{name: "G1.IsEqual", recv: "g1", usesRecv: true, args: []string{"g1"}, apply: func(r any, a []any, _ []int) (any, string) { return r, b2s(G1(r).IsEqual(G1(a[0]))) }},
		{name: "G1.IsOnG1", recv: "g1", usesRecv: true, apply: func(r any, _ []any, _ []int) (any, string) { return r, b2s(G1(r).IsOnG1()) + b2s(G1(r).IsIdentity()) }},
		{name: "G1.Bytes", recv: "g1", usesRecv: true, apply: func(r any, _ []any, _ []int) (any, string) { return r, fmt.Sprintf("%x", G1(r).Bytes()) }},
		{name: "G2.Add", recv: "g2", args: []string{"g2", "g2"}, apply: func(r any, a []any, _ []int) (any, string) { G2(r).Add(G2(a[0]), G2(a[1])); return r, "" }},
		{name: "G2.Double", recv: "g2", usesRecv: true, apply: func(r any, _ []any, _ []int) (any, string) { G2(r).Double(); return r, "" }},
		{name: "G2.Neg", recv: "g2", usesRecv: true, apply: func(r any, _ []any, _ []int) (any, string) { G2(r).Neg(); return r, "" }},
		{name: "G2.ScalarMult", recv: "g2", args: []string{"sc", "g2"}, apply: func(r any, a []any, _ []int) (any, string) { G2(r).ScalarMult(S(a[0]), G2(a[1])); return r, "" }},
		{name: "G2.IsEqual", recv: "g2", usesRecv: true, args: []string{"g2"}, apply: func(r any, a []any, _ []int) (any, string) { return r, b2s(G2(r).IsEqual(G2(a[0]))) }},
		{name: "Pair", args: []string{"g1", "g2"}, apply: func(_ any, a []any, _ []int) (any, string) {
			e := bls12381.Pair(G1(a[0]), G2(a[1]))
			b, _ := e.MarshalBinary()
			return nil, fmt.Sprintf("%x", b[:32])
		}},
		{name: "ProdPairFrac", args: []string{"g1", "g2", "g1", "g2"}, apply: func(_ any, a []any, _ []int) (any, string) {
			e := bls12381.ProdPairFrac([]*bls12381.G1{G1(a[0]), G1(a[2])}, []*bls12381.G2{G2(a[1]), G2(a[3])}, []int{1, -1})
			b, _ := e.MarshalBinary()
			return nil, fmt.Sprintf("%x", b[:32])
		}},
		{name: "S.Add", recv: "sc", args: []string{"sc", "sc"}, apply: func(r any, a []any, _ []int) (any, string) { S(r).Add(S(a[0]), S(a[1])); return r, "" }},
		{name: "S.Sub", recv: "sc", args: []string{"sc", "sc"}, apply: func(r any, a []any, _ []int) (any, string) { S(r).Sub(S(a[0]), S(a[1])); return r, "" }},
		{name: "S.Mul", recv: "sc", args: []string{"sc", "sc"}, apply: func(r any, a []any, _ []int) (any, string) { S(r).Mul(S(a[0]), S(a[1])); return r, "" }},
		{name: "S.Sqr", recv: "sc", args: []string{"sc"}, apply: func(r any, a []any, _ []int) (any, string) { S(r).Sqr(S(a[0])); return r, "" }},
		{name: "S.Inv", recv: "sc", args: []string{"sc"}, apply: func(r any, a []any, _ []int) (any, string) { S(r).Inv(S(a[0])); return r, "" }},
		{name: "S.Neg", recv: "sc", usesRecv: true, apply: func(r any, _ []any, _ []int) (any, string) { S(r).Neg(); return r, "" }},
		{name: "S.Set", recv: "sc", args: []string{"sc"}, apply: func(r any, a []any, _ []int) (any, string) { S(r).Set(S(a[0])); return r, "" }},
		{name: "S.SetBytes", recv: "sc", args: []string{"sc"}, apply: func(r any, a []any, _ []int) (any, string) {
			b, _ := S(a[0]).MarshalBinary()
			S(r).SetBytes(append(b, b...)) // 64 bytes, reduced modulo the order
			return r, ""
		}},
	}
	return m
}

// ---------------------------------------------------------------------------
// ecc/fourq

func fourqMachine() *machine {
	P := func(o any) *fourq.Point { return o.(*fourq.Point) }
	K := func(o any) *[fourq.Size]byte { return o.(*[fourq.Size]byte) }
	m := &machine{name: "fourq", kinds: map[string]*kind{
		"pt": {name: "pt", fresh: func() any { p := new(fourq.Point); p.SetIdentity(); return p },
			enc: func(o any) []byte { var b [fourq.Size]byte; P(o).Marshal(&b); return b[:] },
			dec: func(d any, b []byte) error {
				var a [fourq.Size]byte
				copy(a[:], b)
				if !P(d).Unmarshal(&a) {
					return fmt.Errorf("fourq: cannot unmarshal")
				}
				return nil
			},
			ctors: map[string]func() any{
				"Generator": func() any { p := new(fourq.Point); p.SetGenerator(); return p },
				"Identity":  func() any { p := new(fourq.Point); p.SetIdentity(); return p },
				"kG": func() any {
					p := new(fourq.Point)
					k := [fourq.Size]byte{5, 4, 3, 2, 1}
					p.ScalarBaseMult(&k)
					return p
				},
			}},
		"k": {name: "k", fresh: func() any { return new([fourq.Size]byte) },
			enc: func(o any) []byte { return append([]byte{}, K(o)[:]...) },
			dec: func(d any, b []byte) error { copy(K(d)[:], b); return nil },
			ctors: map[string]func() any{
				"k0": func() any { return new([fourq.Size]byte) },
				"k1": func() any { return &[fourq.Size]byte{1} },
				"kmax": func() any {
					k := new([fourq.Size]byte)
					for i := range k {
						k[i] = 0xff
					}
					return k
				},
				"krnd": func() any { k := new([fourq.Size]byte); vlib.ExpandInto(k[:], 4242); return k },
			}},
	}}
	m.ops = []op{
		{name: "P.Add", recv: "pt", args: []string{"pt", "pt"}, apply: func(r any, a []any, _ []int) (any, string) { P(r).Add(P(a[0]), P(a[1])); return r, "" }},
		{name: "P.ScalarMult", recv: "pt", args: []string{"k", "pt"}, apply: func(r any, a []any, _ []int) (any, string) { P(r).ScalarMult(K(a[0]), P(a[1])); return r, "" }},
		{name: "P.ScalarBaseMult", recv: "pt", args: []string{"k"}, apply: func(r any, a []any, _ []int) (any, string) { P(r).ScalarBaseMult(K(a[0])); return r, "" }},
		{name: "P.IsOnCurve", recv: "pt", usesRecv: true, apply: func(r any, _ []any, _ []int) (any, string) { return r, b2s(P(r).IsOnCurve()) + b2s(P(r).IsIdentity()) }},
		{name: "P.Unmarshal(input-unchanged)", recv: "pt", args: []string{"pt"}, apply: func(r any, a []any, _ []int) (any, string) {
			var b, c [fourq.Size]byte
			P(a[0]).Marshal(&b)
			c = b
			ok := P(r).Unmarshal(&b)
			return r, b2s(ok) + b2s(b == c)
		}},
	}
	return m
}

func TestC11SeqECC(t *testing.T) {
	defer vlib.Done()
	for _, mm := range []struct {
		m   *machine
		div int
	}{{goldilocksMachine(), 2}, {blsMachine(), 6}, {fourqMachine(), 1}} {
		m := mm.m
		snaps := m.takeSnapshots()
		t.Run(m.name, func(t *testing.T) {
			vlib.Check(t, vlib.N(160, 1200)/mm.div, func(t *rapid.T) { m.run(t, snaps) })
			m.decodeSweep(t)
			m.pairSweep(t)
		})
	}
}
